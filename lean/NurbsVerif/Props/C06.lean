import NurbsVerif.Model.Knots2
import NurbsVerif.Lemmas.InsertModel
import NurbsVerif.Lemmas.RemoveInvLib
import NurbsVerif.Lemmas.RemoveInvSurf
import NurbsVerif.Lemmas.RemoveInvVol
import NurbsVerif.Lemmas.RemoveObjFold
import NurbsVerif.Lemmas.InsertObjExamples
import NurbsVerif.Lemmas.KnotRowsRemIns
import NurbsVerif.Lemmas.KnotRowsRemOne
import NurbsVerif.Lemmas.UniqueExample
import NurbsVerif.Lemmas.UniqueTensorExample
import NurbsVerif.Lemmas.UniqueVolRows
import NurbsVerif.Lemmas.UniqueVolObjRows
import NurbsVerif.Lemmas.UniqueActive
import NurbsVerif.Lemmas.UniqueTensorObjKnots
import NurbsVerif.Lemmas.RemoveMultiExample

/-!
# C06  Removing a removable knot is exact and inverts insertion

Model: `Geomdl.knotRemoval` (A5.8 as coded after the repair of F-06), `knotRemovalKv`,
`removeKnotDir` / `removeKnot` (per-direction application of `operations.remove_knot`).

Proved here (every degree / position / prior multiplicity / count): the knot vector part, the sizes,
"insert `r` times then remove `t ≤ r` times = insert `r - t` times" (control points, exactly; `t = r`
restores the original net) for curves, for both directions of surfaces and all three directions of
volumes (gather / scatter of iso-curves as `operations.remove_knot` does it), the arguments the
library computes for the removal (span `k + r`, multiplicity `s + r`), the object-level round trip
for curves, surfaces and volumes (one requested direction per call), and equality of evaluated
points; and (section (U), curves) "WHENEVER REMOVABLE AT ALL": control points over a knot vector are unique, so a
knot that can be taken out without changing the curve – however the curve was produced – is taken out exactly.
(and, per direction, surfaces whose iso-curves are all removable); and (section (T)) the control net of a B-spline
SURFACE / VOLUME is unique (tensor-product linear independence), so a knot that is removable from the surface /
volume AS A SURFACE / VOLUME is removable from every iso-curve and is removed exactly – net level (`mapSurfU/V`,
`mapVol`, and the rows branch `mapVolRows` the code runs on volumes), any count `t ≤ r`, and object level
(`removeKnot` on a surface / volume `Shape` with the library's own span / multiplicity searches); knot insertion
preserves `AllActive` (the activity hypothesis may be checked on the reduced knot vector).
Section (M): SEVERAL DIRECTIONS IN ONE CALL – `insert_knot` requesting any subset of the directions of a surface /
volume followed by `remove_knot` with the same parameters and counts `t_d ≤ r_d` returns `insert_knot` with the counts
`r_d - t_d` (the original object for `t = r`), evaluated points unchanged; "removable at all" when one `remove_knot`
call requests several directions (a chain of removable knots in distinct directions, any order).  Tools: A5.1 is a
linear map of the control polygon with coefficients from the knots only, so direction steps of `insert_knot` along
different directions commute (gather / scatter commute).
Proof idea (Lemmas/RemoveInv*.lean): in removal step `t` the left sweep solves
`Q_i = α_i P_i + (1-α_i) P_{i-1}` for `P_i`, the right sweep for `P_{j-1}`; the removal alphas on
the refined knots are the insertion alphas on the knots with one copy less; the removability test
sees squared distance `0`; the copy-back loop leaves the net with one copy less (with a gap of
`t + 1` stale slots that the final shift closes).
-/
namespace C06
open Geomdl
variable {K : Type} [Field K] [LinearOrder K] [IsStrictOrderedRing K]

/-- removing `r` knots ending at the position where `r` copies were inserted restores the knot vector
    (`k` = span used for the insertion; the span found afterwards is `k + r`) -/
theorem removeKv_inverts_insertKv (U : List K) (u : K) (k r : ℕ) (hk : k < U.length) :
    knotRemovalKv (knotInsertionKv U u k r) (k + r) r = U := by
  unfold knotRemovalKv knotInsertionKv
  by_cases hr : r = 0
  · subst hr; simp
  · rw [if_neg hr]
    have e1 : k + r + 1 - r = k + 1 := by omega
    rw [e1]
    have hl : (List.take (k + 1) U).length = k + 1 := by simp; omega
    have hA : (List.take (k + 1) U ++ List.replicate r u).length = k + r + 1 := by simp [hl]; omega
    have t1 : List.take (k + 1) (List.take (k + 1) U ++ List.replicate r u ++ List.drop (k + 1) U) = List.take (k + 1) U := by
      rw [List.append_assoc, List.take_append_of_le_length (by omega), List.take_of_length_le (by omega)]
    have t2 : List.drop (k + r + 1) (List.take (k + 1) U ++ List.replicate r u ++ List.drop (k + 1) U) = List.drop (k + 1) U := by
      rw [← hA, List.drop_left]
    rw [t1, t2, List.take_append_drop]

/-- the knot vector shrinks by exactly the removal count -/
theorem removeKv_length (U : List K) (span r : ℕ) (h1 : r ≤ span + 1) (h2 : span < U.length) :
    (knotRemovalKv U span r).length = U.length - r := by
  unfold knotRemovalKv
  by_cases hr : r = 0
  · simp [hr]
  · rw [if_neg hr]
    simp only [List.length_append, List.length_take, List.length_drop]
    omega


/-! ### control points -/

/-- **Insert once, remove once.**  For every degree `p`, sorted knot vector, control polygon of any
    dimension `d`, parameter `ub` in the span `k` (`ub < U (k+1)`) with prior multiplicity `s`
    (`U (k-s) < ub`; the knots `k-s+1..k` may or may not equal `ub` – only this inequality is used),
    `1 + s ≤ p ≤ k < #P`, and every tolerance `tol2 ≥ 0`: A5.1 followed by A5.8, called as the library
    calls it after the insertion (multiplicity `s + 1`, span `k + 1`, knots = the refined knot vector),
    returns the original control polygon EXACTLY. -/
theorem insert_once_remove_once (p : ℕ) (Ul : List K) (P : List (List K)) (ub : K) (s k d : ℕ) (tol2 : K)
    (hP : NetOk d P) (hm : Monotone (fnOf Ul)) (hlen : k + 1 < Ul.length)
    (hk2 : ub < fnOf Ul (k + 1)) (hs : fnOf Ul (k - s) < ub)
    (hrs : 1 + s ≤ p) (hpk : p ≤ k) (hkP : k < P.length) (htol : 0 ≤ tol2) :
    knotRemoval p (fnOf (knotInsertionKv Ul ub k 1)) (knotInsertion p (fnOf Ul) P ub 1 s k) ub 1 (s + 1) (k + 1) tol2 = P :=
  RemInv.remove_inverts_insert p Ul P ub 1 s k d tol2 hP hm hlen hk2 hs (le_refl _) hrs hpk hkP htol

/-- **Insert `r` times, remove `r` times**: restores the original control polygon exactly
    (`1 ≤ r`, `r + s ≤ p`; removal called with multiplicity `s + r` and span `k + r`). -/
theorem insert_r_remove_r (p : ℕ) (Ul : List K) (P : List (List K)) (ub : K) (r s k d : ℕ) (tol2 : K)
    (hP : NetOk d P) (hm : Monotone (fnOf Ul)) (hlen : k + 1 < Ul.length)
    (hk2 : ub < fnOf Ul (k + 1)) (hs : fnOf Ul (k - s) < ub)
    (hr1 : 1 ≤ r) (hrs : r + s ≤ p) (hpk : p ≤ k) (hkP : k < P.length) (htol : 0 ≤ tol2) :
    knotRemoval p (fnOf (knotInsertionKv Ul ub k r)) (knotInsertion p (fnOf Ul) P ub r s k) ub r (s + r) (k + r) tol2 = P :=
  RemInv.remove_inverts_insert p Ul P ub r s k d tol2 hP hm hlen hk2 hs hr1 hrs hpk hkP htol

/-- **Insert `r` times, remove `t ≤ r` times**: the result is exactly the control polygon that `r - t`
    insertions produce (every removal count up to the number inserted). -/
theorem insert_r_remove_t (p : ℕ) (Ul : List K) (P : List (List K)) (ub : K) (r t s k d : ℕ) (tol2 : K)
    (hP : NetOk d P) (hm : Monotone (fnOf Ul)) (hlen : k + 1 < Ul.length)
    (hk2 : ub < fnOf Ul (k + 1)) (hs : fnOf Ul (k - s) < ub)
    (ht1 : 1 ≤ t) (htr : t ≤ r) (hrs : r + s ≤ p) (hpk : p ≤ k) (hkP : k < P.length) (htol : 0 ≤ tol2) :
    knotRemoval p (fnOf (knotInsertionKv Ul ub k r)) (knotInsertion p (fnOf Ul) P ub r s k) ub t (s + r) (k + r) tol2
      = knotInsertion p (fnOf Ul) P ub (r - t) s k :=
  RemInv.remove_t_of_r p Ul P ub r t s k d tol2 hP hm hlen hk2 hs ht1 htr hrs hpk hkP htol

/-- **Sizes**: the control polygon returned by `knot_removal` has exactly `num` points less – for
    every input (no hypotheses: removable or not, any span / multiplicity arguments). -/
theorem remove_net_length (p : ℕ) (U : ℕ → K) (P : List (List K)) (u : K) (num s r : ℕ) (tol2 : K) :
    (knotRemoval p U P u num s r tol2).length = P.length - num :=
  RemInv.knotRemoval_length p U P u num s r tol2

/-! ### what the library passes to the removal after an insertion -/

/-- `find_span_linear` on the refined knot vector returns `k + r` (`k` = span found before). -/
theorem span_after_insertion (p : ℕ) (Ul : List K) (n r : ℕ) (ub : K)
    (hm : Monotone (fnOf Ul)) (hlen : Ul.length = n + p + 1) (hpn : p + 1 ≤ n)
    (hub1 : fnOf Ul p ≤ ub) (hub2 : ub < fnOf Ul n) (hr : 1 ≤ r) :
    findSpanLinear p (fnOf (knotInsertionKv Ul ub (findSpanLinear p (fnOf Ul) n ub) r)) (n + r) ub
      = findSpanLinear p (fnOf Ul) n ub + r :=
  RemInv.span_after_insert_self p Ul n r ub hm hlen hpn hub1 hub2 hr

/-- `find_multiplicity` on the refined knot vector returns the old multiplicity plus `r`. -/
theorem multiplicity_after_insertion (Ul : List K) (ub tol : K) (k r : ℕ) (htol : 0 ≤ tol) :
    findMultiplicity ub (knotInsertionKv Ul ub k r) tol = findMultiplicity ub Ul tol + r :=
  RemInv.mult_after_insert Ul ub tol k r htol

/-- knot vector part for partial removals: `r` copies in, `t ≤ r` copies out = `r - t` copies in. -/
theorem removeKv_after_insertKv (U : List K) (u : K) (k r t : ℕ) (hk : k < U.length) (htr : t ≤ r) :
    knotRemovalKv (knotInsertionKv U u k r) (k + r) t = knotInsertionKv U u k (r - t) :=
  RemInv.removeKv_t_of_r U u k r t hk htr

/-- **Object level, curves** (`operations.insert_knot` then `operations.remove_knot`, one direction,
    multiplicity check on, spans and multiplicities computed by the library's own searches – for the
    removal on the refined object): the original object comes back – degree, knot vector, size, control
    points.  `hs` says that the multiplicity found with tolerance `tol` is the true one (the knot
    before the run of `s` is strictly smaller). -/
theorem curve_insert_then_remove (rat : Bool) (p : ℕ) (Ul : List K) (P : List (List K)) (ub tol tol2 : K) (r d : ℕ)
    (hP : NetOk d P) (hm : Monotone (fnOf Ul)) (hlen : Ul.length = P.length + p + 1) (hpn : p + 1 ≤ P.length)
    (hub1 : fnOf Ul p ≤ ub) (hub2 : ub < fnOf Ul P.length)
    (hs : fnOf Ul (findSpanLinear p (fnOf Ul) P.length ub - findMultiplicity ub Ul tol) < ub)
    (hr1 : 1 ≤ r) (hrs : r + findMultiplicity ub Ul tol ≤ p) (htol : 0 ≤ tol) (htol2 : 0 ≤ tol2) :
    removeKnot (insertKnot (RemInv.curveShape rat p Ul P) [some ub] [r] tol true).1 [some ub] [r] tol tol2 true
      = (RemInv.curveShape rat p Ul P, true) :=
  RemInv.curve_insertKnot_removeKnot rat p Ul P ub tol tol2 r d hP hm hlen hpn hub1 hub2 hs hr1 hrs htol htol2

/-! ### evaluated points -/

/-- **Removing inserted knots does not change the shape** (curves): insert `ub` `r` times at the
    span the library finds (true prior multiplicity `s`), remove it `t` times, `1 ≤ t ≤ r`.  For EVERY
    parameter `u` of the domain (both ends included) and every coordinate `j`, the point of the curve
    after the removal (knot vector from `knot_removal_kv`, control points from `knot_removal`) equals
    the point of the curve before the removal, which equals the point of the original curve (C04). -/
theorem remove_preserves_curve (p : ℕ) (Ul : List K) (P : List (List K)) (ub u : K)
    (r t s d j : ℕ) (tol2 : K) (hP : NetOk d P)
    (hm : Monotone (fnOf Ul)) (hlen : Ul.length = P.length + p + 1) (hpn : p + 1 ≤ P.length)
    (hub1 : fnOf Ul p ≤ ub) (hub2 : ub < fnOf Ul P.length)
    (hmult : ∀ x, findSpanLinear p (fnOf Ul) P.length ub - s < x → x ≤ findSpanLinear p (fnOf Ul) P.length ub → fnOf Ul x = ub)
    (hs : fnOf Ul (findSpanLinear p (fnOf Ul) P.length ub - s) < ub)
    (ht1 : 1 ≤ t) (htr : t ≤ r) (hrs : r + s ≤ p) (htol : 0 ≤ tol2)
    (hlo : fnOf Ul p ≤ u) (hhi : u ≤ fnOf Ul P.length) (hlast : fnOf Ul (P.length - 1) < fnOf Ul P.length) :
    (curvePoint p (fnOf (knotRemovalKv (knotInsertionKv Ul ub (findSpanLinear p (fnOf Ul) P.length ub) r)
          (findSpanLinear p (fnOf Ul) P.length ub + r) t))
        (knotRemoval p (fnOf (knotInsertionKv Ul ub (findSpanLinear p (fnOf Ul) P.length ub) r))
          (knotInsertion p (fnOf Ul) P ub r s (findSpanLinear p (fnOf Ul) P.length ub)) ub t (s + r)
          (findSpanLinear p (fnOf Ul) P.length ub + r) tol2) u).getD j 0
      = (curvePoint p (fnOf (knotInsertionKv Ul ub (findSpanLinear p (fnOf Ul) P.length ub) r))
          (knotInsertion p (fnOf Ul) P ub r s (findSpanLinear p (fnOf Ul) P.length ub)) u).getD j 0
      ∧ (curvePoint p (fnOf (knotInsertionKv Ul ub (findSpanLinear p (fnOf Ul) P.length ub) r))
          (knotInsertion p (fnOf Ul) P ub r s (findSpanLinear p (fnOf Ul) P.length ub)) u).getD j 0
        = (curvePoint p (fnOf Ul) P u).getD j 0 :=
  RemInv.remove_preserves_curve p Ul P ub u r t s d j tol2 hP hm hlen hpn hub1 hub2 hmult hs ht1 htr hrs htol hlo hhi hlast

/-! ### surfaces (per-direction application) -/

/-- **Surfaces, v direction**: the gather / scatter of `operations.remove_knot` (every row – iso-curve
    `u = const` – through A5.8, `t ≤ r` removals) applied to the net produced by the gather / scatter of
    `operations.insert_knot` (`r` insertions) gives exactly the net and v-size of `r - t` insertions;
    hence (C04 `insert_v_preserves_surface_point`) the same surface. -/
theorem surface_v_insert_r_remove_t (Ul : List K) (P : List (List K)) (ub : K) (p r t s k d su sv : ℕ) (tol2 : K)
    (hP : NetOk d P) (hlenP : P.length = su * sv)
    (hm : Monotone (fnOf Ul)) (hlen : k + 1 < Ul.length)
    (hk2 : ub < fnOf Ul (k + 1)) (hs : fnOf Ul (k - s) < ub)
    (ht1 : 1 ≤ t) (htr : t ≤ r) (hrs : r + s ≤ p) (hpk : p ≤ k) (htol : 0 ≤ tol2) (hsu : 0 < su) (hk : k < sv) :
    mapSurfV su (sv + r) (mapSurfV su sv P (fun c => knotInsertion p (fnOf Ul) c ub r s k)).1
        (fun c => knotRemoval p (fnOf (knotInsertionKv Ul ub k r)) c ub t (s + r) (k + r) tol2)
      = mapSurfV su sv P (fun c => knotInsertion p (fnOf Ul) c ub (r - t) s k) :=
  RemInv.surfV_remove_t_of_r Ul P ub p r t s k d su sv tol2 hP hlenP hm hlen hk2 hs ht1 htr hrs hpk htol hsu hk

/-- **Surfaces, u direction** (columns – iso-curves `v = const`). -/
theorem surface_u_insert_r_remove_t (Ul : List K) (P : List (List K)) (ub : K) (p r t s k d su sv : ℕ) (tol2 : K)
    (hP : NetOk d P) (hlenP : P.length = su * sv)
    (hm : Monotone (fnOf Ul)) (hlen : k + 1 < Ul.length)
    (hk2 : ub < fnOf Ul (k + 1)) (hs : fnOf Ul (k - s) < ub)
    (ht1 : 1 ≤ t) (htr : t ≤ r) (hrs : r + s ≤ p) (hpk : p ≤ k) (htol : 0 ≤ tol2) (hsv : 0 < sv) (hk : k < su) :
    mapSurfU (su + r) sv (mapSurfU su sv P (fun c => knotInsertion p (fnOf Ul) c ub r s k)).1
        (fun c => knotRemoval p (fnOf (knotInsertionKv Ul ub k r)) c ub t (s + r) (k + r) tol2)
      = mapSurfU su sv P (fun c => knotInsertion p (fnOf Ul) c ub (r - t) s k) :=
  RemInv.surfU_remove_t_of_r Ul P ub p r t s k d su sv tol2 hP hlenP hm hlen hk2 hs ht1 htr hrs hpk htol hsv hk

/-- **Surfaces, v direction, round trip**: `r` insertions then `r` removals restore the control net
    (and the v-size) exactly. -/
theorem surface_v_insert_r_remove_r (Ul : List K) (P : List (List K)) (ub : K) (p r s k d su sv : ℕ) (tol2 : K)
    (hP : NetOk d P) (hlenP : P.length = su * sv)
    (hm : Monotone (fnOf Ul)) (hlen : k + 1 < Ul.length)
    (hk2 : ub < fnOf Ul (k + 1)) (hs : fnOf Ul (k - s) < ub)
    (hr1 : 1 ≤ r) (hrs : r + s ≤ p) (hpk : p ≤ k) (htol : 0 ≤ tol2) (hsu : 0 < su) (hk : k < sv) :
    mapSurfV su (sv + r) (mapSurfV su sv P (fun c => knotInsertion p (fnOf Ul) c ub r s k)).1
        (fun c => knotRemoval p (fnOf (knotInsertionKv Ul ub k r)) c ub r (s + r) (k + r) tol2) = (P, sv) :=
  RemInv.surfV_remove_inverts_insert Ul P ub p r s k d su sv tol2 hP hlenP hm hlen hk2 hs hr1 hrs hpk htol hsu hk

/-- **Surfaces, u direction, round trip**. -/
theorem surface_u_insert_r_remove_r (Ul : List K) (P : List (List K)) (ub : K) (p r s k d su sv : ℕ) (tol2 : K)
    (hP : NetOk d P) (hlenP : P.length = su * sv)
    (hm : Monotone (fnOf Ul)) (hlen : k + 1 < Ul.length)
    (hk2 : ub < fnOf Ul (k + 1)) (hs : fnOf Ul (k - s) < ub)
    (hr1 : 1 ≤ r) (hrs : r + s ≤ p) (hpk : p ≤ k) (htol : 0 ≤ tol2) (hsv : 0 < sv) (hk : k < su) :
    mapSurfU (su + r) sv (mapSurfU su sv P (fun c => knotInsertion p (fnOf Ul) c ub r s k)).1
        (fun c => knotRemoval p (fnOf (knotInsertionKv Ul ub k r)) c ub r (s + r) (k + r) tol2) = (P, su) :=
  RemInv.surfU_remove_inverts_insert Ul P ub p r s k d su sv tol2 hP hlenP hm hlen hk2 hs hr1 hrs hpk htol hsv hk

/-! ### volumes (per-direction application; layout `v + sv*(u + su*w)`) -/

/-- **Volumes, u direction** (`dir = 0`): every iso-curve along u goes through A5.1 (`r` copies), the
    net is scattered back, gathered again and every iso-curve goes through A5.8 (`t ≤ r` removals): the
    result (net and u-size) is exactly that of `r - t` insertions. -/
theorem volume_u_insert_r_remove_t (Ul : List K) (P : List (List K)) (ub : K) (p r t s k d su sv sw : ℕ) (tol2 : K)
    (hP : NetOk d P) (hlenP : P.length = su * sv * sw) (hsu : 0 < su) (hsv : 0 < sv) (hsw : 0 < sw)
    (hm : Monotone (fnOf Ul)) (hlen : k + 1 < Ul.length)
    (hk2 : ub < fnOf Ul (k + 1)) (hs : fnOf Ul (k - s) < ub)
    (ht1 : 1 ≤ t) (htr : t ≤ r) (hrs : r + s ≤ p) (hpk : p ≤ k) (htol : 0 ≤ tol2) (hk : k < su) :
    mapVol 0 (su + r) sv sw (mapVol 0 su sv sw P (fun c => knotInsertion p (fnOf Ul) c ub r s k)).1
        (fun c => knotRemoval p (fnOf (knotInsertionKv Ul ub k r)) c ub t (s + r) (k + r) tol2)
      = mapVol 0 su sv sw P (fun c => knotInsertion p (fnOf Ul) c ub (r - t) s k) :=
  RemInv.volU_remove_t_of_r Ul P ub p r t s k d su sv sw tol2 hP hlenP hsu hsv hsw hm hlen hk2 hs ht1 htr hrs hpk htol hk

/-- **Volumes, v direction** (`dir = 1`). -/
theorem volume_v_insert_r_remove_t (Ul : List K) (P : List (List K)) (ub : K) (p r t s k d su sv sw : ℕ) (tol2 : K)
    (hP : NetOk d P) (hlenP : P.length = su * sv * sw) (hsu : 0 < su) (hsv : 0 < sv) (hsw : 0 < sw)
    (hm : Monotone (fnOf Ul)) (hlen : k + 1 < Ul.length)
    (hk2 : ub < fnOf Ul (k + 1)) (hs : fnOf Ul (k - s) < ub)
    (ht1 : 1 ≤ t) (htr : t ≤ r) (hrs : r + s ≤ p) (hpk : p ≤ k) (htol : 0 ≤ tol2) (hk : k < sv) :
    mapVol 1 su (sv + r) sw (mapVol 1 su sv sw P (fun c => knotInsertion p (fnOf Ul) c ub r s k)).1
        (fun c => knotRemoval p (fnOf (knotInsertionKv Ul ub k r)) c ub t (s + r) (k + r) tol2)
      = mapVol 1 su sv sw P (fun c => knotInsertion p (fnOf Ul) c ub (r - t) s k) :=
  RemInv.volV_remove_t_of_r Ul P ub p r t s k d su sv sw tol2 hP hlenP hsu hsv hsw hm hlen hk2 hs ht1 htr hrs hpk htol hk

/-- **Volumes, w direction** (`dir = 2`). -/
theorem volume_w_insert_r_remove_t (Ul : List K) (P : List (List K)) (ub : K) (p r t s k d su sv sw : ℕ) (tol2 : K)
    (hP : NetOk d P) (hlenP : P.length = su * sv * sw) (hsu : 0 < su) (hsv : 0 < sv) (hsw : 0 < sw)
    (hm : Monotone (fnOf Ul)) (hlen : k + 1 < Ul.length)
    (hk2 : ub < fnOf Ul (k + 1)) (hs : fnOf Ul (k - s) < ub)
    (ht1 : 1 ≤ t) (htr : t ≤ r) (hrs : r + s ≤ p) (hpk : p ≤ k) (htol : 0 ≤ tol2) (hk : k < sw) :
    mapVol 2 su sv (sw + r) (mapVol 2 su sv sw P (fun c => knotInsertion p (fnOf Ul) c ub r s k)).1
        (fun c => knotRemoval p (fnOf (knotInsertionKv Ul ub k r)) c ub t (s + r) (k + r) tol2)
      = mapVol 2 su sv sw P (fun c => knotInsertion p (fnOf Ul) c ub (r - t) s k) :=
  RemInv.volW_remove_t_of_r Ul P ub p r t s k d su sv sw tol2 hP hlenP hsu hsv hsw hm hlen hk2 hs ht1 htr hrs hpk htol 2 (le_refl _) hk

/-- **Volumes, round trip in every direction**: `r` insertions then `r` removals along u, v or w
    restore the control net and the size of that direction exactly. -/
theorem volume_insert_r_remove_r (Ul : List K) (P : List (List K)) (ub : K) (p r  s k d su sv sw : ℕ) (tol2 : K)
    (hP : NetOk d P) (hlenP : P.length = su * sv * sw) (hsu : 0 < su) (hsv : 0 < sv) (hsw : 0 < sw)
    (hm : Monotone (fnOf Ul)) (hlen : k + 1 < Ul.length)
    (hk2 : ub < fnOf Ul (k + 1)) (hs : fnOf Ul (k - s) < ub)
    (hr1 : 1 ≤ r) (hrs : r + s ≤ p) (hpk : p ≤ k) (htol : 0 ≤ tol2) :
    (k < su → mapVol 0 (su + r) sv sw (mapVol 0 su sv sw P (fun c => knotInsertion p (fnOf Ul) c ub r s k)).1
        (fun c => knotRemoval p (fnOf (knotInsertionKv Ul ub k r)) c ub r (s + r) (k + r) tol2) = (P, su)) ∧
    (k < sv → mapVol 1 su (sv + r) sw (mapVol 1 su sv sw P (fun c => knotInsertion p (fnOf Ul) c ub r s k)).1
        (fun c => knotRemoval p (fnOf (knotInsertionKv Ul ub k r)) c ub r (s + r) (k + r) tol2) = (P, sv)) ∧
    (k < sw → mapVol 2 su sv (sw + r) (mapVol 2 su sv sw P (fun c => knotInsertion p (fnOf Ul) c ub r s k)).1
        (fun c => knotRemoval p (fnOf (knotInsertionKv Ul ub k r)) c ub r (s + r) (k + r) tol2) = (P, sw)) :=
  ⟨RemInv.volU_remove_inverts_insert Ul P ub p r s k d su sv sw tol2 hP hlenP hsu hsv hsw hm hlen hk2 hs hr1 hrs hpk htol,
   RemInv.volV_remove_inverts_insert Ul P ub p r s k d su sv sw tol2 hP hlenP hsu hsv hsw hm hlen hk2 hs hr1 hrs hpk htol,
   RemInv.volW_remove_inverts_insert Ul P ub p r s k d su sv sw tol2 hP hlenP hsu hsv hsw hm hlen hk2 hs hr1 hrs hpk htol 2 (le_refl _)⟩

/-! ### non-vacuity -/

/-- quadratic, knots 0,0,0,1,2,2,2, four points in the plane: the hypotheses of the round-trip
    theorems hold for `ub = 1` (an existing knot: `k = 3`, `s = 1`, `r = 1`) … -/
example : knotRemoval 2 (fnOf (knotInsertionKv ([0,0,0,1,2,2,2] : List ℚ) 1 3 1))
    (knotInsertion 2 (fnOf ([0,0,0,1,2,2,2] : List ℚ)) [[0,0],[1,2],[3,1],[4,0]] 1 1 1 3) 1 1 (1 + 1) (3 + 1) 0
      = [[0,0],[1,2],[3,1],[4,0]] := by
  apply insert_once_remove_once 2 _ _ 1 1 3 2 0
  · intro pt hpt; simp at hpt; rcases hpt with h | h | h | h <;> simp [h]
  · apply monotone_nat_of_le_succ
    intro n
    rcases n with _|_|_|_|_|_|_|n <;> simp [fnOf, List.getD]
  · simp
  · simp [fnOf, List.getD]
  · simp [fnOf, List.getD]
  · omega
  · omega
  · simp
  · exact le_refl _

/-- … and for `ub = 1/2` (a new knot: `k = 2`, `s = 0`) inserted and removed twice -/
example : knotRemoval 2 (fnOf (knotInsertionKv ([0,0,0,1,2,2,2] : List ℚ) (1/2) 2 2))
    (knotInsertion 2 (fnOf ([0,0,0,1,2,2,2] : List ℚ)) [[0,0],[1,2],[3,1],[4,0]] (1/2) 2 0 2) (1/2) 2 (0 + 2) (2 + 2) 0
      = [[0,0],[1,2],[3,1],[4,0]] := by
  apply insert_r_remove_r 2 _ _ (1/2) 2 0 2 2 0
  · intro pt hpt; simp at hpt; rcases hpt with h | h | h | h <;> simp [h]
  · apply monotone_nat_of_le_succ
    intro n
    rcases n with _|_|_|_|_|_|_|n <;> simp [fnOf, List.getD]
  · simp
  · simp [fnOf, List.getD]; norm_num
  · simp [fnOf, List.getD]
  · omega
  · omega
  · omega
  · simp
  · exact le_refl _

/-- … and the library's own searches give `k = 3`, `s = 1` there, with the knot before the run
    strictly smaller (hypothesis `hs` of `curve_insert_then_remove` / `remove_preserves_curve`) -/
example : findSpanLinear 2 (fnOf ([0,0,0,1,2,2,2] : List ℚ)) 4 1 = 3 ∧ findMultiplicity 1 ([0,0,0,1,2,2,2] : List ℚ) 0 = 1 ∧
    fnOf ([0,0,0,1,2,2,2] : List ℚ) (findSpanLinear 2 (fnOf ([0,0,0,1,2,2,2] : List ℚ)) 4 1
      - findMultiplicity 1 ([0,0,0,1,2,2,2] : List ℚ) 0) < 1 := by
  decide +kernel

/-- non-vacuity / concrete instance (knot vector part) -/
example : knotRemovalKv (knotInsertionKv ([0,0,0,1,1,1] : List ℚ) (1/2) 2 2) 4 2 = [0,0,0,1,1,1] := by
  decide

/-! ### object level, surfaces and volumes: `operations.insert_knot` then `operations.remove_knot`

`RoundOk S dir ub r tol`: the request "insert `ub` `r ≥ 1` times into direction `dir`" is admissible
(`DirReqOk`, see C04: inside the half-open domain, `r + s ≤ p` with `s` the multiplicity the library
computes), `0 ≤ tol`, and the computed multiplicity is the true one (the knot before the run of `s`
copies is strictly smaller than `ub`).  `OnlyDir dir params nums`: the parameter / count lists request
direction `dir` only (all other entries are `None` or `0`).  `hpl`, `hnl` (audit 4, H5): the guard of the code on the two
lists – `num` has exactly one entry per parametric direction (`operations.insert_knot` / `remove_knot` raise "The length
of the num array must be equal to the number of parametric dimensions" otherwise; the model reads the lists with
`getD` and would ignore the surplus) and `param` has at least that many (`param[i]` raises `IndexError` otherwise; a
LONGER `param` list is accepted by the code, the surplus is never read) – the driver ops `I` / `R` answer ERR exactly
there.  The removal runs on the refined object
with the library's own searches: span `k + r`, multiplicity `s + r`. -/

/-- **Surfaces, object-level round trip** (`dir = 0`: u, `dir = 1`: v): `insert_knot` followed by
    `remove_knot` with the same parameter and count lists returns the ORIGINAL object – degrees, both
    knot vectors, both sizes, every control point – and reports success; for either setting of the
    two `check` flags. -/
theorem surface_insert_then_remove (d : ℕ) (S : Shape K) (hS : SurfWF d S) (dir : ℕ) (hdir : dir < 2)
    (params : List (Option K)) (nums : List ℕ) (ub tol tol2 : K) (c1 c2 : Bool)
    (hpl : 2 ≤ params.length) (hnl : nums.length = 2)
    (ho : OnlyDir dir params nums) (hp : params.getD dir none = some ub)
    (h : RoundOk S dir ub (nums.getD dir 0) tol) (h2 : 0 ≤ tol2) :
    removeKnot (insertKnot S params nums tol c1).1 params nums tol tol2 c2 = (S, true) :=
  (surface_insertKnot_removeKnot d S hS dir hdir params nums ub tol tol2 c1 c2 ho hp h h2).1

/-- **… and the removal does not change the shape**: at every parameter pair of the domain the point
    of the surface after the removal equals the point of the refined surface before it (which, by C04
    `insertKnot_preserves_surface`, equals the point of the original). -/
theorem surface_remove_after_insert_preserves_points (d : ℕ) (S : Shape K) (hS : SurfWF d S) (dir : ℕ) (hdir : dir < 2)
    (params : List (Option K)) (nums : List ℕ) (ub tol tol2 : K) (c1 c2 : Bool)
    (hpl : 2 ≤ params.length) (hnl : nums.length = 2)
    (ho : OnlyDir dir params nums) (hp : params.getD dir none = some ub)
    (h : RoundOk S dir ub (nums.getD dir 0) tol) (h2 : 0 ≤ tol2)
    (u v : K) (hu1 : fnOf (S.kv 0) (S.deg 0) ≤ u) (hu2 : u ≤ fnOf (S.kv 0) (S.size 0))
    (hv1 : fnOf (S.kv 1) (S.deg 1) ≤ v) (hv2 : v ≤ fnOf (S.kv 1) (S.size 1)) (j : ℕ) :
    (surfEval (removeKnot (insertKnot S params nums tol c1).1 params nums tol tol2 c2).1 u v).getD j 0
      = (surfEval (insertKnot S params nums tol c1).1 u v).getD j 0 :=
  let a := (surface_insertKnot_removeKnot d S hS dir hdir params nums ub tol tol2 c1 c2 ho hp h h2).2
  let b := (insertKnot_surface' d S hS params nums tol c1 (callOk_of_roundOk 2 S dir params nums ub tol ho hp h)).1
  a.eval u v (by rw [b.lo0]; exact hu1) (by rw [b.hi0]; exact hu2) (by rw [b.lo1]; exact hv1) (by rw [b.hi1]; exact hv2) j

/-- **Surfaces, partial removal at object level**: `r` copies in (count list `nums`), `t` copies out
    (`nums'`, `1 ≤ t ≤ r`) gives exactly the object that inserting `r - t` copies produces
    (`insDirOf S dir ub (r - t) tol` is what `insertKnotDir S dir ub (r - t)` returns). -/
theorem surface_insert_r_remove_t_object (d : ℕ) (S : Shape K) (hS : SurfWF d S) (dir : ℕ) (hdir : dir < 2)
    (params : List (Option K)) (nums nums' : List ℕ) (ub tol tol2 : K) (c1 c2 : Bool)
    (hpl : 2 ≤ params.length) (hnl : nums.length = 2) (hnl' : nums'.length = 2)
    (ho : OnlyDir dir params nums) (ho' : OnlyDir dir params nums') (hp : params.getD dir none = some ub)
    (h : RoundOk S dir ub (nums.getD dir 0) tol) (h2 : 0 ≤ tol2)
    (ht1 : 1 ≤ nums'.getD dir 0) (htr : nums'.getD dir 0 ≤ nums.getD dir 0) :
    removeKnot (insertKnot S params nums tol c1).1 params nums' tol tol2 c2
      = (insDirOf S dir ub (nums.getD dir 0 - nums'.getD dir 0) tol, true) :=
  surface_insertKnot_removeKnot_t d S hS dir hdir params nums nums' ub tol tol2 c1 c2 ho ho' hp h h2 ht1 htr

/-- **Volumes, object-level round trip** (`dir = 0, 1, 2`: u, v, w). -/
theorem volume_insert_then_remove (d : ℕ) (S : Shape K) (hS : VolWF d S) (dir : ℕ) (hdir : dir < 3)
    (params : List (Option K)) (nums : List ℕ) (ub tol tol2 : K) (c1 c2 : Bool)
    (hpl : 3 ≤ params.length) (hnl : nums.length = 3)
    (ho : OnlyDir dir params nums) (hp : params.getD dir none = some ub)
    (h : RoundOk S dir ub (nums.getD dir 0) tol) (h2 : 0 ≤ tol2) :
    removeKnot (insertKnot S params nums tol c1).1 params nums tol tol2 c2 = (S, true) :=
  (volume_insertKnot_removeKnot d S hS dir hdir params nums ub tol tol2 c1 c2 ho hp h h2).1

/-- **… and the removal does not change any volume point.** -/
theorem volume_remove_after_insert_preserves_points (d : ℕ) (S : Shape K) (hS : VolWF d S) (dir : ℕ) (hdir : dir < 3)
    (params : List (Option K)) (nums : List ℕ) (ub tol tol2 : K) (c1 c2 : Bool)
    (hpl : 3 ≤ params.length) (hnl : nums.length = 3)
    (ho : OnlyDir dir params nums) (hp : params.getD dir none = some ub)
    (h : RoundOk S dir ub (nums.getD dir 0) tol) (h2 : 0 ≤ tol2)
    (u v w : K) (hu1 : fnOf (S.kv 0) (S.deg 0) ≤ u) (hu2 : u ≤ fnOf (S.kv 0) (S.size 0))
    (hv1 : fnOf (S.kv 1) (S.deg 1) ≤ v) (hv2 : v ≤ fnOf (S.kv 1) (S.size 1))
    (hw1 : fnOf (S.kv 2) (S.deg 2) ≤ w) (hw2 : w ≤ fnOf (S.kv 2) (S.size 2)) (j : ℕ) :
    (volEval (removeKnot (insertKnot S params nums tol c1).1 params nums tol tol2 c2).1 u v w).getD j 0
      = (volEval (insertKnot S params nums tol c1).1 u v w).getD j 0 :=
  let a := (volume_insertKnot_removeKnot d S hS dir hdir params nums ub tol tol2 c1 c2 ho hp h h2).2
  let b := (insertKnot_volume' d S hS params nums tol c1 (callOk_of_roundOk 3 S dir params nums ub tol ho hp h)).1
  a.eval u v w (by rw [b.lo0]; exact hu1) (by rw [b.hi0]; exact hu2) (by rw [b.lo1]; exact hv1) (by rw [b.hi1]; exact hv2)
    (by rw [b.lo2]; exact hw1) (by rw [b.hi2]; exact hw2) j

/-- **Volumes, partial removal at object level.** -/
theorem volume_insert_r_remove_t_object (d : ℕ) (S : Shape K) (hS : VolWF d S) (dir : ℕ) (hdir : dir < 3)
    (params : List (Option K)) (nums nums' : List ℕ) (ub tol tol2 : K) (c1 c2 : Bool)
    (hpl : 3 ≤ params.length) (hnl : nums.length = 3) (hnl' : nums'.length = 3)
    (ho : OnlyDir dir params nums) (ho' : OnlyDir dir params nums') (hp : params.getD dir none = some ub)
    (h : RoundOk S dir ub (nums.getD dir 0) tol) (h2 : 0 ≤ tol2)
    (ht1 : 1 ≤ nums'.getD dir 0) (htr : nums'.getD dir 0 ≤ nums.getD dir 0) :
    removeKnot (insertKnot S params nums tol c1).1 params nums' tol tol2 c2
      = (insDirOf S dir ub (nums.getD dir 0 - nums'.getD dir 0) tol, true) :=
  volume_insertKnot_removeKnot_t d S hS dir hdir params nums nums' ub tol tol2 c1 c2 ho ho' hp h h2 ht1 htr

/-- `insDirOf` is what one direction of `insert_knot` returns for an admissible request -/
theorem insertKnotDir_is_insDirOf (S : Shape K) (dir : ℕ) (ub : K) (r : ℕ) (tol : K) (check : Bool)
    (hrs : r + findMultiplicity ub (S.kv dir) tol ≤ S.deg dir) :
    insertKnotDir S dir ub r tol check = some (insDirOf S dir ub r tol) :=
  insertKnotDir_insDirOf S dir ub r tol check hrs

/-! ### non-vacuity of the object-level hypotheses -/

/-- the example surface: inserting 1/4 twice along v (new knot, `s = 0`, `p = 2`) … -/
example : RoundOk exSurfQ 1 (1/4) 2 (1/10000000) :=
  roundOk_of_sep exSurfQ 1 (1/4) 2 _ exSurfQ_wf.dir1 (by norm_num) (by decide +kernel) (by decide +kernel)
    (by decide +kernel) (by decide +kernel) (by decide) (by decide +kernel)

example : OnlyDir 1 ([none, some (1/4)] : List (Option ℚ)) [0, 2] := by
  intro d' hd
  rcases d' with _ | _ | d'
  · left; rfl
  · exact absurd rfl hd
  · left; rfl

/-- … and removing it twice again restores the net (concrete run of the model) -/
example : removeKnot (insertKnot exSurfQ [none, some (1/4)] [0, 2] (1/10000000) true).1 [none, some (1/4)] [0, 2]
    (1/10000000) 0 true = (exSurfQ, true) :=
  surface_insert_then_remove 3 exSurfQ exSurfQ_wf 1 (by decide) _ _ (1/4) _ 0 true true (by decide) (by decide)
    (by intro d' hd; rcases d' with _ | _ | d'
        · left; rfl
        · exact absurd rfl hd
        · left; rfl)
    rfl
    (roundOk_of_sep exSurfQ 1 (1/4) 2 _ exSurfQ_wf.dir1 (by norm_num) (by decide +kernel) (by decide +kernel)
      (by decide +kernel) (by decide +kernel) (by decide) (by decide +kernel))
    (le_refl _)

/-- the example volume: the existing knot 1/2 of the w direction (`s = 1`, `p = 2`) once more -/
example : RoundOk exVolQ 2 (1/2) 1 (1/10000000) :=
  roundOk_of_sep exVolQ 2 (1/2) 1 _ exVolQ_wf.dir2 (by norm_num) (by decide +kernel) (by decide +kernel)
    (by decide +kernel) (by decide +kernel) (by decide) (by decide +kernel)

/-! ## (R) The LIST-OF-ROWS branch of `helpers.knot_removal` (`is_volume`) as coded

For a volume `operations.remove_knot` gathers one ROW per control-point index of the direction (a whole
layer of the net) and calls `helpers.knot_removal` once; the helper sweeps over whole rows
(`temp[ii][idx] = …`) and computes ONE removability flag per step from the FIRST point of the rows
(`temp[ii-1][0]`, `temp[jj+1][0]`, `ctrlpts_new[i][0]`).  `knotRemovalRows` transcribes that branch –
including the fact that `temp[last - first + 2] = ctrlpts_new[last + 1]` stores the list object itself,
which the sweep of the NEXT step writes into (`RemRowsSt.al`, the sharing table) – and is run against the
real helper by the correspondence check (`rowsrem`: removable rows, random rows, rows in which only the
first / every iso-curve but the first is removable; `rowsvol … R`: the whole operation on volumes).

`AllRemovable p U c u num s r tol2`: each of the `num` removal steps of `knotRemoval` on the curve `c`
passes its removability test (`Rows.remFlag`, the flag `remStep` computes, in the state `Rows.remState`
reached after the previous steps).  WHEN THE TWO MODELS AGREE: if every iso-curve of the rows is
removable in this sense (in particular: after insertion, theorem `inserted_knots_all_removable`), the rows
branch returns exactly the per-iso-curve results.  WHEN THEY CAN DIFFER (three refutations below, each
replayed on the implementation by the stream `rowsrem`): the first iso-curve is removable and another is
not (the rows branch copies the recomputed points into that iso-curve too), the first is not and another
is (nothing is copied back, the removable iso-curve is not restored), and – with two or more removals of
a knot that is NOT removable – the write through the shared row, which changes a control point even when
there is a single iso-curve. -/

/-- **Inserted knots pass the removability test at every step**: after `r` insertions of `ub`, every one of
    the first `t ≤ r` removal steps of A5.8 (called as the library calls it: multiplicity `s + r`, span
    `k + r`, the refined knot vector) computes squared distance 0 and sets its flag – any tolerance
    `tol2 ≥ 0`. -/
theorem inserted_knots_all_removable (p : ℕ) (Ul : List K) (P : List (List K)) (ub : K) (r t s k d : ℕ) (tol2 : K)
    (hP : NetOk d P) (hm : Monotone (fnOf Ul)) (hlen : k + 1 < Ul.length)
    (hk2 : ub < fnOf Ul (k + 1)) (hs : fnOf Ul (k - s) < ub)
    (htr : t ≤ r) (hrs : r + s ≤ p) (hpk : p ≤ k) (hkP : k < P.length) (htol : 0 ≤ tol2) :
    Rows.AllRemovable p (fnOf (knotInsertionKv Ul ub k r)) (knotInsertion p (fnOf Ul) P ub r s k) ub t (s + r) (k + r) tol2 :=
  Rows.allRemovable_inserted p Ul P ub r t s k d tol2 hP hm hlen hk2 hs htr hrs hpk hkP htol

/-- the flag of `Rows.AllRemovable` is the flag inside `remStep`: one step of the model = "if the flag is
    set, the copy-back loop, else nothing", then the index update -/
theorem remStep_uses_remFlag (U : ℕ → K) (u : K) (p : ℕ) (tol2 : K) (cp temp : List (List K)) (first last t : ℕ) :
    remStep U u p tol2 (cp, temp, first, last) t =
      (if Rows.remFlag U u p tol2 (cp, temp, first, last) t then
          remCopy (Rows.cSweep U u p t cp temp first last).temp first t (p + 2) first last cp else cp,
        (Rows.cSweep U u p t cp temp first last).temp, first - 1, last + 1) :=
  Rows.remStep_pieces U u p tol2 cp temp first last t

/-- **When every iso-curve is removable at every step, every iso-curve of the rows branch of A5.8 is A5.8 of
    that iso-curve** (`s ≤ p` copies present, `num ≤ s` of them removed, the `num` steps stay inside the
    net: `p + num ≤ r < #rows`; `m = len(rows[0]) > 0` points per row; `hR`: rectangular rows – the guard of the code
    (ragged rows: `IndexError`) and of the driver op, not needed by the proof). -/
theorem knotRemovalRows_isocurve_of_all_removable (p : ℕ) (U : ℕ → K) (R : List (List (List K))) (u : K)
    (num s r : ℕ) (tol2 : K) (hR : Rows.RectW (R.headD []).length R) (hm : 0 < (R.headD []).length) (hsp : s ≤ p)
    (hns : num ≤ s) (hps : p + num ≤ r) (hr : r < R.length)
    (hall : ∀ c, c < (R.headD []).length → Rows.AllRemovable p U (isoCol c R) u num s r tol2)
    (c : ℕ) (hc : c < (R.headD []).length) :
    isoCol c (knotRemovalRows p U R u num s r tol2) = knotRemoval p U (isoCol c R) u num s r tol2 :=
  Rows.isoCol_knotRemovalRows p U R u num s r tol2 hm hsp hns hps hr hall c hc

/-- The rows branch keeps the rows rectangular – for ANY input (removable or not). -/
theorem knotRemovalRows_rectangular (p : ℕ) (U : ℕ → K) (R : List (List (List K))) (u : K) (num s r : ℕ) (tol2 : K)
    (hR : Rows.RectW (R.headD []).length R) (hsp : s ≤ p) (hns : num ≤ s) (hps : p + num ≤ r) (hr : r < R.length) :
    Rows.RectW (R.headD []).length (knotRemovalRows p U R u num s r tol2) :=
  Rows.knotRemovalRows_rect p U R u num s r tol2 hR hsp hns hps hr

/-- **`knot_removal` on a list of rows = transpose, `knotRemoval` on every iso-curve, transpose back** –
    when all iso-curves are removable at every step. -/
theorem knotRemovalRows_is_transposed_knotRemoval (p : ℕ) (U : ℕ → K) (R : List (List (List K))) (u : K)
    (num s r : ℕ) (tol2 : K) (hR : Rows.RectW (R.headD []).length R) (hm : 0 < (R.headD []).length)
    (hsp : s ≤ p) (hns : num ≤ s) (hps : p + num ≤ r) (hr : r < R.length)
    (hall : ∀ c, c < (R.headD []).length → Rows.AllRemovable p U (isoCol c R) u num s r tol2) :
    knotRemovalRows p U R u num s r tol2
      = Rows.ofCols (R.length - num) (R.headD []).length (fun c => knotRemoval p U (isoCol c R) u num s r tol2) :=
  Rows.knotRemovalRows_eq_ofCols p U R u num s r tol2 hR hm hsp hns hps hr hall

/-- **Volumes: gather / ONE helper call on the rows / scatter of `operations.remove_knot` = the per-iso-curve
    model `mapVol`**, in each direction, when every iso-curve of that direction (`isoCol c` of the gathered
    rows) is removable at every step. -/
theorem mapVolRows_remove_eq_mapVol (dir su sv sw p : ℕ) (U : ℕ → K) (P : List (List K)) (u : K) (num s r : ℕ) (tol2 : K)
    (hsu : 0 < su) (hsv : 0 < sv) (hsw : 0 < sw) (hdir : dir < 3)
    (hsp : s ≤ p) (hns : num ≤ s) (hps : p + num ≤ r) (hr : r < [su, sv, sw].getD dir 0)
    (hall : ∀ c, c < ((volRows dir su sv sw P).headD []).length →
      Rows.AllRemovable p U (isoCol c (volRows dir su sv sw P)) u num s r tol2) :
    mapVolRows dir su sv sw P (fun R => knotRemovalRows p U R u num s r tol2)
      = mapVol dir su sv sw P (fun c => knotRemoval p U c u num s r tol2) :=
  Rows.mapVolRows_remove dir su sv sw p U P u num s r tol2 hsu hsv hsw hdir hsp hns hps hr hall

/-- **One direction of `operations.remove_knot` on a volume computed through the rows (ONE flag from the
    first iso-curve) is what the model `removeKnotDir` (a flag per iso-curve) returns, when every iso-curve
    of that direction is removable at every step** – with the multiplicity and the span the library finds. -/
theorem removeKnotVolRows_is_removeKnotDir (S : Shape K) (dir : ℕ) (u : K) (num : ℕ) (tol tol2 : K) (check : Bool)
    (h3 : S.pdim = 3) (hdir : dir < 3) (hsu : 0 < S.size 0) (hsv : 0 < S.size 1) (hsw : 0 < S.size 2)
    (hpn : S.deg dir + 1 ≤ S.size dir)
    (hsp : findMultiplicity u (S.kv dir) tol ≤ S.deg dir)
    (hns : check = false → num ≤ findMultiplicity u (S.kv dir) tol)
    (hps : S.deg dir + num ≤ findSpanLinear (S.deg dir) (fnOf (S.kv dir)) (S.size dir) u)
    (hall : ∀ c, c < ((volRows dir (S.size 0) (S.size 1) (S.size 2) S.net).headD []).length →
      Rows.AllRemovable (S.deg dir) (fnOf (S.kv dir)) (isoCol c (volRows dir (S.size 0) (S.size 1) (S.size 2) S.net)) u num
        (findMultiplicity u (S.kv dir) tol) (findSpanLinear (S.deg dir) (fnOf (S.kv dir)) (S.size dir) u) tol2) :
    removeKnotVolRows S dir u num tol tol2 check = removeKnotDir S dir u num tol tol2 check :=
  Rows.removeKnotVolRows_eq S dir u num tol tol2 check h3 hdir hsu hsv hsw hpn hsp hns hps hall

/-- **Volumes, u direction, as the code computes both operations**: `r` insertions through the rows branch
    of A5.1, then `t ≤ r` removals through the rows branch of A5.8 (one flag from the first iso-curve)
    give exactly the net and size of `r - t` insertions. -/
theorem volume_u_rows_insert_r_remove_t (Ul : List K) (P : List (List K)) (ub : K) (p r t s k d su sv sw : ℕ) (tol2 : K)
    (hP : NetOk d P) (hlenP : P.length = su * sv * sw) (hsu : 0 < su) (hsv : 0 < sv) (hsw : 0 < sw)
    (hm : Monotone (fnOf Ul)) (hlen : k + 1 < Ul.length)
    (hk2 : ub < fnOf Ul (k + 1)) (hs : fnOf Ul (k - s) < ub)
    (ht1 : 1 ≤ t) (htr : t ≤ r) (hrs : r + s ≤ p) (hpk : p ≤ k) (htol : 0 ≤ tol2) (hk : k < su) :
    mapVolRows 0 (su + r) sv sw
        (mapVolRows 0 su sv sw P (fun R => knotInsertionRows p (fnOf Ul) R ub r s k)).1
        (fun R => knotRemovalRows p (fnOf (knotInsertionKv Ul ub k r)) R ub t (s + r) (k + r) tol2)
      = mapVol 0 su sv sw P (fun c => knotInsertion p (fnOf Ul) c ub (r - t) s k) :=
  Rows.volU_rows_remove_t_of_r Ul P ub p r t s k d su sv sw tol2 hP hlenP hsu hsv hsw hm hlen hk2 hs ht1 htr hrs hpk htol hk

/-- **… v direction.** -/
theorem volume_v_rows_insert_r_remove_t (Ul : List K) (P : List (List K)) (ub : K) (p r t s k d su sv sw : ℕ) (tol2 : K)
    (hP : NetOk d P) (hlenP : P.length = su * sv * sw) (hsu : 0 < su) (hsv : 0 < sv) (hsw : 0 < sw)
    (hm : Monotone (fnOf Ul)) (hlen : k + 1 < Ul.length)
    (hk2 : ub < fnOf Ul (k + 1)) (hs : fnOf Ul (k - s) < ub)
    (ht1 : 1 ≤ t) (htr : t ≤ r) (hrs : r + s ≤ p) (hpk : p ≤ k) (htol : 0 ≤ tol2) (hk : k < sv) :
    mapVolRows 1 su (sv + r) sw
        (mapVolRows 1 su sv sw P (fun R => knotInsertionRows p (fnOf Ul) R ub r s k)).1
        (fun R => knotRemovalRows p (fnOf (knotInsertionKv Ul ub k r)) R ub t (s + r) (k + r) tol2)
      = mapVol 1 su sv sw P (fun c => knotInsertion p (fnOf Ul) c ub (r - t) s k) :=
  Rows.volV_rows_remove_t_of_r Ul P ub p r t s k d su sv sw tol2 hP hlenP hsu hsv hsw hm hlen hk2 hs ht1 htr hrs hpk htol hk

/-- **… w direction** (the rows are whole u-v layers). -/
theorem volume_w_rows_insert_r_remove_t (Ul : List K) (P : List (List K)) (ub : K) (p r t s k d su sv sw : ℕ) (tol2 : K)
    (hP : NetOk d P) (hlenP : P.length = su * sv * sw) (hsu : 0 < su) (hsv : 0 < sv) (hsw : 0 < sw)
    (hm : Monotone (fnOf Ul)) (hlen : k + 1 < Ul.length)
    (hk2 : ub < fnOf Ul (k + 1)) (hs : fnOf Ul (k - s) < ub)
    (ht1 : 1 ≤ t) (htr : t ≤ r) (hrs : r + s ≤ p) (hpk : p ≤ k) (htol : 0 ≤ tol2) (hk : k < sw) :
    mapVolRows 2 su sv (sw + r)
        (mapVolRows 2 su sv sw P (fun R => knotInsertionRows p (fnOf Ul) R ub r s k)).1
        (fun R => knotRemovalRows p (fnOf (knotInsertionKv Ul ub k r)) R ub t (s + r) (k + r) tol2)
      = mapVol 2 su sv sw P (fun c => knotInsertion p (fnOf Ul) c ub (r - t) s k) :=
  Rows.volW_rows_remove_t_of_r Ul P ub p r t s k d su sv sw tol2 hP hlenP hsu hsv hsw hm hlen hk2 hs ht1 htr hrs hpk htol hk

/-- **ONE removal (`num = 1`), any flags**: iso-curve `c` of the rows branch is A5.8 of iso-curve `c` whenever
    the removability flag of iso-curve `c` EQUALS the flag of the first iso-curve – both set (both copy the
    recomputed points back) or both clear (neither does; the first step writes into no shared row).  Caveats
    1 and 2 below are the two ways the flags can be different. -/
theorem knotRemovalRows_one_removal_isocurve_of_equal_flags (p : ℕ) (U : ℕ → K) (R : List (List (List K))) (u : K)
    (s r : ℕ) (tol2 : K) (hR : Rows.RectW (R.headD []).length R) (hm : 0 < (R.headD []).length) (hsp : s ≤ p)
    (hps : p + 1 ≤ r) (hs1 : 1 ≤ s) (hr : r < R.length) (c : ℕ) (hc : c < (R.headD []).length)
    (hf : Rows.remFlag U u p tol2 (Rows.remState p U (isoCol c R) u s r tol2 0) 0
        = Rows.remFlag U u p tol2 (Rows.remState p U (isoCol 0 R) u s r tol2 0) 0) :
    isoCol c (knotRemovalRows p U R u 1 s r tol2) = knotRemoval p U (isoCol c R) u 1 s r tol2 :=
  Rows.isoCol_knotRemovalRows_one p U R u s r tol2 hm hsp hps hs1 hr c hc hf

/-! ### where the rows branch and the per-iso-curve model differ (as coded; each replayed on the implementation) -/

/-- **Caveat 1 – one flag from the first iso-curve, first removable**: quadratic, knots `0,0,0,1/2,1,1,1`;
    iso-curve 0 (`0,1,1,0`) is the result of inserting 1/2, iso-curve 1 (`0,1,3,0`) is not removable.  The
    rows branch copies the recomputed points into BOTH iso-curves (iso-curve 1 becomes `0,6,0`), the
    per-iso-curve model leaves the unremovable one as it is (`0,3,0`). -/
theorem knotRemovalRows_refutes_isocurve_when_only_first_removable :
    isoCol 1 (knotRemovalRows 2 (fnOf ([0,0,0,1/2,1,1,1] : List ℚ))
        [[[0],[0]], [[1],[1]], [[1],[3]], [[0],[0]]] (1/2) 1 1 3 (1/1000000)) = [[0],[6],[0]] ∧
    knotRemoval 2 (fnOf ([0,0,0,1/2,1,1,1] : List ℚ)) [[0],[1],[3],[0]] (1/2) 1 1 3 (1/1000000) = [[0],[3],[0]] := by
  decide +kernel

/-- **Caveat 2 – first iso-curve not removable**: the same two iso-curves in the other order.  The flag of
    the rows branch is `false`, nothing is copied back, and the removable iso-curve comes out as `0,1,0`
    instead of the exact `0,2,0` the per-iso-curve model (and the point branch of the code) returns. -/
theorem knotRemovalRows_refutes_isocurve_when_first_not_removable :
    isoCol 1 (knotRemovalRows 2 (fnOf ([0,0,0,1/2,1,1,1] : List ℚ))
        [[[0],[0]], [[1],[1]], [[3],[1]], [[0],[0]]] (1/2) 1 1 3 (1/1000000)) = [[0],[1],[0]] ∧
    knotRemoval 2 (fnOf ([0,0,0,1/2,1,1,1] : List ℚ)) [[0],[1],[1],[0]] (1/2) 1 1 3 (1/1000000) = [[0],[2],[0]] := by
  decide +kernel

/-- **Caveat 3 – the shared row**: ONE iso-curve, quartic, the double knot 1/2 is not removable, two
    removals.  In the second step the sweep of the rows branch writes `temp[jj][idx]` into the list object
    that is also `ctrlpts_new[last]` (stored there by `temp[last - first + 2] = ctrlpts_new[last + 1]` one
    step earlier); no copy-back follows (flag `false`), and the returned control point is 8 where the
    point branch – the same data, as a curve – returns 1. -/
theorem knotRemovalRows_refutes_point_branch_on_shared_row :
    knotRemovalRows 4 (fnOf ([0,0,0,0,0,1/2,1/2,1,1,1,1,1] : List ℚ))
        [[[0]], [[1]], [[3]], [[-2]], [[5]], [[1]], [[0]]] (1/2) 2 2 6 (1/1000000)
      = [[[0]], [[1]], [[3]], [[8]], [[0]]] ∧
    knotRemoval 4 (fnOf ([0,0,0,0,0,1/2,1/2,1,1,1,1,1] : List ℚ))
        [[0],[1],[3],[-2],[5],[1],[0]] (1/2) 2 2 6 (1/1000000) = [[0],[1],[3],[1],[0]] := by
  decide +kernel

/-! ### non-vacuity -/

/-- the hypotheses of `knotRemovalRows_isocurve_of_all_removable` on two iso-curves obtained by insertion
    (`AllRemovable` is decidable on concrete input: here both flags are `true`) … -/
example : Rows.AllRemovable 2 (fnOf ([0,0,0,1/2,1,1,1] : List ℚ)) [[0],[1],[1],[0]] (1/2) 1 1 3 (1/1000000) := by
  intro t ht
  obtain rfl : t = 0 := by omega
  decide +kernel

example : Rows.AllRemovable 2 (fnOf ([0,0,0,1/2,1,1,1] : List ℚ)) [[10],[11],[14],[16]] (1/2) 1 1 3 (1/1000000) := by
  intro t ht
  obtain rfl : t = 0 := by omega
  decide +kernel

/-- … and the rows branch then restores both quadratic iso-curves at once -/
example : knotRemovalRows 2 (fnOf ([0,0,0,1/2,1,1,1] : List ℚ))
    [[[0],[10]], [[1],[11]], [[1],[14]], [[0],[16]]] (1/2) 1 1 3 (1/1000000)
      = [[[0],[10]], [[2],[12]], [[0],[16]]] := by decide +kernel

/-- two iso-curves that are BOTH not removable have equal flags (`false`): the hypothesis of
    `knotRemovalRows_one_removal_isocurve_of_equal_flags` with the flags clear -/
example : Rows.remFlag (fnOf ([0,0,0,1/2,1,1,1] : List ℚ)) (1/2) 2 (1/1000000)
      (Rows.remState 2 (fnOf ([0,0,0,1/2,1,1,1] : List ℚ)) [[0],[1],[3],[0]] (1/2) 1 3 (1/1000000) 0) 0 = false ∧
    Rows.remFlag (fnOf ([0,0,0,1/2,1,1,1] : List ℚ)) (1/2) 2 (1/1000000)
      (Rows.remState 2 (fnOf ([0,0,0,1/2,1,1,1] : List ℚ)) [[0],[2],[5],[0]] (1/2) 1 3 (1/1000000) 0) 0 = false := by
  decide +kernel

/-- the example volume, w direction: 1/4 in, 1/4 out, both through the rows -/
example : ((insertKnotVolRows exVolQ 2 (1/4) 1 (1/10000000) true).bind
    (fun T => removeKnotVolRows T 2 (1/4) 1 (1/10000000) (1/1000000) true)).map (fun T => (T.kvs, T.sizes, T.net))
      = some (exVolQ.kvs, exVolQ.sizes, exVolQ.net) := by decide +kernel

/-! ## (U) "Whenever removable at all" – from the uniqueness of B-spline control points

`RemovableKnot p d V Ph Q ub r s k` (Lemmas/UniqueRemove.lean; every field explicit): the sorted knot vector
`V` of the well-formed curve `(V, Ph)` holds `ub` at the positions `k-s+1 .. k+r` (`s + r` copies; `k + r`
and `s + r` are what `find_span_linear` / `find_multiplicity` return), `1 ≤ r`, `r + s ≤ p ≤ k`; no basis
function of `V` vanishes on the whole domain (`AllActive`, decidable: `U (max i p) < U (min (i+p+1) n)` for every
`i < n`); and SOME well-formed curve `Q` over `V` with `r` copies of `ub` taken out has the same points on the
half-open domain – i.e. the knot IS removable `r` times.  Nothing is assumed about how `Ph` was produced
(refinement, insertions in any order, fitting, …). -/

/-- **B-spline control points are unique**: two well-formed curve definitions over the same knot vector, in
    which every control point index is active on a non-empty span of the domain, that have the same point at
    every parameter of the half-open domain `[U_p, U_n)` have the same control points.  (Proof: local linear
    independence on each non-empty span – C03 `basisFuns_linearly_independent`, C02
    `span_polynomial_determines_control_points` – by induction on the degree with the derivative theorem.) -/
theorem control_points_unique (p d : ℕ) (Ul : List K) (P P' : List (List K)) (hwf : CurveWF p d Ul P)
    (hlen : P'.length = P.length) (hP' : NetOk d P') (hact : AllActive p P.length (fnOf Ul))
    (h : ∀ u, fnOf Ul p ≤ u → u < fnOf Ul P.length → ∀ j,
      (curvePoint p (fnOf Ul) P u).getD j 0 = (curvePoint p (fnOf Ul) P' u).getD j 0) : P = P' :=
  curve_net_unique p d Ul P P' hwf hlen hP' hact h

omit [Field K] [IsStrictOrderedRing K] in
/-- `AllActive` says exactly: every control point index is active on a non-empty span inside the domain. -/
theorem allActive_iff_spans (p n : ℕ) (U : ℕ → K) (hm : Monotone U) (hpn : p + 1 ≤ n) :
    AllActive p n U ↔ ∀ i, i < n → ∃ κ, p ≤ κ ∧ κ < n ∧ i ≤ κ ∧ κ ≤ i + p ∧ U κ < U (κ+1) :=
  ⟨fun h i hi => h.span hpn i hi, allActive_of_spans hm⟩

/-- **A removable knot was inserted**: if `ub` is removable `r` times from `(V, Ph)` (witness `Q`), then `Ph` IS
    the net A5.1 produces by inserting `ub` `r` times into `Q`. -/
theorem removable_knot_is_inserted (p d : ℕ) (V : List K) (Ph Q : List (List K)) (ub : K) (r s k : ℕ)
    (h : RemovableKnot p d V Ph Q ub r s k) :
    Ph = knotInsertion p (fnOf (knotRemovalKv V (k + r) r)) Q ub r s k :=
  (removable_knot p d V Ph Q ub r r s k 0 h.wf h.active h.reduced h.run h.below h.above h.r1 (le_refl _) h.rs h.pk h.kn
    (le_refl _) h.same).1

/-- **Whenever removable at all, removal is exact**: A5.8 as coded, called as the library calls it (count `r`,
    multiplicity `s + r`, span `k + r`, any tolerance `tol2 ≥ 0`), returns EXACTLY the control points `Q` of the
    curve without the `r` copies. -/
theorem remove_removable_knot (p d : ℕ) (V : List K) (Ph Q : List (List K)) (ub : K) (r s k : ℕ) (tol2 : K)
    (h : RemovableKnot p d V Ph Q ub r s k) (htol : 0 ≤ tol2) :
    knotRemoval p (fnOf V) Ph ub r (s + r) (k + r) tol2 = Q := by
  have := (removable_knot p d V Ph Q ub r r s k tol2 h.wf h.active h.reduced h.run h.below h.above h.r1 (le_refl _) h.rs
    h.pk h.kn htol h.same).2
  rw [this, Nat.sub_self, RemInv.knotInsertion_zero p _ Q ub s k h.pk]

/-- **… and removing it `t ≤ r` times** gives exactly the net of `r - t` insertions of `ub` into `Q`. -/
theorem remove_removable_knot_t (p d : ℕ) (V : List K) (Ph Q : List (List K)) (ub : K) (r t s k : ℕ) (tol2 : K)
    (h : RemovableKnot p d V Ph Q ub r s k) (ht1 : 1 ≤ t) (htr : t ≤ r) (htol : 0 ≤ tol2) :
    knotRemoval p (fnOf V) Ph ub t (s + r) (k + r) tol2
      = knotInsertion p (fnOf (knotRemovalKv V (k + r) r)) Q ub (r - t) s k :=
  (removable_knot p d V Ph Q ub r t s k tol2 h.wf h.active h.reduced h.run h.below h.above ht1 htr h.rs h.pk h.kn htol
    h.same).2

/-- **The evaluated points are unchanged**: the curve after `t ≤ r` removals (knot vector from
    `knot_removal_kv`, control points from `knot_removal`) has at EVERY parameter of the closed domain the point
    of the witness curve `Q` – which on the half-open domain is the point of the curve before the removal. -/
theorem remove_removable_knot_preserves_points (p d : ℕ) (V : List K) (Ph Q : List (List K)) (ub : K) (r t s k : ℕ)
    (tol2 : K) (h : RemovableKnot p d V Ph Q ub r s k) (ht1 : 1 ≤ t) (htr : t ≤ r) (htol : 0 ≤ tol2)
    (u : K) (hlo : fnOf V p ≤ u) (hhi : u ≤ fnOf V Ph.length) (j : ℕ) :
    (curvePoint p (fnOf (knotRemovalKv V (k + r) t)) (knotRemoval p (fnOf V) Ph ub t (s + r) (k + r) tol2) u).getD j 0
        = (curvePoint p (fnOf (knotRemovalKv V (k + r) r)) Q u).getD j 0 ∧
      (u < fnOf V Ph.length →
        (curvePoint p (fnOf (knotRemovalKv V (k + r) t)) (knotRemoval p (fnOf V) Ph ub t (s + r) (k + r) tol2) u).getD j 0
          = (curvePoint p (fnOf V) Ph u).getD j 0) :=
  have a := removable_knot_points p d V Ph Q ub r t s k tol2 h.wf h.active h.reduced h.run h.below h.above ht1 htr h.rs
    h.pk h.kn htol h.same u hlo hhi j
  ⟨a, fun h2 => a.trans (h.same u hlo h2 j)⟩

/-- **Object level (curves)**: `operations.remove_knot` on the curve object – multiplicity and span found by the
    library's own searches; `hfm`: the multiplicity found with tolerance `tol` is the true one – removes the
    removable knot `t ≤ r` times exactly and reports success (either setting of `check`); `t = r` returns the
    witness curve itself. -/
theorem curve_remove_removable_knot (rat : Bool) (p d : ℕ) (V : List K) (Ph Q : List (List K)) (ub tol tol2 : K)
    (r t s k : ℕ) (check : Bool) (h : RemovableKnot p d V Ph Q ub r s k) (ht1 : 1 ≤ t) (htr : t ≤ r)
    (htol : 0 ≤ tol2) (hfm : findMultiplicity ub V tol = s + r) :
    removeKnot (RemInv.curveShape rat p V Ph) [some ub] [t] tol tol2 check
      = (RemInv.curveShape rat p (knotRemovalKv V (k + r) t)
          (knotInsertion p (fnOf (knotRemovalKv V (k + r) r)) Q ub (r - t) s k), true) ∧
    (t = r → removeKnot (RemInv.curveShape rat p V Ph) [some ub] [t] tol tol2 check
      = (RemInv.curveShape rat p (knotRemovalKv V (k + r) r) Q, true)) :=
  have a := removable_knot_object rat p d V Ph Q ub tol tol2 r t s k check h.wf h.active h.reduced h.run h.below h.above
    ht1 htr h.rs h.pk h.kn htol h.same hfm
  ⟨a, fun e => by subst e; rw [a, Nat.sub_self, RemInv.knotInsertion_zero p _ Q ub s k h.pk]⟩

/-! ### non-vacuity: a knot produced by REFINEMENT, removed after other knots were inserted

The quadratic of C05 (knots `0,0,0,½,1,1,1`, four points) refined with density 1: `X = ¼,¼,½,¾,¾` – the second
copy of `½` is inserted BEFORE the two copies of `¾`, so the round-trip theorems above do not apply to it.  The
witness `Q` is the fold of the insertions of `¼,¼,¾,¾` (C04/C05: same curve). -/

/-- all hypotheses hold on that input (`k = 5`, `s = 1`, `r = 1`: `½` sits at positions 5, 6 of the refined knots;
    the proof discharges every field: `decide` for the order facts, C05's `refine_fold_preserves_curve` twice for
    the equality of the evaluated points) -/
example : RemovableKnot 2 2 ([0,0,0,1/4,1/4,1/2,1/2,3/4,3/4,1,1,1] : List ℚ)
    [[0,0],[1/2,1],[7/8,5/4],[5/4,3/2],[3/2,1],[7/4,1/2],[17/8,1/2],[5/2,1/2],[3,1]]
    [[0,0],[1/2,1],[7/8,5/4],[5/4,3/2],[7/4,1/2],[17/8,1/2],[5/2,1/2],[3,1]] (1/2) 1 1 5 :=
  UniqueEx.refined_removable

/-- … and on it A5.8 as coded returns the witness (concrete run of the model, any tolerance would do) -/
example : knotRemoval 2 (fnOf ([0,0,0,1/4,1/4,1/2,1/2,3/4,3/4,1,1,1] : List ℚ))
    [[0,0],[1/2,1],[7/8,5/4],[5/4,3/2],[3/2,1],[7/4,1/2],[17/8,1/2],[5/2,1/2],[3,1]] (1/2) 1 (1 + 1) (5 + 1) 0
      = [[0,0],[1/2,1],[7/8,5/4],[5/4,3/2],[7/4,1/2],[17/8,1/2],[5/2,1/2],[3,1]] := by decide +kernel

/-! ### surfaces, per direction: every iso-curve removable ⇒ the gather / scatter returns the witness net -/

/-- **Surfaces, v direction, removable at all**: if every row of `P` (iso-curve `u = x`, gathered as
    `operations.remove_knot` gathers it) is a curve from which `ub` is removable `r` times, witnessed by the
    corresponding row of a net `Q` of size `su × (sv - r)`, then the gather / A5.8 on every row / scatter returns
    exactly `Q` and the v-size `sv - r`. -/
theorem surface_v_remove_removable_knot (p d : ℕ) (V : List K) (P Q : List (List K)) (ub : K) (r s k su sv : ℕ)
    (tol2 : K) (hsu : 0 < su) (hlenQ : Q.length = su * (sv - r))
    (h : ∀ x, x < su → RemovableKnot p d V ((List.range sv).map (fun v => ptsGet P (v + sv * x)))
      ((List.range (sv - r)).map (fun v => ptsGet Q (v + (sv - r) * x))) ub r s k) (htol : 0 ≤ tol2) :
    mapSurfV su sv P (fun c => knotRemoval p (fnOf V) c ub r (s + r) (k + r) tol2) = (Q, sv - r) :=
  surfV_removable p d V P Q ub r s k su sv tol2 hsu hlenQ h htol

/-- **Surfaces, u direction, removable at all** (columns – iso-curves `v = y`; `Q` of size `(su - r) × sv`). -/
theorem surface_u_remove_removable_knot (p d : ℕ) (V : List K) (P Q : List (List K)) (ub : K) (r s k su sv : ℕ)
    (tol2 : K) (hsv : 0 < sv) (hlenQ : Q.length = (su - r) * sv)
    (h : ∀ y, y < sv → RemovableKnot p d V ((List.range su).map (fun u => ptsGet P (y + sv * u)))
      ((List.range (su - r)).map (fun u => ptsGet Q (y + sv * u))) ub r s k) (htol : 0 ≤ tol2) :
    mapSurfU su sv P (fun c => knotRemoval p (fnOf V) c ub r (s + r) (k + r) tol2) = (Q, su - r) :=
  surfU_removable p d V P Q ub r s k su sv tol2 hsv hlenQ h htol

/-- non-vacuity: a `2 × 9` net whose two rows are the refined curve above; the v-direction removal returns the
    `2 × 8` witness net -/
example : mapSurfV 2 9 (UniqueEx.Ph ++ UniqueEx.Ph)
    (fun c => knotRemoval 2 (fnOf UniqueEx.V) c (1/2) 1 (1 + 1) (5 + 1) 0) = (UniqueEx.Q ++ UniqueEx.Q, 9 - 1) :=
  surface_v_remove_removable_knot 2 2 UniqueEx.V _ _ (1/2) 1 1 5 2 9 0 (by omega) (by decide)
    UniqueEx.rows_removable (le_refl _)

/-- the activity hypothesis fails exactly when a basis function vanishes on the domain: a knot of
    multiplicity `p + 2` -/
example : ¬ AllActive 1 4 (fnOf ([0,0,1/2,1/2,1/2,1,1] : List ℚ)) := by decide +kernel

/-! ## (T) Tensor products: uniqueness of control nets of surfaces and volumes, and "whenever removable at all"
for surfaces and volumes – as a SURFACE / VOLUME, per direction, any count `t ≤ r`, and at object level

`S(u,v) = Σ_a Nu_a(u) · C_a(v)`: for fixed `v` a curve in `u` whose control values are the points of the iso-curves;
global linear independence of the u-basis on its domain (from the local independence on a non-empty span per index,
section (U)) separates the iso-curves, and curve uniqueness finishes.  Volumes: two such steps.

`SurfRemovableU pu pv d V Uv P Q ub r s k su sv` (Lemmas/UniqueTensorRemove.lean; every field explicit): the
u-direction knot vector `V` of the well-formed `su × sv` surface `(V, Uv, P)` holds `ub` at the positions
`k-s+1 .. k+r`, `1 ≤ r`, `r + s ≤ pu ≤ k`, `k + r < su`; no basis function of either direction vanishes on its whole
domain; and SOME `(su - r) × sv` net `Q` over `V` with `r` copies of `ub` taken out (same v direction) has the same
SURFACE points on the half-open domain.  `SurfRemovableV`, `VolRemovableU/V/W` (Lemmas/UniqueVolRemove.lean):
likewise.  `SurfRemovableObj d S T dir ub r tol` / `VolRemovableObj` (Lemmas/UniqueTensorObj.lean, UniqueVolObj.lean):
the same on `Shape`s, stated from the side of the witness `T` (the knot vectors of `S` are those of `T` with `ub`
inserted `r` times at the span the library finds; `RoundOk T dir ub r tol`). -/

/-- **The B-spline basis is linearly independent on its domain**: sorted knots, `n ≥ p + 1`, no basis function
    vanishing on the whole domain.  If `Σ_r N_{k-p+r,p}(u) · c_{k-p+r}` (`k` = the span `find_span_linear` returns,
    the `N` = what A2.2 returns) is zero at every `u` of the half-open domain, every `c_i`, `i < n`, is zero. -/
theorem basis_functions_independent_on_domain (p n : ℕ) (U : ℕ → K) (hm : Monotone U) (hpn : p + 1 ≤ n)
    (hact : AllActive p n U) (c : ℕ → K)
    (h : ∀ u, U p ≤ u → u < U n →
      ∑ r ∈ Finset.range (p+1), (basisFuns p U (findSpanLinear p U n u) u).getD r 0 * c (findSpanLinear p U n u - p + r) = 0) :
    ∀ i, i < n → c i = 0 :=
  basis_global_lin_indep p n U hm hpn hact c h

/-- **The control net of a B-spline surface is unique**: two `su × sv` nets of `d`-dimensional points over the same
    well-formed knot vectors (no basis function of either direction vanishing on its whole domain) whose surfaces
    have the same point at every parameter pair of the half-open domain are equal. -/
theorem surface_control_net_unique (pu pv d su sv : ℕ) (Uu Uv : List K) (P P' : List (List K))
    (hu : KvWF pu Uu su) (hv : KvWF pv Uv sv)
    (hactu : AllActive pu su (fnOf Uu)) (hactv : AllActive pv sv (fnOf Uv))
    (hlen : P.length = su * sv) (hlen' : P'.length = su * sv) (hP : NetOk d P) (hP' : NetOk d P')
    (h : ∀ u v, fnOf Uu pu ≤ u → u < fnOf Uu su → fnOf Uv pv ≤ v → v < fnOf Uv sv → ∀ j,
      (surfacePoint pu pv (fnOf Uu) (fnOf Uv) su sv P u v).getD j 0
        = (surfacePoint pu pv (fnOf Uu) (fnOf Uv) su sv P' u v).getD j 0) : P = P' :=
  surface_net_unique pu pv d (fnOf Uu) (fnOf Uv) su sv P P' hu.mono hv.mono hu.pn hv.pn hactu hactv hlen hlen' hP hP' h

/-- **The control net of a B-spline volume is unique.** -/
theorem volume_control_net_unique (pu pv pw d su sv sw : ℕ) (Uu Uv Uw : List K) (P P' : List (List K))
    (hu : KvWF pu Uu su) (hv : KvWF pv Uv sv) (hw : KvWF pw Uw sw)
    (hactu : AllActive pu su (fnOf Uu)) (hactv : AllActive pv sv (fnOf Uv)) (hactw : AllActive pw sw (fnOf Uw))
    (hlen : P.length = su * sv * sw) (hlen' : P'.length = su * sv * sw) (hP : NetOk d P) (hP' : NetOk d P')
    (h : ∀ u v w, fnOf Uu pu ≤ u → u < fnOf Uu su → fnOf Uv pv ≤ v → v < fnOf Uv sv → fnOf Uw pw ≤ w → w < fnOf Uw sw →
      ∀ j, (volumePoint pu pv pw (fnOf Uu) (fnOf Uv) (fnOf Uw) su sv sw P u v w).getD j 0
        = (volumePoint pu pv pw (fnOf Uu) (fnOf Uv) (fnOf Uw) su sv sw P' u v w).getD j 0) : P = P' :=
  volume_net_unique pu pv pw d (fnOf Uu) (fnOf Uv) (fnOf Uw) su sv sw P P' hu.mono hv.mono hw.mono hu.pn hv.pn hw.pn
    hactu hactv hactw hlen hlen' hP hP' h

/-- **… on objects**: two well-formed surface `Shape`s with the same degrees, knot vectors and sizes and the same
    points on the half-open domain have the same control net. -/
theorem surface_object_control_net_unique (d : ℕ) (S S' : Shape K) (hS : SurfWF d S) (hS' : SurfWF d S')
    (hdegs : S'.degs = S.degs) (hkvs : S'.kvs = S.kvs) (hsizes : S'.sizes = S.sizes)
    (hact0 : AllActive (S.deg 0) (S.size 0) (fnOf (S.kv 0))) (hact1 : AllActive (S.deg 1) (S.size 1) (fnOf (S.kv 1)))
    (h : ∀ u v, fnOf (S.kv 0) (S.deg 0) ≤ u → u < fnOf (S.kv 0) (S.size 0) →
      fnOf (S.kv 1) (S.deg 1) ≤ v → v < fnOf (S.kv 1) (S.size 1) → ∀ j,
      (surfEval S u v).getD j 0 = (surfEval S' u v).getD j 0) : S.net = S'.net :=
  surfShape_net_unique d S S' hS hS' hdegs hkvs hsizes hact0 hact1 h

/-- **… volume objects.** -/
theorem volume_object_control_net_unique (d : ℕ) (S S' : Shape K) (hS : VolWF d S) (hS' : VolWF d S')
    (hdegs : S'.degs = S.degs) (hkvs : S'.kvs = S.kvs) (hsizes : S'.sizes = S.sizes)
    (hact0 : AllActive (S.deg 0) (S.size 0) (fnOf (S.kv 0))) (hact1 : AllActive (S.deg 1) (S.size 1) (fnOf (S.kv 1)))
    (hact2 : AllActive (S.deg 2) (S.size 2) (fnOf (S.kv 2)))
    (h : ∀ u v w, fnOf (S.kv 0) (S.deg 0) ≤ u → u < fnOf (S.kv 0) (S.size 0) →
      fnOf (S.kv 1) (S.deg 1) ≤ v → v < fnOf (S.kv 1) (S.size 1) →
      fnOf (S.kv 2) (S.deg 2) ≤ w → w < fnOf (S.kv 2) (S.size 2) → ∀ j,
      (volEval S u v w).getD j 0 = (volEval S' u v w).getD j 0) : S.net = S'.net :=
  volShape_net_unique d S S' hS hS' hdegs hkvs hsizes hact0 hact1 hact2 h

/-! ### removable from the surface ⇒ removable from every iso-curve ⇒ removed exactly -/

/-- **The iso-curve points are determined by the surface points** (fixed `u`, coordinate `j`): two surfaces with the
    same v direction – their u directions (degree, knots, size) may differ – whose points agree at every `v` of the
    half-open v-domain have, column by column (iso-curves `v = b`), the same iso-curve point at `u`. -/
theorem surface_isocurve_points_determined (pu pu' pv : ℕ) (Uu Uu' Uv : ℕ → K) (su su' sv : ℕ) (P P' : List (List K))
    (d j : ℕ) (u : K) (hmv : Monotone Uv) (hpnv : pv + 1 ≤ sv) (hactv : AllActive pv sv Uv)
    (hpnu : pu + 1 ≤ su) (hpnu' : pu' + 1 ≤ su')
    (hlen : P.length = su * sv) (hlen' : P'.length = su' * sv) (hP : NetOk d P) (hP' : NetOk d P')
    (h : ∀ v, Uv pv ≤ v → v < Uv sv →
      (surfacePoint pu pv Uu Uv su sv P u v).getD j 0 = (surfacePoint pu' pv Uu' Uv su' sv P' u v).getD j 0) :
    ∀ b, b < sv → (curvePoint pu Uu ((List.range su).map (fun a => ptsGet P (b + sv * a))) u).getD j 0
      = (curvePoint pu' Uu' ((List.range su').map (fun a => ptsGet P' (b + sv * a))) u).getD j 0 :=
  surface_cols_determined pu pu' pv Uu Uu' Uv su su' sv P P' d j u hmv hpnv hactv hpnu hpnu' hlen hlen' hP hP' h

/-- **A u-direction knot that is removable from the SURFACE is removable from every iso-curve** `v = y` (column `y`
    of the net, gathered as `operations.remove_knot` gathers it), witnessed by column `y` of the witness net. -/
theorem surface_u_removable_isocurves_removable (pu pv d : ℕ) (V Uv : List K) (P Q : List (List K)) (ub : K)
    (r s k su sv : ℕ) (h : SurfRemovableU pu pv d V Uv P Q ub r s k su sv) (y : ℕ) (hy : y < sv) :
    RemovableKnot pu d V ((List.range su).map (fun u => ptsGet P (y + sv * u)))
      ((List.range (su - r)).map (fun u => ptsGet Q (y + sv * u))) ub r s k :=
  h.isocurves y hy

/-- **… v direction**: every row (iso-curve `u = x`). -/
theorem surface_v_removable_isocurves_removable (pu pv d : ℕ) (Uu V : List K) (P Q : List (List K)) (ub : K)
    (r s k su sv : ℕ) (h : SurfRemovableV pu pv d Uu V P Q ub r s k su sv) (x : ℕ) (hx : x < su) :
    RemovableKnot pv d V ((List.range sv).map (fun v => ptsGet P (v + sv * x)))
      ((List.range (sv - r)).map (fun v => ptsGet Q (v + (sv - r) * x))) ub r s k :=
  h.isocurves x hx

/-- **Surfaces, u direction, whenever removable at all (as a surface)**: the gather / A5.8 on every column / scatter
    of `operations.remove_knot` returns EXACTLY the witness net and the reduced size – any tolerance `tol2 ≥ 0`. -/
theorem surface_u_remove_knot_removable_from_surface (pu pv d : ℕ) (V Uv : List K) (P Q : List (List K)) (ub : K)
    (r s k su sv : ℕ) (tol2 : K) (h : SurfRemovableU pu pv d V Uv P Q ub r s k su sv) (htol : 0 ≤ tol2) :
    mapSurfU su sv P (fun c => knotRemoval pu (fnOf V) c ub r (s + r) (k + r) tol2) = (Q, su - r) :=
  h.exact tol2 htol

/-- **… v direction.** -/
theorem surface_v_remove_knot_removable_from_surface (pu pv d : ℕ) (Uu V : List K) (P Q : List (List K)) (ub : K)
    (r s k su sv : ℕ) (tol2 : K) (h : SurfRemovableV pu pv d Uu V P Q ub r s k su sv) (htol : 0 ≤ tol2) :
    mapSurfV su sv P (fun c => knotRemoval pv (fnOf V) c ub r (s + r) (k + r) tol2) = (Q, sv - r) :=
  h.exact tol2 htol

/-- **Surfaces, `t ≤ r` removals, u direction**: when every column is a removable curve, removing `t` of the `r`
    removable copies gives exactly the net and size that `r - t` insertions of `ub` into the witness net give. -/
theorem surface_u_remove_removable_knot_t (p d : ℕ) (V : List K) (P Q : List (List K)) (ub : K) (r t s k su sv : ℕ)
    (tol2 : K) (hsv : 0 < sv)
    (h : ∀ y, y < sv → RemovableKnot p d V ((List.range su).map (fun u => ptsGet P (y + sv * u)))
      ((List.range (su - r)).map (fun u => ptsGet Q (y + sv * u))) ub r s k)
    (ht1 : 1 ≤ t) (htr : t ≤ r) (htol : 0 ≤ tol2) :
    mapSurfU su sv P (fun c => knotRemoval p (fnOf V) c ub t (s + r) (k + r) tol2)
      = mapSurfU (su - r) sv Q (fun c => knotInsertion p (fnOf (knotRemovalKv V (k + r) r)) c ub (r - t) s k) :=
  surfU_removable_t p d V P Q ub r t s k su sv tol2 hsv h ht1 htr htol

/-- **… v direction.** -/
theorem surface_v_remove_removable_knot_t (p d : ℕ) (V : List K) (P Q : List (List K)) (ub : K) (r t s k su sv : ℕ)
    (tol2 : K) (hsu : 0 < su)
    (h : ∀ x, x < su → RemovableKnot p d V ((List.range sv).map (fun v => ptsGet P (v + sv * x)))
      ((List.range (sv - r)).map (fun v => ptsGet Q (v + (sv - r) * x))) ub r s k)
    (ht1 : 1 ≤ t) (htr : t ≤ r) (htol : 0 ≤ tol2) :
    mapSurfV su sv P (fun c => knotRemoval p (fnOf V) c ub t (s + r) (k + r) tol2)
      = mapSurfV su (sv - r) Q (fun c => knotInsertion p (fnOf (knotRemovalKv V (k + r) r)) c ub (r - t) s k) :=
  surfV_removable_t p d V P Q ub r t s k su sv tol2 hsu h ht1 htr htol

/-! ### volumes (layout `v + sv*(u + su*w)`) -/

/-- **Volumes, u direction, removable at all**: if every iso-curve along u (`v = y, w = z`, gathered as
    `operations.remove_knot` gathers it) is a curve from which `ub` is removable `r` times, witnessed by the
    corresponding iso-curve of a net `Q` of size `(su - r) × sv × sw`, then the per-iso-curve gather / A5.8 / scatter
    (`mapVol 0`) returns exactly `Q` and the u-size `su - r`; and `t ≤ r` removals return what `r - t` insertions into
    `Q` give. -/
theorem volume_u_remove_removable_knot (p d : ℕ) (V : List K) (P Q : List (List K)) (ub : K) (r t s k su sv sw : ℕ)
    (tol2 : K) (hsv : 0 < sv) (hsw : 0 < sw) (hlenQ : Q.length = (su - r) * sv * sw)
    (h : ∀ y z, y < sv → z < sw → RemovableKnot p d V ((List.range su).map (fun u => ptsGet P (y + sv * (u + su * z))))
      ((List.range (su - r)).map (fun u => ptsGet Q (y + sv * (u + (su - r) * z)))) ub r s k)
    (ht1 : 1 ≤ t) (htr : t ≤ r) (htol : 0 ≤ tol2) :
    mapVol 0 su sv sw P (fun c => knotRemoval p (fnOf V) c ub r (s + r) (k + r) tol2) = (Q, su - r) ∧
    mapVol 0 su sv sw P (fun c => knotRemoval p (fnOf V) c ub t (s + r) (k + r) tol2)
      = mapVol 0 (su - r) sv sw Q (fun c => knotInsertion p (fnOf (knotRemovalKv V (k + r) r)) c ub (r - t) s k) :=
  ⟨volU_removable p d V P Q ub r s k su sv sw tol2 hsv hsw hlenQ h htol,
   volU_removable_t p d V P Q ub r s k su sv sw tol2 t hsv hsw h ht1 htr htol⟩

/-- **Volumes, v direction, removable at all** (iso-curves `u = x, w = z`; `Q` of size `su × (sv - r) × sw`). -/
theorem volume_v_remove_removable_knot (p d : ℕ) (V : List K) (P Q : List (List K)) (ub : K) (r t s k su sv sw : ℕ)
    (tol2 : K) (hsu : 0 < su) (hsw : 0 < sw) (hlenQ : Q.length = su * (sv - r) * sw)
    (h : ∀ x z, x < su → z < sw → RemovableKnot p d V ((List.range sv).map (fun v => ptsGet P (v + sv * (x + su * z))))
      ((List.range (sv - r)).map (fun v => ptsGet Q (v + (sv - r) * (x + su * z)))) ub r s k)
    (ht1 : 1 ≤ t) (htr : t ≤ r) (htol : 0 ≤ tol2) :
    mapVol 1 su sv sw P (fun c => knotRemoval p (fnOf V) c ub r (s + r) (k + r) tol2) = (Q, sv - r) ∧
    mapVol 1 su sv sw P (fun c => knotRemoval p (fnOf V) c ub t (s + r) (k + r) tol2)
      = mapVol 1 su (sv - r) sw Q (fun c => knotInsertion p (fnOf (knotRemovalKv V (k + r) r)) c ub (r - t) s k) :=
  ⟨volV_removable p d V P Q ub r s k su sv sw tol2 hsu hsw hlenQ h htol,
   volV_removable_t p d V P Q ub r s k su sv sw tol2 t hsu hsw h ht1 htr htol⟩

/-- **Volumes, w direction, removable at all** (iso-curves `u = x, v = y`; `Q` of size `su × sv × (sw - r)`). -/
theorem volume_w_remove_removable_knot (p d : ℕ) (V : List K) (P Q : List (List K)) (ub : K) (r t s k su sv sw : ℕ)
    (tol2 : K) (hsu : 0 < su) (hsv : 0 < sv) (hlenQ : Q.length = su * sv * (sw - r))
    (h : ∀ x y, x < su → y < sv → RemovableKnot p d V ((List.range sw).map (fun w => ptsGet P (y + sv * (x + su * w))))
      ((List.range (sw - r)).map (fun w => ptsGet Q (y + sv * (x + su * w)))) ub r s k)
    (ht1 : 1 ≤ t) (htr : t ≤ r) (htol : 0 ≤ tol2) :
    mapVol 2 su sv sw P (fun c => knotRemoval p (fnOf V) c ub r (s + r) (k + r) tol2) = (Q, sw - r) ∧
    mapVol 2 su sv sw P (fun c => knotRemoval p (fnOf V) c ub t (s + r) (k + r) tol2)
      = mapVol 2 su sv (sw - r) Q (fun c => knotInsertion p (fnOf (knotRemovalKv V (k + r) r)) c ub (r - t) s k) :=
  ⟨volW_removable p d V P Q ub r s k su sv sw tol2 hsu hsv hlenQ h htol,
   volW_removable_t p d V P Q ub r s k su sv sw tol2 t hsu hsv h ht1 htr htol⟩

/-- **A removable knot passes the removability test of every removal step** (A5.8 called as the library calls it,
    any tolerance `tol2 ≥ 0`, the first `t ≤ r` steps): the hypothesis `Rows.AllRemovable` of section (R) holds for
    every removable iso-curve. -/
theorem removable_knot_passes_every_test (p d : ℕ) (V : List K) (Ph Q : List (List K)) (ub : K) (r t s k : ℕ) (tol2 : K)
    (h : RemovableKnot p d V Ph Q ub r s k) (htr : t ≤ r) (htol : 0 ≤ tol2) :
    Rows.AllRemovable p (fnOf V) Ph ub t (s + r) (k + r) tol2 :=
  h.allRemovable t htr tol2 htol

/-- **Volumes, AS THE CODE COMPUTES IT** (gather / ONE call of the list-of-rows branch of `helpers.knot_removal` –
    one removability flag per step, from the first iso-curve – / scatter): when every iso-curve of the direction is
    removable, the rows branch returns what the per-iso-curve model returns, for every count `t ≤ r`, in each of the
    three directions. -/
theorem volume_rows_remove_removable_knot (p d : ℕ) (V : List K) (P Q : List (List K)) (ub : K) (r t s k su sv sw : ℕ)
    (tol2 : K) (hsu : 0 < su) (hsv : 0 < sv) (hsw : 0 < sw) (htr : t ≤ r) (hrs : r + s ≤ p) (hpk : p ≤ k) (htol : 0 ≤ tol2) :
    ((∀ y z, y < sv → z < sw → RemovableKnot p d V ((List.range su).map (fun u => ptsGet P (y + sv * (u + su * z))))
        ((List.range (su - r)).map (fun u => ptsGet Q (y + sv * (u + (su - r) * z)))) ub r s k) → k + r < su →
      mapVolRows 0 su sv sw P (fun R => knotRemovalRows p (fnOf V) R ub t (s + r) (k + r) tol2)
        = mapVol 0 su sv sw P (fun c => knotRemoval p (fnOf V) c ub t (s + r) (k + r) tol2)) ∧
    ((∀ x z, x < su → z < sw → RemovableKnot p d V ((List.range sv).map (fun v => ptsGet P (v + sv * (x + su * z))))
        ((List.range (sv - r)).map (fun v => ptsGet Q (v + (sv - r) * (x + su * z)))) ub r s k) → k + r < sv →
      mapVolRows 1 su sv sw P (fun R => knotRemovalRows p (fnOf V) R ub t (s + r) (k + r) tol2)
        = mapVol 1 su sv sw P (fun c => knotRemoval p (fnOf V) c ub t (s + r) (k + r) tol2)) ∧
    ((∀ x y, x < su → y < sv → RemovableKnot p d V ((List.range sw).map (fun w => ptsGet P (y + sv * (x + su * w))))
        ((List.range (sw - r)).map (fun w => ptsGet Q (y + sv * (x + su * w)))) ub r s k) → k + r < sw →
      mapVolRows 2 su sv sw P (fun R => knotRemovalRows p (fnOf V) R ub t (s + r) (k + r) tol2)
        = mapVol 2 su sv sw P (fun c => knotRemoval p (fnOf V) c ub t (s + r) (k + r) tol2)) :=
  ⟨fun h hkn => volU_rows_removable p d V P Q ub r t s k su sv sw tol2 hsu hsv hsw h htr hrs hpk hkn htol,
   fun h hkn => volV_rows_removable p d V P Q ub r t s k su sv sw tol2 hsu hsv hsw h htr hrs hpk hkn htol,
   fun h hkn => volW_rows_removable p d V P Q ub r t s k su sv sw tol2 hsu hsv hsw h htr hrs hpk hkn htol⟩

/-- **A knot that is removable from the VOLUME is removable from every iso-curve of its direction** (u, v, w). -/
theorem volume_removable_isocurves_removable (pu pv pw d : ℕ) (U1 U2 U3 : List K) (P Q : List (List K)) (ub : K)
    (r s k su sv sw : ℕ) :
    (VolRemovableU pu pv pw d U1 U2 U3 P Q ub r s k su sv sw → ∀ y z, y < sv → z < sw →
      RemovableKnot pu d U1 ((List.range su).map (fun u => ptsGet P (y + sv * (u + su * z))))
        ((List.range (su - r)).map (fun u => ptsGet Q (y + sv * (u + (su - r) * z)))) ub r s k) ∧
    (VolRemovableV pu pv pw d U1 U2 U3 P Q ub r s k su sv sw → ∀ x z, x < su → z < sw →
      RemovableKnot pv d U2 ((List.range sv).map (fun v => ptsGet P (v + sv * (x + su * z))))
        ((List.range (sv - r)).map (fun v => ptsGet Q (v + (sv - r) * (x + su * z)))) ub r s k) ∧
    (VolRemovableW pu pv pw d U1 U2 U3 P Q ub r s k su sv sw → ∀ x y, x < su → y < sv →
      RemovableKnot pw d U3 ((List.range sw).map (fun w => ptsGet P (y + sv * (x + su * w))))
        ((List.range (sw - r)).map (fun w => ptsGet Q (y + sv * (x + su * w)))) ub r s k) :=
  ⟨fun h y z hy hz => h.isocurves y z hy hz, fun h x z hx hz => h.isocurves x z hx hz,
   fun h x y hx hy => h.isocurves x y hx hy⟩

/-- **Volumes, whenever removable at all (as a volume)**: in each direction, the per-iso-curve model AND the rows
    branch the code runs return EXACTLY the witness net and the reduced size – any tolerance `tol2 ≥ 0`. -/
theorem volume_remove_knot_removable_from_volume (pu pv pw d : ℕ) (U1 U2 U3 : List K) (P Q : List (List K)) (ub : K)
    (r s k su sv sw : ℕ) (tol2 : K) (htol : 0 ≤ tol2) :
    (VolRemovableU pu pv pw d U1 U2 U3 P Q ub r s k su sv sw →
      mapVol 0 su sv sw P (fun c => knotRemoval pu (fnOf U1) c ub r (s + r) (k + r) tol2) = (Q, su - r) ∧
      mapVolRows 0 su sv sw P (fun R => knotRemovalRows pu (fnOf U1) R ub r (s + r) (k + r) tol2) = (Q, su - r)) ∧
    (VolRemovableV pu pv pw d U1 U2 U3 P Q ub r s k su sv sw →
      mapVol 1 su sv sw P (fun c => knotRemoval pv (fnOf U2) c ub r (s + r) (k + r) tol2) = (Q, sv - r) ∧
      mapVolRows 1 su sv sw P (fun R => knotRemovalRows pv (fnOf U2) R ub r (s + r) (k + r) tol2) = (Q, sv - r)) ∧
    (VolRemovableW pu pv pw d U1 U2 U3 P Q ub r s k su sv sw →
      mapVol 2 su sv sw P (fun c => knotRemoval pw (fnOf U3) c ub r (s + r) (k + r) tol2) = (Q, sw - r) ∧
      mapVolRows 2 su sv sw P (fun R => knotRemovalRows pw (fnOf U3) R ub r (s + r) (k + r) tol2) = (Q, sw - r)) :=
  ⟨fun h => ⟨h.exact tol2 htol, h.rows_exact tol2 htol⟩, fun h => ⟨h.exact tol2 htol, h.rows_exact tol2 htol⟩,
   fun h => ⟨h.exact tol2 htol, h.rows_exact tol2 htol⟩⟩

/-! ### object level: `operations.remove_knot` on a surface / volume `Shape`, the library's own searches -/

/-- **A removable knot of a surface was inserted**: if `ub` is removable `r` times from direction `dir` of the surface
    object `S` (witness `T`), then `S` IS the object `operations.insert_knot` produces from `T` – whatever produced
    the net of `S`. -/
theorem surface_removable_knot_is_inserted (d : ℕ) (S T : Shape K) (dir : ℕ) (ub : K) (r : ℕ) (tol : K)
    (h : SurfRemovableObj d S T dir ub r tol) : S = insDirOf T dir ub r tol :=
  h.is_inserted

/-- **Object level, surfaces, whenever removable at all**: `operations.remove_knot` on `S` – one requested direction,
    span and multiplicity found by the library's own searches on `S`, either setting of `check`, any `tol2 ≥ 0` –
    with count `t = nums[dir]`, `1 ≤ t ≤ r`, returns the object of `r - t` insertions of `ub` into the witness `T` and
    reports success; for `t = r` it returns `T` itself. -/
theorem surface_remove_removable_knot_object (d : ℕ) (S T : Shape K) (dir : ℕ) (ub : K) (r : ℕ) (tol : K)
    (h : SurfRemovableObj d S T dir ub r tol) (params : List (Option K)) (nums : List ℕ) (tol2 : K) (check : Bool)
    (hpl : 2 ≤ params.length) (hnl : nums.length = 2)
    (ho : OnlyDir dir params nums) (hp : params.getD dir none = some ub) (h2 : 0 ≤ tol2)
    (ht1 : 1 ≤ nums.getD dir 0) (htr : nums.getD dir 0 ≤ r) :
    removeKnot S params nums tol tol2 check = (insDirOf T dir ub (r - nums.getD dir 0) tol, true) ∧
    (nums.getD dir 0 = r → removeKnot S params nums tol tol2 check = (T, true)) :=
  h.removeKnot params nums tol2 check ho hp h2 ht1 htr

/-- **… and the evaluated points are unchanged**: at every parameter pair of the closed domain the surface after the
    removal has the point of the witness `T` (which on the half-open domain is the point of `S`). -/
theorem surface_remove_removable_knot_object_points (d : ℕ) (S T : Shape K) (dir : ℕ) (ub : K) (r : ℕ) (tol : K)
    (h : SurfRemovableObj d S T dir ub r tol) (params : List (Option K)) (nums : List ℕ) (tol2 : K) (check : Bool)
    (hpl : 2 ≤ params.length) (hnl : nums.length = 2)
    (ho : OnlyDir dir params nums) (hp : params.getD dir none = some ub) (h2 : 0 ≤ tol2)
    (ht1 : 1 ≤ nums.getD dir 0) (htr : nums.getD dir 0 ≤ r)
    (u v : K) (hu1 : fnOf (T.kv 0) (T.deg 0) ≤ u) (hu2 : u ≤ fnOf (T.kv 0) (T.size 0))
    (hv1 : fnOf (T.kv 1) (T.deg 1) ≤ v) (hv2 : v ≤ fnOf (T.kv 1) (T.size 1)) (j : ℕ) :
    (surfEval (removeKnot S params nums tol tol2 check).1 u v).getD j 0 = (surfEval T u v).getD j 0 :=
  h.removeKnot_points params nums tol2 check ho hp h2 ht1 htr u v hu1 hu2 hv1 hv2 j

/-- **A removable knot of a volume was inserted.** -/
theorem volume_removable_knot_is_inserted (d : ℕ) (S T : Shape K) (dir : ℕ) (ub : K) (r : ℕ) (tol : K)
    (h : VolRemovableObj d S T dir ub r tol) : S = insDirOf T dir ub r tol :=
  h.is_inserted

/-- **Object level, volumes, whenever removable at all** (the per-iso-curve model `removeKnot`). -/
theorem volume_remove_removable_knot_object (d : ℕ) (S T : Shape K) (dir : ℕ) (ub : K) (r : ℕ) (tol : K)
    (h : VolRemovableObj d S T dir ub r tol) (params : List (Option K)) (nums : List ℕ) (tol2 : K) (check : Bool)
    (hpl : 3 ≤ params.length) (hnl : nums.length = 3)
    (ho : OnlyDir dir params nums) (hp : params.getD dir none = some ub) (h2 : 0 ≤ tol2)
    (ht1 : 1 ≤ nums.getD dir 0) (htr : nums.getD dir 0 ≤ r) :
    removeKnot S params nums tol tol2 check = (insDirOf T dir ub (r - nums.getD dir 0) tol, true) ∧
    (nums.getD dir 0 = r → removeKnot S params nums tol tol2 check = (T, true)) :=
  h.removeKnot params nums tol2 check ho hp h2 ht1 htr

/-- **… evaluated points unchanged.** -/
theorem volume_remove_removable_knot_object_points (d : ℕ) (S T : Shape K) (dir : ℕ) (ub : K) (r : ℕ) (tol : K)
    (h : VolRemovableObj d S T dir ub r tol) (params : List (Option K)) (nums : List ℕ) (tol2 : K) (check : Bool)
    (hpl : 3 ≤ params.length) (hnl : nums.length = 3)
    (ho : OnlyDir dir params nums) (hp : params.getD dir none = some ub) (h2 : 0 ≤ tol2)
    (ht1 : 1 ≤ nums.getD dir 0) (htr : nums.getD dir 0 ≤ r)
    (u v w : K) (hu1 : fnOf (T.kv 0) (T.deg 0) ≤ u) (hu2 : u ≤ fnOf (T.kv 0) (T.size 0))
    (hv1 : fnOf (T.kv 1) (T.deg 1) ≤ v) (hv2 : v ≤ fnOf (T.kv 1) (T.size 1))
    (hw1 : fnOf (T.kv 2) (T.deg 2) ≤ w) (hw2 : w ≤ fnOf (T.kv 2) (T.size 2)) (j : ℕ) :
    (volEval (removeKnot S params nums tol tol2 check).1 u v w).getD j 0 = (volEval T u v w).getD j 0 :=
  h.removeKnot_points params nums tol2 check ho hp h2 ht1 htr u v w hu1 hu2 hv1 hv2 hw1 hw2 j

/-- **… one direction of `operations.remove_knot` on the volume object AS THE CODE COMPUTES IT** (`removeKnotVolRows`:
    the rows branch, one flag per step from the first iso-curve; the library's own searches): count `1 ≤ t ≤ r` gives
    the object of `r - t` insertions into `T`, `t = r` gives `T`. -/
theorem volume_remove_removable_knot_object_rows (d : ℕ) (S T : Shape K) (dir : ℕ) (ub : K) (r : ℕ) (tol : K)
    (h : VolRemovableObj d S T dir ub r tol) (t : ℕ) (tol2 : K) (check : Bool) (h2 : 0 ≤ tol2) (ht1 : 1 ≤ t) (htr : t ≤ r) :
    removeKnotVolRows S dir ub t tol tol2 check = some (insDirOf T dir ub (r - t) tol) ∧
    (t = r → removeKnotVolRows S dir ub t tol tol2 check = some T) :=
  h.removeKnotVolRows t tol2 check h2 ht1 htr

/-- **The object-level hypotheses from the knot vector of the surface AT HAND** (as in `RemovableKnot`): direction
    `dir` of `S` holds `ub` at the positions `k-s+1 .. k+r` (`KnotRun`: sorted, `1 ≤ r`, `r + s ≤ p ≤ k`, `k + r < n`, no
    basis function vanishing on the domain, the reduced knot vector well formed), the witness `T` has that knot vector
    with `r` copies taken out (`knotRemovalKv`), `r` control points less in that direction and is otherwise like `S`,
    the multiplicity search with tolerance `tol ≥ 0` finds the true multiplicity `s` on the reduced knot vector, and
    `T` has the points of `S` on the half-open domain. -/
theorem surface_removable_object_of_knot_positions (d : ℕ) (S T : Shape K) (dir : ℕ) (ub tol : K) (r s k : ℕ)
    (hS : SurfWF d S) (hT : SurfWF d T) (hdir : dir < 2) (hrat : S.rat = T.rat) (hdegs : T.degs = S.degs)
    (hkvs : T.kvs = S.kvs.set dir (knotRemovalKv (S.kv dir) (k + r) r))
    (hsizes : T.sizes = S.sizes.set dir (S.size dir - r))
    (h : KnotRun (S.deg dir) (S.kv dir) (S.size dir) ub r s k) (htol : 0 ≤ tol)
    (hfm : findMultiplicity ub (knotRemovalKv (S.kv dir) (k + r) r) tol = s)
    (hact0 : AllActive (S.deg 0) (S.size 0) (fnOf (S.kv 0))) (hact1 : AllActive (S.deg 1) (S.size 1) (fnOf (S.kv 1)))
    (hsame : ∀ u v, fnOf (S.kv 0) (S.deg 0) ≤ u → u < fnOf (S.kv 0) (S.size 0) →
      fnOf (S.kv 1) (S.deg 1) ≤ v → v < fnOf (S.kv 1) (S.size 1) → ∀ j,
      (surfEval T u v).getD j 0 = (surfEval S u v).getD j 0) :
    SurfRemovableObj d S T dir ub r tol :=
  SurfRemovableObj.of_knotRun d S T dir ub tol r s k hS hT hdir hrat hdegs hkvs hsizes h htol hfm hact0 hact1 hsame

/-- **… volumes.** -/
theorem volume_removable_object_of_knot_positions (d : ℕ) (S T : Shape K) (dir : ℕ) (ub tol : K) (r s k : ℕ)
    (hS : VolWF d S) (hT : VolWF d T) (hdir : dir < 3) (hrat : S.rat = T.rat) (hdegs : T.degs = S.degs)
    (hkvs : T.kvs = S.kvs.set dir (knotRemovalKv (S.kv dir) (k + r) r))
    (hsizes : T.sizes = S.sizes.set dir (S.size dir - r))
    (h : KnotRun (S.deg dir) (S.kv dir) (S.size dir) ub r s k) (htol : 0 ≤ tol)
    (hfm : findMultiplicity ub (knotRemovalKv (S.kv dir) (k + r) r) tol = s)
    (hact0 : AllActive (S.deg 0) (S.size 0) (fnOf (S.kv 0))) (hact1 : AllActive (S.deg 1) (S.size 1) (fnOf (S.kv 1)))
    (hact2 : AllActive (S.deg 2) (S.size 2) (fnOf (S.kv 2)))
    (hsame : ∀ u v w, fnOf (S.kv 0) (S.deg 0) ≤ u → u < fnOf (S.kv 0) (S.size 0) →
      fnOf (S.kv 1) (S.deg 1) ≤ v → v < fnOf (S.kv 1) (S.size 1) →
      fnOf (S.kv 2) (S.deg 2) ≤ w → w < fnOf (S.kv 2) (S.size 2) → ∀ j,
      (volEval T u v w).getD j 0 = (volEval S u v w).getD j 0) :
    VolRemovableObj d S T dir ub r tol :=
  VolRemovableObj.of_knotRun d S T dir ub tol r s k hS hT hdir hrat hdegs hkvs hsizes h htol hfm hact0 hact1 hact2 hsame

/-! ### `AllActive` and knot insertion -/

/-- **Knot insertion preserves `AllActive`**: sorted knots, `ub` in the span `k` (`U_k ≤ ub < U_{k+1}`, `p ≤ k < n`)
    with `s` earlier copies (`U_{k-s} < ub`), `r + s ≤ p`, and `ub` strictly right of the left end of the domain
    (`U_p < ub`): if no basis function of `U` vanishes on the whole domain, none of the refined knot vector does. -/
theorem insertion_preserves_allActive (p n : ℕ) (U : List K) (ub : K) (k r s : ℕ) (hm : Monotone (fnOf U))
    (hk1 : k + 1 < U.length) (hact : AllActive p n (fnOf U)) (hk : fnOf U k ≤ ub) (hbelow : fnOf U (k - s) < ub)
    (habove : ub < fnOf U (k + 1)) (hlo : fnOf U p < ub) (hrs : r + s ≤ p) (hpk : p ≤ k) (hkn : k < n) :
    AllActive p (n + r) (fnOf (knotInsertionKv U ub k r)) :=
  allActive_insert p n U ub k r s hm hk1 hact hk hbelow habove hlo hrs hpk hkn

/-- the proviso `U_p < ub` cannot be dropped for unclamped knot vectors: knots `0,1,2,3,4,5`, `p = 2`, `n = 3`
    (domain `[2,3)`) is `AllActive`; after inserting `2 = U_p` once the first basis function lives on `[0,2)` -/
theorem insertion_preserves_allActive_needs_interior :
    AllActive 2 3 (fnOf ([0,1,2,3,4,5] : List ℚ)) ∧
      ¬ AllActive 2 (3 + 1) (fnOf (knotInsertionKv ([0,1,2,3,4,5] : List ℚ) 2 2 1)) :=
  allActive_insert_needs_interior

/-- **`RemovableKnot` with the activity hypothesis on the REDUCED knot vector**: the fields of `RemovableKnot` other
    than `active`, `AllActive` for the knot vector with the `r` copies taken out, and `U_p < ub`. -/
theorem removableKnot_of_reduced_active (p d : ℕ) (V : List K) (Ph Q : List (List K)) (ub : K) (r s k : ℕ)
    (hwf : CurveWF p d V Ph) (hrun : ∀ x, k - s < x → x ≤ k + r → fnOf V x = ub)
    (hbelow : fnOf V (k - s) < ub) (habove : ub < fnOf V (k + r + 1))
    (hr1 : 1 ≤ r) (hrs : r + s ≤ p) (hpk : p ≤ k) (hkn : k + r < Ph.length)
    (hQ : CurveWF p d (knotRemovalKv V (k + r) r) Q)
    (hactQ : AllActive p Q.length (fnOf (knotRemovalKv V (k + r) r))) (hlo : fnOf V p < ub)
    (hsame : ∀ u, fnOf V p ≤ u → u < fnOf V Ph.length → ∀ j,
      (curvePoint p (fnOf (knotRemovalKv V (k + r) r)) Q u).getD j 0 = (curvePoint p (fnOf V) Ph u).getD j 0) :
    RemovableKnot p d V Ph Q ub r s k :=
  RemovableKnot.of_reduced_active p d V Ph Q ub r s k hwf hrun hbelow habove hr1 hrs hpk hkn hQ hactQ hlo hsame

/-! ### non-vacuity of section (T) -/

/-- the explicit `2 × 6` surface over the v knots `0,0,0,¼,¼,½,1,1,1` (`exSurfRefQ`, Lemmas/UniqueTensorExample.lean):
    `¼` (positions 3, 4: `k = 2`, `s = 0`, `r = 2`) is removable from it AS A SURFACE, witness the `2 × 4` net of
    `exSurfQ` – every field discharged, the equality of the surface points by C04 … -/
example : SurfRemovableV 1 2 3 ([0,0,1,1] : List ℚ) [0,0,0,1/4,1/4,1/2,1,1,1] exSurfRefQ.net exSurfQ.net (1/4) 2 0 2 2 6 :=
  exSurf_removableV

/-- … so every row is a removable curve and the v-direction removal returns the witness net -/
example : mapSurfV 2 6 exSurfRefQ.net (fun c => knotRemoval 2 (fnOf ([0,0,0,1/4,1/4,1/2,1,1,1] : List ℚ)) c (1/4) 2 (0 + 2) (2 + 2) 0)
    = (exSurfQ.net, 6 - 2) :=
  surface_v_remove_knot_removable_from_surface 1 2 3 _ _ _ _ (1/4) 2 0 2 2 6 0 exSurf_removableV (le_refl _)

/-- the same surface as an object: all hypotheses of the object-level theorem … -/
example : SurfRemovableObj 3 exSurfRefQ exSurfQ 1 (1/4) 2 (1/10000000) := exSurfRefQ_removable

/-- … and the same hypotheses obtained from the knot positions on the surface at hand (`k = 2`, `s = 0`, `r = 2`) -/
example : SurfRemovableObj 3 exSurfRefQ exSurfQ 1 (1/4) 2 (1/10000000) :=
  surface_removable_object_of_knot_positions 3 exSurfRefQ exSurfQ 1 (1/4) (1/10000000) 2 0 2 exSurfRefQ_wf exSurfQ_wf (by decide)
    rfl rfl (by decide +kernel) (by decide +kernel) exSurf_removableV.knotRun (by norm_num) (by decide +kernel)
    (by decide +kernel) (by decide +kernel) exSurfRefQ_removable.same

/-- … removing ONE of the two copies (t = 1 < r = 2) and both copies, with the library's searches -/
example : removeKnot exSurfRefQ [none, some (1/4)] [0, 1] (1/10000000) 0 true = (insDirOf exSurfQ 1 (1/4) (2 - 1) (1/10000000), true) ∧
    removeKnot exSurfRefQ [none, some (1/4)] [0, 2] (1/10000000) 0 true = (exSurfQ, true) := by
  have ho : ∀ n : ℕ, OnlyDir 1 ([none, some (1/4)] : List (Option ℚ)) [0, n] := by
    intro n d' hd
    rcases d' with _ | _ | d'
    · left; rfl
    · exact absurd rfl hd
    · left; rfl
  exact ⟨(surface_remove_removable_knot_object 3 _ _ 1 (1/4) 2 _ exSurfRefQ_removable _ [0, 1] 0 true (by decide) (by decide) (ho 1) rfl (le_refl _)
      (by decide) (by decide)).1,
    (surface_remove_removable_knot_object 3 _ _ 1 (1/4) 2 _ exSurfRefQ_removable _ [0, 2] 0 true (by decide) (by decide) (ho 2) rfl (le_refl _)
      (by decide) (by decide)).2 rfl⟩

/-- the count list `[0, 2, 0]` on this SURFACE (audit 4, H5) satisfies `OnlyDir` and the model would read it like
    `[0, 2]`, but it is outside the guard `hnl` – `operations.remove_knot` raises "The length of the num array must be equal
    to the number of parametric dimensions" (driver op `R None,1/4 0,2,0 1`: ERR) -/
example : ([0, 2, 0] : List ℕ).length ≠ 2 ∧
    (removeKnot exSurfRefQ [none, some (1/4)] [0, 2, 0] (1/10000000) 0 true).2 = true := by decide +kernel

/-- the explicit `2 × 2 × 5` volume over the w knots `0,0,0,½,½,1,1,1` (`exVolRefQ`): one copy of `½` (`k = 3`, `s = 1`,
    `r = 1`) is removable from it AS A VOLUME, witness the net of `exVolQ` … -/
example : VolRemovableW 1 1 2 3 ([0,0,1,1] : List ℚ) [0,0,1,1] [0,0,0,1/2,1/2,1,1,1] exVolRefQ.net exVolQ.net (1/2) 1 1 3 2 2 5 :=
  exVol_removableW

/-- … the rows branch (what the code runs) returns the witness net … -/
example : mapVolRows 2 2 2 5 exVolRefQ.net
    (fun R => knotRemovalRows 2 (fnOf ([0,0,0,1/2,1/2,1,1,1] : List ℚ)) R (1/2) 1 (1 + 1) (3 + 1) 0) = (exVolQ.net, 5 - 1) :=
  ((volume_remove_knot_removable_from_volume 1 1 2 3 _ _ _ _ _ (1/2) 1 1 3 2 2 5 0 (le_refl _)).2.2 exVol_removableW).2

/-- … and at object level -/
example : VolRemovableObj 3 exVolRefQ exVolQ 2 (1/2) 1 (1/10000000) := exVolRefQ_removable

example : removeKnotVolRows exVolRefQ 2 (1/2) 1 (1/10000000) 0 true = some exVolQ :=
  (volume_remove_removable_knot_object_rows 3 _ _ 2 (1/2) 1 _ exVolRefQ_removable 1 0 true (le_refl _) (le_refl _) (le_refl _)).2 rfl

/-- the hypotheses of `insertion_preserves_allActive` on the clamped quadratic knots `0,0,0,½,1,1,1`, `ub = ¼` twice -/
example : AllActive 2 (4 + 2) (fnOf (knotInsertionKv ([0,0,0,1/2,1,1,1] : List ℚ) (1/4) 2 2)) :=
  insertion_preserves_allActive 2 4 _ (1/4) 2 2 0 (mono_of_pairwise _ (by decide +kernel)) (by decide) (by decide +kernel)
    (by decide +kernel) (by decide +kernel) (by decide +kernel) (by decide +kernel) (by decide) (by decide) (by decide)


/-! ## (M) Several directions in ONE call

`operations.insert_knot` / `remove_knot` loop over the directions `0, 1(, 2)` in this order; direction `d` is requested
when `param[d]` is not `None` and `num[d] ≠ 0`.  `RoundCallOk n S params nums tol`: every requested direction of the call
is admissible in the sense of `RoundOk` (section "object level" above).  `Multi.subNums nums nums'`: the count list
`nums[d] - nums'[d]` (`subNums_entries`).  The removal of the first direction runs on a net that is refined in the
other directions; the proofs move the insertion step of that direction through the later ones
(`*_insert_directions_commute`: A5.1 is linear in the control points, `knot_insertion_is_linear`, so the gather /
scatter of two different directions commute), cancel it against the removal (one-direction theorems above) and move
the rest back.  The lists are read with `getD`; the list guards of the code (`len(num) = pdim ≤ len(param)`) are the
hypotheses `hpl`, `hnl` as before. -/

open Multi in
/-- the entries of `subNums nums nums'` are `nums[d] - nums'[d]`, and it is as long as `nums` -/
theorem subNums_entries (nums nums' : List ℕ) (d : ℕ) :
    (subNums nums nums').getD d 0 = nums.getD d 0 - nums'.getD d 0 ∧ (subNums nums nums').length = nums.length :=
  ⟨subNums_getD nums nums' d, subNums_length nums nums'⟩

/-- **A5.1 is a linear map of the control polygon**: for `p ≤ k < n`, `r + s ≤ p` there is a matrix `A` (depending on
    the knots, `u`, `r`, `s`, `k` only) such that for EVERY polygon `c` of `n` points of dimension `d`, every coordinate
    `l` of every new point `i` is `Σ_m A i m · c_m[l]`. -/
theorem knot_insertion_is_linear (p d n : ℕ) (U : ℕ → K) (u : K) (r s k : ℕ) (hpk : p ≤ k) (hk : k < n) (hrs : r + s ≤ p) :
    ∃ A : ℕ → ℕ → K, ∀ c : List (List K), c.length = n → NetOk d c → ∀ i, i < n + r → ∀ l,
      (ptsGet (knotInsertion p U c u r s k) i).getD l 0 = ∑ m ∈ Finset.range n, A i m * (ptsGet c m).getD l 0 :=
  (Multi.knotInsertion_coordLin p d n U u r s k hpk hk hrs).lin

/-- **The u step and the v step of `insert_knot` on a surface commute** (both requests admissible on `S`;
    `insDirOf S dir ub r tol` is what `insertKnotDir S dir ub r` returns, `insertKnotDir_is_insDirOf`). -/
theorem surface_insert_directions_commute (d : ℕ) (S : Shape K) (hS : SurfWF d S) (a b : K) (r0 r1 : ℕ) (tol : K)
    (h0 : DirReqOk S 0 a r0 tol) (h1 : DirReqOk S 1 b r1 tol) :
    insDirOf (insDirOf S 0 a r0 tol) 1 b r1 tol = insDirOf (insDirOf S 1 b r1 tol) 0 a r0 tol :=
  Multi.surface_insDir_comm d S hS a b r0 r1 tol h0 h1

/-- **Any two direction steps of `insert_knot` on a volume commute** (`da < db < 3`). -/
theorem volume_insert_directions_commute (d : ℕ) (S : Shape K) (hS : VolWF d S) (da db : ℕ) (hlt : da < db) (hdb : db < 3)
    (a b : K) (r0 r1 : ℕ) (tol : K) (h0 : DirReqOk S da a r0 tol) (h1 : DirReqOk S db b r1 tol) :
    insDirOf (insDirOf S da a r0 tol) db b r1 tol = insDirOf (insDirOf S db b r1 tol) da a r0 tol :=
  Multi.volume_insDir_comm d S hS da db hlt hdb a b r0 r1 tol h0 h1

/-- **Surfaces, several directions in one call each**: `insert_knot` requesting ANY subset of the two directions (counts
    `nums`) followed by `remove_knot` with the same parameters and counts `nums' ≤ nums` (entry by entry; `0` = leave
    that direction alone) returns exactly what `insert_knot` with the counts `nums - nums'` returns – object and success
    flag; spans and multiplicities of the removal by the library's own searches on the refined object; either setting
    of the `check` flags, every `tol2 ≥ 0`. -/
theorem surface_insert_then_remove_several_directions (d : ℕ) (S : Shape K) (hS : SurfWF d S) (params : List (Option K))
    (nums nums' : List ℕ) (tol tol2 : K) (c1 c2 : Bool) (hpl : 2 ≤ params.length) (hnl : nums.length = 2)
    (hnl' : nums'.length = 2) (h : Multi.RoundCallOk 2 S params nums tol) (h2 : 0 ≤ tol2)
    (hle : ∀ e, e < 2 → nums'.getD e 0 ≤ nums.getD e 0) :
    removeKnot (insertKnot S params nums tol c1).1 params nums' tol tol2 c2
      = insertKnot S params (Multi.subNums nums nums') tol c1 :=
  Multi.surface_insertKnot_removeKnot_multi d S hS params nums nums' tol tol2 c1 c2 h h2 hle

/-- **… the same count lists: the ORIGINAL surface object comes back.** -/
theorem surface_insert_then_remove_several_directions_same (d : ℕ) (S : Shape K) (hS : SurfWF d S)
    (params : List (Option K)) (nums : List ℕ) (tol tol2 : K) (c1 c2 : Bool) (hpl : 2 ≤ params.length)
    (hnl : nums.length = 2) (h : Multi.RoundCallOk 2 S params nums tol) (h2 : 0 ≤ tol2) :
    removeKnot (insertKnot S params nums tol c1).1 params nums tol tol2 c2 = (S, true) :=
  Multi.surface_insertKnot_removeKnot_multi_same d S hS params nums tol tol2 c1 c2 h h2

/-- **… and no evaluated point changes**: at every parameter pair of the closed domain the surface after the removal
    has the point of the refined surface, which is the point of the original one. -/
theorem surface_remove_several_directions_preserves_points (d : ℕ) (S : Shape K) (hS : SurfWF d S)
    (params : List (Option K)) (nums nums' : List ℕ) (tol tol2 : K) (c1 c2 : Bool) (hpl : 2 ≤ params.length)
    (hnl : nums.length = 2) (hnl' : nums'.length = 2) (h : Multi.RoundCallOk 2 S params nums tol) (h2 : 0 ≤ tol2)
    (hle : ∀ e, e < 2 → nums'.getD e 0 ≤ nums.getD e 0)
    (u v : K) (hu1 : fnOf (S.kv 0) (S.deg 0) ≤ u) (hu2 : u ≤ fnOf (S.kv 0) (S.size 0))
    (hv1 : fnOf (S.kv 1) (S.deg 1) ≤ v) (hv2 : v ≤ fnOf (S.kv 1) (S.size 1)) (j : ℕ) :
    (surfEval (removeKnot (insertKnot S params nums tol c1).1 params nums' tol tol2 c2).1 u v).getD j 0
      = (surfEval (insertKnot S params nums tol c1).1 u v).getD j 0 ∧
    (surfEval (insertKnot S params nums tol c1).1 u v).getD j 0 = (surfEval S u v).getD j 0 :=
  Multi.surface_insertKnot_removeKnot_multi_points d S hS params nums nums' tol tol2 c1 c2 h h2 hle u v hu1 hu2 hv1 hv2 j

/-- **Volumes, several directions in one call each** (any subset of the three directions; the per-iso-curve model
    `removeKnot`, which on inserted knots is the rows branch: `removeKnotVolRows_is_removeKnotDir`). -/
theorem volume_insert_then_remove_several_directions (d : ℕ) (S : Shape K) (hS : VolWF d S) (params : List (Option K))
    (nums nums' : List ℕ) (tol tol2 : K) (c1 c2 : Bool) (hpl : 3 ≤ params.length) (hnl : nums.length = 3)
    (hnl' : nums'.length = 3) (h : Multi.RoundCallOk 3 S params nums tol) (h2 : 0 ≤ tol2)
    (hle : ∀ e, e < 3 → nums'.getD e 0 ≤ nums.getD e 0) :
    removeKnot (insertKnot S params nums tol c1).1 params nums' tol tol2 c2
      = insertKnot S params (Multi.subNums nums nums') tol c1 :=
  Multi.volume_insertKnot_removeKnot_multi d S hS params nums nums' tol tol2 c1 c2 h h2 hle

/-- **… the same count lists: the ORIGINAL volume object comes back.** -/
theorem volume_insert_then_remove_several_directions_same (d : ℕ) (S : Shape K) (hS : VolWF d S)
    (params : List (Option K)) (nums : List ℕ) (tol tol2 : K) (c1 c2 : Bool) (hpl : 3 ≤ params.length)
    (hnl : nums.length = 3) (h : Multi.RoundCallOk 3 S params nums tol) (h2 : 0 ≤ tol2) :
    removeKnot (insertKnot S params nums tol c1).1 params nums tol tol2 c2 = (S, true) :=
  Multi.volume_insertKnot_removeKnot_multi_same d S hS params nums tol tol2 c1 c2 h h2

/-- **… and no volume point changes.** -/
theorem volume_remove_several_directions_preserves_points (d : ℕ) (S : Shape K) (hS : VolWF d S)
    (params : List (Option K)) (nums nums' : List ℕ) (tol tol2 : K) (c1 c2 : Bool) (hpl : 3 ≤ params.length)
    (hnl : nums.length = 3) (hnl' : nums'.length = 3) (h : Multi.RoundCallOk 3 S params nums tol) (h2 : 0 ≤ tol2)
    (hle : ∀ e, e < 3 → nums'.getD e 0 ≤ nums.getD e 0)
    (u v w : K) (hu1 : fnOf (S.kv 0) (S.deg 0) ≤ u) (hu2 : u ≤ fnOf (S.kv 0) (S.size 0))
    (hv1 : fnOf (S.kv 1) (S.deg 1) ≤ v) (hv2 : v ≤ fnOf (S.kv 1) (S.size 1))
    (hw1 : fnOf (S.kv 2) (S.deg 2) ≤ w) (hw2 : w ≤ fnOf (S.kv 2) (S.size 2)) (j : ℕ) :
    (volEval (removeKnot (insertKnot S params nums tol c1).1 params nums' tol tol2 c2).1 u v w).getD j 0
      = (volEval (insertKnot S params nums tol c1).1 u v w).getD j 0 ∧
    (volEval (insertKnot S params nums tol c1).1 u v w).getD j 0 = (volEval S u v w).getD j 0 :=
  Multi.volume_insertKnot_removeKnot_multi_points d S hS params nums nums' tol tol2 c1 c2 h h2 hle u v w hu1 hu2 hv1 hv2
    hw1 hw2 j

/-- `Multi.remStepWith rem` is the loop body of `operations.remove_knot` with the direction step `rem`; with the
    per-iso-curve step `removeKnotDir` the loop IS the model function `removeKnot` -/
theorem removeKnot_is_loop_of_direction_steps (S : Shape K) (params : List (Option K)) (nums : List ℕ) (tol tol2 : K)
    (check : Bool) :
    removeKnot S params nums tol tol2 check
      = (List.range S.pdim).foldl (Multi.remStepWith removeKnotDir params nums tol tol2 check) (S, true) := rfl

/-- **Volumes, several directions in one call each, the removal computed THE WAY THE CODE DOES IT**: the loop of
    `operations.remove_knot` over the three directions with the list-of-rows direction step `removeKnotVolRows` (one
    removability flag per step, from the first iso-curve) returns what `insert_knot` with the counts `nums - nums'`
    returns. -/
theorem volume_insert_then_remove_several_directions_rows (d : ℕ) (S : Shape K) (hS : VolWF d S)
    (params : List (Option K)) (nums nums' : List ℕ) (tol tol2 : K) (c1 c2 : Bool) (hpl : 3 ≤ params.length)
    (hnl : nums.length = 3) (hnl' : nums'.length = 3) (h : Multi.RoundCallOk 3 S params nums tol) (h2 : 0 ≤ tol2)
    (hle : ∀ e, e < 3 → nums'.getD e 0 ≤ nums.getD e 0) :
    (List.range 3).foldl (Multi.remStepWith removeKnotVolRows params nums' tol tol2 c2)
        ((insertKnot S params nums tol c1).1, true)
      = insertKnot S params (Multi.subNums nums nums') tol c1 :=
  Multi.volume_insertKnot_removeKnot_multi_rows d S hS params nums nums' tol tol2 c1 c2 h h2 hle

/-! ### "removable at all", several directions in one `remove_knot` call

`SurfRemChain d tol L S T` (`VolRemChain`): `L` lists entries `(dir, ub, r)`; from `S` the knot of the first entry is
removable `r` times AS A SURFACE (`SurfRemovableObj`, section (T): some well-formed surface over the reduced knot vector
has the same points – nothing assumed about how `S` was produced), from its witness the knot of the second entry, …,
the last witness is `T`.  The directions of `L` are distinct; their ORDER is arbitrary (`remove_knot` always works
through the directions `0, 1, 2`). -/

/-- **Surfaces, whenever removable at all, several directions in one call**: `S` IS `insert_knot` of the last witness `T`
    with all directions of the chain requested in one call (first two conclusions), and ONE `remove_knot` call on `S`
    requesting these directions with counts `nums' ≤` the removable counts returns `insert_knot` of `T` with the counts
    reduced – `T` itself when every copy is taken out.  `hpar`: the call's parameter / count of each chain direction
    are the chain's; `hoth`: no other direction is requested. -/
theorem surface_remove_removable_knots_several_directions (d : ℕ) (tol : K) (L : List (ℕ × K × ℕ)) (S T : Shape K)
    (hT : SurfWF d T) (hch : Multi.SurfRemChain d tol L S T) (hnd : (L.map Prod.fst).Nodup)
    (params : List (Option K)) (nums nums' : List ℕ) (hpl : 2 ≤ params.length) (hnl : nums.length = 2)
    (hnl' : nums'.length = 2)
    (hpar : ∀ q ∈ L, params.getD q.1 none = some q.2.1 ∧ nums.getD q.1 0 = q.2.2)
    (hoth : ∀ e, e < 2 → e ∉ L.map Prod.fst → params.getD e none = none ∨ nums.getD e 0 = 0)
    (tol2 : K) (h2 : 0 ≤ tol2) (c c' : Bool) (hle : ∀ e, e < 2 → nums'.getD e 0 ≤ nums.getD e 0) :
    Multi.RoundCallOk 2 T params nums tol ∧ insertKnot T params nums tol c' = (S, true) ∧
    removeKnot S params nums' tol tol2 c = insertKnot T params (Multi.subNums nums nums') tol c' ∧
    ((∀ e, e < 2 → nums'.getD e 0 = nums.getD e 0) → removeKnot S params nums' tol tol2 c = (T, true)) :=
  Multi.surface_remove_removable_chain d tol L S T hT hch hnd params nums nums' hpar hoth tol2 h2 c c' hle

/-- **… evaluated points**: the surface after such a removal, and `S` itself, have the points of `T` on the closed
    domain. -/
theorem surface_remove_removable_knots_several_directions_points (d : ℕ) (tol : K) (L : List (ℕ × K × ℕ)) (S T : Shape K)
    (hT : SurfWF d T) (hch : Multi.SurfRemChain d tol L S T) (hnd : (L.map Prod.fst).Nodup)
    (params : List (Option K)) (nums nums' : List ℕ) (hpl : 2 ≤ params.length) (hnl : nums.length = 2)
    (hnl' : nums'.length = 2)
    (hpar : ∀ q ∈ L, params.getD q.1 none = some q.2.1 ∧ nums.getD q.1 0 = q.2.2)
    (hoth : ∀ e, e < 2 → e ∉ L.map Prod.fst → params.getD e none = none ∨ nums.getD e 0 = 0)
    (tol2 : K) (h2 : 0 ≤ tol2) (c : Bool) (hle : ∀ e, e < 2 → nums'.getD e 0 ≤ nums.getD e 0)
    (u v : K) (hu1 : fnOf (T.kv 0) (T.deg 0) ≤ u) (hu2 : u ≤ fnOf (T.kv 0) (T.size 0))
    (hv1 : fnOf (T.kv 1) (T.deg 1) ≤ v) (hv2 : v ≤ fnOf (T.kv 1) (T.size 1)) (j : ℕ) :
    (surfEval (removeKnot S params nums' tol tol2 c).1 u v).getD j 0 = (surfEval T u v).getD j 0 ∧
    (surfEval S u v).getD j 0 = (surfEval T u v).getD j 0 :=
  Multi.surface_remove_removable_chain_points d tol L S T hT hch hnd params nums nums' hpar hoth tol2 h2 c hle u v
    hu1 hu2 hv1 hv2 j

/-- **Volumes, whenever removable at all, several directions in one call** (the per-iso-curve model `removeKnot`; up to
    three links). -/
theorem volume_remove_removable_knots_several_directions (d : ℕ) (tol : K) (L : List (ℕ × K × ℕ)) (S T : Shape K)
    (hT : VolWF d T) (hch : Multi.VolRemChain d tol L S T) (hnd : (L.map Prod.fst).Nodup)
    (params : List (Option K)) (nums nums' : List ℕ) (hpl : 3 ≤ params.length) (hnl : nums.length = 3)
    (hnl' : nums'.length = 3)
    (hpar : ∀ q ∈ L, params.getD q.1 none = some q.2.1 ∧ nums.getD q.1 0 = q.2.2)
    (hoth : ∀ e, e < 3 → e ∉ L.map Prod.fst → params.getD e none = none ∨ nums.getD e 0 = 0)
    (tol2 : K) (h2 : 0 ≤ tol2) (c c' : Bool) (hle : ∀ e, e < 3 → nums'.getD e 0 ≤ nums.getD e 0) :
    Multi.RoundCallOk 3 T params nums tol ∧ insertKnot T params nums tol c' = (S, true) ∧
    removeKnot S params nums' tol tol2 c = insertKnot T params (Multi.subNums nums nums') tol c' ∧
    ((∀ e, e < 3 → nums'.getD e 0 = nums.getD e 0) → removeKnot S params nums' tol tol2 c = (T, true)) :=
  Multi.volume_remove_removable_chain d tol L S T hT hch hnd params nums nums' hpar hoth tol2 h2 c c' hle

/-- **… evaluated points, volumes.** -/
theorem volume_remove_removable_knots_several_directions_points (d : ℕ) (tol : K) (L : List (ℕ × K × ℕ)) (S T : Shape K)
    (hT : VolWF d T) (hch : Multi.VolRemChain d tol L S T) (hnd : (L.map Prod.fst).Nodup)
    (params : List (Option K)) (nums nums' : List ℕ) (hpl : 3 ≤ params.length) (hnl : nums.length = 3)
    (hnl' : nums'.length = 3)
    (hpar : ∀ q ∈ L, params.getD q.1 none = some q.2.1 ∧ nums.getD q.1 0 = q.2.2)
    (hoth : ∀ e, e < 3 → e ∉ L.map Prod.fst → params.getD e none = none ∨ nums.getD e 0 = 0)
    (tol2 : K) (h2 : 0 ≤ tol2) (c : Bool) (hle : ∀ e, e < 3 → nums'.getD e 0 ≤ nums.getD e 0)
    (u v w : K) (hu1 : fnOf (T.kv 0) (T.deg 0) ≤ u) (hu2 : u ≤ fnOf (T.kv 0) (T.size 0))
    (hv1 : fnOf (T.kv 1) (T.deg 1) ≤ v) (hv2 : v ≤ fnOf (T.kv 1) (T.size 1))
    (hw1 : fnOf (T.kv 2) (T.deg 2) ≤ w) (hw2 : w ≤ fnOf (T.kv 2) (T.size 2)) (j : ℕ) :
    (volEval (removeKnot S params nums' tol tol2 c).1 u v w).getD j 0 = (volEval T u v w).getD j 0 ∧
    (volEval S u v w).getD j 0 = (volEval T u v w).getD j 0 :=
  Multi.volume_remove_removable_chain_points d tol L S T hT hch hnd params nums nums' hpar hoth tol2 h2 c hle u v w
    hu1 hu2 hv1 hv2 hw1 hw2 j

/-- **… the rows branch the code runs on volumes** returns the same. -/
theorem volume_remove_removable_knots_several_directions_rows (d : ℕ) (tol : K) (L : List (ℕ × K × ℕ)) (S T : Shape K)
    (hT : VolWF d T) (hch : Multi.VolRemChain d tol L S T) (hnd : (L.map Prod.fst).Nodup)
    (params : List (Option K)) (nums nums' : List ℕ) (hpl : 3 ≤ params.length) (hnl : nums.length = 3)
    (hnl' : nums'.length = 3)
    (hpar : ∀ q ∈ L, params.getD q.1 none = some q.2.1 ∧ nums.getD q.1 0 = q.2.2)
    (hoth : ∀ e, e < 3 → e ∉ L.map Prod.fst → params.getD e none = none ∨ nums.getD e 0 = 0)
    (tol2 : K) (h2 : 0 ≤ tol2) (c c' : Bool) (hle : ∀ e, e < 3 → nums'.getD e 0 ≤ nums.getD e 0) :
    (List.range 3).foldl (Multi.remStepWith removeKnotVolRows params nums' tol tol2 c) (S, true)
      = insertKnot T params (Multi.subNums nums nums') tol c' ∧
    ((∀ e, e < 3 → nums'.getD e 0 = nums.getD e 0) →
      (List.range 3).foldl (Multi.remStepWith removeKnotVolRows params nums' tol tol2 c) (S, true) = (T, true)) :=
  Multi.volume_remove_removable_chain_rows d tol L S T hT hch hnd params nums nums' hpar hoth tol2 h2 c c' hle

/-! ### non-vacuity of section (M) -/

/-- the example surface, BOTH directions requested in one call: `½` once along u (`p = 1`), `¼` twice along v (`p = 2`) –
    both requests admissible … -/
example : Multi.RoundCallOk 2 exSurfQ [some (1/2), some (1/4)] [1, 2] (1/10000000) := Multi.exSurfQ_roundCall

/-- … counts `(1, 2)` in, `(1, 1)` out in one call each = counts `(0, 1)` in (by the theorem) … -/
example : removeKnot (insertKnot exSurfQ [some (1/2), some (1/4)] [1, 2] (1/10000000) true).1
      [some (1/2), some (1/4)] [1, 1] (1/10000000) 0 true
    = insertKnot exSurfQ [some (1/2), some (1/4)] (Multi.subNums [1, 2] [1, 1]) (1/10000000) true :=
  surface_insert_then_remove_several_directions 3 exSurfQ exSurfQ_wf _ _ _ _ 0 true true (by decide) (by decide) (by decide)
    Multi.exSurfQ_roundCall (le_refl _) (by intro e he; rcases (by omega : e = 0 ∨ e = 1) with rfl | rfl <;> decide)

/-- … the same equation as a kernel-checked RUN of the model (knot vectors, sizes, net, flag), `subNums [1,2] [1,1] = [0,1]` … -/
example : Multi.subNums [1, 2] [1, 1] = [0, 1] ∧
    (removeKnot (insertKnot exSurfQ [some (1/2), some (1/4)] [1, 2] (1/10000000) true).1
      [some (1/2), some (1/4)] [1, 1] (1/10000000) 0 true).1.kvs = [[0,0,1,1], [0,0,0,1/4,1/2,1,1,1]] ∧
    (removeKnot (insertKnot exSurfQ [some (1/2), some (1/4)] [1, 2] (1/10000000) true).1
      [some (1/2), some (1/4)] [1, 1] (1/10000000) 0 true).1.sizes = [2, 5] ∧
    (removeKnot (insertKnot exSurfQ [some (1/2), some (1/4)] [1, 2] (1/10000000) true).1
      [some (1/2), some (1/4)] [1, 1] (1/10000000) 0 true).1.net
      = (insertKnot exSurfQ [some (1/2), some (1/4)] [0, 1] (1/10000000) true).1.net ∧
    (removeKnot (insertKnot exSurfQ [some (1/2), some (1/4)] [1, 2] (1/10000000) true).1
      [some (1/2), some (1/4)] [1, 1] (1/10000000) 0 true).2 = true := by decide +kernel

/-- … and all copies out: the original surface -/
example : removeKnot (insertKnot exSurfQ [some (1/2), some (1/4)] [1, 2] (1/10000000) true).1
      [some (1/2), some (1/4)] [1, 2] (1/10000000) 0 true = (exSurfQ, true) :=
  surface_insert_then_remove_several_directions_same 3 exSurfQ exSurfQ_wf _ _ _ 0 true true (by decide) (by decide)
    Multi.exSurfQ_roundCall (le_refl _)

/-- the example volume, u and w requested in one call (`½` once, `¼` twice), one copy of `¼` left in: per-iso-curve model
    and rows branch -/
example : removeKnot (insertKnot exVolQ [some (1/2), none, some (1/4)] [1, 0, 2] (1/10000000) true).1
      [some (1/2), none, some (1/4)] [1, 0, 1] (1/10000000) 0 true
    = insertKnot exVolQ [some (1/2), none, some (1/4)] (Multi.subNums [1, 0, 2] [1, 0, 1]) (1/10000000) true ∧
    (List.range 3).foldl (Multi.remStepWith removeKnotVolRows [some (1/2), none, some (1/4)] [1, 0, 1] (1/10000000) 0 true)
        ((insertKnot exVolQ [some (1/2), none, some (1/4)] [1, 0, 2] (1/10000000) true).1, true)
    = insertKnot exVolQ [some (1/2), none, some (1/4)] (Multi.subNums [1, 0, 2] [1, 0, 1]) (1/10000000) true :=
  have hle : ∀ e, e < 3 → ([1, 0, 1] : List ℕ).getD e 0 ≤ ([1, 0, 2] : List ℕ).getD e 0 := by
    intro e he; rcases (by omega : e = 0 ∨ e = 1 ∨ e = 2) with rfl | rfl | rfl <;> decide
  ⟨volume_insert_then_remove_several_directions 3 exVolQ exVolQ_wf _ _ _ _ 0 true true (by decide) (by decide) (by decide)
      Multi.exVolQ_roundCall (le_refl _) hle,
   volume_insert_then_remove_several_directions_rows 3 exVolQ exVolQ_wf _ _ _ _ 0 true true (by decide) (by decide)
      (by decide) Multi.exVolQ_roundCall (le_refl _) hle⟩

/-- "removable at all": from the explicit `3 × 6` surface `exSurfRef2Q` (Lemmas/RemoveMultiExample.lean) `½` is removable
    once along u and then `¼` twice along v, each AS A SURFACE (every field of `SurfRemovableObj` discharged) … -/
example : Multi.SurfRemChain 3 (1/10000000) [(0, 1/2, 1), (1, 1/4, 2)] Multi.exSurfRef2Q exSurfQ := Multi.exSurfRef2Q_chain

/-- … so ONE `remove_knot` call requesting both directions returns `exSurfQ` -/
example : removeKnot Multi.exSurfRef2Q [some (1/2), some (1/4)] [1, 2] (1/10000000) 0 true = (exSurfQ, true) :=
  (surface_remove_removable_knots_several_directions 3 _ _ _ _ exSurfQ_wf Multi.exSurfRef2Q_chain (by decide)
    [some (1/2), some (1/4)] [1, 2] [1, 2] (by decide) (by decide) (by decide)
    (by intro q hq
        rcases List.mem_cons.mp hq with rfl | hq
        · exact ⟨rfl, rfl⟩
        · rcases List.mem_cons.mp hq with rfl | hq
          · exact ⟨rfl, rfl⟩
          · exact absurd hq List.not_mem_nil)
    (by intro e he hne; exfalso; apply hne; rcases (by omega : e = 0 ∨ e = 1) with rfl | rfl <;> simp)
    0 (le_refl _) true true (fun _ _ => le_refl _)).2.2.2 (fun _ _ => rfl)


end C06
