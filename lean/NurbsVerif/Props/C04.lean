import NurbsVerif.Lemmas.InsertModel
import NurbsVerif.Model.Shape
import Mathlib.Data.List.Perm.Basic

/-!
# C04  Knot insertion never changes the shape

`Geomdl.knotInsertion` / `knotInsertionKv` / `insertKnotDir` are the model functions the
correspondence check runs against `operations.insert_knot` and the `insert_knot` methods.
-/
namespace C04
open Geomdl Blossom
variable {K : Type} [Field K] [LinearOrder K] [IsStrictOrderedRing K]

/-- **Shape preservation, curves.**  For every degree `p`, sorted knot vector, control polygon of
    any dimension, insertion parameter `ub` in the span `[U k, U (k+1))` with prior multiplicity `s`,
    every count `r` with `1 ≤ r`, `r + s ≤ p`, and EVERY evaluation parameter `u` (on its old span `κ`
    and its new span `κ'`): the point computed by A2.2/A3.1 from the new knot vector and the new
    control points equals the point computed from the old ones, coordinate by coordinate. -/
theorem insert_preserves_curve_point (p : ℕ) (Ul : List K) (P : List (List K)) (ub u : K)
    (r s k κ κ' d j : ℕ) (hP : NetOk d P)
    (hm : Monotone (fnOf Ul)) (hlen : k + 1 < Ul.length)
    (hk1 : fnOf Ul k ≤ ub) (hk2 : ub < fnOf Ul (k+1))
    (hmult : ∀ x, k - s < x → x ≤ k → fnOf Ul x = ub)
    (hκ : fnOf Ul κ < fnOf Ul (κ+1))
    (hκ' : fnOf (knotInsertionKv Ul ub k r) κ' < fnOf (knotInsertionKv Ul ub k r) (κ'+1))
    (hr1 : 1 ≤ r) (hrs : r + s ≤ p) (hpk : p ≤ k) (hkP : k < P.length) (hpκ : p ≤ κ) (hκP : κ < P.length)
    (hcase : (κ' = κ ∧ κ ≤ k) ∨ (κ' = κ + r ∧ k ≤ κ)) :
    (curvePointAt p (fnOf (knotInsertionKv Ul ub k r)) (knotInsertion p (fnOf Ul) P ub r s k) κ' u).getD j 0
      = (curvePointAt p (fnOf Ul) P κ u).getD j 0 :=
  knotInsertion_preserves_point p Ul P ub u r s k κ κ' d j hP hm hlen hk1 hk2 hmult hκ hκ' hr1 hrs hpk hkP hpκ hκP hcase

/-- The knot vector gains exactly `r` entries … -/
theorem insertKv_length (U : List K) (u : K) (k r : ℕ) : (knotInsertionKv U u k r).length = U.length + r := by
  unfold knotInsertionKv
  simp only [List.length_append, List.length_take, List.length_replicate, List.length_drop]
  omega

/-- … which are `r` copies of the inserted value (as multisets: new = old + r·{u}) … -/
theorem insertKv_perm (U : List K) (u : K) (k r : ℕ) :
    (knotInsertionKv U u k r).Perm (List.replicate r u ++ U) := by
  unfold knotInsertionKv
  have h : U = U.take (k+1) ++ U.drop (k+1) := (List.take_append_drop _ _).symm
  conv_rhs => rw [h]
  rw [List.append_assoc]
  exact (List.perm_append_comm_assoc _ _ _)

/-- … in sorted position: the new knot function is again non-decreasing. -/
theorem insertKv_monotone (U : List K) (ub : K) (k r : ℕ) (hlen : k + 1 < U.length)
    (hm : Monotone (fnOf U)) (h1 : fnOf U k ≤ ub) (h2 : ub ≤ fnOf U (k+1)) :
    Monotone (fnOf (knotInsertionKv U ub k r)) := by
  rw [fnOf_knotInsertionKv U ub k r hlen]
  exact Uh_mono (fnOf U) k r ub hm h1 h2

/-- The control polygon grows by exactly `r` points, each of the same dimension. -/
theorem insert_net_length (p : ℕ) (U : ℕ → K) (P : List (List K)) (u : K) (r s k : ℕ) :
    (knotInsertion p U P u r s k).length = P.length + r :=
  knotInsertion_length p U P u r s k

/-- A request beyond the allowed multiplicity (`r > p - s`) is rejected (no new object). -/
theorem insert_rejected (S : Shape K) (dir : ℕ) (u : K) (r : ℕ) (tol : K)
    (h : S.deg dir < r + findMultiplicity u (S.kv dir) tol) :
    insertKnotDir S dir u r tol true = none := by
  unfold insertKnotDir
  simp only []
  rw [if_pos ⟨by simp, h⟩]

/-- non-vacuity: cubic, knots 0,0,0,0,1/2,1,1,1,1, insert 1/4 once into span 3, evaluate on span 3 -/
example : (fnOf ([0,0,0,0,1/2,1,1,1,1] : List ℚ)) 3 ≤ 1/4 ∧ (1/4 : ℚ) < fnOf ([0,0,0,0,1/2,1,1,1,1] : List ℚ) 4 := by
  simp [fnOf]; norm_num

end C04
