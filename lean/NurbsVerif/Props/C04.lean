import NurbsVerif.Lemmas.InsertModel
import NurbsVerif.Lemmas.InsertAll
import NurbsVerif.Lemmas.InsertSurf
import NurbsVerif.Lemmas.VolLiftInsert
import NurbsVerif.Lemmas.VolLiftPoint
import NurbsVerif.Model.Shape
import NurbsVerif.Lemmas.InsertObjDir
import NurbsVerif.Lemmas.InsertObjExamples
import NurbsVerif.Lemmas.KnotRowsInsVol
import Mathlib.Data.List.Perm.Basic
import NurbsVerif.Lemmas.UniqueRemove
import NurbsVerif.Lemmas.A51LoopsCor
import NurbsVerif.Lemmas.InsertCodedObj
import NurbsVerif.Lemmas.FitParams

/-!
# C04  Knot insertion never changes the shape

`Geomdl.knotInsertion` / `knotInsertionKv` / `insertKnotDir` are the model functions the
correspondence check runs against `operations.insert_knot` and the `insert_knot` methods.
-/
namespace C04
open Geomdl Blossom
variable {K : Type} [Field K] [LinearOrder K] [IsStrictOrderedRing K]

/-- **Shape preservation, curves.**  For every degree `p`, sorted knot vector, control polygon of
    any dimension, insertion parameter `ub` in the span `[U k, U (k+1))` with prior multiplicity `s`,
    every count `r` with `1 ≤ r`, `r + s ≤ p`, and EVERY evaluation parameter `u` (on its old span `κ`
    and its new span `κ'`): the point computed by A2.2/A3.1 from the new knot vector and the new
    control points equals the point computed from the old ones, coordinate by coordinate. -/
theorem insert_preserves_curve_point (p : ℕ) (Ul : List K) (P : List (List K)) (ub u : K)
    (r s k κ κ' d j : ℕ) (hP : NetOk d P)
    (hm : Monotone (fnOf Ul)) (hlen : k + 1 < Ul.length)
    (hk1 : fnOf Ul k ≤ ub) (hk2 : ub < fnOf Ul (k+1))
    (hmult : ∀ x, k - s < x → x ≤ k → fnOf Ul x = ub)
    (hκ : fnOf Ul κ < fnOf Ul (κ+1))
    (hκ' : fnOf (knotInsertionKv Ul ub k r) κ' < fnOf (knotInsertionKv Ul ub k r) (κ'+1))
    (hr1 : 1 ≤ r) (hrs : r + s ≤ p) (hpk : p ≤ k) (hkP : k < P.length) (hpκ : p ≤ κ) (hκP : κ < P.length)
    (hcase : (κ' = κ ∧ κ ≤ k) ∨ (κ' = κ + r ∧ k ≤ κ)) :
    (curvePointAt p (fnOf (knotInsertionKv Ul ub k r)) (knotInsertion p (fnOf Ul) P ub r s k) κ' u).getD j 0
      = (curvePointAt p (fnOf Ul) P κ u).getD j 0 :=
  knotInsertion_preserves_point p Ul P ub u r s k κ κ' d j hP hm hlen hk1 hk2 hmult hκ hκ' hr1 hrs hpk hkP hpκ hκP hcase

/-- **Shape preservation as a function of the parameter.**  With the spans the library's own linear
    search finds before and after, for EVERY parameter of the domain (both ends included) and every
    coordinate, the curve point is unchanged by the insertion. -/
theorem insert_preserves_curve (p : ℕ) (Ul : List K) (P : List (List K)) (ub u : K)
    (r s d j : ℕ) (hP : NetOk d P)
    (hm : Monotone (fnOf Ul)) (hlen : Ul.length = P.length + p + 1) (hpn : p + 1 ≤ P.length)
    (hub1 : fnOf Ul p ≤ ub) (hub2 : ub < fnOf Ul P.length)
    (hmult : ∀ x, findSpanLinear p (fnOf Ul) P.length ub - s < x → x ≤ findSpanLinear p (fnOf Ul) P.length ub → fnOf Ul x = ub)
    (hr1 : 1 ≤ r) (hrs : r + s ≤ p)
    (hlo : fnOf Ul p ≤ u) (hhi : u ≤ fnOf Ul P.length) (hlast : fnOf Ul (P.length - 1) < fnOf Ul P.length) :
    (curvePoint p (fnOf (knotInsertionKv Ul ub (findSpanLinear p (fnOf Ul) P.length ub) r))
        (knotInsertion p (fnOf Ul) P ub r s (findSpanLinear p (fnOf Ul) P.length ub)) u).getD j 0
      = (curvePoint p (fnOf Ul) P u).getD j 0 :=
  knotInsertion_preserves_curve p Ul P ub u r s d j hP hm hlen hpn hub1 hub2 hmult hr1 hrs hlo hhi hlast

/-- **Any sequence of admissible insertions** (each request admissible in the state it is applied to:
    `ReqsOk`) leaves every point of a well-formed curve unchanged (every parameter of the closed domain,
    every coordinate), and well-formedness is preserved: the final knot vector / control points are again
    `CurveWF` (sorted knots, `len(U) = n + p + 1`, same dimension of every point, non-degenerate last span)
    and both ends of the domain are unchanged. -/
theorem insert_sequence_preserves (p d : ℕ) (reqs : List (K × ℕ × ℕ)) (st : List K × List (List K))
    (hwf : CurveWF p d st.1 st.2) (hok : ReqsOk p st reqs) :
    CurveWF p d (reqs.foldl (insStep p) st).1 (reqs.foldl (insStep p) st).2 ∧
    fnOf (reqs.foldl (insStep p) st).1 p = fnOf st.1 p ∧
    fnOf (reqs.foldl (insStep p) st).1 (reqs.foldl (insStep p) st).2.length = fnOf st.1 st.2.length ∧
    ∀ (u : K), fnOf st.1 p ≤ u → u ≤ fnOf st.1 st.2.length → ∀ j : ℕ,
      (curvePoint p (fnOf (reqs.foldl (insStep p) st).1) (reqs.foldl (insStep p) st).2 u).getD j 0
        = (curvePoint p (fnOf st.1) st.2 u).getD j 0 :=
  ⟨(insert_sequence_wf p d reqs st hwf hok).1, (insert_sequence_wf p d reqs st hwf hok).2.1,
   (insert_sequence_wf p d reqs st hwf hok).2.2,
   fun u hlo hhi j => insert_sequence_preserves_curve p d reqs st hwf hok u hlo hhi j⟩

/-- **Surfaces, v direction**: the net produced by the model of `operations.insert_knot` (every row –
    iso-curve `u = const` – goes through A5.1, rows are concatenated again) gives the same surface
    point as the original net, for every degree pair, size pair, multiplicity, count and parameters. -/
theorem insert_v_preserves_surface_point (pu pv : ℕ) (Uu : ℕ → K) (Uvl : List K) (su sv : ℕ) (P : List (List K))
    (ub u v : K) (r s k ku κ κ' d j : ℕ) (hP : NetOk d P) (hlenP : P.length = su * sv)
    (hm : Monotone (fnOf Uvl)) (hlen : k + 1 < Uvl.length)
    (hk1 : fnOf Uvl k ≤ ub) (hk2 : ub < fnOf Uvl (k+1))
    (hmult : ∀ x, k - s < x → x ≤ k → fnOf Uvl x = ub)
    (hκ : fnOf Uvl κ < fnOf Uvl (κ+1))
    (hκ' : fnOf (knotInsertionKv Uvl ub k r) κ' < fnOf (knotInsertionKv Uvl ub k r) (κ'+1))
    (hr1 : 1 ≤ r) (hrs : r + s ≤ pv) (hpk : pv ≤ k) (hksv : k < sv) (hpκ : pv ≤ κ) (hκsv : κ < sv)
    (hpu : pu ≤ ku) (hku : ku < su)
    (hcase : (κ' = κ ∧ κ ≤ k) ∨ (κ' = κ + r ∧ k ≤ κ)) :
    (surfacePointAt pu pv Uu (fnOf (knotInsertionKv Uvl ub k r)) (sv + r)
        (mapSurfV su sv P (fun c => knotInsertion pv (fnOf Uvl) c ub r s k)).1 ku κ' u v).getD j 0
      = (surfacePointAt pu pv Uu (fnOf Uvl) sv P ku κ u v).getD j 0 :=
  insertV_preserves_surface_point pu pv Uu Uvl su sv P ub u v r s k ku κ κ' d j hP hlenP hm hlen hk1 hk2 hmult hκ hκ'
    hr1 hrs hpk hksv hpκ hκsv hpu hku hcase

/-- **Surfaces, u direction**: every column (iso-curve `v = const`) goes through A5.1 and the columns
    are scattered back into the layout `v + sv·u`; the surface point is unchanged. -/
theorem insert_u_preserves_surface_point (pu pv : ℕ) (Uul : List K) (Uv : ℕ → K) (su sv : ℕ) (P : List (List K))
    (ub u v : K) (r s k kv κ κ' d j : ℕ) (hP : NetOk d P) (hlenP : P.length = su * sv)
    (hm : Monotone (fnOf Uul)) (hlen : k + 1 < Uul.length)
    (hk1 : fnOf Uul k ≤ ub) (hk2 : ub < fnOf Uul (k+1))
    (hmult : ∀ x, k - s < x → x ≤ k → fnOf Uul x = ub)
    (hκ : fnOf Uul κ < fnOf Uul (κ+1))
    (hκ' : fnOf (knotInsertionKv Uul ub k r) κ' < fnOf (knotInsertionKv Uul ub k r) (κ'+1))
    (hr1 : 1 ≤ r) (hrs : r + s ≤ pu) (hpk : pu ≤ k) (hksu : k < su) (hpκ : pu ≤ κ) (hκsu : κ < su)
    (hpv : pv ≤ kv) (hkv : kv < sv)
    (hcase : (κ' = κ ∧ κ ≤ k) ∨ (κ' = κ + r ∧ k ≤ κ)) :
    (surfacePointAt pu pv (fnOf (knotInsertionKv Uul ub k r)) Uv sv
        (mapSurfU su sv P (fun c => knotInsertion pu (fnOf Uul) c ub r s k)).1 κ' kv u v).getD j 0
      = (surfacePointAt pu pv (fnOf Uul) Uv sv P κ kv u v).getD j 0 :=
  insertU_preserves_surface_point pu pv Uul Uv su sv P ub u v r s k kv κ κ' d j hP hlenP hm hlen hk1 hk2 hmult hκ hκ'
    hr1 hrs hpk hksu hpκ hκsu hpv hkv hcase

/-- **Volumes, u direction**: the net produced by the model of `operations.insert_knot` on a volume
    (`mapVol 0`: every iso-curve `v = const, w = const` goes through A5.1 and is scattered back into the
    layout `v + sv·(u + su·w)`) gives the same volume point as the original net, coordinate by
    coordinate, for every degree triple, size triple, prior multiplicity `s`, count `r` with
    `r + s ≤ pu`, and every evaluation parameter triple (on its spans before and after). -/
theorem insert_u_preserves_volume_point (pu pv pw : ℕ) (Uul : List K) (Uv Uw : ℕ → K) (su sv sw : ℕ) (P : List (List K))
    (ub u v w : K) (r s k kv kw κ κ' d j : ℕ) (hP : NetOk d P) (hlenP : P.length = su * sv * sw)
    (hm : Monotone (fnOf Uul)) (hlen : k + 1 < Uul.length)
    (hk1 : fnOf Uul k ≤ ub) (hk2 : ub < fnOf Uul (k+1))
    (hmult : ∀ x, k - s < x → x ≤ k → fnOf Uul x = ub)
    (hκ : fnOf Uul κ < fnOf Uul (κ+1))
    (hκ' : fnOf (knotInsertionKv Uul ub k r) κ' < fnOf (knotInsertionKv Uul ub k r) (κ'+1))
    (hr1 : 1 ≤ r) (hrs : r + s ≤ pu) (hpk : pu ≤ k) (hksu : k < su) (hpκ : pu ≤ κ) (hκsu : κ < su)
    (hpv : pv ≤ kv) (hkv : kv < sv) (hpw : pw ≤ kw) (hkw : kw < sw)
    (hcase : (κ' = κ ∧ κ ≤ k) ∨ (κ' = κ + r ∧ k ≤ κ)) :
    (volumePointAt pu pv pw (fnOf (knotInsertionKv Uul ub k r)) Uv Uw (su + r) sv
        (mapVol 0 su sv sw P (fun c => knotInsertion pu (fnOf Uul) c ub r s k)).1 κ' kv kw u v w).getD j 0
      = (volumePointAt pu pv pw (fnOf Uul) Uv Uw su sv P κ kv kw u v w).getD j 0 :=
  insertU_preserves_volume_point pu pv pw Uul Uv Uw su sv sw P ub u v w r s k kv kw κ κ' d j hP hlenP hm hlen
    hk1 hk2 hmult hκ hκ' hr1 hrs hpk hksu hpκ hκsu hpv hkv hpw hkw hcase

/-- **Volumes, v direction** (`mapVol 1`: every iso-curve `u = const, w = const` goes through A5.1). -/
theorem insert_v_preserves_volume_point (pu pv pw : ℕ) (Uu : ℕ → K) (Uvl : List K) (Uw : ℕ → K) (su sv sw : ℕ) (P : List (List K))
    (ub u v w : K) (r s k ku kw κ κ' d j : ℕ) (hP : NetOk d P) (hlenP : P.length = su * sv * sw)
    (hm : Monotone (fnOf Uvl)) (hlen : k + 1 < Uvl.length)
    (hk1 : fnOf Uvl k ≤ ub) (hk2 : ub < fnOf Uvl (k+1))
    (hmult : ∀ x, k - s < x → x ≤ k → fnOf Uvl x = ub)
    (hκ : fnOf Uvl κ < fnOf Uvl (κ+1))
    (hκ' : fnOf (knotInsertionKv Uvl ub k r) κ' < fnOf (knotInsertionKv Uvl ub k r) (κ'+1))
    (hr1 : 1 ≤ r) (hrs : r + s ≤ pv) (hpk : pv ≤ k) (hksv : k < sv) (hpκ : pv ≤ κ) (hκsv : κ < sv)
    (hpu : pu ≤ ku) (hku : ku < su) (hpw : pw ≤ kw) (hkw : kw < sw)
    (hcase : (κ' = κ ∧ κ ≤ k) ∨ (κ' = κ + r ∧ k ≤ κ)) :
    (volumePointAt pu pv pw Uu (fnOf (knotInsertionKv Uvl ub k r)) Uw su (sv + r)
        (mapVol 1 su sv sw P (fun c => knotInsertion pv (fnOf Uvl) c ub r s k)).1 ku κ' kw u v w).getD j 0
      = (volumePointAt pu pv pw Uu (fnOf Uvl) Uw su sv P ku κ kw u v w).getD j 0 :=
  insertV_preserves_volume_point pu pv pw Uu Uvl Uw su sv sw P ub u v w r s k ku kw κ κ' d j hP hlenP hm hlen
    hk1 hk2 hmult hκ hκ' hr1 hrs hpk hksv hpκ hκsv hpu hku hpw hkw hcase

/-- **Volumes, w direction** (`mapVol 2`: every iso-curve `u = const, v = const` goes through A5.1). -/
theorem insert_w_preserves_volume_point (pu pv pw : ℕ) (Uu Uv : ℕ → K) (Uwl : List K) (su sv sw : ℕ) (P : List (List K))
    (ub u v w : K) (r s k ku kv κ κ' d j : ℕ) (hP : NetOk d P) (hlenP : P.length = su * sv * sw)
    (hm : Monotone (fnOf Uwl)) (hlen : k + 1 < Uwl.length)
    (hk1 : fnOf Uwl k ≤ ub) (hk2 : ub < fnOf Uwl (k+1))
    (hmult : ∀ x, k - s < x → x ≤ k → fnOf Uwl x = ub)
    (hκ : fnOf Uwl κ < fnOf Uwl (κ+1))
    (hκ' : fnOf (knotInsertionKv Uwl ub k r) κ' < fnOf (knotInsertionKv Uwl ub k r) (κ'+1))
    (hr1 : 1 ≤ r) (hrs : r + s ≤ pw) (hpk : pw ≤ k) (hksw : k < sw) (hpκ : pw ≤ κ) (hκsw : κ < sw)
    (hpu : pu ≤ ku) (hku : ku < su) (hpv : pv ≤ kv) (hkv : kv < sv)
    (hcase : (κ' = κ ∧ κ ≤ k) ∨ (κ' = κ + r ∧ k ≤ κ)) :
    (volumePointAt pu pv pw Uu Uv (fnOf (knotInsertionKv Uwl ub k r)) su sv
        (mapVol 2 su sv sw P (fun c => knotInsertion pw (fnOf Uwl) c ub r s k)).1 ku kv κ' u v w).getD j 0
      = (volumePointAt pu pv pw Uu Uv (fnOf Uwl) su sv P ku kv κ u v w).getD j 0 :=
  insertW_preserves_volume_point pu pv pw Uu Uv Uwl su sv sw P ub u v w r s k ku kv κ κ' d j hP hlenP hm hlen
    hk1 hk2 hmult hκ hκ' hr1 hrs hpk hksw hpκ hκsw hpu hku hpv hkv hcase

/-- **Rational volumes, u direction**: the whole (homogeneous) point is unchanged – the weight
    coordinate included – hence so is the point after the division by the weight (`project`). -/
theorem insert_u_preserves_rational_volume_point (pu pv pw : ℕ) (Uul : List K) (Uv Uw : ℕ → K) (su sv sw : ℕ) (P : List (List K))
    (ub u v w : K) (r s k kv kw κ κ' d : ℕ) (hP : NetOk d P) (hlenP : P.length = su * sv * sw)
    (hm : Monotone (fnOf Uul)) (hlen : k + 1 < Uul.length)
    (hk1 : fnOf Uul k ≤ ub) (hk2 : ub < fnOf Uul (k+1))
    (hmult : ∀ x, k - s < x → x ≤ k → fnOf Uul x = ub)
    (hκ : fnOf Uul κ < fnOf Uul (κ+1))
    (hκ' : fnOf (knotInsertionKv Uul ub k r) κ' < fnOf (knotInsertionKv Uul ub k r) (κ'+1))
    (hr1 : 1 ≤ r) (hrs : r + s ≤ pu) (hpk : pu ≤ k) (hksu : k < su) (hpκ : pu ≤ κ) (hκsu : κ < su)
    (hpv : pv ≤ kv) (hkv : kv < sv) (hpw : pw ≤ kw) (hkw : kw < sw)
    (hcase : (κ' = κ ∧ κ ≤ k) ∨ (κ' = κ + r ∧ k ≤ κ)) :
    project (volumePointAt pu pv pw (fnOf (knotInsertionKv Uul ub k r)) Uv Uw (su + r) sv
        (mapVol 0 su sv sw P (fun c => knotInsertion pu (fnOf Uul) c ub r s k)).1 κ' kv kw u v w)
      = project (volumePointAt pu pv pw (fnOf Uul) Uv Uw su sv P κ kv kw u v w) :=
  congrArg project (insertU_preserves_volume_point_eq pu pv pw Uul Uv Uw su sv sw P ub u v w r s k kv kw κ κ' d hP hlenP hm hlen
    hk1 hk2 hmult hκ hκ' hr1 hrs hpk hksu hpκ hκsu hpv hkv hpw hkw hcase)

/-- **Rational volumes, v direction.** -/
theorem insert_v_preserves_rational_volume_point (pu pv pw : ℕ) (Uu : ℕ → K) (Uvl : List K) (Uw : ℕ → K) (su sv sw : ℕ) (P : List (List K))
    (ub u v w : K) (r s k ku kw κ κ' d : ℕ) (hP : NetOk d P) (hlenP : P.length = su * sv * sw)
    (hm : Monotone (fnOf Uvl)) (hlen : k + 1 < Uvl.length)
    (hk1 : fnOf Uvl k ≤ ub) (hk2 : ub < fnOf Uvl (k+1))
    (hmult : ∀ x, k - s < x → x ≤ k → fnOf Uvl x = ub)
    (hκ : fnOf Uvl κ < fnOf Uvl (κ+1))
    (hκ' : fnOf (knotInsertionKv Uvl ub k r) κ' < fnOf (knotInsertionKv Uvl ub k r) (κ'+1))
    (hr1 : 1 ≤ r) (hrs : r + s ≤ pv) (hpk : pv ≤ k) (hksv : k < sv) (hpκ : pv ≤ κ) (hκsv : κ < sv)
    (hpu : pu ≤ ku) (hku : ku < su) (hpw : pw ≤ kw) (hkw : kw < sw)
    (hcase : (κ' = κ ∧ κ ≤ k) ∨ (κ' = κ + r ∧ k ≤ κ)) :
    project (volumePointAt pu pv pw Uu (fnOf (knotInsertionKv Uvl ub k r)) Uw su (sv + r)
        (mapVol 1 su sv sw P (fun c => knotInsertion pv (fnOf Uvl) c ub r s k)).1 ku κ' kw u v w)
      = project (volumePointAt pu pv pw Uu (fnOf Uvl) Uw su sv P ku κ kw u v w) :=
  congrArg project (insertV_preserves_volume_point_eq pu pv pw Uu Uvl Uw su sv sw P ub u v w r s k ku kw κ κ' d hP hlenP hm hlen
    hk1 hk2 hmult hκ hκ' hr1 hrs hpk hksv hpκ hκsv hpu hku hpw hkw hcase)

/-- **Rational volumes, w direction.** -/
theorem insert_w_preserves_rational_volume_point (pu pv pw : ℕ) (Uu Uv : ℕ → K) (Uwl : List K) (su sv sw : ℕ) (P : List (List K))
    (ub u v w : K) (r s k ku kv κ κ' d : ℕ) (hP : NetOk d P) (hlenP : P.length = su * sv * sw)
    (hm : Monotone (fnOf Uwl)) (hlen : k + 1 < Uwl.length)
    (hk1 : fnOf Uwl k ≤ ub) (hk2 : ub < fnOf Uwl (k+1))
    (hmult : ∀ x, k - s < x → x ≤ k → fnOf Uwl x = ub)
    (hκ : fnOf Uwl κ < fnOf Uwl (κ+1))
    (hκ' : fnOf (knotInsertionKv Uwl ub k r) κ' < fnOf (knotInsertionKv Uwl ub k r) (κ'+1))
    (hr1 : 1 ≤ r) (hrs : r + s ≤ pw) (hpk : pw ≤ k) (hksw : k < sw) (hpκ : pw ≤ κ) (hκsw : κ < sw)
    (hpu : pu ≤ ku) (hku : ku < su) (hpv : pv ≤ kv) (hkv : kv < sv)
    (hcase : (κ' = κ ∧ κ ≤ k) ∨ (κ' = κ + r ∧ k ≤ κ)) :
    project (volumePointAt pu pv pw Uu Uv (fnOf (knotInsertionKv Uwl ub k r)) su sv
        (mapVol 2 su sv sw P (fun c => knotInsertion pw (fnOf Uwl) c ub r s k)).1 ku kv κ' u v w)
      = project (volumePointAt pu pv pw Uu Uv (fnOf Uwl) su sv P ku kv κ u v w) :=
  congrArg project (insertW_preserves_volume_point_eq pu pv pw Uu Uv Uwl su sv sw P ub u v w r s k ku kv κ κ' d hP hlenP hm hlen
    hk1 hk2 hmult hκ hκ' hr1 hrs hpk hksw hpκ hκsw hpu hku hpv hkv hcase)

/-- **Volumes as functions of the parameters, u direction.**  With the spans the library's own linear
    search finds before and after (in all three directions), for EVERY parameter triple of the domain
    (ends included) and every coordinate, the volume point is unchanged by inserting `ub` `r` times
    into the u knot vector. -/
theorem insert_u_preserves_volume (pu pv pw : ℕ) (Uul : List K) (Uv Uw : ℕ → K) (su sv sw : ℕ) (P : List (List K))
    (ub u v w : K) (r s d j : ℕ) (hP : NetOk d P) (hlenP : P.length = su * sv * sw)
    (hm : Monotone (fnOf Uul)) (hlen : Uul.length = su + pu + 1) (hpn : pu + 1 ≤ su)
    (hub1 : fnOf Uul pu ≤ ub) (hub2 : ub < fnOf Uul su)
    (hmult : ∀ x, findSpanLinear pu (fnOf Uul) su ub - s < x → x ≤ findSpanLinear pu (fnOf Uul) su ub → fnOf Uul x = ub)
    (hr1 : 1 ≤ r) (hrs : r + s ≤ pu)
    (hlo : fnOf Uul pu ≤ u) (hhi : u ≤ fnOf Uul su) (hlast : fnOf Uul (su - 1) < fnOf Uul su)
    (hmv : Monotone Uv) (hpnv : pv + 1 ≤ sv) (hlov : Uv pv ≤ v)
    (hmw : Monotone Uw) (hpnw : pw + 1 ≤ sw) (hlow : Uw pw ≤ w) :
    (volumePoint pu pv pw (fnOf (knotInsertionKv Uul ub (findSpanLinear pu (fnOf Uul) su ub) r)) Uv Uw (su + r) sv sw
        (mapVol 0 su sv sw P (fun c => knotInsertion pu (fnOf Uul) c ub r s (findSpanLinear pu (fnOf Uul) su ub))).1 u v w).getD j 0
      = (volumePoint pu pv pw (fnOf Uul) Uv Uw su sv sw P u v w).getD j 0 :=
  insertU_preserves_volume pu pv pw Uul Uv Uw su sv sw P ub u v w r s d j hP hlenP hm hlen hpn hub1 hub2 hmult hr1 hrs
    hlo hhi hlast hmv hpnv hlov hmw hpnw hlow

/-- **Volumes as functions of the parameters, v direction.** -/
theorem insert_v_preserves_volume (pu pv pw : ℕ) (Uu : ℕ → K) (Uvl : List K) (Uw : ℕ → K) (su sv sw : ℕ) (P : List (List K))
    (ub u v w : K) (r s d j : ℕ) (hP : NetOk d P) (hlenP : P.length = su * sv * sw)
    (hm : Monotone (fnOf Uvl)) (hlen : Uvl.length = sv + pv + 1) (hpn : pv + 1 ≤ sv)
    (hub1 : fnOf Uvl pv ≤ ub) (hub2 : ub < fnOf Uvl sv)
    (hmult : ∀ x, findSpanLinear pv (fnOf Uvl) sv ub - s < x → x ≤ findSpanLinear pv (fnOf Uvl) sv ub → fnOf Uvl x = ub)
    (hr1 : 1 ≤ r) (hrs : r + s ≤ pv)
    (hlo : fnOf Uvl pv ≤ v) (hhi : v ≤ fnOf Uvl sv) (hlast : fnOf Uvl (sv - 1) < fnOf Uvl sv)
    (hmu : Monotone Uu) (hpnu : pu + 1 ≤ su) (hlou : Uu pu ≤ u)
    (hmw : Monotone Uw) (hpnw : pw + 1 ≤ sw) (hlow : Uw pw ≤ w) :
    (volumePoint pu pv pw Uu (fnOf (knotInsertionKv Uvl ub (findSpanLinear pv (fnOf Uvl) sv ub) r)) Uw su (sv + r) sw
        (mapVol 1 su sv sw P (fun c => knotInsertion pv (fnOf Uvl) c ub r s (findSpanLinear pv (fnOf Uvl) sv ub))).1 u v w).getD j 0
      = (volumePoint pu pv pw Uu (fnOf Uvl) Uw su sv sw P u v w).getD j 0 :=
  insertV_preserves_volume pu pv pw Uu Uvl Uw su sv sw P ub u v w r s d j hP hlenP hm hlen hpn hub1 hub2 hmult hr1 hrs
    hlo hhi hlast hmu hpnu hlou hmw hpnw hlow

/-- **Volumes as functions of the parameters, w direction.** -/
theorem insert_w_preserves_volume (pu pv pw : ℕ) (Uu Uv : ℕ → K) (Uwl : List K) (su sv sw : ℕ) (P : List (List K))
    (ub u v w : K) (r s d j : ℕ) (hP : NetOk d P) (hlenP : P.length = su * sv * sw)
    (hm : Monotone (fnOf Uwl)) (hlen : Uwl.length = sw + pw + 1) (hpn : pw + 1 ≤ sw)
    (hub1 : fnOf Uwl pw ≤ ub) (hub2 : ub < fnOf Uwl sw)
    (hmult : ∀ x, findSpanLinear pw (fnOf Uwl) sw ub - s < x → x ≤ findSpanLinear pw (fnOf Uwl) sw ub → fnOf Uwl x = ub)
    (hr1 : 1 ≤ r) (hrs : r + s ≤ pw)
    (hlo : fnOf Uwl pw ≤ w) (hhi : w ≤ fnOf Uwl sw) (hlast : fnOf Uwl (sw - 1) < fnOf Uwl sw)
    (hmu : Monotone Uu) (hpnu : pu + 1 ≤ su) (hlou : Uu pu ≤ u)
    (hmv : Monotone Uv) (hpnv : pv + 1 ≤ sv) (hlov : Uv pv ≤ v) :
    (volumePoint pu pv pw Uu Uv (fnOf (knotInsertionKv Uwl ub (findSpanLinear pw (fnOf Uwl) sw ub) r)) su sv (sw + r)
        (mapVol 2 su sv sw P (fun c => knotInsertion pw (fnOf Uwl) c ub r s (findSpanLinear pw (fnOf Uwl) sw ub))).1 u v w).getD j 0
      = (volumePoint pu pv pw Uu Uv (fnOf Uwl) su sv sw P u v w).getD j 0 :=
  insertW_preserves_volume pu pv pw Uu Uv Uwl su sv sw P ub u v w r s d j hP hlenP hm hlen hpn hub1 hub2 hmult hr1 hrs
    hlo hhi hlast hmu hpnu hlou hmv hpnv hlov

/-- The object-level model `Shape.mapDir` applied to a shape with three parametric directions is
    `mapVol` on its sizes and net (so the three theorems above are about what `insertKnotDir` does
    to a volume).
    (Unfolding lemma (definition of `Shape.mapDir` for `pdim = 3`).) -/
theorem mapDir_volume (S : Shape K) (dir : ℕ) (f : List (List K) → List (List K)) (h : S.pdim = 3) :
    S.mapDir dir f = mapVol dir (S.size 0) (S.size 1) (S.size 2) S.net f := by
  unfold Shape.mapDir
  rw [if_neg (by omega), if_neg (by omega)]

/-- What one direction of the model of `operations.insert_knot` returns for a volume (three
    parametric directions) when the multiplicity check passes: the knot vector of that direction with
    `r` copies inserted at the span found by the linear search, the size reported by `mapVol`, and
    the net `mapVol dir … (A5.1 on every iso-curve)` – the objects of the theorems above.
    (Unfolding lemma: it spells out the definition of `insertKnotDir` on the accepting branch, nothing more.) -/
theorem insertKnotDir_volume (S : Shape K) (dir : ℕ) (u : K) (r : ℕ) (tol : K) (check : Bool) (h3 : S.pdim = 3)
    (hok : ¬ (check = true ∧ r + findMultiplicity u (S.kv dir) tol > S.deg dir)) :
    insertKnotDir S dir u r tol check = some { S with
      kvs := S.kvs.set dir (knotInsertionKv (S.kv dir) u (findSpanLinear (S.deg dir) (fnOf (S.kv dir)) (S.size dir) u) r),
      sizes := S.sizes.set dir (mapVol dir (S.size 0) (S.size 1) (S.size 2) S.net (fun c =>
        knotInsertion (S.deg dir) (fnOf (S.kv dir)) c u r (findMultiplicity u (S.kv dir) tol)
          (findSpanLinear (S.deg dir) (fnOf (S.kv dir)) (S.size dir) u))).2,
      net := (mapVol dir (S.size 0) (S.size 1) (S.size 2) S.net (fun c =>
        knotInsertion (S.deg dir) (fnOf (S.kv dir)) c u r (findMultiplicity u (S.kv dir) tol)
          (findSpanLinear (S.deg dir) (fnOf (S.kv dir)) (S.size dir) u))).1 } := by
  unfold insertKnotDir
  simp only []
  rw [if_neg hok, mapDir_volume S dir _ h3]

/-- The net grows in the chosen direction only: `su·sv·sw` becomes `(su+r)·sv·sw` (u), `su·(sv+r)·sw`
    (v), `su·sv·(sw+r)` (w), the reported new size is `size + r`, and every point keeps its dimension. -/
theorem insert_volume_net_size (su sv sw d r p : ℕ) (U : ℕ → K) (P : List (List K)) (ub : K) (s k : ℕ)
    (hP : NetOk d P) (hlen : P.length = su * sv * sw) (hsu : 0 < su) (hsv : 0 < sv) (hsw : 0 < sw)
    (hpk : p ≤ k) (hrs : r + s ≤ p) :
    (k < su → (mapVol 0 su sv sw P (fun c => knotInsertion p U c ub r s k)).2 = su + r ∧
      (mapVol 0 su sv sw P (fun c => knotInsertion p U c ub r s k)).1.length = (su + r) * sv * sw ∧
      NetOk d (mapVol 0 su sv sw P (fun c => knotInsertion p U c ub r s k)).1) ∧
    (k < sv → (mapVol 1 su sv sw P (fun c => knotInsertion p U c ub r s k)).2 = sv + r ∧
      (mapVol 1 su sv sw P (fun c => knotInsertion p U c ub r s k)).1.length = su * (sv + r) * sw ∧
      NetOk d (mapVol 1 su sv sw P (fun c => knotInsertion p U c ub r s k)).1) ∧
    (k < sw → (mapVol 2 su sv sw P (fun c => knotInsertion p U c ub r s k)).2 = sw + r ∧
      (mapVol 2 su sv sw P (fun c => knotInsertion p U c ub r s k)).1.length = su * sv * (sw + r) ∧
      NetOk d (mapVol 2 su sv sw P (fun c => knotInsertion p U c ub r s k)).1) :=
  ⟨fun hk => let h := mapVol0_insert_spec su sv sw d r p U P ub s k hP hlen hsv hsw hpk hk hrs; ⟨h.1, h.2.1, h.2.2.1⟩,
   fun hk => let h := mapVol1_insert_spec su sv sw d r p U P ub s k hP hlen hsu hsw hpk hk hrs; ⟨h.1, h.2.1, h.2.2.1⟩,
   fun hk => let h := mapVol2_insert_spec su sv sw d r p U P ub s k hP hlen hsu hsv hpk hk hrs; ⟨h.1, h.2.1, h.2.2.1⟩⟩

/-- The knot vector gains exactly `r` entries …
    (Structural fact (length of `take ++ replicate ++ drop`); holds for any arguments.) -/
theorem insertKv_length (U : List K) (u : K) (k r : ℕ) : (knotInsertionKv U u k r).length = U.length + r := by
  unfold knotInsertionKv
  simp only [List.length_append, List.length_take, List.length_replicate, List.length_drop]
  omega

/-- … which are `r` copies of the inserted value (as multisets: new = old + r·{u}) … -/
theorem insertKv_perm (U : List K) (u : K) (k r : ℕ) :
    (knotInsertionKv U u k r).Perm (List.replicate r u ++ U) := by
  unfold knotInsertionKv
  have h : U = U.take (k+1) ++ U.drop (k+1) := (List.take_append_drop _ _).symm
  conv_rhs => rw [h]
  rw [List.append_assoc]
  exact (List.perm_append_comm_assoc _ _ _)

/-- … in sorted position: the new knot function is again non-decreasing. -/
theorem insertKv_monotone (U : List K) (ub : K) (k r : ℕ) (hlen : k + 1 < U.length)
    (hm : Monotone (fnOf U)) (h1 : fnOf U k ≤ ub) (h2 : ub ≤ fnOf U (k+1)) :
    Monotone (fnOf (knotInsertionKv U ub k r)) := by
  rw [fnOf_knotInsertionKv U ub k r hlen]
  exact Uh_mono (fnOf U) k r ub hm h1 h2

/-- The control polygon grows by exactly `r` points (this half is the length of a `map`: it holds for any
    arguments), and - for an admissible call (`p ≤ k < n`, `r + s ≤ p`, `s ≤ k`) on a net whose points all have
    `d` coordinates - every point of the new net has `d` coordinates again (`NetOk d`). -/
theorem insert_net_length (p : ℕ) (U : ℕ → K) (P : List (List K)) (u : K) (r s k d : ℕ) (hP : NetOk d P)
    (hpk : p ≤ k) (hk : k < P.length) (hrs : r + s ≤ p) (hsk : s ≤ k) :
    (knotInsertion p U P u r s k).length = P.length + r ∧ NetOk d (knotInsertion p U P u r s k) :=
  ⟨knotInsertion_length p U P u r s k, knotInsertion_netOk p U P u r s k d hP hpk hk hrs hsk⟩

/-- A request beyond the allowed multiplicity (`r > p - s`) is rejected (no new object).
    (Unfolding lemma: the guard of the model (mirroring the `GeomdlException` of `insert_knot`) evaluated.) -/
theorem insert_rejected (S : Shape K) (dir : ℕ) (u : K) (r : ℕ) (tol : K)
    (h : S.deg dir < r + findMultiplicity u (S.kv dir) tol) :
    insertKnotDir S dir u r tol true = none := by
  unfold insertKnotDir
  simp only []
  rw [if_pos ⟨by simp, h⟩]

/-- non-vacuity: cubic, knots 0,0,0,0,1/2,1,1,1,1, insert 1/4 once into span 3, evaluate on span 3 -/
example : (fnOf ([0,0,0,0,1/2,1,1,1,1] : List ℚ)) 3 ≤ 1/4 ∧ (1/4 : ℚ) < fnOf ([0,0,0,0,1/2,1,1,1,1] : List ℚ) 4 := by
  simp [fnOf]; norm_num

/-- non-vacuity of the sequence theorem: a quadratic with knots 0,0,0,1,1,1 is well formed … -/
example : CurveWF 2 2 ([0,0,0,1,1,1] : List ℚ) [[0,0],[1,2],[2,0]] where
  mono := by
    apply monotone_nat_of_le_succ
    intro n
    rcases n with _|_|_|_|_|_|n <;> simp [fnOf, List.getD]
  len := by simp
  pn := by simp
  last := by simp [fnOf, List.getD]
  net := by intro pt hpt; simp at hpt; rcases hpt with h | h | h <;> simp [h]

/-- … and inserting 1/2 once (multiplicity 0) is an admissible request in that state -/
example : ReqOk 2 (([0,0,0,1,1,1] : List ℚ), [[0,0],[1,2],[2,0]]) (1/2, 1, 0) := by
  refine ⟨by simp [fnOf, List.getD], by simp [fnOf, List.getD]; norm_num, ?_, by simp, by simp⟩
  intro x h1 h2
  exfalso
  simp only [Nat.sub_zero] at h1
  exact absurd h2 (not_le.mpr h1)

/-- non-vacuity of `insert_net_length`: quadratic, three 2-D points, one insertion into span 2 gives four 2-D points -/
example : (knotInsertion 2 (fnOf ([0,0,0,1,1,1] : List ℚ)) [[0,0],[1,2],[2,0]] (1/2) 1 0 2).length = 3 + 1 ∧
    NetOk 2 (knotInsertion 2 (fnOf ([0,0,0,1,1,1] : List ℚ)) [[0,0],[1,2],[2,0]] (1/2) 1 0 2) :=
  insert_net_length 2 _ _ _ 1 0 2 2 (by intro pt hpt; simp at hpt; rcases hpt with h | h | h <;> simp [h])
    (by omega) (by simp) (by omega) (by omega)

/-- non-vacuity of the volume theorems: degrees (1,1,2), sizes 2×2×3, w knots 0,0,0,1,1,1, insert 1/2 once
    (span 2, multiplicity 0), evaluate at w = 3/4 (old span 2, new span 3) -/
example (Uu Uv : ℕ → ℚ) (u v : ℚ) (j : ℕ) :
    (volumePointAt 1 1 2 Uu Uv (fnOf (knotInsertionKv ([0,0,0,1,1,1] : List ℚ) (1/2) 2 1)) 2 2
        (mapVol 2 2 2 3 ([[0,0],[1,0],[0,1],[1,1],[0,2],[1,3],[2,2],[3,1],[0,5],[1,4],[2,6],[4,4]] : List (List ℚ))
          (fun c => knotInsertion 2 (fnOf ([0,0,0,1,1,1] : List ℚ)) c (1/2) 1 0 2)).1 1 1 3 u v (3/4)).getD j 0
      = (volumePointAt 1 1 2 Uu Uv (fnOf ([0,0,0,1,1,1] : List ℚ)) 2 2
          ([[0,0],[1,0],[0,1],[1,1],[0,2],[1,3],[2,2],[3,1],[0,5],[1,4],[2,6],[4,4]] : List (List ℚ)) 1 1 2 u v (3/4)).getD j 0 := by
  apply insert_w_preserves_volume_point 1 1 2 Uu Uv [0,0,0,1,1,1] 2 2 3 _ (1/2) u v (3/4) 1 0 2 1 1 2 3 2 j
  · intro pt hpt; simp at hpt; rcases hpt with h|h|h|h|h|h|h|h|h|h|h|h <;> simp [h]
  · rfl
  · apply monotone_nat_of_le_succ
    intro n
    rcases n with _|_|_|_|_|_|n <;> simp [fnOf, List.getD]
  · simp
  · simp [fnOf, List.getD]
  · simp [fnOf, List.getD]; norm_num
  · intro x h1 h2; omega
  · simp [fnOf, List.getD]
  · simp [fnOf, knotInsertionKv, List.getD]; norm_num
  all_goals omega

/-! ## several directions in one call, sequences of calls (surfaces and volumes)

`insertKnot S params nums tol check` is the model of `operations.insert_knot(obj, params, nums)`: the
loop over the parametric directions, skipping `None` parameters and zero counts, each direction
applied to the object as the earlier directions left it.
* `SurfWF d S` / `VolWF d S`: two / three directions, each with a well-formed knot vector (sorted,
  right length, at least `p + 1` control points, non-empty last span), net of the right size with
  points of dimension `d`.
* `DirReqOk S dir u r tol`: `u` lies in the half-open domain of direction `dir`, the multiplicity `s`
  that `find_multiplicity` computes with tolerance `tol` is a run of `s` copies ending at the span of
  `u`, and `r + s ≤ p`.  `insert_request_admissible` derives it from decidable facts.
* `CallOk n S params nums tol`: every requested direction (`< n`) of the call is admissible, stated
  on the object the call is applied to (the other directions' knot vectors do not change before
  their turn).  The lists are read with `getD` (a missing entry = nothing requested); that they have exactly one
  entry per direction is a separate hypothesis of the object-level theorems (`hpl`, `hnl`, `hlen`).  The code raises
  when `num` has another length (with `check_num`) or `param` is too short (`IndexError`), the driver answers `ERR`
  exactly there; a LONGER `param` list is accepted by the code (the surplus is never read, audit 4 H5) – the
  theorems are stated for exactly one entry, the accepted surplus is covered by the correspondence stream
  `list-lengths` of c06.py / c04.py only. -/

/-- **Decidable route to admissibility**: if `u` is equal to or further than `tol` away from every knot
    of the direction, lies in `[U_p, U_n)`, and its number of occurrences plus `r` does not exceed the
    degree, the request is admissible. -/
theorem insert_request_admissible (S : Shape K) (dir : ℕ) (u : K) (r : ℕ) (tol : K)
    (hkv : KvWF (S.deg dir) (S.kv dir) (S.size dir)) (h0 : 0 ≤ tol)
    (hsep : ∀ y ∈ S.kv dir, u = y ∨ tol < |u - y|)
    (hlo : fnOf (S.kv dir) (S.deg dir) ≤ u) (hhi : u < fnOf (S.kv dir) (S.size dir))
    (hrs : r + (S.kv dir).count u ≤ S.deg dir) : DirReqOk S dir u r tol :=
  dirReqOk_of_sep S dir u r tol hkv h0 hsep hlo hhi hrs

/-- **One `insert_knot` call on a surface, any subset of the two directions at once**: if every
    requested direction is admissible the call completes (`R.2 = true`), the result is a well-formed
    surface with the same degrees and the same domain, and the surface point at EVERY parameter pair
    of the domain (ends included; spans by the library's search before and after) is unchanged in
    every coordinate.  `hpl`, `hnl`: `params` and `num` have one entry per parametric direction – the guard of the code
    ("The length of the num array must be equal to the number of parametric dimensions", `IndexError` on `param[i]`) and
    of the driver; the model reads missing entries as "nothing requested". -/
theorem insertKnot_preserves_surface (d : ℕ) (S : Shape K) (hS : SurfWF d S) (params : List (Option K))
    (nums : List ℕ) (tol : K) (check : Bool) (hpl : params.length = 2) (hnl : nums.length = 2)
    (hreq : CallOk 2 S params nums tol)
    (R : Shape K × Bool) (hR : insertKnot S params nums tol check = R)
    (u v : K) (hu1 : fnOf (S.kv 0) (S.deg 0) ≤ u) (hu2 : u ≤ fnOf (S.kv 0) (S.size 0))
    (hv1 : fnOf (S.kv 1) (S.deg 1) ≤ v) (hv2 : v ≤ fnOf (S.kv 1) (S.size 1)) (j : ℕ) :
    R.2 = true ∧ SurfWF d R.1 ∧ R.1.degs = S.degs ∧ R.1.rat = S.rat ∧
    (∀ i, i < 2 → fnOf (R.1.kv i) (R.1.deg i) = fnOf (S.kv i) (S.deg i) ∧
      fnOf (R.1.kv i) (R.1.size i) = fnOf (S.kv i) (S.size i)) ∧
    (surfacePoint (R.1.deg 0) (R.1.deg 1) (fnOf (R.1.kv 0)) (fnOf (R.1.kv 1)) (R.1.size 0) (R.1.size 1) R.1.net u v).getD j 0
      = (surfacePoint (S.deg 0) (S.deg 1) (fnOf (S.kv 0)) (fnOf (S.kv 1)) (S.size 0) (S.size 1) S.net u v).getD j 0 := by
  subst hR
  obtain ⟨a, b, c, e⟩ := insertKnot_surface' d S hS params nums tol check hreq
  exact ⟨e, a.wf, b, c, a.ends, a.eval u v hu1 hu2 hv1 hv2 j⟩

/-- **One `insert_knot` call on a volume, any subset of the three directions at once.** -/
theorem insertKnot_preserves_volume (d : ℕ) (S : Shape K) (hS : VolWF d S) (params : List (Option K))
    (nums : List ℕ) (tol : K) (check : Bool) (hpl : params.length = 3) (hnl : nums.length = 3)
    (hreq : CallOk 3 S params nums tol)
    (R : Shape K × Bool) (hR : insertKnot S params nums tol check = R)
    (u v w : K) (hu1 : fnOf (S.kv 0) (S.deg 0) ≤ u) (hu2 : u ≤ fnOf (S.kv 0) (S.size 0))
    (hv1 : fnOf (S.kv 1) (S.deg 1) ≤ v) (hv2 : v ≤ fnOf (S.kv 1) (S.size 1))
    (hw1 : fnOf (S.kv 2) (S.deg 2) ≤ w) (hw2 : w ≤ fnOf (S.kv 2) (S.size 2)) (j : ℕ) :
    R.2 = true ∧ VolWF d R.1 ∧ R.1.degs = S.degs ∧ R.1.rat = S.rat ∧
    (∀ i, i < 3 → fnOf (R.1.kv i) (R.1.deg i) = fnOf (S.kv i) (S.deg i) ∧
      fnOf (R.1.kv i) (R.1.size i) = fnOf (S.kv i) (S.size i)) ∧
    (volumePoint (R.1.deg 0) (R.1.deg 1) (R.1.deg 2) (fnOf (R.1.kv 0)) (fnOf (R.1.kv 1)) (fnOf (R.1.kv 2))
        (R.1.size 0) (R.1.size 1) (R.1.size 2) R.1.net u v w).getD j 0
      = (volumePoint (S.deg 0) (S.deg 1) (S.deg 2) (fnOf (S.kv 0)) (fnOf (S.kv 1)) (fnOf (S.kv 2))
        (S.size 0) (S.size 1) (S.size 2) S.net u v w).getD j 0 := by
  subst hR
  obtain ⟨a, b, c, e⟩ := insertKnot_volume' d S hS params nums tol check hreq
  exact ⟨e, a.wf, b, c, a.ends, a.eval u v w hu1 hu2 hv1 hv2 hw1 hw2 j⟩

/-- **A later direction rejected by the multiplicity check** (`DirRejected`: `check` is on and
    `r + s > p`): the model keeps the directions applied before the exception, and what it returns is
    still a well-formed surface with the same domain and the same points – provided every requested
    direction is either admissible or rejected. -/
theorem insertKnot_partial_application_surface (d : ℕ) (S : Shape K) (hS : SurfWF d S) (params : List (Option K))
    (nums : List ℕ) (tol : K) (check : Bool) (hpl : params.length = 2) (hnl : nums.length = 2)
    (hreq : CallOkOrRej 2 S params nums tol check)
    (u v : K) (hu1 : fnOf (S.kv 0) (S.deg 0) ≤ u) (hu2 : u ≤ fnOf (S.kv 0) (S.size 0))
    (hv1 : fnOf (S.kv 1) (S.deg 1) ≤ v) (hv2 : v ≤ fnOf (S.kv 1) (S.size 1)) (j : ℕ) :
    SurfWF d (insertKnot S params nums tol check).1 ∧
    (surfEval (insertKnot S params nums tol check).1 u v).getD j 0 = (surfEval S u v).getD j 0 :=
  let a := insertKnot_surface_any' d S hS params nums tol check hreq
  ⟨a.wf, a.eval u v hu1 hu2 hv1 hv2 j⟩

/-- The same for volumes. -/
theorem insertKnot_partial_application_volume (d : ℕ) (S : Shape K) (hS : VolWF d S) (params : List (Option K))
    (nums : List ℕ) (tol : K) (check : Bool) (hpl : params.length = 3) (hnl : nums.length = 3)
    (hreq : CallOkOrRej 3 S params nums tol check)
    (u v w : K) (hu1 : fnOf (S.kv 0) (S.deg 0) ≤ u) (hu2 : u ≤ fnOf (S.kv 0) (S.size 0))
    (hv1 : fnOf (S.kv 1) (S.deg 1) ≤ v) (hv2 : v ≤ fnOf (S.kv 1) (S.size 1))
    (hw1 : fnOf (S.kv 2) (S.deg 2) ≤ w) (hw2 : w ≤ fnOf (S.kv 2) (S.size 2)) (j : ℕ) :
    VolWF d (insertKnot S params nums tol check).1 ∧
    (volEval (insertKnot S params nums tol check).1 u v w).getD j 0 = (volEval S u v w).getD j 0 :=
  let a := insertKnot_volume_any' d S hS params nums tol check hreq
  ⟨a.wf, a.eval u v w hu1 hu2 hv1 hv2 hw1 hw2 j⟩

/-- **Any sequence of `insert_knot` calls on a surface** (`insertCalls` = the left fold of the calls over
    the object; `CallsOk 2 …`: every call admissible in the state it is applied to): the final object is
    a well-formed surface over the same domain and every surface point is unchanged
    (`surfEval T u v` = `surfacePoint` of `T`'s degrees, knot vectors, sizes and net). -/
theorem insert_call_sequence_preserves_surface (d : ℕ) (tol : K) (check : Bool)
    (calls : List (List (Option K) × List ℕ)) (S : Shape K) (hS : SurfWF d S)
    (hlen : ∀ c ∈ calls, c.1.length = 2 ∧ c.2.length = 2) (hok : CallsOk 2 tol check S calls)
    (u v : K) (hu1 : fnOf (S.kv 0) (S.deg 0) ≤ u) (hu2 : u ≤ fnOf (S.kv 0) (S.size 0))
    (hv1 : fnOf (S.kv 1) (S.deg 1) ≤ v) (hv2 : v ≤ fnOf (S.kv 1) (S.size 1)) (j : ℕ) :
    SurfWF d (insertCalls tol check S calls) ∧
    (∀ i, i < 2 → fnOf ((insertCalls tol check S calls).kv i) ((insertCalls tol check S calls).deg i) = fnOf (S.kv i) (S.deg i) ∧
      fnOf ((insertCalls tol check S calls).kv i) ((insertCalls tol check S calls).size i) = fnOf (S.kv i) (S.size i)) ∧
    (surfEval (insertCalls tol check S calls) u v).getD j 0 = (surfEval S u v).getD j 0 :=
  let a := insertCalls_surface d tol check calls S hS hok
  ⟨a.wf, a.ends, a.eval u v hu1 hu2 hv1 hv2 j⟩

/-- **Any sequence of `insert_knot` calls on a volume.** -/
theorem insert_call_sequence_preserves_volume (d : ℕ) (tol : K) (check : Bool)
    (calls : List (List (Option K) × List ℕ)) (S : Shape K) (hS : VolWF d S)
    (hlen : ∀ c ∈ calls, c.1.length = 3 ∧ c.2.length = 3) (hok : CallsOk 3 tol check S calls)
    (u v w : K) (hu1 : fnOf (S.kv 0) (S.deg 0) ≤ u) (hu2 : u ≤ fnOf (S.kv 0) (S.size 0))
    (hv1 : fnOf (S.kv 1) (S.deg 1) ≤ v) (hv2 : v ≤ fnOf (S.kv 1) (S.size 1))
    (hw1 : fnOf (S.kv 2) (S.deg 2) ≤ w) (hw2 : w ≤ fnOf (S.kv 2) (S.size 2)) (j : ℕ) :
    VolWF d (insertCalls tol check S calls) ∧
    (∀ i, i < 3 → fnOf ((insertCalls tol check S calls).kv i) ((insertCalls tol check S calls).deg i) = fnOf (S.kv i) (S.deg i) ∧
      fnOf ((insertCalls tol check S calls).kv i) ((insertCalls tol check S calls).size i) = fnOf (S.kv i) (S.size i)) ∧
    (volEval (insertCalls tol check S calls) u v w).getD j 0 = (volEval S u v w).getD j 0 :=
  let a := insertCalls_volume d tol check calls S hS hok
  ⟨a.wf, a.ends, a.eval u v w hu1 hu2 hv1 hv2 hw1 hw2 j⟩

/-! ### non-vacuity of the object-level hypotheses -/

/-- the example surface (degrees 1, 2; sizes 2 × 4) and volume (degrees 1, 1, 2; sizes 2 × 2 × 4) are
    well formed -/
example : SurfWF 3 exSurfQ := exSurfQ_wf
example : VolWF 3 exVolQ := exVolQ_wf

/-- inserting 1/2 once along u and 1/4 twice along v in ONE call is admissible for the surface … -/
example : CallOk 2 exSurfQ [some (1/2), some (1/4)] [1, 2] (1/10000000) := by
  intro dir hdir u hu hn
  rcases (by omega : dir = 0 ∨ dir = 1) with rfl | rfl
  · obtain rfl : (1/2 : ℚ) = u := by simpa using hu
    exact insert_request_admissible exSurfQ 0 (1/2) 1 _ exSurfQ_wf.dir0 (by norm_num) (by decide +kernel)
      (by decide +kernel) (by decide +kernel) (by decide +kernel)
  · obtain rfl : (1/4 : ℚ) = u := by simpa using hu
    exact insert_request_admissible exSurfQ 1 (1/4) 2 _ exSurfQ_wf.dir1 (by norm_num) (by decide +kernel)
      (by decide +kernel) (by decide +kernel) (by decide +kernel)

/-- … and the call completes with both knot vectors refined -/
example : (insertKnot exSurfQ [some (1/2), some (1/4)] [1, 2] (1/10000000) true).2 = true ∧
    (insertKnot exSurfQ [some (1/2), some (1/4)] [1, 2] (1/10000000) true).1.kvs
      = [[0,0,1/2,1,1], [0,0,0,1/4,1/4,1/2,1,1,1]] := by decide +kernel

/-- … the object-level theorem applied with the whole bundle (`params` / `num` have 2 entries by `rfl`; `hreq` is the
    admissibility shown above), at the parameter pair `(1/3, 1/2)` -/
example (hreq : CallOk 2 exSurfQ [some (1/2), some (1/4)] [1, 2] (1/10000000)) (j : ℕ) :
    (surfEval (insertKnot exSurfQ [some (1/2), some (1/4)] [1, 2] (1/10000000) true).1 (1/3) (1/2)).getD j 0
      = (surfEval exSurfQ (1/3) (1/2)).getD j 0 :=
  (insertKnot_preserves_surface 3 exSurfQ exSurfQ_wf _ _ _ true rfl rfl hreq _ rfl (1/3) (1/2)
    (by decide +kernel) (by decide +kernel) (by decide +kernel) (by decide +kernel) j).2.2.2.2.2

/-- a volume call in the directions u and w (v skipped with `None`) is admissible … -/
example : CallOk 3 exVolQ [some (1/3), none, some (1/2)] [1, 0, 1] (1/10000000) := by
  intro dir hdir u hu hn
  rcases (by omega : dir = 0 ∨ dir = 1 ∨ dir = 2) with rfl | rfl | rfl
  · obtain rfl : (1/3 : ℚ) = u := by simpa using hu
    exact insert_request_admissible exVolQ 0 (1/3) 1 _ exVolQ_wf.dir0 (by norm_num) (by decide +kernel)
      (by decide +kernel) (by decide +kernel) (by decide +kernel)
  · simp at hu
  · obtain rfl : (1/2 : ℚ) = u := by simpa using hu
    exact insert_request_admissible exVolQ 2 (1/2) 1 _ exVolQ_wf.dir2 (by norm_num) (by decide +kernel)
      (by decide +kernel) (by decide +kernel) (by decide +kernel)

/-- … while asking for 1/2 twice along w (multiplicity 1, degree 2) is rejected after u has been
    applied: the flag is `false` and the u knot vector is already refined -/
example : (insertKnot exVolQ [some (1/3), none, some (1/2)] [1, 0, 2] (1/10000000) true).2 = false ∧
    (insertKnot exVolQ [some (1/3), none, some (1/2)] [1, 0, 2] (1/10000000) true).1.kvs
      = [[0,0,1/3,1,1], [0,0,1,1], [0,0,0,1/2,1,1,1]] := by decide +kernel

/-! ## (R) The LIST-OF-ROWS branch of `helpers.knot_insertion` and the volume gather / scatter as coded

For a volume `operations.insert_knot` does not push one iso-curve after the other through the helper: it
builds `cpt2d` (one ROW per control-point index of the direction, holding the whole layer of points with
that index), calls `helpers.knot_insertion` ONCE, and the helper – seeing that `ctrlpts[0][0]` is not a
number – blends every point of a row: `temp[i][idx][:] = …`.  `knotInsertionRows` is that branch (same
α's as `knotInsertion`, output index by index), `volRows` / `volUnrows` / `mapVolRows` are the gather and
the "flatten" loops with the index expressions of the code, `insertKnotVolRows` is one direction of the
operation computed this way; all of them are run against the real helper / operation by the
correspondence check (`rowsins`, `rowsvol … I`).  `isoCol c R` is iso-curve number `c` of a list of rows
(the `c`-th point of every row). -/

/-- **Every iso-curve of the rows branch is A5.1 of that iso-curve** – every column index, all arguments.  `hR`
    (rectangular rows) is the guard of the code / the driver op `rowsins`: the equation holds in the model for ragged
    rows too (it pads with `[]`), but on ragged rows with a shorter later row the code raises `IndexError`. -/
theorem knotInsertionRows_isocurve (c p : ℕ) (U : ℕ → K) (R : List (List (List K))) (u : K) (r s k : ℕ)
    (hR : Rows.RectW (R.headD []).length R) :
    isoCol c (knotInsertionRows p U R u r s k) = knotInsertion p U (isoCol c R) u r s k :=
  Rows.isoCol_knotInsertionRows c p U R u r s k

/-- **`knot_insertion` on a list of rows = transpose, `knotInsertion` on every iso-curve, transpose back**:
    for rectangular rows (`m` points each) and a span inside the net, the result is the rectangular list
    of `#rows + r` rows whose `c`-th iso-curve is `knotInsertion` of the `c`-th iso-curve of the input. -/
theorem knotInsertionRows_is_transposed_knotInsertion (p : ℕ) (U : ℕ → K) (R : List (List (List K))) (u : K)
    (r s k m : ℕ) (hR : Rows.RectW m R) (hpk : p ≤ k) (hk : k < R.length) (hrs : r + s ≤ p) :
    Rows.RectW m (knotInsertionRows p U R u r s k) ∧
    knotInsertionRows p U R u r s k
      = Rows.ofCols (R.length + r) m (fun c => knotInsertion p U (isoCol c R) u r s k) :=
  ⟨Rows.knotInsertionRows_rect p U R u r s k m hR hpk hk hrs,
   Rows.knotInsertionRows_eq_ofCols p U R u r s k m hR hpk hk hrs⟩

/-- **The volume gather / ONE helper call on the rows / scatter of `operations.insert_knot` is exactly the
    per-iso-curve model `mapVol`** (net and new size), in each of the three directions.  Rewriting with
    this equation turns `insert_u/v/w_preserves_volume`, `insert_volume_net_size`, … into statements about
    what the rows branch computes. -/
theorem mapVolRows_insert_eq_mapVol (dir su sv sw p : ℕ) (U : ℕ → K) (P : List (List K)) (u : K) (r s k : ℕ)
    (hsu : 0 < su) (hsv : 0 < sv) (hsw : 0 < sw) (hdir : dir < 3)
    (hpk : p ≤ k) (hk : k < [su, sv, sw].getD dir 0) (hrs : r + s ≤ p) :
    mapVolRows dir su sv sw P (fun R => knotInsertionRows p U R u r s k)
      = mapVol dir su sv sw P (fun c => knotInsertion p U c u r s k) :=
  Rows.mapVolRows_insert dir su sv sw p U P u r s k hsu hsv hsw hdir hpk hk hrs

/-- **One direction of `operations.insert_knot` on a volume, computed through the list of rows as the code
    does it, is what the model `insertKnotDir` returns** (so every object-level theorem of this file –
    `insertKnot_preserves_volume`, `insert_call_sequence_preserves_volume`, … – is about the rows branch
    too).  With `check = false` the count must fit (`r + s ≤ p`); with `check = true` both reject alike. -/
theorem insertKnotVolRows_is_insertKnotDir (S : Shape K) (dir : ℕ) (u : K) (r : ℕ) (tol : K) (check : Bool)
    (h3 : S.pdim = 3) (hdir : dir < 3) (hsu : 0 < S.size 0) (hsv : 0 < S.size 1) (hsw : 0 < S.size 2)
    (hpn : S.deg dir + 1 ≤ S.size dir)
    (hrs : check = false → r + findMultiplicity u (S.kv dir) tol ≤ S.deg dir) :
    insertKnotVolRows S dir u r tol check = insertKnotDir S dir u r tol check :=
  Rows.insertKnotVolRows_eq S dir u r tol check h3 hdir hsu hsv hsw hpn hrs

/-- **Volumes, u direction, as the code computes it**: the net produced by gather / rows branch / scatter
    evaluates, at every parameter triple of the domain and in every coordinate, to the point of the
    original volume (`insert_u_preserves_volume` read through `mapVolRows_insert_eq_mapVol`). -/
theorem insert_u_rows_preserves_volume (pu pv pw : ℕ) (Uul : List K) (Uv Uw : ℕ → K) (su sv sw : ℕ) (P : List (List K))
    (ub u v w : K) (r s d j : ℕ) (hP : NetOk d P) (hlenP : P.length = su * sv * sw)
    (hm : Monotone (fnOf Uul)) (hlen : Uul.length = su + pu + 1) (hpn : pu + 1 ≤ su)
    (hub1 : fnOf Uul pu ≤ ub) (hub2 : ub < fnOf Uul su)
    (hmult : ∀ x, findSpanLinear pu (fnOf Uul) su ub - s < x → x ≤ findSpanLinear pu (fnOf Uul) su ub → fnOf Uul x = ub)
    (hr1 : 1 ≤ r) (hrs : r + s ≤ pu)
    (hlo : fnOf Uul pu ≤ u) (hhi : u ≤ fnOf Uul su) (hlast : fnOf Uul (su - 1) < fnOf Uul su)
    (hmv : Monotone Uv) (hpnv : pv + 1 ≤ sv) (hlov : Uv pv ≤ v)
    (hmw : Monotone Uw) (hpnw : pw + 1 ≤ sw) (hlow : Uw pw ≤ w) :
    (volumePoint pu pv pw (fnOf (knotInsertionKv Uul ub (findSpanLinear pu (fnOf Uul) su ub) r)) Uv Uw (su + r) sv sw
        (mapVolRows 0 su sv sw P (fun R => knotInsertionRows pu (fnOf Uul) R ub r s (findSpanLinear pu (fnOf Uul) su ub))).1
          u v w).getD j 0
      = (volumePoint pu pv pw (fnOf Uul) Uv Uw su sv sw P u v w).getD j 0 :=
  Rows.insertU_rows_preserves_volume pu pv pw Uul Uv Uw su sv sw P ub u v w r s d j hP hlenP hm hlen hpn hub1 hub2 hmult hr1 hrs
    hlo hhi hlast hmv hpnv hlov hmw hpnw hlow

/-! ### non-vacuity -/

/-- two rows of three 1-D points each are rectangular … -/
example : Rows.RectW 2 ([[[0],[10]], [[2],[12]], [[0],[16]]] : List (List (List ℚ))) := by
  intro row hrow; simp at hrow; rcases hrow with h | h | h <;> simp [h]

/-- … and the rows branch inserts 1/2 into both quadratic iso-curves at once -/
example : knotInsertionRows 2 (fnOf ([0,0,0,1,1,1] : List ℚ)) [[[0],[10]], [[2],[12]], [[0],[16]]] (1/2) 1 0 2
    = [[[0],[10]], [[1],[11]], [[1],[14]], [[0],[16]]] := by decide +kernel

/-- the example volume, u direction: the operation computed through the rows = the per-iso-curve model -/
example : insertKnotVolRows exVolQ 0 (1/3) 1 (1/10000000) true = insertKnotDir exVolQ 0 (1/3) 1 (1/10000000) true :=
  insertKnotVolRows_is_insertKnotDir exVolQ 0 (1/3) 1 _ true rfl (by decide) (by decide) (by decide) (by decide)
    (by decide) (by intro h; cases h)

/-- … and the w direction (the rows are whole u-v layers), evaluated -/
example : (insertKnotVolRows exVolQ 2 (1/4) 1 (1/10000000) true).map (fun T => (T.sizes, T.kv 2))
    = some ([2, 2, 5], [0,0,0,1/4,1/2,1,1,1]) := by decide +kernel

/-- **Any net with the same curve over the refined knot vector is the net the insertions produce**
    (uniqueness of B-spline control points, C06 `control_points_unique`): after any admissible sequence of
    insertion requests, a control net `R` of the same size and dimension over the resulting knot vector (in
    which no basis function vanishes on the whole domain, `AllActive`) whose curve has the points of the
    ORIGINAL curve on the half-open domain equals the net A5.1 returned.  This is what makes a
    specification-level model of an insertion / refinement routine legitimate.  The hypothesis `hact : AllActive …`
    (every basis function of the RESULTING knot vector is non-zero somewhere on the domain; decidable) is part of the
    statement and is NECESSARY: with a knot of multiplicity `p + 2` a control point is never read and two different
    nets have the same curve (C06, witness `¬ AllActive 1 4 [0,0,½,½,½,1,1]`). -/
theorem insert_sequence_net_unique (p d : ℕ) (reqs : List (K × ℕ × ℕ)) (st : List K × List (List K))
    (hwf : CurveWF p d st.1 st.2) (hok : ReqsOk p st reqs) (R : List (List K)) (hR : NetOk d R)
    (hlen : R.length = (reqs.foldl (insStep p) st).2.length)
    (hact : AllActive p (reqs.foldl (insStep p) st).2.length (fnOf (reqs.foldl (insStep p) st).1))
    (hsame : ∀ u, fnOf st.1 p ≤ u → u < fnOf st.1 st.2.length → ∀ j,
      (curvePoint p (fnOf (reqs.foldl (insStep p) st).1) R u).getD j 0 = (curvePoint p (fnOf st.1) st.2 u).getD j 0) :
    R = (reqs.foldl (insStep p) st).2 :=
  insert_sequence_unique p d reqs st hwf hok R hR hlen hact hsame

/-- non-vacuity of `AllActive`: the knots `0,0,0,1/2,1,1,1` with four quadratic basis functions -/
example : AllActive 2 4 (fnOf ([0,0,0,1/2,1,1,1] : List ℚ)) := by decide +kernel

/-! ### A5.1 as coded (`knotInsertionA51`: the loops of `helpers.knot_insertion`, statement by statement) -/

/-- **The loops of `helpers.knot_insertion` compute the index-by-index model.**  `knotInsertionA51` is the
    literal transcription of the point branch of the helper (allocation of `ctrlpts_new` / `temp`, the two copy
    loops, the initialisation of `temp`, the insertion loop with its sequential in-place sweep and the two edge
    writes per pass, the final loop).  For every degree, knot function, control polygon, parameter, count
    `r ≥ 0`, multiplicity argument `s` and span argument `k` with `p ≤ k` and `r + s ≤ p` (exactly the
    condition under which no index of the code is negative) it returns, slot by slot, the list `knotInsertion`
    returns.  `hkP` is the guard under which the code reads no control point past the end, `hspan` (span `k` is not
    empty, `U_k < U_{k+1}`) together with `hm` (sorted knots) a guard under which the code does not raise
    `ZeroDivisionError`: every alpha denominator is `U[i+k+1] - U[L+i]` with `L + i ≤ k - s ≤ k < k + 1 ≤ i + k + 1`,
    hence positive (`insert_as_coded_denominators_positive`).  Where a denominator IS zero the model divides
    `x / 0 = 0` and returns a net, the code raises and the driver ops `insa51` / `inspt` answer ERR (they test exactly
    the denominators the loops compute, `Drv.a51DivByZero`); none of the three is used by the proof (the two model
    functions agree without). -/
theorem knot_insertion_as_coded_eq_model (p : ℕ) (U : ℕ → K) (P : List (List K)) (u : K) (r s k : ℕ)
    (hpk : p ≤ k) (hkP : k < P.length) (hrs : r + s ≤ p) (hm : Monotone U) (hspan : U k < U (k + 1)) :
    knotInsertionA51 p U P u r s k = knotInsertion p U P u r s k :=
  knotInsertionA51_eq_model p U P u r s k hpk hrs

/-- **Surfaces**: `operations.insert_knot` sends every iso-curve of a surface through the point branch of the
    helper; the gather / scatter models applied to the loops as coded give the nets (and new sizes) they give
    with the index-by-index model, so the surface theorems above are about the loops as coded (`hspan`: non-empty
    span, the no-`ZeroDivisionError` guard of the helper, as in `knot_insertion_as_coded_eq_model`). -/
theorem insert_as_coded_surface_nets_eq (p : ℕ) (U : ℕ → K) (su sv : ℕ) (P : List (List K)) (u : K) (r s k : ℕ)
    (hpk : p ≤ k) (hrs : r + s ≤ p) (hm : Monotone U) (hspan : U k < U (k + 1)) :
    mapSurfU su sv P (fun c => knotInsertionA51 p U c u r s k) = mapSurfU su sv P (fun c => knotInsertion p U c u r s k) ∧
    mapSurfV su sv P (fun c => knotInsertionA51 p U c u r s k) = mapSurfV su sv P (fun c => knotInsertion p U c u r s k) := by
  rw [knotInsertionA51_fun_eq p U u r s k hpk hrs]; exact ⟨rfl, rfl⟩

/-- **Shape preservation for the loops as coded, span level**: `insert_preserves_curve_point` with the control
    points computed by the literal transcription of `helpers.knot_insertion`. -/
theorem insert_as_coded_preserves_curve_point (p : ℕ) (Ul : List K) (P : List (List K)) (ub u : K)
    (r s k κ κ' d j : ℕ) (hP : NetOk d P)
    (hm : Monotone (fnOf Ul)) (hlen : k + 1 < Ul.length)
    (hk1 : fnOf Ul k ≤ ub) (hk2 : ub < fnOf Ul (k+1))
    (hmult : ∀ x, k - s < x → x ≤ k → fnOf Ul x = ub)
    (hκ : fnOf Ul κ < fnOf Ul (κ+1))
    (hκ' : fnOf (knotInsertionKv Ul ub k r) κ' < fnOf (knotInsertionKv Ul ub k r) (κ'+1))
    (hr1 : 1 ≤ r) (hrs : r + s ≤ p) (hpk : p ≤ k) (hkP : k < P.length) (hpκ : p ≤ κ) (hκP : κ < P.length)
    (hcase : (κ' = κ ∧ κ ≤ k) ∨ (κ' = κ + r ∧ k ≤ κ)) :
    (curvePointAt p (fnOf (knotInsertionKv Ul ub k r)) (knotInsertionA51 p (fnOf Ul) P ub r s k) κ' u).getD j 0
      = (curvePointAt p (fnOf Ul) P κ u).getD j 0 :=
  knotInsertionA51_preserves_point p Ul P ub u r s k κ κ' d j hP hm hlen hk1 hk2 hmult hκ hκ' hr1 hrs hpk hkP hpκ hκP hcase

/-- **Shape preservation for the loops as coded**: what `helpers.knot_insertion` computes statement by
    statement (with the span the library's linear search finds), together with `knot_insertion_kv`, leaves every
    point of the curve unchanged - every parameter of the closed domain, every coordinate. -/
theorem insert_as_coded_preserves_curve (p : ℕ) (Ul : List K) (P : List (List K)) (ub u : K)
    (r s d j : ℕ) (hP : NetOk d P)
    (hm : Monotone (fnOf Ul)) (hlen : Ul.length = P.length + p + 1) (hpn : p + 1 ≤ P.length)
    (hub1 : fnOf Ul p ≤ ub) (hub2 : ub < fnOf Ul P.length)
    (hmult : ∀ x, findSpanLinear p (fnOf Ul) P.length ub - s < x → x ≤ findSpanLinear p (fnOf Ul) P.length ub → fnOf Ul x = ub)
    (hr1 : 1 ≤ r) (hrs : r + s ≤ p)
    (hlo : fnOf Ul p ≤ u) (hhi : u ≤ fnOf Ul P.length) (hlast : fnOf Ul (P.length - 1) < fnOf Ul P.length) :
    (curvePoint p (fnOf (knotInsertionKv Ul ub (findSpanLinear p (fnOf Ul) P.length ub) r))
        (knotInsertionA51 p (fnOf Ul) P ub r s (findSpanLinear p (fnOf Ul) P.length ub)) u).getD j 0
      = (curvePoint p (fnOf Ul) P u).getD j 0 :=
  knotInsertionA51_preserves_curve p Ul P ub u r s d j hP hm hlen hpn hub1 hub2 hmult hr1 hrs hlo hhi hlast

/-- The loops as coded return `r` more points, each with the `d` coordinates of the input points.  Guards of the code
    (audit 4, H7; the driver ops `insa51` / `inspt` answer ERR outside them): span `k` is not empty (`hspan`: else an
    alpha denominator `U[i+k+1] - U[L+i]` is zero and the helper raises `ZeroDivisionError`, while the model divides
    `x / 0 = 0` and still returns `n + r` points – `insert_as_coded_empty_span_witness`), and the points have at least
    one coordinate (`hd`: the helper reads `temp[i][0]`-style slices of real points; `NetOk 0` nets of empty points make
    it raise `IndexError`). -/
theorem insert_as_coded_net_length (p : ℕ) (U : ℕ → K) (P : List (List K)) (u : K) (r s k d : ℕ) (hP : NetOk d P)
    (hd : 1 ≤ d) (hpk : p ≤ k) (hk : k < P.length) (hrs : r + s ≤ p) (hm : Monotone U) (hspan : U k < U (k + 1)) :
    (knotInsertionA51 p U P u r s k).length = P.length + r ∧ NetOk d (knotInsertionA51 p U P u r s k) := by
  rw [knotInsertionA51_eq_model p U P u r s k hpk hrs]
  exact insert_net_length p U P u r s k d hP hpk hk hrs (by omega)

/-- **Under the guards no alpha denominator of the insertion loop vanishes**: for sorted knots and a non-empty span
    `k`, every denominator `U[i+k+1] - U[L+i]` (`L = k - p + j`, `1 ≤ j ≤ r`, `i ≤ p - j - s`) the loops of
    `helpers.knot_insertion` divide by is positive. -/
theorem insert_as_coded_denominators_positive (p : ℕ) (U : ℕ → K) (r s k j i : ℕ) (hpk : p ≤ k) (hrs : r + s ≤ p)
    (hm : Monotone U) (hspan : U k < U (k + 1)) (hj1 : 1 ≤ j) (hjr : j ≤ r) (hi : i + j + s ≤ p) :
    0 < U (i + k + 1) - U (k - p + j + i) := by
  have h1 : U (k - p + j + i) ≤ U k := hm (by omega)
  have h2 : U (k + 1) ≤ U (i + k + 1) := hm (by omega)
  linarith

/-- **Outside the span guard the model and the code part** (closed witness, audit 4 H7): `U = [0,0,0,1/2,1/2,1,1,1]`,
    `p = 2`, five points, `u = 1/2`, `num = 2`, `s = 0`, span argument `k = 3` – the span `[U_3, U_4)` is EMPTY; the
    real `helpers.knot_insertion` raises `ZeroDivisionError`, the transcription returns seven points (`x / 0 = 0`). -/
theorem insert_as_coded_empty_span_witness :
    ¬ (fnOf ([0,0,0,1/2,1/2,1,1,1] : List ℚ) 3 < fnOf ([0,0,0,1/2,1/2,1,1,1] : List ℚ) 4) ∧
    knotInsertionA51 2 (fnOf ([0,0,0,1/2,1/2,1,1,1] : List ℚ)) [[0,0],[1,2],[2,0],[3,1],[4,0]] (1/2) 2 0 3
      = [[0,0],[1,2],[2,0],[2,0],[2,0],[3,1],[4,0]] := by decide +kernel

/-- the guards of `insert_as_coded_net_length` on the cubic witness below: span `k = 4` is `[1/2, 1)`, points of 2
    coordinates – the theorem applies and gives seven points -/
example : (knotInsertionA51 3 (fnOf ([0,0,0,0,1/2,1,1,1,1] : List ℚ)) [[0,0],[1,2],[3,3],[4,1],[5,0]] (1/2) 2 1 4).length = 5 + 2 :=
  (insert_as_coded_net_length 3 (fnOf ([0,0,0,0,1/2,1,1,1,1] : List ℚ)) [[0,0],[1,2],[3,3],[4,1],[5,0]] (1/2) 2 1 4 2
    (by intro q hq; revert q; decide) (by decide) (by decide) (by decide) (by decide)
    (fnOf_monotone_of_isSortedB _ (by decide +kernel)) (by decide +kernel)).1

/-- non-vacuity: a cubic with knots 0,0,0,0,1/2,1,1,1,1 (five 2-D points), the knot 1/2 (multiplicity `s = 1`,
    span `k = 4`) inserted `r = 2` times: the guard holds (`3 ≤ 4 < 5`, `2 + 1 ≤ 3`), the loops as coded return
    seven points, the same seven points as the index model … -/
example : knotInsertionA51 3 (fnOf ([0,0,0,0,1/2,1,1,1,1] : List ℚ)) [[0,0],[1,2],[3,3],[4,1],[5,0]] (1/2) 2 1 4
      = [[0,0],[1,2],[2,5/2],[11/4,9/4],[7/2,2],[4,1],[5,0]] ∧
    knotInsertion 3 (fnOf ([0,0,0,0,1/2,1,1,1,1] : List ℚ)) [[0,0],[1,2],[3,3],[4,1],[5,0]] (1/2) 2 1 4
      = [[0,0],[1,2],[2,5/2],[11/4,9/4],[7/2,2],[4,1],[5,0]] := by decide +kernel

/-- … and the hypotheses of `insert_as_coded_preserves_curve_point` about the knots hold for it: 1/2 lies in the
    span `[U_4, U_5)` and the one knot in `(k - s, k]` equals 1/2 -/
example : fnOf ([0,0,0,0,1/2,1,1,1,1] : List ℚ) 4 ≤ 1/2 ∧ (1/2 : ℚ) < fnOf ([0,0,0,0,1/2,1,1,1,1] : List ℚ) 5 ∧
    ∀ x, 4 - 1 < x → x ≤ 4 → fnOf ([0,0,0,0,1/2,1,1,1,1] : List ℚ) x = 1/2 := by
  refine ⟨by decide +kernel, by decide +kernel, fun x h1 h2 => ?_⟩
  have : x = 4 := by omega
  subst this; decide +kernel

/-! ### A5.1 as coded, LIST-OF-ROWS branch (`knotInsertionRowsA51`: the `else:` of `isinstance(temp[i][0], float)`) -/

/-- **The loops of `helpers.knot_insertion` on a list of rows compute the index-by-index model of the rows branch.**
    `knotInsertionRowsA51` is the literal transcription of the helper called with rows (what `operations.insert_knot`
    feeds for volumes): the same allocation, copy loops, initialisation of `temp`, edge writes and final loop as the
    point branch, and in the sweep the loop `for idx in range(len(temp[i])): temp[i][idx][:] = …` over the points of a
    row, run sequentially.  For every degree, knot function, list of rows, parameter, count `r ≥ 0`, multiplicity
    argument `s` and span argument `k` with `p ≤ k` and `r + s ≤ p` (no negative index) it returns, slot by slot and
    point by point, what `knotInsertionRows` returns.  `hR` (rectangular rows: on ragged rows the code raises
    `IndexError`), `hw` (rows of at least one point: on rows of width 0 the helper raises `IndexError` at `temp[i][0]`),
    `hkR` (no read past the last row) and – as for the point branch, `knot_insertion_as_coded_eq_model` – `hm` (sorted
    knots) with `hspan` (the span argument is not empty: no alpha denominator vanishes, else `ZeroDivisionError`; the
    ops `rowsinsa51` / `rowsins` test exactly the denominators the loops compute, `Drv.a51DivByZero`) are the guards of
    the code / of the driver op; they are not used by the proof. -/
theorem knot_insertion_rows_as_coded_eq_model (p : ℕ) (U : ℕ → K) (R : List (List (List K))) (u : K) (r s k : ℕ)
    (hR : Rows.RectW (R.headD []).length R) (hw : 0 < (R.headD []).length) (hpk : p ≤ k) (hkR : k < R.length)
    (hrs : r + s ≤ p) (hm : Monotone U) (hspan : U k < U (k + 1)) :
    knotInsertionRowsA51 p U R u r s k = knotInsertionRows p U R u r s k :=
  knotInsertionRowsA51_eq_model p U R u r s k hpk hrs

/-- **Every iso-curve of the loops on rows is the loops on that iso-curve**: column `c` of what the rows branch as
    coded returns is what the point branch as coded returns for column `c` of the input (same guard). -/
theorem knot_insertion_rows_as_coded_isocurve (c p : ℕ) (U : ℕ → K) (R : List (List (List K))) (u : K) (r s k : ℕ)
    (hR : Rows.RectW (R.headD []).length R) (hw : 0 < (R.headD []).length) (hpk : p ≤ k) (hrs : r + s ≤ p)
    (hm : Monotone U) (hspan : U k < U (k + 1)) :
    isoCol c (knotInsertionRowsA51 p U R u r s k) = knotInsertionA51 p U (isoCol c R) u r s k := by
  rw [knotInsertionRowsA51_eq_model p U R u r s k hpk hrs, knotInsertionA51_eq_model p U _ u r s k hpk hrs]
  exact Rows.isoCol_knotInsertionRows c p U R u r s k

/-! ### the object-level operation with the helper AS CODED (`insertKnotDirCoded`, `insertKnotCoded`)

`insertKnotDirCoded` / `insertKnotCoded` are `insertKnotDir` / `insertKnot` with every helper call replaced by the
literal transcription of the helper: `knotInsertionA51` on every iso-curve of a curve or a surface, ONE call of
`knotInsertionRowsA51` on the gathered rows (`volRows`, scattered back by `volUnrows`) for a volume.  They are run
against `operations.insert_knot` by the correspondence check (`insc`). -/

/-- **One direction of `insert_knot` through the loops as coded is the model's `insertKnotDir`.**  The guard of the
    transcriptions holds for every call the operation makes: `degree ≤ span` because the span search returns a span
    `≥ degree` when there are at least `degree + 1` control points (`hpn`), `num + s ≤ degree` by the multiplicity
    check (with `check = false` it is a hypothesis, `hrs`).  `h3`: a volume has three non-empty directions. -/
theorem insertKnotDir_as_coded_eq_model (S : Shape K) (dir : ℕ) (u : K) (r : ℕ) (tol : K) (check : Bool)
    (hpn : S.deg dir + 1 ≤ S.size dir)
    (hrs : check = false → r + findMultiplicity u (S.kv dir) tol ≤ S.deg dir)
    (h3 : S.pdim = 3 → dir < 3 ∧ 0 < S.size 0 ∧ 0 < S.size 1 ∧ 0 < S.size 2) :
    insertKnotDirCoded S dir u r tol check = insertKnotDir S dir u r tol check :=
  insertKnotDirCoded_eq S dir u r tol check hpn hrs h3

/-- **One `insert_knot` call on a curve object through the loops as coded = the model** (object state and flag). -/
theorem insertKnot_as_coded_eq_model_curve (S : Shape K) (h1 : S.pdim = 1) (hpn : S.deg 0 + 1 ≤ S.size 0)
    (params : List (Option K)) (nums : List ℕ) (tol : K) (check : Bool)
    (hrs : check = false → ∀ u, params.getD 0 none = some u →
      nums.getD 0 0 + findMultiplicity u (S.kv 0) tol ≤ S.deg 0) :
    insertKnotCoded S params nums tol check = insertKnot S params nums tol check :=
  insertKnotCoded_curve S h1 hpn params nums tol check hrs

/-- **One `insert_knot` call on a surface through the loops as coded = the model** (object state and flag): any
    subset of the two directions, every requested direction admissible or rejected by the multiplicity check. -/
theorem insertKnot_as_coded_eq_model_surface (d : ℕ) (S : Shape K) (hS : SurfWF d S) (params : List (Option K))
    (nums : List ℕ) (tol : K) (check : Bool) (hreq : CallOkOrRej 2 S params nums tol check) :
    insertKnotCoded S params nums tol check = insertKnot S params nums tol check :=
  insertKnotCoded_surface_any d S hS params nums tol check hreq

/-- **One `insert_knot` call on a volume through the rows branch as coded = the model** (object state and flag). -/
theorem insertKnot_as_coded_eq_model_volume (d : ℕ) (S : Shape K) (hS : VolWF d S) (params : List (Option K))
    (nums : List ℕ) (tol : K) (check : Bool) (hreq : CallOkOrRej 3 S params nums tol check) :
    insertKnotCoded S params nums tol check = insertKnot S params nums tol check :=
  insertKnotCoded_volume_any d S hS params nums tol check hreq

/-- **Shape preservation for the loops as coded, surfaces**: `insertKnot_preserves_surface` for the object computed
    by `knotInsertionA51` on every iso-curve - the call completes, the result is a well-formed surface with the same
    degrees and domain, and every surface point (every parameter pair of the domain, every coordinate) is unchanged. -/
theorem insert_as_coded_preserves_surface (d : ℕ) (S : Shape K) (hS : SurfWF d S) (params : List (Option K))
    (nums : List ℕ) (tol : K) (check : Bool) (hpl : params.length = 2) (hnl : nums.length = 2)
    (hreq : CallOk 2 S params nums tol)
    (R : Shape K × Bool) (hR : insertKnotCoded S params nums tol check = R)
    (u v : K) (hu1 : fnOf (S.kv 0) (S.deg 0) ≤ u) (hu2 : u ≤ fnOf (S.kv 0) (S.size 0))
    (hv1 : fnOf (S.kv 1) (S.deg 1) ≤ v) (hv2 : v ≤ fnOf (S.kv 1) (S.size 1)) (j : ℕ) :
    R.2 = true ∧ SurfWF d R.1 ∧ R.1.degs = S.degs ∧ R.1.rat = S.rat ∧
    (∀ i, i < 2 → fnOf (R.1.kv i) (R.1.deg i) = fnOf (S.kv i) (S.deg i) ∧
      fnOf (R.1.kv i) (R.1.size i) = fnOf (S.kv i) (S.size i)) ∧
    (surfEval R.1 u v).getD j 0 = (surfEval S u v).getD j 0 :=
  insertKnot_preserves_surface d S hS params nums tol check hpl hnl hreq R
    (by rw [← insertKnotCoded_surface d S hS params nums tol check hreq]; exact hR) u v hu1 hu2 hv1 hv2 j

/-- **Shape preservation for the loops as coded, volumes**: `insertKnot_preserves_volume` for the object computed
    through gather / `knotInsertionRowsA51` / scatter. -/
theorem insert_as_coded_preserves_volume (d : ℕ) (S : Shape K) (hS : VolWF d S) (params : List (Option K))
    (nums : List ℕ) (tol : K) (check : Bool) (hpl : params.length = 3) (hnl : nums.length = 3)
    (hreq : CallOk 3 S params nums tol)
    (R : Shape K × Bool) (hR : insertKnotCoded S params nums tol check = R)
    (u v w : K) (hu1 : fnOf (S.kv 0) (S.deg 0) ≤ u) (hu2 : u ≤ fnOf (S.kv 0) (S.size 0))
    (hv1 : fnOf (S.kv 1) (S.deg 1) ≤ v) (hv2 : v ≤ fnOf (S.kv 1) (S.size 1))
    (hw1 : fnOf (S.kv 2) (S.deg 2) ≤ w) (hw2 : w ≤ fnOf (S.kv 2) (S.size 2)) (j : ℕ) :
    R.2 = true ∧ VolWF d R.1 ∧ R.1.degs = S.degs ∧ R.1.rat = S.rat ∧
    (∀ i, i < 3 → fnOf (R.1.kv i) (R.1.deg i) = fnOf (S.kv i) (S.deg i) ∧
      fnOf (R.1.kv i) (R.1.size i) = fnOf (S.kv i) (S.size i)) ∧
    (volEval R.1 u v w).getD j 0 = (volEval S u v w).getD j 0 :=
  insertKnot_preserves_volume d S hS params nums tol check hpl hnl hreq R
    (by rw [← insertKnotCoded_volume d S hS params nums tol check hreq]; exact hR) u v w hu1 hu2 hv1 hv2 hw1 hw2 j

/-! #### non-vacuity -/

/-- the rows of the (R) example, the loops as coded: the guard holds (`2 ≤ 2 < 3`, `1 + 0 ≤ 2`) and both quadratic
    iso-curves receive 1/2 at once -/
example : knotInsertionRowsA51 2 (fnOf ([0,0,0,1,1,1] : List ℚ)) [[[0],[10]], [[2],[12]], [[0],[16]]] (1/2) 1 0 2
    = [[[0],[10]], [[1],[11]], [[1],[14]], [[0],[16]]] := by decide +kernel

/-- a cubic direction, rows of two 2-D points, the knot 1/2 (multiplicity `s = 1`, span `k = 4`) inserted twice: the
    loops on rows and the index model agree (here by evaluation; in general by the theorem) -/
example : knotInsertionRowsA51 3 (fnOf ([0,0,0,0,1/2,1,1,1,1] : List ℚ))
      [[[0,0],[1,1]], [[1,2],[2,0]], [[3,3],[0,4]], [[4,1],[2,2]], [[5,0],[6,1]]] (1/2) 2 1 4
    = knotInsertionRows 3 (fnOf ([0,0,0,0,1/2,1,1,1,1] : List ℚ))
      [[[0,0],[1,1]], [[1,2],[2,0]], [[3,3],[0,4]], [[4,1],[2,2]], [[5,0],[6,1]]] (1/2) 2 1 4 := by decide +kernel

/-- the example surface, both directions in one call through the loops as coded: the hypotheses of
    `insertKnot_as_coded_eq_model_surface` are those shown admissible above … -/
example (hreq : CallOk 2 exSurfQ [some (1/2), some (1/4)] [1, 2] (1/10000000)) :
    insertKnotCoded exSurfQ [some (1/2), some (1/4)] [1, 2] (1/10000000) true
      = insertKnot exSurfQ [some (1/2), some (1/4)] [1, 2] (1/10000000) true :=
  insertKnot_as_coded_eq_model_surface 3 exSurfQ exSurfQ_wf _ _ _ true
    (fun dir hdir u hp hn => Or.inl (hreq dir hdir u hp hn))

/-- … and the loops as coded do refine both knot vectors of it -/
example : (insertKnotCoded exSurfQ [some (1/2), some (1/4)] [1, 2] (1/10000000) true).2 = true ∧
    (insertKnotCoded exSurfQ [some (1/2), some (1/4)] [1, 2] (1/10000000) true).1.kvs
      = [[0,0,1/2,1,1], [0,0,0,1/4,1/4,1/2,1,1,1]] := by decide +kernel

/-- the example volume through the rows branch as coded: u and w in one call; a second copy of 1/2 along w is rejected
    after u has been applied, exactly as in the model -/
example : (insertKnotCoded exVolQ [some (1/3), none, some (1/2)] [1, 0, 1] (1/10000000) true).1.sizes = [3, 2, 5] ∧
    (insertKnotCoded exVolQ [some (1/3), none, some (1/2)] [1, 0, 2] (1/10000000) true).2 = false ∧
    (insertKnotCoded exVolQ [some (1/3), none, some (1/2)] [1, 0, 2] (1/10000000) true).1.kvs
      = [[0,0,1/3,1,1], [0,0,1,1], [0,0,0,1/2,1,1,1]] ∧
    (insertKnotCoded exVolQ [some (1/3), none, some (1/2)] [1, 0, 2] (1/10000000) true).1.net
      = (insertKnot exVolQ [some (1/3), none, some (1/2)] [1, 0, 2] (1/10000000) true).1.net := by decide +kernel

end C04
