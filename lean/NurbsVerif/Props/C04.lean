import NurbsVerif.Lemmas.InsertModel
import NurbsVerif.Lemmas.InsertAll
import NurbsVerif.Lemmas.InsertSurf
import NurbsVerif.Model.Shape
import Mathlib.Data.List.Perm.Basic

/-!
# C04  Knot insertion never changes the shape

`Geomdl.knotInsertion` / `knotInsertionKv` / `insertKnotDir` are the model functions the
correspondence check runs against `operations.insert_knot` and the `insert_knot` methods.
-/
namespace C04
open Geomdl Blossom
variable {K : Type} [Field K] [LinearOrder K] [IsStrictOrderedRing K]

/-- **Shape preservation, curves.**  For every degree `p`, sorted knot vector, control polygon of
    any dimension, insertion parameter `ub` in the span `[U k, U (k+1))` with prior multiplicity `s`,
    every count `r` with `1 ≤ r`, `r + s ≤ p`, and EVERY evaluation parameter `u` (on its old span `κ`
    and its new span `κ'`): the point computed by A2.2/A3.1 from the new knot vector and the new
    control points equals the point computed from the old ones, coordinate by coordinate. -/
theorem insert_preserves_curve_point (p : ℕ) (Ul : List K) (P : List (List K)) (ub u : K)
    (r s k κ κ' d j : ℕ) (hP : NetOk d P)
    (hm : Monotone (fnOf Ul)) (hlen : k + 1 < Ul.length)
    (hk1 : fnOf Ul k ≤ ub) (hk2 : ub < fnOf Ul (k+1))
    (hmult : ∀ x, k - s < x → x ≤ k → fnOf Ul x = ub)
    (hκ : fnOf Ul κ < fnOf Ul (κ+1))
    (hκ' : fnOf (knotInsertionKv Ul ub k r) κ' < fnOf (knotInsertionKv Ul ub k r) (κ'+1))
    (hr1 : 1 ≤ r) (hrs : r + s ≤ p) (hpk : p ≤ k) (hkP : k < P.length) (hpκ : p ≤ κ) (hκP : κ < P.length)
    (hcase : (κ' = κ ∧ κ ≤ k) ∨ (κ' = κ + r ∧ k ≤ κ)) :
    (curvePointAt p (fnOf (knotInsertionKv Ul ub k r)) (knotInsertion p (fnOf Ul) P ub r s k) κ' u).getD j 0
      = (curvePointAt p (fnOf Ul) P κ u).getD j 0 :=
  knotInsertion_preserves_point p Ul P ub u r s k κ κ' d j hP hm hlen hk1 hk2 hmult hκ hκ' hr1 hrs hpk hkP hpκ hκP hcase

/-- **Shape preservation as a function of the parameter.**  With the spans the library's own linear
    search finds before and after, for EVERY parameter of the domain (both ends included) and every
    coordinate, the curve point is unchanged by the insertion. -/
theorem insert_preserves_curve (p : ℕ) (Ul : List K) (P : List (List K)) (ub u : K)
    (r s d j : ℕ) (hP : NetOk d P)
    (hm : Monotone (fnOf Ul)) (hlen : Ul.length = P.length + p + 1) (hpn : p + 1 ≤ P.length)
    (hub1 : fnOf Ul p ≤ ub) (hub2 : ub < fnOf Ul P.length)
    (hmult : ∀ x, findSpanLinear p (fnOf Ul) P.length ub - s < x → x ≤ findSpanLinear p (fnOf Ul) P.length ub → fnOf Ul x = ub)
    (hr1 : 1 ≤ r) (hrs : r + s ≤ p)
    (hlo : fnOf Ul p ≤ u) (hhi : u ≤ fnOf Ul P.length) (hlast : fnOf Ul (P.length - 1) < fnOf Ul P.length) :
    (curvePoint p (fnOf (knotInsertionKv Ul ub (findSpanLinear p (fnOf Ul) P.length ub) r))
        (knotInsertion p (fnOf Ul) P ub r s (findSpanLinear p (fnOf Ul) P.length ub)) u).getD j 0
      = (curvePoint p (fnOf Ul) P u).getD j 0 :=
  knotInsertion_preserves_curve p Ul P ub u r s d j hP hm hlen hpn hub1 hub2 hmult hr1 hrs hlo hhi hlast

/-- **Any sequence of admissible insertions** (each request admissible in the state it is applied to:
    `ReqsOk`) leaves every point of a well-formed curve unchanged, and well-formedness is preserved. -/
theorem insert_sequence_preserves (p d : ℕ) (reqs : List (K × ℕ × ℕ)) (st : List K × List (List K))
    (hwf : CurveWF p d st.1 st.2) (hok : ReqsOk p st reqs) (u : K)
    (hlo : fnOf st.1 p ≤ u) (hhi : u ≤ fnOf st.1 st.2.length) (j : ℕ) :
    (curvePoint p (fnOf (reqs.foldl (insStep p) st).1) (reqs.foldl (insStep p) st).2 u).getD j 0
      = (curvePoint p (fnOf st.1) st.2 u).getD j 0 :=
  insert_sequence_preserves_curve p d reqs st hwf hok u hlo hhi j

/-- **Surfaces, v direction**: the net produced by the model of `operations.insert_knot` (every row –
    iso-curve `u = const` – goes through A5.1, rows are concatenated again) gives the same surface
    point as the original net, for every degree pair, size pair, multiplicity, count and parameters. -/
theorem insert_v_preserves_surface_point (pu pv : ℕ) (Uu : ℕ → K) (Uvl : List K) (su sv : ℕ) (P : List (List K))
    (ub u v : K) (r s k ku κ κ' d j : ℕ) (hP : NetOk d P) (hlenP : P.length = su * sv)
    (hm : Monotone (fnOf Uvl)) (hlen : k + 1 < Uvl.length)
    (hk1 : fnOf Uvl k ≤ ub) (hk2 : ub < fnOf Uvl (k+1))
    (hmult : ∀ x, k - s < x → x ≤ k → fnOf Uvl x = ub)
    (hκ : fnOf Uvl κ < fnOf Uvl (κ+1))
    (hκ' : fnOf (knotInsertionKv Uvl ub k r) κ' < fnOf (knotInsertionKv Uvl ub k r) (κ'+1))
    (hr1 : 1 ≤ r) (hrs : r + s ≤ pv) (hpk : pv ≤ k) (hksv : k < sv) (hpκ : pv ≤ κ) (hκsv : κ < sv)
    (hpu : pu ≤ ku) (hku : ku < su)
    (hcase : (κ' = κ ∧ κ ≤ k) ∨ (κ' = κ + r ∧ k ≤ κ)) :
    (surfacePointAt pu pv Uu (fnOf (knotInsertionKv Uvl ub k r)) (sv + r)
        (mapSurfV su sv P (fun c => knotInsertion pv (fnOf Uvl) c ub r s k)).1 ku κ' u v).getD j 0
      = (surfacePointAt pu pv Uu (fnOf Uvl) sv P ku κ u v).getD j 0 :=
  insertV_preserves_surface_point pu pv Uu Uvl su sv P ub u v r s k ku κ κ' d j hP hlenP hm hlen hk1 hk2 hmult hκ hκ'
    hr1 hrs hpk hksv hpκ hκsv hpu hku hcase

/-- **Surfaces, u direction**: every column (iso-curve `v = const`) goes through A5.1 and the columns
    are scattered back into the layout `v + sv·u`; the surface point is unchanged. -/
theorem insert_u_preserves_surface_point (pu pv : ℕ) (Uul : List K) (Uv : ℕ → K) (su sv : ℕ) (P : List (List K))
    (ub u v : K) (r s k kv κ κ' d j : ℕ) (hP : NetOk d P) (hlenP : P.length = su * sv)
    (hm : Monotone (fnOf Uul)) (hlen : k + 1 < Uul.length)
    (hk1 : fnOf Uul k ≤ ub) (hk2 : ub < fnOf Uul (k+1))
    (hmult : ∀ x, k - s < x → x ≤ k → fnOf Uul x = ub)
    (hκ : fnOf Uul κ < fnOf Uul (κ+1))
    (hκ' : fnOf (knotInsertionKv Uul ub k r) κ' < fnOf (knotInsertionKv Uul ub k r) (κ'+1))
    (hr1 : 1 ≤ r) (hrs : r + s ≤ pu) (hpk : pu ≤ k) (hksu : k < su) (hpκ : pu ≤ κ) (hκsu : κ < su)
    (hpv : pv ≤ kv) (hkv : kv < sv)
    (hcase : (κ' = κ ∧ κ ≤ k) ∨ (κ' = κ + r ∧ k ≤ κ)) :
    (surfacePointAt pu pv (fnOf (knotInsertionKv Uul ub k r)) Uv sv
        (mapSurfU su sv P (fun c => knotInsertion pu (fnOf Uul) c ub r s k)).1 κ' kv u v).getD j 0
      = (surfacePointAt pu pv (fnOf Uul) Uv sv P κ kv u v).getD j 0 :=
  insertU_preserves_surface_point pu pv Uul Uv su sv P ub u v r s k kv κ κ' d j hP hlenP hm hlen hk1 hk2 hmult hκ hκ'
    hr1 hrs hpk hksu hpκ hκsu hpv hkv hcase

/-- The knot vector gains exactly `r` entries … -/
theorem insertKv_length (U : List K) (u : K) (k r : ℕ) : (knotInsertionKv U u k r).length = U.length + r := by
  unfold knotInsertionKv
  simp only [List.length_append, List.length_take, List.length_replicate, List.length_drop]
  omega

/-- … which are `r` copies of the inserted value (as multisets: new = old + r·{u}) … -/
theorem insertKv_perm (U : List K) (u : K) (k r : ℕ) :
    (knotInsertionKv U u k r).Perm (List.replicate r u ++ U) := by
  unfold knotInsertionKv
  have h : U = U.take (k+1) ++ U.drop (k+1) := (List.take_append_drop _ _).symm
  conv_rhs => rw [h]
  rw [List.append_assoc]
  exact (List.perm_append_comm_assoc _ _ _)

/-- … in sorted position: the new knot function is again non-decreasing. -/
theorem insertKv_monotone (U : List K) (ub : K) (k r : ℕ) (hlen : k + 1 < U.length)
    (hm : Monotone (fnOf U)) (h1 : fnOf U k ≤ ub) (h2 : ub ≤ fnOf U (k+1)) :
    Monotone (fnOf (knotInsertionKv U ub k r)) := by
  rw [fnOf_knotInsertionKv U ub k r hlen]
  exact Uh_mono (fnOf U) k r ub hm h1 h2

/-- The control polygon grows by exactly `r` points, each of the same dimension. -/
theorem insert_net_length (p : ℕ) (U : ℕ → K) (P : List (List K)) (u : K) (r s k : ℕ) :
    (knotInsertion p U P u r s k).length = P.length + r :=
  knotInsertion_length p U P u r s k

/-- A request beyond the allowed multiplicity (`r > p - s`) is rejected (no new object). -/
theorem insert_rejected (S : Shape K) (dir : ℕ) (u : K) (r : ℕ) (tol : K)
    (h : S.deg dir < r + findMultiplicity u (S.kv dir) tol) :
    insertKnotDir S dir u r tol true = none := by
  unfold insertKnotDir
  simp only []
  rw [if_pos ⟨by simp, h⟩]

/-- non-vacuity: cubic, knots 0,0,0,0,1/2,1,1,1,1, insert 1/4 once into span 3, evaluate on span 3 -/
example : (fnOf ([0,0,0,0,1/2,1,1,1,1] : List ℚ)) 3 ≤ 1/4 ∧ (1/4 : ℚ) < fnOf ([0,0,0,0,1/2,1,1,1,1] : List ℚ) 4 := by
  simp [fnOf]; norm_num

/-- non-vacuity of the sequence theorem: a quadratic with knots 0,0,0,1,1,1 is well formed … -/
example : CurveWF 2 2 ([0,0,0,1,1,1] : List ℚ) [[0,0],[1,2],[2,0]] where
  mono := by
    apply monotone_nat_of_le_succ
    intro n
    rcases n with _|_|_|_|_|_|n <;> simp [fnOf, List.getD]
  len := by simp
  pn := by simp
  last := by simp [fnOf, List.getD]
  net := by intro pt hpt; simp at hpt; rcases hpt with h | h | h <;> simp [h]

/-- … and inserting 1/2 once (multiplicity 0) is an admissible request in that state -/
example : ReqOk 2 (([0,0,0,1,1,1] : List ℚ), [[0,0],[1,2],[2,0]]) (1/2, 1, 0) := by
  refine ⟨by simp [fnOf, List.getD], by simp [fnOf, List.getD]; norm_num, ?_, by simp, by simp⟩
  intro x h1 h2
  exfalso
  simp only [Nat.sub_zero] at h1
  exact absurd h2 (not_le.mpr h1)

end C04
