import NurbsVerif.Model.Eval
import NurbsVerif.Lemmas.Deriv
import NurbsVerif.Lemmas.Small
import NurbsVerif.Lemmas.DerivAll
import NurbsVerif.Lemmas.RatDers

/-!
# C02  Derivatives returned are the true derivatives of the shape  (statements so far)
-/
namespace C02
open Geomdl Blossom Polynomial
variable {K : Type} [Field K]

section ordered
variable {F : Type} [Field F] [LinearOrder F] [IsStrictOrderedRing F]

/-- **Curve derivatives of every order are the true derivatives.**  Entry `k` of the model of
    `Curve.derivatives(u, order)` (A3.3 control points + A3.4 evaluation; the default A3.2/A2.3
    evaluator and the alternative one are both tied to this model by the exact correspondence) equals
    the `k`-th derivative (Mathlib's `Polynomial.derivative`, iterated) of the span polynomial –
    the polynomial the curve coincides with on the half-open span, so at a knot this is the derivative
    from the right – evaluated at `u`; for `k` above the degree both sides are zero.  Every degree,
    sorted knot vector, non-empty span, parameter, dimension, requested order. -/
theorem curve_derivatives_are_true_derivatives (p : ℕ) (U : ℕ → F) (P : List (List F)) (κ : ℕ) (u : F)
    (d j order k : ℕ) (hp : p ≤ κ) (hκ : κ < P.length) (hP : NetOk d P)
    (hm : Monotone U) (hspan : U κ < U (κ+1)) (hk : k ≤ order) :
    ((curveDersAt p U P κ u order).getD k []).getD j 0 = eval u (derivative^[k] (spanPoly p U P κ j)) :=
  curveDersAt_all p U P κ u d j order k hp hκ hP hm hspan hk

/-- … and the span polynomial evaluates to the curve point (order 0 ties C02 to C01). -/
theorem span_polynomial_is_the_curve (p : ℕ) (U : ℕ → F) (P : List (List F)) (κ : ℕ) (u : F) (d j : ℕ)
    (hp : p ≤ κ) (hκ : κ < P.length) (hP : NetOk d P) :
    (curvePointAt p U P κ u).getD j 0 = eval u (spanPoly p U P κ j) := by
  rw [curvePointAt_wsum p U P κ u d j hp hκ hP, diag U κ u p hp]
  unfold spanPoly
  rw [eval_polP]
  simp only [eval_C]

/-- **Rational curves (A4.2, the list model of `CurveEvaluatorRational.derivatives`)**: the returned
    vectors `C⁽⁰⁾ … C⁽ⁿ⁾` solve the Leibniz system `Σ_i C(k,i) · w⁽ⁱ⁾ · C⁽ᵏ⁻ⁱ⁾ = A⁽ᵏ⁾` of every order `k`, in
    every coordinate, where `A⁽ᵏ⁾`, `w⁽ᵏ⁾` are the derivatives of the homogeneous curve (which are the
    true derivatives by the theorem above): i.e. they are the derivatives of the quotient `A / w`
    (the system has exactly one solution when `w⁽⁰⁾ ≠ 0`). -/
theorem rational_curve_derivatives_leibniz (CKw : List (List F)) (d : ℕ) (hrows : ∀ r ∈ CKw, r.length = d + 1)
    (hw : (CKw.getD 0 []).getD d 0 ≠ 0) (k j : ℕ) (hk : k < CKw.length) (hj : j < d) :
    ∑ i ∈ Finset.range (k+1), (Nat.choose k i : F) * (CKw.getD i []).getD d 0 * ((ratCurveDers CKw).getD (k - i) []).getD j 0
      = (CKw.getD k []).getD j 0 :=
  ratCurveDers_leibniz CKw d hrows hw k j hk hj

end ordered

/-- A3.3/A3.4 for the first derivative: the derivative of the span polynomial (de Boor scheme with
    the indeterminate as parameter) evaluated at `u` is `p` times the degree `p-1` evaluation of the
    scaled control-point differences `(P m - P (m-1)) / (U (m+p) - U m)` on the same span. -/
theorem span_polynomial_derivative (t : ℕ → K) (κ p : ℕ) (hsep : Sep t κ) (hp : p ≤ κ) (P : ℕ → K) (u : K) :
    eval u (derivative (polP t p p (fun j => C (P j)) κ))
      = (p : K) * polar t (p-1) (List.replicate (p-1) u)
          (fun m => (P m - P (m-1)) / (t (m+p) - t m)) κ :=
  curve_derivative t κ p hsep hp P u

/-- A4.2: the rational derivatives solve the Leibniz system `Σ_i C(k,i) w⁽ⁱ⁾ C⁽ᵏ⁻ⁱ⁾ = A⁽ᵏ⁾`
    (quotient rule of every order) whenever the weight function does not vanish. -/
theorem rational_derivatives_leibniz (A w : ℕ → K) (hw : w 0 ≠ 0) (k : ℕ) :
    ∑ i ∈ Finset.range (k+1), (Nat.choose k i : K) * w i * ratDers A w (k - i) = A k :=
  ratDers_leibniz A w hw k

end C02
