import NurbsVerif.Model.Eval
import NurbsVerif.Lemmas.Deriv
import NurbsVerif.Lemmas.Small
import NurbsVerif.Lemmas.DerivAll
import NurbsVerif.Lemmas.RatDers
import NurbsVerif.Lemmas.SurfDerivBasis
import NurbsVerif.Lemmas.SurfDerivPoly
import NurbsVerif.Lemmas.SurfDeriv
import NurbsVerif.Lemmas.RatSurfDers
import NurbsVerif.Lemmas.RatSurfDersModel
import NurbsVerif.Lemmas.SurfDerivRat
import NurbsVerif.Lemmas.SurfDerivWitness
import NurbsVerif.Lemmas.A23Final

/-!
# C02  Derivatives returned are the true derivatives of the shape  (statements so far)

Curves: every order (`curve_derivatives_are_true_derivatives`), A4.2 (`rational_curve_derivatives_leibniz`).
Basis table: `basis_derivative_table_is_true_derivative`; A2.3 transcribed statement by statement returns that
table (`a23_as_coded_is_the_derivative_table`, `a23_divisors_positive`), A3.2 over it is the true derivative
(`a32_with_a23_is_true_derivative`).
Surfaces: every mixed order (`surface_derivatives_are_true_mixed_derivatives`; the bivariate span polynomial
lives in Mathlib's `F[X][Y]`, inner indeterminate = `u`, outer = `v`), A4.4
(`rational_surface_derivatives_leibniz`, `…_of_true_derivatives`, uniqueness of the solution).
Normal / normalisation: `normal_orthogonal_to_tangents`, `normalized_vector_has_unit_length`.
-/
namespace C02
open Geomdl Blossom Polynomial
open scoped Polynomial.Bivariate
variable {K : Type} [Field K]

section ordered
variable {F : Type} [Field F] [LinearOrder F] [IsStrictOrderedRing F]

/-- **Curve derivatives of every order are the true derivatives.**  Entry `k` of the model of
    `Curve.derivatives(u, order)` (A3.3 control points + A3.4 evaluation; the default A3.2/A2.3
    evaluator and the alternative one are both tied to this model by the exact correspondence) equals
    the `k`-th derivative (Mathlib's `Polynomial.derivative`, iterated) of the span polynomial –
    the polynomial the curve coincides with on the half-open span, so at a knot this is the derivative
    from the right – evaluated at `u`; for `k` above the degree both sides are zero.  Every degree,
    sorted knot vector, non-empty span, parameter, dimension, requested order. -/
theorem curve_derivatives_are_true_derivatives (p : ℕ) (U : ℕ → F) (P : List (List F)) (κ : ℕ) (u : F)
    (d j order k : ℕ) (hp : p ≤ κ) (hκ : κ < P.length) (hP : NetOk d P)
    (hm : Monotone U) (hspan : U κ < U (κ+1)) (hk : k ≤ order) :
    ((curveDersAt p U P κ u order).getD k []).getD j 0 = eval u (derivative^[k] (spanPoly p U P κ j)) :=
  curveDersAt_all p U P κ u d j order k hp hκ hP hm hspan hk

/-- … and the span polynomial evaluates to the curve point (order 0 ties C02 to C01). -/
theorem span_polynomial_is_the_curve (p : ℕ) (U : ℕ → F) (P : List (List F)) (κ : ℕ) (u : F) (d j : ℕ)
    (hp : p ≤ κ) (hκ : κ < P.length) (hP : NetOk d P) :
    (curvePointAt p U P κ u).getD j 0 = eval u (spanPoly p U P κ j) := by
  rw [curvePointAt_wsum p U P κ u d j hp hκ hP, diag U κ u p hp]
  unfold spanPoly
  rw [eval_polP]
  simp only [eval_C]

/-- **Rational curves (A4.2, the list model of `CurveEvaluatorRational.derivatives`)**: the returned
    vectors `C⁽⁰⁾ … C⁽ⁿ⁾` solve the Leibniz system `Σ_i C(k,i) · w⁽ⁱ⁾ · C⁽ᵏ⁻ⁱ⁾ = A⁽ᵏ⁾` of every order `k`, in
    every coordinate, where `A⁽ᵏ⁾`, `w⁽ᵏ⁾` are the derivatives of the homogeneous curve (which are the
    true derivatives by the theorem above): i.e. they are the derivatives of the quotient `A / w`
    (the system has exactly one solution when `w⁽⁰⁾ ≠ 0`). -/
theorem rational_curve_derivatives_leibniz (CKw : List (List F)) (d : ℕ) (hrows : ∀ r ∈ CKw, r.length = d + 1)
    (hw : (CKw.getD 0 []).getD d 0 ≠ 0) (k j : ℕ) (hk : k < CKw.length) (hj : j < d) :
    ∑ i ∈ Finset.range (k+1), (Nat.choose k i : F) * (CKw.getD i []).getD d 0 * ((ratCurveDers CKw).getD (k - i) []).getD j 0
      = (CKw.getD k []).getD j 0 :=
  ratCurveDers_leibniz CKw d hrows hw k j hk hj


/-! ### the derivative table of the basis functions -/

/-- The `r`-th basis polynomial of a span (the span polynomial of the unit control sequence) takes
    the value that A2.2 (`basis_function`) returns, at every parameter. -/
theorem basis_polynomial_is_basis_function (p : ℕ) (U : ℕ → F) (κ : ℕ) (u : F) (r : ℕ) (hp : p ≤ κ) (hr : r ≤ p) :
    eval u (basisSpanPoly p U κ r) = (basisFuns p U κ u).getD r 0 :=
  eval_basisSpanPoly p U κ u r hp hr

/-- **Basis function derivatives.**  Row `k`, column `r` of the table `basisDers` (the specification
    that `helpers.basis_function_ders`, A2.3, is compared with in exact arithmetic) is the `k`-th derivative
    of the `r`-th basis polynomial of the span at `u`, for every `k ≤ d` – in particular zero for `k > p`
    (`basis_polynomial_derivative_above_degree`). -/
theorem basis_derivative_table_is_true_derivative (p : ℕ) (U : ℕ → F) (κ : ℕ) (u : F) (d k r : ℕ)
    (hp : p ≤ κ) (hm : Monotone U) (hspan : U κ < U (κ+1)) (hk : k ≤ d) (hr : r ≤ p) :
    ((basisDers p U κ u d).getD k []).getD r 0 = eval u (derivative^[k] (basisSpanPoly p U κ r)) :=
  basisDers_eq_derivative p U κ u d k r hp hm hspan hk hr

/-- Above the degree the derivatives of the basis polynomials are the zero polynomial. -/
theorem basis_polynomial_derivative_above_degree (p : ℕ) (U : ℕ → F) (κ r : ℕ)
    (hp : p ≤ κ) (hm : Monotone U) (hspan : U κ < U (κ+1)) (k : ℕ) (hk : p < k) :
    derivative^[k] (basisSpanPoly p U κ r) = 0 :=
  basisSpanPoly_derivative_above p U κ r hp hm hspan k hk

/-- The span polynomial of a curve is the combination of the basis polynomials of the span with the
    control points as coefficients (so the curve theorem above is about `Σ_r N_r · P_r`). -/
theorem span_polynomial_is_combination_of_basis (p : ℕ) (U : ℕ → F) (P : List (List F)) (κ j : ℕ) (hp : p ≤ κ) :
    spanPoly p U P κ j
      = ∑ r ∈ Finset.range (p+1), C ((ptsGet P (κ - p + r)).getD j 0) * basisSpanPoly p U κ r :=
  spanPoly_eq_sum_basis p U P κ j hp


/-! ### Algorithm A2.3 as coded -/

/-- **A2.3 as coded is the derivative table.**  `basisFunsDersA23` is the statement-by-statement
    transcription of `helpers.basis_function_ders` (the `ndu` table, the alternating rows `a[s1]`, `a[s2]`,
    the `j1 / j2` window, the accumulation of `d`, the final factors `p!/(p-k)!`; compared with the real
    function in exact arithmetic by the stream `bders23`).  For every degree, knot sequence, span index
    `κ ≥ p`, parameter and requested order `d ≤ p` (the guard under which the code does not raise) it
    returns exactly the specification table `basisDers`. -/
theorem a23_as_coded_is_the_derivative_table (p : ℕ) (U : ℕ → F) (κ : ℕ) (u : F) (d : ℕ) (hd : d ≤ p) (hp : p ≤ κ) :
    basisFunsDersA23 p U κ u d = basisDers p U κ u d :=
  basisFunsDersA23_eq_basisDers p U κ u d hd hp

/-- … hence, on a non-empty span of a sorted knot vector, entry `[k][r]` returned by A2.3 is the `k`-th
    derivative of the `r`-th basis polynomial of the span at `u`. -/
theorem a23_as_coded_is_true_derivative (p : ℕ) (U : ℕ → F) (κ : ℕ) (u : F) (d k r : ℕ)
    (hd : d ≤ p) (hp : p ≤ κ) (hm : Monotone U) (hspan : U κ < U (κ+1)) (hk : k ≤ d) (hr : r ≤ p) :
    ((basisFunsDersA23 p U κ u d).getD k []).getD r 0 = eval u (derivative^[k] (basisSpanPoly p U κ r)) :=
  basisFunsDersA23_true p U κ u d k r hd hp hm hspan hk hr

/-- **A2.3 does not divide by zero under the span guard.**  Every divisor in `helpers.basis_function_ders`
    is an entry `ndu[c][a]` with `a < c ≤ p` of the lower triangle of `ndu` (`ndu[j][r]` in the first loop;
    `ndu[pk+1][rk]`, `ndu[pk+1][rk+j]` for `j1 ≤ j ≤ j2`, `ndu[pk+1][r]` in the derivative loop – the `j1 / j2`
    window keeps the column below `pk+1`); on a non-empty span of a sorted knot vector these entries are
    positive, so the totalised division of the model is never used at zero. -/
theorem a23_divisors_positive (p : ℕ) (U : ℕ → F) (κ : ℕ) (u : F) (hm : Monotone U) (hspan : U κ < U (κ+1))
    (c a : ℕ) (hc : c ≤ p) (ha : a < c) : 0 < (nduTable p U κ u).get c a :=
  nduTable_lower_pos p U κ u hm hspan c a hc ha

/-- **A3.2 with A2.3** (`CurveEvaluator.derivatives`: `CK[k] = Σ_r ders[k][r] · P[κ-p+r]`): the sum over the
    table returned by A2.3 as coded is the `k`-th derivative of the span polynomial – the same value
    as the A3.3/A3.4 family (`curve_derivatives_are_true_derivatives`), so both evaluator families agree. -/
theorem a32_with_a23_is_true_derivative (p : ℕ) (U : ℕ → F) (P : List (List F)) (κ : ℕ) (u : F) (d k j : ℕ)
    (hd : d ≤ p) (hp : p ≤ κ) (hm : Monotone U) (hspan : U κ < U (κ+1)) (hk : k ≤ d) :
    ∑ r ∈ Finset.range (p+1),
        ((basisFunsDersA23 p U κ u d).getD k []).getD r 0 * (ptsGet P (κ - p + r)).getD j 0
      = eval u (derivative^[k] (spanPoly p U P κ j)) :=
  a32_sum_true p U P κ u d k j hd hp hm hspan hk

/-! ### surfaces -/

/-- `∂/∂u` of a bivariate polynomial (defined by exchanging the indeterminates around Mathlib's
    derivative) is the coefficientwise derivative: it differentiates every coefficient of `vⁿ`, which is
    a polynomial in `u`.  (`∂/∂v` is Mathlib's `derivative` itself.) -/
theorem partial_u_is_coefficientwise_derivative (S : F[X][Y]) (n : ℕ) :
    (pderivU S).coeff n = derivative (S.coeff n) :=
  coeff_pderivU S n

/-- The bivariate span polynomial `Σ_r Σ_s P[r][s] · N_r(u) · M_s(v)` evaluates to the surface point
    (A3.5 model, order `(0,0)`; ties C02 to C01) at every `(u, v)`. -/
theorem surface_span_polynomial_is_the_surface (pu pv : ℕ) (Uu Uv : ℕ → F) (su sv : ℕ) (P : List (List F))
    (κu κv : ℕ) (u v : F) (d j : ℕ) (hpu : pu ≤ κu) (hpv : pv ≤ κv) (hκu : κu < su) (hκv : κv < sv)
    (hlen : P.length = su * sv) (hP : NetOk d P) :
    (surfacePointAt pu pv Uu Uv sv P κu κv u v).getD j 0
      = (surfSpanPoly pu pv Uu Uv sv P κu κv j).evalEval u v :=
  surfacePointAt_eq_surfSpanPoly pu pv Uu Uv su sv P κu κv u v d j hpu hpv hκu hκv hlen hP

/-- **Surface derivatives of every mixed order are the true partial derivatives.**  Entry `[k][l]`,
    coordinate `j`, of the model of `Surface.derivatives(u, v, order)` equals `∂ᵏ/∂uᵏ ∂ˡ/∂vˡ` of the
    bivariate span polynomial – the polynomial the surface coincides with on the half-open span
    rectangle, so on knot lines these are the derivatives from the right – evaluated at `(u, v)`; both
    sides are zero when `k > pu` or `l > pv`.  For all `k, l ≤ order` with the default evaluator
    (`tri = false`) and for `k + l ≤ order` with `SurfaceEvaluator2` (`tri = true`).  Every degree pair,
    sorted knot vectors, non-empty spans, parameters, dimension, requested order. -/
theorem surface_derivatives_are_true_mixed_derivatives (pu pv : ℕ) (Uu Uv : ℕ → F) (su sv : ℕ)
    (P : List (List F)) (κu κv : ℕ) (u v : F) (d j order k l : ℕ) (tri : Bool)
    (hpu : pu ≤ κu) (hpv : pv ≤ κv) (hκu : κu < su) (hκv : κv < sv) (hlen : P.length = su * sv) (hP : NetOk d P)
    (hmu : Monotone Uu) (hmv : Monotone Uv) (hspu : Uu κu < Uu (κu+1)) (hspv : Uv κv < Uv (κv+1))
    (hk : k ≤ order) (hl : l ≤ order) (htri : tri = false ∨ k + l ≤ order) :
    (((surfaceDersAt pu pv Uu Uv sv P κu κv u v order tri).getD k []).getD l []).getD j 0
      = (pderivU^[k] (pderivV^[l] (surfSpanPoly pu pv Uu Uv sv P κu κv j))).evalEval u v :=
  surfaceDersAt_all pu pv Uu Uv su sv P κu κv u v d j order k l tri hpu hpv hκu hκv hlen hP hmu hmv hspu hspv
    hk hl htri

/-- The order of the two partial differentiations is irrelevant. -/
theorem surface_mixed_derivatives_commute (pu pv : ℕ) (Uu Uv : ℕ → F) (sv : ℕ) (P : List (List F))
    (κu κv j k l : ℕ) :
    pderivV^[l] (pderivU^[k] (surfSpanPoly pu pv Uu Uv sv P κu κv j))
      = pderivU^[k] (pderivV^[l] (surfSpanPoly pu pv Uu Uv sv P κu κv j)) :=
  surfSpanPoly_pderiv_comm pu pv Uu Uv sv P κu κv j k l

/-- With `SurfaceEvaluator2` (`tri = true`) the entries with `k + l > order` are not computed: they
    keep the initial zero vector (stated, not a violation: the book's A3.6/A3.8 fill `k + l ≤ d` only). -/
theorem surface_derivatives_triangular_rest_zero (pu pv : ℕ) (Uu Uv : ℕ → F) (sv : ℕ) (P : List (List F))
    (κu κv : ℕ) (u v : F) (order k l : ℕ) (hk : k ≤ order) (hl : l ≤ order) (hkl : order < k + l) :
    ((surfaceDersAt pu pv Uu Uv sv P κu κv u v order true).getD k []).getD l [] = vzero (dimOf P) :=
  surfaceDersAt_tri_zero pu pv Uu Uv sv P κu κv u v order k l hk hl hkl

/-- **Rational surfaces (A4.4, the list model of `SurfaceEvaluatorRational.derivatives`)**: for any
    table `SKLw` of homogeneous derivative vectors (`d+1` coordinates, the last one the weight part) the
    returned vectors `S⁽ᵃᵇ⁾` solve the bivariate Leibniz system
    `Σ_{i≤k} Σ_{j≤l} C(k,i) C(l,j) · w⁽ⁱʲ⁾ · S⁽ᵏ⁻ⁱ,ˡ⁻ʲ⁾ = A⁽ᵏˡ⁾` for all `k, l ≤ order`, in every coordinate. -/
theorem rational_surface_derivatives_leibniz (SKLw : List (List (List F))) (order d : ℕ)
    (hrows : ∀ i j, i ≤ order → j ≤ order → ((SKLw.getD i []).getD j []).length = d + 1)
    (hw : ((SKLw.getD 0 []).getD 0 []).getD d 0 ≠ 0)
    (k l c : ℕ) (hk : k ≤ order) (hl : l ≤ order) (hc : c < d) :
    ∑ i ∈ Finset.range (k+1), ∑ j ∈ Finset.range (l+1),
      (Nat.choose k i : F) * (Nat.choose l j : F) * ((SKLw.getD i []).getD j []).getD d 0
        * ((((ratSurfaceDers SKLw order).getD (k - i) []).getD (l - j) []).getD c 0)
      = ((SKLw.getD k []).getD l []).getD c 0 :=
  ratSurfaceDers_leibniz SKLw order d hrows hw k l c hk hl hc

/-- The bivariate Leibniz system determines its solution: two tables that satisfy it for all `k ≤ m`,
    `l ≤ n` with the same data and `w⁽⁰⁰⁾ ≠ 0` agree there.  (So the vectors returned by A4.4 are *the*
    derivatives of the quotient `A / w`, which satisfy the system by the product rule.) -/
theorem leibniz_system_has_unique_solution (A w E E' : ℕ → ℕ → F) (hw : w 0 0 ≠ 0) (m n : ℕ)
    (h : ∀ k l, k ≤ m → l ≤ n → ∑ i ∈ Finset.range (k+1), ∑ j ∈ Finset.range (l+1),
      (Nat.choose k i : F) * (Nat.choose l j : F) * w i j * E (k - i) (l - j) = A k l)
    (h' : ∀ k l, k ≤ m → l ≤ n → ∑ i ∈ Finset.range (k+1), ∑ j ∈ Finset.range (l+1),
      (Nat.choose k i : F) * (Nat.choose l j : F) * w i j * E' (k - i) (l - j) = A k l)
    (k l : ℕ) (hk : k ≤ m) (hl : l ≤ n) : E k l = E' k l :=
  leibniz2_unique A w E E' hw m n h h' k l hk hl

/-- **Rational surfaces end to end**: `Surface.derivatives` of a rational surface (model: A4.4 applied
    to the derivative table of the homogeneous surface, default evaluator) returns vectors that solve the
    Leibniz system whose data are the true mixed partial derivatives of the numerator coordinate `A_c` and
    of the weight function `w` (bivariate span polynomials of the homogeneous net), whenever `w(u,v) ≠ 0`. -/
theorem rational_surface_derivatives_leibniz_of_true_derivatives (pu pv : ℕ) (Uu Uv : ℕ → F) (su sv : ℕ)
    (P : List (List F)) (κu κv : ℕ) (u v : F) (d c order k l : ℕ)
    (hpu : pu ≤ κu) (hpv : pv ≤ κv) (hκu : κu < su) (hκv : κv < sv) (hlen : P.length = su * sv)
    (hP : NetOk (d+1) P)
    (hmu : Monotone Uu) (hmv : Monotone Uv) (hspu : Uu κu < Uu (κu+1)) (hspv : Uv κv < Uv (κv+1))
    (hw0 : (surfSpanPoly pu pv Uu Uv sv P κu κv d).evalEval u v ≠ 0)
    (hk : k ≤ order) (hl : l ≤ order) (hc : c < d) :
    ∑ i ∈ Finset.range (k+1), ∑ j ∈ Finset.range (l+1),
      (Nat.choose k i : F) * (Nat.choose l j : F)
        * (pderivU^[i] (pderivV^[j] (surfSpanPoly pu pv Uu Uv sv P κu κv d))).evalEval u v
        * ((((ratSurfaceDers (surfaceDersAt pu pv Uu Uv sv P κu κv u v order false) order).getD (k - i) []).getD
              (l - j) []).getD c 0)
      = (pderivU^[k] (pderivV^[l] (surfSpanPoly pu pv Uu Uv sv P κu κv c))).evalEval u v :=
  ratSurfaceDers_true pu pv Uu Uv su sv P κu κv u v d c order k l hpu hpv hκu hκv hlen hP hmu hmv hspu hspv
    hw0 hk hl hc

/-! ### normal vector and normalisation (`operations.normal`, `operations.tangent`) -/

/-- `operations.normal` is `vector_cross(skl[1][0], skl[0][1])`: for a 3-D surface the cross product of
    the two first partial derivative vectors exists and is orthogonal to both of them. -/
theorem normal_orthogonal_to_tangents (pu pv : ℕ) (Uu Uv : ℕ → F) (su sv : ℕ) (P : List (List F))
    (κu κv : ℕ) (u v : F) (order : ℕ) (tri : Bool)
    (hpu : pu ≤ κu) (hpv : pv ≤ κv) (hκu : κu < su) (hκv : κv < sv) (hlen : P.length = su * sv) (hP : NetOk 3 P)
    (ho : 1 ≤ order) :
    ∃ n, Lin.vectorCross (((surfaceDersAt pu pv Uu Uv sv P κu κv u v order tri).getD 1 []).getD 0 [])
                        (((surfaceDersAt pu pv Uu Uv sv P κu κv u v order tri).getD 0 []).getD 1 []) = some n ∧
      Lin.vectorDot n (((surfaceDersAt pu pv Uu Uv sv P κu κv u v order tri).getD 1 []).getD 0 []) = 0 ∧
      Lin.vectorDot n (((surfaceDersAt pu pv Uu Uv sv P κu κv u v order tri).getD 0 []).getD 1 []) = 0 :=
  surfaceNormal_orthogonal pu pv Uu Uv su sv P κu κv u v order tri hpu hpv hκu hκv hlen hP ho

/-- `vector_normalize` (used by `tangent` / `normal` with `normalize=True`): the result is `v / mag`
    and has squared length exactly 1 whenever the supplied magnitude is a square root of the squared
    length of `v` (the floating-point `sqrt` and the 18-decimals rounding are outside the statement). -/
theorem normalized_vector_has_unit_length (v n : List F) (mag : F)
    (hmag : mag * mag = Lin.normSq v) (h : Lin.vectorNormalize v mag = some n) :
    Lin.normSq n = 1 ∧ 0 < mag ∧ n = v.map (fun x => x / mag) :=
  ⟨Lin.vectorNormalize_unit v n mag hmag h, Lin.vectorNormalize_parallel v n mag h⟩

end ordered

/-! ### the hypotheses are satisfiable: a concrete rational surface

degree `(2, 1)`, knot vectors `[0,0,0,1,1,1]` and `[0,0,1,1]`, a `3 × 2` homogeneous net in dimension `3+1`
with different weights, the parameter pair `(1/3, 1/2)`, requested order 2 (above the `v` degree). -/
section witness
/-- the surface theorem, instantiated (mixed order `(2,1)`, coordinate 2) -/
example :
    (((surfaceDersAt 2 1 exU exV 2 exP 2 1 (1/3) (1/2) 2 false).getD 2 []).getD 1 []).getD 2 0
      = (pderivU^[2] (pderivV^[1] (surfSpanPoly 2 1 exU exV 2 exP 2 1 2))).evalEval (1/3) (1/2) :=
  surface_derivatives_are_true_mixed_derivatives 2 1 exU exV 3 2 exP 2 1 (1/3) (1/2) 4 2 2 2 1 false
    (by omega) (by omega) (by omega) (by omega) rfl exP_ok exU_mono exV_mono (by decide +kernel) (by decide +kernel)
    (by omega) (by omega) (Or.inl rfl)

/-- … whose left-hand side is the non-zero number `12` -/
example : (((surfaceDersAt 2 1 exU exV 2 exP 2 1 (1/3) (1/2) 2 false).getD 2 []).getD 1 []).getD 2 0 = 12 := by
  decide +kernel

/-- the rational end-to-end theorem, instantiated (`k = 2`, `l = 1`, coordinate 1) -/
example :
    ∑ i ∈ Finset.range (2+1), ∑ j ∈ Finset.range (1+1),
      (Nat.choose 2 i : ℚ) * (Nat.choose 1 j : ℚ)
        * (pderivU^[i] (pderivV^[j] (surfSpanPoly 2 1 exU exV 2 exP 2 1 3))).evalEval (1/3) (1/2)
        * ((((ratSurfaceDers (surfaceDersAt 2 1 exU exV 2 exP 2 1 (1/3) (1/2) 2 false) 2).getD (2 - i) []).getD
              (1 - j) []).getD 1 0)
      = (pderivU^[2] (pderivV^[1] (surfSpanPoly 2 1 exU exV 2 exP 2 1 1))).evalEval (1/3) (1/2) :=
  rational_surface_derivatives_leibniz_of_true_derivatives 2 1 exU exV 3 2 exP 2 1 (1/3) (1/2) 3 1 2 2 1
    (by omega) (by omega) (by omega) (by omega) rfl exP_ok exU_mono exV_mono (by decide +kernel) (by decide +kernel)
    ex_weight (by omega) (by omega) (by omega)

/-- the basis table theorem, instantiated -/
example : ((basisDers 2 exU 2 (1/3) 2).getD 1 []).getD 0 0 = eval (1/3) (derivative^[1] (basisSpanPoly 2 exU 2 0)) :=
  basis_derivative_table_is_true_derivative 2 exU 2 (1/3) 2 1 0 (by omega) exU_mono (by decide +kernel) (by omega)
    (by omega)

/-- A2.3 as coded on the witness knot vector: second derivatives of the three quadratic basis functions -/
example : (basisFunsDersA23 2 exU 2 (1/3) 2).getD 2 [] = [2, -4, 2] := by decide +kernel

/-- normalisation: `[3, 4]` with magnitude `5` -/
example : Lin.normSq ([3/5, 4/5] : List ℚ) = 1 :=
  (normalized_vector_has_unit_length [3, 4] [3/5, 4/5] 5 (by decide +kernel) (by decide +kernel)).1
end witness


/-- A3.3/A3.4 for the first derivative: the derivative of the span polynomial (de Boor scheme with
    the indeterminate as parameter) evaluated at `u` is `p` times the degree `p-1` evaluation of the
    scaled control-point differences `(P m - P (m-1)) / (U (m+p) - U m)` on the same span. -/
theorem span_polynomial_derivative (t : ℕ → K) (κ p : ℕ) (hsep : Sep t κ) (hp : p ≤ κ) (P : ℕ → K) (u : K) :
    eval u (derivative (polP t p p (fun j => C (P j)) κ))
      = (p : K) * polar t (p-1) (List.replicate (p-1) u)
          (fun m => (P m - P (m-1)) / (t (m+p) - t m)) κ :=
  curve_derivative t κ p hsep hp P u

/-- A4.2: the rational derivatives solve the Leibniz system `Σ_i C(k,i) w⁽ⁱ⁾ C⁽ᵏ⁻ⁱ⁾ = A⁽ᵏ⁾`
    (quotient rule of every order) whenever the weight function does not vanish. -/
theorem rational_derivatives_leibniz (A w : ℕ → K) (hw : w 0 ≠ 0) (k : ℕ) :
    ∑ i ∈ Finset.range (k+1), (Nat.choose k i : K) * w i * ratDers A w (k - i) = A k :=
  ratDers_leibniz A w hw k

end C02
