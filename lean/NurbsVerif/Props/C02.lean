import NurbsVerif.Model.Eval
import NurbsVerif.Lemmas.Deriv
import NurbsVerif.Lemmas.Small

/-!
# C02  Derivatives returned are the true derivatives of the shape  (statements so far)
-/
namespace C02
open Geomdl Blossom Polynomial
variable {K : Type} [Field K]

/-- A3.3/A3.4 for the first derivative: the derivative of the span polynomial (de Boor scheme with
    the indeterminate as parameter) evaluated at `u` is `p` times the degree `p-1` evaluation of the
    scaled control-point differences `(P m - P (m-1)) / (U (m+p) - U m)` on the same span. -/
theorem span_polynomial_derivative (t : ℕ → K) (κ p : ℕ) (hsep : Sep t κ) (hp : p ≤ κ) (P : ℕ → K) (u : K) :
    eval u (derivative (polP t p p (fun j => C (P j)) κ))
      = (p : K) * polar t (p-1) (List.replicate (p-1) u)
          (fun m => (P m - P (m-1)) / (t (m+p) - t m)) κ :=
  curve_derivative t κ p hsep hp P u

/-- A4.2: the rational derivatives solve the Leibniz system `Σ_i C(k,i) w⁽ⁱ⁾ C⁽ᵏ⁻ⁱ⁾ = A⁽ᵏ⁾`
    (quotient rule of every order) whenever the weight function does not vanish. -/
theorem rational_derivatives_leibniz (A w : ℕ → K) (hw : w 0 ≠ 0) (k : ℕ) :
    ∑ i ∈ Finset.range (k+1), (Nat.choose k i : K) * w i * ratDers A w (k - i) = A k :=
  ratDers_leibniz A w hw k

end C02
