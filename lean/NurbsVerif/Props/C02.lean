import NurbsVerif.Model.Eval
import NurbsVerif.Lemmas.Deriv
import NurbsVerif.Lemmas.Small
import NurbsVerif.Lemmas.DerivAll
import NurbsVerif.Lemmas.RatDers
import NurbsVerif.Lemmas.SurfDerivBasis
import NurbsVerif.Lemmas.SurfDerivPoly
import NurbsVerif.Lemmas.SurfDeriv
import NurbsVerif.Lemmas.RatSurfDers
import NurbsVerif.Lemmas.RatSurfDersModel
import NurbsVerif.Lemmas.SurfDerivRat
import NurbsVerif.Lemmas.SurfDerivWitness
import NurbsVerif.Lemmas.A23Final
import NurbsVerif.Lemmas.SurfLoopsTrue
import NurbsVerif.Lemmas.Hodograph
import NurbsVerif.Lemmas.HodographTangent
import NurbsVerif.Lemmas.HodographSurfAll
import NurbsVerif.Lemmas.HodographWitness
import NurbsVerif.Lemmas.RatCurveTrue
import NurbsVerif.Lemmas.RatSurfTrue
import NurbsVerif.Lemmas.UniqueLocal
import NurbsVerif.Lemmas.HodographObject
import NurbsVerif.Lemmas.DersOnDomain
import NurbsVerif.Lemmas.RatTangent
import NurbsVerif.Lemmas.RatTangentNorm
import NurbsVerif.Lemmas.NormalizeAnyMag
import NurbsVerif.Lemmas.RatTangentReal
import NurbsVerif.Lemmas.RatTangentWitness
import NurbsVerif.Lemmas.SpanRDers
import NurbsVerif.Lemmas.SpanRDersA38
import NurbsVerif.Lemmas.SpanRTangent

/-!
# C02  Derivatives returned are the true derivatives of the shape  (statements so far)

Curves: every order (`curve_derivatives_are_true_derivatives`), A4.2 (`rational_curve_derivatives_leibniz` for an
arbitrary table; end to end for a NURBS curve with positive weights, through the span search, on the closed domain:
`rational_curve_derivatives_leibniz_of_true_derivatives`, at a given span `…_at_span`).
Basis table: `basis_derivative_table_is_true_derivative`; A2.3 transcribed statement by statement returns that
table (`a23_as_coded_is_the_derivative_table`, `a23_divisors_positive`), A3.2 over it is the true derivative
(`a32_with_a23_is_true_derivative`).
Surfaces: every mixed order (`surface_derivatives_are_true_mixed_derivatives`; the bivariate span polynomial
lives in Mathlib's `F[X][Y]`, inner indeterminate = `u`, outer = `v`), A4.4
(`rational_surface_derivatives_leibniz`, `…_of_true_derivatives` at a given span pair, `…_on_domain` through the span
search with positive weights, uniqueness of the solution).
Normal / normalisation: `normal_orthogonal_to_tangents`, `normalized_vector_has_unit_length`.
Evaluators as coded (loop by loop; models of `Model/SurfDersLoops.lean`, each compared with the real function by its
own stream): A3.2 `a32_as_coded_is_true_derivative`; A3.6 `a36_as_coded_is_the_tensor_formula`,
`a36_as_coded_is_true_mixed_derivative`, `rational_surface_derivatives_as_coded_leibniz`; A3.7 `a37_as_coded_assigns_what_a38_reads`; A3.7 + A3.8
`a38_as_coded_is_the_triangular_table`, `a38_as_coded_is_true_mixed_derivative`, `a38_as_coded_rest_zero`.
… through the span search on the closed domain (what the ops `cders32`, `sders36`, `tanc`, `tans`, `nrms` run):
`a32_as_coded_on_domain`, `a36_as_coded_on_domain`, `rational_curve_derivatives_as_coded_leibniz` (A3.2 as coded + A4.2,
the default NURBS curve evaluator), `rational_surface_derivatives_as_coded_on_domain`.
Hodographs (`Model/Hodograph.lean`; hypotheses = the guards of the driver ops: degree ≥ 2, no `ZeroDivisionError`):
data handed to the setters `hodograph_curve_is_first_derivative`, `hodograph_curve_span_is_shifted`,
`hodograph_curve_evaluated_is_first_derivative`, `hodograph_surfaces_are_partial_derivatives`,
`hodograph_surfaces_evaluated_are_partial_derivatives`; the OBJECTS the constructors return (knot vectors after the
normalising setter): `hodograph_curve_object_is_first_derivative`, `hodograph_surface_objects_are_partial_derivatives`
(same parameter, when `U[1:-1]` spans `[0,1]`), `hodograph_curve_object_reparametrised`,
`hodograph_surface_objects_reparametrised` (any knot vector: the derivative at the affinely mapped parameter – at the
SAME parameter the object is not the derivative, finding F-02c).  Tangent / normal:
`tangent_curve_is_point_and_first_derivative`, `tangent_surface_is_point_and_partials`,
`normal_surface_is_cross_product_of_partials` (non-rational, at a given span), `tangent_curve_on_domain`,
`tangent_rational_curve_on_domain`, `tangent_surface_on_domain`, `normal_surface_on_domain` (through the span search).
Rational tangent / normal (ops `tanc 1`, `tans 1`, `nrms 1`): `rational_tangent_is_quotient_rule`,
`tangent_rational_surface_on_domain`, `rational_surface_tangent_is_quotient_rule`, `normal_rational_surface_on_domain`;
the quotient-rule expression is the derivative (`quotient_rule_solves_leibniz_equations`,
`quotient_rule_is_polynomial_derivative_when_divisible`; over `ℝ` with Mathlib's `HasDerivAt`:
`rational_tangent_is_derivative_of_quotient_real`, `rational_surface_tangents_are_partial_derivatives_of_quotient_real`).
`normalize=True` (models `tangentCurveN`, `tangentSurfaceN`, `normalSurfaceN` with the magnitudes as inputs; ops `tancn`,
`tansn`, `nrmsn`): `normalized_vector_is_unit_positive_multiple`, `normalize_refuses_exactly_the_zero_vector`,
`tangent_curve_normalized`, `tangent_surface_normalized`, `normal_surface_normalized` (+ `…_refused_iff_…`), end to end
for rational shapes `normalized_tangent_rational_curve_on_domain`, `normalized_tangent_rational_surface_on_domain`,
`normalized_normal_rational_surface_on_domain`; for the magnitude the ops really receive (any `m > 0`, e.g. the double):
`normalized_vector_any_positive_magnitude`, `normalized_vector_unit_up_to_magnitude_bound`,
`tangent_curve_normalized_any_positive_magnitude`; the model's own point function over `ℝ` inside a span:
`rational_curve_point_function_hasDerivAt_inside_span`.
Scope of the bundles (statement audit 5, K4): `CurveWF` / `KnotsOk` have no `1 ≤ p` and the dimension index only needs
`j < d`, so the `…_on_domain` / quotient-rule statements also hold (of the model) for degree 0 and for 1-D "curves"; the
library cannot build such objects (degree 0 means "unset": `ValueError: Please set … degree`; "A curve should be at least
2-dimensional") and the driver ops answer ERR for `p = 0`.  All rational statements assume POSITIVE weights: with
weights of mixed sign the weight function can vanish in the domain, the code raises `ZeroDivisionError` and the ops
answer ERR (`Drv.cWZero` / `sWZero`).
Derivatives on the span the REPAIRED search finds (F-01b; models `curveDersR`, `curveDersA32R`, `surfaceDersR`,
`surfaceDersA36R` of `Model/SpanRGrid.lean`; ops `cdersr`, `cders32r`, `sdersr`, `sders36r`), every sorted knot vector with
`U_p < U_n` – EMPTY last domain span allowed –, whole closed domain: `curve_derivatives_repaired_on_domain`,
`a32_as_coded_repaired_on_domain`, `curve_derivatives_repaired_at_domain_end` (left-hand derivatives at `U_n`),
`rational_curve_derivatives_repaired_leibniz`, `surface_derivatives_repaired_on_domain`,
`rational_surface_derivatives_repaired_on_domain`, `derivatives_repaired_eq_derivatives` (= the tables above under
`KnotsOk`), witness `curve_derivatives_repaired_witness_F01b`.
-/
namespace C02
open Geomdl Blossom Polynomial
open scoped Polynomial.Bivariate
variable {K : Type} [Field K]

section ordered
variable {F : Type} [Field F] [LinearOrder F] [IsStrictOrderedRing F]

/-- **Curve derivatives of every order are the true derivatives.**  Entry `k` of the model of
    `Curve.derivatives(u, order)` (A3.3 control points + A3.4 evaluation; the default A3.2/A2.3
    evaluator and the alternative one are both tied to this model by the exact correspondence) equals
    the `k`-th derivative (Mathlib's `Polynomial.derivative`, iterated) of the span polynomial –
    the polynomial the curve coincides with on the half-open span, so at a knot this is the derivative
    from the right – evaluated at `u`; for `k` above the degree both sides are zero.  Every degree,
    sorted knot vector, non-empty span, parameter, dimension, requested order. -/
theorem curve_derivatives_are_true_derivatives (p : ℕ) (U : ℕ → F) (P : List (List F)) (κ : ℕ) (u : F)
    (d j order k : ℕ) (hp : p ≤ κ) (hκ : κ < P.length) (hP : NetOk d P)
    (hm : Monotone U) (hspan : U κ < U (κ+1)) (hk : k ≤ order) :
    ((curveDersAt p U P κ u order).getD k []).getD j 0 = eval u (derivative^[k] (spanPoly p U P κ j)) :=
  curveDersAt_all p U P κ u d j order k hp hκ hP hm hspan hk

/-- … and the span polynomial evaluates to the curve point (order 0 ties C02 to C01). -/
theorem span_polynomial_is_the_curve (p : ℕ) (U : ℕ → F) (P : List (List F)) (κ : ℕ) (u : F) (d j : ℕ)
    (hp : p ≤ κ) (hκ : κ < P.length) (hP : NetOk d P) :
    (curvePointAt p U P κ u).getD j 0 = eval u (spanPoly p U P κ j) := by
  rw [curvePointAt_wsum p U P κ u d j hp hκ hP, diag U κ u p hp]
  unfold spanPoly
  rw [eval_polP]
  simp only [eval_C]

/-- **The span polynomial determines the active control points** (local uniqueness of B-spline coefficients):
    on a non-empty span `κ` of a sorted knot function, two control nets with the same span polynomial in
    coordinate `j` have the same `j`-th coordinate at each of the `p + 1` control points `κ - p .. κ` that are
    active there.  (Induction on the degree: the derivative of the span polynomial is the span polynomial of
    the scaled differences on the same span, `span_polynomial_derivative`.) -/
theorem span_polynomial_determines_control_points (p : ℕ) (U : ℕ → F) (P P' : List (List F)) (κ j : ℕ)
    (hm : Monotone U) (hspan : U κ < U (κ+1)) (hp : p ≤ κ) (h : spanPoly p U P κ j = spanPoly p U P' κ j)
    (r : ℕ) (hr : r ≤ p) : (ptsGet P (κ - p + r)).getD j 0 = (ptsGet P' (κ - p + r)).getD j 0 :=
  spanPoly_inj p U P P' κ j hm hspan hp h (κ - p + r) (by omega) (by omega)

/-- … and the evaluated points on a non-empty span determine the span polynomial (a polynomial with
    infinitely many zeros vanishes), hence the `p + 1` active control POINTS. -/
theorem span_points_determine_control_points (p : ℕ) (U : ℕ → F) (P P' : List (List F)) (κ d : ℕ)
    (hm : Monotone U) (hspan : U κ < U (κ+1)) (hp : p ≤ κ) (hκ : κ < P.length) (hκ' : κ < P'.length)
    (hP : NetOk d P) (hP' : NetOk d P')
    (h : ∀ u, U κ ≤ u → u < U (κ+1) → ∀ j, (curvePointAt p U P κ u).getD j 0 = (curvePointAt p U P' κ u).getD j 0) :
    (∀ j, spanPoly p U P κ j = spanPoly p U P' κ j) ∧ ∀ r, r ≤ p → ptsGet P (κ - p + r) = ptsGet P' (κ - p + r) :=
  ⟨fun j => spanPoly_eq_of_points p U P P' κ d j hspan hp hκ hκ' hP hP' (fun u h1 h2 => h u h1 h2 j),
   fun r hr => active_points_eq_of_points p U P P' κ d hm hspan hp hκ hκ' hP hP' h r hr⟩

/-- non-vacuity: a quadratic span and the two nets `[[0],[1],[3]]`, `[[0],[1],[4]]` – the span polynomials
    differ (`x ↦ 2x + x²` against `2x + 2x²`; values at `1/2`) -/
example : (curvePointAt 2 (fnOf ([0,0,0,1,1,1] : List ℚ)) [[0],[1],[3]] 2 (1/2)) = [5/4] ∧
    (curvePointAt 2 (fnOf ([0,0,0,1,1,1] : List ℚ)) [[0],[1],[4]] 2 (1/2)) = [3/2] := by decide +kernel

/-- **Rational curves (A4.2, the list model of `CurveEvaluatorRational.derivatives`)**: the returned
    vectors `C⁽⁰⁾ … C⁽ⁿ⁾` solve the Leibniz system `Σ_i C(k,i) · w⁽ⁱ⁾ · C⁽ᵏ⁻ⁱ⁾ = A⁽ᵏ⁾` of every order `k`, in
    every coordinate, where `A⁽ᵏ⁾`, `w⁽ᵏ⁾` are the derivatives of the homogeneous curve (which are the
    true derivatives by the theorem above): i.e. they are the derivatives of the quotient `A / w`
    (the system has exactly one solution when `w⁽⁰⁾ ≠ 0`). -/
theorem rational_curve_derivatives_leibniz (CKw : List (List F)) (d : ℕ) (hrows : ∀ r ∈ CKw, r.length = d + 1)
    (hw : (CKw.getD 0 []).getD d 0 ≠ 0) (k j : ℕ) (hk : k < CKw.length) (hj : j < d) :
    ∑ i ∈ Finset.range (k+1), (Nat.choose k i : F) * (CKw.getD i []).getD d 0 * ((ratCurveDers CKw).getD (k - i) []).getD j 0
      = (CKw.getD k []).getD j 0 :=
  ratCurveDers_leibniz CKw d hrows hw k j hk hj

/-- **Rational curves at a given span, data = true derivatives**: A4.2 applied to the derivative table
    `curveDersAt` of the homogeneous curve (net of `d+1` coordinates, the last one the weight) – the row-length
    hypothesis of the theorem above is discharged from `NetOk`, the data of the Leibniz system are the true derivatives
    of the weight polynomial `w = spanPoly … d` and of the numerator coordinate `A_j = spanPoly … j`; the only
    remaining hypothesis is `w(u) ≠ 0`. -/
theorem rational_curve_derivatives_leibniz_at_span (p : ℕ) (U : ℕ → F) (Pw : List (List F)) (κ : ℕ) (u : F)
    (d order k j : ℕ) (hp : p ≤ κ) (hκ : κ < Pw.length) (hP : NetOk (d+1) Pw) (hm : Monotone U)
    (hspan : U κ < U (κ+1)) (hw0 : eval u (spanPoly p U Pw κ d) ≠ 0) (hk : k ≤ order) (hj : j < d) :
    ∑ i ∈ Finset.range (k+1), (Nat.choose k i : F) * eval u (derivative^[i] (spanPoly p U Pw κ d))
        * ((ratCurveDers (curveDersAt p U Pw κ u order)).getD (k - i) []).getD j 0
      = eval u (derivative^[k] (spanPoly p U Pw κ j)) :=
  ratCurveDersAt_true p U Pw κ u d order k j hp hκ hP hm hspan hw0 hk hj

/-- **Rational curves end to end**: for a well-formed NURBS curve (`CurveWF`: sorted knots, `len(U) = n+p+1`,
    homogeneous control points of `d+1` coordinates, non-degenerate last span) with positive weights and EVERY
    parameter of the closed domain `[U_p, U_n]`, with `κ` the span `find_span_linear` returns: the weight polynomial
    of that span is positive at `u`, and the vectors `C⁽⁰⁾ … C⁽ᵒʳᵈᵉʳ⁾` that `Curve.derivatives(u, order)` returns
    (model: A4.2 applied to `curveDers`, the homogeneous derivatives computed on the span found) solve the Leibniz
    system `Σ_i C(k,i) · w⁽ⁱ⁾(u) · C⁽ᵏ⁻ⁱ⁾ = A_j⁽ᵏ⁾(u)` whose data are the true derivatives of the span polynomials.
    By uniqueness of the solution (`w(u) ≠ 0`) they are the derivatives of the quotient `A_j / w`; at a knot, from
    the right; at the right end `u = U_n` (span `n-1`, closed on the right), from the left.  No hypothesis on the
    table (row lengths, weight) is left: both follow from well-formedness and C01's weight positivity. -/
theorem rational_curve_derivatives_leibniz_of_true_derivatives (p d : ℕ) (Ul : List F) (Pw : List (List F))
    (hC : CurveWF p (d+1) Ul Pw) (hwt : ∀ i, i < Pw.length → 0 < (ptsGet Pw i).getD d 0) (u : F)
    (h1 : fnOf Ul p ≤ u) (h2 : u ≤ fnOf Ul Pw.length) (order k j : ℕ) (hk : k ≤ order) (hj : j < d) :
    0 < eval u (spanPoly p (fnOf Ul) Pw (findSpanLinear p (fnOf Ul) Pw.length u) d) ∧
    ∑ i ∈ Finset.range (k+1), (Nat.choose k i : F)
        * eval u (derivative^[i] (spanPoly p (fnOf Ul) Pw (findSpanLinear p (fnOf Ul) Pw.length u) d))
        * ((ratCurveDers (curveDers p (fnOf Ul) Pw u order)).getD (k - i) []).getD j 0
      = eval u (derivative^[k] (spanPoly p (fnOf Ul) Pw (findSpanLinear p (fnOf Ul) Pw.length u) j)) :=
  ratCurveDers_domain p d Ul Pw hC hwt u h1 h2 order k j hk hj


/-! ### the derivative table of the basis functions -/

/-- The `r`-th basis polynomial of a span (the span polynomial of the unit control sequence) takes
    the value that A2.2 (`basis_function`) returns, at every parameter. -/
theorem basis_polynomial_is_basis_function (p : ℕ) (U : ℕ → F) (κ : ℕ) (u : F) (r : ℕ) (hp : p ≤ κ) (hr : r ≤ p) :
    eval u (basisSpanPoly p U κ r) = (basisFuns p U κ u).getD r 0 :=
  eval_basisSpanPoly p U κ u r hp hr

/-- **Basis function derivatives.**  Row `k`, column `r` of the table `basisDers` (the specification
    that `helpers.basis_function_ders`, A2.3, is compared with in exact arithmetic) is the `k`-th derivative
    of the `r`-th basis polynomial of the span at `u`, for every `k ≤ d` – in particular zero for `k > p`
    (`basis_polynomial_derivative_above_degree`). -/
theorem basis_derivative_table_is_true_derivative (p : ℕ) (U : ℕ → F) (κ : ℕ) (u : F) (d k r : ℕ)
    (hp : p ≤ κ) (hm : Monotone U) (hspan : U κ < U (κ+1)) (hk : k ≤ d) (hr : r ≤ p) :
    ((basisDers p U κ u d).getD k []).getD r 0 = eval u (derivative^[k] (basisSpanPoly p U κ r)) :=
  basisDers_eq_derivative p U κ u d k r hp hm hspan hk hr

/-- Above the degree the derivatives of the basis polynomials are the zero polynomial. -/
theorem basis_polynomial_derivative_above_degree (p : ℕ) (U : ℕ → F) (κ r : ℕ)
    (hp : p ≤ κ) (hm : Monotone U) (hspan : U κ < U (κ+1)) (k : ℕ) (hk : p < k) :
    derivative^[k] (basisSpanPoly p U κ r) = 0 :=
  basisSpanPoly_derivative_above p U κ r hp hm hspan k hk

/-- The span polynomial of a curve is the combination of the basis polynomials of the span with the
    control points as coefficients (so the curve theorem above is about `Σ_r N_r · P_r`). -/
theorem span_polynomial_is_combination_of_basis (p : ℕ) (U : ℕ → F) (P : List (List F)) (κ j : ℕ) (hp : p ≤ κ) :
    spanPoly p U P κ j
      = ∑ r ∈ Finset.range (p+1), C ((ptsGet P (κ - p + r)).getD j 0) * basisSpanPoly p U κ r :=
  spanPoly_eq_sum_basis p U P κ j hp


/-! ### Algorithm A2.3 as coded -/

/-- **A2.3 as coded is the derivative table.**  `basisFunsDersA23` is the statement-by-statement
    transcription of `helpers.basis_function_ders` (the `ndu` table, the alternating rows `a[s1]`, `a[s2]`,
    the `j1 / j2` window, the accumulation of `d`, the final factors `p!/(p-k)!`; compared with the real
    function in exact arithmetic by the stream `bders23`).  For every degree, knot sequence, span index
    `κ ≥ p`, parameter and requested order `d ≤ p` (the guard under which the code does not raise) it
    returns exactly the specification table `basisDers`. -/
theorem a23_as_coded_is_the_derivative_table (p : ℕ) (U : ℕ → F) (κ : ℕ) (u : F) (d : ℕ) (hd : d ≤ p) (hp : p ≤ κ) :
    basisFunsDersA23 p U κ u d = basisDers p U κ u d :=
  basisFunsDersA23_eq_basisDers p U κ u d hd hp

/-- … hence, on a non-empty span of a sorted knot vector, entry `[k][r]` returned by A2.3 is the `k`-th
    derivative of the `r`-th basis polynomial of the span at `u`. -/
theorem a23_as_coded_is_true_derivative (p : ℕ) (U : ℕ → F) (κ : ℕ) (u : F) (d k r : ℕ)
    (hd : d ≤ p) (hp : p ≤ κ) (hm : Monotone U) (hspan : U κ < U (κ+1)) (hk : k ≤ d) (hr : r ≤ p) :
    ((basisFunsDersA23 p U κ u d).getD k []).getD r 0 = eval u (derivative^[k] (basisSpanPoly p U κ r)) :=
  basisFunsDersA23_true p U κ u d k r hd hp hm hspan hk hr

/-- **A2.3 does not divide by zero under the span guard.**  Every divisor in `helpers.basis_function_ders`
    is an entry `ndu[c][a]` with `a < c ≤ p` of the lower triangle of `ndu` (`ndu[j][r]` in the first loop;
    `ndu[pk+1][rk]`, `ndu[pk+1][rk+j]` for `j1 ≤ j ≤ j2`, `ndu[pk+1][r]` in the derivative loop – the `j1 / j2`
    window keeps the column below `pk+1`); on a non-empty span of a sorted knot vector these entries are
    positive, so the totalised division of the model is never used at zero. -/
theorem a23_divisors_positive (p : ℕ) (U : ℕ → F) (κ : ℕ) (u : F) (hm : Monotone U) (hspan : U κ < U (κ+1))
    (c a : ℕ) (hc : c ≤ p) (ha : a < c) : 0 < (nduTable p U κ u).get c a :=
  nduTable_lower_pos p U κ u hm hspan c a hc ha

/-- **A3.2 with A2.3** (`CurveEvaluator.derivatives`: `CK[k] = Σ_r ders[k][r] · P[κ-p+r]`): the sum over the
    table returned by A2.3 as coded is the `k`-th derivative of the span polynomial – the same value
    as the A3.3/A3.4 family (`curve_derivatives_are_true_derivatives`), so both CURVE evaluator families agree for
    every `k ≤ d ≤ p` (for surfaces A3.6 and A3.8 agree only on `k + l ≤ order`: `a38_as_coded_rest_zero`). -/
theorem a32_with_a23_is_true_derivative (p : ℕ) (U : ℕ → F) (P : List (List F)) (κ : ℕ) (u : F) (d k j : ℕ)
    (hd : d ≤ p) (hp : p ≤ κ) (hm : Monotone U) (hspan : U κ < U (κ+1)) (hk : k ≤ d) :
    ∑ r ∈ Finset.range (p+1),
        ((basisFunsDersA23 p U κ u d).getD k []).getD r 0 * (ptsGet P (κ - p + r)).getD j 0
      = eval u (derivative^[k] (spanPoly p U P κ j)) :=
  a32_sum_true p U P κ u d k j hd hp hm hspan hk

/-! ### surfaces -/

/-- `∂/∂u` of a bivariate polynomial (defined by exchanging the indeterminates around Mathlib's
    derivative) is the coefficientwise derivative: it differentiates every coefficient of `vⁿ`, which is
    a polynomial in `u`.  (`∂/∂v` is Mathlib's `derivative` itself.) -/
theorem partial_u_is_coefficientwise_derivative (S : F[X][Y]) (n : ℕ) :
    (pderivU S).coeff n = derivative (S.coeff n) :=
  coeff_pderivU S n

/-- The bivariate span polynomial `Σ_r Σ_s P[r][s] · N_r(u) · M_s(v)` evaluates to the surface point
    (A3.5 model, order `(0,0)`; ties C02 to C01) at every `(u, v)`. -/
theorem surface_span_polynomial_is_the_surface (pu pv : ℕ) (Uu Uv : ℕ → F) (su sv : ℕ) (P : List (List F))
    (κu κv : ℕ) (u v : F) (d j : ℕ) (hpu : pu ≤ κu) (hpv : pv ≤ κv) (hκu : κu < su) (hκv : κv < sv)
    (hlen : P.length = su * sv) (hP : NetOk d P) :
    (surfacePointAt pu pv Uu Uv sv P κu κv u v).getD j 0
      = (surfSpanPoly pu pv Uu Uv sv P κu κv j).evalEval u v :=
  surfacePointAt_eq_surfSpanPoly pu pv Uu Uv su sv P κu κv u v d j hpu hpv hκu hκv hlen hP

/-- **Surface derivatives of every mixed order are the true partial derivatives.**  Entry `[k][l]`,
    coordinate `j`, of the model of `Surface.derivatives(u, v, order)` equals `∂ᵏ/∂uᵏ ∂ˡ/∂vˡ` of the
    bivariate span polynomial – the polynomial the surface coincides with on the half-open span
    rectangle, so on knot lines these are the derivatives from the right – evaluated at `(u, v)`; both
    sides are zero when `k > pu` or `l > pv`.  For all `k, l ≤ order` with the default evaluator
    (`tri = false`) and for `k + l ≤ order` with `SurfaceEvaluator2` (`tri = true`).  Every degree pair,
    sorted knot vectors, non-empty spans, parameters, dimension, requested order. -/
theorem surface_derivatives_are_true_mixed_derivatives (pu pv : ℕ) (Uu Uv : ℕ → F) (su sv : ℕ)
    (P : List (List F)) (κu κv : ℕ) (u v : F) (d j order k l : ℕ) (tri : Bool)
    (hpu : pu ≤ κu) (hpv : pv ≤ κv) (hκu : κu < su) (hκv : κv < sv) (hlen : P.length = su * sv) (hP : NetOk d P)
    (hmu : Monotone Uu) (hmv : Monotone Uv) (hspu : Uu κu < Uu (κu+1)) (hspv : Uv κv < Uv (κv+1))
    (hk : k ≤ order) (hl : l ≤ order) (htri : tri = false ∨ k + l ≤ order) :
    (((surfaceDersAt pu pv Uu Uv sv P κu κv u v order tri).getD k []).getD l []).getD j 0
      = (pderivU^[k] (pderivV^[l] (surfSpanPoly pu pv Uu Uv sv P κu κv j))).evalEval u v :=
  surfaceDersAt_all pu pv Uu Uv su sv P κu κv u v d j order k l tri hpu hpv hκu hκv hlen hP hmu hmv hspu hspv
    hk hl htri

/-- The order of the two partial differentiations is irrelevant. -/
theorem surface_mixed_derivatives_commute (pu pv : ℕ) (Uu Uv : ℕ → F) (sv : ℕ) (P : List (List F))
    (κu κv j k l : ℕ) :
    pderivV^[l] (pderivU^[k] (surfSpanPoly pu pv Uu Uv sv P κu κv j))
      = pderivU^[k] (pderivV^[l] (surfSpanPoly pu pv Uu Uv sv P κu κv j)) :=
  surfSpanPoly_pderiv_comm pu pv Uu Uv sv P κu κv j k l

/-- With `SurfaceEvaluator2` (`tri = true`) the entries with `k + l > order` are not computed: they
    keep the initial zero vector (stated, not a violation: the book's A3.6/A3.8 fill `k + l ≤ d` only). -/
theorem surface_derivatives_triangular_rest_zero (pu pv : ℕ) (Uu Uv : ℕ → F) (sv : ℕ) (P : List (List F))
    (κu κv : ℕ) (u v : F) (order k l : ℕ) (hk : k ≤ order) (hl : l ≤ order) (hkl : order < k + l) :
    ((surfaceDersAt pu pv Uu Uv sv P κu κv u v order true).getD k []).getD l [] = vzero (dimOf P) :=
  surfaceDersAt_tri_zero pu pv Uu Uv sv P κu κv u v order k l hk hl hkl

/-- **Rational surfaces (A4.4, the list model of `SurfaceEvaluatorRational.derivatives`)**: for any
    table `SKLw` of homogeneous derivative vectors (`d+1` coordinates, the last one the weight part) the
    returned vectors `S⁽ᵃᵇ⁾` solve the bivariate Leibniz system
    `Σ_{i≤k} Σ_{j≤l} C(k,i) C(l,j) · w⁽ⁱʲ⁾ · S⁽ᵏ⁻ⁱ,ˡ⁻ʲ⁾ = A⁽ᵏˡ⁾` for all `k, l ≤ order`, in every coordinate. -/
theorem rational_surface_derivatives_leibniz (SKLw : List (List (List F))) (order d : ℕ)
    (hrows : ∀ i j, i ≤ order → j ≤ order → ((SKLw.getD i []).getD j []).length = d + 1)
    (hw : ((SKLw.getD 0 []).getD 0 []).getD d 0 ≠ 0)
    (k l c : ℕ) (hk : k ≤ order) (hl : l ≤ order) (hc : c < d) :
    ∑ i ∈ Finset.range (k+1), ∑ j ∈ Finset.range (l+1),
      (Nat.choose k i : F) * (Nat.choose l j : F) * ((SKLw.getD i []).getD j []).getD d 0
        * ((((ratSurfaceDers SKLw order).getD (k - i) []).getD (l - j) []).getD c 0)
      = ((SKLw.getD k []).getD l []).getD c 0 :=
  ratSurfaceDers_leibniz SKLw order d hrows hw k l c hk hl hc

/-- The bivariate Leibniz system determines its solution: two tables that satisfy it for all `k ≤ m`,
    `l ≤ n` with the same data and `w⁽⁰⁰⁾ ≠ 0` agree there.  (So the vectors returned by A4.4 are *the*
    derivatives of the quotient `A / w`, which satisfy the system by the product rule.) -/
theorem leibniz_system_has_unique_solution (A w E E' : ℕ → ℕ → F) (hw : w 0 0 ≠ 0) (m n : ℕ)
    (h : ∀ k l, k ≤ m → l ≤ n → ∑ i ∈ Finset.range (k+1), ∑ j ∈ Finset.range (l+1),
      (Nat.choose k i : F) * (Nat.choose l j : F) * w i j * E (k - i) (l - j) = A k l)
    (h' : ∀ k l, k ≤ m → l ≤ n → ∑ i ∈ Finset.range (k+1), ∑ j ∈ Finset.range (l+1),
      (Nat.choose k i : F) * (Nat.choose l j : F) * w i j * E' (k - i) (l - j) = A k l)
    (k l : ℕ) (hk : k ≤ m) (hl : l ≤ n) : E k l = E' k l :=
  leibniz2_unique A w E E' hw m n h h' k l hk hl

/-- **Rational surfaces end to end**: `Surface.derivatives` of a rational surface (model: A4.4 applied
    to the derivative table of the homogeneous surface, default evaluator) returns vectors that solve the
    Leibniz system whose data are the true mixed partial derivatives of the numerator coordinate `A_c` and
    of the weight function `w` (bivariate span polynomials of the homogeneous net), whenever `w(u,v) ≠ 0`. -/
theorem rational_surface_derivatives_leibniz_of_true_derivatives (pu pv : ℕ) (Uu Uv : ℕ → F) (su sv : ℕ)
    (P : List (List F)) (κu κv : ℕ) (u v : F) (d c order k l : ℕ)
    (hpu : pu ≤ κu) (hpv : pv ≤ κv) (hκu : κu < su) (hκv : κv < sv) (hlen : P.length = su * sv)
    (hP : NetOk (d+1) P)
    (hmu : Monotone Uu) (hmv : Monotone Uv) (hspu : Uu κu < Uu (κu+1)) (hspv : Uv κv < Uv (κv+1))
    (hw0 : (surfSpanPoly pu pv Uu Uv sv P κu κv d).evalEval u v ≠ 0)
    (hk : k ≤ order) (hl : l ≤ order) (hc : c < d) :
    ∑ i ∈ Finset.range (k+1), ∑ j ∈ Finset.range (l+1),
      (Nat.choose k i : F) * (Nat.choose l j : F)
        * (pderivU^[i] (pderivV^[j] (surfSpanPoly pu pv Uu Uv sv P κu κv d))).evalEval u v
        * ((((ratSurfaceDers (surfaceDersAt pu pv Uu Uv sv P κu κv u v order false) order).getD (k - i) []).getD
              (l - j) []).getD c 0)
      = (pderivU^[k] (pderivV^[l] (surfSpanPoly pu pv Uu Uv sv P κu κv c))).evalEval u v :=
  ratSurfaceDers_true pu pv Uu Uv su sv P κu κv u v d c order k l hpu hpv hκu hκv hlen hP hmu hmv hspu hspv
    hw0 hk hl hc

/-- **Rational surfaces end to end, through the span search**: sorted knot vectors with non-degenerate last spans
    (`KnotsOk`), homogeneous net of `su·sv` points with `d+1` coordinates and positive weights, every `(u, v)` of the
    closed domain, spans as `find_span_linear` returns them: the weight polynomial is positive at `(u, v)` (so the
    hypothesis `hw0` of the theorem above is discharged) and the returned vectors solve the Leibniz system of the true
    mixed partial derivatives. -/
theorem rational_surface_derivatives_leibniz_on_domain (pu pv : ℕ) (Uu Uv : ℕ → F) (su sv : ℕ)
    (Pw : List (List F)) (u v : F) (d c order k l : ℕ)
    (hUu : KnotsOk pu Uu su) (hUv : KnotsOk pv Uv sv) (hlen : Pw.length = su * sv) (hP : NetOk (d+1) Pw)
    (hwt : ∀ i, i < Pw.length → 0 < (ptsGet Pw i).getD d 0)
    (hu1 : Uu pu ≤ u) (hu2 : u ≤ Uu su) (hv1 : Uv pv ≤ v) (hv2 : v ≤ Uv sv)
    (hk : k ≤ order) (hl : l ≤ order) (hc : c < d) :
    0 < (surfSpanPoly pu pv Uu Uv sv Pw (findSpanLinear pu Uu su u) (findSpanLinear pv Uv sv v) d).evalEval u v ∧
    ∑ i ∈ Finset.range (k+1), ∑ j ∈ Finset.range (l+1),
      (Nat.choose k i : F) * (Nat.choose l j : F)
        * (pderivU^[i] (pderivV^[j] (surfSpanPoly pu pv Uu Uv sv Pw (findSpanLinear pu Uu su u)
            (findSpanLinear pv Uv sv v) d))).evalEval u v
        * ((((ratSurfaceDers (surfaceDersAt pu pv Uu Uv sv Pw (findSpanLinear pu Uu su u)
            (findSpanLinear pv Uv sv v) u v order false) order).getD (k - i) []).getD (l - j) []).getD c 0)
      = (pderivU^[k] (pderivV^[l] (surfSpanPoly pu pv Uu Uv sv Pw (findSpanLinear pu Uu su u)
            (findSpanLinear pv Uv sv v) c))).evalEval u v :=
  ratSurfaceDers_domain pu pv Uu Uv su sv Pw u v d c order k l hUu hUv hlen hP hwt hu1 hu2 hv1 hv2 hk hl hc

/-! ### normal vector and normalisation (`operations.normal`, `operations.tangent`) -/

/-- `operations.normal` is `vector_cross(skl[1][0], skl[0][1])`: for a 3-D surface the cross product of
    the two first partial derivative vectors exists and is orthogonal to both of them.
    (The orthogonality part holds for the cross product of ANY two 3-vectors; what is specific to the surface is only that the two derivative vectors have three coordinates, so the cross product exists.  That they are the true partial derivatives is `surface_derivatives_are_true_mixed_derivatives`.) -/
theorem normal_orthogonal_to_tangents (pu pv : ℕ) (Uu Uv : ℕ → F) (su sv : ℕ) (P : List (List F))
    (κu κv : ℕ) (u v : F) (order : ℕ) (tri : Bool)
    (hpu : pu ≤ κu) (hpv : pv ≤ κv) (hκu : κu < su) (hκv : κv < sv) (hlen : P.length = su * sv) (hP : NetOk 3 P)
    (ho : 1 ≤ order) :
    ∃ n, Lin.vectorCross (((surfaceDersAt pu pv Uu Uv sv P κu κv u v order tri).getD 1 []).getD 0 [])
                        (((surfaceDersAt pu pv Uu Uv sv P κu κv u v order tri).getD 0 []).getD 1 []) = some n ∧
      Lin.vectorDot n (((surfaceDersAt pu pv Uu Uv sv P κu κv u v order tri).getD 1 []).getD 0 []) = 0 ∧
      Lin.vectorDot n (((surfaceDersAt pu pv Uu Uv sv P κu κv u v order tri).getD 0 []).getD 1 []) = 0 :=
  surfaceNormal_orthogonal pu pv Uu Uv su sv P κu κv u v order tri hpu hpv hκu hκv hlen hP ho

/-- `vector_normalize` (used by `tangent` / `normal` with `normalize=True`): the result is `v / mag`
    and has squared length exactly 1 whenever the supplied magnitude is a square root of the squared
    length of `v` (the floating-point `sqrt` and the 18-decimals rounding are outside the statement). -/
theorem normalized_vector_has_unit_length (v n : List F) (mag : F)
    (hmag : mag * mag = Lin.normSq v) (h : Lin.vectorNormalize v mag = some n) :
    Lin.normSq n = 1 ∧ 0 < mag ∧ n = v.map (fun x => x / mag) :=
  ⟨Lin.vectorNormalize_unit v n mag hmag h, Lin.vectorNormalize_parallel v n mag h⟩

/-! ### the derivative evaluators as coded, loop by loop -/

/-- **A3.2 as coded** (`CurveEvaluator.derivatives`, model `curveDersA32`: `CK` initialised with zero vectors,
    the loop over `k ≤ min(degree, order)` and `j ≤ degree` accumulating `bfunsders[k][j] * ctrlpts[span - degree + j]`
    with the table returned by A2.3 as coded; compared with the real method by the stream `cders32`): entry `k`,
    coordinate `j`, is the `k`-th derivative of the span polynomial at `u` for every `k ≤ order` (zero above the
    degree) – the same value as the A3.3/A3.4 family (`curve_derivatives_are_true_derivatives`). -/
theorem a32_as_coded_is_true_derivative (p : ℕ) (U : ℕ → F) (P : List (List F)) (κ : ℕ) (u : F) (d j order k : ℕ)
    (hp : p ≤ κ) (hκ : κ < P.length) (hP : NetOk d P)
    (hm : Monotone U) (hspan : U κ < U (κ+1)) (hk : k ≤ order) :
    ((curveDersA32 p U P κ u order).getD k []).getD j 0 = eval u (derivative^[k] (spanPoly p U P κ j)) :=
  curveDersA32_true p U P κ u d j order k hp hκ hP hm hspan hk

/-- **A3.6 as coded is the tensor formula** (`SurfaceEvaluator.derivatives`, model `surfaceDersA36`: for every
    `k ≤ d[0]` the array `temp[s] = Σ_r basisdrv[0][k][r] · P[..]` filled in place, then `SKL[k][l] += basisdrv[1][l][s] · temp[s]`
    for `l ≤ dd = min(deriv_order, d[1])` as the code has it; the two tables are those of A2.3 as coded; stream
    `sders36`): on every span pair inside a well-formed net the returned table is exactly `surfaceDersAt … false` –
    all `k ≤ min(pu, order)`, `l ≤ min(pv, order)` are filled, everything else keeps the zero vector. -/
theorem a36_as_coded_is_the_tensor_formula (pu pv : ℕ) (Uu Uv : ℕ → F) (su sv : ℕ) (P : List (List F))
    (κu κv : ℕ) (u v : F) (d order : ℕ) (hpu : pu ≤ κu) (hpv : pv ≤ κv) (hκu : κu < su) (hκv : κv < sv)
    (hlen : P.length = su * sv) (hP : NetOk d P) :
    surfaceDersA36 pu pv Uu Uv sv P κu κv u v order = surfaceDersAt pu pv Uu Uv sv P κu κv u v order false :=
  surfaceDersA36_eq pu pv Uu Uv su sv P κu κv u v d order hpu hpv hκu hκv hlen hP

/-- … hence every entry `[k][l]`, `k, l ≤ order`, returned by A3.6 as coded is the true mixed partial derivative
    `∂ᵏ/∂uᵏ ∂ˡ/∂vˡ` of the bivariate span polynomial at `(u, v)`. -/
theorem a36_as_coded_is_true_mixed_derivative (pu pv : ℕ) (Uu Uv : ℕ → F) (su sv : ℕ) (P : List (List F))
    (κu κv : ℕ) (u v : F) (d j order k l : ℕ)
    (hpu : pu ≤ κu) (hpv : pv ≤ κv) (hκu : κu < su) (hκv : κv < sv) (hlen : P.length = su * sv) (hP : NetOk d P)
    (hmu : Monotone Uu) (hmv : Monotone Uv) (hspu : Uu κu < Uu (κu+1)) (hspv : Uv κv < Uv (κv+1))
    (hk : k ≤ order) (hl : l ≤ order) :
    (((surfaceDersA36 pu pv Uu Uv sv P κu κv u v order).getD k []).getD l []).getD j 0
      = (pderivU^[k] (pderivV^[l] (surfSpanPoly pu pv Uu Uv sv P κu κv j))).evalEval u v :=
  surfaceDersA36_true pu pv Uu Uv su sv P κu κv u v d j order k l hpu hpv hκu hκv hlen hP hmu hmv hspu hspv hk hl

/-- **Rational surfaces with the default evaluator as coded** (`SurfaceEvaluatorRational.derivatives`: A3.6 as coded
    on the homogeneous net, then A4.4): the returned vectors solve the Leibniz system whose data are the true mixed
    partial derivatives of the numerator coordinate `A_c` and of the weight function `w`, whenever `w(u,v) ≠ 0`. -/
theorem rational_surface_derivatives_as_coded_leibniz (pu pv : ℕ) (Uu Uv : ℕ → F) (su sv : ℕ)
    (P : List (List F)) (κu κv : ℕ) (u v : F) (d c order k l : ℕ)
    (hpu : pu ≤ κu) (hpv : pv ≤ κv) (hκu : κu < su) (hκv : κv < sv) (hlen : P.length = su * sv)
    (hP : NetOk (d+1) P)
    (hmu : Monotone Uu) (hmv : Monotone Uv) (hspu : Uu κu < Uu (κu+1)) (hspv : Uv κv < Uv (κv+1))
    (hw0 : (surfSpanPoly pu pv Uu Uv sv P κu κv d).evalEval u v ≠ 0)
    (hk : k ≤ order) (hl : l ≤ order) (hc : c < d) :
    ∑ i ∈ Finset.range (k+1), ∑ j ∈ Finset.range (l+1),
      (Nat.choose k i : F) * (Nat.choose l j : F)
        * (pderivU^[i] (pderivV^[j] (surfSpanPoly pu pv Uu Uv sv P κu κv d))).evalEval u v
        * ((((ratSurfaceDers (surfaceDersA36 pu pv Uu Uv sv P κu κv u v order) order).getD (k - i) []).getD
              (l - j) []).getD c 0)
      = (pderivU^[k] (pderivV^[l] (surfSpanPoly pu pv Uu Uv sv P κu κv c))).evalEval u v :=
  ratSurfaceDersA36_true pu pv Uu Uv su sv P κu κv u v d c order k l hpu hpv hκu hκv hlen hP hmu hmv hspu hspv
    hw0 hk hl hc

/-- **A3.7 as coded assigns every entry that A3.8 reads** (`helpers.surface_deriv_cpts`, model
    `surfaceDerivCptsA37`, the 4-D table `PKL` initialised with `None`; stream `sdcpts37`).  On the window of a span
    pair the entries `PKL[k][l][j][i]` with `k ≤ min(pu, order)`, `l ≤ min(order - k, min(pv, order))`, `j ≤ pu - k`,
    `i ≤ pv - l` – the ones `SurfaceEvaluator2.derivatives` multiplies – are assigned (not `None`) and have the
    dimension of the control points.  (With the loop bound `range(0, du)` of the pinned tree, finding F-02, the
    rows `k = du`, `l ≥ 1` stayed `None`.) -/
theorem a37_as_coded_assigns_what_a38_reads (pu pv : ℕ) (Uu Uv : ℕ → F) (su sv : ℕ) (P : List (List F)) (κu κv : ℕ)
    (d order k l j i : ℕ)
    (hpu : pu ≤ κu) (hpv : pv ≤ κv) (hκu : κu < su) (hκv : κv < sv) (hlen : P.length = su * sv) (hP : NetOk d P)
    (hk : k ≤ min pu order) (hl : l ≤ min (order - k) (min pv order)) (hj : j ≤ pu - k) (hi : i ≤ pv - l) :
    ∃ X, (surfaceDerivCptsA37 pu pv Uu Uv su sv P (κu - pu) κu (κv - pv) κv order).get k l j i = some X ∧
      X.length = d :=
  a37_window_assigned pu pv Uu Uv su sv P κu κv d order k l j i hpu hpv hκu hκv hlen hP hk hl hj hi

/-- **A3.7 + A3.8 as coded are the triangular table** (`SurfaceEvaluator2.derivatives`, model `surfaceDersA38`, on
    top of `surfaceDerivCptsA37` and `basis_function_all`; `dd = min(deriv_order - k, d[1])`; stream `sders38`): on a
    non-empty span pair of sorted knot vectors the returned table is exactly `surfaceDersAt … true`. -/
theorem a38_as_coded_is_the_triangular_table (pu pv : ℕ) (Uu Uv : ℕ → F) (su sv : ℕ) (P : List (List F))
    (κu κv : ℕ) (u v : F) (d order : ℕ)
    (hpu : pu ≤ κu) (hpv : pv ≤ κv) (hκu : κu < su) (hκv : κv < sv) (hlen : P.length = su * sv) (hP : NetOk d P)
    (hmu : Monotone Uu) (hmv : Monotone Uv) (hspu : Uu κu < Uu (κu+1)) (hspv : Uv κv < Uv (κv+1)) :
    surfaceDersA38 pu pv Uu Uv su sv P κu κv u v order = surfaceDersAt pu pv Uu Uv sv P κu κv u v order true :=
  surfaceDersA38_eq pu pv Uu Uv su sv P κu κv u v d order hpu hpv hκu hκv hlen hP hmu hmv hspu hspv

/-- … hence every entry `[k][l]` with `k + l ≤ order` returned by A3.7 + A3.8 as coded is the true mixed partial
    derivative (the control points `PKL[k][l]` are the `l`-fold `v`-differences of the `k`-fold `u`-differences of the
    net, and summing them against the basis functions of degrees `(pu - k, pv - l)` differentiates the span). -/
theorem a38_as_coded_is_true_mixed_derivative (pu pv : ℕ) (Uu Uv : ℕ → F) (su sv : ℕ) (P : List (List F))
    (κu κv : ℕ) (u v : F) (d j order k l : ℕ)
    (hpu : pu ≤ κu) (hpv : pv ≤ κv) (hκu : κu < su) (hκv : κv < sv) (hlen : P.length = su * sv) (hP : NetOk d P)
    (hmu : Monotone Uu) (hmv : Monotone Uv) (hspu : Uu κu < Uu (κu+1)) (hspv : Uv κv < Uv (κv+1))
    (hkl : k + l ≤ order) :
    (((surfaceDersA38 pu pv Uu Uv su sv P κu κv u v order).getD k []).getD l []).getD j 0
      = (pderivU^[k] (pderivV^[l] (surfSpanPoly pu pv Uu Uv sv P κu κv j))).evalEval u v :=
  surfaceDersA38_true pu pv Uu Uv su sv P κu κv u v d j order k l hpu hpv hκu hκv hlen hP hmu hmv hspu hspv hkl

/-- … and the entries with `k + l > order` keep the zero vector `SKL` was initialised with. -/
theorem a38_as_coded_rest_zero (pu pv : ℕ) (Uu Uv : ℕ → F) (su sv : ℕ) (P : List (List F))
    (κu κv : ℕ) (u v : F) (d order k l : ℕ)
    (hpu : pu ≤ κu) (hpv : pv ≤ κv) (hκu : κu < su) (hκv : κv < sv) (hlen : P.length = su * sv) (hP : NetOk d P)
    (hmu : Monotone Uu) (hmv : Monotone Uv) (hspu : Uu κu < Uu (κu+1)) (hspv : Uv κv < Uv (κv+1))
    (hk : k ≤ order) (hl : l ≤ order) (hkl : order < k + l) :
    ((surfaceDersA38 pu pv Uu Uv su sv P κu κv u v order).getD k []).getD l [] = vzero (dimOf P) :=
  surfaceDersA38_rest_zero pu pv Uu Uv su sv P κu κv u v d order k l hpu hpv hκu hκv hlen hP hmu hmv hspu hspv
    hk hl hkl

/-! ### hodograph constructors, tangent, normal -/

/-- **The hodograph of a curve is its first derivative** (`operations.derivative_curve`, model `derivativeCurve`:
    degree `p - 1`, knot vector `U[1:-1]`, control points `PK[1]` of `curve_deriv_cpts` on the whole polygon; stream
    `hodoc`).  Evaluating the constructed curve at `u` on the span `κ - 1` (knot `i` of `U[1:-1]` is knot `i + 1` of `U`)
    gives, in every coordinate, the derivative of the span polynomial of the original curve on the span `κ`.
    Hypotheses = guards of the code (and of the driver op): degree ≥ 2 (`hp2`; for degree 1 the constructor raises
    "Set the degree first"), no `ZeroDivisionError` in `curve_deriv_cpts` (`hdiv`: no `U[i+p+1] = U[i+1]`, `i < n - 1`,
    i.e. no interior knot of multiplicity `p + 1`); the constructor refuses rational curves.  This statement is about
    the DATA handed to the setters (knot vector `U[1:-1]` as it is); the stored object is
    `hodograph_curve_object_is_first_derivative` / `hodograph_curve_object_reparametrised`. -/
theorem hodograph_curve_is_first_derivative (p : ℕ) (U : List F) (P : List (List F)) (κ : ℕ) (u : F) (d j : ℕ)
    (hp2 : 2 ≤ p) (hp : p ≤ κ) (hκ : κ < P.length) (hU : U.length = P.length + p + 1) (hP : NetOk d P)
    (hm : Monotone (fnOf U)) (hspan : fnOf U κ < fnOf U (κ+1))
    (hdiv : derivCptsDivisorsOk p (fnOf U) 0 (P.length - 1) 1 = true) :
    (curvePointAt (derivativeCurve p U P).1 (fnOf (derivativeCurve p U P).2.1) (derivativeCurve p U P).2.2
        (κ - 1) u).getD j 0
      = eval u (derivative (spanPoly p (fnOf U) P κ j)) :=
  hodograph_true p U P κ u d j (by omega) hp hκ hU hP hm hspan

/-- The span that the library's own search (`find_span_linear`) finds on the hodograph's data is the span of the
    original curve minus one – for every parameter. -/
theorem hodograph_curve_span_is_shifted (p : ℕ) (U : List F) (n : ℕ) (u : F) (hp1 : 1 ≤ p) (hpn : p + 1 ≤ n)
    (hU : U.length = n + p + 1) :
    findSpanLinear (p - 1) (fnOf (kvInner U)) (n - 1) u = findSpanLinear p (fnOf U) n u - 1 :=
  hodograph_span p U n u hp1 hpn hU

/-- … so the hodograph DATA (`U[1:-1]` before the setter) evaluated the way the library evaluates any curve
    (`curvePoint`: span search, A2.2, A3.1) is the first derivative of the original curve on the span its search finds,
    whenever that span is non-empty (on the closed domain of a well-formed curve it always is: the search returns the
    last non-empty span at the right end).  Same guards as above (`hp2`, `hdiv`). -/
theorem hodograph_curve_evaluated_is_first_derivative (p : ℕ) (U : List F) (P : List (List F)) (u : F) (d j : ℕ)
    (hp2 : 2 ≤ p) (hpn : p + 1 ≤ P.length) (hU : U.length = P.length + p + 1) (hP : NetOk d P)
    (hm : Monotone (fnOf U)) (hlo : fnOf U p ≤ u)
    (hspan : fnOf U (findSpanLinear p (fnOf U) P.length u) < fnOf U (findSpanLinear p (fnOf U) P.length u + 1))
    (hdiv : derivCptsDivisorsOk p (fnOf U) 0 (P.length - 1) 1 = true) :
    (curvePoint (derivativeCurve p U P).1 (fnOf (derivativeCurve p U P).2.1) (derivativeCurve p U P).2.2 u).getD j 0
      = eval u (derivative (spanPoly p (fnOf U) P (findSpanLinear p (fnOf U) P.length u) j)) :=
  hodograph_curvePoint_true p U P u d j (by omega) hpn hU hP hm hlo hspan

/-- **The curve OBJECT that `derivative_curve` returns, same parameter.**  The constructor creates `obj.__class__()`
    (`normalize_kv=True`), so the object stores `knotvector.normalize(U[1:-1])` (`knotNormalize`, as the driver op
    `hodoc` prints it).  When `U[1:-1]` already starts at 0 and ends at 1 (`h0`, `h1`: a clamped curve on `[0, 1]` – the
    library's default) the setter is the identity, and the stored curve evaluated as the library evaluates a curve
    at ANY parameter `u` of the closed domain of a well-formed curve is the first derivative there.  Guards `hp2`,
    `hdiv` as above.  Without `h0`, `h1` the statement is FALSE (finding F-02c: knots `0,0,0,2,2,2` with
    `normalize_kv=False`, or an unclamped knot vector: the object is parametrised over another interval) – see the
    re-parametrised form below. -/
theorem hodograph_curve_object_is_first_derivative (p d : ℕ) (U : List F) (P : List (List F))
    (hC : CurveWF p d U P) (hp2 : 2 ≤ p) (hdiv : derivCptsDivisorsOk p (fnOf U) 0 (P.length - 1) 1 = true)
    (h0 : (kvInner U).headD 0 = 0) (h1 : (kvInner U).getLastD 0 = 1)
    (u : F) (hlo : fnOf U p ≤ u) (hhi : u ≤ fnOf U P.length) (j : ℕ) :
    (curvePoint (derivativeCurve p U P).1 (fnOf (knotNormalize (derivativeCurve p U P).2.1))
        (derivativeCurve p U P).2.2 u).getD j 0
      = eval u (derivative (spanPoly p (fnOf U) P (findSpanLinear p (fnOf U) P.length u) j)) :=
  hodograph_object_on_domain p d U P hC hp2 h0 h1 u hlo hhi j

/-- **The curve OBJECT for any knot vector: the derivative, re-parametrised.**  With `a = U[1]`, `b = U[-2]` (first and
    last knot of `U[1:-1]`, `a < b` – otherwise the setter raises, driver ERR) the stored curve evaluated at
    `(u - a) / (b - a)` is the first derivative of the original curve at `u`, for every `u` of the closed domain.
    (The stored curve is `C' ∘ φ⁻¹` with `φ u = (u - a) / (b - a)`; it is not the derivative of the re-parametrised
    curve `C ∘ φ⁻¹`, which would carry the factor `b - a`.) -/
theorem hodograph_curve_object_reparametrised (p d : ℕ) (U : List F) (P : List (List F))
    (hC : CurveWF p d U P) (hp2 : 2 ≤ p) (hdiv : derivCptsDivisorsOk p (fnOf U) 0 (P.length - 1) 1 = true)
    (hr : (kvInner U).headD 0 < (kvInner U).getLastD 0)
    (u : F) (hlo : fnOf U p ≤ u) (hhi : u ≤ fnOf U P.length) (j : ℕ) :
    (curvePoint (derivativeCurve p U P).1 (fnOf (knotNormalize (derivativeCurve p U P).2.1))
        (derivativeCurve p U P).2.2
        ((u - (kvInner U).headD 0) / ((kvInner U).getLastD 0 - (kvInner U).headD 0))).getD j 0
      = eval u (derivative (spanPoly p (fnOf U) P (findSpanLinear p (fnOf U) P.length u) j)) :=
  hodograph_object_reparam p d U P hC hp2 hr u hlo hhi j

/-- **The three surfaces of `derivative_surface` are `∂S/∂u`, `∂S/∂v`, `∂²S/∂u∂v`** (model `derivativeSurface`:
    `pkl = surface_deriv_cpts(…, rs=(0, su-1), ss=(0, sv-1), deriv_order=2)` as coded, the nets `pkl[1][0]`, `pkl[0][1]`,
    `pkl[1][1]` without their padding, degrees lowered and knot vectors `[1:-1]` in the differentiated directions;
    stream `hodos`).  Each, evaluated at `(u, v)` on the correspondingly shifted span pair, gives the partial derivative
    of the bivariate span polynomial of the original surface.  Hypotheses = guards of the code (and of the driver op):
    both degrees ≥ 2 (`hpu2`, `hpv2`: with a degree 1 the degree setter raises and all three surfaces are lost), no
    `ZeroDivisionError` (`hdivu`, `hdivv`: raised when an interior knot has multiplicity ≥ the degree, finding F-02b:
    second-order control points are computed although not needed); rational surfaces are refused.  About the DATA
    handed to the setters; the stored objects: `hodograph_surface_objects_*`. -/
theorem hodograph_surfaces_are_partial_derivatives (pu pv : ℕ) (Uu Uv : List F) (su sv : ℕ) (P : List (List F))
    (κu κv : ℕ) (u v : F) (d c : ℕ) (hpu2 : 2 ≤ pu) (hpv2 : 2 ≤ pv)
    (hpu : pu ≤ κu) (hpv : pv ≤ κv) (hκu : κu < su) (hκv : κv < sv) (hlen : P.length = su * sv) (hP : NetOk d P)
    (hUu : Uu.length = su + pu + 1) (hUv : Uv.length = sv + pv + 1)
    (hmu : Monotone (fnOf Uu)) (hmv : Monotone (fnOf Uv))
    (hspu : fnOf Uu κu < fnOf Uu (κu+1)) (hspv : fnOf Uv κv < fnOf Uv (κv+1))
    (hdivu : derivCptsDivisorsOk pu (fnOf Uu) 0 (su - 1) (min pu 2) = true)
    (hdivv : derivCptsDivisorsOk pv (fnOf Uv) 0 (sv - 1) (min pv 2) = true) :
    (surfDataPointAt (derivativeSurface pu pv Uu Uv su sv P).1 (κu - 1) κv u v).getD c 0
        = (pderivU (surfSpanPoly pu pv (fnOf Uu) (fnOf Uv) sv P κu κv c)).evalEval u v ∧
    (surfDataPointAt (derivativeSurface pu pv Uu Uv su sv P).2.1 κu (κv - 1) u v).getD c 0
        = (pderivV (surfSpanPoly pu pv (fnOf Uu) (fnOf Uv) sv P κu κv c)).evalEval u v ∧
    (surfDataPointAt (derivativeSurface pu pv Uu Uv su sv P).2.2 (κu - 1) (κv - 1) u v).getD c 0
        = (pderivU (pderivV (surfSpanPoly pu pv (fnOf Uu) (fnOf Uv) sv P κu κv c))).evalEval u v :=
  derivativeSurface_true pu pv Uu Uv su sv P κu κv u v d c (by omega) (by omega) hpu hpv hκu hκv hlen hP hUu hUv hmu hmv
    hspu hspv

/-- … and each of the three, evaluated the way the library evaluates a surface (`surfDataPoint` = `surfacePoint` on
    the constructor data: two span searches on the data's own knot vectors and sizes), is the partial derivative on
    the span pair the searches find for the ORIGINAL surface – every `(u, v)` of the closed domain of a well-formed
    surface (`KnotsOk`: sorted, non-degenerate last span).  Data before the setters; same guards. -/
theorem hodograph_surfaces_evaluated_are_partial_derivatives (pu pv : ℕ) (Uu Uv : List F) (su sv : ℕ)
    (P : List (List F)) (u v : F) (d c : ℕ) (hpu2 : 2 ≤ pu) (hpv2 : 2 ≤ pv)
    (hUu : Uu.length = su + pu + 1) (hUv : Uv.length = sv + pv + 1)
    (hKu : KnotsOk pu (fnOf Uu) su) (hKv : KnotsOk pv (fnOf Uv) sv) (hlen : P.length = su * sv) (hP : NetOk d P)
    (hdivu : derivCptsDivisorsOk pu (fnOf Uu) 0 (su - 1) (min pu 2) = true)
    (hdivv : derivCptsDivisorsOk pv (fnOf Uv) 0 (sv - 1) (min pv 2) = true)
    (hu1 : fnOf Uu pu ≤ u) (hu2 : u ≤ fnOf Uu su) (hv1 : fnOf Uv pv ≤ v) (hv2 : v ≤ fnOf Uv sv) :
    (surfDataPoint (derivativeSurface pu pv Uu Uv su sv P).1 u v).getD c 0
      = (pderivU (surfSpanPoly pu pv (fnOf Uu) (fnOf Uv) sv P (findSpanLinear pu (fnOf Uu) su u)
          (findSpanLinear pv (fnOf Uv) sv v) c)).evalEval u v ∧
    (surfDataPoint (derivativeSurface pu pv Uu Uv su sv P).2.1 u v).getD c 0
      = (pderivV (surfSpanPoly pu pv (fnOf Uu) (fnOf Uv) sv P (findSpanLinear pu (fnOf Uu) su u)
          (findSpanLinear pv (fnOf Uv) sv v) c)).evalEval u v ∧
    (surfDataPoint (derivativeSurface pu pv Uu Uv su sv P).2.2 u v).getD c 0
      = (pderivU (pderivV (surfSpanPoly pu pv (fnOf Uu) (fnOf Uv) sv P (findSpanLinear pu (fnOf Uu) su u)
          (findSpanLinear pv (fnOf Uv) sv v) c))).evalEval u v :=
  derivativeSurface_point_true pu pv Uu Uv su sv P u v d c (by omega) (by omega) hUu hUv hKu hKv hlen hP hu1 hu2 hv1 hv2

/-- **The three surface OBJECTS that `derivative_surface` returns, same parameters.**  `surf_u` / `surf_v` are deep
    copies of the input: the setter of the differentiated direction normalises iff the input was created with
    `normalize_kv=True` (`norm`); `surf_uv` is a fresh `obj.__class__()`: both setters normalise.  The stored data are
    `surfDataNormalize norm false`, `false norm`, `true true` of the constructor data (what the driver op `hodos`
    prints).  When `U[1:-1]` spans `[0, 1]` in both directions (clamped surface on the unit square – the default) all
    these setters are the identity and each stored surface, evaluated as the library evaluates a surface at ANY
    `(u, v)` of the closed domain, is `∂S/∂u`, `∂S/∂v`, `∂²S/∂u∂v` there.  Without `h0u … h1v`: finding F-02c, see below. -/
theorem hodograph_surface_objects_are_partial_derivatives (norm : Bool) (pu pv : ℕ) (Uu Uv : List F) (su sv : ℕ)
    (P : List (List F)) (u v : F) (d c : ℕ) (hpu2 : 2 ≤ pu) (hpv2 : 2 ≤ pv)
    (hUu : Uu.length = su + pu + 1) (hUv : Uv.length = sv + pv + 1)
    (hKu : KnotsOk pu (fnOf Uu) su) (hKv : KnotsOk pv (fnOf Uv) sv) (hlen : P.length = su * sv) (hP : NetOk d P)
    (hdivu : derivCptsDivisorsOk pu (fnOf Uu) 0 (su - 1) (min pu 2) = true)
    (hdivv : derivCptsDivisorsOk pv (fnOf Uv) 0 (sv - 1) (min pv 2) = true)
    (h0u : (kvInner Uu).headD 0 = 0) (h1u : (kvInner Uu).getLastD 0 = 1)
    (h0v : (kvInner Uv).headD 0 = 0) (h1v : (kvInner Uv).getLastD 0 = 1)
    (hu1 : fnOf Uu pu ≤ u) (hu2 : u ≤ fnOf Uu su) (hv1 : fnOf Uv pv ≤ v) (hv2 : v ≤ fnOf Uv sv) :
    (surfDataPoint (surfDataNormalize norm false (derivativeSurface pu pv Uu Uv su sv P).1) u v).getD c 0
      = (pderivU (surfSpanPoly pu pv (fnOf Uu) (fnOf Uv) sv P (findSpanLinear pu (fnOf Uu) su u)
          (findSpanLinear pv (fnOf Uv) sv v) c)).evalEval u v ∧
    (surfDataPoint (surfDataNormalize false norm (derivativeSurface pu pv Uu Uv su sv P).2.1) u v).getD c 0
      = (pderivV (surfSpanPoly pu pv (fnOf Uu) (fnOf Uv) sv P (findSpanLinear pu (fnOf Uu) su u)
          (findSpanLinear pv (fnOf Uv) sv v) c)).evalEval u v ∧
    (surfDataPoint (surfDataNormalize true true (derivativeSurface pu pv Uu Uv su sv P).2.2) u v).getD c 0
      = (pderivU (pderivV (surfSpanPoly pu pv (fnOf Uu) (fnOf Uv) sv P (findSpanLinear pu (fnOf Uu) su u)
          (findSpanLinear pv (fnOf Uv) sv v) c))).evalEval u v :=
  derivativeSurface_objects_true norm pu pv Uu Uv su sv P u v d c (by omega) (by omega) hUu hUv hKu hKv hlen hP
    h0u h1u h0v h1v hu1 hu2 hv1 hv2

/-- **The three surface OBJECTS for any knot vectors: the partial derivatives, re-parametrised.**  In every direction
    whose setter normalises, the parameter is mapped by `normParam true V x = (x - V[0]) / (V[-1] - V[0])` with
    `V = U[1:-1]` (`normParam false V x = x`); `hru`, `hrv` = the setter does not raise.  At the SAME parameters the
    stored surfaces are not the derivatives when `U[1:-1]` does not span `[0, 1]` (finding F-02c). -/
theorem hodograph_surface_objects_reparametrised (norm : Bool) (pu pv : ℕ) (Uu Uv : List F) (su sv : ℕ)
    (P : List (List F)) (u v : F) (d c : ℕ) (hpu2 : 2 ≤ pu) (hpv2 : 2 ≤ pv)
    (hUu : Uu.length = su + pu + 1) (hUv : Uv.length = sv + pv + 1)
    (hKu : KnotsOk pu (fnOf Uu) su) (hKv : KnotsOk pv (fnOf Uv) sv) (hlen : P.length = su * sv) (hP : NetOk d P)
    (hdivu : derivCptsDivisorsOk pu (fnOf Uu) 0 (su - 1) (min pu 2) = true)
    (hdivv : derivCptsDivisorsOk pv (fnOf Uv) 0 (sv - 1) (min pv 2) = true)
    (hru : (kvInner Uu).headD 0 < (kvInner Uu).getLastD 0) (hrv : (kvInner Uv).headD 0 < (kvInner Uv).getLastD 0)
    (hu1 : fnOf Uu pu ≤ u) (hu2 : u ≤ fnOf Uu su) (hv1 : fnOf Uv pv ≤ v) (hv2 : v ≤ fnOf Uv sv) :
    (surfDataPoint (surfDataNormalize norm false (derivativeSurface pu pv Uu Uv su sv P).1)
        (normParam norm (kvInner Uu) u) v).getD c 0
      = (pderivU (surfSpanPoly pu pv (fnOf Uu) (fnOf Uv) sv P (findSpanLinear pu (fnOf Uu) su u)
          (findSpanLinear pv (fnOf Uv) sv v) c)).evalEval u v ∧
    (surfDataPoint (surfDataNormalize false norm (derivativeSurface pu pv Uu Uv su sv P).2.1)
        u (normParam norm (kvInner Uv) v)).getD c 0
      = (pderivV (surfSpanPoly pu pv (fnOf Uu) (fnOf Uv) sv P (findSpanLinear pu (fnOf Uu) su u)
          (findSpanLinear pv (fnOf Uv) sv v) c)).evalEval u v ∧
    (surfDataPoint (surfDataNormalize true true (derivativeSurface pu pv Uu Uv su sv P).2.2)
        (normParam true (kvInner Uu) u) (normParam true (kvInner Uv) v)).getD c 0
      = (pderivU (pderivV (surfSpanPoly pu pv (fnOf Uu) (fnOf Uv) sv P (findSpanLinear pu (fnOf Uu) su u)
          (findSpanLinear pv (fnOf Uv) sv v) c))).evalEval u v :=
  derivativeSurface_objects_reparam norm pu pv Uu Uv su sv P u v d c (by omega) (by omega) hUu hUv hKu hKv hlen hP
    hru hrv hu1 hu2 hv1 hv2

/-- `operations.tangent(curve, u, normalize=False)` (`tangent_curve_single`: `ders = obj.derivatives(u, 1)`,
    returned `(ders[0], ders[1])`; default evaluator = A3.2 as coded; stream `tanc`) is (curve point, first derivative) –
    here for a NON-rational curve at a GIVEN non-empty span; through the span search: `tangent_curve_on_domain`,
    rational curves: `tangent_rational_curve_on_domain`. -/
theorem tangent_curve_is_point_and_first_derivative (p : ℕ) (U : ℕ → F) (P : List (List F)) (κ : ℕ) (u : F) (d j : ℕ)
    (hp : p ≤ κ) (hκ : κ < P.length) (hP : NetOk d P) (hm : Monotone U) (hspan : U κ < U (κ+1)) :
    (tangentCurve (curveDersA32 p U P κ u 1)).1.getD j 0 = eval u (spanPoly p U P κ j) ∧
    (tangentCurve (curveDersA32 p U P κ u 1)).2.getD j 0 = eval u (derivative (spanPoly p U P κ j)) :=
  tangentCurve_true p U P κ u d j hp hκ hP hm hspan

/-- `operations.tangent(surface, (u, v), normalize=False)` (`tangent_surface_single`: `skl = obj.derivatives(u, v, 1)`,
    returned `(skl[0][0], skl[1][0], skl[0][1])`; default evaluator = A3.6 as coded; stream `tans`) is
    (surface point, `∂S/∂u`, `∂S/∂v`) – NON-rational surface, GIVEN non-empty span pair; through the span searches:
    `tangent_surface_on_domain`.  For a rational surface the three vectors are entries `[0][0]`, `[1][0]`, `[0][1]` of
    the table of `rational_surface_derivatives_as_coded_on_domain` (Leibniz system; no separate tangent theorem). -/
theorem tangent_surface_is_point_and_partials (pu pv : ℕ) (Uu Uv : ℕ → F) (su sv : ℕ) (P : List (List F))
    (κu κv : ℕ) (u v : F) (d j : ℕ)
    (hpu : pu ≤ κu) (hpv : pv ≤ κv) (hκu : κu < su) (hκv : κv < sv) (hlen : P.length = su * sv) (hP : NetOk d P)
    (hmu : Monotone Uu) (hmv : Monotone Uv) (hspu : Uu κu < Uu (κu+1)) (hspv : Uv κv < Uv (κv+1)) :
    (tangentSurface (surfaceDersA36 pu pv Uu Uv sv P κu κv u v 1)).1.getD j 0
      = (surfSpanPoly pu pv Uu Uv sv P κu κv j).evalEval u v ∧
    (tangentSurface (surfaceDersA36 pu pv Uu Uv sv P κu κv u v 1)).2.1.getD j 0
      = (pderivU (surfSpanPoly pu pv Uu Uv sv P κu κv j)).evalEval u v ∧
    (tangentSurface (surfaceDersA36 pu pv Uu Uv sv P κu κv u v 1)).2.2.getD j 0
      = (pderivV (surfSpanPoly pu pv Uu Uv sv P κu κv j)).evalEval u v :=
  tangentSurface_true pu pv Uu Uv su sv P κu κv u v d j hpu hpv hκu hκv hlen hP hmu hmv hspu hspv

/-- `operations.normal(surface, (u, v), normalize=False)` (`normal_surface_single`; stream `nrms`) of a 3-D surface
    returns the surface point and the cross product `∂S/∂u × ∂S/∂v` of the TRUE first partial derivatives
    (`Su c`, `Sv c` name their coordinates), and that vector is orthogonal to both – NON-rational surface, GIVEN
    non-empty span pair; through the span searches: `normal_surface_on_domain`.  (Rational surfaces: the op `nrms 1`
    takes the cross product of the A4.4 vectors, characterised by the Leibniz system; no separate theorem.) -/
theorem normal_surface_is_cross_product_of_partials (pu pv : ℕ) (Uu Uv : ℕ → F) (su sv : ℕ) (P : List (List F))
    (κu κv : ℕ) (u v : F)
    (hpu : pu ≤ κu) (hpv : pv ≤ κv) (hκu : κu < su) (hκv : κv < sv) (hlen : P.length = su * sv)
    (hP : NetOk 3 P) (hmu : Monotone Uu) (hmv : Monotone Uv) (hspu : Uu κu < Uu (κu+1)) (hspv : Uv κv < Uv (κv+1))
    (Su Sv : ℕ → F)
    (hSu : ∀ c, Su c = (pderivU (surfSpanPoly pu pv Uu Uv sv P κu κv c)).evalEval u v)
    (hSv : ∀ c, Sv c = (pderivV (surfSpanPoly pu pv Uu Uv sv P κu κv c)).evalEval u v) :
    ∃ pt n, normalSurface (surfaceDersA36 pu pv Uu Uv sv P κu κv u v 1) = some (pt, n) ∧
      (∀ c, pt.getD c 0 = (surfSpanPoly pu pv Uu Uv sv P κu κv c).evalEval u v) ∧
      n = [Su 1 * Sv 2 - Su 2 * Sv 1, Su 2 * Sv 0 - Su 0 * Sv 2, Su 0 * Sv 1 - Su 1 * Sv 0] ∧
      n.getD 0 0 * Su 0 + n.getD 1 0 * Su 1 + n.getD 2 0 * Su 2 = 0 ∧
      n.getD 0 0 * Sv 0 + n.getD 1 0 * Sv 1 + n.getD 2 0 * Sv 2 = 0 :=
  normalSurface_true pu pv Uu Uv su sv P κu κv u v hpu hpv hκu hκv hlen hP hmu hmv hspu hspv Su Sv hSu hSv

/-! ### the default evaluators as coded, through the span search (what the ops `cders32`, `sders36`, `tanc`, `tans`, `nrms` run) -/

/-- **A3.2 as coded on the span `find_span_linear` returns**: for a well-formed curve (`CurveWF`) and every parameter
    of the closed domain `[U_p, U_n]`, entry `k` of `CurveEvaluator.derivatives` is the `k`-th derivative of the span
    polynomial of the span found (at a knot: from the right; at the right end: from the left). -/
theorem a32_as_coded_on_domain (p d : ℕ) (Ul : List F) (P : List (List F)) (hC : CurveWF p d Ul P) (u : F)
    (h1 : fnOf Ul p ≤ u) (h2 : u ≤ fnOf Ul P.length) (order k j : ℕ) (hk : k ≤ order) :
    ((curveDersA32 p (fnOf Ul) P (findSpanLinear p (fnOf Ul) P.length u) u order).getD k []).getD j 0
      = eval u (derivative^[k] (spanPoly p (fnOf Ul) P (findSpanLinear p (fnOf Ul) P.length u) j)) :=
  curveDersA32_domain p d Ul P hC u h1 h2 order k j hk

/-- **Rational curves with the default evaluator as coded** (`CurveEvaluatorRational.derivatives` = A3.2 as coded on
    the homogeneous net, then A4.2; ops `cders32 1 …`, `tanc 1 …`), through the span search, closed domain, positive
    weights: the weight polynomial of the span found is positive at `u` and the returned vectors solve the Leibniz
    system of the true derivatives.  (`rational_curve_derivatives_leibniz_of_true_derivatives` is the same statement
    for the A3.3/A3.4 table `curveDers` of `CurveEvaluator2`.) -/
theorem rational_curve_derivatives_as_coded_leibniz (p d : ℕ) (Ul : List F) (Pw : List (List F))
    (hC : CurveWF p (d+1) Ul Pw) (hwt : ∀ i, i < Pw.length → 0 < (ptsGet Pw i).getD d 0) (u : F)
    (h1 : fnOf Ul p ≤ u) (h2 : u ≤ fnOf Ul Pw.length) (order k j : ℕ) (hk : k ≤ order) (hj : j < d) :
    0 < eval u (spanPoly p (fnOf Ul) Pw (findSpanLinear p (fnOf Ul) Pw.length u) d) ∧
    ∑ i ∈ Finset.range (k+1), (Nat.choose k i : F)
        * eval u (derivative^[i] (spanPoly p (fnOf Ul) Pw (findSpanLinear p (fnOf Ul) Pw.length u) d))
        * ((ratCurveDers (curveDersA32 p (fnOf Ul) Pw (findSpanLinear p (fnOf Ul) Pw.length u) u order)).getD
            (k - i) []).getD j 0
      = eval u (derivative^[k] (spanPoly p (fnOf Ul) Pw (findSpanLinear p (fnOf Ul) Pw.length u) j)) :=
  ratCurveDersA32_domain p d Ul Pw hC hwt u h1 h2 order k j hk hj

/-- … at a given span (only `w(u) ≠ 0` assumed) -/
theorem rational_curve_derivatives_as_coded_leibniz_at_span (p : ℕ) (U : ℕ → F) (Pw : List (List F)) (κ : ℕ) (u : F)
    (d order k j : ℕ) (hp : p ≤ κ) (hκ : κ < Pw.length) (hP : NetOk (d+1) Pw) (hm : Monotone U)
    (hspan : U κ < U (κ+1)) (hw0 : eval u (spanPoly p U Pw κ d) ≠ 0) (hk : k ≤ order) (hj : j < d) :
    ∑ i ∈ Finset.range (k+1), (Nat.choose k i : F) * eval u (derivative^[i] (spanPoly p U Pw κ d))
        * ((ratCurveDers (curveDersA32 p U Pw κ u order)).getD (k - i) []).getD j 0
      = eval u (derivative^[k] (spanPoly p U Pw κ j)) :=
  ratCurveDersA32_true p U Pw κ u d order k j hp hκ hP hm hspan hw0 hk hj

/-- **A3.6 as coded on the span pair the two searches return**, closed domain of a well-formed surface. -/
theorem a36_as_coded_on_domain (pu pv : ℕ) (Uu Uv : ℕ → F) (su sv : ℕ) (P : List (List F)) (u v : F)
    (d j order k l : ℕ) (hUu : KnotsOk pu Uu su) (hUv : KnotsOk pv Uv sv) (hlen : P.length = su * sv) (hP : NetOk d P)
    (hu1 : Uu pu ≤ u) (hu2 : u ≤ Uu su) (hv1 : Uv pv ≤ v) (hv2 : v ≤ Uv sv) (hk : k ≤ order) (hl : l ≤ order) :
    (((surfaceDersA36 pu pv Uu Uv sv P (findSpanLinear pu Uu su u) (findSpanLinear pv Uv sv v) u v order).getD k []).getD
        l []).getD j 0
      = (pderivU^[k] (pderivV^[l] (surfSpanPoly pu pv Uu Uv sv P (findSpanLinear pu Uu su u)
          (findSpanLinear pv Uv sv v) j))).evalEval u v :=
  surfaceDersA36_domain pu pv Uu Uv su sv P u v d j order k l hUu hUv hlen hP hu1 hu2 hv1 hv2 hk hl

/-- **Rational surfaces with the default evaluator as coded, through the span searches** (A3.6 as coded on the
    homogeneous net, A4.4; ops `sders36 1 …`, `tans 1 …`, `nrms 1 …`), closed domain, positive weights. -/
theorem rational_surface_derivatives_as_coded_on_domain (pu pv : ℕ) (Uu Uv : ℕ → F) (su sv : ℕ)
    (Pw : List (List F)) (u v : F) (d c order k l : ℕ)
    (hUu : KnotsOk pu Uu su) (hUv : KnotsOk pv Uv sv) (hlen : Pw.length = su * sv) (hP : NetOk (d+1) Pw)
    (hwt : ∀ i, i < Pw.length → 0 < (ptsGet Pw i).getD d 0)
    (hu1 : Uu pu ≤ u) (hu2 : u ≤ Uu su) (hv1 : Uv pv ≤ v) (hv2 : v ≤ Uv sv)
    (hk : k ≤ order) (hl : l ≤ order) (hc : c < d) :
    0 < (surfSpanPoly pu pv Uu Uv sv Pw (findSpanLinear pu Uu su u) (findSpanLinear pv Uv sv v) d).evalEval u v ∧
    ∑ i ∈ Finset.range (k+1), ∑ j ∈ Finset.range (l+1),
      (Nat.choose k i : F) * (Nat.choose l j : F)
        * (pderivU^[i] (pderivV^[j] (surfSpanPoly pu pv Uu Uv sv Pw (findSpanLinear pu Uu su u)
            (findSpanLinear pv Uv sv v) d))).evalEval u v
        * ((((ratSurfaceDers (surfaceDersA36 pu pv Uu Uv sv Pw (findSpanLinear pu Uu su u)
            (findSpanLinear pv Uv sv v) u v order) order).getD (k - i) []).getD (l - j) []).getD c 0)
      = (pderivU^[k] (pderivV^[l] (surfSpanPoly pu pv Uu Uv sv Pw (findSpanLinear pu Uu su u)
            (findSpanLinear pv Uv sv v) c))).evalEval u v :=
  ratSurfaceDersA36_domain pu pv Uu Uv su sv Pw u v d c order k l hUu hUv hlen hP hwt hu1 hu2 hv1 hv2 hk hl hc

/-- `operations.tangent(curve, u, normalize=False)` of a non-rational curve as the op `tanc 0 …` runs it (span search
    included), every parameter of the closed domain: (curve point, first derivative). -/
theorem tangent_curve_on_domain (p d : ℕ) (Ul : List F) (P : List (List F)) (hC : CurveWF p d Ul P) (u : F)
    (h1 : fnOf Ul p ≤ u) (h2 : u ≤ fnOf Ul P.length) (j : ℕ) :
    (tangentCurve (curveDersA32 p (fnOf Ul) P (findSpanLinear p (fnOf Ul) P.length u) u 1)).1.getD j 0
      = eval u (spanPoly p (fnOf Ul) P (findSpanLinear p (fnOf Ul) P.length u) j) ∧
    (tangentCurve (curveDersA32 p (fnOf Ul) P (findSpanLinear p (fnOf Ul) P.length u) u 1)).2.getD j 0
      = eval u (derivative (spanPoly p (fnOf Ul) P (findSpanLinear p (fnOf Ul) P.length u) j)) :=
  tangentCurve_domain p d Ul P hC u h1 h2 j

/-- `operations.tangent` of a RATIONAL curve as the op `tanc 1 …` runs it (A3.2 as coded on the span found, A4.2,
    `(ders[0], ders[1])`): with `w`, `A_j` the weight and numerator polynomials of the span, `w(u) > 0`, `w·C = A_j`
    and `w·T + w'·C = A_j'` – i.e. `C = A_j / w` and `T` is its derivative by the quotient rule. -/
theorem tangent_rational_curve_on_domain (p d : ℕ) (Ul : List F) (Pw : List (List F))
    (hC : CurveWF p (d+1) Ul Pw) (hwt : ∀ i, i < Pw.length → 0 < (ptsGet Pw i).getD d 0) (u : F)
    (h1 : fnOf Ul p ≤ u) (h2 : u ≤ fnOf Ul Pw.length) (j : ℕ) (hj : j < d) :
    0 < eval u (spanPoly p (fnOf Ul) Pw (findSpanLinear p (fnOf Ul) Pw.length u) d) ∧
    eval u (spanPoly p (fnOf Ul) Pw (findSpanLinear p (fnOf Ul) Pw.length u) d)
        * (tangentCurve (ratCurveDers (curveDersA32 p (fnOf Ul) Pw (findSpanLinear p (fnOf Ul) Pw.length u) u 1))).1.getD j 0
      = eval u (spanPoly p (fnOf Ul) Pw (findSpanLinear p (fnOf Ul) Pw.length u) j) ∧
    eval u (spanPoly p (fnOf Ul) Pw (findSpanLinear p (fnOf Ul) Pw.length u) d)
        * (tangentCurve (ratCurveDers (curveDersA32 p (fnOf Ul) Pw (findSpanLinear p (fnOf Ul) Pw.length u) u 1))).2.getD j 0
      + eval u (derivative (spanPoly p (fnOf Ul) Pw (findSpanLinear p (fnOf Ul) Pw.length u) d))
        * (tangentCurve (ratCurveDers (curveDersA32 p (fnOf Ul) Pw (findSpanLinear p (fnOf Ul) Pw.length u) u 1))).1.getD j 0
      = eval u (derivative (spanPoly p (fnOf Ul) Pw (findSpanLinear p (fnOf Ul) Pw.length u) j)) :=
  tangentCurve_rational_domain p d Ul Pw hC hwt u h1 h2 j hj

/-- `operations.tangent(surface, (u, v), normalize=False)` of a non-rational surface as the op `tans 0 …` runs it
    (both span searches included), every `(u, v)` of the closed domain: (point, `∂S/∂u`, `∂S/∂v`). -/
theorem tangent_surface_on_domain (pu pv : ℕ) (Uu Uv : ℕ → F) (su sv : ℕ) (P : List (List F)) (u v : F) (d j : ℕ)
    (hUu : KnotsOk pu Uu su) (hUv : KnotsOk pv Uv sv) (hlen : P.length = su * sv) (hP : NetOk d P)
    (hu1 : Uu pu ≤ u) (hu2 : u ≤ Uu su) (hv1 : Uv pv ≤ v) (hv2 : v ≤ Uv sv) :
    (tangentSurface (surfaceDersA36 pu pv Uu Uv sv P (findSpanLinear pu Uu su u) (findSpanLinear pv Uv sv v) u v 1)).1.getD j 0
      = (surfSpanPoly pu pv Uu Uv sv P (findSpanLinear pu Uu su u) (findSpanLinear pv Uv sv v) j).evalEval u v ∧
    (tangentSurface (surfaceDersA36 pu pv Uu Uv sv P (findSpanLinear pu Uu su u) (findSpanLinear pv Uv sv v) u v 1)).2.1.getD j 0
      = (pderivU (surfSpanPoly pu pv Uu Uv sv P (findSpanLinear pu Uu su u) (findSpanLinear pv Uv sv v) j)).evalEval u v ∧
    (tangentSurface (surfaceDersA36 pu pv Uu Uv sv P (findSpanLinear pu Uu su u) (findSpanLinear pv Uv sv v) u v 1)).2.2.getD j 0
      = (pderivV (surfSpanPoly pu pv Uu Uv sv P (findSpanLinear pu Uu su u) (findSpanLinear pv Uv sv v) j)).evalEval u v :=
  tangentSurface_domain pu pv Uu Uv su sv P u v d j hUu hUv hlen hP hu1 hu2 hv1 hv2

/-- `operations.normal(surface, (u, v), normalize=False)` of a non-rational 3-D surface as the op `nrms 0 …` runs it,
    every `(u, v)` of the closed domain: the surface point and the cross product of the TRUE first partials. -/
theorem normal_surface_on_domain (pu pv : ℕ) (Uu Uv : ℕ → F) (su sv : ℕ) (P : List (List F)) (u v : F)
    (hUu : KnotsOk pu Uu su) (hUv : KnotsOk pv Uv sv) (hlen : P.length = su * sv) (hP : NetOk 3 P)
    (hu1 : Uu pu ≤ u) (hu2 : u ≤ Uu su) (hv1 : Uv pv ≤ v) (hv2 : v ≤ Uv sv)
    (Su Sv : ℕ → F)
    (hSu : ∀ c, Su c = (pderivU (surfSpanPoly pu pv Uu Uv sv P (findSpanLinear pu Uu su u)
      (findSpanLinear pv Uv sv v) c)).evalEval u v)
    (hSv : ∀ c, Sv c = (pderivV (surfSpanPoly pu pv Uu Uv sv P (findSpanLinear pu Uu su u)
      (findSpanLinear pv Uv sv v) c)).evalEval u v) :
    ∃ pt n, normalSurface (surfaceDersA36 pu pv Uu Uv sv P (findSpanLinear pu Uu su u) (findSpanLinear pv Uv sv v)
        u v 1) = some (pt, n) ∧
      (∀ c, pt.getD c 0 = (surfSpanPoly pu pv Uu Uv sv P (findSpanLinear pu Uu su u)
        (findSpanLinear pv Uv sv v) c).evalEval u v) ∧
      n = [Su 1 * Sv 2 - Su 2 * Sv 1, Su 2 * Sv 0 - Su 0 * Sv 2, Su 0 * Sv 1 - Su 1 * Sv 0] ∧
      n.getD 0 0 * Su 0 + n.getD 1 0 * Su 1 + n.getD 2 0 * Su 2 = 0 ∧
      n.getD 0 0 * Sv 0 + n.getD 1 0 * Sv 1 + n.getD 2 0 * Sv 2 = 0 :=
  normalSurface_domain pu pv Uu Uv su sv P u v hUu hUv hlen hP hu1 hu2 hv1 hv2 Su Sv hSu hSv

/-- **The values A3.7 as coded assigns** (`helpers.surface_deriv_cpts` on a window `[r1, r1+n] × [s1, s1+m]` inside the
    net, `min(pu, order) ≤ n`, `min(pv, order) ≤ m`): for `k ≤ min(pu, order)`, `l ≤ min(order - k, min(pv, order))`,
    `i ≤ n - k`, `j ≤ m - l` the entry `PKL[k][l][i][j]` is assigned, has the dimension of the control points, and
    coordinate `c` is the `l`-fold scaled `v`-difference of the `k`-fold scaled `u`-differences of the net
    (`dIter U p k f`: `k` times `f ↦ (p-k+1)·(f(x) - f(x-1)) / (U(x+p-k+1) - U(x))`, indexed at the upper end) –
    the control points of `∂ᵏ⁺ˡS / ∂uᵏ∂vˡ`. -/
theorem a37_as_coded_entry_values (pu pv : ℕ) (Uu Uv : ℕ → F) (su sv : ℕ) (P : List (List F)) (r1 n s1 m order d : ℕ)
    (hr : r1 + n < su) (hs : s1 + m < sv) (hlen : P.length = su * sv) (hP : NetOk d P)
    (hdu : min pu order ≤ n) (hdv : min pv order ≤ m)
    (k l i j : ℕ) (hk : k ≤ min pu order) (hl : l ≤ min (order - k) (min pv order)) (hi : i ≤ n - k) (hj : j ≤ m - l) :
    ∃ X, (surfaceDerivCptsA37 pu pv Uu Uv su sv P r1 (r1 + n) s1 (s1 + m) order).get k l i j = some X ∧
      X.length = d ∧
      ∀ c, X.getD c 0
        = dIter Uv pv l (fun y => dIter Uu pu k (fun x => netCoord sv P c x y) (r1 + i + k)) (s1 + j + l) :=
  a37_entry pu pv Uu Uv su sv P r1 n s1 m order d hr hs hlen hP hdu hdv k l i j hk hl hi hj

/-! ### tangent / normal of RATIONAL curves and surfaces (ops `tanc 1 …`, `tans 1 …`, `nrms 1 …`) -/

/-- **Rational curve tangent, quotient-rule form.**  `operations.tangent(curve, u, normalize=False)` of a NURBS curve
    with positive weights as the op `tanc 1 …` runs it (A3.2 as coded on the span `κ` that `find_span_linear` returns,
    A4.2, `(ders[0], ders[1])`), every `u` of the closed domain: with `w` the weight polynomial and `A` the numerator
    polynomial of coordinate `j` on that span, `w(u) > 0`, the point is `A(u) / w(u)` (C01's rational point) and the
    vector is `(A'(u)·w(u) − A(u)·w'(u)) / w(u)²` – Mathlib's `Polynomial.derivative`, the quotient rule as a field
    identity.  (Leibniz form `w·T + w'·C = A'`: `tangent_rational_curve_on_domain`.) -/
theorem rational_tangent_is_quotient_rule (p d : ℕ) (Ul : List F) (Pw : List (List F))
    (hC : CurveWF p (d+1) Ul Pw) (hwt : ∀ i, i < Pw.length → 0 < (ptsGet Pw i).getD d 0) (u : F)
    (h1 : fnOf Ul p ≤ u) (h2 : u ≤ fnOf Ul Pw.length) (j : ℕ) (hj : j < d)
    (κ : ℕ) (hκ : κ = findSpanLinear p (fnOf Ul) Pw.length u) (w A : F[X])
    (hw : w = spanPoly p (fnOf Ul) Pw κ d) (hA : A = spanPoly p (fnOf Ul) Pw κ j) :
    0 < eval u w ∧
    (tangentCurve (ratCurveDers (curveDersA32 p (fnOf Ul) Pw κ u 1))).1.getD j 0 = eval u A / eval u w ∧
    (tangentCurve (ratCurveDers (curveDersA32 p (fnOf Ul) Pw κ u 1))).2.getD j 0
      = (eval u (derivative A) * eval u w - eval u A * eval u (derivative w)) / eval u w ^ 2 :=
  tangentCurve_rational_quotient p d Ul Pw hC hwt u h1 h2 j hj κ hκ w A hw hA

/-- The quotient-rule values and the first two Leibniz equations are the same thing: for `w ≠ 0` the pair
    `(a/w, (a'·w − a·w')/w²)` solves `w·c = a`, `w·t + w'·c = a'`, and it is the only solution. -/
theorem quotient_rule_solves_leibniz_equations (w w' a a' : F) (hw : w ≠ 0) :
    (w * (a / w) = a ∧ w * ((a' * w - a * w') / w ^ 2) + w' * (a / w) = a') ∧
    ∀ c t, w * c = a → w * t + w' * c = a' → c = a / w ∧ t = (a' * w - a * w') / w ^ 2 :=
  ⟨leibniz_of_quotient_rule w w' a a' hw, fun c t h0 h1 => quotient_rule_of_leibniz w w' a a' c t hw h0 h1⟩

/-- The quotient-rule expression is a DERIVATIVE, not merely the solution of a linear system: whenever the quotient
    is itself a polynomial (`A = Q·w`), it equals Mathlib's derivative of that polynomial at `u`.  (For a genuine
    rational function over `ℝ`: `rational_tangent_is_derivative_of_quotient_real`.) -/
theorem quotient_rule_is_polynomial_derivative_when_divisible (A Q w : F[X]) (u : F) (hA : A = Q * w)
    (hw : eval u w ≠ 0) :
    (eval u (derivative A) * eval u w - eval u A * eval u (derivative w)) / eval u w ^ 2 = eval u (derivative Q) :=
  quotient_rule_polynomial A Q w u hA hw

/-- **Rational surface tangent.**  `operations.tangent(surface, (u, v), normalize=False)` of a NURBS surface with
    positive weights as the op `tans 1 …` runs it (A3.6 as coded on the span pair the two searches return, A4.4, the
    entries `[0][0]`, `[1][0]`, `[0][1]`), every `(u, v)` of the closed domain: with `W` the bivariate weight polynomial
    and `A` the numerator polynomial of coordinate `c` on that span pair, `W(u,v) > 0`, and the returned point `S` and
    vectors `S_u`, `S_v` satisfy `W·S = A`, `W·S_u + W_u·S = A_u`, `W·S_v + W_v·S = A_v` (`pderivU`, `pderivV` = the true
    partial derivatives in `F[X][Y]`). -/
theorem tangent_rational_surface_on_domain (pu pv : ℕ) (Uu Uv : ℕ → F) (su sv : ℕ) (Pw : List (List F)) (u v : F)
    (d c : ℕ) (hUu : KnotsOk pu Uu su) (hUv : KnotsOk pv Uv sv) (hlen : Pw.length = su * sv) (hP : NetOk (d+1) Pw)
    (hwt : ∀ i, i < Pw.length → 0 < (ptsGet Pw i).getD d 0)
    (hu1 : Uu pu ≤ u) (hu2 : u ≤ Uu su) (hv1 : Uv pv ≤ v) (hv2 : v ≤ Uv sv) (hc : c < d)
    (κu κv : ℕ) (hκu : κu = findSpanLinear pu Uu su u) (hκv : κv = findSpanLinear pv Uv sv v) (W A : F[X][Y])
    (hW : W = surfSpanPoly pu pv Uu Uv sv Pw κu κv d) (hA : A = surfSpanPoly pu pv Uu Uv sv Pw κu κv c) :
    0 < W.evalEval u v ∧
    W.evalEval u v * (tangentSurface (ratSurfaceDers (surfaceDersA36 pu pv Uu Uv sv Pw κu κv u v 1) 1)).1.getD c 0
      = A.evalEval u v ∧
    W.evalEval u v * (tangentSurface (ratSurfaceDers (surfaceDersA36 pu pv Uu Uv sv Pw κu κv u v 1) 1)).2.1.getD c 0
      + (pderivU W).evalEval u v
        * (tangentSurface (ratSurfaceDers (surfaceDersA36 pu pv Uu Uv sv Pw κu κv u v 1) 1)).1.getD c 0
      = (pderivU A).evalEval u v ∧
    W.evalEval u v * (tangentSurface (ratSurfaceDers (surfaceDersA36 pu pv Uu Uv sv Pw κu κv u v 1) 1)).2.2.getD c 0
      + (pderivV W).evalEval u v
        * (tangentSurface (ratSurfaceDers (surfaceDersA36 pu pv Uu Uv sv Pw κu κv u v 1) 1)).1.getD c 0
      = (pderivV A).evalEval u v :=
  tangentSurface_rational_domain pu pv Uu Uv su sv Pw u v d c hUu hUv hlen hP hwt hu1 hu2 hv1 hv2 hc κu κv hκu hκv
    W A hW hA

/-- … quotient-rule form: `S = A/W`, `S_u = (A_u·W − A·W_u)/W²`, `S_v = (A_v·W − A·W_v)/W²` at `(u, v)`. -/
theorem rational_surface_tangent_is_quotient_rule (pu pv : ℕ) (Uu Uv : ℕ → F) (su sv : ℕ) (Pw : List (List F))
    (u v : F) (d c : ℕ) (hUu : KnotsOk pu Uu su) (hUv : KnotsOk pv Uv sv) (hlen : Pw.length = su * sv)
    (hP : NetOk (d+1) Pw) (hwt : ∀ i, i < Pw.length → 0 < (ptsGet Pw i).getD d 0)
    (hu1 : Uu pu ≤ u) (hu2 : u ≤ Uu su) (hv1 : Uv pv ≤ v) (hv2 : v ≤ Uv sv) (hc : c < d)
    (κu κv : ℕ) (hκu : κu = findSpanLinear pu Uu su u) (hκv : κv = findSpanLinear pv Uv sv v) (W A : F[X][Y])
    (hW : W = surfSpanPoly pu pv Uu Uv sv Pw κu κv d) (hA : A = surfSpanPoly pu pv Uu Uv sv Pw κu κv c) :
    0 < W.evalEval u v ∧
    (tangentSurface (ratSurfaceDers (surfaceDersA36 pu pv Uu Uv sv Pw κu κv u v 1) 1)).1.getD c 0
      = A.evalEval u v / W.evalEval u v ∧
    (tangentSurface (ratSurfaceDers (surfaceDersA36 pu pv Uu Uv sv Pw κu κv u v 1) 1)).2.1.getD c 0
      = ((pderivU A).evalEval u v * W.evalEval u v - A.evalEval u v * (pderivU W).evalEval u v) / W.evalEval u v ^ 2 ∧
    (tangentSurface (ratSurfaceDers (surfaceDersA36 pu pv Uu Uv sv Pw κu κv u v 1) 1)).2.2.getD c 0
      = ((pderivV A).evalEval u v * W.evalEval u v - A.evalEval u v * (pderivV W).evalEval u v) / W.evalEval u v ^ 2 :=
  tangentSurface_rational_quotient pu pv Uu Uv su sv Pw u v d c hUu hUv hlen hP hwt hu1 hu2 hv1 hv2 hc κu κv hκu hκv
    W A hW hA

/-- **Rational surface normal.**  `operations.normal(surface, (u, v), normalize=False)` of a 3-D NURBS surface as the op
    `nrms 1 …` runs it, POSITIVE weights (`_hwt`: the guard under which the weight function cannot vanish – with weights
    of mixed sign the code divides by `W(u,v) = 0` and raises `ZeroDivisionError`, the op answers `ERR`; the hypothesis
    is not used by the proof, the model's `x/0 = 0` would go on), every `(u, v)` of the closed domain: the call
    succeeds, returns the point of the tangent triple
    and the cross product of ITS two vectors (`Su c`, `Sv c` name the coordinates of the rational tangent vectors
    characterised by the theorem above), and that vector is orthogonal to both. -/
theorem normal_rational_surface_on_domain (pu pv : ℕ) (Uu Uv : ℕ → F) (su sv : ℕ) (Pw : List (List F)) (u v : F)
    (hUu : KnotsOk pu Uu su) (hUv : KnotsOk pv Uv sv) (hlen : Pw.length = su * sv) (hP : NetOk (3+1) Pw)
    (_hwt : ∀ i, i < Pw.length → 0 < (ptsGet Pw i).getD 3 0)
    (hu1 : Uu pu ≤ u) (hu2 : u ≤ Uu su) (hv1 : Uv pv ≤ v) (hv2 : v ≤ Uv sv)
    (κu κv : ℕ) (hκu : κu = findSpanLinear pu Uu su u) (hκv : κv = findSpanLinear pv Uv sv v)
    (Su Sv : ℕ → F)
    (hSu : ∀ c, Su c = (tangentSurface (ratSurfaceDers (surfaceDersA36 pu pv Uu Uv sv Pw κu κv u v 1) 1)).2.1.getD c 0)
    (hSv : ∀ c, Sv c = (tangentSurface (ratSurfaceDers (surfaceDersA36 pu pv Uu Uv sv Pw κu κv u v 1) 1)).2.2.getD c 0) :
    ∃ n, normalSurface (ratSurfaceDers (surfaceDersA36 pu pv Uu Uv sv Pw κu κv u v 1) 1)
        = some ((tangentSurface (ratSurfaceDers (surfaceDersA36 pu pv Uu Uv sv Pw κu κv u v 1) 1)).1, n) ∧
      n = [Su 1 * Sv 2 - Su 2 * Sv 1, Su 2 * Sv 0 - Su 0 * Sv 2, Su 0 * Sv 1 - Su 1 * Sv 0] ∧
      n.getD 0 0 * Su 0 + n.getD 1 0 * Su 1 + n.getD 2 0 * Su 2 = 0 ∧
      n.getD 0 0 * Sv 0 + n.getD 1 0 * Sv 1 + n.getD 2 0 * Sv 2 = 0 :=
  normalSurface_rational_domain pu pv Uu Uv su sv Pw u v hUu hUv hlen hP hu1 hu2 hv1 hv2 κu κv hκu hκv Su Sv hSu hSv

/-! ### `normalize=True` (ops `tancn`, `tansn`, `nrmsn`; the magnitudes `vector_magnitude` computed are inputs) -/

/-- **`vector_normalize` with an exact positive root.**  If `m·m = |v|²` and `m > 0`, the model of
    `linalg.vector_normalize` returns a vector `n` of squared length exactly 1, of the same length as `v`, equal to
    `(1/m)·v` with `1/m > 0`: parallel to `v`, same direction.  (The double `math.sqrt` returns satisfies `m·m = |v|²`
    only up to rounding; the driver ops check it to relative `2⁻⁴⁹` and the oracle checks the unit length to that
    accuracy.) -/
theorem normalized_vector_is_unit_positive_multiple (v : List F) (m : F) (hmm : m * m = Lin.normSq v) (hm : 0 < m) :
    ∃ n, Lin.vectorNormalize v m = some n ∧ Lin.normSq n = 1 ∧ n.length = v.length ∧ 0 < 1 / m ∧
      ∀ j, n.getD j 0 = (1 / m) * v.getD j 0 :=
  Lin.vectorNormalize_spec v m hmm hm

/-- **`vector_normalize` refuses exactly the zero vector** (exact non-negative root): the model answers `none` – the
    `ValueError("The magnitude of the vector is zero")` of the code, driver `ERR` – iff every entry of `v` is zero. -/
theorem normalize_refuses_exactly_the_zero_vector (v : List F) (m : F) (hmm : m * m = Lin.normSq v) (hm : 0 ≤ m) :
    Lin.vectorNormalize v m = none ↔ ∀ x ∈ v, x = 0 :=
  Lin.vectorNormalize_none_iff v m hmm hm

/-- `operations.tangent(curve, u, normalize=True)` (model `tangentCurveN`, op `tancn`) on the derivative table of ANY
    curve, rational or not (what the un-normalised call returns is `tangentCurve ders`, characterised by
    `tangent_curve_on_domain` / `tangent_rational_curve_on_domain`): for an exact positive root `m` of the squared length
    of the first derivative `T`, the call returns the same point and a vector `n` with `|n|² = 1` and `m·n = T`. -/
theorem tangent_curve_normalized (ders : List (List F)) (m : F)
    (hmm : m * m = Lin.normSq (tangentCurve ders).2) (hm : 0 < m) :
    ∃ n, tangentCurveN ders m = some ((tangentCurve ders).1, n) ∧ Lin.normSq n = 1 ∧
      n.length = (tangentCurve ders).2.length ∧ ∀ j, m * n.getD j 0 = (tangentCurve ders).2.getD j 0 :=
  tangentCurveN_spec ders m hmm hm

/-- … and it is refused (the code raises `ValueError`) exactly when the first derivative vanishes. -/
theorem tangent_curve_normalized_refused_iff_zero_derivative (ders : List (List F)) (m : F)
    (hmm : m * m = Lin.normSq (tangentCurve ders).2) (hm : 0 ≤ m) :
    tangentCurveN ders m = none ↔ ∀ x ∈ (tangentCurve ders).2, x = 0 :=
  tangentCurveN_none_iff ders m hmm hm

/-- `operations.tangent(surface, (u, v), normalize=True)` (model `tangentSurfaceN`, op `tansn`) on the derivative table
    of any surface: same point, unit vectors `nu`, `nv` with `mu·nu = S_u`, `mv·nv = S_v`. -/
theorem tangent_surface_normalized (skl : List (List (List F))) (mu mv : F)
    (hmu : mu * mu = Lin.normSq (tangentSurface skl).2.1) (hmv : mv * mv = Lin.normSq (tangentSurface skl).2.2)
    (hu : 0 < mu) (hv : 0 < mv) :
    ∃ nu nv, tangentSurfaceN skl mu mv = some ((tangentSurface skl).1, nu, nv) ∧
      Lin.normSq nu = 1 ∧ Lin.normSq nv = 1 ∧
      nu.length = (tangentSurface skl).2.1.length ∧ nv.length = (tangentSurface skl).2.2.length ∧
      (∀ j, mu * nu.getD j 0 = (tangentSurface skl).2.1.getD j 0) ∧
      (∀ j, mv * nv.getD j 0 = (tangentSurface skl).2.2.getD j 0) :=
  tangentSurfaceN_spec skl mu mv hmu hmv hu hv

/-- … refused exactly when one of the two first partial derivative vectors vanishes (e.g. along a pole edge). -/
theorem tangent_surface_normalized_refused_iff_zero_partial (skl : List (List (List F))) (mu mv : F)
    (hmu : mu * mu = Lin.normSq (tangentSurface skl).2.1) (hmv : mv * mv = Lin.normSq (tangentSurface skl).2.2)
    (hu : 0 ≤ mu) (hv : 0 ≤ mv) :
    tangentSurfaceN skl mu mv = none ↔
      (∀ x ∈ (tangentSurface skl).2.1, x = 0) ∨ (∀ x ∈ (tangentSurface skl).2.2, x = 0) :=
  tangentSurfaceN_none_iff skl mu mv hmu hmv hu hv

/-- `operations.normal(surface, (u, v), normalize=True)` (model `normalSurfaceN`, op `nrmsn`) on any derivative table
    whose un-normalised normal `nrm` exists: same point, a vector `n` with `|n|² = 1` and `m·n = nrm`. -/
theorem normal_surface_normalized (skl : List (List (List F))) (pt nrm : List F) (m : F)
    (h : normalSurface skl = some (pt, nrm)) (hmm : m * m = Lin.normSq nrm) (hm : 0 < m) :
    ∃ n, normalSurfaceN skl m = some (pt, n) ∧ Lin.normSq n = 1 ∧ n.length = nrm.length ∧
      ∀ j, m * n.getD j 0 = nrm.getD j 0 :=
  normalSurfaceN_spec skl pt nrm m h hmm hm

/-- … refused exactly when the cross product vanishes (the two tangent vectors are linearly dependent). -/
theorem normal_surface_normalized_refused_iff_zero_normal (skl : List (List (List F))) (pt nrm : List F) (m : F)
    (h : normalSurface skl = some (pt, nrm)) (hmm : m * m = Lin.normSq nrm) (hm : 0 ≤ m) :
    normalSurfaceN skl m = none ↔ ∀ x ∈ nrm, x = 0 :=
  normalSurfaceN_none_iff skl pt nrm m h hmm hm

/-- **Normalised tangent of a rational curve, end to end** (op `tancn 1 …`: span search, A3.2 as coded, A4.2,
    `vector_normalize`), closed domain, positive weights, exact positive root `m`: the call returns a point `pt` and a
    vector `n` with `|n|² = 1`, `w(u) > 0`, `w·pt = A` and `w·(m·n) + w'·pt = A'` – `pt` is the rational point and `n` is
    the derivative of the quotient `A/w` divided by its length `m`. -/
theorem normalized_tangent_rational_curve_on_domain (p d : ℕ) (Ul : List F) (Pw : List (List F))
    (hC : CurveWF p (d+1) Ul Pw) (hwt : ∀ i, i < Pw.length → 0 < (ptsGet Pw i).getD d 0) (u : F)
    (h1 : fnOf Ul p ≤ u) (h2 : u ≤ fnOf Ul Pw.length) (j : ℕ) (hj : j < d)
    (κ : ℕ) (hκ : κ = findSpanLinear p (fnOf Ul) Pw.length u) (w A : F[X])
    (hw : w = spanPoly p (fnOf Ul) Pw κ d) (hA : A = spanPoly p (fnOf Ul) Pw κ j)
    (m : F) (hmm : m * m = Lin.normSq (tangentCurve (ratCurveDers (curveDersA32 p (fnOf Ul) Pw κ u 1))).2)
    (hm : 0 < m) :
    ∃ pt n, tangentCurveN (ratCurveDers (curveDersA32 p (fnOf Ul) Pw κ u 1)) m = some (pt, n) ∧
      Lin.normSq n = 1 ∧ 0 < eval u w ∧ eval u w * pt.getD j 0 = eval u A ∧
      eval u w * (m * n.getD j 0) + eval u (derivative w) * pt.getD j 0 = eval u (derivative A) :=
  tangentCurveN_rational_domain p d Ul Pw hC hwt u h1 h2 j hj κ hκ w A hw hA m hmm hm

/-- **Normalised tangent of a rational surface, end to end** (op `tansn 1 …`), exact positive roots `mu`, `mv`. -/
theorem normalized_tangent_rational_surface_on_domain (pu pv : ℕ) (Uu Uv : ℕ → F) (su sv : ℕ) (Pw : List (List F))
    (u v : F) (d c : ℕ) (hUu : KnotsOk pu Uu su) (hUv : KnotsOk pv Uv sv) (hlen : Pw.length = su * sv)
    (hP : NetOk (d+1) Pw) (hwt : ∀ i, i < Pw.length → 0 < (ptsGet Pw i).getD d 0)
    (hu1 : Uu pu ≤ u) (hu2 : u ≤ Uu su) (hv1 : Uv pv ≤ v) (hv2 : v ≤ Uv sv) (hc : c < d)
    (κu κv : ℕ) (hκu : κu = findSpanLinear pu Uu su u) (hκv : κv = findSpanLinear pv Uv sv v) (W A : F[X][Y])
    (hW : W = surfSpanPoly pu pv Uu Uv sv Pw κu κv d) (hA : A = surfSpanPoly pu pv Uu Uv sv Pw κu κv c)
    (mu mv : F)
    (hmu : mu * mu
      = Lin.normSq (tangentSurface (ratSurfaceDers (surfaceDersA36 pu pv Uu Uv sv Pw κu κv u v 1) 1)).2.1)
    (hmv : mv * mv
      = Lin.normSq (tangentSurface (ratSurfaceDers (surfaceDersA36 pu pv Uu Uv sv Pw κu κv u v 1) 1)).2.2)
    (hu : 0 < mu) (hv : 0 < mv) :
    ∃ pt nu nv, tangentSurfaceN (ratSurfaceDers (surfaceDersA36 pu pv Uu Uv sv Pw κu κv u v 1) 1) mu mv
        = some (pt, nu, nv) ∧
      Lin.normSq nu = 1 ∧ Lin.normSq nv = 1 ∧ 0 < W.evalEval u v ∧
      W.evalEval u v * pt.getD c 0 = A.evalEval u v ∧
      W.evalEval u v * (mu * nu.getD c 0) + (pderivU W).evalEval u v * pt.getD c 0 = (pderivU A).evalEval u v ∧
      W.evalEval u v * (mv * nv.getD c 0) + (pderivV W).evalEval u v * pt.getD c 0 = (pderivV A).evalEval u v :=
  tangentSurfaceN_rational_domain pu pv Uu Uv su sv Pw u v d c hUu hUv hlen hP hwt hu1 hu2 hv1 hv2 hc κu κv hκu hκv
    W A hW hA mu mv hmu hmv hu hv

/-- **Normalised normal of a rational 3-D surface, end to end** (op `nrmsn 1 …`), positive weights (`_hwt`, the guard
    against a vanishing weight function as above), `m` an exact root of the squared
    length of `S_u × S_v` (`Su`, `Sv` = coordinates of the two rational tangent vectors).  `m > 0`: the call returns the
    point and a vector `n` with `|n|² = 1`, three coordinates, `m·n = S_u × S_v`, orthogonal to `S_u` and `S_v`.
    `m ≥ 0`: the call is refused exactly when `S_u × S_v = 0`. -/
theorem normalized_normal_rational_surface_on_domain (pu pv : ℕ) (Uu Uv : ℕ → F) (su sv : ℕ) (Pw : List (List F))
    (u v : F) (hUu : KnotsOk pu Uu su) (hUv : KnotsOk pv Uv sv) (hlen : Pw.length = su * sv) (hP : NetOk (3+1) Pw)
    (_hwt : ∀ i, i < Pw.length → 0 < (ptsGet Pw i).getD 3 0)
    (hu1 : Uu pu ≤ u) (hu2 : u ≤ Uu su) (hv1 : Uv pv ≤ v) (hv2 : v ≤ Uv sv)
    (κu κv : ℕ) (hκu : κu = findSpanLinear pu Uu su u) (hκv : κv = findSpanLinear pv Uv sv v)
    (Su Sv : ℕ → F)
    (hSu : ∀ c, Su c = (tangentSurface (ratSurfaceDers (surfaceDersA36 pu pv Uu Uv sv Pw κu κv u v 1) 1)).2.1.getD c 0)
    (hSv : ∀ c, Sv c = (tangentSurface (ratSurfaceDers (surfaceDersA36 pu pv Uu Uv sv Pw κu κv u v 1) 1)).2.2.getD c 0)
    (m : F)
    (hmm : m * m = Lin.normSq [Su 1 * Sv 2 - Su 2 * Sv 1, Su 2 * Sv 0 - Su 0 * Sv 2, Su 0 * Sv 1 - Su 1 * Sv 0]) :
    (0 < m → ∃ n, normalSurfaceN (ratSurfaceDers (surfaceDersA36 pu pv Uu Uv sv Pw κu κv u v 1) 1) m
        = some ((tangentSurface (ratSurfaceDers (surfaceDersA36 pu pv Uu Uv sv Pw κu κv u v 1) 1)).1, n) ∧
      Lin.normSq n = 1 ∧ n.length = 3 ∧
      m * n.getD 0 0 = Su 1 * Sv 2 - Su 2 * Sv 1 ∧ m * n.getD 1 0 = Su 2 * Sv 0 - Su 0 * Sv 2 ∧
      m * n.getD 2 0 = Su 0 * Sv 1 - Su 1 * Sv 0 ∧
      n.getD 0 0 * Su 0 + n.getD 1 0 * Su 1 + n.getD 2 0 * Su 2 = 0 ∧
      n.getD 0 0 * Sv 0 + n.getD 1 0 * Sv 1 + n.getD 2 0 * Sv 2 = 0) ∧
    (0 ≤ m → (normalSurfaceN (ratSurfaceDers (surfaceDersA36 pu pv Uu Uv sv Pw κu κv u v 1) 1) m = none ↔
      Su 1 * Sv 2 - Su 2 * Sv 1 = 0 ∧ Su 2 * Sv 0 - Su 0 * Sv 2 = 0 ∧ Su 0 * Sv 1 - Su 1 * Sv 0 = 0)) :=
  normalSurfaceN_rational_domain pu pv Uu Uv su sv Pw u v hUu hUv hlen hP hu1 hu2 hv1 hv2 κu κv hκu hκv Su Sv hSu hSv
    m hmm

/-! ### derivatives on the span the REPAIRED search finds (F-01b): every valid knot vector, whole closed domain

`curveDersR` / `curveDersA32R` / `surfaceDersR` / `surfaceDersA36R` (`Model/SpanRGrid.lean`) are the derivative tables of
this file (`curveDersAt`, `curveDersA32`, `surfaceDersAt`, `surfaceDersA36`: the per-span functions, unchanged) on the span
`findSpanLinearR` returns – the literal model of the repaired `find_span_linear`, which steps back to the last NON-EMPTY
span at the domain end.  `DomOk p U n` (`Lemmas/SpanREval.lean`): non-decreasing knots, `n ≥ p + 1`, `U_p < U_n`; NO
hypothesis on the last span (`KnotsOk` implies `DomOk`).  Ops `cdersr`, `cders32r`, `sdersr`, `sders36r`; compared with
`derivatives` of the repaired code on ordinary shapes and at `u = U_n` of knot vectors with an empty last domain span. -/

/-- **Curve derivatives on the whole closed domain of EVERY valid knot vector** (the last domain span may be empty): for
    `u ∈ [U_p, U_n]` the span `κ` the repaired search finds is a legal index, NOT EMPTY and contains `u`; entry `k ≤ order`
    of the A3.3/A3.4 table on that span (`curveDersR`) is the `k`-th derivative (Mathlib's `Polynomial.derivative`,
    iterated) of the span polynomial of `κ` at `u`.  For `u < U_n` span `κ` is the half-open knot interval of `u` (at a
    knot: derivative from the right); for `u = U_n` it is the LAST NON-EMPTY span of the domain, right end `U_n`, all later
    spans empty: the derivative from the LEFT (`curve_derivatives_repaired_at_domain_end`). -/
theorem curve_derivatives_repaired_on_domain (p d : ℕ) (U : ℕ → F) (P : List (List F)) (hU : DomOk p U P.length)
    (hP : NetOk d P) (u : F) (h1 : U p ≤ u) (h2 : u ≤ U P.length) (order k j : ℕ) (hk : k ≤ order) :
    p ≤ findSpanLinearR p U P.length u ∧ findSpanLinearR p U P.length u < P.length ∧
    U (findSpanLinearR p U P.length u) < U (findSpanLinearR p U P.length u + 1) ∧
    U (findSpanLinearR p U P.length u) ≤ u ∧ u ≤ U (findSpanLinearR p U P.length u + 1) ∧
    (u < U P.length → u < U (findSpanLinearR p U P.length u + 1)) ∧
    ((curveDersR p U P u order).getD k []).getD j 0
      = eval u (derivative^[k] (spanPoly p U P (findSpanLinearR p U P.length u) j)) := by
  obtain ⟨a1, a2, a3, a4, a5, a6, _⟩ := findSpanLinearR_dom p U P.length u hU.pn hU.mono hU.dom h1 h2
  exact ⟨a1, a2, a3, a4, a5, a6, curveDersR_true p d U P hU hP u h1 h2 order k j hk⟩

/-- **A3.2 as coded on the span the repaired search finds** (`CurveEvaluator.derivatives` after the repair, model
    `curveDersA32R`; ops `cders32r`, and `cdersr` through the correspondence of both evaluators): the same values, every
    valid knot vector, whole closed domain. -/
theorem a32_as_coded_repaired_on_domain (p d : ℕ) (U : ℕ → F) (P : List (List F)) (hU : DomOk p U P.length)
    (hP : NetOk d P) (u : F) (h1 : U p ≤ u) (h2 : u ≤ U P.length) (order k j : ℕ) (hk : k ≤ order) :
    ((curveDersA32R p U P u order).getD k []).getD j 0
      = eval u (derivative^[k] (spanPoly p U P (findSpanLinearR p U P.length u) j)) :=
  curveDersA32R_true p d U P hU hP u h1 h2 order k j hk

/-- **At the domain end the derivatives are the LEFT-HAND derivatives**, every valid knot vector: let `κ` be the span the
    repaired search finds at `U_n`.  Then `U_κ < U_n` (span `κ` is not empty and ends at `U_n`), the curve
    (`evaluate_single` through the repaired search) coincides with the span polynomial of `κ` on the whole half-open
    interval `[U_κ, U_n)`, and `derivatives(U_n, order)` (both evaluators) returns the iterated derivatives of THAT
    polynomial at `U_n` – the derivatives from the left, also when the last span `[U_{n-1}, U_n]` is empty. -/
theorem curve_derivatives_repaired_at_domain_end (p d : ℕ) (U : ℕ → F) (P : List (List F)) (hU : DomOk p U P.length)
    (hP : NetOk d P) (order k j : ℕ) (hk : k ≤ order) :
    U (findSpanLinearR p U P.length (U P.length)) < U P.length ∧
    U (findSpanLinearR p U P.length (U P.length) + 1) = U P.length ∧
    (∀ u, U (findSpanLinearR p U P.length (U P.length)) ≤ u → u < U P.length →
      (curvePointR p U P u).getD j 0 = eval u (spanPoly p U P (findSpanLinearR p U P.length (U P.length)) j)) ∧
    ((curveDersR p U P (U P.length) order).getD k []).getD j 0
      = eval (U P.length) (derivative^[k] (spanPoly p U P (findSpanLinearR p U P.length (U P.length)) j)) ∧
    ((curveDersA32R p U P (U P.length) order).getD k []).getD j 0
      = eval (U P.length) (derivative^[k] (spanPoly p U P (findSpanLinearR p U P.length (U P.length)) j)) := by
  obtain ⟨_, _, b3, b4, _⟩ := findSpanLinearR_right_end p U P.length hU.pn hU.mono hU.dom
  have hlo : U p ≤ U P.length := le_of_lt hU.dom
  exact ⟨lt_of_lt_of_eq b3 b4, b4, fun u h1 h2 => curvePointR_last_span p d U P hU hP u h1 h2 j,
    curveDersR_true p d U P hU hP _ hlo (le_refl _) order k j hk,
    curveDersA32R_true p d U P hU hP _ hlo (le_refl _) order k j hk⟩

/-- **Rational curves, repaired search, every valid knot vector, closed domain, positive weights**: the weight polynomial
    of the span found is positive at `u`, and A4.2 over the table of either evaluator (`curveDersR`: A3.3/A3.4,
    `curveDersA32R`: A3.2 as coded, the default) solves the Leibniz system of the true derivatives of that span. -/
theorem rational_curve_derivatives_repaired_leibniz (p d : ℕ) (U : ℕ → F) (Pw : List (List F))
    (hU : DomOk p U Pw.length) (hP : NetOk (d+1) Pw) (hwt : ∀ i, i < Pw.length → 0 < (ptsGet Pw i).getD d 0) (u : F)
    (h1 : U p ≤ u) (h2 : u ≤ U Pw.length) (order k j : ℕ) (hk : k ≤ order) (hj : j < d) :
    0 < eval u (spanPoly p U Pw (findSpanLinearR p U Pw.length u) d) ∧
    ∑ i ∈ Finset.range (k+1), (Nat.choose k i : F)
        * eval u (derivative^[i] (spanPoly p U Pw (findSpanLinearR p U Pw.length u) d))
        * ((ratCurveDers (curveDersR p U Pw u order)).getD (k - i) []).getD j 0
      = eval u (derivative^[k] (spanPoly p U Pw (findSpanLinearR p U Pw.length u) j)) ∧
    ∑ i ∈ Finset.range (k+1), (Nat.choose k i : F)
        * eval u (derivative^[i] (spanPoly p U Pw (findSpanLinearR p U Pw.length u) d))
        * ((ratCurveDers (curveDersA32R p U Pw u order)).getD (k - i) []).getD j 0
      = eval u (derivative^[k] (spanPoly p U Pw (findSpanLinearR p U Pw.length u) j)) :=
  ⟨(ratCurveDersR_true p d U Pw hU hP hwt u h1 h2 order k j hk hj).1,
   (ratCurveDersR_true p d U Pw hU hP hwt u h1 h2 order k j hk hj).2,
   (ratCurveDersA32R_true p d U Pw hU hP hwt u h1 h2 order k j hk hj).2⟩

/-- **Surface derivatives on the closed domain of EVERY valid knot vectors** (per direction `DomOk`): on the span pair the
    repaired search finds (both spans non-empty and containing the parameter, `C03.findSpanLinearR_spec`) every entry
    `[k][l]` of the tensor-formula table (`surfaceDersR`; `tri = true`: `SurfaceEvaluator2`, entries `k + l ≤ order`) and of
    A3.6 as coded (`surfaceDersA36R`, the default evaluator) is the mixed partial derivative of the bivariate span
    polynomial of that span pair at `(u, v)`; at `u = U_n` / `v = V_m` the partial derivatives from the left. -/
theorem surface_derivatives_repaired_on_domain (pu pv d : ℕ) (Uu Uv : ℕ → F) (su sv : ℕ) (P : List (List F))
    (hUu : DomOk pu Uu su) (hUv : DomOk pv Uv sv) (hlen : P.length = su * sv) (hP : NetOk d P) (u v : F)
    (hu1 : Uu pu ≤ u) (hu2 : u ≤ Uu su) (hv1 : Uv pv ≤ v) (hv2 : v ≤ Uv sv) (order k l j : ℕ)
    (hk : k ≤ order) (hl : l ≤ order) :
    (∀ tri : Bool, tri = false ∨ k + l ≤ order →
      (((surfaceDersR pu pv Uu Uv su sv P u v order tri).getD k []).getD l []).getD j 0
        = (pderivU^[k] (pderivV^[l] (surfSpanPoly pu pv Uu Uv sv P (findSpanLinearR pu Uu su u)
            (findSpanLinearR pv Uv sv v) j))).evalEval u v) ∧
    (((surfaceDersA36R pu pv Uu Uv su sv P u v order).getD k []).getD l []).getD j 0
      = (pderivU^[k] (pderivV^[l] (surfSpanPoly pu pv Uu Uv sv P (findSpanLinearR pu Uu su u)
          (findSpanLinearR pv Uv sv v) j))).evalEval u v :=
  ⟨fun tri htri => surfaceDersR_true pu pv d Uu Uv su sv P hUu hUv hlen hP u v hu1 hu2 hv1 hv2 order k l j tri hk hl htri,
   surfaceDersA36R_true pu pv d Uu Uv su sv P hUu hUv hlen hP u v hu1 hu2 hv1 hv2 order k l j hk hl⟩

/-- **Rational surfaces, repaired search, every valid knot vectors, closed domain, positive weights**: the weight
    polynomial of the span pair found is positive at `(u, v)` and A4.4 over the table of the default evaluator as coded
    (`surfaceDersA36R`) and over the tensor-formula table (`surfaceDersR … false`) solves the bivariate Leibniz system of
    the true partial derivatives of that span pair. -/
theorem rational_surface_derivatives_repaired_on_domain (pu pv d : ℕ) (Uu Uv : ℕ → F) (su sv : ℕ) (Pw : List (List F))
    (hUu : DomOk pu Uu su) (hUv : DomOk pv Uv sv) (hlen : Pw.length = su * sv) (hP : NetOk (d+1) Pw)
    (hwt : ∀ i, i < Pw.length → 0 < (ptsGet Pw i).getD d 0) (u v : F)
    (hu1 : Uu pu ≤ u) (hu2 : u ≤ Uu su) (hv1 : Uv pv ≤ v) (hv2 : v ≤ Uv sv)
    (order k l c : ℕ) (hk : k ≤ order) (hl : l ≤ order) (hc : c < d) :
    0 < (surfSpanPoly pu pv Uu Uv sv Pw (findSpanLinearR pu Uu su u) (findSpanLinearR pv Uv sv v) d).evalEval u v ∧
    ∑ i ∈ Finset.range (k+1), ∑ j ∈ Finset.range (l+1),
      (Nat.choose k i : F) * (Nat.choose l j : F)
        * (pderivU^[i] (pderivV^[j] (surfSpanPoly pu pv Uu Uv sv Pw (findSpanLinearR pu Uu su u)
            (findSpanLinearR pv Uv sv v) d))).evalEval u v
        * ((((ratSurfaceDers (surfaceDersA36R pu pv Uu Uv su sv Pw u v order) order).getD (k - i) []).getD (l - j) []).getD c 0)
      = (pderivU^[k] (pderivV^[l] (surfSpanPoly pu pv Uu Uv sv Pw (findSpanLinearR pu Uu su u)
            (findSpanLinearR pv Uv sv v) c))).evalEval u v ∧
    ∑ i ∈ Finset.range (k+1), ∑ j ∈ Finset.range (l+1),
      (Nat.choose k i : F) * (Nat.choose l j : F)
        * (pderivU^[i] (pderivV^[j] (surfSpanPoly pu pv Uu Uv sv Pw (findSpanLinearR pu Uu su u)
            (findSpanLinearR pv Uv sv v) d))).evalEval u v
        * ((((ratSurfaceDers (surfaceDersR pu pv Uu Uv su sv Pw u v order false) order).getD (k - i) []).getD (l - j) []).getD c 0)
      = (pderivU^[k] (pderivV^[l] (surfSpanPoly pu pv Uu Uv sv Pw (findSpanLinearR pu Uu su u)
            (findSpanLinearR pv Uv sv v) c))).evalEval u v :=
  ⟨(ratSurfaceDersA36R_true pu pv d Uu Uv su sv Pw hUu hUv hlen hP hwt u v hu1 hu2 hv1 hv2 order k l c hk hl hc).1,
   (ratSurfaceDersA36R_true pu pv d Uu Uv su sv Pw hUu hUv hlen hP hwt u v hu1 hu2 hv1 hv2 order k l c hk hl hc).2,
   (ratSurfaceDersR_true pu pv d Uu Uv su sv Pw hUu hUv hlen hP hwt u v hu1 hu2 hv1 hv2 order k l c hk hl hc).2⟩

/-- **A3.7 + A3.8 as coded through the repaired search** (`SurfaceEvaluator2.derivatives`, model `surfaceDersA38R` =
    `surfaceDersA38` on the span pair `findSpanLinearR` finds; op `sders38r`): on the closed domain of EVERY sorted knot
    vectors with `U_p < U_n` per direction (`DomOk`; the last domain span may be empty) the table returned is the triangular
    tensor-formula table `surfaceDersR … true`, every entry `[k][l]` with `k + l ≤ order` is the mixed partial derivative
    of the bivariate span polynomial of the (legal, non-empty, parameter-containing) span pair found – at `u = U_n` /
    `v = V_m` from the left – and the entries with `k + l > order` are the zero vectors `SKL` was initialised with. -/
theorem a38_as_coded_repaired_on_domain (pu pv d : ℕ) (Uu Uv : ℕ → F) (su sv : ℕ) (P : List (List F))
    (hUu : DomOk pu Uu su) (hUv : DomOk pv Uv sv) (hlen : P.length = su * sv) (hP : NetOk d P) (u v : F)
    (hu1 : Uu pu ≤ u) (hu2 : u ≤ Uu su) (hv1 : Uv pv ≤ v) (hv2 : v ≤ Uv sv) (order : ℕ) :
    surfaceDersA38R pu pv Uu Uv su sv P u v order = surfaceDersR pu pv Uu Uv su sv P u v order true ∧
    (∀ k l j, k + l ≤ order →
      (((surfaceDersA38R pu pv Uu Uv su sv P u v order).getD k []).getD l []).getD j 0
        = (pderivU^[k] (pderivV^[l] (surfSpanPoly pu pv Uu Uv sv P (findSpanLinearR pu Uu su u)
            (findSpanLinearR pv Uv sv v) j))).evalEval u v) ∧
    (∀ k l, k ≤ order → l ≤ order → order < k + l →
      ((surfaceDersA38R pu pv Uu Uv su sv P u v order).getD k []).getD l [] = vzero (dimOf P)) :=
  ⟨surfaceDersA38R_eq_surfaceDersR pu pv d Uu Uv su sv P hUu hUv hlen hP u v hu1 hu2 hv1 hv2 order,
   fun k l j hkl => surfaceDersA38R_true pu pv d Uu Uv su sv P hUu hUv hlen hP u v hu1 hu2 hv1 hv2 order k l j hkl,
   fun k l hk hl hkl =>
     surfaceDersA38R_rest_zero pu pv d Uu Uv su sv P hUu hUv hlen hP u v hu1 hu2 hv1 hv2 order k l hk hl hkl⟩

/-- … and with a non-empty last span per direction (`KnotsOk`) it is `surfaceDersA38` on the span pair of the search
    without step back: the `a38_as_coded_…` theorems above are statements about the repaired code. -/
theorem a38_as_coded_repaired_eq (pu pv : ℕ) (Uu Uv : ℕ → F) (su sv : ℕ) (P : List (List F)) (u v : F) (order : ℕ)
    (hUu : KnotsOk pu Uu su) (hUv : KnotsOk pv Uv sv)
    (hu1 : Uu pu ≤ u) (hu2 : u ≤ Uu su) (hv1 : Uv pv ≤ v) (hv2 : v ≤ Uv sv) :
    surfaceDersA38R pu pv Uu Uv su sv P u v order
      = surfaceDersA38 pu pv Uu Uv su sv P (findSpanLinear pu Uu su u) (findSpanLinear pv Uv sv v) u v order :=
  surfaceDersA38R_eq pu pv Uu Uv su sv P u v order hUu hUv hu1 hu2 hv1 hv2

/-- non-vacuity / closed witness: degree (2,1), `Uu = [0,0,1,2,4,4,5,5]` (empty last domain span `[4,4]`), `u = 4 = U_5`,
    `v = 1/2`: A3.7 + A3.8 as coded on the span pair the repaired search finds equals the triangular table, and its
    `[1][0]` entry is non-zero (the table on the empty span 4 would be all zeros). -/
theorem a38_as_coded_repaired_witness_F01b :
    let Uu := fnOf ([0,0,1,2,4,4,5,5] : List ℚ)
    let Uv := fnOf ([0,0,1,1] : List ℚ)
    let P : List (List ℚ) := [[0,0],[0,1],[1,2],[1,3],[2,0],[2,2],[3,1],[3,4],[5,0],[5,1]]
    findSpanLinearR 2 Uu 5 4 = 3 ∧
    surfaceDersA38R 2 1 Uu Uv 5 2 P 4 (1/2) 1 = surfaceDersR 2 1 Uu Uv 5 2 P 4 (1/2) 1 true ∧
    ((surfaceDersA38R 2 1 Uu Uv 5 2 P 4 (1/2) 1).getD 1 []).getD 0 [] ≠ [0, 0] := by
  decide +kernel

/-- **`operations.tangent(curve, u, normalize=False)` through the repaired search** (op `tancr`: `tangentCurve` of
    `curveDersA32R … 1`), non-rational curve, closed domain of EVERY sorted knot vector with `U_p < U_n` (last span possibly
    empty): (curve point, TRUE first derivative) of the span polynomial of the non-empty span found – at `u = U_n` the
    left-hand derivative (`curve_derivatives_repaired_at_domain_end`).  Rational curves: entries 0, 1 of the table of
    `rational_curve_derivatives_repaired_leibniz`. -/
theorem tangent_curve_repaired_on_domain (p d : ℕ) (U : ℕ → F) (P : List (List F)) (hU : DomOk p U P.length)
    (hP : NetOk d P) (u : F) (h1 : U p ≤ u) (h2 : u ≤ U P.length) (j : ℕ) :
    (tangentCurve (curveDersA32R p U P u 1)).1.getD j 0
      = eval u (spanPoly p U P (findSpanLinearR p U P.length u) j) ∧
    (tangentCurve (curveDersA32R p U P u 1)).2.getD j 0
      = eval u (derivative (spanPoly p U P (findSpanLinearR p U P.length u) j)) :=
  tangentCurveR_true p d U P hU hP u h1 h2 j

/-- **`operations.tangent` of a RATIONAL curve through the repaired search** (op `tancr 1 …`: A3.2 as coded on the span
    found by the repaired search, A4.2, `(ders[0], ders[1])`), closed domain of EVERY sorted knot vector with `U_p < U_n`,
    positive weights: with `w`, `A` the weight and numerator polynomials of the non-empty span found, `w(u) > 0`, the point
    is `A(u) / w(u)` and the tangent vector the quotient rule `(A'·w − A·w') / w²` – at `u = U_n` from the left. -/
theorem tangent_rational_curve_repaired_quotient_rule (p d : ℕ) (U : ℕ → F) (Pw : List (List F))
    (hU : DomOk p U Pw.length) (hP : NetOk (d+1) Pw) (hwt : ∀ i, i < Pw.length → 0 < (ptsGet Pw i).getD d 0) (u : F)
    (h1 : U p ≤ u) (h2 : u ≤ U Pw.length) (j : ℕ) (hj : j < d)
    (w A : F[X]) (hw : w = spanPoly p U Pw (findSpanLinearR p U Pw.length u) d)
    (hA : A = spanPoly p U Pw (findSpanLinearR p U Pw.length u) j) :
    0 < eval u w ∧
    (tangentCurve (ratCurveDers (curveDersA32R p U Pw u 1))).1.getD j 0 = eval u A / eval u w ∧
    (tangentCurve (ratCurveDers (curveDersA32R p U Pw u 1))).2.getD j 0
      = (eval u (derivative A) * eval u w - eval u A * eval u (derivative w)) / eval u w ^ 2 :=
  tangentCurveR_rational_quotient p d U Pw hU hP hwt u h1 h2 j hj w A hw hA

/-- **`operations.tangent(surface, (u, v), normalize=False)` through the repaired search** (op `tansr`), non-rational
    surface, closed domain, per direction `DomOk`: (surface point, `∂S/∂u`, `∂S/∂v`) of the bivariate span polynomial of
    the non-empty span pair found.  Rational: entries of `rational_surface_derivatives_repaired_on_domain`. -/
theorem tangent_surface_repaired_on_domain (pu pv d : ℕ) (Uu Uv : ℕ → F) (su sv : ℕ) (P : List (List F))
    (hUu : DomOk pu Uu su) (hUv : DomOk pv Uv sv) (hlen : P.length = su * sv) (hP : NetOk d P) (u v : F)
    (hu1 : Uu pu ≤ u) (hu2 : u ≤ Uu su) (hv1 : Uv pv ≤ v) (hv2 : v ≤ Uv sv) (j : ℕ) :
    (tangentSurface (surfaceDersA36R pu pv Uu Uv su sv P u v 1)).1.getD j 0
      = (surfSpanPoly pu pv Uu Uv sv P (findSpanLinearR pu Uu su u) (findSpanLinearR pv Uv sv v) j).evalEval u v ∧
    (tangentSurface (surfaceDersA36R pu pv Uu Uv su sv P u v 1)).2.1.getD j 0
      = (pderivU (surfSpanPoly pu pv Uu Uv sv P (findSpanLinearR pu Uu su u)
          (findSpanLinearR pv Uv sv v) j)).evalEval u v ∧
    (tangentSurface (surfaceDersA36R pu pv Uu Uv su sv P u v 1)).2.2.getD j 0
      = (pderivV (surfSpanPoly pu pv Uu Uv sv P (findSpanLinearR pu Uu su u)
          (findSpanLinearR pv Uv sv v) j)).evalEval u v :=
  tangentSurfaceR_true pu pv d Uu Uv su sv P hUu hUv hlen hP u v hu1 hu2 hv1 hv2 j

/-- **`operations.tangent` of a RATIONAL surface through the repaired search** (op `tansr 1 …`: A3.6 as coded on the span
    pair found by the repaired search, A4.4, entries `[0][0]`, `[1][0]`, `[0][1]`), closed domain, per direction `DomOk`
    (last span possibly empty), positive weights: with `W`, `A` the weight and numerator polynomials of the span pair
    found, `W(u,v) > 0`, `S = A / W`, `S_u = (A_u·W − A·W_u) / W²`, `S_v = (A_v·W − A·W_v) / W²`. -/
theorem tangent_rational_surface_repaired_quotient_rule (pu pv d : ℕ) (Uu Uv : ℕ → F) (su sv : ℕ) (Pw : List (List F))
    (hUu : DomOk pu Uu su) (hUv : DomOk pv Uv sv) (hlen : Pw.length = su * sv) (hP : NetOk (d+1) Pw)
    (hwt : ∀ i, i < Pw.length → 0 < (ptsGet Pw i).getD d 0) (u v : F)
    (hu1 : Uu pu ≤ u) (hu2 : u ≤ Uu su) (hv1 : Uv pv ≤ v) (hv2 : v ≤ Uv sv) (c : ℕ) (hc : c < d) (W A : F[X][Y])
    (hW : W = surfSpanPoly pu pv Uu Uv sv Pw (findSpanLinearR pu Uu su u) (findSpanLinearR pv Uv sv v) d)
    (hA : A = surfSpanPoly pu pv Uu Uv sv Pw (findSpanLinearR pu Uu su u) (findSpanLinearR pv Uv sv v) c) :
    0 < W.evalEval u v ∧
    (tangentSurface (ratSurfaceDers (surfaceDersA36R pu pv Uu Uv su sv Pw u v 1) 1)).1.getD c 0
      = A.evalEval u v / W.evalEval u v ∧
    (tangentSurface (ratSurfaceDers (surfaceDersA36R pu pv Uu Uv su sv Pw u v 1) 1)).2.1.getD c 0
      = ((pderivU A).evalEval u v * W.evalEval u v - A.evalEval u v * (pderivU W).evalEval u v) / W.evalEval u v ^ 2 ∧
    (tangentSurface (ratSurfaceDers (surfaceDersA36R pu pv Uu Uv su sv Pw u v 1) 1)).2.2.getD c 0
      = ((pderivV A).evalEval u v * W.evalEval u v - A.evalEval u v * (pderivV W).evalEval u v) / W.evalEval u v ^ 2 :=
  tangentSurfaceR_rational_quotient pu pv d Uu Uv su sv Pw hUu hUv hlen hP hwt u v hu1 hu2 hv1 hv2 c hc W A hW hA

/-- **`operations.normal(surface, (u, v), normalize=False)` through the repaired search** (op `nrmsr`), non-rational 3-D
    surface, closed domain, per direction `DomOk`: the surface point and the cross product of the TRUE first partials of
    the span pair found, orthogonal to both. -/
theorem normal_surface_repaired_on_domain (pu pv : ℕ) (Uu Uv : ℕ → F) (su sv : ℕ) (P : List (List F))
    (hUu : DomOk pu Uu su) (hUv : DomOk pv Uv sv) (hlen : P.length = su * sv) (hP : NetOk 3 P) (u v : F)
    (hu1 : Uu pu ≤ u) (hu2 : u ≤ Uu su) (hv1 : Uv pv ≤ v) (hv2 : v ≤ Uv sv)
    (Su Sv : ℕ → F)
    (hSu : ∀ c, Su c = (pderivU (surfSpanPoly pu pv Uu Uv sv P (findSpanLinearR pu Uu su u)
      (findSpanLinearR pv Uv sv v) c)).evalEval u v)
    (hSv : ∀ c, Sv c = (pderivV (surfSpanPoly pu pv Uu Uv sv P (findSpanLinearR pu Uu su u)
      (findSpanLinearR pv Uv sv v) c)).evalEval u v) :
    ∃ pt n, normalSurface (surfaceDersA36R pu pv Uu Uv su sv P u v 1) = some (pt, n) ∧
      (∀ c, pt.getD c 0 = (surfSpanPoly pu pv Uu Uv sv P (findSpanLinearR pu Uu su u)
        (findSpanLinearR pv Uv sv v) c).evalEval u v) ∧
      n = [Su 1 * Sv 2 - Su 2 * Sv 1, Su 2 * Sv 0 - Su 0 * Sv 2, Su 0 * Sv 1 - Su 1 * Sv 0] ∧
      n.getD 0 0 * Su 0 + n.getD 1 0 * Su 1 + n.getD 2 0 * Su 2 = 0 ∧
      n.getD 0 0 * Sv 0 + n.getD 1 0 * Sv 1 + n.getD 2 0 * Sv 2 = 0 :=
  normalSurfaceR_true pu pv Uu Uv su sv P hUu hUv hlen hP u v hu1 hu2 hv1 hv2 Su Sv hSu hSv

/-- **`operations.normal` of a RATIONAL 3-D surface through the repaired search** (op `nrmsr 1 …`), closed domain, per
    direction `DomOk`: the result is the point entry of the tangent triple together with the cross product of the two
    rational tangent vectors `Su`, `Sv` (whose values are given by `tangent_rational_surface_repaired_quotient_rule`), and
    that vector is orthogonal to both. -/
theorem normal_rational_surface_repaired_on_domain (pu pv : ℕ) (Uu Uv : ℕ → F) (su sv : ℕ) (Pw : List (List F)) (u v : F)
    (hUu : DomOk pu Uu su) (hUv : DomOk pv Uv sv) (hlen : Pw.length = su * sv) (hP : NetOk (3+1) Pw)
    (hu1 : Uu pu ≤ u) (hu2 : u ≤ Uu su) (hv1 : Uv pv ≤ v) (hv2 : v ≤ Uv sv)
    (Su Sv : ℕ → F)
    (hSu : ∀ c, Su c = (tangentSurface (ratSurfaceDers (surfaceDersA36R pu pv Uu Uv su sv Pw u v 1) 1)).2.1.getD c 0)
    (hSv : ∀ c, Sv c = (tangentSurface (ratSurfaceDers (surfaceDersA36R pu pv Uu Uv su sv Pw u v 1) 1)).2.2.getD c 0) :
    ∃ n, normalSurface (ratSurfaceDers (surfaceDersA36R pu pv Uu Uv su sv Pw u v 1) 1)
        = some ((tangentSurface (ratSurfaceDers (surfaceDersA36R pu pv Uu Uv su sv Pw u v 1) 1)).1, n) ∧
      n = [Su 1 * Sv 2 - Su 2 * Sv 1, Su 2 * Sv 0 - Su 0 * Sv 2, Su 0 * Sv 1 - Su 1 * Sv 0] ∧
      n.getD 0 0 * Su 0 + n.getD 1 0 * Su 1 + n.getD 2 0 * Su 2 = 0 ∧
      n.getD 0 0 * Sv 0 + n.getD 1 0 * Sv 1 + n.getD 2 0 * Sv 2 = 0 :=
  normalSurfaceR_rational pu pv Uu Uv su sv Pw u v hUu hUv hlen hP hu1 hu2 hv1 hv2 Su Sv hSu hSv

/-- non-vacuity / closed witness (inputs of `curve_derivatives_repaired_witness_F01b` (1)): degree 2,
    `U = [0,0,1,2,4,4,5,5]`, `u = 4 = U_5`: the tangent on the span the repaired search finds is (point `(3,1)`, first
    derivative `(1,1)` of the piece on `[2,4]`); on the empty span 4 of the search without step back it is all zeros. -/
theorem tangent_curve_repaired_witness_F01b :
    let U := fnOf ([0,0,1,2,4,4,5,5] : List ℚ)
    let P : List (List ℚ) := [[0,0],[1,1],[2,0],[3,1],[4,0]]
    tangentCurve (curveDersA32R 2 U P 4 1) = ([3,1], [1,1]) ∧
    tangentCurve (curveDersA32 2 U P (findSpanLinear 2 U 5 4) 4 1) = ([0,0], [0,0]) := by
  decide +kernel

/-- **With a non-empty last span the R tables ARE the tables of the theorems above** (`KnotsOk` per direction, every
    parameter of the closed domain): every statement of this file about the derivative tables on the span `findSpanLinear`
    returns (`…_on_domain`, `…_of_true_derivatives`, tangent / normal) is a statement about the repaired code. -/
theorem derivatives_repaired_eq_derivatives (pu pv : ℕ) (Uu Uv : ℕ → F) (su sv : ℕ) (P : List (List F)) (u v : F)
    (order : ℕ) (hUu : KnotsOk pu Uu su) (hUv : KnotsOk pv Uv sv)
    (hu1 : Uu pu ≤ u) (hu2 : u ≤ Uu su) (hv1 : Uv pv ≤ v) (hv2 : v ≤ Uv sv) :
    (su = P.length → curveDersR pu Uu P u order = curveDers pu Uu P u order ∧
      curveDersA32R pu Uu P u order = curveDersA32 pu Uu P (findSpanLinear pu Uu P.length u) u order) ∧
    (∀ tri, surfaceDersR pu pv Uu Uv su sv P u v order tri
      = surfaceDersAt pu pv Uu Uv sv P (findSpanLinear pu Uu su u) (findSpanLinear pv Uv sv v) u v order tri) ∧
    surfaceDersA36R pu pv Uu Uv su sv P u v order
      = surfaceDersA36 pu pv Uu Uv sv P (findSpanLinear pu Uu su u) (findSpanLinear pv Uv sv v) u v order :=
  ⟨fun h => ⟨curveDersR_eq_curveDers pu Uu P u order (h ▸ hUu) hu1 (h ▸ hu2),
      curveDersA32R_eq pu Uu P u order (h ▸ hUu) hu1 (h ▸ hu2)⟩,
   fun tri => surfaceDersR_eq pu pv Uu Uv su sv P u v order tri hUu hUv hu1 hu2 hv1 hv2,
   surfaceDersA36R_eq pu pv Uu Uv su sv P u v order hUu hUv hu1 hu2 hv1 hv2⟩

/-- **Derivatives at the end of a domain with an empty last span** (closed witnesses; inputs of
    `C01.curve_eval_repaired_witness_F01b`).  (1) degree 2, `U = [0,0,1,2,4,4,5,5]`, 5 control points, `u = 4 = U_5`: both
    evaluators on the span the repaired search finds (span 3 = `[2, 4]`) return point `(3, 1)`, first derivative `(1, 1)`,
    second derivative `(1/6, 5/6)` – the second derivative of the quadratic piece on `[2, 4]`, the same as at `u = 39/10`
    inside that span (left-hand values); the table on the span the search WITHOUT step back finds (the empty span 4) is all
    zeros (division by zero).  (2) end knot repeated `p + 2` times, `U = [0,0,0,1/2,1,1,1,1]`, `u = 1`, order 3: point
    `(3, 1)`, derivatives `(4, 4)`, `(4, 12)` of the piece on `[1/2, 1]`, zero above the degree.
    (Closed witness check: a statement about these concrete inputs, decided by evaluation.) -/
theorem curve_derivatives_repaired_witness_F01b :
    curveDersR 2 (fnOf ([0,0,1,2,4,4,5,5] : List ℚ)) [[0,0],[1,1],[2,0],[3,1],[4,0]] 4 2 = [[3, 1], [1, 1], [1/6, 5/6]] ∧
    curveDersA32R 2 (fnOf ([0,0,1,2,4,4,5,5] : List ℚ)) [[0,0],[1,1],[2,0],[3,1],[4,0]] 4 2 = [[3, 1], [1, 1], [1/6, 5/6]] ∧
    curveDersR 2 (fnOf ([0,0,1,2,4,4,5,5] : List ℚ)) [[0,0],[1,1],[2,0],[3,1],[4,0]] (39/10) 2
      = [[3481/1200, 217/240], [59/60, 11/12], [1/6, 5/6]] ∧
    curveDers 2 (fnOf ([0,0,1,2,4,4,5,5] : List ℚ)) [[0,0],[1,1],[2,0],[3,1],[4,0]] 4 2 = [[0, 0], [0, 0], [0, 0]] ∧
    curveDersR 2 (fnOf ([0,0,0,1/2,1,1,1,1] : List ℚ)) [[0,0],[1,1],[2,0],[3,1],[4,0]] 1 3
      = [[3, 1], [4, 4], [4, 12], [0, 0]] ∧
    curveDersA32R 2 (fnOf ([0,0,0,1/2,1,1,1,1] : List ℚ)) [[0,0],[1,1],[2,0],[3,1],[4,0]] 1 3
      = [[3, 1], [4, 4], [4, 12], [0, 0]] := by
  decide +kernel

/-- non-vacuity of the `DomOk` hypotheses: that knot vector (empty last domain span) with 5 planar control points, at the
    domain end; the theorem instantiated there -/
example : DomOk 2 (fnOf ([0,0,1,2,4,4,5,5] : List ℚ)) ([[0,0],[1,1],[2,0],[3,1],[4,0]] : List (List ℚ)).length ∧
    NetOk 2 ([[0,0],[1,1],[2,0],[3,1],[4,0]] : List (List ℚ)) :=
  ⟨⟨mono_of_pairwise _ (by decide +kernel), by decide, by decide +kernel⟩,
   by intro pt hpt; simp at hpt; rcases hpt with h | h | h | h | h <;> simp [h]⟩

example (j : ℕ) :
    ((curveDersR 2 (fnOf ([0,0,1,2,4,4,5,5] : List ℚ)) [[0,0],[1,1],[2,0],[3,1],[4,0]] 4 2).getD 1 []).getD j 0
      = eval 4 (derivative^[1] (spanPoly 2 (fnOf ([0,0,1,2,4,4,5,5] : List ℚ)) [[0,0],[1,1],[2,0],[3,1],[4,0]]
          (findSpanLinearR 2 (fnOf ([0,0,1,2,4,4,5,5] : List ℚ)) 5 4) j)) :=
  (curve_derivatives_repaired_on_domain 2 2 (fnOf ([0,0,1,2,4,4,5,5] : List ℚ)) [[0,0],[1,1],[2,0],[3,1],[4,0]]
    ⟨mono_of_pairwise _ (by decide +kernel), by decide, by decide +kernel⟩
    (by intro pt hpt; simp at hpt; rcases hpt with h | h | h | h | h <;> simp [h])
    4 (by decide +kernel) (by decide +kernel) 2 1 j (by omega)).2.2.2.2.2.2

end ordered

/-! ### over `ℝ`: the rational tangent vectors are derivatives in the sense of analysis -/

/-- **Real rational curves.**  Over `ℝ` Mathlib's `HasDerivAt` is available: the function `x ↦ A(x) / w(x)` (numerator and
    weight polynomial of the span found; the curve coincides with it on that span) has at `u` the value and the derivative
    that `operations.tangent` returns (op `tanc 1 …`).  At a knot: the piece to the right; at the right end of the
    domain: the piece to the left. -/
theorem rational_tangent_is_derivative_of_quotient_real (p d : ℕ) (Ul : List ℝ) (Pw : List (List ℝ))
    (hC : CurveWF p (d+1) Ul Pw) (hwt : ∀ i, i < Pw.length → 0 < (ptsGet Pw i).getD d 0) (u : ℝ)
    (h1 : fnOf Ul p ≤ u) (h2 : u ≤ fnOf Ul Pw.length) (j : ℕ) (hj : j < d)
    (κ : ℕ) (hκ : κ = findSpanLinear p (fnOf Ul) Pw.length u) (w A : ℝ[X])
    (hw : w = spanPoly p (fnOf Ul) Pw κ d) (hA : A = spanPoly p (fnOf Ul) Pw κ j) :
    (tangentCurve (ratCurveDers (curveDersA32 p (fnOf Ul) Pw κ u 1))).1.getD j 0 = eval u A / eval u w ∧
    HasDerivAt (fun x => eval x A / eval x w)
      ((tangentCurve (ratCurveDers (curveDersA32 p (fnOf Ul) Pw κ u 1))).2.getD j 0) u :=
  tangentCurve_rational_hasDerivAt p d Ul Pw hC hwt u h1 h2 j hj κ hκ w A hw hA

/-- **Real rational surfaces.**  The vectors `S_u`, `S_v` of `operations.tangent` (op `tans 1 …`) are the derivatives of the
    partial functions `x ↦ A(x, v) / W(x, v)` at `u` and `y ↦ A(u, y) / W(u, y)` at `v`; the point is `A(u,v) / W(u,v)`. -/
theorem rational_surface_tangents_are_partial_derivatives_of_quotient_real (pu pv : ℕ) (Uu Uv : ℕ → ℝ) (su sv : ℕ)
    (Pw : List (List ℝ)) (u v : ℝ) (d c : ℕ) (hUu : KnotsOk pu Uu su) (hUv : KnotsOk pv Uv sv)
    (hlen : Pw.length = su * sv) (hP : NetOk (d+1) Pw) (hwt : ∀ i, i < Pw.length → 0 < (ptsGet Pw i).getD d 0)
    (hu1 : Uu pu ≤ u) (hu2 : u ≤ Uu su) (hv1 : Uv pv ≤ v) (hv2 : v ≤ Uv sv) (hc : c < d)
    (κu κv : ℕ) (hκu : κu = findSpanLinear pu Uu su u) (hκv : κv = findSpanLinear pv Uv sv v) (W A : ℝ[X][Y])
    (hW : W = surfSpanPoly pu pv Uu Uv sv Pw κu κv d) (hA : A = surfSpanPoly pu pv Uu Uv sv Pw κu κv c) :
    (tangentSurface (ratSurfaceDers (surfaceDersA36 pu pv Uu Uv sv Pw κu κv u v 1) 1)).1.getD c 0
      = A.evalEval u v / W.evalEval u v ∧
    HasDerivAt (fun x => A.evalEval x v / W.evalEval x v)
      ((tangentSurface (ratSurfaceDers (surfaceDersA36 pu pv Uu Uv sv Pw κu κv u v 1) 1)).2.1.getD c 0) u ∧
    HasDerivAt (fun y => A.evalEval u y / W.evalEval u y)
      ((tangentSurface (ratSurfaceDers (surfaceDersA36 pu pv Uu Uv sv Pw κu κv u v 1) 1)).2.2.getD c 0) v :=
  tangentSurface_rational_hasDerivAt pu pv Uu Uv su sv Pw u v d c hUu hUv hlen hP hwt hu1 hu2 hv1 hv2 hc κu κv hκu hκv
    W A hW hA

/-! ### the hypotheses are satisfiable: a concrete rational surface

degree `(2, 1)`, knot vectors `[0,0,0,1,1,1]` and `[0,0,1,1]`, a `3 × 2` homogeneous net in dimension `3+1`
with different weights, the parameter pair `(1/3, 1/2)`, requested order 2 (above the `v` degree). -/
section witness
/-- the surface theorem, instantiated (mixed order `(2,1)`, coordinate 2) -/
example :
    (((surfaceDersAt 2 1 exU exV 2 exP 2 1 (1/3) (1/2) 2 false).getD 2 []).getD 1 []).getD 2 0
      = (pderivU^[2] (pderivV^[1] (surfSpanPoly 2 1 exU exV 2 exP 2 1 2))).evalEval (1/3) (1/2) :=
  surface_derivatives_are_true_mixed_derivatives 2 1 exU exV 3 2 exP 2 1 (1/3) (1/2) 4 2 2 2 1 false
    (by omega) (by omega) (by omega) (by omega) rfl exP_ok exU_mono exV_mono (by decide +kernel) (by decide +kernel)
    (by omega) (by omega) (Or.inl rfl)

/-- … whose left-hand side is the non-zero number `12` -/
example : (((surfaceDersAt 2 1 exU exV 2 exP 2 1 (1/3) (1/2) 2 false).getD 2 []).getD 1 []).getD 2 0 = 12 := by
  decide +kernel

/-- the rational end-to-end theorem, instantiated (`k = 2`, `l = 1`, coordinate 1) -/
example :
    ∑ i ∈ Finset.range (2+1), ∑ j ∈ Finset.range (1+1),
      (Nat.choose 2 i : ℚ) * (Nat.choose 1 j : ℚ)
        * (pderivU^[i] (pderivV^[j] (surfSpanPoly 2 1 exU exV 2 exP 2 1 3))).evalEval (1/3) (1/2)
        * ((((ratSurfaceDers (surfaceDersAt 2 1 exU exV 2 exP 2 1 (1/3) (1/2) 2 false) 2).getD (2 - i) []).getD
              (1 - j) []).getD 1 0)
      = (pderivU^[2] (pderivV^[1] (surfSpanPoly 2 1 exU exV 2 exP 2 1 1))).evalEval (1/3) (1/2) :=
  rational_surface_derivatives_leibniz_of_true_derivatives 2 1 exU exV 3 2 exP 2 1 (1/3) (1/2) 3 1 2 2 1
    (by omega) (by omega) (by omega) (by omega) rfl exP_ok exU_mono exV_mono (by decide +kernel) (by decide +kernel)
    ex_weight (by omega) (by omega) (by omega)

/-- the rational CURVE end-to-end theorem, instantiated: clamped quadratic NURBS with an interior knot
    (`rcU = [0,0,0,1/2,1,1,1]`), homogeneous points `rcPw` with weights `1, 2, 1/2, 3`, at the RIGHT END `u = 1` of the
    domain (span 3, closed on the right), order 2, `k = 2`, coordinate 0 -/
example :
    0 < eval (1 : ℚ) (spanPoly 2 (fnOf rcU) rcPw (findSpanLinear 2 (fnOf rcU) rcPw.length 1) 2) ∧
    ∑ i ∈ Finset.range (2+1), (Nat.choose 2 i : ℚ)
        * eval 1 (derivative^[i] (spanPoly 2 (fnOf rcU) rcPw (findSpanLinear 2 (fnOf rcU) rcPw.length 1) 2))
        * ((ratCurveDers (curveDers 2 (fnOf rcU) rcPw 1 2)).getD (2 - i) []).getD 0 0
      = eval 1 (derivative^[2] (spanPoly 2 (fnOf rcU) rcPw (findSpanLinear 2 (fnOf rcU) rcPw.length 1) 0)) :=
  rational_curve_derivatives_leibniz_of_true_derivatives 2 2 rcU rcPw rc_wf rc_weights 1
    (by decide +kernel) (by decide +kernel) 2 2 0 (by omega) (by omega)
/-- … the span found there is the last one and the returned second derivative is a non-zero vector -/
example : findSpanLinear 2 (fnOf rcU) rcPw.length 1 = 3 ∧
    (ratCurveDers (curveDers 2 (fnOf rcU) rcPw 1 2)).getD 2 [] = [-70/9, 2/9] := by decide +kernel

/-- the basis table theorem, instantiated -/
example : ((basisDers 2 exU 2 (1/3) 2).getD 1 []).getD 0 0 = eval (1/3) (derivative^[1] (basisSpanPoly 2 exU 2 0)) :=
  basis_derivative_table_is_true_derivative 2 exU 2 (1/3) 2 1 0 (by omega) exU_mono (by decide +kernel) (by omega)
    (by omega)

/-- A2.3 as coded on the witness knot vector: second derivatives of the three quadratic basis functions -/
example : (basisFunsDersA23 2 exU 2 (1/3) 2).getD 2 [] = [2, -4, 2] := by decide +kernel

/-- A3.6 as coded on the witness surface: the same table as the tensor formula … -/
example : surfaceDersA36 2 1 exU exV 2 exP 2 1 (1/3) (1/2) 2 = surfaceDersAt 2 1 exU exV 2 exP 2 1 (1/3) (1/2) 2 false :=
  a36_as_coded_is_the_tensor_formula 2 1 exU exV 3 2 exP 2 1 (1/3) (1/2) 4 2 (by omega) (by omega) (by omega) (by omega)
    rfl exP_ok

/-- … and A3.7 + A3.8 as coded: entry `[1][1]` (order 2) is the true mixed derivative, the non-zero vector below -/
example :
    (((surfaceDersA38 2 1 exU exV 3 2 exP 2 1 (1/3) (1/2) 2).getD 1 []).getD 1 []).getD 3 0
      = (pderivU^[1] (pderivV^[1] (surfSpanPoly 2 1 exU exV 2 exP 2 1 3))).evalEval (1/3) (1/2) :=
  a38_as_coded_is_true_mixed_derivative 2 1 exU exV 3 2 exP 2 1 (1/3) (1/2) 4 3 2 1 1
    (by omega) (by omega) (by omega) (by omega) rfl exP_ok exU_mono exV_mono (by decide +kernel) (by decide +kernel)
    (by omega)
example : ((surfaceDersA38 2 1 exU exV 3 2 exP 2 1 (1/3) (1/2) 2).getD 1 []).getD 1 [] = [0, 0, 0, -2/3] := by
  decide +kernel

/-- the curve hodograph theorem, instantiated: quadratic plane curve with an interior knot, `u = 3/4` on the span 3 -/
example :
    (curvePointAt (derivativeCurve 2 hwU hwP).1 (fnOf (derivativeCurve 2 hwU hwP).2.1) (derivativeCurve 2 hwU hwP).2.2
        (3 - 1) (3/4)).getD 1 0
      = eval (3/4) (derivative (spanPoly 2 (fnOf hwU) hwP 3 1)) :=
  hodograph_curve_is_first_derivative 2 hwU hwP 3 (3/4) 2 1 (by omega) (by omega) (by decide) rfl hwP_ok hwU_mono
    (by decide +kernel) (by decide +kernel)
/-- … the hodograph is the degree-1 curve below, and its value there is the non-zero vector `(4, 5)` -/
example : derivativeCurve 2 hwU hwP = (1, [0, 0, 1/2, 1, 1], [[4, 8], [4, -2], [4, 12]]) := by decide +kernel
example : curvePoint 1 (fnOf [0, 0, 1/2, 1, 1]) [[4, 8], [4, -2], [4, 12]] (3/4 : ℚ) = [4, 5] := by decide +kernel

/-- the surface hodograph theorem, instantiated (`3 × 4` biquadratic net, `(u, v) = (1/3, 3/4)`, coordinate 2) -/
example :
    (surfDataPointAt (derivativeSurface 2 2 hwUu hwUv 3 4 hwS).2.2 (2 - 1) (3 - 1) (1/3) (3/4)).getD 2 0
      = (pderivU (pderivV (surfSpanPoly 2 2 (fnOf hwUu) (fnOf hwUv) 4 hwS 2 3 2))).evalEval (1/3) (3/4) :=
  (hodograph_surfaces_are_partial_derivatives 2 2 hwUu hwUv 3 4 hwS 2 3 (1/3) (3/4) 3 2 (by omega) (by omega)
    (by omega) (by omega) (by omega) (by omega) rfl hwS_ok rfl rfl hwUu_mono hwUv_mono
    (by decide +kernel) (by decide +kernel) (by decide +kernel) (by decide +kernel)).2.2

/-- the curve OBJECT theorem, instantiated: `hwU[1:-1] = [0,0,1/2,1,1]` spans `[0,1]`, so the stored knot vector is the
    same list and the object evaluated at the knot `u = 1/2` and at the right end `u = 1` is the derivative there -/
example : knotNormalize (derivativeCurve 2 hwU hwP).2.1 = [0, 0, 1/2, 1, 1] := by decide +kernel
example (j : ℕ) :
    (curvePoint (derivativeCurve 2 hwU hwP).1 (fnOf (knotNormalize (derivativeCurve 2 hwU hwP).2.1))
        (derivativeCurve 2 hwU hwP).2.2 1).getD j 0
      = eval 1 (derivative (spanPoly 2 (fnOf hwU) hwP (findSpanLinear 2 (fnOf hwU) hwP.length 1) j)) :=
  hodograph_curve_object_is_first_derivative 2 2 hwU hwP hw_wf (by omega) (by decide +kernel) (by decide +kernel)
    (by decide +kernel) 1 (by decide +kernel) (by decide +kernel) j

/-- the re-parametrised OBJECT theorem on an UNCLAMPED knot vector (finding F-02c): `ucU = [0,.1,.2,.4,.5,.7,.9,1]`,
    degree 2, five points, `u = 9/20`; `U[1:-1]` spans `[1/10, 9/10]`, the mapped parameter is `7/16`; there the object
    gives the derivative `(10, 20/3)`, at the same parameter `9/20` it gives `(28/3, 28/3)` -/
example (j : ℕ) :
    (curvePoint (derivativeCurve 2 ucU ucP).1 (fnOf (knotNormalize (derivativeCurve 2 ucU ucP).2.1))
        (derivativeCurve 2 ucU ucP).2.2
        ((9/20 - (kvInner ucU).headD 0) / ((kvInner ucU).getLastD 0 - (kvInner ucU).headD 0))).getD j 0
      = eval (9/20) (derivative (spanPoly 2 (fnOf ucU) ucP (findSpanLinear 2 (fnOf ucU) ucP.length (9/20)) j)) :=
  hodograph_curve_object_reparametrised 2 2 ucU ucP uc_wf (by omega) (by decide +kernel) (by decide +kernel)
    (9/20) (by decide +kernel) (by decide +kernel) j
example : (9/20 - (kvInner ucU).headD 0) / ((kvInner ucU).getLastD 0 - (kvInner ucU).headD 0) = 7/16 := by
  decide +kernel
example : curvePoint 1 (fnOf (knotNormalize (kvInner ucU))) (derivativeCurve 2 ucU ucP).2.2 (7/16) = [10, 20/3] ∧
    curvePoint 1 (fnOf (knotNormalize (kvInner ucU))) (derivativeCurve 2 ucU ucP).2.2 (9/20) = [28/3, 28/3] := by
  decide +kernel

/-- the surface OBJECT theorem, instantiated on the clamped biquadratic witness, at the corner `(u, v) = (1, 1)` -/
example (c : ℕ) :
    (surfDataPoint (surfDataNormalize true true (derivativeSurface 2 2 hwUu hwUv 3 4 hwS).2.2) 1 1).getD c 0
      = (pderivU (pderivV (surfSpanPoly 2 2 (fnOf hwUu) (fnOf hwUv) 4 hwS (findSpanLinear 2 (fnOf hwUu) 3 1)
          (findSpanLinear 2 (fnOf hwUv) 4 1) c))).evalEval 1 1 :=
  (hodograph_surface_objects_are_partial_derivatives true 2 2 hwUu hwUv 3 4 hwS 1 1 3 c (by omega) (by omega) rfl rfl
    hwUu_knotsOk hwUv_knotsOk rfl hwS_ok (by decide +kernel) (by decide +kernel)
    (by decide +kernel) (by decide +kernel) (by decide +kernel) (by decide +kernel)
    (by decide +kernel) (by decide +kernel) (by decide +kernel) (by decide +kernel)).2.2

/-- the rational curve theorem for the default evaluator as coded, at the right end (weights 1, 2, 1/2, 3) -/
example :
    0 < eval (1 : ℚ) (spanPoly 2 (fnOf rcU) rcPw (findSpanLinear 2 (fnOf rcU) rcPw.length 1) 2) ∧
    ∑ i ∈ Finset.range (2+1), (Nat.choose 2 i : ℚ)
        * eval 1 (derivative^[i] (spanPoly 2 (fnOf rcU) rcPw (findSpanLinear 2 (fnOf rcU) rcPw.length 1) 2))
        * ((ratCurveDers (curveDersA32 2 (fnOf rcU) rcPw (findSpanLinear 2 (fnOf rcU) rcPw.length 1) 1 2)).getD
            (2 - i) []).getD 0 0
      = eval 1 (derivative^[2] (spanPoly 2 (fnOf rcU) rcPw (findSpanLinear 2 (fnOf rcU) rcPw.length 1) 0)) :=
  rational_curve_derivatives_as_coded_leibniz 2 2 rcU rcPw rc_wf rc_weights 1
    (by decide +kernel) (by decide +kernel) 2 2 0 (by omega) (by omega)
example : (ratCurveDers (curveDersA32 2 (fnOf rcU) rcPw 3 1 2)).getD 2 [] = [-70/9, 2/9] := by decide +kernel

/-- normalisation: `[3, 4]` with magnitude `5` -/
example : Lin.normSq ([3/5, 4/5] : List ℚ) = 1 :=
  (normalized_vector_has_unit_length [3, 4] [3/5, 4/5] 5 (by decide +kernel) (by decide +kernel)).1

/-! #### rational tangent / normal, `normalize=True`: concrete rational data (weights not all 1) -/

/-- the rational curve tangent theorem at the interior KNOT `u = 1/2` of `rcU` (weights `1, 2, 1/2, 3`), coordinate 1 -/
example :
    0 < eval (1/2 : ℚ) (spanPoly 2 (fnOf rcU) rcPw 3 2) ∧
    (tangentCurve (ratCurveDers (curveDersA32 2 (fnOf rcU) rcPw 3 (1/2) 1))).1.getD 1 0
      = eval (1/2) (spanPoly 2 (fnOf rcU) rcPw 3 1) / eval (1/2) (spanPoly 2 (fnOf rcU) rcPw 3 2) ∧
    (tangentCurve (ratCurveDers (curveDersA32 2 (fnOf rcU) rcPw 3 (1/2) 1))).2.getD 1 0
      = (eval (1/2) (derivative (spanPoly 2 (fnOf rcU) rcPw 3 1)) * eval (1/2) (spanPoly 2 (fnOf rcU) rcPw 3 2)
          - eval (1/2) (spanPoly 2 (fnOf rcU) rcPw 3 1) * eval (1/2) (derivative (spanPoly 2 (fnOf rcU) rcPw 3 2)))
        / eval (1/2) (spanPoly 2 (fnOf rcU) rcPw 3 2) ^ 2 :=
  rational_tangent_is_quotient_rule 2 2 rcU rcPw rc_wf rc_weights (1/2) (by decide +kernel) (by decide +kernel) 1
    (by omega) 3 (by decide +kernel) _ _ rfl rfl
/-- … the op `tanc 1 …` answers the point `(6/5, 8/5)` and the non-zero vector `(32/25, -64/25)` there -/
example : tangentCurve (ratCurveDers (curveDersA32 2 (fnOf rcU) rcPw 3 (1/2) 1)) = ([6/5, 8/5], [32/25, -64/25]) := by
  decide +kernel

/-- the rational surface tangent theorem on the witness surface `exP` (weights `1,1,2,1,1,1`) at `(1/3, 1/2)`, coordinate 2 -/
example :
    0 < (surfSpanPoly 2 1 exU exV 2 exP 2 1 3).evalEval (1/3) (1/2) ∧
    (tangentSurface (ratSurfaceDers (surfaceDersA36 2 1 exU exV 2 exP 2 1 (1/3) (1/2) 1) 1)).1.getD 2 0
      = (surfSpanPoly 2 1 exU exV 2 exP 2 1 2).evalEval (1/3) (1/2)
        / (surfSpanPoly 2 1 exU exV 2 exP 2 1 3).evalEval (1/3) (1/2) ∧
    (tangentSurface (ratSurfaceDers (surfaceDersA36 2 1 exU exV 2 exP 2 1 (1/3) (1/2) 1) 1)).2.1.getD 2 0
      = ((pderivU (surfSpanPoly 2 1 exU exV 2 exP 2 1 2)).evalEval (1/3) (1/2)
            * (surfSpanPoly 2 1 exU exV 2 exP 2 1 3).evalEval (1/3) (1/2)
          - (surfSpanPoly 2 1 exU exV 2 exP 2 1 2).evalEval (1/3) (1/2)
            * (pderivU (surfSpanPoly 2 1 exU exV 2 exP 2 1 3)).evalEval (1/3) (1/2))
        / (surfSpanPoly 2 1 exU exV 2 exP 2 1 3).evalEval (1/3) (1/2) ^ 2 ∧
    (tangentSurface (ratSurfaceDers (surfaceDersA36 2 1 exU exV 2 exP 2 1 (1/3) (1/2) 1) 1)).2.2.getD 2 0
      = ((pderivV (surfSpanPoly 2 1 exU exV 2 exP 2 1 2)).evalEval (1/3) (1/2)
            * (surfSpanPoly 2 1 exU exV 2 exP 2 1 3).evalEval (1/3) (1/2)
          - (surfSpanPoly 2 1 exU exV 2 exP 2 1 2).evalEval (1/3) (1/2)
            * (pderivV (surfSpanPoly 2 1 exU exV 2 exP 2 1 3)).evalEval (1/3) (1/2))
        / (surfSpanPoly 2 1 exU exV 2 exP 2 1 3).evalEval (1/3) (1/2) ^ 2 :=
  rational_surface_tangent_is_quotient_rule 2 1 exU exV 3 2 exP (1/3) (1/2) 3 2 exU_knotsOk exV_knotsOk rfl exP_ok
    exP_weights (by decide +kernel) (by decide +kernel) (by decide +kernel) (by decide +kernel) (by omega)
    2 1 (by decide +kernel) (by decide +kernel) _ _ rfl rfl
/-- … what the ops `tans 1 …` / `nrms 1 …` answer there: point, `S_u`, `S_v`, and the non-zero normal -/
example : tangentSurface (ratSurfaceDers (surfaceDersA36 2 1 exU exV 2 exP 2 1 (1/3) (1/2) 1) 1)
      = ([6/11, 9/22, 1/2], [180/121, -27/242, 9/22], [24/121, 117/121, 5/11]) ∧
    normalSurface (ratSurfaceDers (surfaceDersA36 2 1 exU exV 2 exP 2 1 (1/3) (1/2) 1) 1)
      = some ([6/11, 9/22, 1/2], [-54/121, -72/121, 1944/1331]) := by decide +kernel
/-- the rational normal theorem, instantiated there -/
example : ∃ n, normalSurface (ratSurfaceDers (surfaceDersA36 2 1 exU exV 2 exP 2 1 (1/3) (1/2) 1) 1)
      = some ((tangentSurface (ratSurfaceDers (surfaceDersA36 2 1 exU exV 2 exP 2 1 (1/3) (1/2) 1) 1)).1, n) ∧
      n.length = 3 := by
  obtain ⟨n, h, hn, _⟩ := normal_rational_surface_on_domain 2 1 exU exV 3 2 exP (1/3) (1/2) exU_knotsOk exV_knotsOk rfl
    exP_ok exP_weights (by decide +kernel) (by decide +kernel) (by decide +kernel) (by decide +kernel) 2 1 (by decide +kernel)
    (by decide +kernel) _ _ (fun _ => rfl) (fun _ => rfl)
  exact ⟨n, h, by rw [hn]; rfl⟩

/-- `normalize=True`, exact root: the rational segment `rtLPw` (weights `1, 2`) has the tangent `(6, 8)` at `u = 0`, of
    length exactly `10`; the op `tancn 1 …  0 10` answers the point and `(3/5, 4/5)` -/
example : tangentCurve (ratCurveDers (curveDersA32 1 (fnOf rtLU) rtLPw 1 0 1)) = ([0, 0], [6, 8]) ∧
    tangentCurveN (ratCurveDers (curveDersA32 1 (fnOf rtLU) rtLPw 1 0 1)) 10 = some ([0, 0], [3/5, 4/5]) := by
  decide +kernel
/-- … the end-to-end theorem instantiated on it (coordinate 1) -/
example : ∃ pt n, tangentCurveN (ratCurveDers (curveDersA32 1 (fnOf rtLU) rtLPw 1 0 1)) 10 = some (pt, n) ∧
      Lin.normSq n = 1 ∧ 0 < eval (0 : ℚ) (spanPoly 1 (fnOf rtLU) rtLPw 1 2) ∧
      eval 0 (spanPoly 1 (fnOf rtLU) rtLPw 1 2) * pt.getD 1 0 = eval 0 (spanPoly 1 (fnOf rtLU) rtLPw 1 1) ∧
      eval 0 (spanPoly 1 (fnOf rtLU) rtLPw 1 2) * (10 * n.getD 1 0)
          + eval 0 (derivative (spanPoly 1 (fnOf rtLU) rtLPw 1 2)) * pt.getD 1 0
        = eval 0 (derivative (spanPoly 1 (fnOf rtLU) rtLPw 1 1)) :=
  normalized_tangent_rational_curve_on_domain 1 2 rtLU rtLPw rtL_wf rtL_weights 0 (by decide +kernel)
    (by decide +kernel) 1 (by omega) 1 (by decide +kernel) _ _ rfl rfl 10 (by decide +kernel) (by decide +kernel)
/-- `normalize=True`, refusal: the first two control points of the rational quadratic `rtZPw` (weights `1, 2, 1`)
    coincide, the tangent at `u = 0` is the zero vector, its magnitude `0`, and the op `tancn` answers `ERR` -/
example : (tangentCurve (ratCurveDers (curveDersA32 2 (fnOf rtZU) rtZPw 2 0 1))).2 = [0, 0] ∧
    tangentCurveN (ratCurveDers (curveDersA32 2 (fnOf rtZU) rtZPw 2 0 1)) 0 = none := by decide +kernel
example : tangentCurveN (ratCurveDers (curveDersA32 2 (fnOf rtZU) rtZPw 2 0 1)) 0 = none :=
  (tangent_curve_normalized_refused_iff_zero_derivative _ 0 (by decide +kernel) (le_refl _)).mpr (by decide +kernel)

/-- `normalize=True` on the rational bilinear patch `rtSPw` (weights `1, 3, 2, 1/2`) at the corner `(0, 0)`:
    `S_u = (6, 8, 0)`, `S_v = (0, 0, 15)`, `S_u × S_v = (120, -90, 0)` of lengths exactly `10`, `15`, `150`; what the ops
    `tansn 1 … 10 15` and `nrmsn 1 … 150` answer -/
example : tangentSurfaceN (ratSurfaceDers (surfaceDersA36 1 1 (fnOf rtSU) (fnOf rtSU) 2 rtSPw 1 1 0 0 1) 1) 10 15
      = some ([0, 0, 0], [3/5, 4/5, 0], [0, 0, 1]) ∧
    normalSurfaceN (ratSurfaceDers (surfaceDersA36 1 1 (fnOf rtSU) (fnOf rtSU) 2 rtSPw 1 1 0 0 1) 1) 150
      = some ([0, 0, 0], [4/5, -3/5, 0]) := by decide +kernel
/-- … the end-to-end normal theorem instantiated on it (`m = 150`) -/
example : ∃ n, normalSurfaceN (ratSurfaceDers (surfaceDersA36 1 1 (fnOf rtSU) (fnOf rtSU) 2 rtSPw 1 1 0 0 1) 1) 150
      = some ((tangentSurface (ratSurfaceDers (surfaceDersA36 1 1 (fnOf rtSU) (fnOf rtSU) 2 rtSPw 1 1 0 0 1) 1)).1, n) ∧
      Lin.normSq n = 1 ∧ n.length = 3 := by
  obtain ⟨n, h, hu, hl, _⟩ := (normalized_normal_rational_surface_on_domain 1 1 (fnOf rtSU) (fnOf rtSU) 2 2 rtSPw 0 0
    rtSU_knotsOk rtSU_knotsOk rfl rtSPw_ok rtSPw_weights (by decide +kernel) (by decide +kernel) (by decide +kernel)
    (by decide +kernel) 1 1 (by decide +kernel) (by decide +kernel) _ _ (fun _ => rfl) (fun _ => rfl) 150
    (by decide +kernel)).1 (by decide +kernel)
  exact ⟨n, h, hu, hl⟩
/-- … and the end-to-end tangent theorem (`mu = 10`, `mv = 15`, coordinate 0) -/
example : ∃ pt nu nv,
      tangentSurfaceN (ratSurfaceDers (surfaceDersA36 1 1 (fnOf rtSU) (fnOf rtSU) 2 rtSPw 1 1 0 0 1) 1) 10 15
        = some (pt, nu, nv) ∧ Lin.normSq nu = 1 ∧ Lin.normSq nv = 1 ∧
      0 < (surfSpanPoly 1 1 (fnOf rtSU) (fnOf rtSU) 2 rtSPw 1 1 3).evalEval 0 0 := by
  obtain ⟨pt, nu, nv, h, hnu, hnv, hpos, _⟩ := normalized_tangent_rational_surface_on_domain 1 1 (fnOf rtSU) (fnOf rtSU)
    2 2 rtSPw 0 0 3 0 rtSU_knotsOk rtSU_knotsOk rfl rtSPw_ok rtSPw_weights (by decide +kernel) (by decide +kernel)
    (by decide +kernel) (by decide +kernel) (by omega) 1 1 (by decide +kernel) (by decide +kernel) _ _ rfl rfl 10 15
    (by decide +kernel) (by decide +kernel) (by decide +kernel) (by decide +kernel)
  exact ⟨pt, nu, nv, h, hnu, hnv, hpos⟩

/-- the `HasDerivAt` theorem over `ℝ`, instantiated: the rational quadratic with weights `1, 2, 1/2, 3` at the knot
    `u = 1/2` (any span index `κ` equal to the one the search finds) -/
example (κ : ℕ) (hκ : κ = findSpanLinear 2 (fnOf rcUR) rcPwR.length (1/2)) :
    HasDerivAt (fun x => eval x (spanPoly 2 (fnOf rcUR) rcPwR κ 0) / eval x (spanPoly 2 (fnOf rcUR) rcPwR κ 2))
      ((tangentCurve (ratCurveDers (curveDersA32 2 (fnOf rcUR) rcPwR κ (1/2) 1))).2.getD 0 0) (1/2) :=
  (rational_tangent_is_derivative_of_quotient_real 2 2 rcUR rcPwR rcR_wf rcR_weights (1/2) rcR_dom.1 rcR_dom.2 0
    (by omega) κ hκ _ _ rfl rfl).2
end witness


/-- A3.3/A3.4 for the first derivative: the derivative of the span polynomial (de Boor scheme with
    the indeterminate as parameter) evaluated at `u` is `p` times the degree `p-1` evaluation of the
    scaled control-point differences `(P m - P (m-1)) / (U (m+p) - U m)` on the same span. -/
theorem span_polynomial_derivative (t : ℕ → K) (κ p : ℕ) (hsep : Sep t κ) (hp : p ≤ κ) (P : ℕ → K) (u : K) :
    eval u (derivative (polP t p p (fun j => C (P j)) κ))
      = (p : K) * polar t (p-1) (List.replicate (p-1) u)
          (fun m => (P m - P (m-1)) / (t (m+p) - t m)) κ :=
  curve_derivative t κ p hsep hp P u

/-- A4.2: the rational derivatives solve the Leibniz system `Σ_i C(k,i) w⁽ⁱ⁾ C⁽ᵏ⁻ⁱ⁾ = A⁽ᵏ⁾`
    (quotient rule of every order) whenever the weight function does not vanish. -/
theorem rational_derivatives_leibniz (A w : ℕ → K) (hw : w 0 ≠ 0) (k : ℕ) :
    ∑ i ∈ Finset.range (k+1), (Nat.choose k i : K) * w i * ratDers A w (k - i) = A k :=
  ratDers_leibniz A w hw k

/-! ### `normalize=True` with the magnitude the ops really receive (statement audit 5, K2), and the derivative of the
model's own point function (K3) -/
section anyMagnitude
variable {F : Type} [Field F] [LinearOrder F] [IsStrictOrderedRing F]

/-- **`vector_normalize` with ANY positive magnitude** (e.g. the double `vector_magnitude` returned, for which the
    hypothesis `m·m = |v|²` of the theorems above is false): the call returns a vector `n` of the same length with
    `m · n_j = v_j` for every coordinate and `|n|² · m² = |v|²`. -/
theorem normalized_vector_any_positive_magnitude (v : List F) (m : F) (hm : 0 < m) :
    ∃ n, Lin.vectorNormalize v m = some n ∧ n.length = v.length ∧ (∀ j, m * n.getD j 0 = v.getD j 0) ∧
      Lin.normSq n * (m * m) = Lin.normSq v :=
  vectorNormalize_any_positive v m hm

/-- … under the sanity bound of the driver ops on the magnitude (`Drv.magOk`: `|m² − |v|²| · 2⁴⁹ ≤ |v|²`, met by a
    correctly rounded double root) the result has unit length up to that bound: `| |n|² − 1 | · m² · 2⁴⁹ ≤ |v|²`. -/
theorem normalized_vector_unit_up_to_magnitude_bound (v : List F) (m : F) (hm : 0 < m)
    (hb : |m * m - Lin.normSq v| * 2 ^ 49 ≤ Lin.normSq v) :
    ∃ n, Lin.vectorNormalize v m = some n ∧ |Lin.normSq n - 1| * (m * m) * 2 ^ 49 ≤ Lin.normSq v :=
  vectorNormalize_magOk_bound v m hm hb

/-- **The curve op `tancn` with any positive magnitude**: it returns the un-normalised point and a vector `n` with
    `m · n = ` the tangent vector and `|n|² · m² = |tangent|²`. -/
theorem tangent_curve_normalized_any_positive_magnitude (ders : List (List F)) (m : F) (hm : 0 < m) :
    ∃ n, tangentCurveN ders m = some ((tangentCurve ders).1, n) ∧
      (∀ j, m * n.getD j 0 = (tangentCurve ders).2.getD j 0) ∧
      Lin.normSq n * (m * m) = Lin.normSq (tangentCurve ders).2 :=
  tangentCurveN_any_positive ders m hm
end anyMagnitude

section pointFunction
open Filter Topology

/-- **Over ℝ, strictly inside a knot span, the MODEL'S OWN point function is differentiable and the op returns its
    derivative**: `x ↦ operations.tangent(curve, x).point[j]` – span search included, not the hand-written quotient of one
    span as in `rational_tangent_is_derivative_of_quotient_real` – has at `u ∈ (U_κ, U_{κ+1})` the derivative that the
    tangent op returns at `u` (positive weights). -/
theorem rational_curve_point_function_hasDerivAt_inside_span (p d : ℕ) (Ul : List ℝ) (Pw : List (List ℝ))
    (hC : CurveWF p (d+1) Ul Pw) (hwt : ∀ i, i < Pw.length → 0 < (ptsGet Pw i).getD d 0) (u : ℝ)
    (j : ℕ) (hj : j < d) (κ : ℕ) (hp : p ≤ κ) (hκn : κ < Pw.length)
    (hin1 : fnOf Ul κ < u) (hin2 : u < fnOf Ul (κ+1)) :
    HasDerivAt
      (fun x => (tangentCurve (ratCurveDers (curveDersA32 p (fnOf Ul) Pw
          (findSpanLinear p (fnOf Ul) Pw.length x) x 1))).1.getD j 0)
      ((tangentCurve (ratCurveDers (curveDersA32 p (fnOf Ul) Pw
          (findSpanLinear p (fnOf Ul) Pw.length u) u 1))).2.getD j 0) u := by
  have hlo : ∀ x, fnOf Ul κ < x → fnOf Ul p ≤ x := fun x hx => le_trans (hC.mono hp) (le_of_lt hx)
  have hhi : ∀ x, x < fnOf Ul (κ+1) → x < fnOf Ul Pw.length := fun x hx => lt_of_lt_of_le hx (hC.mono (by omega))
  have hspan : ∀ x, fnOf Ul κ < x → x < fnOf Ul (κ+1) → findSpanLinear p (fnOf Ul) Pw.length x = κ := fun x h1 h2 =>
    findSpanLinear_unique p (fnOf Ul) Pw.length x hC.pn hC.mono (hlo x h1) (hhi x h2) κ (le_of_lt h1) h2
  have hu := hspan u hin1 hin2
  obtain ⟨_, hD⟩ := rational_tangent_is_derivative_of_quotient_real p d Ul Pw hC hwt u (hlo u hin1)
    (le_of_lt (hhi u hin2)) j hj κ hu.symm _ _ rfl rfl
  rw [hu]
  refine hD.congr_of_eventuallyEq ?_
  have hmem : Set.Ioo (fnOf Ul κ) (fnOf Ul (κ+1)) ∈ 𝓝 u := Ioo_mem_nhds hin1 hin2
  filter_upwards [hmem] with x hx
  rw [hspan x hx.1 hx.2]
  exact (rational_tangent_is_quotient_rule p d Ul Pw hC hwt x (hlo x hx.1) (le_of_lt (hhi x hx.2)) j hj κ
    (hspan x hx.1 hx.2).symm _ _ rfl rfl).2.1
end pointFunction

/-- non-vacuity of the any-magnitude statements: the file's main witness (`rcPw`-type tangent `(32/25, -64/25)` has no
    rational length) – here the vector `(1, 1)` with the rounded magnitude `1414/1000`: returned, `m · n = v`, and the
    `magOk`-type bound with `2⁹` in place of `2⁴⁹` -/
example : ∃ n, Lin.vectorNormalize ([1, 1] : List ℚ) (1414/1000) = some n ∧ (∀ j, (1414/1000) * n.getD j 0 = ([1, 1] : List ℚ).getD j 0) :=
  let ⟨n, h, _, h2, _⟩ := normalized_vector_any_positive_magnitude ([1, 1] : List ℚ) (1414/1000) (by norm_num)
  ⟨n, h, h2⟩

end C02
