import NurbsVerif.Lemmas.Fitting
import NurbsVerif.Lemmas.FitParams
import NurbsVerif.Lemmas.FitSurf
import NurbsVerif.Lemmas.FitApprox
import NurbsVerif.Lemmas.FitApproxEval
import NurbsVerif.Lemmas.FitApproxOne
import NurbsVerif.Lemmas.FitASurfEval
import NurbsVerif.Lemmas.FitASurfLsq
import NurbsVerif.Lemmas.FitGuards
import NurbsVerif.Lemmas.FitWitness
import NurbsVerif.Lemmas.FitASurfLsqEval
import NurbsVerif.Lemmas.FitKnotsValid
import NurbsVerif.Lemmas.FitDiag
import NurbsVerif.Lemmas.FitKnotsApply
import NurbsVerif.Lemmas.FitKnots2Span
import NurbsVerif.Lemmas.FitApproxDiag
import Mathlib.Algebra.Order.Field.Rat

/-!
# C11  Fitted curves and surfaces meet interpolation and least-squares conditions

Model: `Geomdl.computeParams`, `computeKnotVector`, `buildCoeffMatrix`, `interpolateCurve`,
`interpolateSurface`, `approximateCurve`, `approximateSurface` (one least-squares pass: `lsqPass`; chord
lengths – square roots in the code – are inputs).

Non-singularity of the collocation / normal matrices is a hypothesis throughout ("whenever the
solver returns").  Every theorem about a fitting routine carries the guard of its driver op as a bundle
(`InterpCurveOk`, `InterpSurfOk`, `ApproxCurveOk`, `ApproxSurfOk`, Lemmas/FitGuards.lean): the inputs on which the real
routine reaches the solver instead of raising – degree ≥ 1, enough points, at least THREE control points per
direction for the approximations (with two the code raises `IndexError`, finding F-11a, while the model would return the
segment / bilinear patch), `su·sv` data points, data points that all have the same number `≥ 2` of coordinates
(`RectData`: on ragged data `linalg.point_distance` raises `ValueError`, on 1-D data the control point setter raises
"should be at least 2-dimensional", while the model would go on), and a non-zero total chord length in every data line (otherwise
`compute_params_curve` raises `ZeroDivisionError`, while the model's `x / 0 = 0` would go on).  `Geomdl.lsqError` / `Geomdl.lsqErrorEval` (Lemmas/FitApprox*.lean) are the
spec-level sums `Σ_{k=1}^{nd−2} |Q_k − C(ū_k)|²` (with `C` written as `Σ_j N_{j,p} P_j` through
`basis_function_one`, resp. with `C` the evaluated curve point of A3.1).  `Geomdl.ClampedKnots p n kv` (Lemmas/FitKnotsValid.lean,
unfolded by `clampedKnots_spec`) bundles what makes `kv` a valid clamped knot vector with simple interior knots.
-/
namespace C11
open Geomdl Lin Finset
variable {K : Type} [Field K] [LinearOrder K] [IsStrictOrderedRing K]

/-- **Interpolation (collocation form)**: whenever `lu_solve` returns control points for the
    collocation system of ANY parameter list and knot vector, the curve evaluated at the `i`-th
    parameter is the `i`-th data point (every degree, any dimension, any number of points). -/
theorem collocation_interpolates (p : ℕ) (U : ℕ → K) (uk : List K) (pts cp : List (List K)) (d : ℕ)
    (hn : uk.length = pts.length) (hpn : p + 1 ≤ pts.length) (hP : NetOk d pts) (hd : 0 < d)
    (h : luSolve (buildCoeffMatrix p U uk pts.length) pts = some cp) (i : ℕ) (hi : i < pts.length) (c : ℕ) (hc : c < d) :
    (curvePointAt p U cp (findSpanLinear p U pts.length (uk.getD i 0)) (uk.getD i 0)).getD c 0
      = (ptsGet pts i).getD c 0 :=
  Geomdl.collocation_interpolates p U uk pts cp d hn hpn hP hd h i hi c hc

/-- **`fitting.interpolate_curve`**: the returned curve (knot vector by averaging, control points from
    the LU solver) passes through every data point at its chord-length / centripetal parameter. -/
theorem interpolateCurve_interpolates (p : ℕ) (pts : List (List K)) (cds : List K) (invp : K) (d : ℕ)
    (kv : List K) (cp : List (List K))
    (hg : InterpCurveOk p pts cds) (hP : NetOk d pts) (hd : 0 < d)
    (h : interpolateCurve p pts cds invp = some (kv, cp)) (i : ℕ) (hi : i < pts.length) (c : ℕ) (hc : c < d) :
    (curvePoint p (fnOf kv) cp ((computeParams cds).getD i 0)).getD c 0 = (ptsGet pts i).getD c 0 := by
  have hlen := hg.len
  have hpn := hg.pn
  unfold interpolateCurve at h
  simp only [] at h
  split at h
  · rename_i cp' hsolve
    injection h with h'
    injection h' with hkv hcp
    subst hkv; subst hcp
    have hcplen : cp'.length = pts.length := by
      have hA : (buildCoeffMatrix p (fnOf (computeKnotVector p pts.length (computeParams cds) invp)) (computeParams cds) pts.length).length = pts.length := by
        simp [buildCoeffMatrix, computeParams, hlen]
      have := (luSolve_correct _ pts cp' (by rw [hA]) hsolve).1
      rw [hA] at this; exact this
    unfold curvePoint
    rw [hcplen]
    exact Geomdl.collocation_interpolates p _ (computeParams cds) pts cp' d (by simp [computeParams, hlen]) hpn hP hd hsolve i hi c hc
  · exact absurd h (by simp)

/-- the parameters start at 0 … -/
theorem params_first (cds : List K) : (computeParams cds).getD 0 0 = 0 := by
  simp [computeParams, sumL]

/-- … and the approximation keeps the first and the last data point as end control points
    (so with clamped knots the approximating curve interpolates the end data points, C18). -/
theorem approximateCurve_endpoints (p : ℕ) (pts : List (List K)) (cds : List K) (nc : ℕ) (fl : K → ℕ)
    (kv : List K) (cp : List (List K)) (hg : ApproxCurveOk p pts cds nc)
    (h : approximateCurve p pts cds nc fl = some (kv, cp)) :
    cp.head? = some (pts.headD []) ∧ cp.getLast? = some (pts.getLastD []) := by
  unfold approximateCurve at h
  simp only [] at h
  split at h
  · exact absurd h (by simp)
  · injection h with h'
    injection h' with _ hcp
    subst hcp
    refine ⟨by simp, ?_⟩
    rw [List.getLast?_append]
    simp

/-! ### parameters (`compute_params_curve`) -/

/-- … end at 1 (the total chord length is not zero) … -/
theorem params_last (cds : List K) (h : sumL cds ≠ 0) : (computeParams cds).getD cds.length 0 = 1 :=
  computeParams_last cds h

/-- … there are as many parameters as data points, and for non-negative chord lengths with positive
    sum they are non-decreasing and lie in `[0, 1]` … -/
theorem params_monotone (cds : List K) (h : ∀ x ∈ cds, 0 ≤ x) (hs : 0 < sumL cds) :
    (computeParams cds).length = cds.length + 1 ∧
    (∀ i j, i ≤ j → j ≤ cds.length → (computeParams cds).getD i 0 ≤ (computeParams cds).getD j 0) ∧
    (∀ i, i ≤ cds.length → 0 ≤ (computeParams cds).getD i 0 ∧ (computeParams cds).getD i 0 ≤ 1) :=
  ⟨computeParams_length cds, fun i j hij hj => computeParams_mono cds h hs i j hij hj,
   fun i hi => computeParams_range cds h hs i hi⟩

/-- … and strictly increasing when consecutive data points are distinct (positive chord lengths). -/
theorem params_strictMono (cds : List K) (h : ∀ x ∈ cds, 0 < x) (i j : ℕ) (hij : i < j) (hj : j ≤ cds.length) :
    (computeParams cds).getD i 0 < (computeParams cds).getD j 0 :=
  computeParams_strictMono cds h i j hij hj

/-! ### the averaged knot vector (`compute_knot_vector`, Eq. 9.8) -/

/-- The knot vector of the interpolation has `n + p + 1` knots: `p+1` zeros, then the averages
    `invp · (ū_{j} + … + ū_{j+p-1})` (`j = 1 … n-p-1`), then `p+1` ones (as a function padded with `1`). -/
theorem knotVector_spec (p n : ℕ) (uk : List K) (invp : K) (hpn : p + 1 ≤ n) :
    (computeKnotVector p n uk invp).length = n + p + 1 ∧
    (∀ i, i ≤ p → fnOf (computeKnotVector p n uk invp) i = 0) ∧
    (∀ i, p < i → i < n → fnOf (computeKnotVector p n uk invp) i = invp * ∑ r ∈ range p, uk.getD (i - p + r) 0) ∧
    (∀ i, n ≤ i → fnOf (computeKnotVector p n uk invp) i = 1) := by
  refine ⟨computeKnotVector_length p n uk invp hpn, (computeKnotVector_clamped p n uk invp hpn).1, ?_,
    (computeKnotVector_clamped p n uk invp hpn).2⟩
  intro i h1 h2
  rw [computeKnotVector_fn p n uk invp hpn, if_neg (by omega), if_pos h2]

/-- The averaged knot vector is non-decreasing for non-decreasing non-negative parameters and
    `invp ≥ 0`, provided the last average does not exceed one: `invp · p · ū_{n-2} ≤ 1` (true for
    `invp = 1/p` exactly and parameters `≤ 1`; `invp` is the double `1.0/p` in the code). -/
theorem knotVector_monotone (p n : ℕ) (uk : List K) (invp : K) (hpn : p + 1 ≤ n)
    (hinv : 0 ≤ invp) (h0 : ∀ i, 0 ≤ uk.getD i 0)
    (hmono : ∀ i j, i ≤ j → j < n → uk.getD i 0 ≤ uk.getD j 0)
    (hlast : invp * (p : K) * uk.getD (n - 2) 0 ≤ 1) :
    Monotone (fnOf (computeKnotVector p n uk invp)) :=
  computeKnotVector_mono p n uk invp hpn hinv h0 hmono hlast

/-- `interpolate_curve` on data with distinct consecutive points builds a non-decreasing knot vector
    (chord lengths positive, `invp ≥ 0` and `invp · p · ū_{n-2} ≤ 1`). -/
theorem interpolateCurve_knots_monotone (p : ℕ) (cds : List K) (invp : K) (hpn : p ≤ cds.length)
    (hpos : ∀ x ∈ cds, 0 < x) (hinv : 0 ≤ invp)
    (hlast : invp * (p : K) * (computeParams cds).getD (cds.length - 1) 0 ≤ 1) :
    Monotone (fnOf (computeKnotVector p (cds.length + 1) (computeParams cds) invp)) := by
  have hnn : ∀ x ∈ cds, (0:K) ≤ x := fun x hx => le_of_lt (hpos x hx)
  by_cases hne : cds = []
  · subst hne
    have hp0 : p = 0 := by simpa using hpn
    subst hp0
    exact computeKnotVector_mono 0 1 _ invp (by omega) hinv (fun i => by
        rcases i with _ | i <;> simp [computeParams, sumL]) (fun i j hij hj => by
        have : i = 0 ∧ j = 0 := by omega
        rw [this.1, this.2]) (by simp)
  · have hs : 0 < sumL cds := by rw [sumL_eq_sum]; exact List.sum_pos _ hpos hne
    apply computeKnotVector_mono p (cds.length + 1) _ invp (by omega) hinv
    · intro i
      by_cases hi : i ≤ cds.length
      · exact (computeParams_range cds hnn hs i hi).1
      · rw [List.getD_eq_default _ _ (by rw [computeParams_length]; omega)]
    · intro i j hij hj
      exact computeParams_mono cds hnn hs i j hij (by omega)
    · exact hlast

/-- **requested degree**: the interpolating curve has as many control points as data points and
    `n + p + 1` knots, i.e. degree `p`. -/
theorem interpolateCurve_degree (p : ℕ) (pts : List (List K)) (cds : List K) (invp : K)
    (kv : List K) (cp : List (List K)) (hg : InterpCurveOk p pts cds)
    (h : interpolateCurve p pts cds invp = some (kv, cp)) :
    cp.length = pts.length ∧ kv.length = cp.length + p + 1 := by
  have hpn := hg.pn
  unfold interpolateCurve at h
  simp only [] at h
  split at h
  · rename_i cp' hsolve
    injection h with h'
    injection h' with hkv hcp
    subst hkv; subst hcp
    have := (luSolve_shape _ _ _ hsolve).1
    exact ⟨this, by rw [computeKnotVector_length p _ _ _ hpn, this]⟩
  · exact absurd h (by simp)

/-! ### surface interpolation -/

/-- **`fitting.interpolate_surface`** (two passes of curve interpolation): whenever all solver calls
    return, the surface evaluated at the `i`-th averaged `u`-parameter and the `j`-th averaged
    `v`-parameter is the data point `Q_{i,j}` (flat index `j + size_v · i`), every coordinate. -/
theorem interpolateSurface_interpolates (pu pv su sv : ℕ) (pts : List (List K)) (cdsU cdsV : List (List K))
    (invpu invpv : K) (d : ℕ) (kvu kvv : List K) (cp : List (List K))
    (hg : InterpSurfOk pu pv su sv pts cdsU cdsV) (hP : NetOk d pts) (hd : 0 < d)
    (h : interpolateSurface pu pv su sv pts cdsU cdsV invpu invpv = some (kvu, kvv, cp))
    (i : ℕ) (hi : i < su) (j : ℕ) (hj : j < sv) (c : ℕ) (hc : c < d) :
    (surfacePoint pu pv (fnOf kvu) (fnOf kvv) su sv cp
        ((averageParams cdsU su).getD i 0) ((averageParams cdsV sv).getD j 0)).getD c 0
      = (ptsGet pts (j + sv * i)).getD c 0 :=
  Geomdl.interpolateSurface_interpolates pu pv su sv pts cdsU cdsV invpu invpv d kvu kvv cp hg.len hg.pun hg.pvn hP hd h
    i hi j hj c hc

/-- **requested degrees**: the interpolating surface has `su · sv` control points and the two averaged
    knot vectors with `su + pu + 1` and `sv + pv + 1` knots, i.e. degrees `pu`, `pv`. -/
theorem interpolateSurface_degree (pu pv su sv : ℕ) (pts : List (List K)) (cdsU cdsV : List (List K))
    (invpu invpv : K) (kvu kvv : List K) (cp : List (List K)) (hg : InterpSurfOk pu pv su sv pts cdsU cdsV)
    (h : interpolateSurface pu pv su sv pts cdsU cdsV invpu invpv = some (kvu, kvv, cp)) :
    cp.length = su * sv ∧ kvu.length = su + pu + 1 ∧ kvv.length = sv + pv + 1 := by
  have hpu := hg.pun
  have hpv := hg.pvn
  obtain ⟨h1, h2, h3⟩ := interpolateSurface_shape pu pv su sv pts cdsU cdsV invpu invpv kvu kvv cp h
  subst h1; subst h2
  exact ⟨h3, computeKnotVector_length pu su _ _ hpu, computeKnotVector_length pv sv _ _ hpv⟩

/-- The averaged parameters of a surface direction (`compute_params_surface`): as many as data
    points in that direction, start at 0, end at 1, non-decreasing (every line of the data has
    non-negative chord lengths with positive sum). -/
theorem surface_params_spec (cdsList : List (List K)) (n : ℕ) (hn : 0 < n) (hne : cdsList ≠ [])
    (h : ∀ c ∈ cdsList, c.length + 1 = n ∧ (∀ x ∈ c, 0 ≤ x) ∧ 0 < sumL c) :
    (averageParams cdsList n).length = n ∧ (averageParams cdsList n).getD 0 0 = 0 ∧
    (averageParams cdsList n).getD (n - 1) 0 = 1 ∧
    ∀ i j, i ≤ j → j < n → (averageParams cdsList n).getD i 0 ≤ (averageParams cdsList n).getD j 0 :=
  ⟨averageParams_length cdsList n, averageParams_first cdsList n hn,
   averageParams_last cdsList n hn hne (fun c hc => ⟨(h c hc).1, ne_of_gt (h c hc).2.2⟩),
   fun i j hij hj => averageParams_mono cdsList n h i j hij hj⟩

/-! ### least squares -/

/-- **Algebraic core of least squares** (any field): if `x` solves the normal equations
    `NᵀN x = Nᵀ r` (`N` with `m` rows and `n` columns), then for every `y`
    `‖N y − r‖² = ‖N x − r‖² + ‖N (y − x)‖²`. -/
theorem least_squares_pythagoras {F : Type} [Field F] (m n : ℕ) (N : ℕ → ℕ → F) (r x y : ℕ → F)
    (h : ∀ i, i < n → ∑ j ∈ range n, (∑ k ∈ range m, N k i * N k j) * x j = ∑ k ∈ range m, N k i * r k) :
    ∑ k ∈ range m, (∑ j ∈ range n, N k j * y j - r k) ^ 2
      = ∑ k ∈ range m, (∑ j ∈ range n, N k j * x j - r k) ^ 2
        + ∑ k ∈ range m, (∑ j ∈ range n, N k j * (y j - x j)) ^ 2 :=
  Lsq.pythagoras m n N r x y h

/-- … hence over an ordered field a solution of the normal equations minimises `‖N y − r‖²`. -/
theorem least_squares_minimises (m n : ℕ) (N : ℕ → ℕ → K) (r x y : ℕ → K)
    (h : ∀ i, i < n → ∑ j ∈ range n, (∑ k ∈ range m, N k i * N k j) * x j = ∑ k ∈ range m, N k i * r k) :
    ∑ k ∈ range m, (∑ j ∈ range n, N k j * x j - r k) ^ 2
      ≤ ∑ k ∈ range m, (∑ j ∈ range n, N k j * y j - r k) ^ 2 :=
  Lsq.minimises m n N r x y h

/-- **`fitting.approximate_curve` solves the normal equations** (Eq. 9.65–9.67): whenever the solver
    returns, the control polygon is `Q₀ :: x ++ [Q_m]` with `nc − 2` interior points and, for every
    coordinate `c`, `Σ_j (Σ_k N_{i}(ū_k) N_{j}(ū_k)) x_j = Σ_k N_{i}(ū_k) Rk_k` for every interior basis
    function `i` (sums over interior data points `k` and interior control points `j`; `N` as computed
    by `basis_function_one`; `Rk_k = Q_k − N_0(ū_k) Q₀ − N_{nc−1}(ū_k) Q_m`). -/
theorem approximateCurve_normal_equations (p : ℕ) (pts : List (List K)) (cds : List K) (nc : ℕ) (fl : K → ℕ)
    (kv : List K) (cp : List (List K)) (hg : ApproxCurveOk p pts cds nc)
    (h : approximateCurve p pts cds nc fl = some (kv, cp)) :
    ∃ x : List (List K), cp = [pts.headD []] ++ x ++ [pts.getLastD []] ∧ x.length = nc - 2 ∧
      ∀ c, c < (pts.headD []).length → ∀ i, i < nc - 2 →
        ∑ j ∈ range (nc - 2),
            (∑ k ∈ range (pts.length - 2),
              basisFunOne p (fnOf kv) kv.length (1 + i) ((computeParams cds).getD (1 + k) 0)
                * basisFunOne p (fnOf kv) kv.length (1 + j) ((computeParams cds).getD (1 + k) 0)) * ent x j c
          = ∑ k ∈ range (pts.length - 2),
              basisFunOne p (fnOf kv) kv.length (1 + i) ((computeParams cds).getD (1 + k) 0)
                * ((pts.getD (1 + k) []).getD c 0
                    - (pts.headD []).getD c 0 * basisFunOne p (fnOf kv) kv.length 0 ((computeParams cds).getD (1 + k) 0)
                    - (pts.getLastD []).getD c 0 * basisFunOne p (fnOf kv) kv.length (nc - 1) ((computeParams cds).getD (1 + k) 0)) := by
  obtain ⟨_, x, h1, h2, _, h4⟩ := approximateCurve_normal p pts cds nc fl kv cp hg.nd h
  exact ⟨x, h1, h2, h4⟩

/-- **residual form of the normal equations**: the residual `Q_k − C(ū_k)` of the returned curve
    (`C(u) = Σ_j N_{j,p}(u) P_j` over ALL control points) summed over the interior data points
    against any interior basis function `N_{i,p}` vanishes, coordinate by coordinate. -/
theorem approximateCurve_residual_orthogonal (p : ℕ) (pts : List (List K)) (cds : List K) (nc : ℕ) (fl : K → ℕ)
    (kv : List K) (cp : List (List K)) (hg : ApproxCurveOk p pts cds nc)
    (h : approximateCurve p pts cds nc fl = some (kv, cp)) (i : ℕ) (hi1 : 1 ≤ i) (hi2 : i + 1 < nc)
    (c : ℕ) (hc : c < (pts.headD []).length) :
    ∑ k ∈ Ico 1 (pts.length - 1), basisFunOne p (fnOf kv) kv.length i ((computeParams cds).getD k 0) *
      ((ptsGet pts k).getD c 0
        - ∑ j ∈ range cp.length, basisFunOne p (fnOf kv) kv.length j ((computeParams cds).getD k 0) * (ptsGet cp j).getD c 0) = 0 :=
  approximateCurve_orthogonal p pts cds nc fl kv cp (le_trans (by omega) hg.nc3) hg.nd h i hi1 hi2 c hc

/-- **`fitting.approximate_curve` minimises**: among all control polygons `Q₀ :: y ++ [Q_m]` with
    `nc − 2` interior points, the returned one has the least
    `Σ_{k=1}^{nd−2} Σ_c (Q_{k,c} − Σ_j N_{j,p}(ū_k) P_{j,c})²` (`Geomdl.lsqError`). -/
theorem approximateCurve_minimises (p : ℕ) (pts : List (List K)) (cds : List K) (nc : ℕ) (fl : K → ℕ)
    (kv : List K) (cp : List (List K)) (hg : ApproxCurveOk p pts cds nc)
    (h : approximateCurve p pts cds nc fl = some (kv, cp)) (y : List (List K)) (hy : y.length = nc - 2) :
    lsqError p (fnOf kv) kv.length (computeParams cds) pts (pts.headD []).length cp
      ≤ lsqError p (fnOf kv) kv.length (computeParams cds) pts (pts.headD []).length
          ([pts.headD []] ++ y ++ [pts.getLastD []]) :=
  Geomdl.approximateCurve_minimises p pts cds nc fl kv cp (le_trans (by omega) hg.nc3) hg.nd h y hy

/-- The same for the EVALUATED curve (`curvePoint`, A3.1 at the span found by the linear search):
    `Σ_k |Q_k − C(ū_k)|²` (`Geomdl.lsqErrorEval`) is minimal, given a non-decreasing knot vector, interior
    parameters inside the half-open domain, and that `basis_function_one` returns the Cox–de Boor values
    there (hypothesis `hB`; this is theorem `basisFunOne_eq_cdb` of C03). -/
theorem approximateCurve_minimises_evaluated (p : ℕ) (pts : List (List K)) (cds : List K) (nc : ℕ) (fl : K → ℕ)
    (kv : List K) (cp : List (List K)) (d : ℕ) (hg : ApproxCurveOk p pts cds nc)
    (hP : NetOk d pts) (h : approximateCurve p pts cds nc fl = some (kv, cp))
    (hm : Monotone (fnOf kv))
    (hdom : ∀ k, 1 ≤ k → k + 1 < pts.length →
      fnOf kv p ≤ (computeParams cds).getD k 0 ∧ (computeParams cds).getD k 0 < fnOf kv nc)
    (hB : ∀ k, 1 ≤ k → k + 1 < pts.length → ∀ j, j < nc →
      basisFunOne p (fnOf kv) kv.length j ((computeParams cds).getD k 0)
        = Blossom.cdb (fnOf kv) p j ((computeParams cds).getD k 0))
    (y : List (List K)) (hy : y.length = nc - 2) (hyd : NetOk d y) :
    lsqErrorEval p (fnOf kv) (computeParams cds) pts d cp
      ≤ lsqErrorEval p (fnOf kv) (computeParams cds) pts d ([pts.headD []] ++ y ++ [pts.getLastD []]) :=
  Geomdl.approximateCurve_minimises_evaluated p pts cds nc fl kv cp d (le_trans (by omega) hg.nc3) hg.pn hg.nd hP h hm hdom
    hB y hy hyd

/-- The knot vector of the approximation has `nc + p + 1` knots and is clamped (`p+1` zeros, `p+1` ones),
    so the curve has `nc` control points and degree `p`. -/
theorem approximateCurve_shape (p : ℕ) (pts : List (List K)) (cds : List K) (nc : ℕ) (fl : K → ℕ)
    (kv : List K) (cp : List (List K)) (hg : ApproxCurveOk p pts cds nc)
    (h : approximateCurve p pts cds nc fl = some (kv, cp)) :
    cp.length = nc ∧ kv.length = nc + p + 1 ∧ (∀ i, i ≤ p → fnOf kv i = 0) ∧ (∀ i, nc ≤ i → fnOf kv i = 1) := by
  have hnc2 : 2 ≤ nc := le_trans (by omega) hg.nc3
  have hpn := hg.pn
  have hnc := hg.nd
  obtain ⟨hkv, x, hcp, hxl, _, _⟩ := approximateCurve_normal p pts cds nc fl kv cp hnc h
  subst hkv
  refine ⟨by rw [hcp]; simp [hxl]; omega, computeKnotVector2_length p _ nc _ fl hpn,
    (computeKnotVector2_clamped p _ nc _ fl hpn).1, (computeKnotVector2_clamped p _ nc _ fl hpn).2⟩

/-- **The approximating curve interpolates the end data points**: `C(0) = Q₀` and `C(1) = Q_m`
    (evaluated curve, every coordinate), for a non-decreasing knot vector whose first and last spans
    are not empty (`0 < U_{p+1}`, `U_{nc-1} < 1`). -/
theorem approximateCurve_interpolates_ends (p : ℕ) (pts : List (List K)) (cds : List K) (nc : ℕ) (fl : K → ℕ)
    (kv : List K) (cp : List (List K)) (d : ℕ) (hg : ApproxCurveOk p pts cds nc)
    (hP : NetOk d pts) (h : approximateCurve p pts cds nc fl = some (kv, cp))
    (hm : Monotone (fnOf kv)) (h0 : 0 < fnOf kv (p + 1)) (h1 : fnOf kv (nc - 1) < 1) (c : ℕ) :
    (curvePoint p (fnOf kv) cp 0).getD c 0 = (pts.headD []).getD c 0 ∧
    (curvePoint p (fnOf kv) cp 1).getD c 0 = (pts.getLastD []).getD c 0 :=
  Geomdl.approximateCurve_interpolates_ends p pts cds nc fl kv cp d (le_trans (by omega) hg.nc3) hg.pn hg.nd hP h hm h0 h1 c

/-! ### the knot vector of the approximation (`compute_knot_vector2`) and data with distinct consecutive points -/

/-- `compute_knot_vector2` is non-decreasing for non-decreasing parameters in `[0, 1]` (`fl` = `int(·)`:
    `fl x ≤ x < fl x + 1` on non-negative `x`; at most `nd + p` control points). -/
theorem knotVector2_monotone (p nd nc : ℕ) (uk : List K) (fl : K → ℕ) (hfl : IsFloor fl)
    (hpn : p + 1 ≤ nc) (hnd : nc ≤ nd + p)
    (h0 : ∀ i, 0 ≤ uk.getD i 0) (h1 : ∀ i, uk.getD i 0 ≤ 1)
    (hmono : ∀ i j, i ≤ j → j < nd → uk.getD i 0 ≤ uk.getD j 0) :
    Monotone (fnOf (computeKnotVector2 p nd nc uk fl)) :=
  computeKnotVector2_mono p nd nc uk fl hfl hpn hnd h0 h1 hmono

/-- For strictly increasing parameters from 0 to 1 its first and last spans are not empty. -/
theorem knotVector2_ends (p nd nc : ℕ) (uk : List K) (fl : K → ℕ) (hfl : IsFloor fl)
    (hp : 1 ≤ p) (hpn : p + 1 ≤ nc) (hnd : nc ≤ nd)
    (hfirst : uk.getD 0 0 = 0) (hlast : uk.getD (nd - 1) 0 = 1)
    (hstrict : ∀ i j, i < j → j < nd → uk.getD i 0 < uk.getD j 0) :
    0 < fnOf (computeKnotVector2 p nd nc uk fl) (p + 1) ∧ fnOf (computeKnotVector2 p nd nc uk fl) (nc - 1) < 1 :=
  computeKnotVector2_ends p nd nc uk fl hfl hp hpn hnd hfirst hlast hstrict

/-- **End point interpolation for data with distinct consecutive points** (positive chord lengths):
    whenever the solver returns, `C(0) = Q₀` and `C(1) = Q_m` for the evaluated approximating curve –
    no hypothesis on the knot vector. -/
theorem approximateCurve_interpolates_ends_distinct (p : ℕ) (pts : List (List K)) (cds : List K) (nc : ℕ) (fl : K → ℕ)
    (kv : List K) (cp : List (List K)) (d : ℕ) (hfl : IsFloor fl) (hg : ApproxCurveOk p pts cds nc)
    (hpos : ∀ x ∈ cds, 0 < x)
    (hP : NetOk d pts) (h : approximateCurve p pts cds nc fl = some (kv, cp)) (c : ℕ) :
    (curvePoint p (fnOf kv) cp 0).getD c 0 = (pts.headD []).getD c 0 ∧
    (curvePoint p (fnOf kv) cp 1).getD c 0 = (pts.getLastD []).getD c 0 :=
  Geomdl.approximateCurve_interpolates_ends_distinct p pts cds nc fl kv cp d hfl hg.p1 hg.pn hg.nd hg.len hpos hP h c

/-- **Least squares for the evaluated curve, data with distinct consecutive points**: besides "the
    solver returns" the only hypothesis left is `hB` (`basis_function_one` = Cox–de Boor at the interior
    parameters, theorem `basisFunOne_eq_cdb` of C03). -/
theorem approximateCurve_minimises_evaluated_distinct (p : ℕ) (pts : List (List K)) (cds : List K) (nc : ℕ) (fl : K → ℕ)
    (kv : List K) (cp : List (List K)) (d : ℕ) (hfl : IsFloor fl) (hg : ApproxCurveOk p pts cds nc)
    (hpos : ∀ x ∈ cds, 0 < x)
    (hP : NetOk d pts) (h : approximateCurve p pts cds nc fl = some (kv, cp))
    (hB : ∀ k, 1 ≤ k → k + 1 < pts.length → ∀ j, j < nc →
      basisFunOne p (fnOf kv) kv.length j ((computeParams cds).getD k 0)
        = Blossom.cdb (fnOf kv) p j ((computeParams cds).getD k 0))
    (y : List (List K)) (hy : y.length = nc - 2) (hyd : NetOk d y) :
    lsqErrorEval p (fnOf kv) (computeParams cds) pts d cp
      ≤ lsqErrorEval p (fnOf kv) (computeParams cds) pts d ([pts.headD []] ++ y ++ [pts.getLastD []]) :=
  Geomdl.approximateCurve_minimises_evaluated_distinct p pts cds nc fl kv cp d hfl hg.p1 hg.pn hg.nd hg.len hpos hP h hB y hy
    hyd

/-- **Least squares, final form** (with C03 `basisFunOne_eq_cdb`): for data with distinct consecutive
    points, whenever the solver returns, the control polygon returned by `approximate_curve` minimises
    the summed squared distance `Σ_{k=1}^{nd−2} |Q_k − C(ū_k)|²` between the interior data points and
    the EVALUATED curve (A3.1) among all polygons `Q₀ :: y ++ [Q_m]` with `nc − 2` interior points. -/
theorem approximateCurve_least_squares (p : ℕ) (pts : List (List K)) (cds : List K) (nc : ℕ) (fl : K → ℕ)
    (kv : List K) (cp : List (List K)) (d : ℕ) (hfl : IsFloor fl) (hg : ApproxCurveOk p pts cds nc)
    (hpos : ∀ x ∈ cds, 0 < x)
    (hP : NetOk d pts) (h : approximateCurve p pts cds nc fl = some (kv, cp))
    (y : List (List K)) (hy : y.length = nc - 2) (hyd : NetOk d y) :
    lsqErrorEval p (fnOf kv) (computeParams cds) pts d cp
      ≤ lsqErrorEval p (fnOf kv) (computeParams cds) pts d ([pts.headD []] ++ y ++ [pts.getLastD []]) :=
  Geomdl.approximateCurve_least_squares p pts cds nc fl kv cp d hfl hg.p1 hg.pn hg.nd hg.len hpos hP h y hy hyd

/-! ### surface approximation (`fitting.approximate_surface`, A9.7 as coded) -/

/-- `approximate_curve` is ONE least-squares pass (`lsqPass`, the routine `approximate_surface` runs on
    every data column and then on every line of intermediate points) on the whole data, with the
    parameters and the knot vector of the curve. -/
theorem approximateCurve_is_one_pass (p : ℕ) (pts : List (List K)) (cds : List K) (nc : ℕ) (fl : K → ℕ) :
    approximateCurve p pts cds nc fl =
      (match lsqPass p (fnOf (computeKnotVector2 p pts.length nc (computeParams cds) fl))
          (computeKnotVector2 p pts.length nc (computeParams cds) fl).length (computeParams cds) pts nc (pts.headD []).length with
       | none => none
       | some cp => some (computeKnotVector2 p pts.length nc (computeParams cds) fl, cp)) :=
  approximateCurve_eq_lsqPass p pts cds nc fl

/-- **The four corner control points of `approximate_surface` are the four corner data points**
    (`eu`, `ev`: last index of the direction or the first; layouts `v + size_v·u` of the data and
    `v + ctrlpts_size_v·u` of the net), and the net has `ncu · ncv` points – whenever the solver passes
    return, on the inputs the routine accepts (`ApproxSurfOk`: in particular `su·sv` data points – with a short list
    the code raises `IndexError` and the model pads with `[]` –, at least three control points per direction, no data
    line of total chord length 0). -/
theorem approximateSurface_corner_ctrlpts (pu pv su sv : ℕ) (pts : List (List K)) (cdsU cdsV : List (List K))
    (ncu ncv : ℕ) (fl : K → ℕ) (kvu kvv : List K) (cp : List (List K))
    (hg : ApproxSurfOk pu pv su sv pts cdsU cdsV ncu ncv)
    (h : approximateSurface pu pv su sv pts cdsU cdsV ncu ncv fl = some (kvu, kvv, cp)) (eu ev : Bool) :
    cp.length = ncu * ncv ∧
    ptsGet cp ((if ev then ncv - 1 else 0) + ncv * (if eu then ncu - 1 else 0))
      = ptsGet pts ((if ev then sv - 1 else 0) + sv * (if eu then su - 1 else 0)) :=
  Geomdl.approximateSurface_corner_ctrlpts pu pv su sv pts cdsU cdsV ncu ncv fl kvu kvv cp
    (le_trans (by omega) (le_trans hg.ncu3 hg.ndu)) (le_trans (by omega) (le_trans hg.ncv3 hg.ndv))
    (le_trans (by omega) hg.ncu3) (le_trans (by omega) hg.ncv3) h eu ev

/-- **requested sizes and degrees**: the two knot vectors are those of `compute_knot_vector2` for the
    averaged parameters, have `ncu + pu + 1` and `ncv + pv + 1` knots and are clamped; every control
    point has the dimension of the data. -/
theorem approximateSurface_shape (pu pv su sv : ℕ) (pts : List (List K)) (cdsU cdsV : List (List K))
    (ncu ncv : ℕ) (fl : K → ℕ) (kvu kvv : List K) (cp : List (List K)) (d : ℕ)
    (hg : ApproxSurfOk pu pv su sv pts cdsU cdsV ncu ncv) (hP : NetOk d pts)
    (h : approximateSurface pu pv su sv pts cdsU cdsV ncu ncv fl = some (kvu, kvv, cp)) :
    kvu = computeKnotVector2 pu su ncu (averageParams cdsU su) fl ∧
    kvv = computeKnotVector2 pv sv ncv (averageParams cdsV sv) fl ∧
    kvu.length = ncu + pu + 1 ∧ kvv.length = ncv + pv + 1 ∧
    (∀ i, i ≤ pu → fnOf kvu i = 0) ∧ (∀ i, ncu ≤ i → fnOf kvu i = 1) ∧
    (∀ i, i ≤ pv → fnOf kvv i = 0) ∧ (∀ i, ncv ≤ i → fnOf kvv i = 1) ∧ NetOk d cp := by
  have hsu : 1 ≤ su := le_trans (by omega) (le_trans hg.ncu3 hg.ndu)
  have hsv : 1 ≤ sv := le_trans (by omega) (le_trans hg.ncv3 hg.ndv)
  have hncu : 2 ≤ ncu := le_trans (by omega) hg.ncu3
  have hpu := hg.pun
  have hpv := hg.pvn
  have hlen := hg.len
  obtain ⟨h1, h2, _⟩ := approximateSurface_struct pu pv su sv pts cdsU cdsV ncu ncv fl kvu kvv cp h
  have hN := approximateSurface_netOk pu pv su sv pts cdsU cdsV ncu ncv fl kvu kvv cp d hsu hsv hncu hlen hP h
  subst h1; subst h2
  exact ⟨rfl, rfl, computeKnotVector2_length pu _ ncu _ fl hpu, computeKnotVector2_length pv _ ncv _ fl hpv,
    (computeKnotVector2_clamped pu _ ncu _ fl hpu).1, (computeKnotVector2_clamped pu _ ncu _ fl hpu).2,
    (computeKnotVector2_clamped pv _ ncv _ fl hpv).1, (computeKnotVector2_clamped pv _ ncv _ fl hpv).2, hN⟩

/-- **The approximating surface interpolates the four corner data points**: `S(0|1, 0|1)` (evaluated
    surface, through the span search, every coordinate) is the corner data point – whenever the solver
    passes return, for knot vectors that are non-decreasing with non-empty first and last spans
    (clamped-corner theorem of C18). -/
theorem approximateSurface_interpolates_corners (pu pv su sv : ℕ) (pts : List (List K)) (cdsU cdsV : List (List K))
    (ncu ncv : ℕ) (fl : K → ℕ) (kvu kvv : List K) (cp : List (List K)) (d : ℕ)
    (hg : ApproxSurfOk pu pv su sv pts cdsU cdsV ncu ncv) (hP : NetOk d pts)
    (h : approximateSurface pu pv su sv pts cdsU cdsV ncu ncv fl = some (kvu, kvv, cp))
    (hmu : Monotone (fnOf kvu)) (hu0 : 0 < fnOf kvu (pu + 1)) (hu1 : fnOf kvu (ncu - 1) < 1)
    (hmv : Monotone (fnOf kvv)) (hv0 : 0 < fnOf kvv (pv + 1)) (hv1 : fnOf kvv (ncv - 1) < 1)
    (eu ev : Bool) (c : ℕ) :
    (surfacePoint pu pv (fnOf kvu) (fnOf kvv) ncu ncv cp (if eu then 1 else 0) (if ev then 1 else 0)).getD c 0
      = (ptsGet pts ((if ev then sv - 1 else 0) + sv * (if eu then su - 1 else 0))).getD c 0 :=
  Geomdl.approximateSurface_interpolates_corners pu pv su sv pts cdsU cdsV ncu ncv fl kvu kvv cp d
    (le_trans (by omega) (le_trans hg.ncu3 hg.ndu)) (le_trans (by omega) (le_trans hg.ncv3 hg.ndv))
    (le_trans (by omega) hg.ncu3) (le_trans (by omega) hg.ncv3)
    hg.pun hg.pvn hg.len hP h hmu hu0 hu1 hmv hv0 hv1 eu ev c

/-- **Corner interpolation for data whose consecutive points are distinct** (every chord length
    positive, one chord list per data line): no hypothesis on the knot vectors is left – whenever the
    solver passes return, `S(0|1, 0|1)` is the corner data point (`knotVector2_monotone`,
    `knotVector2_ends` for the averaged parameters of `compute_params_surface`). -/
theorem approximateSurface_interpolates_corners_distinct (pu pv su sv : ℕ) (pts : List (List K))
    (cdsU cdsV : List (List K)) (ncu ncv : ℕ) (fl : K → ℕ) (kvu kvv : List K) (cp : List (List K)) (d : ℕ)
    (hfl : IsFloor fl) (hg : ApproxSurfOk pu pv su sv pts cdsU cdsV ncu ncv) (hP : NetOk d pts)
    (hcU : ∀ c ∈ cdsU, ∀ x ∈ c, 0 < x) (hcV : ∀ c ∈ cdsV, ∀ x ∈ c, 0 < x)
    (h : approximateSurface pu pv su sv pts cdsU cdsV ncu ncv fl = some (kvu, kvv, cp))
    (eu ev : Bool) (c : ℕ) :
    (surfacePoint pu pv (fnOf kvu) (fnOf kvv) ncu ncv cp (if eu then 1 else 0) (if ev then 1 else 0)).getD c 0
      = (ptsGet pts ((if ev then sv - 1 else 0) + sv * (if eu then su - 1 else 0))).getD c 0 :=
  Geomdl.approximateSurface_interpolates_corners_distinct pu pv su sv pts cdsU cdsV ncu ncv fl kvu kvv cp d hfl hg.pu1 hg.pv1
    hg.pun hg.pvn hg.ndu hg.ndv hg.len hP
    ⟨by intro e; have := hg.cu.1; rw [e] at this; have := hg.ncv3; have := hg.ndv; simp at *; omega,
     fun c hc => ⟨(hg.cu.2 c hc).1, hcU c hc⟩⟩
    ⟨by intro e; have := hg.cv.1; rw [e] at this; have := hg.ncu3; have := hg.ndu; simp at *; omega,
     fun c hc => ⟨(hg.cv.2 c hc).1, hcV c hc⟩⟩ h eu ev c

/-- The averaged parameters of `compute_params_surface` are strictly increasing when every chord length
    is positive. -/
theorem surface_params_strictMono (cdsList : List (List K)) (n : ℕ) (hne : cdsList ≠ [])
    (h : ∀ c ∈ cdsList, c.length + 1 = n ∧ ∀ x ∈ c, 0 < x) (i j : ℕ) (hij : i < j) (hj : j < n) :
    (averageParams cdsList n).getD i 0 < (averageParams cdsList n).getD j 0 :=
  averageParams_strictMono cdsList n hne h i j hij hj

/-- **Both passes of `approximate_surface` solve their normal equations** (A9.7 is two families of curve
    fits): whenever it returns there are `sv` column polygons `cols` (`ncu` points each) and `ncu` row
    polygons `rows` whose concatenation is the control net, such that column `j` is a least-squares
    polygon (`Geomdl.IsLsqLine`: the two ends of the line kept, the interior points solve
    `NᵀN x = Nᵀ Rk` coordinate by coordinate, `N` as computed by `basis_function_one`) of the data line
    `Q_{0,j} … Q_{su−1,j}` for the parameters `ū` and the knot vector `kvu`, and row `i` is a least-squares
    polygon of the line formed by the `i`-th points of the columns for `v̄` and `kvv`.  On the inputs the routine
    accepts (`ApproxSurfOk`, data points of one dimension `d`; with a data line of coincident points the code raises
    `ZeroDivisionError` while the model would return with all-zero parameters). -/
theorem approximateSurface_passes_normal_equations (pu pv su sv : ℕ) (pts : List (List K)) (cdsU cdsV : List (List K))
    (ncu ncv : ℕ) (fl : K → ℕ) (kvu kvv : List K) (cp : List (List K)) (d : ℕ)
    (hg : ApproxSurfOk pu pv su sv pts cdsU cdsV ncu ncv) (hP : NetOk d pts)
    (h : approximateSurface pu pv su sv pts cdsU cdsV ncu ncv fl = some (kvu, kvv, cp)) :
    ∃ cols rows : List (List (List K)), cols.length = sv ∧ rows.length = ncu ∧ cp = rows.flatten ∧
      (∀ j, j < sv → IsLsqLine pu (fnOf kvu) kvu.length (averageParams cdsU su)
          ((List.range su).map (fun i => pts.getD (j + sv * i) [])) ncu (pts.headD []).length (cols.getD j [])) ∧
      (∀ i, i < ncu → IsLsqLine pv (fnOf kvv) kvv.length (averageParams cdsV sv)
          ((List.range sv).map (fun j => (cols.getD j []).getD i [])) ncv (pts.headD []).length (rows.getD i [])) :=
  approximateSurface_passes_lsq pu pv su sv pts cdsU cdsV ncu ncv fl kvu kvv cp hg.ndu hg.ndv h

/-- … what `IsLsqLine` says, written out: the polygon is `Q₀ :: x ++ [Q_m]` and `x` solves the normal
    equations of every coordinate … -/
theorem lsqLine_normal_equations (p : ℕ) (U : ℕ → K) (m : ℕ) (uk : List K) (line : List (List K)) (nc dim : ℕ)
    (cp : List (List K)) (h : IsLsqLine p U m uk line nc dim cp) :
    ∃ x : List (List K), cp = [line.headD []] ++ x ++ [line.getLastD []] ∧ x.length = nc - 2 ∧
      ∀ c, c < dim → ∀ i, i < nc - 2 →
        ∑ j ∈ range (nc - 2),
            (∑ k ∈ range (line.length - 2),
              basisFunOne p U m (1 + i) (uk.getD (1 + k) 0) * basisFunOne p U m (1 + j) (uk.getD (1 + k) 0)) * ent x j c
          = ∑ k ∈ range (line.length - 2),
              basisFunOne p U m (1 + i) (uk.getD (1 + k) 0)
                * ((line.getD (1 + k) []).getD c 0
                    - (line.headD []).getD c 0 * basisFunOne p U m 0 (uk.getD (1 + k) 0)
                    - (line.getLastD []).getD c 0 * basisFunOne p U m (nc - 1) (uk.getD (1 + k) 0)) := by
  obtain ⟨x, h1, h2, _, h4⟩ := h
  exact ⟨x, h1, h2, h4⟩

/-- … hence each pass **minimises** the summed squared residual of its line,
    `Σ_{k=1}^{nd−2} Σ_c (Q_{k,c} − Σ_j N_{j,p}(ū_k) P_{j,c})²` (`Geomdl.lsqError`), among all polygons with the
    same two ends and `nc − 2` interior points, and its residual is orthogonal to every interior basis
    function. -/
theorem lsqLine_minimises (p : ℕ) (U : ℕ → K) (m : ℕ) (uk : List K) (line : List (List K)) (nc dim : ℕ)
    (cp : List (List K)) (h : IsLsqLine p U m uk line nc dim cp) (hnc2 : 2 ≤ nc) :
    (∀ y : List (List K), y.length = nc - 2 →
      lsqError p U m uk line dim cp ≤ lsqError p U m uk line dim ([line.headD []] ++ y ++ [line.getLastD []])) ∧
    (∀ i, 1 ≤ i → i + 1 < nc → ∀ c, c < dim →
      ∑ k ∈ Ico 1 (line.length - 1), basisFunOne p U m i (uk.getD k 0) *
        ((ptsGet line k).getD c 0 - ∑ j ∈ range cp.length, basisFunOne p U m j (uk.getD k 0) * (ptsGet cp j).getD c 0) = 0) :=
  ⟨fun y hy => h.minimises hnc2 y hy, fun i hi1 hi2 c hc => h.orthogonal hnc2 i hi1 hi2 c hc⟩

/-! ### the passes of `approximate_surface` against the EVALUATED curve of each line -/

/-- **A least-squares polygon minimises the distance to the evaluated curve**: if `cp` solves the normal equations of a
    data line (`IsLsqLine`), the knot function is non-decreasing, the interior parameters lie in the half-open domain
    `[U_p, U_nc)` and `basis_function_one` returns the Cox–de Boor values there (`hB`, theorem `basisFunOne_eq_cdb` of
    C03), then `Σ_{k=1}^{nd−2} |Q_k − C(ū_k)|²` with `C` the B-spline curve EVALUATED through the span search and A3.1
    (`Geomdl.lsqErrorEval`) is least for `cp` among all polygons with the same two ends and `nc − 2` interior points. -/
theorem lsqLine_minimises_evaluated (p : ℕ) (U : ℕ → K) (m : ℕ) (uk : List K) (line : List (List K)) (nc d : ℕ)
    (cp : List (List K)) (h : IsLsqLine p U m uk line nc d cp) (hnc3 : 3 ≤ nc) (hpn : p + 1 ≤ nc)
    (hline : NetOk d line) (hne : 0 < line.length) (hm : Monotone U)
    (hdom : ∀ k, 1 ≤ k → k + 1 < line.length → U p ≤ uk.getD k 0 ∧ uk.getD k 0 < U nc)
    (hB : ∀ k, 1 ≤ k → k + 1 < line.length → ∀ j, j < nc →
      basisFunOne p U m j (uk.getD k 0) = Blossom.cdb U p j (uk.getD k 0))
    (y : List (List K)) (hy : y.length = nc - 2) (hyd : NetOk d y) :
    lsqErrorEval p U uk line d cp ≤ lsqErrorEval p U uk line d ([line.headD []] ++ y ++ [line.getLastD []]) :=
  h.minimises_evaluated (by omega) hpn hline hne hm hdom hB y hy hyd

/-- **One pass of A9.7 as coded, evaluated form, no hypothesis on the knot vector**: for a line of `nd` data points with
    parameters that run strictly increasing from 0 to 1 (what `compute_params_surface` returns for data whose
    consecutive points are distinct) and the knot vector of `compute_knot_vector2` for them, whenever `lu_solve`
    returns, the polygon computed by the pass (`Geomdl.lsqPass`: ends copied, interior control points from the normal
    equations) minimises the summed squared distance between the interior data points and the EVALUATED B-spline curve
    at their parameters, among all polygons with the same two end points (at least three control points: with two the
    code raises, F-11a). -/
theorem lsqPass_least_squares (p nc : ℕ) (uk : List K) (line : List (List K)) (fl : K → ℕ) (d : ℕ)
    (cp : List (List K)) (hfl : IsFloor fl) (hp : 1 ≤ p) (hpn : p + 1 ≤ nc) (hnc3 : 3 ≤ nc) (hnd : nc ≤ line.length)
    (hlen : uk.length = line.length) (hline : NetOk d line)
    (hfirst : uk.getD 0 0 = 0) (hlast : uk.getD (line.length - 1) 0 = 1)
    (hstrict : ∀ i j, i < j → j < line.length → uk.getD i 0 < uk.getD j 0)
    (h : lsqPass p (fnOf (computeKnotVector2 p line.length nc uk fl)) (computeKnotVector2 p line.length nc uk fl).length
          uk line nc d = some cp)
    (y : List (List K)) (hy : y.length = nc - 2) (hyd : NetOk d y) :
    lsqErrorEval p (fnOf (computeKnotVector2 p line.length nc uk fl)) uk line d cp
      ≤ lsqErrorEval p (fnOf (computeKnotVector2 p line.length nc uk fl)) uk line d
          ([line.headD []] ++ y ++ [line.getLastD []]) :=
  Geomdl.lsqPass_least_squares p nc uk line fl d cp hfl hp hpn hnd hlen hline hfirst hlast hstrict h y hy hyd

/-- **Both passes of `approximate_surface` are least-squares fits against the EVALUATED curves of their lines** (A9.7 as
    coded, data whose consecutive points are distinct in both directions: every chord length positive): whenever it
    returns, there are the `sv` column polygons `cols` computed by the first pass (`lsqPass` on the data column
    `Q_{0,j} … Q_{su−1,j}`, parameters `ū`, knot vector `kvu`) and the `ncu` row polygons `rows` computed by the second
    pass (`lsqPass` on the line of the `i`-th points of the columns, parameters `v̄`, knot vector `kvv`; the control net
    is the concatenation of the rows), and for EACH line the interior control points computed minimise
    `Σ_{k interior} |Q_k − C(ū_k)|²`, `C` the B-spline curve of the line evaluated through the span search / A3.1, among
    ALL choices `y` of the `nc − 2` interior control points with the two end control points fixed.  (A least-squares
    statement for the surface as a whole is not true of A9.7.) -/
theorem approximateSurface_passes_least_squares (pu pv su sv : ℕ) (pts : List (List K)) (cdsU cdsV : List (List K))
    (ncu ncv : ℕ) (fl : K → ℕ) (kvu kvv : List K) (cp : List (List K)) (d : ℕ)
    (hfl : IsFloor fl) (hg : ApproxSurfOk pu pv su sv pts cdsU cdsV ncu ncv) (hP : NetOk d pts)
    (hcU : ∀ c ∈ cdsU, ∀ x ∈ c, 0 < x) (hcV : ∀ c ∈ cdsV, ∀ x ∈ c, 0 < x)
    (h : approximateSurface pu pv su sv pts cdsU cdsV ncu ncv fl = some (kvu, kvv, cp)) :
    ∃ cols rows : List (List (List K)), cols.length = sv ∧ rows.length = ncu ∧ cp = rows.flatten ∧
      (∀ j, j < sv →
        lsqPass pu (fnOf kvu) kvu.length (averageParams cdsU su)
          ((List.range su).map (fun i => pts.getD (j + sv * i) [])) ncu (pts.headD []).length = some (cols.getD j []) ∧
        ∀ y : List (List K), y.length = ncu - 2 → NetOk d y →
          lsqErrorEval pu (fnOf kvu) (averageParams cdsU su) ((List.range su).map (fun i => pts.getD (j + sv * i) [])) d
              (cols.getD j [])
            ≤ lsqErrorEval pu (fnOf kvu) (averageParams cdsU su) ((List.range su).map (fun i => pts.getD (j + sv * i) [])) d
              ([pts.getD j []] ++ y ++ [pts.getD (j + sv * (su - 1)) []])) ∧
      (∀ i, i < ncu →
        lsqPass pv (fnOf kvv) kvv.length (averageParams cdsV sv)
          ((List.range sv).map (fun j => (cols.getD j []).getD i [])) ncv (pts.headD []).length = some (rows.getD i []) ∧
        ∀ y : List (List K), y.length = ncv - 2 → NetOk d y →
          lsqErrorEval pv (fnOf kvv) (averageParams cdsV sv) ((List.range sv).map (fun j => (cols.getD j []).getD i [])) d
              (rows.getD i [])
            ≤ lsqErrorEval pv (fnOf kvv) (averageParams cdsV sv) ((List.range sv).map (fun j => (cols.getD j []).getD i [])) d
              ([(cols.getD 0 []).getD i []] ++ y ++ [(cols.getD (sv - 1) []).getD i []])) :=
  Geomdl.approximateSurface_passes_least_squares pu pv su sv pts cdsU cdsV ncu ncv fl kvu kvv cp d hfl hg.pu1 hg.pv1
    hg.pun hg.pvn hg.ndu hg.ndv hg.len hP (hg.chords hcU hcV).1 (hg.chords hcU hcV).2 h

/-- what `lsqErrorEval` is: the sum over the interior data points `k = 1 … nd − 2` and the coordinates `c < d` of the
    squared difference between the data point and the curve point `curvePoint` (span by `find_span_linear`, A2.2, A3.1)
    at the `k`-th parameter -/
theorem lsqErrorEval_spec (p : ℕ) (U : ℕ → K) (uk : List K) (pts : List (List K)) (d : ℕ) (P : List (List K)) :
    lsqErrorEval p U uk pts d P
      = ∑ k ∈ Ico 1 (pts.length - 1), ∑ c ∈ range d,
          ((ptsGet pts k).getD c 0 - (curvePoint p U P (uk.getD k 0)).getD c 0) ^ 2 := rfl

/-! ### the knot vectors are valid clamped knot vectors -/

/-- what `Geomdl.ClampedKnots p n kv` says: `n + p + 1` knots; the first `p + 1` are `0`; the last `p + 1` (everything
    from index `n` on) are `1`; non-decreasing; every interior knot strictly inside `(0, 1)`; the knots
    `U_p < U_{p+1} < … < U_n` strictly increasing (simple interior knots, non-empty first and last span). -/
theorem clampedKnots_spec (p n : ℕ) (kv : List K) :
    ClampedKnots p n kv ↔
      kv.length = n + p + 1 ∧ (∀ i, i ≤ p → fnOf kv i = 0) ∧ (∀ i, n ≤ i → fnOf kv i = 1) ∧ Monotone (fnOf kv) ∧
      (∀ i, p < i → i < n → 0 < fnOf kv i ∧ fnOf kv i < 1) ∧ (∀ i, p ≤ i → i < n → fnOf kv i < fnOf kv (i + 1)) :=
  ⟨fun h => ⟨h.length, h.zeros, h.ones, h.mono, h.interior, h.strict⟩,
   fun h => ⟨h.1, h.2.1, h.2.2.1, h.2.2.2.1, h.2.2.2.2.1, h.2.2.2.2.2⟩⟩

/-- … such a list is accepted by the library's own validator `knotvector.check(degree, kv, num_ctrlpts)`. -/
theorem clampedKnots_check (p n : ℕ) (kv : List K) (h : ClampedKnots p n kv) : knotCheck p kv n = true := h.check

/-- The averaged knot vector (Eq. 9.8) is non-decreasing for non-decreasing parameters in `[0, 1]` whenever
    `0 ≤ invp` and `invp · p ≤ 1` – no condition on the last parameter is left.  (The double `1.0/p` is `≤ 1/p` for
    `p = 1, 2, 3, 4, 6, 7, 8, 9`, see the examples.) -/
theorem knotVector_monotone_le (p n : ℕ) (uk : List K) (invp : K) (hpn : p + 1 ≤ n)
    (hinv : 0 ≤ invp) (hinv1 : invp * (p : K) ≤ 1) (h0 : ∀ i, 0 ≤ uk.getD i 0) (h1 : ∀ i, uk.getD i 0 ≤ 1)
    (hmono : ∀ i j, i ≤ j → j < n → uk.getD i 0 ≤ uk.getD j 0) :
    Monotone (fnOf (computeKnotVector p n uk invp)) :=
  computeKnotVector_mono_le p n uk invp hpn hinv hinv1 h0 h1 hmono

/-- **exact `1/p`**: with `invp = 1/p` the averaged knot vector is non-decreasing for non-decreasing parameters in
    `[0, 1]`, no residual hypothesis. -/
theorem knotVector_monotone_exact (p n : ℕ) (uk : List K) (hp : 1 ≤ p) (hpn : p + 1 ≤ n)
    (h0 : ∀ i, 0 ≤ uk.getD i 0) (h1 : ∀ i, uk.getD i 0 ≤ 1)
    (hmono : ∀ i j, i ≤ j → j < n → uk.getD i 0 ≤ uk.getD j 0) :
    Monotone (fnOf (computeKnotVector p n uk (1 / (p : K)))) := by
  have hpK : (0 : K) < (p : K) := by exact_mod_cast hp
  exact computeKnotVector_mono_le p n uk _ hpn (le_of_lt (one_div_pos.mpr hpK))
    (le_of_eq (one_div_mul_cancel (ne_of_gt hpK))) h0 h1 hmono

/-- **`invp` the double nearest to `1/p`, rounded up**: if `invp · p ≤ 1 + e` and the gap between the last two
    parameters is at least `e ≥ 0`, the averaged knot vector is non-decreasing (`e = 2⁻⁵³` covers every double
    `1.0/p`; the gap is the share of the last chord in the total chord length). -/
theorem knotVector_monotone_near (p n : ℕ) (uk : List K) (invp e : K) (hpn : p + 1 ≤ n) (hinv : 0 ≤ invp) (he : 0 ≤ e)
    (hinv1 : invp * (p : K) ≤ 1 + e) (hgap : e ≤ 1 - uk.getD (n - 2) 0) (h0 : ∀ i, 0 ≤ uk.getD i 0)
    (hmono : ∀ i j, i ≤ j → j < n → uk.getD i 0 ≤ uk.getD j 0) :
    Monotone (fnOf (computeKnotVector p n uk invp)) :=
  computeKnotVector_mono_near p n uk invp e hpn hinv he hinv1 hgap h0 hmono

/-- **`compute_knot_vector` (Eq. 9.8) builds a valid clamped knot vector** for parameters that run strictly increasing
    from 0 to 1, `0 < invp` and `invp · p ≤ 1`: right length, `p + 1` zeros, `p + 1` ones, non-decreasing, every
    interior knot strictly inside `(0, 1)`, interior knots pairwise different. -/
theorem knotVector_valid (p n : ℕ) (uk : List K) (invp : K) (hp : 1 ≤ p) (hpn : p + 1 ≤ n)
    (hinv : 0 < invp) (hinv1 : invp * (p : K) ≤ 1)
    (hlen : uk.length = n) (hfirst : uk.getD 0 0 = 0) (hlast : uk.getD (n - 1) 0 = 1)
    (hstrict : ∀ i j, i < j → j < n → uk.getD i 0 < uk.getD j 0) :
    ClampedKnots p n (computeKnotVector p n uk invp) :=
  computeKnotVector_clampedKnots p n uk invp hp hpn hinv hinv1 hlen hfirst hlast hstrict

/-- … with `invp = 1/p` exactly: no hypothesis on `invp` left. -/
theorem knotVector_valid_exact (p n : ℕ) (uk : List K) (hp : 1 ≤ p) (hpn : p + 1 ≤ n)
    (hlen : uk.length = n) (hfirst : uk.getD 0 0 = 0) (hlast : uk.getD (n - 1) 0 = 1)
    (hstrict : ∀ i j, i < j → j < n → uk.getD i 0 < uk.getD j 0) :
    ClampedKnots p n (computeKnotVector p n uk (1 / (p : K))) := by
  have hpK : (0 : K) < (p : K) := by exact_mod_cast hp
  exact computeKnotVector_clampedKnots p n uk _ hp hpn (one_div_pos.mpr hpK)
    (le_of_eq (one_div_mul_cancel (ne_of_gt hpK))) hlen hfirst hlast hstrict

/-- … and with `invp` rounded up (`invp · p ≤ 1 + e`, `0 ≤ e ≤ 1 − ū_{n−2}`). -/
theorem knotVector_valid_near (p n : ℕ) (uk : List K) (invp e : K) (hp : 1 ≤ p) (hpn : p + 1 ≤ n)
    (hinv : 0 < invp) (he : 0 ≤ e) (hinv1 : invp * (p : K) ≤ 1 + e) (hgap : e ≤ 1 - uk.getD (n - 2) 0)
    (hlen : uk.length = n) (hfirst : uk.getD 0 0 = 0) (hlast : uk.getD (n - 1) 0 = 1)
    (hstrict : ∀ i j, i < j → j < n → uk.getD i 0 < uk.getD j 0) :
    ClampedKnots p n (computeKnotVector p n uk invp) :=
  computeKnotVector_clampedKnots_near p n uk invp e hp hpn hinv he hinv1 hgap hlen hfirst hlast hstrict

/-- **`compute_knot_vector2` (Eqs. 9.68–9.69) builds a valid clamped knot vector** for parameters that run strictly
    increasing from 0 to 1 (`fl` = `int(·)` with `fl x ≤ x < fl x + 1` on non-negative `x`, `d = nd/(nc − p)` and
    `alpha = j·d − int(j·d)` exact; at most as many control points as data points): right length, `p + 1` zeros,
    `p + 1` ones, non-decreasing, every interior knot strictly inside `(0, 1)`, interior knots pairwise different. -/
theorem knotVector2_valid (p nd nc : ℕ) (uk : List K) (fl : K → ℕ) (hfl : IsFloor fl)
    (hp : 1 ≤ p) (hpn : p + 1 ≤ nc) (hnd : nc ≤ nd)
    (hlen : uk.length = nd) (hfirst : uk.getD 0 0 = 0) (hlast : uk.getD (nd - 1) 0 = 1)
    (hstrict : ∀ i j, i < j → j < nd → uk.getD i 0 < uk.getD j 0) :
    ClampedKnots p nc (computeKnotVector2 p nd nc uk fl) :=
  computeKnotVector2_clampedKnots hfl uk nd hstrict p nc hp hpn hnd hlen hfirst hlast

/-- **`interpolate_curve` returns a valid clamped knot vector** on data with distinct consecutive points (positive
    chord lengths) when `0 < invp` and `invp · p ≤ 1`. -/
theorem interpolateCurve_knots_valid (p : ℕ) (pts : List (List K)) (cds : List K) (invp : K)
    (kv : List K) (cp : List (List K)) (hg : InterpCurveOk p pts cds) (hpos : ∀ x ∈ cds, 0 < x)
    (hinv : 0 < invp) (hinv1 : invp * (p : K) ≤ 1)
    (h : interpolateCurve p pts cds invp = some (kv, cp)) : ClampedKnots p pts.length kv :=
  interpolateCurve_clampedKnots p pts cds invp kv cp hg.p1 hg.pn hg.len hpos hinv hinv1 h

/-- … with `invp = 1/p` exactly: the only hypotheses are the guard and the positive chord lengths. -/
theorem interpolateCurve_knots_valid_exact (p : ℕ) (pts : List (List K)) (cds : List K)
    (kv : List K) (cp : List (List K)) (hg : InterpCurveOk p pts cds) (hpos : ∀ x ∈ cds, 0 < x)
    (h : interpolateCurve p pts cds (1 / (p : K)) = some (kv, cp)) : ClampedKnots p pts.length kv := by
  have hpK : (0 : K) < (p : K) := by exact_mod_cast hg.p1
  exact interpolateCurve_clampedKnots p pts cds _ kv cp hg.p1 hg.pn hg.len hpos (one_div_pos.mpr hpK)
    (le_of_eq (one_div_mul_cancel (ne_of_gt hpK))) h

/-- … and with `invp` the double `1.0/p` rounded up: `invp · p ≤ 1 + e` where the last chord is at least the share `e`
    of the total chord length (`e · Σ chords ≤ last chord`; `e = 2⁻⁵³` covers every degree). -/
theorem interpolateCurve_knots_valid_near (p : ℕ) (pts : List (List K)) (cds : List K) (invp e : K)
    (kv : List K) (cp : List (List K)) (hg : InterpCurveOk p pts cds) (hpos : ∀ x ∈ cds, 0 < x)
    (hinv : 0 < invp) (he : 0 ≤ e) (hinv1 : invp * (p : K) ≤ 1 + e) (hlastc : e * sumL cds ≤ cds.getLastD 0)
    (h : interpolateCurve p pts cds invp = some (kv, cp)) : ClampedKnots p pts.length kv :=
  interpolateCurve_clampedKnots_near p pts cds invp e kv cp hg.p1 hg.pn hg.len hpos hinv he hinv1 hlastc h

/-- … the same in the form "`invp` is within the relative distance `e` of `1/p`": `|invp · p − 1| ≤ e < 1` (the double
    nearest to `1/p`: `e = 2⁻⁵³`) and the last chord is at least the share `e` of the total chord length – the guard, the
    positive chord lengths and this rounding bound are the only hypotheses. -/
theorem interpolateCurve_knots_valid_double (p : ℕ) (pts : List (List K)) (cds : List K) (invp e : K)
    (kv : List K) (cp : List (List K)) (hg : InterpCurveOk p pts cds) (hpos : ∀ x ∈ cds, 0 < x)
    (habs : |invp * (p : K) - 1| ≤ e) (he1 : e < 1) (hlastc : e * sumL cds ≤ cds.getLastD 0)
    (h : interpolateCurve p pts cds invp = some (kv, cp)) : ClampedKnots p pts.length kv :=
  interpolateCurve_clampedKnots_double p pts cds invp e kv cp hg.p1 hg.pn hg.len hpos habs he1 hlastc h

/-- **`interpolate_surface` returns two valid clamped knot vectors** on data whose consecutive points are distinct in
    both directions (`0 < invp`, `invp · p ≤ 1` per direction). -/
theorem interpolateSurface_knots_valid (pu pv su sv : ℕ) (pts : List (List K)) (cdsU cdsV : List (List K))
    (invpu invpv : K) (kvu kvv : List K) (cp : List (List K)) (hg : InterpSurfOk pu pv su sv pts cdsU cdsV)
    (hcU : ∀ c ∈ cdsU, ∀ x ∈ c, 0 < x) (hcV : ∀ c ∈ cdsV, ∀ x ∈ c, 0 < x)
    (hiu : 0 < invpu) (hiu1 : invpu * (pu : K) ≤ 1) (hiv : 0 < invpv) (hiv1 : invpv * (pv : K) ≤ 1)
    (h : interpolateSurface pu pv su sv pts cdsU cdsV invpu invpv = some (kvu, kvv, cp)) :
    ClampedKnots pu su kvu ∧ ClampedKnots pv sv kvv :=
  interpolateSurface_clampedKnots pu pv su sv pts cdsU cdsV invpu invpv kvu kvv cp hg.pu1 hg.pv1 hg.pun hg.pvn
    (hg.chords hcU hcV).1 (hg.chords hcU hcV).2 hiu hiu1 hiv hiv1 h

/-- **`approximate_curve` returns a valid clamped knot vector** on data with distinct consecutive points. -/
theorem approximateCurve_knots_valid (p : ℕ) (pts : List (List K)) (cds : List K) (nc : ℕ) (fl : K → ℕ)
    (kv : List K) (cp : List (List K)) (hfl : IsFloor fl) (hg : ApproxCurveOk p pts cds nc)
    (hpos : ∀ x ∈ cds, 0 < x) (h : approximateCurve p pts cds nc fl = some (kv, cp)) : ClampedKnots p nc kv :=
  approximateCurve_clampedKnots p pts cds nc fl kv cp hfl hg.p1 hg.pn hg.nd hg.len hpos h

/-- **`approximate_surface` returns two valid clamped knot vectors** on data whose consecutive points are distinct in
    both directions. -/
theorem approximateSurface_knots_valid (pu pv su sv : ℕ) (pts : List (List K)) (cdsU cdsV : List (List K))
    (ncu ncv : ℕ) (fl : K → ℕ) (kvu kvv : List K) (cp : List (List K)) (hfl : IsFloor fl)
    (hg : ApproxSurfOk pu pv su sv pts cdsU cdsV ncu ncv)
    (hcU : ∀ c ∈ cdsU, ∀ x ∈ c, 0 < x) (hcV : ∀ c ∈ cdsV, ∀ x ∈ c, 0 < x)
    (h : approximateSurface pu pv su sv pts cdsU cdsV ncu ncv fl = some (kvu, kvv, cp)) :
    ClampedKnots pu ncu kvu ∧ ClampedKnots pv ncv kvv :=
  approximateSurface_clampedKnots pu pv su sv pts cdsU cdsV ncu ncv fl kvu kvv cp hfl hg.pu1 hg.pv1 hg.pun hg.pvn
    hg.ndu hg.ndv (hg.chords hcU hcV).1 (hg.chords hcU hcV).2 h

/-! ### Schoenberg–Whitney direction: the collocation matrix has a positive diagonal

The three theorems of this section need `invp · p = 1`, i.e. the EXACT factor `1/p`.  The code multiplies by the
double `1.0/degree`, which is exact for `p = 1, 2, 4, 8, …` only; for `p = 3, 5, 6, 7, 9, 10, …` the hypothesis is NOT
met by the number the code (and the harness op `fit.icurve`) uses, and these theorems say nothing about such a run.
The hypothesis is essential: open finding F-11b (`known_findings.json`) – six points
`(0,0),(1,0),(1,e),(1,2e),(1,3e),(2,3e)`, `e = 2⁻⁶⁰`, degree 3, distinct consecutive points: with `1.0/3 = (1−2⁻⁵⁴)/3`
the knot `U_5` falls below `ū_1`, the collocation diagonal is `+,0,+,+,+,+` and the real `interpolate_curve` raises
`ZeroDivisionError` (example `rounded_third_breaks_diagonal` below). -/

/-- **B-spline basis functions are positive inside their support**: for a non-decreasing knot function,
    `N_{i,p}(u) > 0` (Cox–de Boor, half-open convention) when `U_i ≤ u < U_{i+p+1}` and either `U_i < u` or
    `U_{i+p} ≤ u` (the latter: `u = U_i` is a knot of multiplicity `p + 1`, e.g. the start of a clamped vector). -/
theorem basis_pos_in_support (U : ℕ → K) (hm : Monotone U) (u : K) (p i : ℕ)
    (h1 : U i ≤ u) (h2 : u < U (i + p + 1)) (h3 : U i < u ∨ U (i + p) ≤ u) : 0 < Blossom.cdb U p i u :=
  cdb_pos U hm u p i h1 h2 h3

/-- **Schoenberg–Whitney positions**: for the averaged knot vector with `invp · p = 1` and parameters that run strictly
    increasing from 0 to 1, every interior parameter lies strictly inside the support of its own basis function,
    `U_i < ū_i < U_{i+p+1}` (`0 < i < n − 1`). -/
theorem averaged_schoenberg_whitney (p n : ℕ) (uk : List K) (invp : K) (hp : 1 ≤ p) (hpn : p + 1 ≤ n)
    (hinv : invp * (p : K) = 1) (hfirst : uk.getD 0 0 = 0) (hlast : uk.getD (n - 1) 0 = 1)
    (hstrict : ∀ i j, i < j → j < n → uk.getD i 0 < uk.getD j 0) (i : ℕ) (hi1 : 1 ≤ i) (hi2 : i + 1 < n) :
    fnOf (computeKnotVector p n uk invp) i < uk.getD i 0 ∧
    uk.getD i 0 < fnOf (computeKnotVector p n uk invp) (i + p + 1) :=
  Geomdl.averaged_schoenberg_whitney p n uk invp hp hpn hinv hfirst hlast hstrict i hi1 hi2

/-- **The collocation matrix of `interpolate_curve` has a positive diagonal** (`N_{i,p}(ū_i) > 0` for EVERY data point,
    entries as computed by `_build_coeff_matrix`: `find_span_linear` + A2.2) on data with distinct consecutive points
    and `invp · p = 1` – a necessary condition for the matrix to be non-singular (no solver hypothesis here: the matrix
    is built before `lu_solve` runs).  Non-singularity itself (total positivity) is not proved. -/
theorem interpolateCurve_collocation_diag_pos (p : ℕ) (pts : List (List K)) (cds : List K) (invp : K)
    (hg : InterpCurveOk p pts cds) (hpos : ∀ x ∈ cds, 0 < x) (hinv : invp * (p : K) = 1) (i : ℕ) (hi : i < pts.length) :
    0 < ent (buildCoeffMatrix p (fnOf (computeKnotVector p pts.length (computeParams cds) invp))
          (computeParams cds) pts.length) i i := by
  have hl := hg.len
  have hpn := hg.pn
  rw [← hl] at hi ⊢
  exact interpolateCurve_diag_pos p cds invp hg.p1 (by omega) hpos hinv i hi

/-- … and so have the two collocation matrices of `interpolate_surface` (averaged parameters of
    `compute_params_surface`, data whose consecutive points are distinct in both directions, `invp · p = 1`). -/
theorem interpolateSurface_collocation_diag_pos (pu pv su sv : ℕ) (pts : List (List K)) (cdsU cdsV : List (List K))
    (invpu invpv : K) (hg : InterpSurfOk pu pv su sv pts cdsU cdsV)
    (hcU : ∀ c ∈ cdsU, ∀ x ∈ c, 0 < x) (hcV : ∀ c ∈ cdsV, ∀ x ∈ c, 0 < x)
    (hiu : invpu * (pu : K) = 1) (hiv : invpv * (pv : K) = 1) :
    (∀ i, i < su → 0 < ent (buildCoeffMatrix pu (fnOf (computeKnotVector pu su (averageParams cdsU su) invpu))
          (averageParams cdsU su) su) i i) ∧
    (∀ j, j < sv → 0 < ent (buildCoeffMatrix pv (fnOf (computeKnotVector pv sv (averageParams cdsV sv) invpv))
          (averageParams cdsV sv) sv) j j) :=
  ⟨fun i hi => interpolateSurface_diag_pos pu su cdsU invpu hg.pu1 hg.pun (hg.chords hcU hcV).1 hiu i hi,
   fun j hj => interpolateSurface_diag_pos pv sv cdsV invpv hg.pv1 hg.pvn (hg.chords hcU hcV).2 hiv j hj⟩

/-- **`compute_knot_vector2` "ensures that every knot span has at least one ū_k"** (its docstring; The NURBS Book p. 412):
    for parameters that run strictly increasing from 0 to 1 and every span index `p ≤ s < nc` there is a parameter with
    `U_s ≤ ū_k < U_{s+1}` (`fl` = `int(·)`; at most as many control points as data points, i.e. `d = nd/(nc−p) ≥ 1`). -/
theorem knotVector2_span_has_param (p nd nc : ℕ) (uk : List K) (fl : K → ℕ) (hfl : IsFloor fl)
    (hp : 1 ≤ p) (hpn : p + 1 ≤ nc) (hnd : nc ≤ nd) (hlen : uk.length = nd)
    (hfirst : uk.getD 0 0 = 0) (hlast : uk.getD (nd - 1) 0 = 1)
    (hstrict : ∀ i j, i < j → j < nd → uk.getD i 0 < uk.getD j 0) (s : ℕ) (hs1 : p ≤ s) (hs2 : s < nc) :
    ∃ k, k < nd ∧ fnOf (computeKnotVector2 p nd nc uk fl) s ≤ uk.getD k 0 ∧
      uk.getD k 0 < fnOf (computeKnotVector2 p nd nc uk fl) (s + 1) :=
  computeKnotVector2_span_has_param p nd nc uk fl hfl hp hpn hnd hlen hfirst hlast hstrict s hs1 hs2

/-- **`approximate_curve`: every knot span of the returned knot vector contains a parameter** (data with distinct
    consecutive points). -/
theorem approximateCurve_span_has_param (p : ℕ) (pts : List (List K)) (cds : List K) (nc : ℕ) (fl : K → ℕ)
    (kv : List K) (cp : List (List K)) (hfl : IsFloor fl) (hg : ApproxCurveOk p pts cds nc) (hpos : ∀ x ∈ cds, 0 < x)
    (h : approximateCurve p pts cds nc fl = some (kv, cp)) (s : ℕ) (hs1 : p ≤ s) (hs2 : s < nc) :
    ∃ k, k < pts.length ∧ fnOf kv s ≤ (computeParams cds).getD k 0 ∧ (computeParams cds).getD k 0 < fnOf kv (s + 1) := by
  have hl := hg.len
  have hnd := hg.nd
  rw [(approximateCurve_normal p pts cds nc fl kv cp hg.nd h).1, ← hl]
  exact Geomdl.approximateCurve_span_has_param p cds nc fl hfl hg.p1 hg.pn (by omega) hpos s hs1 hs2

/-- **Every interior basis function is positive at an interior parameter** (`compute_knot_vector2`, parameters that run
    strictly increasing from 0 to 1, at least three control points): the matrix `N` of the least-squares fit has no
    zero column (`basis_function_one` values). -/
theorem knotVector2_column_pos (p nd nc : ℕ) (uk : List K) (fl : K → ℕ) (hfl : IsFloor fl)
    (hp : 1 ≤ p) (hpn : p + 1 ≤ nc) (hnc3 : 3 ≤ nc) (hnd : nc ≤ nd) (hlen : uk.length = nd)
    (hfirst : uk.getD 0 0 = 0) (hlast : uk.getD (nd - 1) 0 = 1)
    (hstrict : ∀ i j, i < j → j < nd → uk.getD i 0 < uk.getD j 0) (j : ℕ) (hj1 : 1 ≤ j) (hj2 : j + 1 < nc) :
    ∃ k, 1 ≤ k ∧ k + 1 < nd ∧
      0 < basisFunOne p (fnOf (computeKnotVector2 p nd nc uk fl)) (computeKnotVector2 p nd nc uk fl).length j
            (uk.getD k 0) :=
  kv2_column_pos p nd nc uk fl hfl hp hpn hnc3 hnd hlen hfirst hlast hstrict j hj1 hj2

/-- **The matrix `NᵀN` of `approximate_curve` has a positive diagonal** on data with distinct consecutive points
    (`Geomdl.apxN` is the matrix `N` of the model, `approximateCurve_eq` is `rfl`: rows = interior data points, columns =
    interior basis functions, entries by `basis_function_one`) – necessary for `lu_solve` to return; no solver hypothesis
    here.  Positive definiteness of `NᵀN` is not proved. -/
theorem approximateCurve_normal_matrix_diag_pos (p : ℕ) (pts : List (List K)) (cds : List K) (nc : ℕ) (fl : K → ℕ)
    (hfl : IsFloor fl) (hg : ApproxCurveOk p pts cds nc) (hpos : ∀ x ∈ cds, 0 < x) (i : ℕ) (hi : i < nc - 2) :
    0 < ent (matrixMultiply
      (matrixTranspose (apxN p (fnOf (computeKnotVector2 p pts.length nc (computeParams cds) fl))
        (computeKnotVector2 p pts.length nc (computeParams cds) fl).length (computeParams cds) pts.length nc))
      (apxN p (fnOf (computeKnotVector2 p pts.length nc (computeParams cds) fl))
        (computeKnotVector2 p pts.length nc (computeParams cds) fl).length (computeParams cds) pts.length nc)) i i := by
  have hl := hg.len
  have hnd := hg.nd
  rw [← hl]
  exact approximateCurve_normal_diag_pos p cds nc fl hfl hg.p1 hg.pn hg.nc3 (by omega) hpos i hi

/-- **`approximate_surface`, both directions**: every knot span of `kvu` / `kvv` contains an averaged parameter, and the
    matrices `NᵀN` factorised for the two passes have positive diagonals (data whose consecutive points are distinct in
    both directions). -/
theorem approximateSurface_spans_and_diag (pu pv su sv : ℕ) (pts : List (List K)) (cdsU cdsV : List (List K))
    (ncu ncv : ℕ) (fl : K → ℕ) (hfl : IsFloor fl) (hg : ApproxSurfOk pu pv su sv pts cdsU cdsV ncu ncv)
    (hcU : ∀ c ∈ cdsU, ∀ x ∈ c, 0 < x) (hcV : ∀ c ∈ cdsV, ∀ x ∈ c, 0 < x) :
    ((∀ s, pu ≤ s → s < ncu → ∃ k, k < su ∧
        fnOf (computeKnotVector2 pu su ncu (averageParams cdsU su) fl) s ≤ (averageParams cdsU su).getD k 0 ∧
        (averageParams cdsU su).getD k 0 < fnOf (computeKnotVector2 pu su ncu (averageParams cdsU su) fl) (s + 1)) ∧
     (∀ i, i < ncu - 2 → 0 < ent (matrixMultiply
        (matrixTranspose (apxN pu (fnOf (computeKnotVector2 pu su ncu (averageParams cdsU su) fl))
          (computeKnotVector2 pu su ncu (averageParams cdsU su) fl).length (averageParams cdsU su) su ncu))
        (apxN pu (fnOf (computeKnotVector2 pu su ncu (averageParams cdsU su) fl))
          (computeKnotVector2 pu su ncu (averageParams cdsU su) fl).length (averageParams cdsU su) su ncu)) i i)) ∧
    ((∀ s, pv ≤ s → s < ncv → ∃ k, k < sv ∧
        fnOf (computeKnotVector2 pv sv ncv (averageParams cdsV sv) fl) s ≤ (averageParams cdsV sv).getD k 0 ∧
        (averageParams cdsV sv).getD k 0 < fnOf (computeKnotVector2 pv sv ncv (averageParams cdsV sv) fl) (s + 1)) ∧
     (∀ i, i < ncv - 2 → 0 < ent (matrixMultiply
        (matrixTranspose (apxN pv (fnOf (computeKnotVector2 pv sv ncv (averageParams cdsV sv) fl))
          (computeKnotVector2 pv sv ncv (averageParams cdsV sv) fl).length (averageParams cdsV sv) sv ncv))
        (apxN pv (fnOf (computeKnotVector2 pv sv ncv (averageParams cdsV sv) fl))
          (computeKnotVector2 pv sv ncv (averageParams cdsV sv) fl).length (averageParams cdsV sv) sv ncv)) i i)) :=
  ⟨approximateSurface_dir_ok pu su ncu cdsU fl hfl hg.pu1 hg.pun hg.ncu3 hg.ndu (hg.chords hcU hcV).1,
   approximateSurface_dir_ok pv sv ncv cdsV fl hfl hg.pv1 hg.pvn hg.ncv3 hg.ndv (hg.chords hcU hcV).2⟩

/-- what `Geomdl.apxN` is: entry `(k, j)` is `basis_function_one` of the interior basis function `1 + j` at the interior
    parameter `ū_{1+k}` – the matrix `N` of `approximate_curve` and of every pass of `approximate_surface` -/
theorem apxN_spec (p : ℕ) (U : ℕ → K) (m : ℕ) (uk : List K) (nd nc k j : ℕ) (hk : k < nd - 2) (hj : j < nc - 2) :
    ent (apxN p U m uk nd nc) k j = basisFunOne p U m (1 + j) (uk.getD (1 + k) 0) :=
  apxN_ent p U m uk nc nd k j hk hj

/-! ### non-vacuity: the hypotheses hold on concrete inputs (exact rationals) -/

/-- the floor used by the driver satisfies `IsFloor` -/
example : IsFloor (fun x : ℚ => x.floor.toNat) := by
  intro x hx
  have h1 : (0:ℤ) ≤ x.floor := Rat.le_floor_iff.mpr (by simpa using hx)
  have h2 : ((x.floor.toNat : ℕ) : ℚ) = ((x.floor : ℤ) : ℚ) := by
    rw [← Int.cast_natCast, Int.toNat_of_nonneg h1]
  refine ⟨by rw [h2]; exact Rat.floor_le x, ?_⟩
  rw [h2]
  have := Rat.lt_floor_add_one x
  push_cast at this
  exact this

/-- interpolation data with the shape hypothesis: 7 points in the plane -/
example : NetOk 2 ([[0,0],[1,2],[2,3],[4,3],[5,1],[6,0],[7,2]] : List (List ℚ)) := by
  intro pt hpt; simp at hpt; rcases hpt with h | h | h | h | h | h | h <;> simp [h]

/-- curve interpolation returns on these data (degree 3, chord lengths 2,1,2,2,1,2) -/
example : (interpolateCurve 3 ([[0,0],[1,2],[2,3],[4,3],[5,1],[6,0],[7,2]] : List (List ℚ)) [2,1,2,2,1,2] (1/3)).isSome = true := by
  decide +kernel

/-- positive chord lengths, `invp = 1/p`: the hypotheses of `interpolateCurve_knots_monotone` -/
example : (∀ x ∈ ([2,1,2,2,1,2] : List ℚ), 0 < x) ∧ (0:ℚ) ≤ 1/3 ∧
    (1/3 : ℚ) * ((3:ℕ) : ℚ) * (computeParams ([2,1,2,2,1,2] : List ℚ)).getD (6 - 1) 0 ≤ 1 := by
  refine ⟨by decide +kernel, by decide +kernel, by decide +kernel⟩

/-- surface interpolation returns on a 3 × 4 grid of data points (degrees 2, 2) -/
example :
    (interpolateSurface 2 2 3 4
      ([[0,0,0],[0,1,1],[0,2,0],[0,3,2], [1,0,1],[1,1,2],[1,2,1],[1,3,0], [2,0,0],[2,1,1],[2,2,3],[2,3,1]] : List (List ℚ))
      [[1,1],[1,2],[2,1],[1,3]] [[1,1,2],[1,2,1],[2,1,1]] (1/2) (1/2)).isSome = true := by decide +kernel

/-- approximation (7 data points, degree 2, 4 control points): the solver returns, the knot vector is
    sorted, its first and last spans are not empty, 4 control points are returned -/
example :
    (match approximateCurve 2 ([[0,0],[1,2],[2,3],[4,3],[5,1],[6,0],[7,2]] : List (List ℚ)) [2,1,2,2,1,2] 4
        (fun x => x.floor.toNat) with
     | some (kv, cp) => decide (kv = [0,0,0,2/5,1,1,1]) && isSortedB kv && decide (0 < fnOf kv 3) && decide (fnOf kv 3 < 1)
          && decide (cp.length = 4)
     | none => false) = true := by decide +kernel

/-- `Monotone (fnOf kv)` is decidable on concrete knot vectors through `isSortedB` -/
example : Monotone (fnOf ([0,0,0,2/5,1,1,1] : List ℚ)) := fnOf_monotone_of_isSortedB _ (by decide +kernel)

/-- the interior parameters of that example lie in the half-open domain `[U_p, U_nc)` … -/
example : ∀ k, 1 ≤ k → k + 1 < 7 →
    fnOf ([0,0,0,2/5,1,1,1] : List ℚ) 2 ≤ (computeParams ([2,1,2,2,1,2] : List ℚ)).getD k 0 ∧
    (computeParams ([2,1,2,2,1,2] : List ℚ)).getD k 0 < fnOf ([0,0,0,2/5,1,1,1] : List ℚ) 4 := by
  intro k h1 h2
  have hk : k = 1 ∨ k = 2 ∨ k = 3 ∨ k = 4 ∨ k = 5 := by omega
  rcases hk with rfl | rfl | rfl | rfl | rfl <;> decide +kernel

/-- … and `basis_function_one` returns the Cox–de Boor values there (hypothesis `hB`) -/
example : ∀ k, 1 ≤ k → k + 1 < 7 → ∀ j, j < 4 →
    basisFunOne 2 (fnOf ([0,0,0,2/5,1,1,1] : List ℚ)) 7 j ((computeParams ([2,1,2,2,1,2] : List ℚ)).getD k 0)
      = Blossom.cdb (fnOf ([0,0,0,2/5,1,1,1] : List ℚ)) 2 j ((computeParams ([2,1,2,2,1,2] : List ℚ)).getD k 0) := by
  intro k h1 h2 j hj
  have hk : k = 1 ∨ k = 2 ∨ k = 3 ∨ k = 4 ∨ k = 5 := by omega
  have hj' : j = 0 ∨ j = 1 ∨ j = 2 ∨ j = 3 := by omega
  rcases hk with rfl | rfl | rfl | rfl | rfl <;> rcases hj' with rfl | rfl | rfl | rfl <;> decide +kernel

/-- surface approximation (4 × 5 data points, degrees 2 and 1, 3 × 4 control points, positive chord
    lengths): the solver passes return, the knot vectors are `[0,0,0,1,1,1]` and sorted with non-empty end
    spans, 12 control points, the corner control points are the corner data points -/
example :
    (match approximateSurface 2 1 4 5
        ([[0,0,0],[0,1,1],[0,2,0],[0,3,2],[0,4,1], [1,0,1],[1,1,2],[1,2,1],[1,3,0],[1,4,2],
          [2,0,0],[2,1,1],[2,2,3],[2,3,1],[2,4,0], [3,0,1],[3,1,0],[3,2,2],[3,3,1],[3,4,3]] : List (List ℚ))
        [[1,1,2],[1,2,1],[2,1,1],[1,3,1],[1,1,1]] [[1,1,2,1],[1,2,1,1],[2,1,1,1],[1,1,1,2]] 3 4
        (fun x => x.floor.toNat) with
     | some (ku, kv, cp) => decide (ku = [0,0,0,1,1,1]) && isSortedB kv && decide (0 < fnOf kv 2) && decide (fnOf kv 3 < 1)
          && decide (cp.length = 12) && decide (cp.getD 0 [] = [0,0,0]) && decide (cp.getD 3 [] = [0,4,1])
          && decide (cp.getD 8 [] = [3,0,1]) && decide (cp.getD 11 [] = [3,4,3])
     | none => false) = true := by decide +kernel

/-- the chord-length hypotheses of `approximateSurface_interpolates_corners_distinct` on these data -/
example : (([[1,1,2],[1,2,1],[2,1,1],[1,3,1],[1,1,1]] : List (List ℚ)) ≠ [] ∧
    ∀ c ∈ ([[1,1,2],[1,2,1],[2,1,1],[1,3,1],[1,1,1]] : List (List ℚ)), c.length + 1 = 4 ∧ ∀ x ∈ c, 0 < x) := by
  decide +kernel

/-! ### the guard bundles are satisfiable and the theorems apply (witness data of Lemmas/FitWitness.lean) -/

/-- curve interpolation: 7 points, degree 3 – guard, the model returns, the theorem applied at every data point -/
example : ∃ kv cp, interpolateCurve 3 ptsC cdsC (1/3) = some (kv, cp) ∧
    ∀ i, i < 7 → ∀ c, c < 2 → (curvePoint 3 (fnOf kv) cp ((computeParams cdsC).getD i 0)).getD c 0 = (ptsGet ptsC i).getD c 0 := by
  have h : (interpolateCurve 3 ptsC cdsC (1/3)).isSome = true := by decide +kernel
  obtain ⟨⟨kv, cp⟩, h⟩ := Option.isSome_iff_exists.mp h
  exact ⟨kv, cp, h, fun i hi c hc => interpolateCurve_interpolates 3 ptsC cdsC (1/3) 2 kv cp okIC netC (by omega) h i hi c hc⟩

/-- surface interpolation: the guard holds on the 3 × 4 grid and the model returns -/
example : InterpSurfOk 2 2 3 4 ptsI cuI cvI ∧ (interpolateSurface 2 2 3 4 ptsI cuI cvI (1/2) (1/2)).isSome = true :=
  ⟨okIS, by decide +kernel⟩

/-- curve approximation: least squares (final form) applied to the model's own output, arbitrary competitor -/
example : ∃ kv cp, approximateCurve 2 ptsC cdsC 4 flQ = some (kv, cp) ∧
    ∀ y : List (List ℚ), y.length = 4 - 2 → NetOk 2 y →
      lsqErrorEval 2 (fnOf kv) (computeParams cdsC) ptsC 2 cp
        ≤ lsqErrorEval 2 (fnOf kv) (computeParams cdsC) ptsC 2 ([ptsC.headD []] ++ y ++ [ptsC.getLastD []]) := by
  obtain ⟨⟨kv, cp⟩, h⟩ := resAC
  exact ⟨kv, cp, h, fun y hy hyd =>
    approximateCurve_least_squares 2 ptsC cdsC 4 flQ kv cp 2 flQ_floor okAC (by decide +kernel) netC h y hy hyd⟩

/-- surface approximation, the strongest corner theorem: all four corners, every coordinate -/
example : ∃ kvu kvv cp, approximateSurface 2 1 4 5 ptsA cuA cvA 3 4 flQ = some (kvu, kvv, cp) ∧
    ∀ eu ev : Bool, ∀ c,
    (surfacePoint 2 1 (fnOf kvu) (fnOf kvv) 3 4 cp (if eu then 1 else 0) (if ev then 1 else 0)).getD c 0
      = (ptsGet ptsA ((if ev then 5 - 1 else 0) + 5 * (if eu then 4 - 1 else 0))).getD c 0 := by
  obtain ⟨⟨kvu, kvv, cp⟩, h⟩ := resA
  exact ⟨kvu, kvv, cp, h, fun eu ev c =>
    approximateSurface_interpolates_corners_distinct 2 1 4 5 ptsA cuA cvA 3 4 flQ kvu kvv cp 3 flQ_floor okA netA
      (by decide +kernel) (by decide +kernel) h eu ev c⟩

/-- … the shape theorem … -/
example : ∃ kvu kvv cp, approximateSurface 2 1 4 5 ptsA cuA cvA 3 4 flQ = some (kvu, kvv, cp) ∧
    kvu.length = 3 + 2 + 1 ∧ kvv.length = 4 + 1 + 1 ∧ NetOk 3 cp := by
  obtain ⟨⟨kvu, kvv, cp⟩, h⟩ := resA
  have := approximateSurface_shape 2 1 4 5 ptsA cuA cvA 3 4 flQ kvu kvv cp 3 okA netA h
  exact ⟨kvu, kvv, cp, h, this.2.2.1, this.2.2.2.1, this.2.2.2.2.2.2.2.2⟩

/-- … and both passes: the `IsLsqLine` statements are produced by the model function, and `lsqLine_minimises`
    composed with them gives, for every data column `j` and ANY competitor `y`, that the fitted column polygon has
    the least squared residual -/
example : ∃ kvu kvv cp, approximateSurface 2 1 4 5 ptsA cuA cvA 3 4 flQ = some (kvu, kvv, cp) ∧
    ∃ cols : List (List (List ℚ)), ∀ j, j < 5 → ∀ y : List (List ℚ), y.length = 3 - 2 →
      lsqError 2 (fnOf kvu) kvu.length (averageParams cuA 4) ((List.range 4).map (fun i => ptsA.getD (j + 5 * i) [])) 3 (cols.getD j [])
        ≤ lsqError 2 (fnOf kvu) kvu.length (averageParams cuA 4) ((List.range 4).map (fun i => ptsA.getD (j + 5 * i) [])) 3
            ([((List.range 4).map (fun i => ptsA.getD (j + 5 * i) [])).headD []] ++ y
              ++ [((List.range 4).map (fun i => ptsA.getD (j + 5 * i) [])).getLastD []]) := by
  obtain ⟨⟨kvu, kvv, cp⟩, h⟩ := resA
  obtain ⟨cols, rows, _, _, _, hU, _⟩ :=
    approximateSurface_passes_normal_equations 2 1 4 5 ptsA cuA cvA 3 4 flQ kvu kvv cp 3 okA netA h
  refine ⟨kvu, kvv, cp, h, cols, fun j hj y hy => ?_⟩
  have hd : (ptsA.headD []).length = 3 := by decide
  have := (lsqLine_minimises 2 (fnOf kvu) kvu.length (averageParams cuA 4) _ 3 _ (cols.getD j []) (hU j hj) (by norm_num)).1 y hy
  rw [hd] at this
  exact this

/-! ### non-vacuity of the knot-vector, evaluated-pass and diagonal theorems -/

/-- the doubles `1.0/p` (exact values): `p = 3, 6, 7, 9` are rounded DOWN (`0 < invp`, `invp · p ≤ 1`: hypotheses of
    `knotVector_valid` / `interpolateCurve_knots_valid`), `p = 1, 2, 4, 8` are exact, `p = 5, 10` are rounded UP by the
    relative amount `2⁻⁵⁴` (hypothesis `invp · p ≤ 1 + e` of the `…_near` theorems with `e = 2⁻⁵⁴`) -/
example :
    ((0:ℚ) < 6004799503160661 / 18014398509481984 ∧ (6004799503160661 / 18014398509481984 : ℚ) * ((3:ℕ):ℚ) ≤ 1) ∧
    ((6004799503160661 / 36028797018963968 : ℚ) * ((6:ℕ):ℚ) ≤ 1) ∧
    ((2573485501354569 / 18014398509481984 : ℚ) * ((7:ℕ):ℚ) ≤ 1) ∧
    ((2001599834386887 / 18014398509481984 : ℚ) * ((9:ℕ):ℚ) ≤ 1) ∧
    ((3602879701896397 / 18014398509481984 : ℚ) * ((5:ℕ):ℚ) ≤ 1 + 1 / 18014398509481984) ∧
    ((3602879701896397 / 36028797018963968 : ℚ) * ((10:ℕ):ℚ) ≤ 1 + 1 / 18014398509481984) := by
  refine ⟨⟨by norm_num, by norm_num⟩, by norm_num, by norm_num, by norm_num, by norm_num, by norm_num⟩

/-- `interpolate_curve` with the DOUBLE `1.0/3` on the 7 data points: the returned knot vector is a valid clamped knot
    vector (`interpolateCurve_knots_valid`) and `knotvector.check` accepts it -/
example : ∃ kv cp, interpolateCurve 3 ptsC cdsC dbl13 = some (kv, cp) ∧ ClampedKnots 3 7 kv ∧ knotCheck 3 kv 7 = true := by
  obtain ⟨⟨kv, cp⟩, h⟩ := resIC13
  have hv := interpolateCurve_knots_valid 3 ptsC cdsC dbl13 kv cp okIC (by decide +kernel)
    (by norm_num [dbl13]) (by norm_num [dbl13]) h
  exact ⟨kv, cp, h, hv, clampedKnots_check 3 7 kv hv⟩

/-- … with the double `1.0/5` (rounded up by `2⁻⁵⁴`, degree 5): `interpolateCurve_knots_valid_near` with `e = 2⁻⁵⁴`; the
    last chord `2` is far more than the share `2⁻⁵⁴` of the total chord length `10` -/
example : ∃ kv cp, interpolateCurve 5 ptsC cdsC dbl15 = some (kv, cp) ∧ ClampedKnots 5 7 kv := by
  obtain ⟨⟨kv, cp⟩, h⟩ := resIC15
  exact ⟨kv, cp, h, interpolateCurve_knots_valid_near 5 ptsC cdsC dbl15 (1 / 18014398509481984) kv cp okIC5
    (by decide +kernel) (by norm_num [dbl15]) (by norm_num) (by norm_num [dbl15]) (by decide +kernel) h⟩

/-- … and through the two-sided rounding bound `|invp · p − 1| ≤ 2⁻⁵³` (`interpolateCurve_knots_valid_double`) -/
example : ∃ kv cp, interpolateCurve 5 ptsC cdsC dbl15 = some (kv, cp) ∧ ClampedKnots 5 7 kv := by
  obtain ⟨⟨kv, cp⟩, h⟩ := resIC15
  exact ⟨kv, cp, h, interpolateCurve_knots_valid_double 5 ptsC cdsC dbl15 (1 / 2 ^ 53) kv cp okIC5
    (by decide +kernel) (by rw [abs_le]; constructor <;> norm_num [dbl15]) (by norm_num) (by decide +kernel) h⟩

/-- … with `1/3` exactly, and the positive diagonal of the collocation matrix (all 7 data points) -/
example : (∃ kv cp, interpolateCurve 3 ptsC cdsC (1 / ((3:ℕ):ℚ)) = some (kv, cp) ∧ ClampedKnots 3 7 kv) ∧
    ∀ i, i < 7 → 0 < ent (buildCoeffMatrix 3 (fnOf (computeKnotVector 3 ptsC.length (computeParams cdsC) (1/3)))
          (computeParams cdsC) ptsC.length) i i := by
  constructor
  · have h : (interpolateCurve 3 ptsC cdsC (1 / ((3:ℕ):ℚ))).isSome = true := by decide +kernel
    obtain ⟨⟨kv, cp⟩, h⟩ := Option.isSome_iff_exists.mp h
    exact ⟨kv, cp, h, interpolateCurve_knots_valid_exact 3 ptsC cdsC kv cp okIC (by decide +kernel) h⟩
  · intro i hi
    exact interpolateCurve_collocation_diag_pos 3 ptsC cdsC (1/3) okIC (by decide +kernel) (by norm_num) i hi

/-- surface interpolation on the 3 × 4 grid: the theorem applied at EVERY data point (evaluated surface, both averaged
    parametrisations enter only through the chord lists), the two knot vectors are valid, both collocation matrices
    have a positive diagonal -/
example : ∃ kvu kvv cp, interpolateSurface 2 2 3 4 ptsI cuI cvI (1/2) (1/2) = some (kvu, kvv, cp) ∧
    (∀ i, i < 3 → ∀ j, j < 4 → ∀ c, c < 3 →
      (surfacePoint 2 2 (fnOf kvu) (fnOf kvv) 3 4 cp ((averageParams cuI 3).getD i 0) ((averageParams cvI 4).getD j 0)).getD c 0
        = (ptsGet ptsI (j + 4 * i)).getD c 0) ∧
    ClampedKnots 2 3 kvu ∧ ClampedKnots 2 4 kvv := by
  obtain ⟨⟨kvu, kvv, cp⟩, h⟩ := resIS
  refine ⟨kvu, kvv, cp, h, fun i hi j hj c hc =>
    interpolateSurface_interpolates 2 2 3 4 ptsI cuI cvI (1/2) (1/2) 3 kvu kvv cp okIS netI (by omega) h i hi j hj c hc, ?_⟩
  exact interpolateSurface_knots_valid 2 2 3 4 ptsI cuI cvI (1/2) (1/2) kvu kvv cp okIS (by decide +kernel) (by decide +kernel)
    (by norm_num) (by norm_num) (by norm_num) (by norm_num) h

example : (∀ i, i < 3 → 0 < ent (buildCoeffMatrix 2 (fnOf (computeKnotVector 2 3 (averageParams cuI 3) (1/2)))
          (averageParams cuI 3) 3) i i) ∧
    (∀ j, j < 4 → 0 < ent (buildCoeffMatrix 2 (fnOf (computeKnotVector 2 4 (averageParams cvI 4) (1/2)))
          (averageParams cvI 4) 4) j j) :=
  interpolateSurface_collocation_diag_pos 2 2 3 4 ptsI cuI cvI (1/2) (1/2) okIS (by decide +kernel) (by decide +kernel)
    (by norm_num) (by norm_num)

/-- curve approximation: the returned knot vector is a valid clamped knot vector -/
example : ∃ kv cp, approximateCurve 2 ptsC cdsC 4 flQ = some (kv, cp) ∧ ClampedKnots 2 4 kv ∧ knotCheck 2 kv 4 = true := by
  obtain ⟨⟨kv, cp⟩, h⟩ := resAC
  have hv := approximateCurve_knots_valid 2 ptsC cdsC 4 flQ kv cp flQ_floor okAC (by decide +kernel) h
  exact ⟨kv, cp, h, hv, clampedKnots_check 2 4 kv hv⟩

/-- surface approximation (4 × 5 data points, 3 × 4 control points): both knot vectors are valid, and BOTH PASSES are
    least-squares fits against the evaluated curves of their lines – for every data column `j` and ANY competitor `y`
    (one interior control point of 3 coordinates) the column polygon computed by the model has the smaller summed squared
    distance to the evaluated curve; the same for every row `i` with two interior control points -/
example : ∃ kvu kvv cp, approximateSurface 2 1 4 5 ptsA cuA cvA 3 4 flQ = some (kvu, kvv, cp) ∧
    ClampedKnots 2 3 kvu ∧ ClampedKnots 1 4 kvv ∧
    ∃ cols rows : List (List (List ℚ)), cp = rows.flatten ∧
      (∀ j, j < 5 → ∀ y : List (List ℚ), y.length = 3 - 2 → NetOk 3 y →
        lsqErrorEval 2 (fnOf kvu) (averageParams cuA 4) ((List.range 4).map (fun i => ptsA.getD (j + 5 * i) [])) 3 (cols.getD j [])
          ≤ lsqErrorEval 2 (fnOf kvu) (averageParams cuA 4) ((List.range 4).map (fun i => ptsA.getD (j + 5 * i) [])) 3
              ([ptsA.getD j []] ++ y ++ [ptsA.getD (j + 5 * (4 - 1)) []])) ∧
      (∀ i, i < 3 → ∀ y : List (List ℚ), y.length = 4 - 2 → NetOk 3 y →
        lsqErrorEval 1 (fnOf kvv) (averageParams cvA 5) ((List.range 5).map (fun j => (cols.getD j []).getD i [])) 3 (rows.getD i [])
          ≤ lsqErrorEval 1 (fnOf kvv) (averageParams cvA 5) ((List.range 5).map (fun j => (cols.getD j []).getD i [])) 3
              ([(cols.getD 0 []).getD i []] ++ y ++ [(cols.getD (5 - 1) []).getD i []])) := by
  obtain ⟨⟨kvu, kvv, cp⟩, h⟩ := resA
  have hk := approximateSurface_knots_valid 2 1 4 5 ptsA cuA cvA 3 4 flQ kvu kvv cp flQ_floor okA
    (by decide +kernel) (by decide +kernel) h
  obtain ⟨cols, rows, _, _, hcp, hU, hV⟩ :=
    approximateSurface_passes_least_squares 2 1 4 5 ptsA cuA cvA 3 4 flQ kvu kvv cp 3 flQ_floor okA netA
      (by decide +kernel) (by decide +kernel) h
  exact ⟨kvu, kvv, cp, h, hk.1, hk.2, cols, rows, hcp, fun j hj y hy hyd => (hU j hj).2 y hy hyd,
    fun i hi y hy hyd => (hV i hi).2 y hy hyd⟩

/-- the generic knot-vector theorems applied directly to the parameters of the 7 data points (chords 2,1,2,2,1,2): the
    hypotheses "strictly increasing from 0 to 1" hold, `compute_knot_vector` (degree 3, `1/3`) and `compute_knot_vector2`
    (degree 2, 4 control points) build valid clamped knot vectors, every span of the latter contains a parameter and
    every interior basis function is positive at an interior parameter -/
example : ClampedKnots 3 7 (computeKnotVector 3 7 (computeParams cdsC) (1 / ((3:ℕ):ℚ))) ∧
    ClampedKnots 2 4 (computeKnotVector2 2 7 4 (computeParams cdsC) flQ) ∧
    (∀ s, 2 ≤ s → s < 4 → ∃ k, k < 7 ∧ fnOf (computeKnotVector2 2 7 4 (computeParams cdsC) flQ) s ≤ (computeParams cdsC).getD k 0 ∧
      (computeParams cdsC).getD k 0 < fnOf (computeKnotVector2 2 7 4 (computeParams cdsC) flQ) (s + 1)) ∧
    (∀ j, 1 ≤ j → j + 1 < 4 → ∃ k, 1 ≤ k ∧ k + 1 < 7 ∧
      0 < basisFunOne 2 (fnOf (computeKnotVector2 2 7 4 (computeParams cdsC) flQ))
            (computeKnotVector2 2 7 4 (computeParams cdsC) flQ).length j ((computeParams cdsC).getD k 0)) := by
  obtain ⟨g1, g2, g3, g4⟩ := computeParams_ok cdsC (by decide) (by decide +kernel)
  exact ⟨knotVector_valid_exact 3 7 _ (by omega) (by omega) g1 g2 g3 g4,
    knotVector2_valid 2 7 4 _ flQ flQ_floor (by omega) (by omega) (by omega) g1 g2 g3 g4,
    fun s h1 h2 => knotVector2_span_has_param 2 7 4 _ flQ flQ_floor (by omega) (by omega) (by omega) g1 g2 g3 g4 s h1 h2,
    fun j h1 h2 => knotVector2_column_pos 2 7 4 _ flQ flQ_floor (by omega) (by omega) (by omega) (by omega) g1 g2 g3 g4 j h1 h2⟩

/-- curve approximation (7 data points, degree 2, 4 control points): every one of the two knot spans contains a
    parameter, and `NᵀN` (2 × 2) has a positive diagonal -/
example : (∃ kv cp, approximateCurve 2 ptsC cdsC 4 flQ = some (kv, cp) ∧
      ∀ s, 2 ≤ s → s < 4 → ∃ k, k < 7 ∧ fnOf kv s ≤ (computeParams cdsC).getD k 0 ∧ (computeParams cdsC).getD k 0 < fnOf kv (s + 1)) ∧
    ∀ i, i < 4 - 2 → 0 < ent (matrixMultiply
      (matrixTranspose (apxN 2 (fnOf (computeKnotVector2 2 ptsC.length 4 (computeParams cdsC) flQ))
        (computeKnotVector2 2 ptsC.length 4 (computeParams cdsC) flQ).length (computeParams cdsC) ptsC.length 4))
      (apxN 2 (fnOf (computeKnotVector2 2 ptsC.length 4 (computeParams cdsC) flQ))
        (computeKnotVector2 2 ptsC.length 4 (computeParams cdsC) flQ).length (computeParams cdsC) ptsC.length 4)) i i := by
  constructor
  · obtain ⟨⟨kv, cp⟩, h⟩ := resAC
    exact ⟨kv, cp, h, fun s h1 h2 =>
      approximateCurve_span_has_param 2 ptsC cdsC 4 flQ kv cp flQ_floor okAC (by decide +kernel) h s h1 h2⟩
  · exact fun i hi => approximateCurve_normal_matrix_diag_pos 2 ptsC cdsC 4 flQ flQ_floor okAC (by decide +kernel) i hi

/-- what the guards exclude: with TWO control points per direction the model returns the bilinear patch (the real
    `approximate_surface(…, ctrlpts_size_u=2, ctrlpts_size_v=2)` raises `IndexError`, finding F-11a) – `ApproxSurfOk` fails -/
example : approximateSurface 1 1 3 3
      ([[0,0,0],[0,1,1],[0,2,0], [1,0,1],[1,1,5],[1,2,1], [2,0,0],[2,1,1],[2,2,3]] : List (List ℚ))
      [[1,1],[1,2],[2,1]] [[1,1],[1,2],[2,1]] 2 2 flQ
    = some ([0,0,1,1], [0,0,1,1], [[0,0,0],[0,2,0],[2,0,0],[2,2,3]]) := by decide +kernel

/-! ### F-11b: the hypothesis `invp · p = 1` of the Schoenberg–Whitney theorems is essential, and the double `1.0/3` does not meet it -/

/-- six data points with chords `1, e, e, e, 1`, `e = 2⁻⁶⁰` (consecutive points distinct) -/
def e60 : ℚ := 1 / 2 ^ 60
def ptsW : List (List ℚ) := [[0,0],[1,0],[1,e60],[1,2*e60],[1,3*e60],[2,3*e60]]
def cdsW : List ℚ := [1, e60, e60, e60, 1]

/-- **Recorded finding F-11b (as coded)**: the double `1.0/3` is not `1/3`; on the data `ptsW` (guard `InterpCurveOk`
    met, every chord positive) the collocation matrix built with it has a ZERO diagonal entry and the model of
    `interpolate_curve` does not return (the real code raises `ZeroDivisionError`, in exact mode and in doubles),
    whereas with the exact `1/3` it returns.  So `invp · p = 1` cannot be dropped from
    `interpolateCurve_collocation_diag_pos` / `averaged_schoenberg_whitney`, and "the solver returns" is not a
    consequence of "distinct consecutive points" for the code as it runs. -/
theorem rounded_third_breaks_diagonal :
    InterpCurveOk 3 ptsW cdsW ∧ (∀ x ∈ cdsW, 0 < x) ∧ ¬ (dbl13 * (3 : ℚ) = 1) ∧
    ent (buildCoeffMatrix 3 (fnOf (computeKnotVector 3 ptsW.length (computeParams cdsW) dbl13))
      (computeParams cdsW) ptsW.length) 1 1 = 0 ∧
    interpolateCurve 3 ptsW cdsW dbl13 = none ∧
    (interpolateCurve 3 ptsW cdsW (1/3)).isSome = true := by
  refine ⟨⟨by omega, by decide, by decide, by decide +kernel, 2, le_refl _, ?_⟩, by decide +kernel, by norm_num [dbl13],
    by decide +kernel, by decide +kernel, by decide +kernel⟩
  intro pt hpt
  simp [ptsW] at hpt
  rcases hpt with h | h | h | h | h | h <;> simp [h]

end C11
