import NurbsVerif.Lemmas.Fitting
import NurbsVerif.Lemmas.FitParams
import NurbsVerif.Lemmas.FitSurf
import NurbsVerif.Lemmas.FitApprox
import NurbsVerif.Lemmas.FitApproxEval
import NurbsVerif.Lemmas.FitApproxOne
import NurbsVerif.Lemmas.FitASurfEval
import NurbsVerif.Lemmas.FitASurfLsq
import NurbsVerif.Lemmas.FitGuards
import NurbsVerif.Lemmas.FitWitness
import Mathlib.Algebra.Order.Field.Rat

/-!
# C11  Fitted curves and surfaces meet interpolation and least-squares conditions

Model: `Geomdl.computeParams`, `computeKnotVector`, `buildCoeffMatrix`, `interpolateCurve`,
`interpolateSurface`, `approximateCurve`, `approximateSurface` (one least-squares pass: `lsqPass`; chord
lengths – square roots in the code – are inputs).

Non-singularity of the collocation / normal matrices is a hypothesis throughout ("whenever the
solver returns").  Every theorem about a fitting routine carries the guard of its driver op as a bundle
(`InterpCurveOk`, `InterpSurfOk`, `ApproxCurveOk`, `ApproxSurfOk`, Lemmas/FitGuards.lean): the inputs on which the real
routine reaches the solver instead of raising – degree ≥ 1, enough points, at least THREE control points per
direction for the approximations (with two the code raises `IndexError`, finding F-11a, while the model would return the
segment / bilinear patch), `su·sv` data points, and a non-zero total chord length in every data line (otherwise
`compute_params_curve` raises `ZeroDivisionError`, while the model's `x / 0 = 0` would go on).  `Geomdl.lsqError` / `Geomdl.lsqErrorEval` (Lemmas/FitApprox*.lean) are the
spec-level sums `Σ_{k=1}^{nd−2} |Q_k − C(ū_k)|²` (with `C` written as `Σ_j N_{j,p} P_j` through
`basis_function_one`, resp. with `C` the evaluated curve point of A3.1).
-/
namespace C11
open Geomdl Lin Finset
variable {K : Type} [Field K] [LinearOrder K] [IsStrictOrderedRing K]

/-- **Interpolation (collocation form)**: whenever `lu_solve` returns control points for the
    collocation system of ANY parameter list and knot vector, the curve evaluated at the `i`-th
    parameter is the `i`-th data point (every degree, any dimension, any number of points). -/
theorem collocation_interpolates (p : ℕ) (U : ℕ → K) (uk : List K) (pts cp : List (List K)) (d : ℕ)
    (hn : uk.length = pts.length) (hpn : p + 1 ≤ pts.length) (hP : NetOk d pts) (hd : 0 < d)
    (h : luSolve (buildCoeffMatrix p U uk pts.length) pts = some cp) (i : ℕ) (hi : i < pts.length) (c : ℕ) (hc : c < d) :
    (curvePointAt p U cp (findSpanLinear p U pts.length (uk.getD i 0)) (uk.getD i 0)).getD c 0
      = (ptsGet pts i).getD c 0 :=
  Geomdl.collocation_interpolates p U uk pts cp d hn hpn hP hd h i hi c hc

/-- **`fitting.interpolate_curve`**: the returned curve (knot vector by averaging, control points from
    the LU solver) passes through every data point at its chord-length / centripetal parameter. -/
theorem interpolateCurve_interpolates (p : ℕ) (pts : List (List K)) (cds : List K) (invp : K) (d : ℕ)
    (kv : List K) (cp : List (List K))
    (hg : InterpCurveOk p pts cds) (hP : NetOk d pts) (hd : 0 < d)
    (h : interpolateCurve p pts cds invp = some (kv, cp)) (i : ℕ) (hi : i < pts.length) (c : ℕ) (hc : c < d) :
    (curvePoint p (fnOf kv) cp ((computeParams cds).getD i 0)).getD c 0 = (ptsGet pts i).getD c 0 := by
  have hlen := hg.len
  have hpn := hg.pn
  unfold interpolateCurve at h
  simp only [] at h
  split at h
  · rename_i cp' hsolve
    injection h with h'
    injection h' with hkv hcp
    subst hkv; subst hcp
    have hcplen : cp'.length = pts.length := by
      have hA : (buildCoeffMatrix p (fnOf (computeKnotVector p pts.length (computeParams cds) invp)) (computeParams cds) pts.length).length = pts.length := by
        simp [buildCoeffMatrix, computeParams, hlen]
      have := (luSolve_correct _ pts cp' (by rw [hA]) hsolve).1
      rw [hA] at this; exact this
    unfold curvePoint
    rw [hcplen]
    exact Geomdl.collocation_interpolates p _ (computeParams cds) pts cp' d (by simp [computeParams, hlen]) hpn hP hd hsolve i hi c hc
  · exact absurd h (by simp)

/-- the parameters start at 0 … -/
theorem params_first (cds : List K) : (computeParams cds).getD 0 0 = 0 := by
  simp [computeParams, sumL]

/-- … and the approximation keeps the first and the last data point as end control points
    (so with clamped knots the approximating curve interpolates the end data points, C18). -/
theorem approximateCurve_endpoints (p : ℕ) (pts : List (List K)) (cds : List K) (nc : ℕ) (fl : K → ℕ)
    (kv : List K) (cp : List (List K)) (hg : ApproxCurveOk p pts cds nc)
    (h : approximateCurve p pts cds nc fl = some (kv, cp)) :
    cp.head? = some (pts.headD []) ∧ cp.getLast? = some (pts.getLastD []) := by
  unfold approximateCurve at h
  simp only [] at h
  split at h
  · exact absurd h (by simp)
  · injection h with h'
    injection h' with _ hcp
    subst hcp
    refine ⟨by simp, ?_⟩
    rw [List.getLast?_append]
    simp

/-! ### parameters (`compute_params_curve`) -/

/-- … end at 1 (the total chord length is not zero) … -/
theorem params_last (cds : List K) (h : sumL cds ≠ 0) : (computeParams cds).getD cds.length 0 = 1 :=
  computeParams_last cds h

/-- … there are as many parameters as data points, and for non-negative chord lengths with positive
    sum they are non-decreasing and lie in `[0, 1]` … -/
theorem params_monotone (cds : List K) (h : ∀ x ∈ cds, 0 ≤ x) (hs : 0 < sumL cds) :
    (computeParams cds).length = cds.length + 1 ∧
    (∀ i j, i ≤ j → j ≤ cds.length → (computeParams cds).getD i 0 ≤ (computeParams cds).getD j 0) ∧
    (∀ i, i ≤ cds.length → 0 ≤ (computeParams cds).getD i 0 ∧ (computeParams cds).getD i 0 ≤ 1) :=
  ⟨computeParams_length cds, fun i j hij hj => computeParams_mono cds h hs i j hij hj,
   fun i hi => computeParams_range cds h hs i hi⟩

/-- … and strictly increasing when consecutive data points are distinct (positive chord lengths). -/
theorem params_strictMono (cds : List K) (h : ∀ x ∈ cds, 0 < x) (i j : ℕ) (hij : i < j) (hj : j ≤ cds.length) :
    (computeParams cds).getD i 0 < (computeParams cds).getD j 0 :=
  computeParams_strictMono cds h i j hij hj

/-! ### the averaged knot vector (`compute_knot_vector`, Eq. 9.8) -/

/-- The knot vector of the interpolation has `n + p + 1` knots: `p+1` zeros, then the averages
    `invp · (ū_{j} + … + ū_{j+p-1})` (`j = 1 … n-p-1`), then `p+1` ones (as a function padded with `1`). -/
theorem knotVector_spec (p n : ℕ) (uk : List K) (invp : K) (hpn : p + 1 ≤ n) :
    (computeKnotVector p n uk invp).length = n + p + 1 ∧
    (∀ i, i ≤ p → fnOf (computeKnotVector p n uk invp) i = 0) ∧
    (∀ i, p < i → i < n → fnOf (computeKnotVector p n uk invp) i = invp * ∑ r ∈ range p, uk.getD (i - p + r) 0) ∧
    (∀ i, n ≤ i → fnOf (computeKnotVector p n uk invp) i = 1) := by
  refine ⟨computeKnotVector_length p n uk invp hpn, (computeKnotVector_clamped p n uk invp hpn).1, ?_,
    (computeKnotVector_clamped p n uk invp hpn).2⟩
  intro i h1 h2
  rw [computeKnotVector_fn p n uk invp hpn, if_neg (by omega), if_pos h2]

/-- The averaged knot vector is non-decreasing for non-decreasing non-negative parameters and
    `invp ≥ 0`, provided the last average does not exceed one: `invp · p · ū_{n-2} ≤ 1` (true for
    `invp = 1/p` exactly and parameters `≤ 1`; `invp` is the double `1.0/p` in the code). -/
theorem knotVector_monotone (p n : ℕ) (uk : List K) (invp : K) (hpn : p + 1 ≤ n)
    (hinv : 0 ≤ invp) (h0 : ∀ i, 0 ≤ uk.getD i 0)
    (hmono : ∀ i j, i ≤ j → j < n → uk.getD i 0 ≤ uk.getD j 0)
    (hlast : invp * (p : K) * uk.getD (n - 2) 0 ≤ 1) :
    Monotone (fnOf (computeKnotVector p n uk invp)) :=
  computeKnotVector_mono p n uk invp hpn hinv h0 hmono hlast

/-- `interpolate_curve` on data with distinct consecutive points builds a non-decreasing knot vector
    (chord lengths positive, `invp ≥ 0` and `invp · p · ū_{n-2} ≤ 1`). -/
theorem interpolateCurve_knots_monotone (p : ℕ) (cds : List K) (invp : K) (hpn : p ≤ cds.length)
    (hpos : ∀ x ∈ cds, 0 < x) (hinv : 0 ≤ invp)
    (hlast : invp * (p : K) * (computeParams cds).getD (cds.length - 1) 0 ≤ 1) :
    Monotone (fnOf (computeKnotVector p (cds.length + 1) (computeParams cds) invp)) := by
  have hnn : ∀ x ∈ cds, (0:K) ≤ x := fun x hx => le_of_lt (hpos x hx)
  by_cases hne : cds = []
  · subst hne
    have hp0 : p = 0 := by simpa using hpn
    subst hp0
    exact computeKnotVector_mono 0 1 _ invp (by omega) hinv (fun i => by
        rcases i with _ | i <;> simp [computeParams, sumL]) (fun i j hij hj => by
        have : i = 0 ∧ j = 0 := by omega
        rw [this.1, this.2]) (by simp)
  · have hs : 0 < sumL cds := by rw [sumL_eq_sum]; exact List.sum_pos _ hpos hne
    apply computeKnotVector_mono p (cds.length + 1) _ invp (by omega) hinv
    · intro i
      by_cases hi : i ≤ cds.length
      · exact (computeParams_range cds hnn hs i hi).1
      · rw [List.getD_eq_default _ _ (by rw [computeParams_length]; omega)]
    · intro i j hij hj
      exact computeParams_mono cds hnn hs i j hij (by omega)
    · exact hlast

/-- **requested degree**: the interpolating curve has as many control points as data points and
    `n + p + 1` knots, i.e. degree `p`. -/
theorem interpolateCurve_degree (p : ℕ) (pts : List (List K)) (cds : List K) (invp : K)
    (kv : List K) (cp : List (List K)) (hg : InterpCurveOk p pts cds)
    (h : interpolateCurve p pts cds invp = some (kv, cp)) :
    cp.length = pts.length ∧ kv.length = cp.length + p + 1 := by
  have hpn := hg.pn
  unfold interpolateCurve at h
  simp only [] at h
  split at h
  · rename_i cp' hsolve
    injection h with h'
    injection h' with hkv hcp
    subst hkv; subst hcp
    have := (luSolve_shape _ _ _ hsolve).1
    exact ⟨this, by rw [computeKnotVector_length p _ _ _ hpn, this]⟩
  · exact absurd h (by simp)

/-! ### surface interpolation -/

/-- **`fitting.interpolate_surface`** (two passes of curve interpolation): whenever all solver calls
    return, the surface evaluated at the `i`-th averaged `u`-parameter and the `j`-th averaged
    `v`-parameter is the data point `Q_{i,j}` (flat index `j + size_v · i`), every coordinate. -/
theorem interpolateSurface_interpolates (pu pv su sv : ℕ) (pts : List (List K)) (cdsU cdsV : List (List K))
    (invpu invpv : K) (d : ℕ) (kvu kvv : List K) (cp : List (List K))
    (hg : InterpSurfOk pu pv su sv pts cdsU cdsV) (hP : NetOk d pts) (hd : 0 < d)
    (h : interpolateSurface pu pv su sv pts cdsU cdsV invpu invpv = some (kvu, kvv, cp))
    (i : ℕ) (hi : i < su) (j : ℕ) (hj : j < sv) (c : ℕ) (hc : c < d) :
    (surfacePoint pu pv (fnOf kvu) (fnOf kvv) su sv cp
        ((averageParams cdsU su).getD i 0) ((averageParams cdsV sv).getD j 0)).getD c 0
      = (ptsGet pts (j + sv * i)).getD c 0 :=
  Geomdl.interpolateSurface_interpolates pu pv su sv pts cdsU cdsV invpu invpv d kvu kvv cp hg.len hg.pun hg.pvn hP hd h
    i hi j hj c hc

/-- **requested degrees**: the interpolating surface has `su · sv` control points and the two averaged
    knot vectors with `su + pu + 1` and `sv + pv + 1` knots, i.e. degrees `pu`, `pv`. -/
theorem interpolateSurface_degree (pu pv su sv : ℕ) (pts : List (List K)) (cdsU cdsV : List (List K))
    (invpu invpv : K) (kvu kvv : List K) (cp : List (List K)) (hg : InterpSurfOk pu pv su sv pts cdsU cdsV)
    (h : interpolateSurface pu pv su sv pts cdsU cdsV invpu invpv = some (kvu, kvv, cp)) :
    cp.length = su * sv ∧ kvu.length = su + pu + 1 ∧ kvv.length = sv + pv + 1 := by
  have hpu := hg.pun
  have hpv := hg.pvn
  obtain ⟨h1, h2, h3⟩ := interpolateSurface_shape pu pv su sv pts cdsU cdsV invpu invpv kvu kvv cp h
  subst h1; subst h2
  exact ⟨h3, computeKnotVector_length pu su _ _ hpu, computeKnotVector_length pv sv _ _ hpv⟩

/-- The averaged parameters of a surface direction (`compute_params_surface`): as many as data
    points in that direction, start at 0, end at 1, non-decreasing (every line of the data has
    non-negative chord lengths with positive sum). -/
theorem surface_params_spec (cdsList : List (List K)) (n : ℕ) (hn : 0 < n) (hne : cdsList ≠ [])
    (h : ∀ c ∈ cdsList, c.length + 1 = n ∧ (∀ x ∈ c, 0 ≤ x) ∧ 0 < sumL c) :
    (averageParams cdsList n).length = n ∧ (averageParams cdsList n).getD 0 0 = 0 ∧
    (averageParams cdsList n).getD (n - 1) 0 = 1 ∧
    ∀ i j, i ≤ j → j < n → (averageParams cdsList n).getD i 0 ≤ (averageParams cdsList n).getD j 0 :=
  ⟨averageParams_length cdsList n, averageParams_first cdsList n hn,
   averageParams_last cdsList n hn hne (fun c hc => ⟨(h c hc).1, ne_of_gt (h c hc).2.2⟩),
   fun i j hij hj => averageParams_mono cdsList n h i j hij hj⟩

/-! ### least squares -/

/-- **Algebraic core of least squares** (any field): if `x` solves the normal equations
    `NᵀN x = Nᵀ r` (`N` with `m` rows and `n` columns), then for every `y`
    `‖N y − r‖² = ‖N x − r‖² + ‖N (y − x)‖²`. -/
theorem least_squares_pythagoras {F : Type} [Field F] (m n : ℕ) (N : ℕ → ℕ → F) (r x y : ℕ → F)
    (h : ∀ i, i < n → ∑ j ∈ range n, (∑ k ∈ range m, N k i * N k j) * x j = ∑ k ∈ range m, N k i * r k) :
    ∑ k ∈ range m, (∑ j ∈ range n, N k j * y j - r k) ^ 2
      = ∑ k ∈ range m, (∑ j ∈ range n, N k j * x j - r k) ^ 2
        + ∑ k ∈ range m, (∑ j ∈ range n, N k j * (y j - x j)) ^ 2 :=
  Lsq.pythagoras m n N r x y h

/-- … hence over an ordered field a solution of the normal equations minimises `‖N y − r‖²`. -/
theorem least_squares_minimises (m n : ℕ) (N : ℕ → ℕ → K) (r x y : ℕ → K)
    (h : ∀ i, i < n → ∑ j ∈ range n, (∑ k ∈ range m, N k i * N k j) * x j = ∑ k ∈ range m, N k i * r k) :
    ∑ k ∈ range m, (∑ j ∈ range n, N k j * x j - r k) ^ 2
      ≤ ∑ k ∈ range m, (∑ j ∈ range n, N k j * y j - r k) ^ 2 :=
  Lsq.minimises m n N r x y h

/-- **`fitting.approximate_curve` solves the normal equations** (Eq. 9.65–9.67): whenever the solver
    returns, the control polygon is `Q₀ :: x ++ [Q_m]` with `nc − 2` interior points and, for every
    coordinate `c`, `Σ_j (Σ_k N_{i}(ū_k) N_{j}(ū_k)) x_j = Σ_k N_{i}(ū_k) Rk_k` for every interior basis
    function `i` (sums over interior data points `k` and interior control points `j`; `N` as computed
    by `basis_function_one`; `Rk_k = Q_k − N_0(ū_k) Q₀ − N_{nc−1}(ū_k) Q_m`). -/
theorem approximateCurve_normal_equations (p : ℕ) (pts : List (List K)) (cds : List K) (nc : ℕ) (fl : K → ℕ)
    (kv : List K) (cp : List (List K)) (hg : ApproxCurveOk p pts cds nc)
    (h : approximateCurve p pts cds nc fl = some (kv, cp)) :
    ∃ x : List (List K), cp = [pts.headD []] ++ x ++ [pts.getLastD []] ∧ x.length = nc - 2 ∧
      ∀ c, c < (pts.headD []).length → ∀ i, i < nc - 2 →
        ∑ j ∈ range (nc - 2),
            (∑ k ∈ range (pts.length - 2),
              basisFunOne p (fnOf kv) kv.length (1 + i) ((computeParams cds).getD (1 + k) 0)
                * basisFunOne p (fnOf kv) kv.length (1 + j) ((computeParams cds).getD (1 + k) 0)) * ent x j c
          = ∑ k ∈ range (pts.length - 2),
              basisFunOne p (fnOf kv) kv.length (1 + i) ((computeParams cds).getD (1 + k) 0)
                * ((pts.getD (1 + k) []).getD c 0
                    - (pts.headD []).getD c 0 * basisFunOne p (fnOf kv) kv.length 0 ((computeParams cds).getD (1 + k) 0)
                    - (pts.getLastD []).getD c 0 * basisFunOne p (fnOf kv) kv.length (nc - 1) ((computeParams cds).getD (1 + k) 0)) := by
  obtain ⟨_, x, h1, h2, _, h4⟩ := approximateCurve_normal p pts cds nc fl kv cp hg.nd h
  exact ⟨x, h1, h2, h4⟩

/-- **residual form of the normal equations**: the residual `Q_k − C(ū_k)` of the returned curve
    (`C(u) = Σ_j N_{j,p}(u) P_j` over ALL control points) summed over the interior data points
    against any interior basis function `N_{i,p}` vanishes, coordinate by coordinate. -/
theorem approximateCurve_residual_orthogonal (p : ℕ) (pts : List (List K)) (cds : List K) (nc : ℕ) (fl : K → ℕ)
    (kv : List K) (cp : List (List K)) (hg : ApproxCurveOk p pts cds nc)
    (h : approximateCurve p pts cds nc fl = some (kv, cp)) (i : ℕ) (hi1 : 1 ≤ i) (hi2 : i + 1 < nc)
    (c : ℕ) (hc : c < (pts.headD []).length) :
    ∑ k ∈ Ico 1 (pts.length - 1), basisFunOne p (fnOf kv) kv.length i ((computeParams cds).getD k 0) *
      ((ptsGet pts k).getD c 0
        - ∑ j ∈ range cp.length, basisFunOne p (fnOf kv) kv.length j ((computeParams cds).getD k 0) * (ptsGet cp j).getD c 0) = 0 :=
  approximateCurve_orthogonal p pts cds nc fl kv cp (le_trans (by omega) hg.nc3) hg.nd h i hi1 hi2 c hc

/-- **`fitting.approximate_curve` minimises**: among all control polygons `Q₀ :: y ++ [Q_m]` with
    `nc − 2` interior points, the returned one has the least
    `Σ_{k=1}^{nd−2} Σ_c (Q_{k,c} − Σ_j N_{j,p}(ū_k) P_{j,c})²` (`Geomdl.lsqError`). -/
theorem approximateCurve_minimises (p : ℕ) (pts : List (List K)) (cds : List K) (nc : ℕ) (fl : K → ℕ)
    (kv : List K) (cp : List (List K)) (hg : ApproxCurveOk p pts cds nc)
    (h : approximateCurve p pts cds nc fl = some (kv, cp)) (y : List (List K)) (hy : y.length = nc - 2) :
    lsqError p (fnOf kv) kv.length (computeParams cds) pts (pts.headD []).length cp
      ≤ lsqError p (fnOf kv) kv.length (computeParams cds) pts (pts.headD []).length
          ([pts.headD []] ++ y ++ [pts.getLastD []]) :=
  Geomdl.approximateCurve_minimises p pts cds nc fl kv cp (le_trans (by omega) hg.nc3) hg.nd h y hy

/-- The same for the EVALUATED curve (`curvePoint`, A3.1 at the span found by the linear search):
    `Σ_k |Q_k − C(ū_k)|²` (`Geomdl.lsqErrorEval`) is minimal, given a non-decreasing knot vector, interior
    parameters inside the half-open domain, and that `basis_function_one` returns the Cox–de Boor values
    there (hypothesis `hB`; this is theorem `basisFunOne_eq_cdb` of C03). -/
theorem approximateCurve_minimises_evaluated (p : ℕ) (pts : List (List K)) (cds : List K) (nc : ℕ) (fl : K → ℕ)
    (kv : List K) (cp : List (List K)) (d : ℕ) (hg : ApproxCurveOk p pts cds nc)
    (hP : NetOk d pts) (h : approximateCurve p pts cds nc fl = some (kv, cp))
    (hm : Monotone (fnOf kv))
    (hdom : ∀ k, 1 ≤ k → k + 1 < pts.length →
      fnOf kv p ≤ (computeParams cds).getD k 0 ∧ (computeParams cds).getD k 0 < fnOf kv nc)
    (hB : ∀ k, 1 ≤ k → k + 1 < pts.length → ∀ j, j < nc →
      basisFunOne p (fnOf kv) kv.length j ((computeParams cds).getD k 0)
        = Blossom.cdb (fnOf kv) p j ((computeParams cds).getD k 0))
    (y : List (List K)) (hy : y.length = nc - 2) (hyd : NetOk d y) :
    lsqErrorEval p (fnOf kv) (computeParams cds) pts d cp
      ≤ lsqErrorEval p (fnOf kv) (computeParams cds) pts d ([pts.headD []] ++ y ++ [pts.getLastD []]) :=
  Geomdl.approximateCurve_minimises_evaluated p pts cds nc fl kv cp d (le_trans (by omega) hg.nc3) hg.pn hg.nd hP h hm hdom
    hB y hy hyd

/-- The knot vector of the approximation has `nc + p + 1` knots and is clamped (`p+1` zeros, `p+1` ones),
    so the curve has `nc` control points and degree `p`. -/
theorem approximateCurve_shape (p : ℕ) (pts : List (List K)) (cds : List K) (nc : ℕ) (fl : K → ℕ)
    (kv : List K) (cp : List (List K)) (hg : ApproxCurveOk p pts cds nc)
    (h : approximateCurve p pts cds nc fl = some (kv, cp)) :
    cp.length = nc ∧ kv.length = nc + p + 1 ∧ (∀ i, i ≤ p → fnOf kv i = 0) ∧ (∀ i, nc ≤ i → fnOf kv i = 1) := by
  have hnc2 : 2 ≤ nc := le_trans (by omega) hg.nc3
  have hpn := hg.pn
  have hnc := hg.nd
  obtain ⟨hkv, x, hcp, hxl, _, _⟩ := approximateCurve_normal p pts cds nc fl kv cp hnc h
  subst hkv
  refine ⟨by rw [hcp]; simp [hxl]; omega, computeKnotVector2_length p _ nc _ fl hpn,
    (computeKnotVector2_clamped p _ nc _ fl hpn).1, (computeKnotVector2_clamped p _ nc _ fl hpn).2⟩

/-- **The approximating curve interpolates the end data points**: `C(0) = Q₀` and `C(1) = Q_m`
    (evaluated curve, every coordinate), for a non-decreasing knot vector whose first and last spans
    are not empty (`0 < U_{p+1}`, `U_{nc-1} < 1`). -/
theorem approximateCurve_interpolates_ends (p : ℕ) (pts : List (List K)) (cds : List K) (nc : ℕ) (fl : K → ℕ)
    (kv : List K) (cp : List (List K)) (d : ℕ) (hg : ApproxCurveOk p pts cds nc)
    (hP : NetOk d pts) (h : approximateCurve p pts cds nc fl = some (kv, cp))
    (hm : Monotone (fnOf kv)) (h0 : 0 < fnOf kv (p + 1)) (h1 : fnOf kv (nc - 1) < 1) (c : ℕ) :
    (curvePoint p (fnOf kv) cp 0).getD c 0 = (pts.headD []).getD c 0 ∧
    (curvePoint p (fnOf kv) cp 1).getD c 0 = (pts.getLastD []).getD c 0 :=
  Geomdl.approximateCurve_interpolates_ends p pts cds nc fl kv cp d (le_trans (by omega) hg.nc3) hg.pn hg.nd hP h hm h0 h1 c

/-! ### the knot vector of the approximation (`compute_knot_vector2`) and data with distinct consecutive points -/

/-- `compute_knot_vector2` is non-decreasing for non-decreasing parameters in `[0, 1]` (`fl` = `int(·)`:
    `fl x ≤ x < fl x + 1` on non-negative `x`; at most `nd + p` control points). -/
theorem knotVector2_monotone (p nd nc : ℕ) (uk : List K) (fl : K → ℕ) (hfl : IsFloor fl)
    (hpn : p + 1 ≤ nc) (hnd : nc ≤ nd + p)
    (h0 : ∀ i, 0 ≤ uk.getD i 0) (h1 : ∀ i, uk.getD i 0 ≤ 1)
    (hmono : ∀ i j, i ≤ j → j < nd → uk.getD i 0 ≤ uk.getD j 0) :
    Monotone (fnOf (computeKnotVector2 p nd nc uk fl)) :=
  computeKnotVector2_mono p nd nc uk fl hfl hpn hnd h0 h1 hmono

/-- For strictly increasing parameters from 0 to 1 its first and last spans are not empty. -/
theorem knotVector2_ends (p nd nc : ℕ) (uk : List K) (fl : K → ℕ) (hfl : IsFloor fl)
    (hp : 1 ≤ p) (hpn : p + 1 ≤ nc) (hnd : nc ≤ nd)
    (hfirst : uk.getD 0 0 = 0) (hlast : uk.getD (nd - 1) 0 = 1)
    (hstrict : ∀ i j, i < j → j < nd → uk.getD i 0 < uk.getD j 0) :
    0 < fnOf (computeKnotVector2 p nd nc uk fl) (p + 1) ∧ fnOf (computeKnotVector2 p nd nc uk fl) (nc - 1) < 1 :=
  computeKnotVector2_ends p nd nc uk fl hfl hp hpn hnd hfirst hlast hstrict

/-- **End point interpolation for data with distinct consecutive points** (positive chord lengths):
    whenever the solver returns, `C(0) = Q₀` and `C(1) = Q_m` for the evaluated approximating curve –
    no hypothesis on the knot vector. -/
theorem approximateCurve_interpolates_ends_distinct (p : ℕ) (pts : List (List K)) (cds : List K) (nc : ℕ) (fl : K → ℕ)
    (kv : List K) (cp : List (List K)) (d : ℕ) (hfl : IsFloor fl) (hg : ApproxCurveOk p pts cds nc)
    (hpos : ∀ x ∈ cds, 0 < x)
    (hP : NetOk d pts) (h : approximateCurve p pts cds nc fl = some (kv, cp)) (c : ℕ) :
    (curvePoint p (fnOf kv) cp 0).getD c 0 = (pts.headD []).getD c 0 ∧
    (curvePoint p (fnOf kv) cp 1).getD c 0 = (pts.getLastD []).getD c 0 :=
  Geomdl.approximateCurve_interpolates_ends_distinct p pts cds nc fl kv cp d hfl hg.p1 hg.pn hg.nd hg.len hpos hP h c

/-- **Least squares for the evaluated curve, data with distinct consecutive points**: besides "the
    solver returns" the only hypothesis left is `hB` (`basis_function_one` = Cox–de Boor at the interior
    parameters, theorem `basisFunOne_eq_cdb` of C03). -/
theorem approximateCurve_minimises_evaluated_distinct (p : ℕ) (pts : List (List K)) (cds : List K) (nc : ℕ) (fl : K → ℕ)
    (kv : List K) (cp : List (List K)) (d : ℕ) (hfl : IsFloor fl) (hg : ApproxCurveOk p pts cds nc)
    (hpos : ∀ x ∈ cds, 0 < x)
    (hP : NetOk d pts) (h : approximateCurve p pts cds nc fl = some (kv, cp))
    (hB : ∀ k, 1 ≤ k → k + 1 < pts.length → ∀ j, j < nc →
      basisFunOne p (fnOf kv) kv.length j ((computeParams cds).getD k 0)
        = Blossom.cdb (fnOf kv) p j ((computeParams cds).getD k 0))
    (y : List (List K)) (hy : y.length = nc - 2) (hyd : NetOk d y) :
    lsqErrorEval p (fnOf kv) (computeParams cds) pts d cp
      ≤ lsqErrorEval p (fnOf kv) (computeParams cds) pts d ([pts.headD []] ++ y ++ [pts.getLastD []]) :=
  Geomdl.approximateCurve_minimises_evaluated_distinct p pts cds nc fl kv cp d hfl hg.p1 hg.pn hg.nd hg.len hpos hP h hB y hy
    hyd

/-- **Least squares, final form** (with C03 `basisFunOne_eq_cdb`): for data with distinct consecutive
    points, whenever the solver returns, the control polygon returned by `approximate_curve` minimises
    the summed squared distance `Σ_{k=1}^{nd−2} |Q_k − C(ū_k)|²` between the interior data points and
    the EVALUATED curve (A3.1) among all polygons `Q₀ :: y ++ [Q_m]` with `nc − 2` interior points. -/
theorem approximateCurve_least_squares (p : ℕ) (pts : List (List K)) (cds : List K) (nc : ℕ) (fl : K → ℕ)
    (kv : List K) (cp : List (List K)) (d : ℕ) (hfl : IsFloor fl) (hg : ApproxCurveOk p pts cds nc)
    (hpos : ∀ x ∈ cds, 0 < x)
    (hP : NetOk d pts) (h : approximateCurve p pts cds nc fl = some (kv, cp))
    (y : List (List K)) (hy : y.length = nc - 2) (hyd : NetOk d y) :
    lsqErrorEval p (fnOf kv) (computeParams cds) pts d cp
      ≤ lsqErrorEval p (fnOf kv) (computeParams cds) pts d ([pts.headD []] ++ y ++ [pts.getLastD []]) :=
  Geomdl.approximateCurve_least_squares p pts cds nc fl kv cp d hfl hg.p1 hg.pn hg.nd hg.len hpos hP h y hy hyd

/-! ### surface approximation (`fitting.approximate_surface`, A9.7 as coded) -/

/-- `approximate_curve` is ONE least-squares pass (`lsqPass`, the routine `approximate_surface` runs on
    every data column and then on every line of intermediate points) on the whole data, with the
    parameters and the knot vector of the curve. -/
theorem approximateCurve_is_one_pass (p : ℕ) (pts : List (List K)) (cds : List K) (nc : ℕ) (fl : K → ℕ) :
    approximateCurve p pts cds nc fl =
      (match lsqPass p (fnOf (computeKnotVector2 p pts.length nc (computeParams cds) fl))
          (computeKnotVector2 p pts.length nc (computeParams cds) fl).length (computeParams cds) pts nc (pts.headD []).length with
       | none => none
       | some cp => some (computeKnotVector2 p pts.length nc (computeParams cds) fl, cp)) :=
  approximateCurve_eq_lsqPass p pts cds nc fl

/-- **The four corner control points of `approximate_surface` are the four corner data points**
    (`eu`, `ev`: last index of the direction or the first; layouts `v + size_v·u` of the data and
    `v + ctrlpts_size_v·u` of the net), and the net has `ncu · ncv` points – whenever the solver passes
    return, on the inputs the routine accepts (`ApproxSurfOk`: in particular `su·sv` data points – with a short list
    the code raises `IndexError` and the model pads with `[]` –, at least three control points per direction, no data
    line of total chord length 0). -/
theorem approximateSurface_corner_ctrlpts (pu pv su sv : ℕ) (pts : List (List K)) (cdsU cdsV : List (List K))
    (ncu ncv : ℕ) (fl : K → ℕ) (kvu kvv : List K) (cp : List (List K))
    (hg : ApproxSurfOk pu pv su sv pts cdsU cdsV ncu ncv)
    (h : approximateSurface pu pv su sv pts cdsU cdsV ncu ncv fl = some (kvu, kvv, cp)) (eu ev : Bool) :
    cp.length = ncu * ncv ∧
    ptsGet cp ((if ev then ncv - 1 else 0) + ncv * (if eu then ncu - 1 else 0))
      = ptsGet pts ((if ev then sv - 1 else 0) + sv * (if eu then su - 1 else 0)) :=
  Geomdl.approximateSurface_corner_ctrlpts pu pv su sv pts cdsU cdsV ncu ncv fl kvu kvv cp
    (le_trans (by omega) (le_trans hg.ncu3 hg.ndu)) (le_trans (by omega) (le_trans hg.ncv3 hg.ndv))
    (le_trans (by omega) hg.ncu3) (le_trans (by omega) hg.ncv3) h eu ev

/-- **requested sizes and degrees**: the two knot vectors are those of `compute_knot_vector2` for the
    averaged parameters, have `ncu + pu + 1` and `ncv + pv + 1` knots and are clamped; every control
    point has the dimension of the data. -/
theorem approximateSurface_shape (pu pv su sv : ℕ) (pts : List (List K)) (cdsU cdsV : List (List K))
    (ncu ncv : ℕ) (fl : K → ℕ) (kvu kvv : List K) (cp : List (List K)) (d : ℕ)
    (hg : ApproxSurfOk pu pv su sv pts cdsU cdsV ncu ncv) (hP : NetOk d pts)
    (h : approximateSurface pu pv su sv pts cdsU cdsV ncu ncv fl = some (kvu, kvv, cp)) :
    kvu = computeKnotVector2 pu su ncu (averageParams cdsU su) fl ∧
    kvv = computeKnotVector2 pv sv ncv (averageParams cdsV sv) fl ∧
    kvu.length = ncu + pu + 1 ∧ kvv.length = ncv + pv + 1 ∧
    (∀ i, i ≤ pu → fnOf kvu i = 0) ∧ (∀ i, ncu ≤ i → fnOf kvu i = 1) ∧
    (∀ i, i ≤ pv → fnOf kvv i = 0) ∧ (∀ i, ncv ≤ i → fnOf kvv i = 1) ∧ NetOk d cp := by
  have hsu : 1 ≤ su := le_trans (by omega) (le_trans hg.ncu3 hg.ndu)
  have hsv : 1 ≤ sv := le_trans (by omega) (le_trans hg.ncv3 hg.ndv)
  have hncu : 2 ≤ ncu := le_trans (by omega) hg.ncu3
  have hpu := hg.pun
  have hpv := hg.pvn
  have hlen := hg.len
  obtain ⟨h1, h2, _⟩ := approximateSurface_struct pu pv su sv pts cdsU cdsV ncu ncv fl kvu kvv cp h
  have hN := approximateSurface_netOk pu pv su sv pts cdsU cdsV ncu ncv fl kvu kvv cp d hsu hsv hncu hlen hP h
  subst h1; subst h2
  exact ⟨rfl, rfl, computeKnotVector2_length pu _ ncu _ fl hpu, computeKnotVector2_length pv _ ncv _ fl hpv,
    (computeKnotVector2_clamped pu _ ncu _ fl hpu).1, (computeKnotVector2_clamped pu _ ncu _ fl hpu).2,
    (computeKnotVector2_clamped pv _ ncv _ fl hpv).1, (computeKnotVector2_clamped pv _ ncv _ fl hpv).2, hN⟩

/-- **The approximating surface interpolates the four corner data points**: `S(0|1, 0|1)` (evaluated
    surface, through the span search, every coordinate) is the corner data point – whenever the solver
    passes return, for knot vectors that are non-decreasing with non-empty first and last spans
    (clamped-corner theorem of C18). -/
theorem approximateSurface_interpolates_corners (pu pv su sv : ℕ) (pts : List (List K)) (cdsU cdsV : List (List K))
    (ncu ncv : ℕ) (fl : K → ℕ) (kvu kvv : List K) (cp : List (List K)) (d : ℕ)
    (hg : ApproxSurfOk pu pv su sv pts cdsU cdsV ncu ncv) (hP : NetOk d pts)
    (h : approximateSurface pu pv su sv pts cdsU cdsV ncu ncv fl = some (kvu, kvv, cp))
    (hmu : Monotone (fnOf kvu)) (hu0 : 0 < fnOf kvu (pu + 1)) (hu1 : fnOf kvu (ncu - 1) < 1)
    (hmv : Monotone (fnOf kvv)) (hv0 : 0 < fnOf kvv (pv + 1)) (hv1 : fnOf kvv (ncv - 1) < 1)
    (eu ev : Bool) (c : ℕ) :
    (surfacePoint pu pv (fnOf kvu) (fnOf kvv) ncu ncv cp (if eu then 1 else 0) (if ev then 1 else 0)).getD c 0
      = (ptsGet pts ((if ev then sv - 1 else 0) + sv * (if eu then su - 1 else 0))).getD c 0 :=
  Geomdl.approximateSurface_interpolates_corners pu pv su sv pts cdsU cdsV ncu ncv fl kvu kvv cp d
    (le_trans (by omega) (le_trans hg.ncu3 hg.ndu)) (le_trans (by omega) (le_trans hg.ncv3 hg.ndv))
    (le_trans (by omega) hg.ncu3) (le_trans (by omega) hg.ncv3)
    hg.pun hg.pvn hg.len hP h hmu hu0 hu1 hmv hv0 hv1 eu ev c

/-- **Corner interpolation for data whose consecutive points are distinct** (every chord length
    positive, one chord list per data line): no hypothesis on the knot vectors is left – whenever the
    solver passes return, `S(0|1, 0|1)` is the corner data point (`knotVector2_monotone`,
    `knotVector2_ends` for the averaged parameters of `compute_params_surface`). -/
theorem approximateSurface_interpolates_corners_distinct (pu pv su sv : ℕ) (pts : List (List K))
    (cdsU cdsV : List (List K)) (ncu ncv : ℕ) (fl : K → ℕ) (kvu kvv : List K) (cp : List (List K)) (d : ℕ)
    (hfl : IsFloor fl) (hg : ApproxSurfOk pu pv su sv pts cdsU cdsV ncu ncv) (hP : NetOk d pts)
    (hcU : ∀ c ∈ cdsU, ∀ x ∈ c, 0 < x) (hcV : ∀ c ∈ cdsV, ∀ x ∈ c, 0 < x)
    (h : approximateSurface pu pv su sv pts cdsU cdsV ncu ncv fl = some (kvu, kvv, cp))
    (eu ev : Bool) (c : ℕ) :
    (surfacePoint pu pv (fnOf kvu) (fnOf kvv) ncu ncv cp (if eu then 1 else 0) (if ev then 1 else 0)).getD c 0
      = (ptsGet pts ((if ev then sv - 1 else 0) + sv * (if eu then su - 1 else 0))).getD c 0 :=
  Geomdl.approximateSurface_interpolates_corners_distinct pu pv su sv pts cdsU cdsV ncu ncv fl kvu kvv cp d hfl hg.pu1 hg.pv1
    hg.pun hg.pvn hg.ndu hg.ndv hg.len hP
    ⟨by intro e; have := hg.cu.1; rw [e] at this; have := hg.ncv3; have := hg.ndv; simp at *; omega,
     fun c hc => ⟨(hg.cu.2 c hc).1, hcU c hc⟩⟩
    ⟨by intro e; have := hg.cv.1; rw [e] at this; have := hg.ncu3; have := hg.ndu; simp at *; omega,
     fun c hc => ⟨(hg.cv.2 c hc).1, hcV c hc⟩⟩ h eu ev c

/-- The averaged parameters of `compute_params_surface` are strictly increasing when every chord length
    is positive. -/
theorem surface_params_strictMono (cdsList : List (List K)) (n : ℕ) (hne : cdsList ≠ [])
    (h : ∀ c ∈ cdsList, c.length + 1 = n ∧ ∀ x ∈ c, 0 < x) (i j : ℕ) (hij : i < j) (hj : j < n) :
    (averageParams cdsList n).getD i 0 < (averageParams cdsList n).getD j 0 :=
  averageParams_strictMono cdsList n hne h i j hij hj

/-- **Both passes of `approximate_surface` solve their normal equations** (A9.7 is two families of curve
    fits): whenever it returns there are `sv` column polygons `cols` (`ncu` points each) and `ncu` row
    polygons `rows` whose concatenation is the control net, such that column `j` is a least-squares
    polygon (`Geomdl.IsLsqLine`: the two ends of the line kept, the interior points solve
    `NᵀN x = Nᵀ Rk` coordinate by coordinate, `N` as computed by `basis_function_one`) of the data line
    `Q_{0,j} … Q_{su−1,j}` for the parameters `ū` and the knot vector `kvu`, and row `i` is a least-squares
    polygon of the line formed by the `i`-th points of the columns for `v̄` and `kvv`.  On the inputs the routine
    accepts (`ApproxSurfOk`, data points of one dimension `d`; with a data line of coincident points the code raises
    `ZeroDivisionError` while the model would return with all-zero parameters). -/
theorem approximateSurface_passes_normal_equations (pu pv su sv : ℕ) (pts : List (List K)) (cdsU cdsV : List (List K))
    (ncu ncv : ℕ) (fl : K → ℕ) (kvu kvv : List K) (cp : List (List K)) (d : ℕ)
    (hg : ApproxSurfOk pu pv su sv pts cdsU cdsV ncu ncv) (hP : NetOk d pts)
    (h : approximateSurface pu pv su sv pts cdsU cdsV ncu ncv fl = some (kvu, kvv, cp)) :
    ∃ cols rows : List (List (List K)), cols.length = sv ∧ rows.length = ncu ∧ cp = rows.flatten ∧
      (∀ j, j < sv → IsLsqLine pu (fnOf kvu) kvu.length (averageParams cdsU su)
          ((List.range su).map (fun i => pts.getD (j + sv * i) [])) ncu (pts.headD []).length (cols.getD j [])) ∧
      (∀ i, i < ncu → IsLsqLine pv (fnOf kvv) kvv.length (averageParams cdsV sv)
          ((List.range sv).map (fun j => (cols.getD j []).getD i [])) ncv (pts.headD []).length (rows.getD i [])) :=
  approximateSurface_passes_lsq pu pv su sv pts cdsU cdsV ncu ncv fl kvu kvv cp hg.ndu hg.ndv h

/-- … what `IsLsqLine` says, written out: the polygon is `Q₀ :: x ++ [Q_m]` and `x` solves the normal
    equations of every coordinate … -/
theorem lsqLine_normal_equations (p : ℕ) (U : ℕ → K) (m : ℕ) (uk : List K) (line : List (List K)) (nc dim : ℕ)
    (cp : List (List K)) (h : IsLsqLine p U m uk line nc dim cp) :
    ∃ x : List (List K), cp = [line.headD []] ++ x ++ [line.getLastD []] ∧ x.length = nc - 2 ∧
      ∀ c, c < dim → ∀ i, i < nc - 2 →
        ∑ j ∈ range (nc - 2),
            (∑ k ∈ range (line.length - 2),
              basisFunOne p U m (1 + i) (uk.getD (1 + k) 0) * basisFunOne p U m (1 + j) (uk.getD (1 + k) 0)) * ent x j c
          = ∑ k ∈ range (line.length - 2),
              basisFunOne p U m (1 + i) (uk.getD (1 + k) 0)
                * ((line.getD (1 + k) []).getD c 0
                    - (line.headD []).getD c 0 * basisFunOne p U m 0 (uk.getD (1 + k) 0)
                    - (line.getLastD []).getD c 0 * basisFunOne p U m (nc - 1) (uk.getD (1 + k) 0)) := by
  obtain ⟨x, h1, h2, _, h4⟩ := h
  exact ⟨x, h1, h2, h4⟩

/-- … hence each pass **minimises** the summed squared residual of its line,
    `Σ_{k=1}^{nd−2} Σ_c (Q_{k,c} − Σ_j N_{j,p}(ū_k) P_{j,c})²` (`Geomdl.lsqError`), among all polygons with the
    same two ends and `nc − 2` interior points, and its residual is orthogonal to every interior basis
    function. -/
theorem lsqLine_minimises (p : ℕ) (U : ℕ → K) (m : ℕ) (uk : List K) (line : List (List K)) (nc dim : ℕ)
    (cp : List (List K)) (h : IsLsqLine p U m uk line nc dim cp) (hnc2 : 2 ≤ nc) :
    (∀ y : List (List K), y.length = nc - 2 →
      lsqError p U m uk line dim cp ≤ lsqError p U m uk line dim ([line.headD []] ++ y ++ [line.getLastD []])) ∧
    (∀ i, 1 ≤ i → i + 1 < nc → ∀ c, c < dim →
      ∑ k ∈ Ico 1 (line.length - 1), basisFunOne p U m i (uk.getD k 0) *
        ((ptsGet line k).getD c 0 - ∑ j ∈ range cp.length, basisFunOne p U m j (uk.getD k 0) * (ptsGet cp j).getD c 0) = 0) :=
  ⟨fun y hy => h.minimises hnc2 y hy, fun i hi1 hi2 c hc => h.orthogonal hnc2 i hi1 hi2 c hc⟩

/-! ### non-vacuity: the hypotheses hold on concrete inputs (exact rationals) -/

/-- the floor used by the driver satisfies `IsFloor` -/
example : IsFloor (fun x : ℚ => x.floor.toNat) := by
  intro x hx
  have h1 : (0:ℤ) ≤ x.floor := Rat.le_floor_iff.mpr (by simpa using hx)
  have h2 : ((x.floor.toNat : ℕ) : ℚ) = ((x.floor : ℤ) : ℚ) := by
    rw [← Int.cast_natCast, Int.toNat_of_nonneg h1]
  refine ⟨by rw [h2]; exact Rat.floor_le x, ?_⟩
  rw [h2]
  have := Rat.lt_floor_add_one x
  push_cast at this
  exact this

/-- interpolation data with the shape hypothesis: 7 points in the plane -/
example : NetOk 2 ([[0,0],[1,2],[2,3],[4,3],[5,1],[6,0],[7,2]] : List (List ℚ)) := by
  intro pt hpt; simp at hpt; rcases hpt with h | h | h | h | h | h | h <;> simp [h]

/-- curve interpolation returns on these data (degree 3, chord lengths 2,1,2,2,1,2) -/
example : (interpolateCurve 3 ([[0,0],[1,2],[2,3],[4,3],[5,1],[6,0],[7,2]] : List (List ℚ)) [2,1,2,2,1,2] (1/3)).isSome = true := by
  decide +kernel

/-- positive chord lengths, `invp = 1/p`: the hypotheses of `interpolateCurve_knots_monotone` -/
example : (∀ x ∈ ([2,1,2,2,1,2] : List ℚ), 0 < x) ∧ (0:ℚ) ≤ 1/3 ∧
    (1/3 : ℚ) * ((3:ℕ) : ℚ) * (computeParams ([2,1,2,2,1,2] : List ℚ)).getD (6 - 1) 0 ≤ 1 := by
  refine ⟨by decide +kernel, by decide +kernel, by decide +kernel⟩

/-- surface interpolation returns on a 3 × 4 grid of data points (degrees 2, 2) -/
example :
    (interpolateSurface 2 2 3 4
      ([[0,0,0],[0,1,1],[0,2,0],[0,3,2], [1,0,1],[1,1,2],[1,2,1],[1,3,0], [2,0,0],[2,1,1],[2,2,3],[2,3,1]] : List (List ℚ))
      [[1,1],[1,2],[2,1],[1,3]] [[1,1,2],[1,2,1],[2,1,1]] (1/2) (1/2)).isSome = true := by decide +kernel

/-- approximation (7 data points, degree 2, 4 control points): the solver returns, the knot vector is
    sorted, its first and last spans are not empty, 4 control points are returned -/
example :
    (match approximateCurve 2 ([[0,0],[1,2],[2,3],[4,3],[5,1],[6,0],[7,2]] : List (List ℚ)) [2,1,2,2,1,2] 4
        (fun x => x.floor.toNat) with
     | some (kv, cp) => decide (kv = [0,0,0,2/5,1,1,1]) && isSortedB kv && decide (0 < fnOf kv 3) && decide (fnOf kv 3 < 1)
          && decide (cp.length = 4)
     | none => false) = true := by decide +kernel

/-- `Monotone (fnOf kv)` is decidable on concrete knot vectors through `isSortedB` -/
example : Monotone (fnOf ([0,0,0,2/5,1,1,1] : List ℚ)) := fnOf_monotone_of_isSortedB _ (by decide +kernel)

/-- the interior parameters of that example lie in the half-open domain `[U_p, U_nc)` … -/
example : ∀ k, 1 ≤ k → k + 1 < 7 →
    fnOf ([0,0,0,2/5,1,1,1] : List ℚ) 2 ≤ (computeParams ([2,1,2,2,1,2] : List ℚ)).getD k 0 ∧
    (computeParams ([2,1,2,2,1,2] : List ℚ)).getD k 0 < fnOf ([0,0,0,2/5,1,1,1] : List ℚ) 4 := by
  intro k h1 h2
  have hk : k = 1 ∨ k = 2 ∨ k = 3 ∨ k = 4 ∨ k = 5 := by omega
  rcases hk with rfl | rfl | rfl | rfl | rfl <;> decide +kernel

/-- … and `basis_function_one` returns the Cox–de Boor values there (hypothesis `hB`) -/
example : ∀ k, 1 ≤ k → k + 1 < 7 → ∀ j, j < 4 →
    basisFunOne 2 (fnOf ([0,0,0,2/5,1,1,1] : List ℚ)) 7 j ((computeParams ([2,1,2,2,1,2] : List ℚ)).getD k 0)
      = Blossom.cdb (fnOf ([0,0,0,2/5,1,1,1] : List ℚ)) 2 j ((computeParams ([2,1,2,2,1,2] : List ℚ)).getD k 0) := by
  intro k h1 h2 j hj
  have hk : k = 1 ∨ k = 2 ∨ k = 3 ∨ k = 4 ∨ k = 5 := by omega
  have hj' : j = 0 ∨ j = 1 ∨ j = 2 ∨ j = 3 := by omega
  rcases hk with rfl | rfl | rfl | rfl | rfl <;> rcases hj' with rfl | rfl | rfl | rfl <;> decide +kernel

/-- surface approximation (4 × 5 data points, degrees 2 and 1, 3 × 4 control points, positive chord
    lengths): the solver passes return, the knot vectors are `[0,0,0,1,1,1]` and sorted with non-empty end
    spans, 12 control points, the corner control points are the corner data points -/
example :
    (match approximateSurface 2 1 4 5
        ([[0,0,0],[0,1,1],[0,2,0],[0,3,2],[0,4,1], [1,0,1],[1,1,2],[1,2,1],[1,3,0],[1,4,2],
          [2,0,0],[2,1,1],[2,2,3],[2,3,1],[2,4,0], [3,0,1],[3,1,0],[3,2,2],[3,3,1],[3,4,3]] : List (List ℚ))
        [[1,1,2],[1,2,1],[2,1,1],[1,3,1],[1,1,1]] [[1,1,2,1],[1,2,1,1],[2,1,1,1],[1,1,1,2]] 3 4
        (fun x => x.floor.toNat) with
     | some (ku, kv, cp) => decide (ku = [0,0,0,1,1,1]) && isSortedB kv && decide (0 < fnOf kv 2) && decide (fnOf kv 3 < 1)
          && decide (cp.length = 12) && decide (cp.getD 0 [] = [0,0,0]) && decide (cp.getD 3 [] = [0,4,1])
          && decide (cp.getD 8 [] = [3,0,1]) && decide (cp.getD 11 [] = [3,4,3])
     | none => false) = true := by decide +kernel

/-- the chord-length hypotheses of `approximateSurface_interpolates_corners_distinct` on these data -/
example : (([[1,1,2],[1,2,1],[2,1,1],[1,3,1],[1,1,1]] : List (List ℚ)) ≠ [] ∧
    ∀ c ∈ ([[1,1,2],[1,2,1],[2,1,1],[1,3,1],[1,1,1]] : List (List ℚ)), c.length + 1 = 4 ∧ ∀ x ∈ c, 0 < x) := by
  decide +kernel

/-! ### the guard bundles are satisfiable and the theorems apply (witness data of Lemmas/FitWitness.lean) -/

/-- curve interpolation: 7 points, degree 3 – guard, the model returns, the theorem applied at every data point -/
example : ∃ kv cp, interpolateCurve 3 ptsC cdsC (1/3) = some (kv, cp) ∧
    ∀ i, i < 7 → ∀ c, c < 2 → (curvePoint 3 (fnOf kv) cp ((computeParams cdsC).getD i 0)).getD c 0 = (ptsGet ptsC i).getD c 0 := by
  have h : (interpolateCurve 3 ptsC cdsC (1/3)).isSome = true := by decide +kernel
  obtain ⟨⟨kv, cp⟩, h⟩ := Option.isSome_iff_exists.mp h
  exact ⟨kv, cp, h, fun i hi c hc => interpolateCurve_interpolates 3 ptsC cdsC (1/3) 2 kv cp okIC netC (by omega) h i hi c hc⟩

/-- surface interpolation: the guard holds on the 3 × 4 grid and the model returns -/
example : InterpSurfOk 2 2 3 4 ptsI cuI cvI ∧ (interpolateSurface 2 2 3 4 ptsI cuI cvI (1/2) (1/2)).isSome = true :=
  ⟨okIS, by decide +kernel⟩

/-- curve approximation: least squares (final form) applied to the model's own output, arbitrary competitor -/
example : ∃ kv cp, approximateCurve 2 ptsC cdsC 4 flQ = some (kv, cp) ∧
    ∀ y : List (List ℚ), y.length = 4 - 2 → NetOk 2 y →
      lsqErrorEval 2 (fnOf kv) (computeParams cdsC) ptsC 2 cp
        ≤ lsqErrorEval 2 (fnOf kv) (computeParams cdsC) ptsC 2 ([ptsC.headD []] ++ y ++ [ptsC.getLastD []]) := by
  obtain ⟨⟨kv, cp⟩, h⟩ := resAC
  exact ⟨kv, cp, h, fun y hy hyd =>
    approximateCurve_least_squares 2 ptsC cdsC 4 flQ kv cp 2 flQ_floor okAC (by decide +kernel) netC h y hy hyd⟩

/-- surface approximation, the strongest corner theorem: all four corners, every coordinate -/
example : ∃ kvu kvv cp, approximateSurface 2 1 4 5 ptsA cuA cvA 3 4 flQ = some (kvu, kvv, cp) ∧
    ∀ eu ev : Bool, ∀ c,
    (surfacePoint 2 1 (fnOf kvu) (fnOf kvv) 3 4 cp (if eu then 1 else 0) (if ev then 1 else 0)).getD c 0
      = (ptsGet ptsA ((if ev then 5 - 1 else 0) + 5 * (if eu then 4 - 1 else 0))).getD c 0 := by
  obtain ⟨⟨kvu, kvv, cp⟩, h⟩ := resA
  exact ⟨kvu, kvv, cp, h, fun eu ev c =>
    approximateSurface_interpolates_corners_distinct 2 1 4 5 ptsA cuA cvA 3 4 flQ kvu kvv cp 3 flQ_floor okA netA
      (by decide +kernel) (by decide +kernel) h eu ev c⟩

/-- … the shape theorem … -/
example : ∃ kvu kvv cp, approximateSurface 2 1 4 5 ptsA cuA cvA 3 4 flQ = some (kvu, kvv, cp) ∧
    kvu.length = 3 + 2 + 1 ∧ kvv.length = 4 + 1 + 1 ∧ NetOk 3 cp := by
  obtain ⟨⟨kvu, kvv, cp⟩, h⟩ := resA
  have := approximateSurface_shape 2 1 4 5 ptsA cuA cvA 3 4 flQ kvu kvv cp 3 okA netA h
  exact ⟨kvu, kvv, cp, h, this.2.2.1, this.2.2.2.1, this.2.2.2.2.2.2.2.2⟩

/-- … and both passes: the `IsLsqLine` statements are produced by the model function, and `lsqLine_minimises`
    composed with them gives, for every data column `j` and ANY competitor `y`, that the fitted column polygon has
    the least squared residual -/
example : ∃ kvu kvv cp, approximateSurface 2 1 4 5 ptsA cuA cvA 3 4 flQ = some (kvu, kvv, cp) ∧
    ∃ cols : List (List (List ℚ)), ∀ j, j < 5 → ∀ y : List (List ℚ), y.length = 3 - 2 →
      lsqError 2 (fnOf kvu) kvu.length (averageParams cuA 4) ((List.range 4).map (fun i => ptsA.getD (j + 5 * i) [])) 3 (cols.getD j [])
        ≤ lsqError 2 (fnOf kvu) kvu.length (averageParams cuA 4) ((List.range 4).map (fun i => ptsA.getD (j + 5 * i) [])) 3
            ([((List.range 4).map (fun i => ptsA.getD (j + 5 * i) [])).headD []] ++ y
              ++ [((List.range 4).map (fun i => ptsA.getD (j + 5 * i) [])).getLastD []]) := by
  obtain ⟨⟨kvu, kvv, cp⟩, h⟩ := resA
  obtain ⟨cols, rows, _, _, _, hU, _⟩ :=
    approximateSurface_passes_normal_equations 2 1 4 5 ptsA cuA cvA 3 4 flQ kvu kvv cp 3 okA netA h
  refine ⟨kvu, kvv, cp, h, cols, fun j hj y hy => ?_⟩
  have hd : (ptsA.headD []).length = 3 := by decide
  have := (lsqLine_minimises 2 (fnOf kvu) kvu.length (averageParams cuA 4) _ 3 _ (cols.getD j []) (hU j hj) (by norm_num)).1 y hy
  rw [hd] at this
  exact this

/-- what the guards exclude: with TWO control points per direction the model returns the bilinear patch (the real
    `approximate_surface(…, ctrlpts_size_u=2, ctrlpts_size_v=2)` raises `IndexError`, finding F-11a) – `ApproxSurfOk` fails -/
example : approximateSurface 1 1 3 3
      ([[0,0,0],[0,1,1],[0,2,0], [1,0,1],[1,1,5],[1,2,1], [2,0,0],[2,1,1],[2,2,3]] : List (List ℚ))
      [[1,1],[1,2],[2,1]] [[1,1],[1,2],[2,1]] 2 2 flQ
    = some ([0,0,1,1], [0,0,1,1], [[0,0,0],[0,2,0],[2,0,0],[2,2,3]]) := by decide +kernel

end C11
