import NurbsVerif.Lemmas.Fitting

/-!
# C11  Fitted curves and surfaces meet interpolation and least-squares conditions

Model: `Geomdl.computeParams`, `computeKnotVector`, `buildCoeffMatrix`, `interpolateCurve`,
`interpolateSurface`, `approximateCurve` (chord lengths – square roots in the code – are inputs).
-/
namespace C11
open Geomdl Lin Finset
variable {K : Type} [Field K] [LinearOrder K] [IsStrictOrderedRing K]

/-- **Interpolation (collocation form)**: whenever `lu_solve` returns control points for the
    collocation system of ANY parameter list and knot vector, the curve evaluated at the `i`-th
    parameter is the `i`-th data point (every degree, any dimension, any number of points). -/
theorem collocation_interpolates (p : ℕ) (U : ℕ → K) (uk : List K) (pts cp : List (List K)) (d : ℕ)
    (hn : uk.length = pts.length) (hpn : p + 1 ≤ pts.length) (hP : NetOk d pts) (hd : 0 < d)
    (h : luSolve (buildCoeffMatrix p U uk pts.length) pts = some cp) (i : ℕ) (hi : i < pts.length) (c : ℕ) (hc : c < d) :
    (curvePointAt p U cp (findSpanLinear p U pts.length (uk.getD i 0)) (uk.getD i 0)).getD c 0
      = (ptsGet pts i).getD c 0 :=
  Geomdl.collocation_interpolates p U uk pts cp d hn hpn hP hd h i hi c hc

/-- **`fitting.interpolate_curve`**: the returned curve (knot vector by averaging, control points from
    the LU solver) passes through every data point at its chord-length / centripetal parameter. -/
theorem interpolateCurve_interpolates (p : ℕ) (pts : List (List K)) (cds : List K) (invp : K) (d : ℕ)
    (kv : List K) (cp : List (List K))
    (hlen : cds.length + 1 = pts.length) (hpn : p + 1 ≤ pts.length) (hP : NetOk d pts) (hd : 0 < d)
    (h : interpolateCurve p pts cds invp = some (kv, cp)) (i : ℕ) (hi : i < pts.length) (c : ℕ) (hc : c < d) :
    (curvePoint p (fnOf kv) cp ((computeParams cds).getD i 0)).getD c 0 = (ptsGet pts i).getD c 0 := by
  unfold interpolateCurve at h
  simp only [] at h
  split at h
  · rename_i cp' hsolve
    injection h with h'
    injection h' with hkv hcp
    subst hkv; subst hcp
    have hcplen : cp'.length = pts.length := by
      have hA : (buildCoeffMatrix p (fnOf (computeKnotVector p pts.length (computeParams cds) invp)) (computeParams cds) pts.length).length = pts.length := by
        simp [buildCoeffMatrix, computeParams, hlen]
      have := (luSolve_correct _ pts cp' (by rw [hA]) hsolve).1
      rw [hA] at this; exact this
    unfold curvePoint
    rw [hcplen]
    exact Geomdl.collocation_interpolates p _ (computeParams cds) pts cp' d (by simp [computeParams, hlen]) hpn hP hd hsolve i hi c hc
  · exact absurd h (by simp)

/-- the parameters start at 0 … -/
theorem params_first (cds : List K) : (computeParams cds).getD 0 0 = 0 := by
  simp [computeParams, sumL]

/-- … and the approximation keeps the first and the last data point as end control points
    (so with clamped knots the approximating curve interpolates the end data points, C18). -/
theorem approximateCurve_endpoints (p : ℕ) (pts : List (List K)) (cds : List K) (nc : ℕ) (fl : K → ℕ)
    (kv : List K) (cp : List (List K)) (h : approximateCurve p pts cds nc fl = some (kv, cp)) :
    cp.head? = some (pts.headD []) ∧ cp.getLast? = some (pts.getLastD []) := by
  unfold approximateCurve at h
  simp only [] at h
  split at h
  · exact absurd h (by simp)
  · injection h with h'
    injection h' with _ hcp
    subst hcp
    refine ⟨by simp, ?_⟩
    rw [List.getLast?_append]
    simp

end C11
