import NurbsVerif.Lemmas.LinalgSolve
import NurbsVerif.Lemmas.LinalgPivot
import NurbsVerif.Lemmas.LinalgMatrix
import NurbsVerif.Lemmas.LinalgHelpers
import NurbsVerif.Lemmas.LinalgCache
import NurbsVerif.Lemmas.LinalgSDD
import NurbsVerif.Lemmas.LinalgGuards
import NurbsVerif.Driver.Linalg

/-!
# C16  Linear-algebra routines satisfy their defining equations on every call

Property theorems only (helper lemmas live in `Lemmas/Linalg*.lean`, `Lemmas/LU.lean`).  `K` is any
(linearly ordered) field - ℚ, hence every finite double, and ℝ.  Matrices are lists of rows as in
Python; `ent A i j` is `A[i][j]`, `toMat r c A` the same entries as a Mathlib `Matrix`.  The model
functions (`Model/Linalg.lean`, `Model/LU.lean`) are the ones the correspondence check runs against
`linalg.lu_solve / lu_factor / matrix_inverse / matrix_determinant / matrix_pivot` and the helpers.
A Python exception (`ZeroDivisionError`) is `none`; "returns a result" is `= some x`.

**Guards.**  The list-level model functions pad missing entries with `0` and have no shape test, whereas
`lu_decomposition` raises `ValueError` on a non-square matrix, a ragged matrix / right-hand side raises
`IndexError`, `matrix_multiply` raises on a size mismatch, and `matrix_pivot` exchanges only the first `n`
entries of a row.  Every theorem about a list-level routine therefore carries the decidable guard of
`Model/Linalg.lean` under which the implementation gets past these checks (`isSquare`, `luSolveOk`,
`luFactorOk`, `matrixInverseOk`, `matrixMultiplyOk`, `matrixVectorOk`, `admissible` for a call of a history);
nothing is claimed about inputs outside the guards.  The guards are SUFFICIENT (never too weak: whenever a guard holds,
the real routine raises only on a zero pivot – enumerated against the real code on all shapes with ≤ 3 rows of
length ≤ 3), NOT necessary: on a few degenerate shapes the guard fails although the code returns – and the model
returns the same value – see `guards_sufficient_not_necessary`.  The proofs do not use the guards (the padded model
happens to satisfy the equations anyway); they restrict the CLAIM to the inputs on which model and code
are compared.  `driver_guard` records that the test after which the driver answers `ERR` in the correspondence
check is the same expression (a definitional identity of two written-out copies; it says nothing about Python).  The function-level theorems (`doolittle_*`, the substitutions) are about
`ℕ → ℕ → K` entry functions and need no guard.

The model mirrors the *repaired* code for F-16a (pivoting works on a copy of the memoised identity)
and F-16c (`lu_factor` solves with `P·b`); the pinned behaviour is refuted on concrete witnesses
below.  F-16b (`matrix_determinant` after a zero pivot) is recorded, not repaired: the model mirrors
the pinned code and the determinant theorem excludes exactly that region (`…_partial`).
-/
namespace C16
open Lin Finset

section field
variable {K : Type} [Field K] [DecidableEq K]

/-- Doolittle's method (`_linalg.doolittle`, any size `n`): whenever no pivot `U j j` vanishes,
    `L·U = A`. -/
theorem doolittle_LU (A : ℕ → ℕ → K) (n : ℕ) (hpiv : ∀ j, j < n → (doolittle A n).U j j ≠ 0)
    (i k : ℕ) (hi : i < n) (hk : k < n) :
    ∑ j ∈ range n, (doolittle A n).L i j * (doolittle A n).U j k = A i k :=
  Lin.doolittle_LU A n hpiv i k hi hk

/-- … with `L` unit lower triangular and `U` upper triangular. -/
theorem doolittle_triangular (A : ℕ → ℕ → K) (n i j : ℕ) (hi : i < n) (hj : j < n) :
    (doolittle A n).L i i = 1 ∧ (i < j → (doolittle A n).L i j = 0) ∧ (j < i → (doolittle A n).U i j = 0) :=
  ⟨doolittle_L_diag A n i hi, doolittle_L_upper_zero A n i j hi hj, doolittle_U_lower_zero A n i j hi hj⟩

/-- `forward_substitution` returns only if the diagonal has no zero, and then solves the lower
    triangular system row by row: `∑_{j<i} L i j · y j + L i i · y i = b i`. -/
theorem forwardSubstitution_solves (L : ℕ → ℕ → K) (b : ℕ → K) (m : ℕ) (y : List K)
    (h : fwdSub L b m = some y) :
    y.length = m ∧ (∀ i, i < m → L i i ≠ 0) ∧
    ∀ i, i < m → ∑ j ∈ range i, L i j * y.getD j 0 + L i i * y.getD i 0 = b i :=
  fwdSub_spec L b m y h

/-- `backward_substitution` returns only if the diagonal has no zero (a zero pivot makes it raise),
    and then solves the upper triangular system: `∑_{t ≤ j < q} U t j · x j = y t`. -/
theorem backwardSubstitution_solves (U : ℕ → ℕ → K) (y : ℕ → K) (q : ℕ) (x : List K)
    (h : bwdSub U y q = some x) :
    x.length = q ∧ ∀ t, t < q → U t t ≠ 0 ∧ ∑ j ∈ Ico t q, U t j * x.getD j 0 = y t :=
  bwdSub_spec U y q x h

/-- **`lu_solve` on an admissible input (`A` square, `b` a table of `len(A)` full rows): whenever a result is
    returned it satisfies `A·x = b`** (every size, every number of right-hand sides), and a result is
    returned only if no Doolittle pivot vanishes. -/
theorem luSolve_correct (A b x : List (List K)) (hok : luSolveOk A b = true) (hb : b.length = A.length)
    (h : luSolve A b = some x) :
    x.length = A.length ∧
    (0 < (b.headD []).length → ∀ j, j < A.length → (doolittle (ent A) A.length).U j j ≠ 0) ∧
    ∀ i, i < A.length → ∀ c, c < (b.headD []).length →
      ∑ j ∈ range A.length, ent A i j * ent x j c = ent b i c :=
  Lin.luSolve_correct A b x hb h

/-- the same with Mathlib's matrix product -/
theorem luSolve_correct_matrix (A b x : List (List K)) (hok : luSolveOk A b = true) (hb : b.length = A.length)
    (h : luSolve A b = some x) :
    toMat A.length A.length A * toMat A.length (b.headD []).length x = toMat A.length (b.headD []).length b :=
  toMat_mul_of_sums A x b _ _ (Lin.luSolve_correct A b x hb h).2.2

/-- `lu_solve` does return a result when the input is admissible (`A` square, `b` with `len(A)` full rows) and
    no Doolittle pivot vanishes. -/
theorem luSolve_returns (A b : List (List K)) (hok : luSolveOk A b = true) (hb : b.length = A.length)
    (hpiv : ∀ j, j < A.length → (doolittle (ent A) A.length).U j j ≠ 0) : ∃ x, luSolve A b = some x :=
  luSolve_isSome A b hb hpiv
end field

section ordered
variable {K : Type} [Field K] [LinearOrder K]

/-- **The plain LU solver always returns a result for strictly (row) diagonally dominant SQUARE matrices**
    (and a right-hand side of `len(A)` full rows), and the result solves the system. -/
theorem luSolve_sdd [IsStrictOrderedRing K] (A b : List (List K)) (hok : luSolveOk A b = true)
    (hb : b.length = A.length)
    (hsdd : SDD (ent A) A.length) :
    ∃ x, luSolve A b = some x ∧
      toMat A.length A.length A * toMat A.length (b.headD []).length x = toMat A.length (b.headD []).length b := by
  obtain ⟨x, hx⟩ := luSolve_isSome A b hb (sdd_pivots_ne_zero (ent A) A.length hsdd)
  exact ⟨x, hx, toMat_mul_of_sums A x b _ _ (Lin.luSolve_correct A b x hb hx).2.2⟩

/-- **`matrix_pivot` (square input) returns a genuine permutation**: one permutation `σ` of `0..n-1` such that the
    returned matrix is the input with rows `σ 0, σ 1, …` and `P` is the identity with the same rows. -/
theorem matrixPivot_permutation (m : List (List K)) (hsq : isSquare m = true) :
    ∃ σ : List ℕ, σ.Perm (List.range m.length) ∧
      (matrixPivot m).mp = σ.map (fun i => m.getD i []) ∧
      (matrixPivot m).p = σ.map (fun i => (identity m.length : List (List K)).getD i []) :=
  matrixPivot_spec m

/-- the returned rows are a permutation of the input rows, `P`'s rows the same permutation of the
    identity rows (`List.Perm` of the zipped pairs) -/
theorem matrixPivot_rows_perm (m : List (List K)) (hsq : isSquare m = true) :
    (matrixPivot m).mp.Perm m ∧
    ((matrixPivot m).mp.zip (matrixPivot m).p).Perm (m.zip (identity m.length)) :=
  ⟨Lin.matrixPivot_rows_perm m, matrixPivot_zip_perm m⟩

/-- in Mathlib terms: `P` is the permutation matrix of some `τ`, the returned matrix is the input
    with rows permuted by `τ`, and it equals the product `P·A`. -/
theorem matrixPivot_permutation_matrix (m : List (List K)) (hsq : isSquare m = true) :
    (∃ τ : Equiv.Perm (Fin m.length),
      toMat m.length m.length (matrixPivot m).p = (1 : Matrix (Fin m.length) (Fin m.length) K).submatrix τ id ∧
      toMat m.length m.length (matrixPivot m).mp = (toMat m.length m.length m).submatrix τ id) ∧
    toMat m.length m.length (matrixPivot m).mp
      = toMat m.length m.length (matrixPivot m).p * toMat m.length m.length m :=
  ⟨matrixPivot_equiv m, matrixPivot_toMat_mul m⟩

/-- **`lu_factor` (right-hand side permuted with `P`, i.e. F-16c repaired) on an admissible input (`A` square,
    `b` rectangular with `len(A)` rows): whenever a result is returned it satisfies `A·x = b`.** -/
theorem luFactor_correct (A b x : List (List K)) (hok : luFactorOk A b = true) (h : luFactor A b = some x) :
    x.length = A.length ∧
    toMat A.length A.length A * toMat A.length (b.headD []).length x = toMat A.length (b.headD []).length b :=
  have hb : b.length = A.length := luFactorOk_length A b hok
  ⟨(Lin.luFactor_correct A b x hb h).1, toMat_mul_of_sums A x b _ _ (Lin.luFactor_correct A b x hb h).2⟩

/-- **`matrix_inverse` of a (non-empty) square matrix: whenever a result is returned, `A·A⁻¹ = 1` and
    `A⁻¹·A = 1`** (in particular the input was non-singular). -/
theorem matrixInverse_correct (m X : List (List K)) (hok : matrixInverseOk m = true) (h : matrixInverse m = some X) :
    X.length = m.length ∧
    toMat m.length m.length m * toMat m.length m.length X = 1 ∧
    toMat m.length m.length X * toMat m.length m.length m = 1 :=
  ⟨(Lin.matrixInverse_correct m X h).1, matrixInverse_matrix m X h⟩

/-- **`matrix_determinant` of a square matrix equals the (Leibniz) determinant `Matrix.det`** - PARTIAL: under the
    hypothesis that Doolittle on the row-permuted matrix meets no zero pivot.  The hypothesis cannot
    be dropped for the code as it is: without it the routine still returns a number (`0`), which is
    wrong for the non-singular F-16b witness below.  Missing for the full property: real partial
    pivoting in the code (then the hypothesis follows from non-singularity). -/
theorem matrixDeterminant_eq_det_partial (m : List (List K)) (hsq : isSquare m = true)
    (hpiv : ∀ j, j < m.length → (doolittle (ent (matrixPivot m).mp) m.length).U j j ≠ 0) :
    matrixDeterminant m = (toMat m.length m.length m).det :=
  matrixDeterminant_eq_det m hpiv

/-- the sign returned by `matrix_pivot(m, sign=True)` is the determinant factor of the row
    exchanges: `det (P·A) = sign · det A` -/
theorem matrixPivot_sign (m : List (List K)) (hsq : isSquare m = true) :
    (toMat m.length m.length (matrixPivot m).mp).det
      = pivotSign (matrixPivot m) * (toMat m.length m.length m).det := by
  rw [matrixPivot_det, pivotSign, ← Lin.neg_one_pow_eq_ite]
end ordered

/-! ### history independence (the memoised identity as explicit state) -/
section history
variable {K : Type} [Add K] [Sub K] [Mul K] [Div K] [Neg K] [Zero K] [One K] [NatCast K]
  [LT K] [LE K] [DecidableRel (α := K) (· < ·)] [DecidableRel (α := K) (· ≤ ·)] [DecidableEq K]

/-- **The answers do not depend on which routines were called before**: in every history of admissible calls
    (`matrix_identity`, `matrix_pivot`, `matrix_inverse`, `matrix_determinant`, `lu_solve`, `lu_factor`; each
    with an input the routine does not reject, `admissible`), started from any cache whose entries are identity
    matrices (in particular the empty one), every call returns what it returns as a function of its arguments
    alone.  (A rejected call in between can only call `matrix_identity`, which keeps the cache invariant,
    so the theorem applies again to the rest of the history: the start cache is arbitrary.) -/
theorem history_independent (c : Cache K) (ops : List (Op K)) (hadm : ∀ op ∈ ops, admissible op = true)
    (h : CacheOk c) :
    runWith stepC c ops = ops.map pureOut :=
  runWith_stepC c ops h

/-- … in particular the answer of a call is the same after any two histories. -/
theorem last_call_independent (c c' : Cache K) (pre pre' : List (Op K)) (op : Op K)
    (hadm : ∀ o ∈ pre ++ pre' ++ [op], admissible o = true) (h : CacheOk c) (h' : CacheOk c') :
    (runWith stepC c (pre ++ [op])).getLast? = (runWith stepC c' (pre' ++ [op])).getLast? :=
  runWith_stepC_last_indep c c' pre pre' op h h'

/-- the cache invariant behind it: entry `n` of the memoised `matrix_identity` always is `1ₙ` -/
theorem cache_invariant (c : Cache K) (op : Op K) (hadm : admissible op = true) (h : CacheOk c) :
    CacheOk (stepC c op).1 :=
  (stepC_ok c op h).2
end history

/-! ### helpers equal their definitions -/
section helpers
variable {K : Type} [Field K]

/-- `vector_dot` of two non-empty vectors (an empty one is a `ValueError`) is `∑ vᵢ wᵢ` over the common
    indices (`zip`) -/
theorem vectorDot_eq (v w : List K) (hv : v ≠ []) (hw : w ≠ []) :
    vectorDot v w = ∑ i ∈ range (min v.length w.length), v.getD i 0 * w.getD i 0 :=
  Lin.vectorDot_eq v w

/-- `vector_cross` is Mathlib's `crossProduct` … -/
theorem vectorCross_eq_crossProduct (a0 a1 a2 b0 b1 b2 : K) :
    vectorCross [a0, a1, a2] [b0, b1, b2]
      = some [(crossProduct ![a0, a1, a2] ![b0, b1, b2]) 0, (crossProduct ![a0, a1, a2] ![b0, b1, b2]) 1,
              (crossProduct ![a0, a1, a2] ![b0, b1, b2]) 2] :=
  Lin.vectorCross_eq_crossProduct a0 a1 a2 b0 b1 b2

/-- … orthogonal to both arguments, anti-commutative, with 2-D arguments padded by `0`, and an
    error exactly for lengths other than 2 or 3. -/
theorem vectorCross_props (v w c : List K) (hv : v.length = 3) (hw : w.length = 3)
    (h : vectorCross v w = some c) :
    vectorDot c v = 0 ∧ vectorDot c w = 0 ∧
    vectorCross w v = some (c.map (fun x => -x)) := by
  refine ⟨(vectorCross_orthogonal v w c hv hw h).1, (vectorCross_orthogonal v w c hv hw h).2, ?_⟩
  rw [vectorCross_anticomm v w hv hw, h]; rfl

theorem vectorCross_two (a0 a1 b0 b1 : K) : vectorCross [a0, a1] [b0, b1] = some [0, 0, a0 * b1 - a1 * b0] :=
  Lin.vectorCross_two a0 a1 b0 b1

theorem vectorCross_error (v w : List K) :
    vectorCross v w = none ↔ ¬(v.length = 2 ∨ v.length = 3) ∨ ¬(w.length = 2 ∨ w.length = 3) :=
  vectorCross_none v w

/-- the radicand of `vector_magnitude` is `v·v` (the square root itself is an input of the model) -/
theorem normSq_eq_dot (v : List K) : normSq v = vectorDot v v := Lin.normSq_eq_dot v

/-- `matrix_transpose`: entry `[i][j]` is `m[j][i]`, and transposing twice is the identity on
    rectangular matrices with at least one row and one column. -/
theorem matrixTranspose_spec (m : List (List K)) (c : ℕ) (hc : 0 < c) (hm : m ≠ [])
    (hrect : ∀ row ∈ m, row.length = c) :
    (∀ i j, i < (m.headD []).length → j < m.length → ent (matrixTranspose m) i j = ent m j i) ∧
    matrixTranspose (matrixTranspose m) = m :=
  ⟨fun i j hi hj => matrixTranspose_ent m i j hi hj, matrixTranspose_involutive m c hc hm hrect⟩

/-- `matrix_multiply` on an admissible input (`len(mat1[0]) = len(mat2)`, otherwise "Column - row size
    mismatch"; every entry the loops read exists) is the matrix product (entrywise sums, and as Mathlib
    `Matrix` product). -/
theorem matrixMultiply_eq (a b : List (List K)) (hok : matrixMultiplyOk a b = true) :
    (∀ i j, i < a.length → j < (b.headD []).length →
      ent (matrixMultiply a b) i j = ∑ k ∈ range b.length, ent a i k * ent b k j) ∧
    toMat a.length (b.headD []).length (matrixMultiply a b)
      = toMat a.length b.length a * toMat b.length (b.headD []).length b := by
  refine ⟨fun i j hi hj => matrixMultiply_ent a b i j hi hj, ?_⟩
  ext i j
  simp only [toMat, Matrix.mul_apply]
  rw [matrixMultiply_ent a b i j i.2 j.2, Finset.sum_range]

/-- matrix–vector branch of `matrix_multiply` (same size test) -/
theorem matrixVector_eq (a : List (List K)) (v : List K) (hok : matrixVectorOk a v = true) (i : ℕ)
    (hi : i < a.length) :
    (matrixVector a v).getD i 0 = ∑ k ∈ range v.length, ent a i k * v.getD k 0 :=
  matrixVector_ent a v i hi

/-- `matrix_identity(n)` builds the identity matrix -/
theorem identity_eq_one (n : ℕ) : toMat n n (identity n : List (List K)) = 1 := by
  ext i j
  simp only [toMat, ent_identity n i j i.2 j.2, Matrix.one_apply, Fin.ext_iff]

/-- `binomial_coefficient(k, i)` is the binomial coefficient (also the Pascal-recursion `binom`
    used by the derivative models). -/
theorem binomialCoefficient_eq (k i : ℕ) :
    binomialCoefficient k i = Nat.choose k i ∧ binomialCoefficient k i = Geomdl.binom k i :=
  ⟨binomialCoefficient_eq_choose k i, binomialCoefficient_eq_binom k i⟩

/-- `linspace` (the `num > 1` branch): `num` values `start + i·(stop-start)/(num-1)`, the first is
    `start` and the last is `stop` exactly. -/
theorem linspace_spec [CharZero K] (a b : K) (n : ℕ) (hn : 2 ≤ n) :
    (Geomdl.linspaceCore a b n).length = n ∧
    (∀ i, i < n → (Geomdl.linspaceCore a b n).getD i 0 = a + (i : K) * (b - a) / ((n - 1 : ℕ) : K)) ∧
    (Geomdl.linspaceCore a b n).getD 0 0 = a ∧ (Geomdl.linspaceCore a b n).getD (n - 1) 0 = b :=
  ⟨linspaceCore_length a b n, fun i hi => linspaceCore_getD a b n i hi,
   linspaceCore_first a b n (by omega), linspaceCore_last a b n hn⟩
end helpers

/-! ### the guards are the tests of the correspondence check -/

/-- **The guard of the theorems is the test the driver performs** – a DEFINITIONAL identity (`rfl` per constructor):
    `Drv.opOk` (`Driver/Linalg.lean`, ops `la.op`, `la.hist`: the driver answers `ERR` when it fails) is the expression
    `admissible` written out a second time.  It ties the hypotheses of the theorems to the driver; it says nothing about
    Python – that the real routines raise only where the guard fails is what the correspondence streams and the
    small-shape enumeration check (the guard is sufficient, not necessary, see below).  Covers `la.op` / `la.hist`
    only; the handlers `la.mmul`, `la.mvec` call `matrixMultiplyOk` / `matrixVectorOk` directly. -/
theorem driver_guard (op : Op Rat) : Drv.opOk op = admissible op := by
  cases op <;> rfl

/-- **The guards are sufficient, not necessary** (closed witness checks): four shapes on which the guard is `false`
    while the real routine returns and the model returns the same value – `lu_factor` with a right-hand side whose
    later row is longer (`luFactorOk` asks for a rectangular `b`, `luSolveOk` only for rows at least as long as the
    first), right-hand sides without columns (`lu_solve([[1]], [[],[]]) = [[],[]]`, `matrix_multiply([[1],[]], [[]]) =
    [[],[]]`), and `matrix_pivot([[5],[1,2]])` (only `lu_decomposition` tests squareness).  On such inputs the driver
    answers `ERR`; the generators do not produce them and no theorem speaks about them. -/
theorem guards_sufficient_not_necessary :
    (luFactorOk ([[10,1],[1,10]] : List (List Rat)) [[1],[2,3]] = false ∧
      luFactor ([[10,1],[1,10]] : List (List Rat)) [[1],[2,3]] = some [[8/99],[19/99]]) ∧
    (luSolveOk ([[1]] : List (List Rat)) [[],[]] = false ∧ luSolve ([[1]] : List (List Rat)) [[],[]] = some [[],[]]) ∧
    (matrixMultiplyOk ([[1],[]] : List (List Rat)) [[]] = false ∧
      matrixMultiply ([[1],[]] : List (List Rat)) [[]] = [[],[]]) ∧
    (admissible (.pivot [[5],[1,2]] : Op Rat) = false ∧
      (matrixPivot ([[5],[1,2]] : List (List Rat))).mp = [[5],[1,2]]) := by
  decide +kernel

/-- unfolding lemma: what the guards say in plain terms - `A` has `len(A)` rows of `len(A)` entries, `b` is
    non-empty, has at most `len(A)` rows, each at least as long as the first -/
theorem luSolveOk_iff {K : Type} (A b : List (List K)) :
    luSolveOk A b = true ↔
      (∀ r ∈ A, r.length = A.length) ∧ 0 < b.length ∧ b.length ≤ A.length ∧ ∀ r ∈ b, (b.headD []).length ≤ r.length :=
  Lin.luSolveOk_iff A b

/-- witness: the audit's counterexamples are rejected by the guard (a 2×3 "matrix", a ragged matrix, a ragged
    right-hand side), while the model functions would return a padded answer on them; the driver's test fails
    (it then answers `ERR`) -/
theorem guard_rejects_nonsquare :
    luSolveOk ([[1,0,5],[0,1,7]] : List (List Rat)) [[1],[2]] = false ∧
    luSolve ([[1,0,5],[0,1,7]] : List (List Rat)) [[1],[2]] = some [[1],[2]] ∧
    luSolveOk ([[2,1],[3]] : List (List Rat)) [[1],[2]] = false ∧
    luSolveOk ([[1,0],[0,1]] : List (List Rat)) [[1,9],[2]] = false ∧
    matrixInverseOk ([[1,0,5],[0,1,7]] : List (List Rat)) = false ∧
    Drv.opOk (.luSolve ([[1,0,5],[0,1,7]] : List (List Rat)) [[1],[2]]) = false := by
  decide +kernel

/-! ### the pinned tree violates the property (replayed on the implementation by the harness) -/

/-- F-16a: on the pinned tree the call `matrix_pivot([[0,1],[1,0]])` leaves the memoised
    "identity" of size 2 as the exchange matrix …
    (Closed witness check: a statement about this one concrete input, decided by evaluation.) -/
theorem pinned_refutes_history_independence :
    (runWith stepPinned ([] : Cache Rat) [.pivot [[0,1],[1,0]], .identity 2]).getD 1 none = some [[[0,1],[1,0]]] ∧
    runWith stepPinned ([] : Cache Rat) [.pivot [[0,1],[1,0]], .identity 2]
      ≠ [pureOut (.pivot [[0,1],[1,0]]), pureOut (.identity 2)] :=
  ⟨pinned_identity_second, pinned_identity_mutated⟩

/-- … so that `matrix_inverse(diag(2,4))` afterwards returns an anti-diagonal matrix instead of
    `diag(1/2,1/4)` (which the repaired model returns in the same history).
    (Closed witness check: a statement about this one concrete input, decided by evaluation.) -/
theorem pinned_refutes_inverse :
    (runWith stepPinned ([] : Cache Rat) [.pivot [[0,1],[1,0]], .inverse [[2,0],[0,4]]]).getD 1 none
      = some [[[0, 1/2],[1/4, 0]]] ∧
    pureOut (.inverse [[2,0],[0,4]] : Op Rat) = some [[[1/2,0],[0,1/4]]] ∧
    (runWith stepC ([] : Cache Rat) [.pivot [[0,1],[1,0]], .inverse [[2,0],[0,4]]]).getD 1 none
      = some [[[1/2,0],[0,1/4]]] :=
  ⟨pinned_inverse_wrong, pure_inverse_diag, repaired_inverse_right⟩

/-- F-16c: the pinned `lu_factor` (right-hand side not permuted) returns `x` with `A·x ≠ b`:
    `[[0,1],[1,0]]·x = [1,2]` has the solution `[2,1]`, the pinned code returns `[1,2]`; likewise for
    `[[1,2],[3,4]]`, `b = [5,6]`.
    (Closed witness check: a statement about this one concrete input, decided by evaluation.) -/
theorem pinned_refutes_luFactor :
    luFactorPinned ([[0,1],[1,0]] : List (List Rat)) [[1],[2]] = some [[1],[2]] ∧
    luFactor ([[0,1],[1,0]] : List (List Rat)) [[1],[2]] = some [[2],[1]] ∧
    luFactorPinned ([[1,2],[3,4]] : List (List Rat)) [[5],[6]] = some [[-7],[13/2]] ∧
    luFactor ([[1,2],[3,4]] : List (List Rat)) [[5],[6]] = some [[-4],[9/2]] :=
  ⟨luFactorPinned_wrong, luFactor_witness, luFactorPinned_wrong2, luFactor_witness2⟩

/-- F-16b (recorded, open): `matrix_determinant([[1,1,0],[1,1,1],[0,1,1]])` is `0`, the determinant
    is `-1` (Laplace expansion and `Matrix.det`).
    (Closed witness check: a statement about this one concrete input, decided by evaluation.) -/
theorem determinant_refutes_F16b :
    matrixDeterminant ([[1,1,0],[1,1,1],[0,1,1]] : List (List Rat)) = 0 ∧
    detLaplace 3 ([[1,1,0],[1,1,1],[0,1,1]] : List (List Rat)) = -1 ∧
    (toMat 3 3 ([[1,1,0],[1,1,1],[0,1,1]] : List (List ℚ))).det = -1 := by
  refine ⟨matrixDeterminant_wrong, detLaplace_witness, ?_⟩
  rw [Matrix.det_fin_three]
  simp [toMat, ent]

/-! ### non-vacuity: the hypotheses are met by concrete non-trivial inputs -/

/-- the guards hold on the inputs used below -/
example : luSolveOk ([[2,1],[1,3]] : List (List Rat)) [[3],[5]] = true ∧
    luFactorOk ([[0,2],[3,4]] : List (List Rat)) [[2],[7]] = true ∧
    matrixInverseOk ([[0,1],[1,0]] : List (List Rat)) = true ∧
    isSquare ([[0,2],[3,4]] : List (List Rat)) = true ∧
    matrixMultiplyOk ([[1,2,3],[4,5,6]] : List (List Rat)) [[1,0],[0,1],[2,2]] = true ∧
    matrixVectorOk ([[1,2,3],[4,5,6]] : List (List Rat)) [1,0,2] = true ∧
    admissible (.luFactor [[0,2],[3,4]] [[2],[7]] : Op Rat) = true := by decide +kernel
/-- the guarded theorems apply: `lu_solve` on a strictly diagonally dominant 2×2 matrix -/
example : ∃ x, luSolve ([[2,1],[1,3]] : List (List Rat)) [[3],[5]] = some x :=
  luSolve_returns _ _ (by decide +kernel) rfl (by decide +kernel)
/-- `lu_solve` returns on a 2×2 system with rational solution -/
example : luSolve ([[2,1],[1,3]] : List (List Rat)) [[3],[5]] = some [[4/5],[7/5]] := by decide +kernel
/-- `lu_factor` / `matrix_inverse` return on a matrix that needs a row exchange -/
example : luFactor ([[0,2],[3,4]] : List (List Rat)) [[2],[7]] = some [[1],[1]] := by decide +kernel
example : matrixInverse ([[0,1],[1,0]] : List (List Rat)) = some [[0,1],[1,0]] := by decide +kernel
/-- the determinant hypothesis (no zero pivot after pivoting) holds for a matrix with a row exchange -/
example : ∀ j, j < 2 → (doolittle (ent (matrixPivot ([[0,2],[3,4]] : List (List Rat))).mp) 2).U j j ≠ 0 := by
  decide +kernel
example : matrixDeterminant ([[0,2],[3,4]] : List (List Rat)) = -6 := by decide +kernel
/-- a strictly diagonally dominant matrix -/
example : SDD (ent ([[3,1,-1],[1,-4,2],[0,1,2]] : List (List ℚ))) 3 := by
  intro i hi
  have : i = 0 ∨ i = 1 ∨ i = 2 := by omega
  rcases this with rfl | rfl | rfl <;>
    norm_num [Finset.sum_filter, Finset.sum_range_succ, ent]
/-- a cache satisfying the invariant -/
example : CacheOk ([] : Cache Rat) := cacheOk_nil

end C16
