import NurbsVerif.Lemmas.LinalgSolve
import NurbsVerif.Lemmas.LinalgPivot
import NurbsVerif.Lemmas.LinalgMatrix
import NurbsVerif.Lemmas.LinalgHelpers
import NurbsVerif.Lemmas.LinalgCache
import NurbsVerif.Lemmas.LinalgSDD
import NurbsVerif.Lemmas.LinalgGuards
import NurbsVerif.Lemmas.PivotMax
import NurbsVerif.Lemmas.PivotDet
import NurbsVerif.Lemmas.LUMinors
import NurbsVerif.Lemmas.LUMinorsSDD
import NurbsVerif.Lemmas.LUCollocOne
import NurbsVerif.Driver.Linalg

/-!
# C16  Linear-algebra routines satisfy their defining equations on every call

Property theorems only (helper lemmas live in `Lemmas/Linalg*.lean`, `Lemmas/LU.lean`).  `K` is any
(linearly ordered) field - ℚ, hence every finite double, and ℝ.  Matrices are lists of rows as in
Python; `ent A i j` is `A[i][j]`, `toMat r c A` the same entries as a Mathlib `Matrix`.  The model
functions (`Model/Linalg.lean`, `Model/LU.lean`) are the ones the correspondence check runs against
`linalg.lu_solve / lu_factor / matrix_inverse / matrix_determinant / matrix_pivot` and the helpers.
A Python exception (`ZeroDivisionError`) is `none`; "returns a result" is `= some x`.

**Guards.**  The list-level model functions pad missing entries with `0` and have no shape test, whereas
`lu_decomposition` raises `ValueError` on a non-square matrix, a ragged matrix / right-hand side raises
`IndexError`, `matrix_multiply` raises on a size mismatch, and `matrix_pivot` exchanges only the first `n`
entries of a row.  Every theorem about a list-level routine therefore carries the decidable guard of
`Model/Linalg.lean` under which the implementation gets past these checks (`isSquare`, `luSolveOk`,
`luFactorOk`, `matrixInverseOk`, `matrixMultiplyOk`, `matrixVectorOk`, `admissible` for a call of a history);
nothing is claimed about inputs outside the guards.  The guards are SUFFICIENT (never too weak: whenever a guard holds,
the real routine raises only on a zero pivot – enumerated against the real code on all shapes with ≤ 3 rows of
length ≤ 3), NOT necessary: on a few degenerate shapes the guard fails although the code returns – and the model
returns the same value – see `guards_sufficient_not_necessary`.  The proofs do not use the guards (the padded model
happens to satisfy the equations anyway); they restrict the CLAIM to the inputs on which model and code
are compared.  `driver_guard` records that the test after which the driver answers `ERR` in the correspondence
check is the same expression (a definitional identity of two written-out copies; it says nothing about Python).  The function-level theorems (`doolittle_*`, the substitutions) are about
`ℕ → ℕ → K` entry functions and need no guard.

The model mirrors the *repaired* code for F-16a (pivoting works on a copy of the memoised identity)
and F-16c (`lu_factor` solves with `P·b`); the pinned behaviour is refuted on concrete witnesses
below.  F-16b (`matrix_determinant` after a zero pivot) is recorded, not repaired: the model mirrors
the pinned code and the determinant theorem excludes exactly that region (`…_partial`).
-/
namespace C16
open Lin Finset

section field
variable {K : Type} [Field K] [DecidableEq K]

/-- Doolittle's method (`_linalg.doolittle`, any size `n`): whenever no pivot `U j j` vanishes,
    `L·U = A`. -/
theorem doolittle_LU (A : ℕ → ℕ → K) (n : ℕ) (hpiv : ∀ j, j < n → (doolittle A n).U j j ≠ 0)
    (i k : ℕ) (hi : i < n) (hk : k < n) :
    ∑ j ∈ range n, (doolittle A n).L i j * (doolittle A n).U j k = A i k :=
  Lin.doolittle_LU A n hpiv i k hi hk

/-- … with `L` unit lower triangular and `U` upper triangular. -/
theorem doolittle_triangular (A : ℕ → ℕ → K) (n i j : ℕ) (hi : i < n) (hj : j < n) :
    (doolittle A n).L i i = 1 ∧ (i < j → (doolittle A n).L i j = 0) ∧ (j < i → (doolittle A n).U i j = 0) :=
  ⟨doolittle_L_diag A n i hi, doolittle_L_upper_zero A n i j hi hj, doolittle_U_lower_zero A n i j hi hj⟩

/-- `forward_substitution` returns only if the diagonal has no zero, and then solves the lower
    triangular system row by row: `∑_{j<i} L i j · y j + L i i · y i = b i`. -/
theorem forwardSubstitution_solves (L : ℕ → ℕ → K) (b : ℕ → K) (m : ℕ) (y : List K)
    (h : fwdSub L b m = some y) :
    y.length = m ∧ (∀ i, i < m → L i i ≠ 0) ∧
    ∀ i, i < m → ∑ j ∈ range i, L i j * y.getD j 0 + L i i * y.getD i 0 = b i :=
  fwdSub_spec L b m y h

/-- `backward_substitution` returns only if the diagonal has no zero (a zero pivot makes it raise),
    and then solves the upper triangular system: `∑_{t ≤ j < q} U t j · x j = y t`. -/
theorem backwardSubstitution_solves (U : ℕ → ℕ → K) (y : ℕ → K) (q : ℕ) (x : List K)
    (h : bwdSub U y q = some x) :
    x.length = q ∧ ∀ t, t < q → U t t ≠ 0 ∧ ∑ j ∈ Ico t q, U t j * x.getD j 0 = y t :=
  bwdSub_spec U y q x h

/-- **`lu_solve` on an admissible input (`A` square, `b` a table of `len(A)` full rows): whenever a result is
    returned it satisfies `A·x = b`** (every size, every number of right-hand sides), and a result is
    returned only if no Doolittle pivot vanishes. -/
theorem luSolve_correct (A b x : List (List K)) (hok : luSolveOk A b = true) (hb : b.length = A.length)
    (h : luSolve A b = some x) :
    x.length = A.length ∧
    (0 < (b.headD []).length → ∀ j, j < A.length → (doolittle (ent A) A.length).U j j ≠ 0) ∧
    ∀ i, i < A.length → ∀ c, c < (b.headD []).length →
      ∑ j ∈ range A.length, ent A i j * ent x j c = ent b i c :=
  Lin.luSolve_correct A b x hb h

/-- the same with Mathlib's matrix product -/
theorem luSolve_correct_matrix (A b x : List (List K)) (hok : luSolveOk A b = true) (hb : b.length = A.length)
    (h : luSolve A b = some x) :
    toMat A.length A.length A * toMat A.length (b.headD []).length x = toMat A.length (b.headD []).length b :=
  toMat_mul_of_sums A x b _ _ (Lin.luSolve_correct A b x hb h).2.2

/-- `lu_solve` does return a result when the input is admissible (`A` square, `b` with `len(A)` full rows) and
    no Doolittle pivot vanishes. -/
theorem luSolve_returns (A b : List (List K)) (hok : luSolveOk A b = true) (hb : b.length = A.length)
    (hpiv : ∀ j, j < A.length → (doolittle (ent A) A.length).U j j ≠ 0) : ∃ x, luSolve A b = some x :=
  luSolve_isSome A b hb hpiv
end field

section ordered
variable {K : Type} [Field K] [LinearOrder K]

/-- **The plain LU solver always returns a result for strictly (row) diagonally dominant SQUARE matrices**
    (and a right-hand side of `len(A)` full rows), and the result solves the system. -/
theorem luSolve_sdd [IsStrictOrderedRing K] (A b : List (List K)) (hok : luSolveOk A b = true)
    (hb : b.length = A.length)
    (hsdd : SDD (ent A) A.length) :
    ∃ x, luSolve A b = some x ∧
      toMat A.length A.length A * toMat A.length (b.headD []).length x = toMat A.length (b.headD []).length b := by
  obtain ⟨x, hx⟩ := luSolve_isSome A b hb (sdd_pivots_ne_zero (ent A) A.length hsdd)
  exact ⟨x, hx, toMat_mul_of_sums A x b _ _ (Lin.luSolve_correct A b x hb hx).2.2⟩

/-- **`matrix_pivot` (square input) returns a genuine permutation**: one permutation `σ` of `0..n-1` such that the
    returned matrix is the input with rows `σ 0, σ 1, …` and `P` is the identity with the same rows. -/
theorem matrixPivot_permutation (m : List (List K)) (hsq : isSquare m = true) :
    ∃ σ : List ℕ, σ.Perm (List.range m.length) ∧
      (matrixPivot m).mp = σ.map (fun i => m.getD i []) ∧
      (matrixPivot m).p = σ.map (fun i => (identity m.length : List (List K)).getD i []) :=
  matrixPivot_spec m

/-- the returned rows are a permutation of the input rows, `P`'s rows the same permutation of the
    identity rows (`List.Perm` of the zipped pairs) -/
theorem matrixPivot_rows_perm (m : List (List K)) (hsq : isSquare m = true) :
    (matrixPivot m).mp.Perm m ∧
    ((matrixPivot m).mp.zip (matrixPivot m).p).Perm (m.zip (identity m.length)) :=
  ⟨Lin.matrixPivot_rows_perm m, matrixPivot_zip_perm m⟩

/-- in Mathlib terms: `P` is the permutation matrix of some `τ`, the returned matrix is the input
    with rows permuted by `τ`, and it equals the product `P·A`. -/
theorem matrixPivot_permutation_matrix (m : List (List K)) (hsq : isSquare m = true) :
    (∃ τ : Equiv.Perm (Fin m.length),
      toMat m.length m.length (matrixPivot m).p = (1 : Matrix (Fin m.length) (Fin m.length) K).submatrix τ id ∧
      toMat m.length m.length (matrixPivot m).mp = (toMat m.length m.length m).submatrix τ id) ∧
    toMat m.length m.length (matrixPivot m).mp
      = toMat m.length m.length (matrixPivot m).p * toMat m.length m.length m :=
  ⟨matrixPivot_equiv m, matrixPivot_toMat_mul m⟩

/-- **`lu_factor` (right-hand side permuted with `P`, i.e. F-16c repaired) on an admissible input (`A` square,
    `b` rectangular with `len(A)` rows): whenever a result is returned it satisfies `A·x = b`.** -/
theorem luFactor_correct (A b x : List (List K)) (hok : luFactorOk A b = true) (h : luFactor A b = some x) :
    x.length = A.length ∧
    toMat A.length A.length A * toMat A.length (b.headD []).length x = toMat A.length (b.headD []).length b :=
  have hb : b.length = A.length := luFactorOk_length A b hok
  ⟨(Lin.luFactor_correct A b x hb h).1, toMat_mul_of_sums A x b _ _ (Lin.luFactor_correct A b x hb h).2⟩

/-- **`matrix_inverse` of a (non-empty) square matrix: whenever a result is returned, `A·A⁻¹ = 1` and
    `A⁻¹·A = 1`** (in particular the input was non-singular). -/
theorem matrixInverse_correct (m X : List (List K)) (hok : matrixInverseOk m = true) (h : matrixInverse m = some X) :
    X.length = m.length ∧
    toMat m.length m.length m * toMat m.length m.length X = 1 ∧
    toMat m.length m.length X * toMat m.length m.length m = 1 :=
  ⟨(Lin.matrixInverse_correct m X h).1, matrixInverse_matrix m X h⟩

/-- **`matrix_determinant` of a square matrix equals the (Leibniz) determinant `Matrix.det`** - PARTIAL: under the
    hypothesis that Doolittle on the row-permuted matrix meets no zero pivot.  The hypothesis cannot
    be dropped for the code as it is: without it the routine still returns a number (`0`), which is
    wrong for the non-singular F-16b witness below.  Missing for the full property: real partial
    pivoting in the code (then the hypothesis follows from non-singularity).  The exact region on which the
    routine is right is characterised below (`matrixDeterminant_eq_det_iff`, `…_iff_minors`, `…_le_two`, `…_three`). -/
theorem matrixDeterminant_eq_det_partial (m : List (List K)) (hsq : isSquare m = true)
    (hpiv : ∀ j, j < m.length → (doolittle (ent (matrixPivot m).mp) m.length).U j j ≠ 0) :
    matrixDeterminant m = (toMat m.length m.length m).det :=
  matrixDeterminant_eq_det m hpiv

/-- the sign returned by `matrix_pivot(m, sign=True)` is the determinant factor of the row
    exchanges: `det (P·A) = sign · det A` -/
theorem matrixPivot_sign (m : List (List K)) (hsq : isSquare m = true) :
    (toMat m.length m.length (matrixPivot m).mp).det
      = pivotSign (matrixPivot m) * (toMat m.length m.length m).det := by
  rw [matrixPivot_det, pivotSign, ← Lin.neg_one_pow_eq_ite]
end ordered

/-! ### what the pivoting loop guarantees; zero pivots and leading principal minors; when the determinant is right -/
section minors
variable {K : Type} [Field K] [DecidableEq K]

/-- **Doolittle (no pivoting) meets no zero pivot iff every leading principal minor is non-zero** (any size; the
    minor of size `k` is the determinant of the rows and columns `0 … k-1`). -/
theorem doolittle_pivots_iff_minors (A : ℕ → ℕ → K) (n : ℕ) :
    (∀ j, j < n → (doolittle A n).U j j ≠ 0) ↔
      ∀ k, 1 ≤ k → k ≤ n → (Matrix.of fun (i j : Fin k) => A i j).det ≠ 0 :=
  Lin.pivots_ne_zero_iff_minors A n

/-- … more precisely the leading principal minor of size `m` is the product of the first `m` pivots as soon as the
    first `m - 1` pivots do not vanish, so each pivot is the quotient of two consecutive minors. -/
theorem doolittle_minor_eq_prod_pivots (A : ℕ → ℕ → K) (n m : ℕ) (hm : m ≤ n)
    (hp : ∀ t, t + 1 < m → (doolittle A n).U t t ≠ 0) :
    (Matrix.of fun (i j : Fin m) => A i j).det = ∏ t ∈ range m, (doolittle A n).U t t :=
  Lin.leadMinor_eq_prod A n m hm hp

/-- **`lu_solve` returns (and solves) whenever all leading principal minors of the square matrix are non-zero** – the
    explicit form of the hypothesis under which the plain solver works; non-singularity alone is not enough
    (`[[0,1],[1,0]]`, see the example below). -/
theorem luSolve_returns_of_minors (A b : List (List K)) (hok : luSolveOk A b = true) (hb : b.length = A.length)
    (hmin : ∀ k, 1 ≤ k → k ≤ A.length → (toMat k k A).det ≠ 0) :
    ∃ x, luSolve A b = some x ∧
      toMat A.length A.length A * toMat A.length (b.headD []).length x = toMat A.length (b.headD []).length b := by
  obtain ⟨x, hx⟩ := luSolve_isSome A b hb (Lin.pivots_ne_zero_of_minors (ent A) A.length hmin)
  exact ⟨x, hx, toMat_mul_of_sums A x b _ _ (Lin.luSolve_correct A b x hb hx).2.2⟩

/-- … and conversely, when `lu_solve` returns (for a right-hand side with at least one column) every leading principal
    minor is non-zero. -/
theorem luSolve_returns_only_if_minors (A b x : List (List K)) (hok : luSolveOk A b = true) (hb : b.length = A.length)
    (hd : 0 < (b.headD []).length) (h : luSolve A b = some x) :
    ∀ k, k ≤ A.length → (toMat k k A).det ≠ 0 :=
  Lin.minors_ne_zero_of_pivots (ent A) A.length ((Lin.luSolve_correct A b x hb h).2.1 hd)

end minors

section pivoting
variable {K : Type} [Field K] [LinearOrder K]

/-- **max-pivot property of `matrix_pivot`** (square input): in the RETURNED matrix every diagonal entry has the largest
    absolute value among the entries of its column on and below the diagonal, `|mp[i][j]| ≤ |mp[j][j]|` for `i ≥ j`.
    This is exactly what the loop guarantees: for column `j` it takes the first row of maximal `|mp[i][j]|`, `i ≥ j`, in
    the partially permuted INPUT matrix (later exchanges only move rows below `j`); nothing is eliminated in between, so
    it is not the partial pivoting of Gaussian elimination and does not prevent a zero Doolittle pivot (F-16b, next
    theorem). -/
theorem matrixPivot_max_pivot [IsStrictOrderedRing K] (m : List (List K)) (hsq : isSquare m = true) (j i : ℕ)
    (hji : j ≤ i) (hi : i < m.length) :
    |ent (matrixPivot m).mp i j| ≤ |ent (matrixPivot m).mp j j| :=
  Lin.matrixPivot_max m j i hji hi

/-- the inner loop: the row chosen for column `j` lies in `[j, n)` and carries a maximal `|mp[i][j]|`, `i ≥ j` -/
theorem argMaxAbs_is_max [IsStrictOrderedRing K] (mp : List (List K)) (j n : ℕ) (hj : j < n) :
    j ≤ argMaxAbs mp j n ∧ argMaxAbs mp j n < n ∧
    ∀ i, j ≤ i → i < n → |ent mp i j| ≤ |ent mp (argMaxAbs mp j n) j| :=
  Lin.argMaxAbs_spec mp j n hj

/-- **the sign returned by `matrix_pivot(m, sign=True)` is `det P`** of the returned permutation matrix; together with
    `mp = P·m` (`matrixPivot_permutation_matrix`) this gives `det mp = sign · det m` (`matrixPivot_sign`), which is what
    `matrix_determinant = sign · ∏ U[i][i]` relies on. -/
theorem matrixPivot_sign_eq_det_P (m : List (List K)) (hsq : isSquare m = true) :
    pivotSign (matrixPivot m) = (toMat m.length m.length (matrixPivot m).p).det :=
  Lin.matrixPivot_sign_eq_det_p m

/-- **`matrix_determinant` of a square matrix is the determinant iff Doolittle on the row-permuted matrix meets no zero
    pivot or the matrix is singular**: after a zero pivot the routine multiplies the diagonal all the same and returns
    `0`. -/
theorem matrixDeterminant_eq_det_iff (m : List (List K)) (hsq : isSquare m = true) :
    matrixDeterminant m = (toMat m.length m.length m).det ↔
      (∀ j, j < m.length → (doolittle (ent (matrixPivot m).mp) m.length).U j j ≠ 0) ∨
      (toMat m.length m.length m).det = 0 :=
  Lin.matrixDeterminant_eq_det_iff m

/-- **all leading principal minors of the row-permuted matrix `P·m` non-zero ⇒ no zero pivot ⇒ `matrix_determinant` is
    the determinant.** -/
theorem matrixDeterminant_eq_det_of_minors (m : List (List K)) (hsq : isSquare m = true)
    (h : ∀ k, 1 ≤ k → k ≤ m.length → (toMat k k (matrixPivot m).mp).det ≠ 0) :
    matrixDeterminant m = (toMat m.length m.length m).det :=
  Lin.matrixDeterminant_eq_det_of_minors m h

/-- **Complete characterisation (every size): `matrix_determinant m = det m` iff `m` is singular or no leading
    principal minor of `P·m` of a size `2 … n-1` vanishes.**  (The minors of size `1` and `n` of `P·m` cannot vanish for a
    non-singular `m`: the first by the max-pivot property, the last is `± det m`.)  So the routine is wrong exactly on
    the non-singular matrices whose pivoted form has a vanishing inner leading minor – the F-16b region. -/
theorem matrixDeterminant_eq_det_iff_minors [IsStrictOrderedRing K] (m : List (List K)) (hsq : isSquare m = true) :
    matrixDeterminant m = (toMat m.length m.length m).det ↔
      (toMat m.length m.length m).det = 0 ∨
      ∀ k, 2 ≤ k → k < m.length → (toMat k k (matrixPivot m).mp).det ≠ 0 :=
  Lin.matrixDeterminant_eq_det_iff_minors m

/-- **sizes 1 and 2: `matrix_determinant` is the determinant, no hypothesis.** -/
theorem matrixDeterminant_eq_det_le_two [IsStrictOrderedRing K] (m : List (List K)) (hsq : isSquare m = true)
    (hn : m.length ≤ 2) : matrixDeterminant m = (toMat m.length m.length m).det :=
  Lin.matrixDeterminant_eq_det_le_two m hn

/-- **size 3: `matrix_determinant` is the determinant iff the matrix is singular or the leading 2 × 2 minor of the
    row-permuted matrix is non-zero.** -/
theorem matrixDeterminant_eq_det_three [IsStrictOrderedRing K] (m : List (List K)) (hsq : isSquare m = true)
    (hn : m.length = 3) :
    matrixDeterminant m = (toMat m.length m.length m).det ↔
      (toMat m.length m.length m).det = 0 ∨
      ent (matrixPivot m).mp 0 0 * ent (matrixPivot m).mp 1 1
        - ent (matrixPivot m).mp 0 1 * ent (matrixPivot m).mp 1 0 ≠ 0 :=
  Lin.matrixDeterminant_eq_det_three m hn

/-- **The plain LU solver always returns a result for strictly COLUMN diagonally dominant square matrices** as well
    (the property text says "strictly diagonally dominant"; `luSolve_sdd` is the row version, this is the column
    version: the pivots of `A` and of `Aᵀ` vanish together because the leading principal minors are the same). -/
theorem luSolve_sdd_col [IsStrictOrderedRing K] (A b : List (List K)) (hok : luSolveOk A b = true)
    (hb : b.length = A.length) (hsdd : SDDcol (ent A) A.length) :
    ∃ x, luSolve A b = some x ∧
      toMat A.length A.length A * toMat A.length (b.headD []).length x = toMat A.length (b.headD []).length b := by
  obtain ⟨x, hx⟩ := luSolve_isSome A b hb (sddCol_pivots_ne_zero (ent A) A.length hsdd)
  exact ⟨x, hx, toMat_mul_of_sums A x b _ _ (Lin.luSolve_correct A b x hb hx).2.2⟩

/-- the two dominance hypotheses written out (`SDD`, `SDDcol` are abbreviations of these sums) -/
theorem sdd_unfold [IsStrictOrderedRing K] (A : ℕ → ℕ → K) (n : ℕ) :
    (SDD A n ↔ ∀ i, i < n → ∑ j ∈ (range n).filter (· ≠ i), |A i j| < |A i i|) ∧
    (SDDcol A n ↔ ∀ j, j < n → ∑ i ∈ (range n).filter (· ≠ j), |A i j| < |A j j|) :=
  ⟨Iff.rfl, Iff.rfl⟩

/-- Levy–Desplanques for the leading blocks: every leading principal minor of a strictly (row) diagonally dominant
    matrix is non-zero (the Schur-complement argument: dominance survives an elimination step). -/
theorem sdd_minors_ne_zero [IsStrictOrderedRing K] (A : List (List K)) (hsdd : SDD (ent A) A.length) (k : ℕ)
    (hk : k ≤ A.length) : (toMat k k A).det ≠ 0 :=
  Lin.sdd_minors_ne_zero (ent A) A.length hsdd k hk

/-! ### spline collocation matrices -/

/-- **Spline collocation matrices, general degree: the hypothesis stated explicitly.**  `lu_solve` returns the control
    points of `interpolate_curve` iff (one direction shown) the leading principal minors of the collocation matrix
    `_build_coeff_matrix` builds are non-zero.  That they are for strictly increasing parameters and the averaged knot
    vector (total positivity of B-spline collocation matrices + Schoenberg–Whitney) is NOT proved here; it is proved for
    degree 1 below and checked by the oracle on the generated interpolation problems. -/
theorem collocation_luSolve_returns_of_minors (p : ℕ) (U : ℕ → K) (uk : List K) (pts : List (List K))
    (hok : luSolveOk (Geomdl.buildCoeffMatrix p U uk pts.length) pts = true) (hn : uk.length = pts.length)
    (hmin : ∀ k, 1 ≤ k → k ≤ pts.length → (toMat k k (Geomdl.buildCoeffMatrix p U uk pts.length)).det ≠ 0) :
    ∃ cp, luSolve (Geomdl.buildCoeffMatrix p U uk pts.length) pts = some cp := by
  have hl : (Geomdl.buildCoeffMatrix p U uk pts.length).length = pts.length := by simp [Geomdl.buildCoeffMatrix, hn]
  exact luSolve_isSome _ pts hl.symm (Lin.pivots_ne_zero_of_minors _ _ (by rw [hl]; exact hmin))

/-- **Degree 1: the collocation matrix `_build_coeff_matrix` builds for `interpolate_curve` is the identity matrix**
    (chord-length parameters of data whose consecutive points are distinct, averaged knot vector with `1.0/degree = 1`:
    every parameter is a knot, the hat functions are `1` at their own node and `0` at the others). -/
theorem collocation_degree_one_identity [IsStrictOrderedRing K] (cds : List K) (hne : 1 ≤ cds.length)
    (hpos : ∀ x ∈ cds, 0 < x) :
    Geomdl.buildCoeffMatrix 1 (Geomdl.fnOf (Geomdl.computeKnotVector 1 (cds.length + 1) (Geomdl.computeParams cds) 1))
      (Geomdl.computeParams cds) (cds.length + 1) = identity (cds.length + 1) :=
  Geomdl.interpolateCurve_one_matrix cds hne hpos

/-- the same for each direction of `interpolate_surface` (parameters averaged over the data lines) -/
theorem collocation_degree_one_identity_surface [IsStrictOrderedRing K] (n : ℕ) (cdsList : List (List K)) (hn : 2 ≤ n)
    (hc : cdsList ≠ [] ∧ ∀ c ∈ cdsList, c.length + 1 = n ∧ ∀ x ∈ c, 0 < x) :
    Geomdl.buildCoeffMatrix 1 (Geomdl.fnOf (Geomdl.computeKnotVector 1 n (Geomdl.averageParams cdsList n) 1))
      (Geomdl.averageParams cdsList n) n = identity n :=
  Geomdl.interpolateSurface_one_matrix n cdsList hn hc

/-- `lu_solve` on the identity matrix returns the right-hand side (every size, every number of columns) -/
theorem luSolve_identity [IsStrictOrderedRing K] (n : ℕ) (b : List (List K)) (hb : b.length = n) :
    ∃ x, luSolve (identity n : List (List K)) b = some x ∧ x.length = n ∧
      ∀ i, i < n → ∀ c, c < (b.headD []).length → ent x i c = ent b i c :=
  Geomdl.luSolve_identity n b hb

/-- **The plain LU solver always returns a result for the spline collocation matrices of degree 1**:
    `interpolate_curve(points, 1)` on an admissible input (`InterpCurveOk`: in particular data points that all have the
    same number `≥ 2` of coordinates – on ragged or 1-D data the real routine raises before / after the solve) whose
    consecutive points are distinct returns, and the control points are the data points. -/
theorem interpolateCurve_degree_one_returns [IsStrictOrderedRing K] (pts : List (List K)) (cds : List K)
    (hg : Geomdl.InterpCurveOk 1 pts cds) (hpos : ∀ x ∈ cds, 0 < x) :
    ∃ cp, Geomdl.interpolateCurve 1 pts cds 1
        = some (Geomdl.computeKnotVector 1 pts.length (Geomdl.computeParams cds) 1, cp) ∧
      cp.length = pts.length ∧ ∀ i, i < pts.length → ∀ c, c < (pts.headD []).length → ent cp i c = ent pts i c :=
  Geomdl.interpolateCurve_one_returns pts cds hg hpos
end pivoting

/-- **The max-pivot property does not prevent a zero Doolittle pivot** (F-16b): `[[1,1,0],[1,1,1],[0,1,1]]` is returned
    unchanged by `matrix_pivot` (every diagonal entry is maximal in its column on and below the diagonal), its second
    Doolittle pivot is `0`, its leading 2 × 2 minor is `0`, its determinant is `-1`.
    (Closed witness check: a statement about this one concrete input, decided by evaluation.) -/
theorem maxPivot_does_not_prevent_zero_pivot :
    (matrixPivot ([[1,1,0],[1,1,1],[0,1,1]] : List (List Rat))).mp = [[1,1,0],[1,1,1],[0,1,1]] ∧
    (doolittle (ent ([[1,1,0],[1,1,1],[0,1,1]] : List (List Rat))) 3).U 1 1 = 0 ∧
    ent ([[1,1,0],[1,1,1],[0,1,1]] : List (List Rat)) 0 0 * ent ([[1,1,0],[1,1,1],[0,1,1]] : List (List Rat)) 1 1
      - ent ([[1,1,0],[1,1,1],[0,1,1]] : List (List Rat)) 0 1 * ent ([[1,1,0],[1,1,1],[0,1,1]] : List (List Rat)) 1 0 = 0 ∧
    detLaplace 3 ([[1,1,0],[1,1,1],[0,1,1]] : List (List Rat)) = -1 := by
  decide +kernel

/-! ### history independence (the memoised identity as explicit state) -/
section history
variable {K : Type} [Add K] [Sub K] [Mul K] [Div K] [Neg K] [Zero K] [One K] [NatCast K]
  [LT K] [LE K] [DecidableRel (α := K) (· < ·)] [DecidableRel (α := K) (· ≤ ·)] [DecidableEq K]

/-- **The answers do not depend on which routines were called before**: in every history of admissible calls
    (`matrix_identity`, `matrix_pivot`, `matrix_inverse`, `matrix_determinant`, `lu_solve`, `lu_factor`; each
    with an input the routine does not reject, `admissible`), started from any cache whose entries are identity
    matrices (in particular the empty one), every call returns what it returns as a function of its arguments
    alone.  (A rejected call in between can only call `matrix_identity`, which keeps the cache invariant,
    so the theorem applies again to the rest of the history: the start cache is arbitrary.) -/
theorem history_independent (c : Cache K) (ops : List (Op K)) (hadm : ∀ op ∈ ops, admissible op = true)
    (h : CacheOk c) :
    runWith stepC c ops = ops.map pureOut :=
  runWith_stepC c ops h

/-- … in particular the answer of a call is the same after any two histories. -/
theorem last_call_independent (c c' : Cache K) (pre pre' : List (Op K)) (op : Op K)
    (hadm : ∀ o ∈ pre ++ pre' ++ [op], admissible o = true) (h : CacheOk c) (h' : CacheOk c') :
    (runWith stepC c (pre ++ [op])).getLast? = (runWith stepC c' (pre' ++ [op])).getLast? :=
  runWith_stepC_last_indep c c' pre pre' op h h'

/-- the cache invariant behind it: entry `n` of the memoised `matrix_identity` always is `1ₙ` -/
theorem cache_invariant (c : Cache K) (op : Op K) (hadm : admissible op = true) (h : CacheOk c) :
    CacheOk (stepC c op).1 :=
  (stepC_ok c op h).2
end history

/-! ### helpers equal their definitions -/
section helpers
variable {K : Type} [Field K]

/-- `vector_dot` of two non-empty vectors (an empty one is a `ValueError`) is `∑ vᵢ wᵢ` over the common
    indices (`zip`) -/
theorem vectorDot_eq (v w : List K) (hv : v ≠ []) (hw : w ≠ []) :
    vectorDot v w = ∑ i ∈ range (min v.length w.length), v.getD i 0 * w.getD i 0 :=
  Lin.vectorDot_eq v w

/-- `vector_cross` is Mathlib's `crossProduct` … -/
theorem vectorCross_eq_crossProduct (a0 a1 a2 b0 b1 b2 : K) :
    vectorCross [a0, a1, a2] [b0, b1, b2]
      = some [(crossProduct ![a0, a1, a2] ![b0, b1, b2]) 0, (crossProduct ![a0, a1, a2] ![b0, b1, b2]) 1,
              (crossProduct ![a0, a1, a2] ![b0, b1, b2]) 2] :=
  Lin.vectorCross_eq_crossProduct a0 a1 a2 b0 b1 b2

/-- … orthogonal to both arguments, anti-commutative, with 2-D arguments padded by `0`, and an
    error exactly for lengths other than 2 or 3. -/
theorem vectorCross_props (v w c : List K) (hv : v.length = 3) (hw : w.length = 3)
    (h : vectorCross v w = some c) :
    vectorDot c v = 0 ∧ vectorDot c w = 0 ∧
    vectorCross w v = some (c.map (fun x => -x)) := by
  refine ⟨(vectorCross_orthogonal v w c hv hw h).1, (vectorCross_orthogonal v w c hv hw h).2, ?_⟩
  rw [vectorCross_anticomm v w hv hw, h]; rfl

theorem vectorCross_two (a0 a1 b0 b1 : K) : vectorCross [a0, a1] [b0, b1] = some [0, 0, a0 * b1 - a1 * b0] :=
  Lin.vectorCross_two a0 a1 b0 b1

theorem vectorCross_error (v w : List K) :
    vectorCross v w = none ↔ ¬(v.length = 2 ∨ v.length = 3) ∨ ¬(w.length = 2 ∨ w.length = 3) :=
  vectorCross_none v w

/-- the radicand of `vector_magnitude` is `v·v` (the square root itself is an input of the model) -/
theorem normSq_eq_dot (v : List K) : normSq v = vectorDot v v := Lin.normSq_eq_dot v

/-- `matrix_transpose`: entry `[i][j]` is `m[j][i]`, and transposing twice is the identity on
    rectangular matrices with at least one row and one column. -/
theorem matrixTranspose_spec (m : List (List K)) (c : ℕ) (hc : 0 < c) (hm : m ≠ [])
    (hrect : ∀ row ∈ m, row.length = c) :
    (∀ i j, i < (m.headD []).length → j < m.length → ent (matrixTranspose m) i j = ent m j i) ∧
    matrixTranspose (matrixTranspose m) = m :=
  ⟨fun i j hi hj => matrixTranspose_ent m i j hi hj, matrixTranspose_involutive m c hc hm hrect⟩

/-- `matrix_multiply` on an admissible input (`len(mat1[0]) = len(mat2)`, otherwise "Column - row size
    mismatch"; every entry the loops read exists) is the matrix product (entrywise sums, and as Mathlib
    `Matrix` product). -/
theorem matrixMultiply_eq (a b : List (List K)) (hok : matrixMultiplyOk a b = true) :
    (∀ i j, i < a.length → j < (b.headD []).length →
      ent (matrixMultiply a b) i j = ∑ k ∈ range b.length, ent a i k * ent b k j) ∧
    toMat a.length (b.headD []).length (matrixMultiply a b)
      = toMat a.length b.length a * toMat b.length (b.headD []).length b := by
  refine ⟨fun i j hi hj => matrixMultiply_ent a b i j hi hj, ?_⟩
  ext i j
  simp only [toMat, Matrix.mul_apply]
  rw [matrixMultiply_ent a b i j i.2 j.2, Finset.sum_range]

/-- matrix–vector branch of `matrix_multiply` (same size test) -/
theorem matrixVector_eq (a : List (List K)) (v : List K) (hok : matrixVectorOk a v = true) (i : ℕ)
    (hi : i < a.length) :
    (matrixVector a v).getD i 0 = ∑ k ∈ range v.length, ent a i k * v.getD k 0 :=
  matrixVector_ent a v i hi

/-- `matrix_identity(n)` builds the identity matrix -/
theorem identity_eq_one (n : ℕ) : toMat n n (identity n : List (List K)) = 1 := by
  ext i j
  simp only [toMat, ent_identity n i j i.2 j.2, Matrix.one_apply, Fin.ext_iff]

/-- `binomial_coefficient(k, i)` is the binomial coefficient (also the Pascal-recursion `binom`
    used by the derivative models). -/
theorem binomialCoefficient_eq (k i : ℕ) :
    binomialCoefficient k i = Nat.choose k i ∧ binomialCoefficient k i = Geomdl.binom k i :=
  ⟨binomialCoefficient_eq_choose k i, binomialCoefficient_eq_binom k i⟩

/-- `linspace` (the `num > 1` branch): `num` values `start + i·(stop-start)/(num-1)`, the first is
    `start` and the last is `stop` exactly. -/
theorem linspace_spec [CharZero K] (a b : K) (n : ℕ) (hn : 2 ≤ n) :
    (Geomdl.linspaceCore a b n).length = n ∧
    (∀ i, i < n → (Geomdl.linspaceCore a b n).getD i 0 = a + (i : K) * (b - a) / ((n - 1 : ℕ) : K)) ∧
    (Geomdl.linspaceCore a b n).getD 0 0 = a ∧ (Geomdl.linspaceCore a b n).getD (n - 1) 0 = b :=
  ⟨linspaceCore_length a b n, fun i hi => linspaceCore_getD a b n i hi,
   linspaceCore_first a b n (by omega), linspaceCore_last a b n hn⟩
end helpers

/-! ### the guards are the tests of the correspondence check -/

/-- **The guard of the theorems is the test the driver performs** – a DEFINITIONAL identity (`rfl` per constructor):
    `Drv.opOk` (`Driver/Linalg.lean`, ops `la.op`, `la.hist`: the driver answers `ERR` when it fails) is the expression
    `admissible` written out a second time.  It ties the hypotheses of the theorems to the driver; it says nothing about
    Python – that the real routines raise only where the guard fails is what the correspondence streams and the
    small-shape enumeration check (the guard is sufficient, not necessary, see below).  Covers `la.op` / `la.hist`
    only; the handlers `la.mmul`, `la.mvec` call `matrixMultiplyOk` / `matrixVectorOk` directly. -/
theorem driver_guard (op : Op Rat) : Drv.opOk op = admissible op := by
  cases op <;> rfl

/-- **The guards are sufficient, not necessary** (closed witness checks): four shapes on which the guard is `false`
    while the real routine returns and the model returns the same value – `lu_factor` with a right-hand side whose
    later row is longer (`luFactorOk` asks for a rectangular `b`, `luSolveOk` only for rows at least as long as the
    first), right-hand sides without columns (`lu_solve([[1]], [[],[]]) = [[],[]]`, `matrix_multiply([[1],[]], [[]]) =
    [[],[]]`), and `matrix_pivot([[5],[1,2]])` (only `lu_decomposition` tests squareness).  On such inputs the driver
    answers `ERR`; the generators do not produce them and no theorem speaks about them. -/
theorem guards_sufficient_not_necessary :
    (luFactorOk ([[10,1],[1,10]] : List (List Rat)) [[1],[2,3]] = false ∧
      luFactor ([[10,1],[1,10]] : List (List Rat)) [[1],[2,3]] = some [[8/99],[19/99]]) ∧
    (luSolveOk ([[1]] : List (List Rat)) [[],[]] = false ∧ luSolve ([[1]] : List (List Rat)) [[],[]] = some [[],[]]) ∧
    (matrixMultiplyOk ([[1],[]] : List (List Rat)) [[]] = false ∧
      matrixMultiply ([[1],[]] : List (List Rat)) [[]] = [[],[]]) ∧
    (admissible (.pivot [[5],[1,2]] : Op Rat) = false ∧
      (matrixPivot ([[5],[1,2]] : List (List Rat))).mp = [[5],[1,2]]) := by
  decide +kernel

/-- unfolding lemma: what the guards say in plain terms - `A` has `len(A)` rows of `len(A)` entries, `b` is
    non-empty, has at most `len(A)` rows, each at least as long as the first -/
theorem luSolveOk_iff {K : Type} (A b : List (List K)) :
    luSolveOk A b = true ↔
      (∀ r ∈ A, r.length = A.length) ∧ 0 < b.length ∧ b.length ≤ A.length ∧ ∀ r ∈ b, (b.headD []).length ≤ r.length :=
  Lin.luSolveOk_iff A b

/-- witness: the audit's counterexamples are rejected by the guard (a 2×3 "matrix", a ragged matrix, a ragged
    right-hand side), while the model functions would return a padded answer on them; the driver's test fails
    (it then answers `ERR`) -/
theorem guard_rejects_nonsquare :
    luSolveOk ([[1,0,5],[0,1,7]] : List (List Rat)) [[1],[2]] = false ∧
    luSolve ([[1,0,5],[0,1,7]] : List (List Rat)) [[1],[2]] = some [[1],[2]] ∧
    luSolveOk ([[2,1],[3]] : List (List Rat)) [[1],[2]] = false ∧
    luSolveOk ([[1,0],[0,1]] : List (List Rat)) [[1,9],[2]] = false ∧
    matrixInverseOk ([[1,0,5],[0,1,7]] : List (List Rat)) = false ∧
    Drv.opOk (.luSolve ([[1,0,5],[0,1,7]] : List (List Rat)) [[1],[2]]) = false := by
  decide +kernel

/-! ### the pinned tree violates the property (replayed on the implementation by the harness) -/

/-- F-16a: on the pinned tree the call `matrix_pivot([[0,1],[1,0]])` leaves the memoised
    "identity" of size 2 as the exchange matrix …
    (Closed witness check: a statement about this one concrete input, decided by evaluation.) -/
theorem pinned_refutes_history_independence :
    (runWith stepPinned ([] : Cache Rat) [.pivot [[0,1],[1,0]], .identity 2]).getD 1 none = some [[[0,1],[1,0]]] ∧
    runWith stepPinned ([] : Cache Rat) [.pivot [[0,1],[1,0]], .identity 2]
      ≠ [pureOut (.pivot [[0,1],[1,0]]), pureOut (.identity 2)] :=
  ⟨pinned_identity_second, pinned_identity_mutated⟩

/-- … so that `matrix_inverse(diag(2,4))` afterwards returns an anti-diagonal matrix instead of
    `diag(1/2,1/4)` (which the repaired model returns in the same history).
    (Closed witness check: a statement about this one concrete input, decided by evaluation.) -/
theorem pinned_refutes_inverse :
    (runWith stepPinned ([] : Cache Rat) [.pivot [[0,1],[1,0]], .inverse [[2,0],[0,4]]]).getD 1 none
      = some [[[0, 1/2],[1/4, 0]]] ∧
    pureOut (.inverse [[2,0],[0,4]] : Op Rat) = some [[[1/2,0],[0,1/4]]] ∧
    (runWith stepC ([] : Cache Rat) [.pivot [[0,1],[1,0]], .inverse [[2,0],[0,4]]]).getD 1 none
      = some [[[1/2,0],[0,1/4]]] :=
  ⟨pinned_inverse_wrong, pure_inverse_diag, repaired_inverse_right⟩

/-- F-16c: the pinned `lu_factor` (right-hand side not permuted) returns `x` with `A·x ≠ b`:
    `[[0,1],[1,0]]·x = [1,2]` has the solution `[2,1]`, the pinned code returns `[1,2]`; likewise for
    `[[1,2],[3,4]]`, `b = [5,6]`.
    (Closed witness check: a statement about this one concrete input, decided by evaluation.) -/
theorem pinned_refutes_luFactor :
    luFactorPinned ([[0,1],[1,0]] : List (List Rat)) [[1],[2]] = some [[1],[2]] ∧
    luFactor ([[0,1],[1,0]] : List (List Rat)) [[1],[2]] = some [[2],[1]] ∧
    luFactorPinned ([[1,2],[3,4]] : List (List Rat)) [[5],[6]] = some [[-7],[13/2]] ∧
    luFactor ([[1,2],[3,4]] : List (List Rat)) [[5],[6]] = some [[-4],[9/2]] :=
  ⟨luFactorPinned_wrong, luFactor_witness, luFactorPinned_wrong2, luFactor_witness2⟩

/-- F-16b (recorded, open): `matrix_determinant([[1,1,0],[1,1,1],[0,1,1]])` is `0`, the determinant
    is `-1` (Laplace expansion and `Matrix.det`).
    (Closed witness check: a statement about this one concrete input, decided by evaluation.) -/
theorem determinant_refutes_F16b :
    matrixDeterminant ([[1,1,0],[1,1,1],[0,1,1]] : List (List Rat)) = 0 ∧
    detLaplace 3 ([[1,1,0],[1,1,1],[0,1,1]] : List (List Rat)) = -1 ∧
    (toMat 3 3 ([[1,1,0],[1,1,1],[0,1,1]] : List (List ℚ))).det = -1 := by
  refine ⟨matrixDeterminant_wrong, detLaplace_witness, ?_⟩
  rw [Matrix.det_fin_three]
  simp [toMat, ent]

/-! ### non-vacuity: the hypotheses are met by concrete non-trivial inputs -/

/-- the guards hold on the inputs used below -/
example : luSolveOk ([[2,1],[1,3]] : List (List Rat)) [[3],[5]] = true ∧
    luFactorOk ([[0,2],[3,4]] : List (List Rat)) [[2],[7]] = true ∧
    matrixInverseOk ([[0,1],[1,0]] : List (List Rat)) = true ∧
    isSquare ([[0,2],[3,4]] : List (List Rat)) = true ∧
    matrixMultiplyOk ([[1,2,3],[4,5,6]] : List (List Rat)) [[1,0],[0,1],[2,2]] = true ∧
    matrixVectorOk ([[1,2,3],[4,5,6]] : List (List Rat)) [1,0,2] = true ∧
    admissible (.luFactor [[0,2],[3,4]] [[2],[7]] : Op Rat) = true := by decide +kernel
/-- the guarded theorems apply: `lu_solve` on a strictly diagonally dominant 2×2 matrix -/
example : ∃ x, luSolve ([[2,1],[1,3]] : List (List Rat)) [[3],[5]] = some x :=
  luSolve_returns _ _ (by decide +kernel) rfl (by decide +kernel)
/-- `lu_solve` returns on a 2×2 system with rational solution -/
example : luSolve ([[2,1],[1,3]] : List (List Rat)) [[3],[5]] = some [[4/5],[7/5]] := by decide +kernel
/-- `lu_factor` / `matrix_inverse` return on a matrix that needs a row exchange -/
example : luFactor ([[0,2],[3,4]] : List (List Rat)) [[2],[7]] = some [[1],[1]] := by decide +kernel
example : matrixInverse ([[0,1],[1,0]] : List (List Rat)) = some [[0,1],[1,0]] := by decide +kernel
/-- the determinant hypothesis (no zero pivot after pivoting) holds for a matrix with a row exchange -/
example : ∀ j, j < 2 → (doolittle (ent (matrixPivot ([[0,2],[3,4]] : List (List Rat))).mp) 2).U j j ≠ 0 := by
  decide +kernel
example : matrixDeterminant ([[0,2],[3,4]] : List (List Rat)) = -6 := by decide +kernel
/-- a strictly diagonally dominant matrix -/
example : SDD (ent ([[3,1,-1],[1,-4,2],[0,1,2]] : List (List ℚ))) 3 := by
  intro i hi
  have : i = 0 ∨ i = 1 ∨ i = 2 := by omega
  rcases this with rfl | rfl | rfl <;>
    norm_num [Finset.sum_filter, Finset.sum_range_succ, ent]
/-- the minors hypothesis: a matrix that is not diagonally dominant but has non-zero leading principal minors (1, -2);
    and a non-singular matrix on which the plain solver raises (first minor 0) -/
example : (toMat 1 1 ([[1,2],[3,4]] : List (List ℚ))).det = 1 ∧ (toMat 2 2 ([[1,2],[3,4]] : List (List ℚ))).det = -2 := by
  constructor
  · rw [Matrix.det_fin_one]; rfl
  · rw [Matrix.det_fin_two]; simp [toMat, ent]; norm_num
example : luSolve ([[1,2],[3,4]] : List (List Rat)) [[5],[6]] = some [[-4],[9/2]] ∧
    luSolve ([[0,1],[1,0]] : List (List Rat)) [[1],[2]] = none := by decide +kernel
/-- a strictly column (not row) diagonally dominant matrix -/
example : SDDcol (ent ([[3,2],[1,3]] : List (List ℚ))) 2 ∧ ¬ SDD (ent ([[3,3],[1,4]] : List (List ℚ))) 2 := by
  constructor
  · intro i hi
    have : i = 0 ∨ i = 1 := by omega
    rcases this with rfl | rfl <;> norm_num [Finset.sum_filter, Finset.sum_range_succ, ent]
  · intro h
    have := h 0 (by norm_num)
    norm_num [Finset.sum_filter, Finset.sum_range_succ, ent] at this
/-- the max-pivot theorem on a matrix that needs two exchanges; the 3 × 3 determinant criterion is met -/
example : (matrixPivot ([[1,2,0],[4,1,1],[2,7,3]] : List (List Rat))).mp = [[4,1,1],[2,7,3],[1,2,0]] ∧
    matrixDeterminant ([[1,2,0],[4,1,1],[2,7,3]] : List (List Rat)) = -24 := by decide +kernel
/-- degree-1 interpolation: the guard and the positivity hypothesis hold, the call returns the data points -/
example : Geomdl.InterpCurveOk 1 ([[0,0],[1,2],[3,1]] : List (List ℚ)) [2, 3] ∧ ∀ x ∈ ([2, 3] : List ℚ), 0 < x :=
  ⟨⟨le_refl _, by decide, by decide, by norm_num [Geomdl.sumL], 2, le_refl _, by simp⟩, by simp⟩
example : Geomdl.interpolateCurve 1 ([[0,0],[1,2],[3,1]] : List (List Rat)) [2, 3] 1
    = some ([0, 0, 2/5, 1, 1], [[0,0],[1,2],[3,1]]) := by decide +kernel
/-- a cache satisfying the invariant -/
example : CacheOk ([] : Cache Rat) := cacheOk_nil

end C16
