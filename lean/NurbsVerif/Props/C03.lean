import NurbsVerif.Lemmas.BasisProps
import NurbsVerif.Lemmas.Span
import NurbsVerif.Lemmas.SpanBin
import NurbsVerif.Model.Knots
import NurbsVerif.Lemmas.DersSum
import NurbsVerif.Lemmas.KnotVec
import NurbsVerif.Lemmas.KnotVec2
import NurbsVerif.Lemmas.BasisOne2
import NurbsVerif.Lemmas.BasisDersOne2
import NurbsVerif.Lemmas.UniqueLocal
import NurbsVerif.Lemmas.CdbSupport
import NurbsVerif.Lemmas.BasisDersOneEnd
import NurbsVerif.Lemmas.RefineCount
import NurbsVerif.Lemmas.SpanR

/-!
# C03  Basis functions and knot-span search satisfy their defining identities

Property theorems only (helper lemmas live in `Lemmas/`).  `K` is any linearly ordered field
(ℚ – hence every finite double – and ℝ).  The model functions are the ones the correspondence
check runs against `helpers.find_span_linear/binsearch`, `helpers.basis_function`, `basis_function_all`,
`basis_function_one`, `basis_function_ders_one`, `basis_function_ders` (specification model),
`knotvector.generate/normalize/check`, `linalg.linspace`.
-/
namespace C03
open Geomdl Blossom
variable {K : Type} [Field K] [LinearOrder K] [IsStrictOrderedRing K]

/-- Linear span search returns an index `k ∈ [p, n)` with `U k ≤ u`, and `u < U (k+1)` unless
    `k` is the last span (`u` at the domain end). -/
theorem findSpanLinear_spec (p : ℕ) (U : ℕ → K) (n : ℕ) (u : K) (hpn : p + 1 ≤ n)
    (hm : Monotone U) (hlo : U p ≤ u) :
    p ≤ findSpanLinear p U n u ∧ findSpanLinear p U n u < n ∧ U (findSpanLinear p U n u) ≤ u ∧
      (u < U (findSpanLinear p U n u + 1) ∨ findSpanLinear p U n u + 1 = n) :=
  Geomdl.findSpanLinear_spec p U n u hpn hm hlo

/-- The half-open knot interval containing a parameter is unique, and linear search returns it
    for every parameter strictly inside the domain. -/
theorem findSpanLinear_unique (p : ℕ) (U : ℕ → K) (n : ℕ) (u : K) (hpn : p + 1 ≤ n)
    (hm : Monotone U) (hlo : U p ≤ u) (hhi : u < U n) (k' : ℕ) (h1' : U k' ≤ u) (h2' : u < U (k'+1)) :
    findSpanLinear p U n u = k' :=
  Geomdl.findSpanLinear_unique p U n u hpn hm hlo hhi k' h1' h2'

/-- **Binary search = linear search** (termination included: the fuel the model gives the loop
    suffices) for every degree, non-decreasing knot function and parameter of the domain, provided the
    tolerance shortcut at the domain end only fires for parameters of the last span.
    The model's start index `(low+high+1)/2` is the code's `int(round((low+high)/2 + tol))` only for
    `0 < tol < 1/2`, hence the hypothesis `2 * tol < 1` (the default is 1e-5).  At `tol = 0` (admitted by `htol`) and an
    odd `low + high` the code starts one index lower – Python rounds `x.5` to the EVEN integer, `int(round(2.5)) = 2`,
    the model starts at 3 – and reaches the same span by another path of the bisection: the equality with the linear
    search still holds there for the model, for the code it is the statement of its own bisection only for `0 < tol`
    (the C17 twins carry `0 < tol`). -/
theorem findSpanBin_eq_linear (p : ℕ) (U : ℕ → K) (n : ℕ) (u tol : K) (hpn : p + 1 ≤ n)
    (hm : Monotone U) (hlo : U p ≤ u) (hhi : u ≤ U n) (htol : 0 ≤ tol) (_htol2 : 2 * tol < 1)
    (hend : absK (U n - u) ≤ tol → U (n - 1) ≤ u) :
    findSpanBin p U n u tol = some (findSpanLinear p U n u) :=
  Geomdl.findSpanBin_eq_linear p U n u tol hpn hm hlo hhi htol hend

/-- Without that hypothesis the two searches differ (recorded finding F-17b): an interior knot within
    the tolerance of the domain end.
    (Closed witness check: a statement about this one concrete input, decided by evaluation.) -/
theorem findSpanBin_refuted_F17b :
    findSpanBin 2 (fnOf ([0,0,0,1/2,999995/1000000,1,1,1] : List ℚ)) 5 (999992/1000000) (1/100000)
      ≠ some (findSpanLinear 2 (fnOf ([0,0,0,1/2,999995/1000000,1,1,1] : List ℚ)) 5 (999992/1000000)) := by
  decide +kernel

/-- A2.2 returns `p+1` values. -/
theorem basisFuns_length (p : ℕ) (U : ℕ → K) (k : ℕ) (u : K) : (basisFuns p U k u).length = p + 1 :=
  Blossom.basisFuns_length p U k u

/-- The non-vanishing basis functions are non-negative on their (closed) span. -/
theorem basisFuns_nonneg (p : ℕ) (U : ℕ → K) (k : ℕ) (u : K) (h : SpanOk U k u) :
    ∀ x ∈ basisFuns p U k u, 0 ≤ x :=
  Geomdl.basisFuns_nonneg p h

/-- Partition of unity. -/
theorem basisFuns_sum (p : ℕ) (U : ℕ → K) (k : ℕ) (u : K) (h : SpanOk U k u) :
    (basisFuns p U k u).sum = 1 :=
  Geomdl.basisFuns_sum p h

/-- A2.2 *is* the Cox–de Boor recursion (Eq. 2.5, with 0/0 := 0) on the half-open span, and every
    Cox–de Boor function outside `k-p..k` vanishes there (local support). -/
theorem basisFuns_eq_coxDeBoor (U : ℕ → K) (k : ℕ) (u : K) (hm : Monotone U) (h1 : U k ≤ u) (h2 : u < U (k+1))
    (p : ℕ) (hp : p ≤ k) (i : ℕ) :
    cdb U p i u = if k ≤ i + p ∧ i ≤ k then (basisFuns p U k u).getD (i + p - k) 0 else 0 :=
  cdb_eq_basisFuns U k u hm h1 h2 p hp i

/-- **The k-th derivatives (k ≥ 1) of the non-vanishing basis functions sum to zero** – for the model
    `basisDers` that `helpers.basis_function_ders` (A2.3) is compared with: the derivatives of the span
    polynomials of the unit control sequences (every degree, sorted knots, non-empty span, order). -/
theorem basisDers_sum_zero (p : ℕ) (U : ℕ → K) (κ : ℕ) (u : K) (d k : ℕ)
    (hp : p ≤ κ) (hm : Monotone U) (hspan : U κ < U (κ+1)) (hk1 : 1 ≤ k) (hk : k ≤ d) :
    ∑ r ∈ Finset.range (p+1), ((basisDers p U κ u d).getD k []).getD r 0 = 0 :=
  Geomdl.basisDers_sum_zero p U κ u d k hp hm hspan hk1 hk

/-- … and the zeroth row of that table is A2.2 itself. -/
theorem basisDers_zero_row (p : ℕ) (U : ℕ → K) (κ : ℕ) (u : K) (d r : ℕ) (hp : p ≤ κ) (hr : r ≤ p) :
    ((basisDers p U κ u d).getD 0 []).getD r 0 = (basisFuns p U κ u).getD r 0 :=
  Geomdl.basisDers_zero_row p U κ u d r hp hr

/-- Generated knot vectors have the documented length `n + p + 1` (clamped or not). -/
theorem knotGenerate_length (p n : ℕ) (clamped : Bool) (tol : K) (htol : tol < 1) (hp : 1 ≤ p) (hn : p + 1 ≤ n) :
    (knotGenerate p n clamped tol : List K).length = n + p + 1 :=
  Geomdl.knotGenerate_length p n clamped tol htol hp hn

/-- A clamped generated vector starts with `p + 1` zeros. -/
theorem knotGenerate_clamped_start (p n : ℕ) (tol : K) (htol : tol < 1) (hn : p + 1 ≤ n) (i : ℕ) (hi : i ≤ p) :
    (knotGenerate p n true tol : List K).getD i 0 = 0 :=
  Geomdl.knotGenerate_clamped_start p n tol htol hn i hi

/-- `knotvector.check` rejects every knot vector of the wrong length and every knot vector with a descent. -/
theorem knotCheck_rejects (p n : ℕ) (U : List K) :
    (U.length ≠ p + n + 1 → knotCheck p U n = false) ∧
    (∀ i, i + 1 < U.length → U.getD (i+1) 0 < U.getD i 0 → knotCheck p U n = false) :=
  ⟨knotCheck_wrong_length p n U, fun i hi hd => knotCheck_descent p n U i hi hd⟩

/-- Normalisation is the order-preserving affine map of the knot range onto `[0, 1]`. -/
theorem knotNormalize_spec (V : List K) (hne : V ≠ []) (hrange : V.headD 0 < V.getLastD 0) :
    (knotNormalize V).length = V.length ∧
    (knotNormalize V).headD 0 = 0 ∧ (knotNormalize V).getLastD 0 = 1 ∧
    (∀ i j, fnOf V i ≤ fnOf V j → fnOf (knotNormalize V) i ≤ fnOf (knotNormalize V) j) ∧
    ∀ i, fnOf (knotNormalize V) i = (1 / (V.getLastD 0 - V.headD 0)) * fnOf V i + (-(V.headD 0) / (V.getLastD 0 - V.headD 0)) := by
  obtain ⟨h1, h2, h3, h4⟩ := Geomdl.knotNormalize_spec V hne hrange
  exact ⟨h1, h2, h3, h4, fun i => fnOf_knotNormalize V i hne⟩

/-- "all degrees" variant: entry `[j][i]` is entry `j` of the degree-`i` basis (and `None` above the diagonal).
    (Unfolding lemma: the model of the "all degrees" variant is defined from `basisFuns` entry by entry; the check against `helpers.basis_function_all` is the correspondence stream.) -/
theorem basisFunAll_eq (p : ℕ) (U : ℕ → K) (k : ℕ) (u : K) (j i : ℕ) (hj : j ≤ p) (hi : i ≤ p) :
    ((basisFunAll p U k u).getD j []).getD i none = if j ≤ i then (basisFuns i U k u)[j]? else none := by
  unfold basisFunAll
  simp [List.getD_eq_getElem?_getD, hj, hi, Nat.lt_succ_of_le]

/-! ### A2.4 `helpers.basis_function_one` (model `Geomdl.basisFunOne`; `m` = number of knots) -/

/-- **The triangular table of A2.4 is the Cox–de Boor table**: after the levels `1..k` the working array
    holds `N_{i,k}(u), …, N_{i+p-k,k}(u)` (the initial array: the indicators of the `p+1` knot intervals of the
    support) – for every knot function; the zero-detection branches compute the
    same numbers as the two-term recurrence with `0/0 := 0`. -/
theorem basisFunOne_table (p : ℕ) (U : ℕ → K) (i k : ℕ) (u : K) (hk : k ≤ p) :
    (List.range' 1 k).foldl (bfOneLevel U i u)
        ((List.range (p+1)).map (fun j => if U (i + j) ≤ u ∧ u < U (i + j + 1) then (1:K) else 0))
      = (List.range (p + 1 - k)).map (fun j => cdb U k (i + j) u) :=
  bfOne_table U i p k u hk

/-- **A2.4 never divides by zero** on non-decreasing knots: entry `j` of the table after `k` levels is
    divided (at level `k+1`, and only if it is non-zero – the zero detection) by
    `U (i+j+k+1) − U (i+j)`, which is then non-zero. -/
theorem basisFunOne_divisions_safe (p : ℕ) (U : ℕ → K) (hm : Monotone U) (i k j : ℕ) (u : K) (hjk : j + k ≤ p)
    (h : ((List.range' 1 k).foldl (bfOneLevel U i u)
        ((List.range (p+1)).map (fun j => if U (i + j) ≤ u ∧ u < U (i + j + 1) then (1:K) else 0))).getD j 0 ≠ 0) :
    U (i + j + k + 1) - U (i + j) ≠ 0 :=
  bfOne_division_safe U hm i p k j u hjk h

/-- A2.4 in closed form, for every non-decreasing knot function, index and parameter: the two boundary
    special cases return 1, everything else is the Cox–de Boor function (Eq. 2.5, `0/0 := 0`). -/
theorem basisFunOne_closed_form (p : ℕ) (U : ℕ → K) (hm : Monotone U) (m i : ℕ) (u : K) :
    basisFunOne p U m i u
      = if (i = 0 ∧ u = U 0) ∨ (i + p + 2 = m ∧ u = U (m - 1)) then 1 else cdb U p i u :=
  basisFunOne_eq p U hm m i u

/-- **The single-function variant equals the Cox–de Boor recursion** for every parameter of the domain
    (`U p ≤ u`), every index, provided the first function is not degenerate (`U 0 < U (p+1)`: start
    multiplicity at most `p+1`) – except for the last function at the last knot. -/
theorem basisFunOne_eq_coxDeBoor (p : ℕ) (U : ℕ → K) (hm : Monotone U) (m i : ℕ) (u : K)
    (hlo : U p ≤ u) (hdeg : U 0 < U (p+1)) (hlast : i + p + 2 = m → u ≠ U (m - 1)) :
    basisFunOne p U m i u = cdb U p i u :=
  basisFunOne_eq_cdb p U hm m i u hlo hdeg hlast

/-- … and there (last function, last knot) the routine returns 1 whereas the half-open Cox–de Boor
    function is 0: the special case implements the closed right end of the domain. -/
theorem basisFunOne_last_knot (p : ℕ) (U : ℕ → K) (hm : Monotone U) (m i : ℕ) (hi : i + p + 2 = m) :
    basisFunOne p U m i (U (m - 1)) = 1 ∧ cdb U p i (U (m - 1)) = 0 :=
  basisFunOne_last p U hm m i hi

/-- **The single-function variant equals the entry of A2.2**: on the half-open span `k` the function
    with index `i = k − p + r` is entry `r` of `basis_function` (every `m`). -/
theorem basisFunOne_eq_basisFuns (p : ℕ) (U : ℕ → K) (hm : Monotone U) (m k : ℕ) (u : K)
    (hp : p ≤ k) (h1 : U k ≤ u) (h2 : u < U (k+1)) (i r : ℕ) (hir : i + p = k + r) (hr : r ≤ p) :
    basisFunOne p U m i u = (basisFuns p U k u).getD r 0 :=
  Blossom.basisFunOne_eq_basisFuns p U hm m k u hp h1 h2 i r hir hr

/-- … all other functions vanish on that span. -/
theorem basisFunOne_zero_outside_window (p : ℕ) (U : ℕ → K) (hm : Monotone U) (m k : ℕ) (u : K)
    (hp : p ≤ k) (hkm : k + 1 < m) (h1 : U k ≤ u) (h2 : u < U (k+1)) (hdeg : U 0 < U (p+1)) (i : ℕ)
    (hi : i + p < k ∨ k < i) : basisFunOne p U m i u = 0 :=
  basisFunOne_eq_zero p U hm m k u hp hkm h1 h2 hdeg i hi

/-- … and at the closed end of the domain of a knot vector clamped at the end (`k` the last span,
    `u` the last knot) the single-function variant still equals the entry of A2.2 evaluated on the last
    span: `0, …, 0, 1`. -/
theorem basisFunOne_eq_basisFuns_end (p : ℕ) (U : ℕ → K) (hm : Monotone U) (m k : ℕ)
    (hp : p ≤ k) (hm2 : k + p + 2 = m) (hne : U k < U (k+1)) (hcl : U (k+1) = U (m-1))
    (i r : ℕ) (hir : i + p = k + r) (hr : r ≤ p) :
    basisFunOne p U m i (U (m-1)) = (basisFuns p U k (U (m-1))).getD r 0 :=
  Blossom.basisFunOne_eq_basisFuns_end p U hm m k hp hm2 hne hcl i r hir hr

/-- **On the whole closed domain** `[U p, U n]` of a knot vector whose end is clamped with multiplicity
    `p+1` (`n` control points, `n+p+1` knots): with the span `find_span_linear` returns, the single-function
    variant of index `span − p + r` is entry `r` of `basis_function` – including `u = U n`. -/
theorem basisFunOne_eq_basisFuns_domain (p : ℕ) (U : ℕ → K) (n : ℕ) (u : K) (hpn : p + 1 ≤ n) (hm : Monotone U)
    (hlo : U p ≤ u) (hhi : u ≤ U n) (hend : U n = U (n + p)) (hne : U (n - 1) < U n) (r : ℕ) (hr : r ≤ p) :
    basisFunOne p U (n + p + 1) (findSpanLinear p U n u - p + r) u
      = (basisFuns p U (findSpanLinear p U n u) u).getD r 0 :=
  Blossom.basisFunOne_eq_basisFuns_domain p U n u hpn hm hlo hhi hend hne r hr

/-! ### A2.5 `helpers.basis_function_ders_one` (literal model `Geomdl.basisFunDersOne`) -/

/-- A2.5 returns, for `order ≤ p` and non-decreasing knots, the list `k ↦ N^{(k)}_{i,p}(u)` of the
    derivative recurrence Eq. 2.9 (`Blossom.cdbD`, with `0/0 := 0`; entry 0 is the Cox–de Boor function –
    A2.5 has no boundary special case, it returns 0 at the last knot). -/
theorem basisFunDersOne_eq_recurrence (p : ℕ) (U : ℕ → K) (hm : Monotone U) (i : ℕ) (u : K) (order : ℕ)
    (ho : order ≤ p) :
    basisFunDersOne p U i u order = (List.range (order + 1)).map (fun k => cdbD U k p i u) ∧
    (basisFunDersOne p U i u order).getD 0 0 = cdb U p i u :=
  ⟨basisFunDersOne_eq p U hm i u order ho, basisFunDersOne_getD p U hm i u order 0 ho (Nat.zero_le _)⟩

/-- **A2.5 computes derivatives**: on the half-open span `κ`, entry `k` of `basis_function_ders_one` for
    the function `i = κ − p + r` is entry `[k][r]` of the derivative table `basisDers` (the model of A2.3:
    `k`-th derivatives at `u` of the span polynomials of the unit control sequences) – every degree,
    non-decreasing knots, `k ≤ order ≤ p`. -/
theorem basisFunDersOne_eq_basisDers (p : ℕ) (U : ℕ → K) (hm : Monotone U) (κ : ℕ) (u : K)
    (hp : p ≤ κ) (h1 : U κ ≤ u) (h2 : u < U (κ+1)) (i r : ℕ) (hir : i + p = κ + r) (hr : r ≤ p)
    (order d k : ℕ) (ho : order ≤ p) (hk : k ≤ order) (hkd : k ≤ d) :
    (basisFunDersOne p U i u order).getD k 0 = ((basisDers p U κ u d).getD k []).getD r 0 :=
  Geomdl.basisFunDersOne_eq_basisDers p U hm κ u hp h1 h2 i r hir hr order d k ho hk hkd

/-- **The derivative part of A2.5 never divides by zero** on non-decreasing knots: entry `j` of the
    working array `ND` for the `k`-th derivative after `s` differencing levels is divided (at level `s+1`,
    only if non-zero – zero detection) by `U (i+j+(p−k+s)+1) − U (i+j)`, which is then non-zero.  (The
    table part is the loop of A2.4: `basisFunOne_divisions_safe`.) -/
theorem basisFunDersOne_divisions_safe (p : ℕ) (U : ℕ → K) (hm : Monotone U) (i : ℕ) (u : K) (k s j : ℕ)
    (hk : k ≤ p) (hjs : j + s ≤ k)
    (h : ((List.range' (p - k + 1) s).foldl (bdoLevel U i) (bdoColumn p U i u (p - k))).getD j 0 ≠ 0) :
    U (i + j + (p - k + s) + 1) - U (i + j) ≠ 0 :=
  bdo_division_safe p U hm i u k s j hk hjs h

/-! ### knot-vector utilities, continued -/

/-- `knotvector.check` accepts exactly the lists of length `p + n + 1` without a descent. -/
theorem knotCheck_iff (p n : ℕ) (U : List K) :
    knotCheck p U n = true ↔ U.length = p + n + 1 ∧ ∀ i, i + 1 < U.length → U.getD i 0 ≤ U.getD (i+1) 0 :=
  Geomdl.knotCheck_iff p n U

/-- **Generated knot vectors are non-decreasing and pass the validity check** (clamped or not). -/
theorem knotGenerate_valid (p n : ℕ) (clamped : Bool) (tol : K) (htol : tol < 1) (hp : 1 ≤ p) (hn : p + 1 ≤ n) :
    isSortedB (knotGenerate p n clamped tol : List K) = true ∧
    knotCheck p (knotGenerate p n clamped tol : List K) n = true :=
  ⟨knotGenerate_sorted p n clamped tol htol hp hn, knotCheck_generate p n clamped tol htol hp hn⟩

/-- Entries of a clamped generated vector: `p` zeros, then `j/(n−p)` for `j = 0..n−p`, then `p` ones;
    of an unclamped one: `i/(n+p)`. -/
theorem knotGenerate_entries (p n : ℕ) (tol : K) (htol : tol < 1) (hn : p + 1 ≤ n) (i : ℕ) (hi : i ≤ n + p) :
    (knotGenerate p n true tol : List K).getD i 0
        = (if i < p then 0 else if i ≤ n then ((i - p : ℕ) : K) / ((n - p : ℕ) : K) else 1) ∧
    (knotGenerate p n false tol : List K).getD i 0 = (i : K) / ((n + p : ℕ) : K) :=
  ⟨knotGenerate_clamped_getD p n tol htol hn i hi, knotGenerate_unclamped_getD p n tol htol hn i hi⟩

/-- A clamped generated vector ends with `p + 1` ones, and the knots strictly between the two end
    blocks lie strictly between 0 and 1 (so both end multiplicities are exactly `p + 1`). -/
theorem knotGenerate_clamped_end (p n : ℕ) (tol : K) (htol : tol < 1) (hn : p + 1 ≤ n) (i : ℕ) :
    (n ≤ i → i ≤ n + p → (knotGenerate p n true tol : List K).getD i 0 = 1) ∧
    (p < i → i < n → 0 < (knotGenerate p n true tol : List K).getD i 0 ∧
      (knotGenerate p n true tol : List K).getD i 0 < 1) :=
  ⟨fun h1 h2 => Geomdl.knotGenerate_clamped_end p n tol htol hn i h1 h2,
   fun h1 h2 => knotGenerate_clamped_interior p n tol htol hn i h1 h2⟩

/-- Normalisation is idempotent, strictly order preserving, does not change the verdict of `check`, and
    leaves generated vectors unchanged. -/
theorem knotNormalize_idempotent (V : List K) (hne : V ≠ []) (hrange : V.headD 0 < V.getLastD 0) :
    knotNormalize (knotNormalize V) = knotNormalize V ∧
    (∀ i j, fnOf V i < fnOf V j → fnOf (knotNormalize V) i < fnOf (knotNormalize V) j) ∧
    (∀ p n, knotCheck p (knotNormalize V) n = knotCheck p V n) :=
  ⟨knotNormalize_idem V hne hrange, fun i j h => knotNormalize_strict V hne hrange i j h,
   fun p n => knotCheck_normalize p n V hrange⟩

/-- Generated knot vectors are already normalised (first knot 0, last knot 1). -/
theorem knotNormalize_generate (p n : ℕ) (clamped : Bool) (tol : K) (htol : tol < 1) (hp : 1 ≤ p) (hn : p + 1 ≤ n) :
    knotNormalize (knotGenerate p n clamped tol : List K) = knotGenerate p n clamped tol :=
  Geomdl.knotNormalize_generate p n clamped tol htol hp hn

/-- `linalg.linspace`: `num ≥ 2` evenly spaced values `a + i (b − a)/(num − 1)` when the end values differ
    by more than the tolerance, the single value `a` otherwise. -/
theorem linspace_spec (a b : K) (num : ℕ) (tol : K) :
    (tol < |a - b| → 2 ≤ num → (linspace a b num tol).length = num ∧
      ∀ i, i < num → (linspace a b num tol).getD i 0 = a + (i : K) * (b - a) / ((num - 1 : ℕ) : K)) ∧
    (|a - b| ≤ tol ∨ num ≤ 1 → linspace a b num tol = [a]) :=
  ⟨fun h1 h2 => by
      rw [linspace_eq_core a b num tol h1 h2]
      exact ⟨linspaceCore_length a b num, fun i hi => linspaceCore_getD a b num i hi⟩,
   linspace_degenerate a b num tol⟩

/-- non-vacuity: the hypotheses are met by the cubic clamped vector 0,0,0,0,1,1,1,1 on span 3 at u = 1/2 -/
example : SpanOk (fun i => if i ≤ 3 then (0:ℚ) else 1) 3 (1/2) where
  mono := by
    intro a b hab
    by_cases ha : a ≤ 3 <;> by_cases hb : b ≤ 3 <;> simp [ha, hb] <;> omega
  lo := by norm_num
  hi := by norm_num
  nonempty := by norm_num

/-- non-vacuity of the A2.4 theorems: cubic, 8 knots 0,0,0,0,1,1,1,1, span 3; interior parameter, the
    first function at the first knot and the last function at the last knot -/
example : basisFunOne 3 (fun i : ℕ => if i ≤ 3 then (0:ℚ) else 1) 8 1 (1/2) = 3/8 := by
  rw [basisFunOne_eq_basisFuns 3 _ cubicBezierKnots_mono 8 3 (1/2) (le_refl _) (by norm_num) (by norm_num)
    1 1 rfl (by omega)]
  decide +kernel
example : basisFunOne 3 (fun i : ℕ => if i ≤ 3 then (0:ℚ) else 1) 8 0 0
    = cdb (fun i : ℕ => if i ≤ 3 then (0:ℚ) else 1) 3 0 0 :=
  basisFunOne_eq_coxDeBoor 3 _ cubicBezierKnots_mono 8 0 0 (by norm_num) (by norm_num) (by omega)
example : basisFunOne 3 (fun i : ℕ => if i ≤ 3 then (0:ℚ) else 1) 8 3 1
    = (basisFuns 3 (fun i : ℕ => if i ≤ 3 then (0:ℚ) else 1) 3 1).getD 3 0 := by
  have := basisFunOne_eq_basisFuns_end 3 (fun i : ℕ => if i ≤ 3 then (0:ℚ) else 1) cubicBezierKnots_mono 8 3
    (le_refl _) rfl (by norm_num) (by norm_num) 3 3 rfl (le_refl _)
  simpa using this
example : basisFunOne 3 (fun i : ℕ => if i ≤ 3 then (0:ℚ) else 1) (4 + 3 + 1)
      (findSpanLinear 3 (fun i : ℕ => if i ≤ 3 then (0:ℚ) else 1) 4 1 - 3 + 3) 1
    = (basisFuns 3 (fun i : ℕ => if i ≤ 3 then (0:ℚ) else 1) (findSpanLinear 3 (fun i : ℕ => if i ≤ 3 then (0:ℚ) else 1) 4 1) 1).getD 3 0 :=
  basisFunOne_eq_basisFuns_domain 3 _ 4 1 (by omega) cubicBezierKnots_mono (by norm_num) (by norm_num) (by norm_num)
    (by norm_num) 3 (le_refl _)
example : ((basisFunDersOne 3 (fun i : ℕ => if i ≤ 3 then (0:ℚ) else 1) 1 (1/2) 3).getD 1 0
    = ((basisDers 3 (fun i : ℕ => if i ≤ 3 then (0:ℚ) else 1) 3 (1/2) 3).getD 1 []).getD 1 0) :=
  basisFunDersOne_eq_basisDers 3 _ cubicBezierKnots_mono 3 (1/2) (le_refl _) (by norm_num) (by norm_num) 1 1 rfl
    (by omega) 3 3 1 (le_refl _) (by omega) (by omega)
/-- non-vacuity of the knot-vector theorems -/
example : (knotGenerate 2 5 true (1/10000000 : ℚ) : List ℚ) = [0, 0, 0, 1/3, 2/3, 1, 1, 1] := by decide +kernel
example : ([1, 2, 4, 7] : List ℚ) ≠ [] ∧ ([1, 2, 4, 7] : List ℚ).headD 0 < ([1, 2, 4, 7] : List ℚ).getLastD 0 := by
  decide +kernel

/-- **The `p + 1` non-vanishing basis functions of a non-empty span are linearly independent**: if a
    combination `Σ_r c_r · N_{κ-p+r,p}(u)` of the values A2.2 returns vanishes at every parameter of the span
    `[U_κ, U_{κ+1})` (sorted knots, `p ≤ κ`), all coefficients are zero.  Hence B-spline coefficients are unique
    (C02 `span_polynomial_determines_control_points`, C06 `control_points_unique`). -/
theorem basisFuns_linearly_independent (p : ℕ) (U : ℕ → K) (κ : ℕ) (hm : Monotone U) (hspan : U κ < U (κ+1))
    (hp : p ≤ κ) (c : ℕ → K)
    (h : ∀ u, U κ ≤ u → u < U (κ+1) → ∑ r ∈ Finset.range (p+1), (basisFuns p U κ u).getD r 0 * c r = 0)
    (r : ℕ) (hr : r ≤ p) : c r = 0 :=
  basisFuns_lin_indep p U κ hm hspan hp c h r hr

/-- non-vacuity: on the span `[0, 1)` of `0,0,0,1,1,1` the three quadratic Bernstein values at `1/2` -/
example : basisFuns 2 (fnOf ([0,0,0,1,1,1] : List ℚ)) 2 (1/2) = [1/4, 1/2, 1/4] := by decide +kernel

/-! ### exact support of a Cox–de Boor function (no span index) -/

/-- **Support of `N_{i,p}`** (Cox–de Boor, Eq. 2.5 with `0/0 := 0`) for a non-decreasing knot function, every degree,
    every index and EVERY number `u` (inside or outside the domain; no span index `k` is involved):
    `N_{i,p}(u) ≥ 0`, and `N_{i,p}(u) ≠ 0` – equivalently `> 0` – iff `U_i ≤ u < U_{i+p+1}` and (`U_i < u` or
    `U_{i+p} ≤ u`).  The last clause only matters at `u = U_i`: the function is non-zero there exactly when `U_i` has
    multiplicity `p + 1` inside the support (`U_i = … = U_{i+p}`; e.g. the first function of a clamped vector). -/
theorem coxDeBoor_support (p : ℕ) (U : ℕ → K) (hm : Monotone U) (i : ℕ) (u : K) :
    0 ≤ cdb U p i u ∧
    (cdb U p i u ≠ 0 ↔ U i ≤ u ∧ u < U (i + p + 1) ∧ (U i < u ∨ U (i + p) ≤ u)) ∧
    (0 < cdb U p i u ↔ U i ≤ u ∧ u < U (i + p + 1) ∧ (U i < u ∨ U (i + p) ≤ u)) :=
  ⟨cdb_nonneg_all U hm u p i, cdb_ne_zero_iff_support U hm p i u, cdb_pos_iff_support U hm p i u⟩

/-- … the zero set: `N_{i,p}(u) = 0` iff `u < U_i`, or `U_{i+p+1} ≤ u`, or `u = U_i < U_{i+p}`; in particular the
    function vanishes outside `[U_i, U_{i+p+1})` (local support) and identically when that interval is empty
    (a knot of multiplicity `p + 2`). -/
theorem coxDeBoor_zero_set (p : ℕ) (U : ℕ → K) (hm : Monotone U) (i : ℕ) (u : K) :
    (cdb U p i u = 0 ↔ u < U i ∨ U (i + p + 1) ≤ u ∨ (u = U i ∧ u < U (i + p))) ∧
    (u < U i ∨ U (i + p + 1) ≤ u → cdb U p i u = 0) ∧
    (U (i + p + 1) = U i → cdb U p i u = 0) :=
  ⟨cdb_eq_zero_iff_support U hm p i u, cdb_eq_zero_of_outside U hm u p i,
   cdb_eq_zero_of_empty_support U hm p i u⟩

/-- … by multiplicity of the left knot: with `U_i < U_{i+p}` (multiplicity at most `p` inside the support) the
    function is non-zero (positive) exactly on the OPEN interval `(U_i, U_{i+p+1})`; with `U_i = U_{i+p}` (multiplicity
    `p + 1`) exactly on the half-open interval `[U_i, U_{i+p+1})`. -/
theorem coxDeBoor_support_by_multiplicity (p : ℕ) (U : ℕ → K) (hm : Monotone U) (i : ℕ) (u : K) :
    (U i < U (i + p) → (cdb U p i u ≠ 0 ↔ U i < u ∧ u < U (i + p + 1))) ∧
    (U (i + p) = U i → (cdb U p i u ≠ 0 ↔ U i ≤ u ∧ u < U (i + p + 1))) ∧
    (U i < u → u < U (i + p + 1) → 0 < cdb U p i u) :=
  ⟨cdb_ne_zero_iff_open U hm p i u, cdb_ne_zero_iff_halfopen U hm p i u,
   fun h1 h2 => cdb_pos U hm u p i (le_of_lt h1) h2 (Or.inl h1)⟩

/-- non-vacuity (repeated knots `0,0,0,1,1,2,2,2`, degree 2): at the double knot `u = 1` the function `N_{2,2}`
    (support `[0, 2)`, left knot simple in it) is positive, `N_{3,2}` (support `[1, 2)`, `u = U_3 < U_5`) vanishes;
    at `u = 0` the first function (left knot of multiplicity 3) is 1 -/
example : (List.range 5).map (fun i => cdb (fnOf ([0,0,0,1,1,2,2,2] : List ℚ)) 2 i 1) = [0, 0, 1, 0, 0] ∧
    cdb (fnOf ([0,0,0,1,1,2,2,2] : List ℚ)) 2 0 0 = 1 := by decide +kernel
example : Monotone (fnOf ([0,0,0,1,1,2,2,2] : List ℚ)) := mono_of_pairwise _ (by decide +kernel)

/-! ### A2.5 outside the half-open support, in particular at the last knot -/

/-- **A2.5 at the last knot, as coded.**  `helpers.basis_function_ders_one` starts with the guard
    `knot < U[span] or knot >= U[span + degree + 1]`: outside the half-open support `[U_i, U_{i+p+1})` it returns
    `order + 1` zeros (any knot function, every order – also `order > degree`, for which the routine would otherwise
    raise).  Hence at the last knot `U_{m-1}` of a non-decreasing knot vector with `m` knots it returns zeros for EVERY
    function index it accepts (`i + p + 1 ≤ m - 1`) and every order.
    These zeros are the values / right-hand derivatives of the half-open Cox–de Boor functions (`cdbD`,
    `basisFunDersOne_eq_recurrence`), NOT the left-limit derivatives at the end of a clamped domain: see
    `basisFunDersOne_last_knot_differs`.  The exact oracle of C03 judges A2.5 only for `u` below the domain end (there it
    must equal the column of `basis_function_ders`); at the last knot it is covered by the correspondence stream
    `bdersone` (model = code, i.e. zeros) only – a recorded observation, no verdict depends on it. -/
theorem basisFunDersOne_last_knot (p : ℕ) (U : ℕ → K) (i : ℕ) (u : K) (order : ℕ) :
    (u < U i ∨ U (i + p + 1) ≤ u → basisFunDersOne p U i u order = List.replicate (order + 1) 0) ∧
    (∀ m, Monotone U → i + p + 2 ≤ m → basisFunDersOne p U i (U (m - 1)) order = List.replicate (order + 1) 0) :=
  ⟨basisFunDersOne_outside p U i u order, fun m hm hi => Geomdl.basisFunDersOne_last_knot p U hm m i order hi⟩

/-- **… which is not what A2.4 and A2.3 return there.**  Clamped end (`U_k < U_{k+1} = … = U_{m-1}`, `m = k + p + 2`
    knots), last function `N_{k,p}`, parameter = last knot: A2.5 returns the value 0, A2.4 (`basis_function_one`, its own
    special case) returns 1, and row 0 of the A2.3 table on the last span `k` (the span the searches return at the domain
    end) has 1 in its last column – the left-limit convention every evaluator uses. -/
theorem basisFunDersOne_last_knot_differs (p : ℕ) (U : ℕ → K) (hm : Monotone U) (m k : ℕ) (order d : ℕ)
    (hp : p ≤ k) (hm2 : k + p + 2 = m) (hne : U k < U (k+1)) (hcl : U (k+1) = U (m-1)) :
    (basisFunDersOne p U k (U (m-1)) order).getD 0 0 = 0 ∧
    basisFunOne p U m k (U (m-1)) = 1 ∧
    ((basisDers p U k (U (m-1)) d).getD 0 []).getD p 0 = 1 :=
  basisFunDersOne_clamped_end_differs p U hm m k order d hp hm2 hne hcl

/-- … derivatives included, on the quadratic Bézier knots `0,0,0,1,1,1` at `u = 1` for the last function: A2.5 returns
    `0, 0, 0`, the left-limit value and derivatives (column 2 of the A2.3 table on span 2, the span found at `u = 1`) are
    `1, 2, 2`; just below the end A2.5 is close to them.
    (Closed witness check: a statement about this one concrete input, decided by evaluation.) -/
theorem basisFunDersOne_last_knot_witness :
    basisFunDersOne 2 (fnOf ([0,0,0,1,1,1] : List ℚ)) 2 1 2 = [0, 0, 0] ∧
    (List.range 3).map (fun k => ((basisDers 2 (fnOf ([0,0,0,1,1,1] : List ℚ)) 2 1 2).getD k []).getD 2 0) = [1, 2, 2] ∧
    findSpanLinear 2 (fnOf ([0,0,0,1,1,1] : List ℚ)) 3 1 = 2 ∧
    basisFunDersOne 2 (fnOf ([0,0,0,1,1,1] : List ℚ)) 2 (99/100) 2 = [9801/10000, 99/50, 2] := by
  decide +kernel

/-- non-vacuity of the clamped-end hypotheses: `0,0,0,1,1,1`, `p = 2`, `k = 2`, `m = 6` -/
example : (2:ℕ) ≤ 2 ∧ 2 + 2 + 2 = 6 ∧ fnOf ([0,0,0,1,1,1] : List ℚ) 2 < fnOf ([0,0,0,1,1,1] : List ℚ) (2+1) ∧
    fnOf ([0,0,0,1,1,1] : List ℚ) (2+1) = fnOf ([0,0,0,1,1,1] : List ℚ) (6-1) := by decide +kernel

/-! ### the REPAIRED span searches (F-01b): step back to the last non-empty span at the domain end

`findSpanLinearR` / `findSpanBinR` (`Model/SpanR.lean`) are literal transcriptions of `helpers.find_span_linear` /
`find_span_binsearch` AFTER the repair of finding F-01b: after the first loop (before the bisection, in the tolerance
shortcut) the index steps back while the span is empty.  The correspondence check compares them with the real functions
on ordinary knot vectors and on knot vectors with an EMPTY last domain span (`U_{n-1} = U_n`), the domain end included
(ops `span linr` / `span binr`).  `findSpanLinear` / `findSpanBin` above are the searches without the step back. -/

/-- **The repaired searches return what the searches without step back return whenever the span found is not empty**:
    linear search – for every knot function and parameter with `U_k ≠ U_{k+1}` at the span `k` found; in particular on the
    whole closed domain of a knot function with non-empty last span (`KnotsOk`), and strictly below the domain end of any
    sorted knot function; binary search – for every parameter and tolerance when the last span is not empty.  Hence all
    statements of this file about `findSpanLinear` / `findSpanBin` under `KnotsOk` are statements about the repaired code. -/
theorem findSpanR_eq_unrepaired (p : ℕ) (U : ℕ → K) (n : ℕ) (u : K) (hpn : p + 1 ≤ n) :
    (U (findSpanLinear p U n u) ≠ U (findSpanLinear p U n u + 1) → findSpanLinearR p U n u = findSpanLinear p U n u) ∧
    (KnotsOk p U n → U p ≤ u → u ≤ U n → findSpanLinearR p U n u = findSpanLinear p U n u) ∧
    (Monotone U → U p ≤ u → u < U n → findSpanLinearR p U n u = findSpanLinear p U n u) ∧
    (∀ tol, U (n - 1) ≠ U n → findSpanBinR p U n u tol = findSpanBin p U n u tol) :=
  ⟨findSpanLinearR_eq_of_nonempty p U n u hpn, fun h => findSpanLinearR_eq_of_knotsOk h u,
   fun hm => findSpanLinearR_eq_of_lt p U n u hpn hm, fun tol => findSpanBinR_eq_of_last_nonempty p U n u tol hpn⟩

/-- **What the repaired linear search returns, for EVERY valid knot vector** – non-decreasing knots, `n ≥ p + 1` control
    points, a domain that is not a single point (`U_p < U_n`); NO hypothesis on the last span – and every parameter of the
    closed domain `[U_p, U_n]`: a legal span index `p ≤ k < n` whose span is NOT EMPTY (`U_k < U_{k+1}`) and contains `u`
    (`U_k ≤ u ≤ U_{k+1}`); for `u < U_n` it is the half-open knot interval of `u`; for `u = U_n` it is the LAST NON-EMPTY
    span of the domain (its right end is `U_n`, every later span `i < n` is empty) – "the last one at the domain end". -/
theorem findSpanLinearR_spec (p : ℕ) (U : ℕ → K) (n : ℕ) (u : K) (hpn : p + 1 ≤ n) (hm : Monotone U)
    (hdom : U p < U n) (hlo : U p ≤ u) (hhi : u ≤ U n) :
    p ≤ findSpanLinearR p U n u ∧ findSpanLinearR p U n u < n ∧
    U (findSpanLinearR p U n u) < U (findSpanLinearR p U n u + 1) ∧
    U (findSpanLinearR p U n u) ≤ u ∧ u ≤ U (findSpanLinearR p U n u + 1) ∧
    (u < U n → u < U (findSpanLinearR p U n u + 1)) ∧
    (u = U n → U (findSpanLinearR p U n u + 1) = U n ∧ ∀ i, findSpanLinearR p U n u < i → i < n → U i = U (i + 1)) :=
  findSpanLinearR_dom p U n u hpn hm hdom hlo hhi

/-- … and that span is determined by these properties: below the domain end the half-open interval containing `u` is
    unique (`findSpanLinear_unique`); at the domain end ANY non-empty span `k' < n` with right end `U_n` is the one
    returned. -/
theorem findSpanLinearR_unique (p : ℕ) (U : ℕ → K) (n : ℕ) (hpn : p + 1 ≤ n) (hm : Monotone U) (hdom : U p < U n) :
    (∀ u k', U p ≤ u → u < U n → U k' ≤ u → u < U (k' + 1) → findSpanLinearR p U n u = k') ∧
    (∀ k', k' < n → U k' < U (k' + 1) → U (k' + 1) = U n → findSpanLinearR p U n (U n) = k') :=
  ⟨fun u k' hlo hhi h1 h2 => by
      rw [findSpanLinearR_eq_of_lt p U n u hpn hm hlo hhi]
      exact Geomdl.findSpanLinear_unique p U n u hpn hm hlo hhi k' h1 h2,
   fun k' h2 h3 h4 => findSpanLinearR_right_end_unique p U n hpn hm hdom k' h2 h3 h4⟩

/-- **Repaired binary search = repaired linear search** (termination included) on the closed domain of every sorted knot
    function, provided the tolerance shortcut at the domain end only fires for parameters of the last NON-EMPTY span
    (the span the search returns at `U_n`; for a non-empty last span this is the hypothesis of `findSpanBin_eq_linear`,
    violated by F-17b).  `2 * tol < 1` as there (start index of the bisection = the code's for `0 < tol < 1/2`; at `tol = 0`
    the code's banker's rounding starts one index lower, see `findSpanBin_eq_linear`). -/
theorem findSpanBinR_eq_linearR (p : ℕ) (U : ℕ → K) (n : ℕ) (u tol : K) (hpn : p + 1 ≤ n)
    (hm : Monotone U) (hlo : U p ≤ u) (hhi : u ≤ U n) (htol : 0 ≤ tol) (_htol2 : 2 * tol < 1)
    (hend : absK (U n - u) ≤ tol → U (findSpanLinearR p U n (U n)) ≤ u) :
    findSpanBinR p U n u tol = some (findSpanLinearR p U n u) :=
  Geomdl.findSpanBinR_eq_linearR p U n u tol hpn hm hlo hhi htol hend

/-- **The step back is what the repair adds** (closed witness, the knot vector of finding F-01b): degree 2,
    `U = [0,0,1,2,4,4,5,5]`, 5 control points, domain `[1, 4]`, `u = 4 = U_5`: the search without step back returns the
    EMPTY span 4 (`U_4 = U_5`), the repaired linear and binary searches return 3, the last non-empty span `[2, 4]`;
    strictly inside the domain (`u = 39/10`) all four agree.
    (Closed witness check: a statement about this one concrete input, decided by evaluation.) -/
theorem findSpanR_witness_F01b :
    findSpanLinear 2 (fnOf ([0,0,1,2,4,4,5,5] : List ℚ)) 5 4 = 4 ∧
    findSpanLinearR 2 (fnOf ([0,0,1,2,4,4,5,5] : List ℚ)) 5 4 = 3 ∧
    findSpanBin 2 (fnOf ([0,0,1,2,4,4,5,5] : List ℚ)) 5 4 (1/100000) = some 4 ∧
    findSpanBinR 2 (fnOf ([0,0,1,2,4,4,5,5] : List ℚ)) 5 4 (1/100000) = some 3 ∧
    findSpanLinear 2 (fnOf ([0,0,1,2,4,4,5,5] : List ℚ)) 5 (39/10) = 3 ∧
    findSpanLinearR 2 (fnOf ([0,0,1,2,4,4,5,5] : List ℚ)) 5 (39/10) = 3 ∧
    findSpanBinR 2 (fnOf ([0,0,1,2,4,4,5,5] : List ℚ)) 5 (39/10) (1/100000) = some 3 := by
  decide +kernel

/-- non-vacuity of `findSpanLinearR_spec` / `findSpanBinR_eq_linearR`: that knot vector meets the hypotheses (sorted,
    `n ≥ p + 1`, `U_2 = 1 < 4 = U_5`) although its last domain span is empty, at the domain end `u = 4`; an end knot
    repeated `p + 2` times does too -/
example : Monotone (fnOf ([0,0,1,2,4,4,5,5] : List ℚ)) ∧ 2 + 1 ≤ 5 ∧
    fnOf ([0,0,1,2,4,4,5,5] : List ℚ) 2 < fnOf ([0,0,1,2,4,4,5,5] : List ℚ) 5 ∧
    fnOf ([0,0,1,2,4,4,5,5] : List ℚ) 2 ≤ 4 ∧ (4:ℚ) ≤ fnOf ([0,0,1,2,4,4,5,5] : List ℚ) 5 ∧
    fnOf ([0,0,1,2,4,4,5,5] : List ℚ) (5 - 1) = fnOf ([0,0,1,2,4,4,5,5] : List ℚ) 5 :=
  ⟨mono_of_pairwise _ (by decide +kernel), by decide, by decide +kernel, by decide +kernel, by decide +kernel,
   by decide +kernel⟩
example : (absK (fnOf ([0,0,1,2,4,4,5,5] : List ℚ) 5 - 4) ≤ (1/100000 : ℚ) →
    fnOf ([0,0,1,2,4,4,5,5] : List ℚ) (findSpanLinearR 2 (fnOf ([0,0,1,2,4,4,5,5] : List ℚ)) 5
      (fnOf ([0,0,1,2,4,4,5,5] : List ℚ) 5)) ≤ 4) := by decide +kernel
example : Monotone (fnOf ([0,0,0,1/2,1,1,1,1] : List ℚ)) ∧
    findSpanLinearR 2 (fnOf ([0,0,0,1/2,1,1,1,1] : List ℚ)) 5 1 = 3 ∧
    findSpanLinear 2 (fnOf ([0,0,0,1/2,1,1,1,1] : List ℚ)) 5 1 = 4 :=
  ⟨mono_of_pairwise _ (by decide +kernel), by decide +kernel, by decide +kernel⟩
/-- non-vacuity of `findSpanR_eq_unrepaired`: a knot vector with non-empty last span -/
example : KnotsOk 2 (fnOf ([0,0,0,1/2,1,1,1] : List ℚ)) 4 :=
  ⟨mono_of_pairwise _ (by decide +kernel), by decide, by decide +kernel⟩

end C03
