import NurbsVerif.Lemmas.BasisProps
import NurbsVerif.Lemmas.Span
import NurbsVerif.Lemmas.SpanBin
import NurbsVerif.Model.Knots
import NurbsVerif.Lemmas.DersSum
import NurbsVerif.Lemmas.KnotVec

/-!
# C03  Basis functions and knot-span search satisfy their defining identities

Property theorems only (helper lemmas live in `Lemmas/`).  `K` is any linearly ordered field
(ℚ – hence every finite double – and ℝ).  The model functions are the ones the correspondence
check runs against `helpers.find_span_linear`, `helpers.basis_function`, `basis_function_all`.
-/
namespace C03
open Geomdl Blossom
variable {K : Type} [Field K] [LinearOrder K] [IsStrictOrderedRing K]

/-- Linear span search returns an index `k ∈ [p, n)` with `U k ≤ u`, and `u < U (k+1)` unless
    `k` is the last span (`u` at the domain end). -/
theorem findSpanLinear_spec (p : ℕ) (U : ℕ → K) (n : ℕ) (u : K) (hpn : p + 1 ≤ n)
    (hm : Monotone U) (hlo : U p ≤ u) :
    p ≤ findSpanLinear p U n u ∧ findSpanLinear p U n u < n ∧ U (findSpanLinear p U n u) ≤ u ∧
      (u < U (findSpanLinear p U n u + 1) ∨ findSpanLinear p U n u + 1 = n) :=
  Geomdl.findSpanLinear_spec p U n u hpn hm hlo

/-- The half-open knot interval containing a parameter is unique, and linear search returns it
    for every parameter strictly inside the domain. -/
theorem findSpanLinear_unique (p : ℕ) (U : ℕ → K) (n : ℕ) (u : K) (hpn : p + 1 ≤ n)
    (hm : Monotone U) (hlo : U p ≤ u) (hhi : u < U n) (k' : ℕ) (h1' : U k' ≤ u) (h2' : u < U (k'+1)) :
    findSpanLinear p U n u = k' :=
  Geomdl.findSpanLinear_unique p U n u hpn hm hlo hhi k' h1' h2'

/-- **Binary search = linear search** (termination included: the fuel the model gives the loop
    suffices) for every degree, non-decreasing knot function and parameter of the domain, provided the
    tolerance shortcut at the domain end only fires for parameters of the last span. -/
theorem findSpanBin_eq_linear (p : ℕ) (U : ℕ → K) (n : ℕ) (u tol : K) (hpn : p + 1 ≤ n)
    (hm : Monotone U) (hlo : U p ≤ u) (hhi : u ≤ U n) (htol : 0 ≤ tol)
    (hend : absK (U n - u) ≤ tol → U (n - 1) ≤ u) :
    findSpanBin p U n u tol = some (findSpanLinear p U n u) :=
  Geomdl.findSpanBin_eq_linear p U n u tol hpn hm hlo hhi htol hend

/-- Without that hypothesis the two searches differ (recorded finding F-17b): an interior knot within
    the tolerance of the domain end. -/
theorem findSpanBin_refuted_F17b :
    findSpanBin 2 (fnOf ([0,0,0,1/2,999995/1000000,1,1,1] : List ℚ)) 5 (999992/1000000) (1/100000)
      ≠ some (findSpanLinear 2 (fnOf ([0,0,0,1/2,999995/1000000,1,1,1] : List ℚ)) 5 (999992/1000000)) := by
  decide +kernel

/-- A2.2 returns `p+1` values. -/
theorem basisFuns_length (p : ℕ) (U : ℕ → K) (k : ℕ) (u : K) : (basisFuns p U k u).length = p + 1 :=
  Blossom.basisFuns_length p U k u

/-- The non-vanishing basis functions are non-negative on their (closed) span. -/
theorem basisFuns_nonneg (p : ℕ) (U : ℕ → K) (k : ℕ) (u : K) (h : SpanOk U k u) :
    ∀ x ∈ basisFuns p U k u, 0 ≤ x :=
  Geomdl.basisFuns_nonneg p h

/-- Partition of unity. -/
theorem basisFuns_sum (p : ℕ) (U : ℕ → K) (k : ℕ) (u : K) (h : SpanOk U k u) :
    (basisFuns p U k u).sum = 1 :=
  Geomdl.basisFuns_sum p h

/-- A2.2 *is* the Cox–de Boor recursion (Eq. 2.5, with 0/0 := 0) on the half-open span, and every
    Cox–de Boor function outside `k-p..k` vanishes there (local support). -/
theorem basisFuns_eq_coxDeBoor (U : ℕ → K) (k : ℕ) (u : K) (hm : Monotone U) (h1 : U k ≤ u) (h2 : u < U (k+1))
    (p : ℕ) (hp : p ≤ k) (i : ℕ) :
    cdb U p i u = if k ≤ i + p ∧ i ≤ k then (basisFuns p U k u).getD (i + p - k) 0 else 0 :=
  cdb_eq_basisFuns U k u hm h1 h2 p hp i

/-- **The k-th derivatives (k ≥ 1) of the non-vanishing basis functions sum to zero** – for the model
    `basisDers` that `helpers.basis_function_ders` (A2.3) is compared with: the derivatives of the span
    polynomials of the unit control sequences (every degree, sorted knots, non-empty span, order). -/
theorem basisDers_sum_zero (p : ℕ) (U : ℕ → K) (κ : ℕ) (u : K) (d k : ℕ)
    (hp : p ≤ κ) (hm : Monotone U) (hspan : U κ < U (κ+1)) (hk1 : 1 ≤ k) (hk : k ≤ d) :
    ∑ r ∈ Finset.range (p+1), ((basisDers p U κ u d).getD k []).getD r 0 = 0 :=
  Geomdl.basisDers_sum_zero p U κ u d k hp hm hspan hk1 hk

/-- … and the zeroth row of that table is A2.2 itself. -/
theorem basisDers_zero_row (p : ℕ) (U : ℕ → K) (κ : ℕ) (u : K) (d r : ℕ) (hp : p ≤ κ) (hr : r ≤ p) :
    ((basisDers p U κ u d).getD 0 []).getD r 0 = (basisFuns p U κ u).getD r 0 :=
  Geomdl.basisDers_zero_row p U κ u d r hp hr

/-- Generated knot vectors have the documented length `n + p + 1` (clamped or not). -/
theorem knotGenerate_length (p n : ℕ) (clamped : Bool) (tol : K) (htol : tol < 1) (hp : 1 ≤ p) (hn : p + 1 ≤ n) :
    (knotGenerate p n clamped tol : List K).length = n + p + 1 :=
  Geomdl.knotGenerate_length p n clamped tol htol hp hn

/-- A clamped generated vector starts with `p + 1` zeros. -/
theorem knotGenerate_clamped_start (p n : ℕ) (tol : K) (htol : tol < 1) (hn : p + 1 ≤ n) (i : ℕ) (hi : i ≤ p) :
    (knotGenerate p n true tol : List K).getD i 0 = 0 :=
  Geomdl.knotGenerate_clamped_start p n tol htol hn i hi

/-- `knotvector.check` rejects every knot vector of the wrong length and every knot vector with a descent. -/
theorem knotCheck_rejects (p n : ℕ) (U : List K) :
    (U.length ≠ p + n + 1 → knotCheck p U n = false) ∧
    (∀ i, i + 1 < U.length → U.getD (i+1) 0 < U.getD i 0 → knotCheck p U n = false) :=
  ⟨knotCheck_wrong_length p n U, fun i hi hd => knotCheck_descent p n U i hi hd⟩

/-- Normalisation is the order-preserving affine map of the knot range onto `[0, 1]`. -/
theorem knotNormalize_spec (V : List K) (hne : V ≠ []) (hrange : V.headD 0 < V.getLastD 0) :
    (knotNormalize V).length = V.length ∧
    (knotNormalize V).headD 0 = 0 ∧ (knotNormalize V).getLastD 0 = 1 ∧
    (∀ i j, fnOf V i ≤ fnOf V j → fnOf (knotNormalize V) i ≤ fnOf (knotNormalize V) j) ∧
    ∀ i, fnOf (knotNormalize V) i = (1 / (V.getLastD 0 - V.headD 0)) * fnOf V i + (-(V.headD 0) / (V.getLastD 0 - V.headD 0)) := by
  obtain ⟨h1, h2, h3, h4⟩ := Geomdl.knotNormalize_spec V hne hrange
  exact ⟨h1, h2, h3, h4, fun i => fnOf_knotNormalize V i hne⟩

/-- "all degrees" variant: entry `[j][i]` is entry `j` of the degree-`i` basis (and `None` above the diagonal). -/
theorem basisFunAll_eq (p : ℕ) (U : ℕ → K) (k : ℕ) (u : K) (j i : ℕ) (hj : j ≤ p) (hi : i ≤ p) :
    ((basisFunAll p U k u).getD j []).getD i none = if j ≤ i then (basisFuns i U k u)[j]? else none := by
  unfold basisFunAll
  simp [List.getD_eq_getElem?_getD, hj, hi, Nat.lt_succ_of_le]

/-- non-vacuity: the hypotheses are met by the cubic clamped vector 0,0,0,0,1,1,1,1 on span 3 at u = 1/2 -/
example : SpanOk (fun i => if i ≤ 3 then (0:ℚ) else 1) 3 (1/2) where
  mono := by
    intro a b hab
    by_cases ha : a ≤ 3 <;> by_cases hb : b ≤ 3 <;> simp [ha, hb] <;> omega
  lo := by norm_num
  hi := by norm_num
  nonempty := by norm_num

end C03
