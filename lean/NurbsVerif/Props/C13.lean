import NurbsVerif.Model.Layout
import NurbsVerif.Lemmas.Layout
import NurbsVerif.Lemmas.LayoutOps
import NurbsVerif.Lemmas.LayoutVol
import NurbsVerif.Lemmas.LayoutSweep
import NurbsVerif.Lemmas.LayoutEval
import NurbsVerif.Lemmas.Span
import NurbsVerif.Lemmas.AssembleLayout
import NurbsVerif.Lemmas.LayoutBoundaryVol
import NurbsVerif.Lemmas.FitParams
import NurbsVerif.Lemmas.LayoutSweepGen
import NurbsVerif.Lemmas.ConstructEval
import NurbsVerif.Lemmas.ConstructRatMain
import NurbsVerif.Lemmas.LayoutGuards

/-!
# C13  One control-net layout convention across all modules

In the flat control-point list the `v` index varies fastest, then `u`, then `w`
(`flatIdx2 sv u v = v + sv*u`, `flatIdx3 su sv u v w = v + sv*(u + su*w)`).  Property theorems only;
the model (`Model/Layout.lean`) is what the correspondence check runs against
`Surface.ctrlpts2d`, `control_points.*Manager`, `compatibility.flip_ctrlpts*`, `operations.transpose` /
`flip`, `construct.*` and `sweeping.sweep_vector`.  The point type `α` and the knot-vector type `κ` are
arbitrary: nothing here depends on arithmetic, so the statements hold for rational and non-rational
shapes, all sizes, all degrees.  `constructVolume` / `sweepCurve` mirror the REPAIRED code (findings
F-13a, F-13b); the pinned behaviour is refuted on concrete witnesses at the end.
-/
namespace C13
open Geomdl
variable {α κ : Type} [Inhabited α]

/-! ## 1. the layout is a bijection -/

/-- Surface layout: `(u, v) ↦ v + sv*u` maps `[0,su) × [0,sv)` into `[0, su*sv)`, is injective there,
    and every index below `su*sv` is hit by exactly the pair `(i / sv, i % sv)`. -/
theorem flatIdx2_bijection (su sv : ℕ) :
    (∀ u v, u < su → v < sv → flatIdx2 sv u v < su * sv) ∧
    (∀ u v u' v', v < sv → v' < sv → flatIdx2 sv u v = flatIdx2 sv u' v' → u = u' ∧ v = v') ∧
    (∀ i, i < su * sv → i / sv < su ∧ i % sv < sv ∧ flatIdx2 sv (i / sv) (i % sv) = i) ∧
    (∀ u v, v < sv → flatIdx2 sv u v / sv = u ∧ flatIdx2 sv u v % sv = v) :=
  ⟨fun _ _ hu hv => flatIdx2_lt hu hv, fun _ _ _ _ hv hv' h => flatIdx2_inj hv hv' h,
   fun _ hi => flatIdx2_divmod hi, fun _ _ hv => ⟨flatIdx2_div hv, flatIdx2_mod hv⟩⟩

/-- Volume layout: `(u, v, w) ↦ v + sv*(u + su*w)` is a bijection between
    `[0,su) × [0,sv) × [0,sw)` and `[0, su*sv*sw)`, with inverse `i ↦ (i / sv % su, i % sv, i / sv / su)`. -/
theorem flatIdx3_bijection (su sv sw : ℕ) :
    (∀ u v w, u < su → v < sv → w < sw → flatIdx3 su sv u v w < su * sv * sw) ∧
    (∀ u v w u' v' w', u < su → u' < su → v < sv → v' < sv →
        flatIdx3 su sv u v w = flatIdx3 su sv u' v' w' → u = u' ∧ v = v' ∧ w = w') ∧
    (∀ i, i < su * sv * sw → i / sv % su < su ∧ i % sv < sv ∧ i / sv / su < sw ∧
        flatIdx3 su sv (i / sv % su) (i % sv) (i / sv / su) = i) :=
  ⟨fun _ _ _ hu hv hw => flatIdx3_lt hu hv hw,
   fun _ _ _ _ _ _ hu hu' hv hv' h => flatIdx3_inj hu hu' hv hv' h,
   fun _ hi => flatIdx3_divmod hi⟩

/-! ## 2. every accessor addresses `flatIdx` -/

/-- `ctrlpts2d[u][v]` (built by `Surface.set_ctrlpts`) is `ctrlpts[v + size_v*u]`. -/
theorem ctrlpts2d_addresses_flatIdx (su sv : ℕ) (P : List α) (u v : ℕ) (hu : u < su) (hv : v < sv) :
    get2 (ctrlpts2dOf su sv P) u v = P.getD (flatIdx2 sv u v) default :=
  ctrlpts2dOf_get2 P hu hv

/-- The `ctrlpts2d` setter, as written (in-place assignment into a pre-allocated list), stores
    `value[u][v]` at `v + size_v*u`, and nothing else: the result has `size_u*size_v` entries. -/
theorem ctrlpts2d_setter_addresses_flatIdx (G : List (List α)) (u v : ℕ) (hu : u < G.length)
    (hv : v < (G.headD []).length) :
    (setCtrlpts2dLoop G).1 = G.length ∧ (setCtrlpts2dLoop G).2.1 = (G.headD []).length ∧
    (setCtrlpts2dLoop G).2.2.length = G.length * (G.headD []).length ∧
    (setCtrlpts2dLoop G).2.2.getD (flatIdx2 (setCtrlpts2dLoop G).2.1 u v) default = get2 G u v := by
  rw [setCtrlpts2dLoop_eq]
  exact ⟨rfl, rfl, length_tab2 _ _ _, setCtrlpts2d_getD G hu hv⟩

/-- Setter after getter: writing the 2-D view back gives the same sizes and the same flat net. -/
theorem ctrlpts2d_setter_getter (su sv : ℕ) (P : List α) (h : P.length = su * sv) (hsu : 0 < su) :
    setCtrlpts2dLoop (ctrlpts2dOf su sv P) = (su, sv, P) := by
  rw [setCtrlpts2dLoop_eq]; exact setCtrlpts2d_ctrlpts2dOf h hsu

/-- `SurfaceManager.find_index` and `VolumeManager.find_index` are the flat indices.
    (Unfolding lemma: the model of `find_index` is the flat-index formula.) -/
theorem managers_find_index (su sv sw u v w : ℕ) :
    surfFindIndex su sv u v = flatIdx2 sv u v ∧ volFindIndex su sv sw u v w = flatIdx3 su sv u v w :=
  ⟨surfFindIndex_eq su sv u v, volFindIndex_eq su sv sw u v w⟩

/-- `SurfaceManager.get_ctrlpt(u, v)` on a surface's point list returns control point `(u, v)`. -/
theorem surfaceManager_get (S : Srf α κ) (h : S.pts.length = S.su * S.sv) (u v : ℕ) (hu : u < S.su) (hv : v < S.sv) :
    mgrGet S.pts (surfFindIndex S.su S.sv u v) = some (S.at u v) := by
  rw [surfFindIndex_eq]; unfold mgrGet Srf.at
  exact getElem?_of_getD (by rw [h]; exact flatIdx2_lt hu hv)

/-- `VolumeManager.get_ctrlpt(u, v, w)` on a volume's point list returns control point `(u, v, w)`. -/
theorem volumeManager_get (V : Vol α κ) (h : V.pts.length = V.su * V.sv * V.sw) (u v w : ℕ)
    (hu : u < V.su) (hv : v < V.sv) (hw : w < V.sw) :
    mgrGet V.pts (volFindIndex V.su V.sv V.sw u v w) = some (V.at u v w) := by
  rw [volFindIndex_eq]; unfold mgrGet Vol.at
  exact getElem?_of_getD (by rw [h]; exact flatIdx3_lt hu hv hw)

/-- `SurfaceManager.set_ctrlpt(pt, u, v)` succeeds for in-range `(u, v)`, a following `get_ctrlpt(u, v)`
    returns `pt`, and every other in-range `(u', v')` still reads what it read before. -/
theorem surfaceManager_set_get (su sv : ℕ) (P : List α) (h : P.length = su * sv) (pt : α) (u v : ℕ)
    (hu : u < su) (hv : v < sv) :
    ∃ P', mgrSet P (surfFindIndex su sv u v) pt = some P' ∧ mgrGet P' (surfFindIndex su sv u v) = some pt ∧
      ∀ u' v', v' < sv → (u', v') ≠ (u, v) →
        mgrGet P' (surfFindIndex su sv u' v') = mgrGet P (surfFindIndex su sv u' v') := by
  have hlt : surfFindIndex su sv u v < P.length := by rw [surfFindIndex_eq, h]; exact flatIdx2_lt hu hv
  refine ⟨_, mgrSet_eq_some pt hlt, mgrGet_set_same pt hlt, ?_⟩
  intro u' v' hv' hne
  apply mgrGet_set_other
  rw [surfFindIndex_eq, surfFindIndex_eq]
  intro e
  obtain ⟨e1, e2⟩ := flatIdx2_inj hv hv' e
  exact hne (by rw [e1, e2])

/-- The same for `VolumeManager.set_ctrlpt(pt, u, v, w)`. -/
theorem volumeManager_set_get (su sv sw : ℕ) (P : List α) (h : P.length = su * sv * sw) (pt : α) (u v w : ℕ)
    (hu : u < su) (hv : v < sv) (hw : w < sw) :
    ∃ P', mgrSet P (volFindIndex su sv sw u v w) pt = some P' ∧
      mgrGet P' (volFindIndex su sv sw u v w) = some pt ∧
      ∀ u' v' w', u' < su → v' < sv → (u', v', w') ≠ (u, v, w) →
        mgrGet P' (volFindIndex su sv sw u' v' w') = mgrGet P (volFindIndex su sv sw u' v' w') := by
  have hlt : volFindIndex su sv sw u v w < P.length := by rw [volFindIndex_eq, h]; exact flatIdx3_lt hu hv hw
  refine ⟨_, mgrSet_eq_some pt hlt, mgrGet_set_same pt hlt, ?_⟩
  intro u' v' w' hu' hv' hne
  apply mgrGet_set_other
  rw [volFindIndex_eq, volFindIndex_eq]
  intro e
  obtain ⟨e1, e2, e3⟩ := flatIdx3_inj hu hu' hv hv' e
  exact hne (by rw [e1, e2, e3])

/-- `extract_curves`: point `v` of the `u`-th curve of the `'v'` family, and point `u` of the `v`-th
    curve of the `'u'` family, are control point `(u, v)`; the families have `size_u` resp. `size_v`
    members. -/
theorem extract_curves_address_flatIdx (S : Srf α κ) (u v : ℕ) (hu : u < S.su) (hv : v < S.sv) :
    ((extractCurvesV S)[u]?.map fun C => C.pts.getD v default) = some (S.at u v) ∧
    ((extractCurvesU S)[v]?.map fun C => C.pts.getD u default) = some (S.at u v) ∧
    (extractCurvesV S).length = S.su ∧ (extractCurvesU S).length = S.sv :=
  ⟨extractCurvesV_at S hu hv, extractCurvesU_at S hu hv, by simp [extractCurvesV], by simp [extractCurvesU]⟩

/-- `extract_surfaces`: control point `(u, v)` of the `w`-th `'uv'` surface, `(u, w)` of the `v`-th
    `'uw'` surface and `(v, w)` of the `u`-th `'vw'` surface are all control point `(u, v, w)` of the
    volume. -/
theorem extract_surfaces_address_flatIdx (V : Vol α κ) (u v w : ℕ) (hu : u < V.su) (hv : v < V.sv) (hw : w < V.sw) :
    ((extractSurfacesUV V)[w]?.map fun S => S.at u v) = some (V.at u v w) ∧
    ((extractSurfacesUW V)[v]?.map fun S => S.at u w) = some (V.at u v w) ∧
    ((extractSurfacesVW V)[u]?.map fun S => S.at v w) = some (V.at u v w) :=
  ⟨extractSurfacesUV_at V hu hv hw, extractSurfacesUW_at V hu hv hw, extractSurfacesVW_at V hu hv hw⟩

/-! ## 3. row / column flips -/

/-- `flip_ctrlpts_u` reads entry `i + size_u*j` into position `j + size_v*i`; `flip_ctrlpts` does the
    converse. -/
theorem flip_ctrlpts_entries (P : List α) (su sv i j : ℕ) (hi : i < su) (hj : j < sv) :
    (flipCtrlptsU P su sv).getD (flatIdx2 sv i j) default = P.getD (flatIdx2 su j i) default ∧
    (flipCtrlpts P su sv).getD (flatIdx2 su j i) default = P.getD (flatIdx2 sv i j) default :=
  ⟨flipCtrlptsU_getD P hi hj, flipCtrlpts_getD P hj hi⟩

/-- `flip_ctrlpts ∘ flip_ctrlpts_u = id` and `flip_ctrlpts_u ∘ flip_ctrlpts = id` on nets of
    `size_u*size_v` points. -/
theorem flip_ctrlpts_inverse (P : List α) (su sv : ℕ) (h : P.length = su * sv) :
    flipCtrlpts (flipCtrlptsU P su sv) su sv = P ∧ flipCtrlptsU (flipCtrlpts P su sv) su sv = P :=
  ⟨flipCtrlpts_flipCtrlptsU h, flipCtrlptsU_flipCtrlpts h⟩

/-- `flip_ctrlpts2d` swaps the two indices of the grid, and on the 2-D view of a flat net it is
    `flip_ctrlpts` of that net. -/
theorem flip_ctrlpts2d_spec (P : List α) (G : List (List α)) (su sv i j : ℕ) (hi : i < sv) (hj : j < su) :
    get2 (flipCtrlpts2d G su sv) i j = get2 G j i ∧
    (setCtrlpts2d (flipCtrlpts2d (ctrlpts2dOf su sv P) su sv)).2.2 = flipCtrlpts P su sv :=
  ⟨flipCtrlpts2d_get2 G hi hj, flipCtrlpts2d_flat P (by omega)⟩

/-! ## 4. transposition and `operations.flip` -/

/-- `operations.transpose` swaps degrees, knot vectors and sizes, and control point `(v, u)` of the
    result is control point `(u, v)` of the input. -/
theorem transpose_swaps (S : Srf α κ) (h : S.WF) :
    (transposeSrf S).du = S.dv ∧ (transposeSrf S).dv = S.du ∧ (transposeSrf S).ku = S.kv ∧
    (transposeSrf S).kv = S.ku ∧ (transposeSrf S).su = S.sv ∧ (transposeSrf S).sv = S.su ∧
    (transposeSrf S).pts.length = S.sv * S.su ∧
    ∀ u v, u < S.su → v < S.sv → (transposeSrf S).at v u = S.at u v := by
  have hT := transposeSrf_eq S (by have := h.2.2; omega)
  refine ⟨by rw [hT], by rw [hT], by rw [hT], by rw [hT], by rw [hT], by rw [hT], ?_, ?_⟩
  · rw [hT]; exact length_tab2 _ _ _
  · intro u v hu hv; exact transposeSrf_at S hu hv

/-- Transposing twice returns the surface (degrees, knots, sizes, net). -/
theorem transpose_involution (S : Srf α κ) (h : S.WF) : transposeSrf (transposeSrf S) = S :=
  transposeSrf_invol S h

/-- Transposing swaps the roles of `u` and `v` in evaluation: on spans `spanU ∈ [pu, su)`,
    `spanV ∈ [pv, sv)` the A3.5 point of the transposed surface at `(v, u)` is the A3.5 point of the
    surface at `(u, v)`, for control points of one common dimension. -/
theorem transpose_eval {K : Type} [Field K] (S : Srf (List K) (ℕ → K)) (h : S.WF) (d : ℕ)
    (hd : ∀ p ∈ S.pts, p.length = d) (spanU spanV : ℕ) (hpU : S.du ≤ spanU) (hpV : S.dv ≤ spanV)
    (hU : spanU < S.su) (hV : spanV < S.sv) (u v : K) :
    surfacePointAt (transposeSrf S).du (transposeSrf S).dv (transposeSrf S).ku (transposeSrf S).kv
        (transposeSrf S).sv (transposeSrf S).pts spanV spanU v u
      = surfacePointAt S.du S.dv S.ku S.kv S.sv S.pts spanU spanV u v :=
  transposeSrf_surfacePointAt S h d hd spanU spanV hpU hpV hU hV u v

/-- The same for the evaluated point `evaluate_single` computes (A3.5 after the linear span search):
    for non-decreasing knot vectors, at least `degree+1` control points per direction and parameters
    not below the domain start, `S^T(v, u) = S(u, v)`. -/
theorem transpose_eval_point {K : Type} [Field K] [LinearOrder K] [IsStrictOrderedRing K]
    (S : Srf (List K) (ℕ → K)) (h : S.WF) (d : ℕ) (hd : ∀ p ∈ S.pts, p.length = d)
    (hmU : Monotone S.ku) (hmV : Monotone S.kv) (hdu : S.du + 1 ≤ S.su) (hdv : S.dv + 1 ≤ S.sv)
    (u v : K) (hu : S.ku S.du ≤ u) (hv : S.kv S.dv ≤ v) :
    surfacePoint (transposeSrf S).du (transposeSrf S).dv (transposeSrf S).ku (transposeSrf S).kv
        (transposeSrf S).su (transposeSrf S).sv (transposeSrf S).pts v u
      = surfacePoint S.du S.dv S.ku S.kv S.su S.sv S.pts u v := by
  obtain ⟨a1, a2, _, _⟩ := findSpanLinear_spec S.du S.ku S.su u hdu hmU hu
  obtain ⟨b1, b2, _, _⟩ := findSpanLinear_spec S.dv S.kv S.sv v hdv hmV hv
  have hT := transposeSrf_eq S (by have := h.2.2; omega)
  have e := transposeSrf_surfacePointAt S h d hd _ _ a1 b1 a2 b2 u v
  unfold surfacePoint
  have e1 : (transposeSrf S).du = S.dv := by rw [hT]
  have e2 : (transposeSrf S).dv = S.du := by rw [hT]
  have e3 : (transposeSrf S).ku = S.kv := by rw [hT]
  have e4 : (transposeSrf S).kv = S.ku := by rw [hT]
  have e5 : (transposeSrf S).su = S.sv := by rw [hT]
  have e6 : (transposeSrf S).sv = S.su := by rw [hT]
  simp only [e1, e2, e3, e4, e5, e6] at e ⊢
  exact e

/-- The in-place loop of `operations.flip` reverses the flat list; control point `(u, v)` of the result
    is control point `(size_u-1-u, size_v-1-v)` of the input; flipping twice is the identity. -/
theorem flip_spec (S : Srf α κ) (h : S.pts.length = S.su * S.sv) :
    flipLoop S.pts = (flipSrf S).pts ∧
    (∀ u v, u < S.su → v < S.sv → (flipSrf S).at u v = S.at (S.su - 1 - u) (S.sv - 1 - v)) ∧
    flipSrf (flipSrf S) = S :=
  ⟨flipLoop_eq_reverse S.pts, fun _ _ hu hv => flipSrf_at S h hu hv, flipSrf_invol S⟩

/-! ## 5. extract, then construct along the matching direction -/

/-- Surfaces, both directions: the `'v'` family stacked along `u` (with the surface's `u` degree and
    knots) and the `'u'` family stacked along `v` give back the surface – degrees, knots, sizes, net. -/
theorem extract_construct_surface (S : Srf α κ) (h : S.WF) :
    constructSurface Dir.u S.du S.ku (extractCurvesV S) = some S ∧
    constructSurface Dir.v S.dv S.kv (extractCurvesU S) = some S :=
  ⟨construct_extract_u S h, construct_extract_v S h⟩

/-- Volumes, all three directions (repaired `construct_volume`): the `'vw'` family stacked along `u`,
    the `'uw'` family along `v`, the `'uv'` family along `w` each give back the volume. -/
theorem extract_construct_volume (V : Vol α κ) (h : V.WF) :
    constructVolume Dir.u V.du V.ku (extractSurfacesVW V) = some V ∧
    constructVolume Dir.v V.dv V.kv (extractSurfacesUW V) = some V ∧
    constructVolume Dir.w V.dw V.kw (extractSurfacesUV V) = some V :=
  ⟨construct_extract_vol_u V h, construct_extract_vol_v V h, construct_extract_vol_w V h⟩

/-- Direction `w` also holds for the pinned `construct_volume`. -/
theorem extract_construct_volume_w_pinned (V : Vol α κ) (h : V.WF) :
    constructVolumePinned Dir.w V.dw V.kw (extractSurfacesUV V) = some V :=
  constructPinned_extract_vol_w V h

/-! ## 6. sweeping along a vector -/

/-- Repaired `sweep_vector` on a curve returns a surface of degree `1 × p` with sizes `2 × n`, and its
    two `u`-sections (the `'v'` family of `extract_curves`) are the input curve and its translate.
    (Mostly unfolding (`rfl` components of the constructed record); the substantive part is the last conjunct.)
    Guard of the code (and of the driver ops `sweepc` / `sweepcr`): the translated points have the number of coordinates
    of the input points (`hd`, `htr`) – `point_translate` zips the point with the vector, so a vector with fewer
    entries than the points have spatial coordinates shortens them and `set_ctrlpts` of the swept copy raises, while
    the model would return a ragged net.  For the two point maps of the code `htr` follows from
    `vec.length ≥` number of spatial coordinates (`sweep_point_maps_keep_dimension`). -/
theorem sweep_curve_sections {β : Type} (tr : List β → List β) (kvGen : κ) (C : Crv (List β) κ)
    (d : ℕ) (hd : ∀ p ∈ C.pts, p.length = d) (htr : ∀ p ∈ C.pts, (tr p).length = d) :
    ∃ S, sweepCurve tr kvGen C = some S ∧ S.du = 1 ∧ S.dv = C.deg ∧ S.ku = kvGen ∧ S.kv = C.kv ∧
      S.su = 2 ∧ S.sv = C.pts.length ∧ extractCurvesV S = [C, { C with pts := C.pts.map tr }] ∧
      ∀ p ∈ S.pts, p.length = d :=
  ⟨_, sweepCurve_eq tr kvGen C, rfl, rfl, rfl, rfl, rfl, rfl, extractCurvesV_sweep tr kvGen C,
    sweep_pts_length tr C.pts d hd htr⟩

/-- `sweep_vector` on a surface returns a volume of degree `pu × pv × 1` with sizes `su × sv × 2`, and its
    two `w`-sections (the `'uv'` family of `extract_surfaces`) are the input surface and its translate.
    (Mostly unfolding (`rfl` components of the constructed record); the substantive part is the last conjunct.)
    The point map is the one of the code and of the driver op `sweeps`, selected by the flag `rat` (`rat = true`: a
    rational surface, stored homogeneous points, `pointTranslateW vec`; `rat = false`: `pointTranslate vec`), and the
    guards are tied to that flag – the control points have at least 3 spatial coordinates (`h3`; for `rat = true` `d`
    counts the weight, so `4 ≤ d`: `Volume.set_ctrlpts` raises "A volume should be at least 3-dimensional" for a
    planar surface, while the model would return), the vector has at least as many entries as there are spatial
    coordinates (`hvec`: else the translated points are shorter and `set_ctrlpts` of the copy raises) and, for a
    rational surface, no weight is zero (`hw`: else `ctrlpts` divides by zero). -/
theorem sweep_surface_sections {K : Type} [Field K] [LinearOrder K] [IsStrictOrderedRing K]
    (vec : List K) (rat : Bool) (kvGen : κ) (S : Srf (List K) κ) (h : S.WF)
    (d : ℕ) (hd : ∀ p ∈ S.pts, p.length = d) (h3 : (if rat then 4 else 3) ≤ d)
    (hvec : (if rat then d - 1 else d) ≤ vec.length) (hw : rat = true → HomOk S.pts) :
    ∃ V, sweepSurface (if rat then pointTranslateW vec else pointTranslate vec) kvGen S = some V ∧
      V.du = S.du ∧ V.dv = S.dv ∧ V.dw = 1 ∧ V.kw = kvGen ∧
      V.su = S.su ∧ V.sv = S.sv ∧ V.sw = 2 ∧
      extractSurfacesUV V = [S, { S with pts := S.pts.map (if rat then pointTranslateW vec else pointTranslate vec) }] ∧
      ∀ p ∈ V.pts, p.length = d :=
  ⟨_, sweepSurface_eq _ kvGen S, rfl, rfl, rfl, rfl, rfl, rfl, rfl, extractSurfacesUV_sweep _ kvGen S h,
    sweep_pts_length _ S.pts d hd (sweepTr_length vec rat d S.pts hd (by cases rat <;> simp at h3 ⊢ <;> omega) hvec)⟩

/-- **The two point maps of `sweep_vector` keep the number of coordinates exactly under the guard**: `point_translate`
    returns `min (len p) (len vec)` coordinates, so `d ≤ len vec` is what keeps a `d`-coordinate point at `d`
    coordinates; the rational map (divide by the weight, translate, multiply back, append the weight) keeps `d + 1`
    homogeneous coordinates under the same condition. -/
theorem sweep_point_maps_keep_dimension {K : Type} [Field K] [LinearOrder K] [IsStrictOrderedRing K] (vec p : List K) (d : ℕ) :
    (pointTranslate vec p).length = min p.length vec.length ∧
    (p.length = d → d ≤ vec.length → (pointTranslate vec p).length = d) ∧
    (p.length = d + 1 → d ≤ vec.length → (pointTranslateW vec p).length = d + 1) :=
  ⟨pointTranslate_length_min vec p, pointTranslate_length_of_le vec p d, pointTranslateW_length_of_le vec p d⟩

/-- For a rational shape the point map used by the sweep (divide by the weight, translate, multiply
    by the weight) keeps the weight and projects to the translate of the projected point. -/
theorem sweep_rational_point {K : Type} [Field K] (vec xs : List K) (w : K) (hw : w ≠ 0) :
    project (pointTranslateW vec (xs ++ [w])) = pointTranslate vec (project (xs ++ [w])) ∧
    (pointTranslateW vec (xs ++ [w])).getLastD 0 = w :=
  ⟨project_pointTranslateW vec xs w hw, pointTranslateW_weight vec xs w⟩

/-! ## 7. the pinned code violates the property (findings F-13a, F-13b) -/

/-- F-13a: on the 2×3×4 net `0..23` the pinned `construct_volume('u', …)` applied to the `'vw'` family does
    not return the volume …
    (Closed witness check: a statement about this one concrete input, decided by evaluation.) -/
theorem constructVolumePinned_refutes_u :
    constructVolumePinned Dir.u c13WitnessVol.du c13WitnessVol.ku (extractSurfacesVW c13WitnessVol)
      ≠ some c13WitnessVol := by decide

/-- … nor does `construct_volume('v', …)` applied to the `'uw'` family.
    (Closed witness check: a statement about this one concrete input, decided by evaluation.) -/
theorem constructVolumePinned_refutes_v :
    constructVolumePinned Dir.v c13WitnessVol.dv c13WitnessVol.kv (extractSurfacesUW c13WitnessVol)
      ≠ some c13WitnessVol := by decide

/-- F-13b: the pinned `sweep_vector` raises on every curve. -/
theorem sweepCurvePinned_refutes (tr : α → α) (kvGen : κ) (C : Crv α κ) :
    sweepCurvePinned tr kvGen C = none :=
  sweepCurvePinned_eq_none tr kvGen C

/-! ## non-vacuity -/

/-- the hypotheses are met by the 2×3×4 witness net (pairwise different sizes and degrees) … -/
example : c13WitnessVol.WF := by unfold Vol.WF; decide
/-- … and by a 2×3 surface net -/
example : c13WitnessSrf.WF := by unfold Srf.WF; decide
/-- on which the repaired code does what the theorems say -/
example : constructVolume Dir.u c13WitnessVol.du c13WitnessVol.ku (extractSurfacesVW c13WitnessVol)
    = some c13WitnessVol := by decide
example : transposeSrf c13WitnessSrf ≠ c13WitnessSrf := by decide

/-! ## volume evaluation is tied to the layout `extract_surfaces` uses -/

/-- **Volume evaluation through the extracted iso-surface families.**  For a volume with points of
    one dimension and at least `degree+1` control points per direction, the point `evaluate_single`
    computes at `(u, v, w)` is, in every coordinate,
    * the degree-`dw` curve point at `w` of the polygon `[S(u, v) for S in extract_surfaces(vol)['uv']]`,
    * the degree-`dv` curve point at `v` of the polygon `[S(u, w) for S in extract_surfaces(vol)['uw']]`,
    * the degree-`du` curve point at `u` of the polygon `[S(v, w) for S in extract_surfaces(vol)['vw']]`,
    each surface evaluated by the surface evaluator with its own degrees, knots, sizes and net (all spans
    by the library's linear search).  So the flat index `v + sv·(u + su·w)` read by the volume evaluator
    and the nets `extract_surfaces` builds describe the same tensor-product arrangement. -/
theorem volume_eval_through_extracted_surfaces {K : Type} [Field K] [LinearOrder K] [IsStrictOrderedRing K]
    (V : Vol (List K) (ℕ → K)) (d : ℕ) (h : V.WF) (hd : ∀ p ∈ V.pts, p.length = d)
    (hdu : V.du + 1 ≤ V.su) (hdv : V.dv + 1 ≤ V.sv) (hdw : V.dw + 1 ≤ V.sw) (u v w : K) (j : ℕ) :
    (volumePoint V.du V.dv V.dw V.ku V.kv V.kw V.su V.sv V.sw V.pts u v w).getD j 0
      = (curvePoint V.dw V.kw ((extractSurfacesUV V).map fun S =>
            surfacePoint S.du S.dv S.ku S.kv S.su S.sv S.pts u v) w).getD j 0 ∧
    (volumePoint V.du V.dv V.dw V.ku V.kv V.kw V.su V.sv V.sw V.pts u v w).getD j 0
      = (curvePoint V.dv V.kv ((extractSurfacesUW V).map fun S =>
            surfacePoint S.du S.dv S.ku S.kv S.su S.sv S.pts u w) v).getD j 0 ∧
    (volumePoint V.du V.dv V.dw V.ku V.kv V.kw V.su V.sv V.sw V.pts u v w).getD j 0
      = (curvePoint V.du V.ku ((extractSurfacesVW V).map fun S =>
            surfacePoint S.du S.dv S.ku S.kv S.su S.sv S.pts v w) u).getD j 0 :=
  ⟨volumePoint_extractUV V d h hd hdu hdv hdw u v w j, volumePoint_extractUW V d h hd hdu hdv hdw u v w j,
   volumePoint_extractVW V d h hd hdu hdv hdw u v w j⟩

/-- The same on given spans (`volumePointAt` / `surfacePointAt` / `curvePointAt`, the inner loops of the
    evaluators), any spans `ku ∈ [du, su)`, `kv ∈ [dv, sv)`, `kw ∈ [dw, sw)`, any parameters. -/
theorem volume_eval_through_extracted_surfaces_at {K : Type} [Field K] [LinearOrder K] [IsStrictOrderedRing K]
    (V : Vol (List K) (ℕ → K)) (d : ℕ) (h : V.WF) (hd : ∀ p ∈ V.pts, p.length = d) (ku kv kw : ℕ)
    (hpu : V.du ≤ ku) (hpv : V.dv ≤ kv) (hpw : V.dw ≤ kw) (hku : ku < V.su) (hkv : kv < V.sv) (hkw : kw < V.sw)
    (u v w : K) (j : ℕ) :
    (volumePointAt V.du V.dv V.dw V.ku V.kv V.kw V.su V.sv V.pts ku kv kw u v w).getD j 0
      = (curvePointAt V.dw V.kw ((extractSurfacesUV V).map fun S =>
            surfacePointAt S.du S.dv S.ku S.kv S.sv S.pts ku kv u v) kw w).getD j 0 ∧
    (volumePointAt V.du V.dv V.dw V.ku V.kv V.kw V.su V.sv V.pts ku kv kw u v w).getD j 0
      = (curvePointAt V.dv V.kv ((extractSurfacesUW V).map fun S =>
            surfacePointAt S.du S.dv S.ku S.kv S.sv S.pts ku kw u w) kv v).getD j 0 ∧
    (volumePointAt V.du V.dv V.dw V.ku V.kv V.kw V.su V.sv V.pts ku kv kw u v w).getD j 0
      = (curvePointAt V.du V.ku ((extractSurfacesVW V).map fun S =>
            surfacePointAt S.du S.dv S.ku S.kv S.sv S.pts kv kw v w) ku u).getD j 0 :=
  ⟨volumePointAt_extractUV V d h hd ku kv kw hpu hpv hpw hku hkv hkw u v w j,
   volumePointAt_extractUW V d h hd ku kv kw hpu hpv hpw hku hkv hkw u v w j,
   volumePointAt_extractVW V d h hd ku kv kw hpu hpv hpw hku hkv hkw u v w j⟩

/-- non-vacuity: the hypotheses hold on `c13EvalVol` (Lemmas/LayoutSweepGen.lean: a 2×3×2 volume of degrees (1, 2, 1)
    with 3-D control points – a net `BSpline.Volume.set_ctrlpts` accepts) … -/
example : c13EvalVol.WF ∧ (∀ p ∈ c13EvalVol.pts, p.length = 3) := by
  refine ⟨by unfold Vol.WF; decide, by decide⟩

/-- … and both sides are the same point at `(1/3, 1/2, 1/4)` -/
example :
    volumePoint c13EvalVol.du c13EvalVol.dv c13EvalVol.dw c13EvalVol.ku c13EvalVol.kv c13EvalVol.kw
        c13EvalVol.su c13EvalVol.sv c13EvalVol.sw c13EvalVol.pts (1/3) (1/2) (1/4)
      = curvePoint c13EvalVol.dw c13EvalVol.kw ((extractSurfacesUV c13EvalVol).map fun S =>
          surfacePoint S.du S.dv S.ku S.kv S.su S.sv S.pts (1/3) (1/2)) (1/4) := by
  decide +kernel

/-! ## boundary sections as evaluated shapes (clamped ends, C18) -/

/-- **Surface evaluation through the extracted curve families.**  For a surface with points of one
    dimension and at least `degree+1` control points per direction, the point `evaluate_single` computes
    at `(u, v)` is, in every coordinate,
    * the degree-`du` curve point at `u` of the polygon `[C(v) for C in extract_curves(surf)['v']]`,
    * the degree-`dv` curve point at `v` of the polygon `[C(u) for C in extract_curves(surf)['u']]`,
    each curve evaluated by the curve evaluator with its own degree, knots and points. -/
theorem surface_eval_through_extracted_curves {K : Type} [Field K] [LinearOrder K] [IsStrictOrderedRing K]
    (S : Srf (List K) (ℕ → K)) (d : ℕ) (h : S.WF) (hd : ∀ p ∈ S.pts, p.length = d)
    (hdu : S.du + 1 ≤ S.su) (hdv : S.dv + 1 ≤ S.sv) (u v : K) (j : ℕ) :
    (surfacePoint S.du S.dv S.ku S.kv S.su S.sv S.pts u v).getD j 0
      = (curvePoint S.du S.ku ((extractCurvesV S).map fun C => curvePoint C.deg C.kv C.pts v) u).getD j 0 ∧
    (surfacePoint S.du S.dv S.ku S.kv S.su S.sv S.pts u v).getD j 0
      = (curvePoint S.dv S.kv ((extractCurvesU S).map fun C => curvePoint C.deg C.kv C.pts u) v).getD j 0 :=
  ⟨surfacePoint_extractV S d h hd hdu hdv u v j, surfacePoint_extractU S d h hd hdu hdv u v j⟩

/-- **The boundary iso-curves of a clamped surface are the curves of its boundary net slices.**
    For a surface whose `u` knot function is non-decreasing with a non-empty last span (`KnotsOk`) and
    clamped (`ClampedOk`: `U_1 = … = U_p`, `U_n = … = U_{n+p−1}`, first span non-empty), at the start
    (`e = false`) / end (`e = true`) of the `u` domain and every `v`, the evaluated surface point is the
    evaluated point at `v` of the first / last curve of `extract_curves(surf)['v']`. -/
theorem surface_boundary_u_is_extracted_curve {K : Type} [Field K] [LinearOrder K] [IsStrictOrderedRing K]
    (S : Srf (List K) (ℕ → K)) (d : ℕ) (h : S.WF) (hd : ∀ p ∈ S.pts, p.length = d)
    (hUu : KnotsOk S.du S.ku S.su) (hcu : ClampedOk S.du S.ku S.su) (hdv : S.dv + 1 ≤ S.sv)
    (e : Bool) (v : K) (j : ℕ) :
    ∃ C, (extractCurvesV S)[if e then S.su - 1 else 0]? = some C ∧
      (surfacePoint S.du S.dv S.ku S.kv S.su S.sv S.pts (if e then S.ku S.su else S.ku S.du) v).getD j 0
        = (curvePoint C.deg C.kv C.pts v).getD j 0 :=
  surfacePoint_boundary_u S d h hd hUu hcu hdv e v j

/-- The same in the other direction: for a surface clamped in `v`, at the start / end of the `v` domain
    and every `u`, the surface point is the point at `u` of the first / last curve of
    `extract_curves(surf)['u']`. -/
theorem surface_boundary_v_is_extracted_curve {K : Type} [Field K] [LinearOrder K] [IsStrictOrderedRing K]
    (S : Srf (List K) (ℕ → K)) (d : ℕ) (h : S.WF) (hd : ∀ p ∈ S.pts, p.length = d)
    (hUv : KnotsOk S.dv S.kv S.sv) (hcv : ClampedOk S.dv S.kv S.sv) (hdu : S.du + 1 ≤ S.su)
    (e : Bool) (u : K) (j : ℕ) :
    ∃ C, (extractCurvesU S)[if e then S.sv - 1 else 0]? = some C ∧
      (surfacePoint S.du S.dv S.ku S.kv S.su S.sv S.pts u (if e then S.kv S.sv else S.kv S.dv)).getD j 0
        = (curvePoint C.deg C.kv C.pts u).getD j 0 :=
  surfacePoint_boundary_v S d h hd hUv hcv hdu e u j

/-- **The boundary iso-surfaces of a clamped volume are the surfaces of its boundary net slices**, all
    three directions: for a volume clamped in `w` (resp. `v`, `u`), at the start / end of that domain the
    evaluated volume point is the evaluated point of the first / last surface of
    `extract_surfaces(vol)['uv']` (resp. `['uw']`, `['vw']`) at the two remaining parameters. -/
theorem volume_boundary_is_extracted_surface {K : Type} [Field K] [LinearOrder K] [IsStrictOrderedRing K]
    (V : Vol (List K) (ℕ → K)) (d : ℕ) (h : V.WF) (hd : ∀ p ∈ V.pts, p.length = d)
    (hdu : V.du + 1 ≤ V.su) (hdv : V.dv + 1 ≤ V.sv) (hdw : V.dw + 1 ≤ V.sw) (e : Bool) (a b : K) (j : ℕ) :
    (KnotsOk V.dw V.kw V.sw → ClampedOk V.dw V.kw V.sw →
      ∃ S, (extractSurfacesUV V)[if e then V.sw - 1 else 0]? = some S ∧
        (volumePoint V.du V.dv V.dw V.ku V.kv V.kw V.su V.sv V.sw V.pts a b (if e then V.kw V.sw else V.kw V.dw)).getD j 0
          = (surfacePoint S.du S.dv S.ku S.kv S.su S.sv S.pts a b).getD j 0) ∧
    (KnotsOk V.dv V.kv V.sv → ClampedOk V.dv V.kv V.sv →
      ∃ S, (extractSurfacesUW V)[if e then V.sv - 1 else 0]? = some S ∧
        (volumePoint V.du V.dv V.dw V.ku V.kv V.kw V.su V.sv V.sw V.pts a (if e then V.kv V.sv else V.kv V.dv) b).getD j 0
          = (surfacePoint S.du S.dv S.ku S.kv S.su S.sv S.pts a b).getD j 0) ∧
    (KnotsOk V.du V.ku V.su → ClampedOk V.du V.ku V.su →
      ∃ S, (extractSurfacesVW V)[if e then V.su - 1 else 0]? = some S ∧
        (volumePoint V.du V.dv V.dw V.ku V.kv V.kw V.su V.sv V.sw V.pts (if e then V.ku V.su else V.ku V.du) a b).getD j 0
          = (surfacePoint S.du S.dv S.ku S.kv S.su S.sv S.pts a b).getD j 0) :=
  ⟨fun hU hc => volumePoint_boundary_w V d h hd hdu hdv hU hc e a b j,
   fun hU hc => volumePoint_boundary_v V d h hd hdu hdw hU hc e a b j,
   fun hU hc => volumePoint_boundary_u V d h hd hdv hdw hU hc e a b j⟩

/-- **Sweep of a curve, evaluated**: the surface returned by the repaired `sweep_vector` (knot function
    `kvGen` of `knotvector.generate(1, 2)`, clamped) satisfies `S(u_min, v) = C(v)` and
    `S(u_max, v) = C'(v)`, `C'` the curve with the translated control points – every `v`, every coordinate. -/
theorem sweep_curve_boundary_points {K : Type} [Field K] [LinearOrder K] [IsStrictOrderedRing K]
    (tr : List K → List K) (kvGen : ℕ → K) (C : Crv (List K) (ℕ → K)) (d : ℕ)
    (hn : 2 ≤ C.pts.length) (hdeg : C.deg + 1 ≤ C.pts.length) (hd : ∀ p ∈ C.pts, p.length = d)
    (htr : ∀ p ∈ C.pts, (tr p).length = d) (hk : KnotsOk 1 kvGen 2) (hc : ClampedOk 1 kvGen 2) (v : K) (j : ℕ) :
    ∃ S, sweepCurve tr kvGen C = some S ∧
      (surfacePoint S.du S.dv S.ku S.kv S.su S.sv S.pts (kvGen 1) v).getD j 0 = (curvePoint C.deg C.kv C.pts v).getD j 0 ∧
      (surfacePoint S.du S.dv S.ku S.kv S.su S.sv S.pts (kvGen 2) v).getD j 0
        = (curvePoint C.deg C.kv (C.pts.map tr) v).getD j 0 :=
  sweepCurve_boundary tr kvGen C d hn hdeg hd htr hk hc v j

/-- **Sweep of a surface, evaluated**: the volume returned by `sweep_vector` satisfies
    `V(u, v, w_min) = S(u, v)` and `V(u, v, w_max) = S'(u, v)`, `S'` the surface with the translated control
    points – every `(u, v)`, every coordinate of the stored points.  The point map is the one of the code / of the
    driver op `sweeps`, selected by `rat` (`true`: rational surface, homogeneous points, `pointTranslateW vec`;
    `false`: `pointTranslate vec`); the guards of the code are tied to that flag (audit 4, H4: no free Boolean): at
    least 3 spatial coordinates (`h3`; `rat = true`: `d` counts the weight, `4 ≤ d`) – a planar surface makes
    `Volume.set_ctrlpts` raise –, a vector with at least as many entries as there are spatial coordinates (`hvec`) and
    non-zero weights of a rational surface (`hw`).  (For an arbitrary coordinate-count preserving point map the
    equalities are `Geomdl.sweepSurface_boundary`; the projected form for rational surfaces is
    `sweep_surface_boundary_points_rational`.) -/
theorem sweep_surface_boundary_points {K : Type} [Field K] [LinearOrder K] [IsStrictOrderedRing K]
    (vec : List K) (rat : Bool) (kvGen : ℕ → K) (S : Srf (List K) (ℕ → K)) (d : ℕ)
    (h : S.WF) (hdu : S.du + 1 ≤ S.su) (hdv : S.dv + 1 ≤ S.sv) (hd : ∀ p ∈ S.pts, p.length = d)
    (h3 : (if rat then 4 else 3) ≤ d) (hvec : (if rat then d - 1 else d) ≤ vec.length) (hw : rat = true → HomOk S.pts)
    (hk : KnotsOk 1 kvGen 2) (hc : ClampedOk 1 kvGen 2) (u v : K) (j : ℕ) :
    ∃ V, sweepSurface (if rat then pointTranslateW vec else pointTranslate vec) kvGen S = some V ∧
      (volumePoint V.du V.dv V.dw V.ku V.kv V.kw V.su V.sv V.sw V.pts u v (kvGen 1)).getD j 0
        = (surfacePoint S.du S.dv S.ku S.kv S.su S.sv S.pts u v).getD j 0 ∧
      (volumePoint V.du V.dv V.dw V.ku V.kv V.kw V.su V.sv V.sw V.pts u v (kvGen 2)).getD j 0
        = (surfacePoint S.du S.dv S.ku S.kv S.su S.sv
            (S.pts.map (if rat then pointTranslateW vec else pointTranslate vec)) u v).getD j 0 :=
  sweepSurface_boundary _ kvGen S d h hdu hdv hd
    (sweepTr_length vec rat d S.pts hd (by cases rat <;> simp at h3 ⊢ <;> omega) hvec) hk hc u v j

/-- **The sweep knot vector is `knotvector.generate(1, 2)`** (model `knotGenerate 1 2 true tol`, `tol` = the literal
    `10e-8 < 1` of `linspace`; what the driver ops `sweepc` / `sweeps` pass as `kvGen`): it is `[0, 0, 1, 1]`, meets
    `KnotsOk` / `ClampedOk`, and its domain is `[0, 1]`. -/
theorem sweep_knot_vector_generated {K : Type} [Field K] [LinearOrder K] [IsStrictOrderedRing K] (tol : K) (htol : tol < 1) :
    (knotGenerate 1 2 true tol : List K) = [0, 0, 1, 1] ∧
    KnotsOk 1 (fnOf (knotGenerate 1 2 true tol : List K)) 2 ∧ ClampedOk 1 (fnOf (knotGenerate 1 2 true tol : List K)) 2 ∧
    fnOf (knotGenerate 1 2 true tol : List K) 1 = 0 ∧ fnOf (knotGenerate 1 2 true tol : List K) 2 = 1 :=
  ⟨knotGenerate_one_two tol htol, genKv_knotsOk tol htol, genKv_clampedOk tol htol, genKv_ends tol htol⟩

/-- … hence, with the knot vector the code generates, no hypothesis on `kvGen` is left: `S(0, v) = C(v)`,
    `S(1, v) = C'(v)` for the swept curve … -/
theorem sweep_curve_boundary_points_generated {K : Type} [Field K] [LinearOrder K] [IsStrictOrderedRing K]
    (tr : List K → List K) (tol : K) (htol : tol < 1) (C : Crv (List K) (ℕ → K)) (d : ℕ)
    (hn : 2 ≤ C.pts.length) (hdeg : C.deg + 1 ≤ C.pts.length) (hd : ∀ p ∈ C.pts, p.length = d)
    (htr : ∀ p ∈ C.pts, (tr p).length = d) (v : K) (j : ℕ) :
    ∃ S, sweepCurve tr (fnOf (knotGenerate 1 2 true tol : List K)) C = some S ∧
      (surfacePoint S.du S.dv S.ku S.kv S.su S.sv S.pts 0 v).getD j 0 = (curvePoint C.deg C.kv C.pts v).getD j 0 ∧
      (surfacePoint S.du S.dv S.ku S.kv S.su S.sv S.pts 1 v).getD j 0
        = (curvePoint C.deg C.kv (C.pts.map tr) v).getD j 0 := by
  have h := sweepCurve_boundary tr (fnOf (knotGenerate 1 2 true tol : List K)) C d hn hdeg hd htr
    (genKv_knotsOk tol htol) (genKv_clampedOk tol htol) v j
  rwa [(genKv_ends tol htol).1, (genKv_ends tol htol).2] at h

/-- … and `V(u, v, 0) = S(u, v)`, `V(u, v, 1) = S'(u, v)` for the swept surface (point map and guards tied to the flag
    `rat` as above: 3 spatial coordinates, vector long enough, non-zero weights). -/
theorem sweep_surface_boundary_points_generated {K : Type} [Field K] [LinearOrder K] [IsStrictOrderedRing K]
    (vec : List K) (rat : Bool) (tol : K) (htol : tol < 1) (S : Srf (List K) (ℕ → K)) (d : ℕ)
    (h : S.WF) (hdu : S.du + 1 ≤ S.su) (hdv : S.dv + 1 ≤ S.sv) (hd : ∀ p ∈ S.pts, p.length = d)
    (h3 : (if rat then 4 else 3) ≤ d) (hvec : (if rat then d - 1 else d) ≤ vec.length) (hw : rat = true → HomOk S.pts)
    (u v : K) (j : ℕ) :
    ∃ V, sweepSurface (if rat then pointTranslateW vec else pointTranslate vec) (fnOf (knotGenerate 1 2 true tol : List K)) S
        = some V ∧
      (volumePoint V.du V.dv V.dw V.ku V.kv V.kw V.su V.sv V.sw V.pts u v 0).getD j 0
        = (surfacePoint S.du S.dv S.ku S.kv S.su S.sv S.pts u v).getD j 0 ∧
      (volumePoint V.du V.dv V.dw V.ku V.kv V.kw V.su V.sv V.sw V.pts u v 1).getD j 0
        = (surfacePoint S.du S.dv S.ku S.kv S.su S.sv
            (S.pts.map (if rat then pointTranslateW vec else pointTranslate vec)) u v).getD j 0 := by
  have h := sweepSurface_boundary _ (fnOf (knotGenerate 1 2 true tol : List K)) S d h hdu hdv hd
    (sweepTr_length vec rat d S.pts hd (by cases rat <;> simp at h3 ⊢ <;> omega) hvec)
    (genKv_knotsOk tol htol) (genKv_clampedOk tol htol) u v j
  rwa [(genKv_ends tol htol).1, (genKv_ends tol htol).2] at h

/-- non-vacuity: the knot function of `knotvector.generate(1, 2) = [0, 0, 1, 1]` meets `KnotsOk` … -/
example : KnotsOk 1 (fnOf ([0,0,1,1] : List ℚ)) 2 where
  mono := fnOf_monotone_of_isSortedB _ (by decide +kernel)
  pn := by omega
  last := by decide +kernel

/-- … and `ClampedOk` … -/
example : ClampedOk 1 (fnOf ([0,0,1,1] : List ℚ)) 2 where
  start := by intro i h1 h2; obtain rfl : i = 1 := by omega
              rfl
  stop := by intro i h1 h2; obtain rfl : i = 2 := by omega
             rfl
  first := by decide +kernel

/-- … the sweep theorem with the generated knot vector applied to the 3-D bilinear surface `c13SweepSrf` and the
    translation by `(5, 7, 1)` (`tol = 10e-8`) -/
example (u v : ℚ) (j : ℕ) : ∃ V, sweepSurface (pointTranslate [5,7,1]) (fnOf (knotGenerate 1 2 true (1/10000000 : ℚ))) c13SweepSrf = some V ∧
    (volumePoint V.du V.dv V.dw V.ku V.kv V.kw V.su V.sv V.sw V.pts u v 1).getD j 0
      = (surfacePoint c13SweepSrf.du c13SweepSrf.dv c13SweepSrf.ku c13SweepSrf.kv c13SweepSrf.su c13SweepSrf.sv
          (c13SweepSrf.pts.map (pointTranslate [5,7,1])) u v).getD j 0 := by
  obtain ⟨V, h1, _, h2⟩ := sweep_surface_boundary_points_generated [5,7,1] false (1/10000000 : ℚ) (by norm_num)
    c13SweepSrf 3 (by unfold Srf.WF; decide) (by decide) (by decide) (by decide) (by decide) (by decide)
    (fun h => absurd h (by decide)) u v j
  exact ⟨V, h1, h2⟩

/-- … the homogeneous instance (`rat = true`): the rational bilinear surface `c13RatSrf` (4 homogeneous coordinates,
    weights `1, 2, 1/2, 3`) meets the tied guards with a vector of 3 entries, and the theorem applies -/
example (u v : ℚ) (j : ℕ) : ∃ V, sweepSurface (pointTranslateW [5,7,1]) (fnOf (knotGenerate 1 2 true (1/10000000 : ℚ))) c13RatSrf = some V ∧
    (volumePoint V.du V.dv V.dw V.ku V.kv V.kw V.su V.sv V.sw V.pts u v 0).getD j 0
      = (surfacePoint c13RatSrf.du c13RatSrf.dv c13RatSrf.ku c13RatSrf.kv c13RatSrf.su c13RatSrf.sv c13RatSrf.pts u v).getD j 0 := by
  obtain ⟨V, h1, h2, _⟩ := sweep_surface_boundary_points_generated [5,7,1] true (1/10000000 : ℚ) (by norm_num)
    c13RatSrf 4 (by unfold Srf.WF; decide) (by decide) (by decide) (by decide) (by decide) (by decide)
    (fun _ => by unfold HomOk; decide +kernel) u v j
  exact ⟨V, h1, h2⟩

/-- … while a vector shorter than the points (audit 4, H2) is outside the guard, and what the unguarded model would
    return there is a ragged net: points of 3 and of 2 coordinates (the code raises
    "Rational curves expect weighted control points") -/
example : (sweepCurve (pointTranslateW [1]) [0,0,1,1] c13RatCrvL).map (fun S => S.pts.map List.length)
    = some [3, 3, 3, 2, 2, 2] := by decide +kernel

/-- … the `v` direction of `c13EvalVol` (degree 2, knots `[0,0,0,1,1,1]`, 3 points) too, and on that volume
    the `v_max` boundary at `(1/3, ·, 1/4)` is the last `'uw'` surface at `(1/3, 1/4)` -/
example : KnotsOk c13EvalVol.dv c13EvalVol.kv c13EvalVol.sv ∧
    (extractSurfacesUW c13EvalVol)[2]?.map (fun S => surfacePoint S.du S.dv S.ku S.kv S.su S.sv S.pts (1/3) (1/4))
      = some (volumePoint c13EvalVol.du c13EvalVol.dv c13EvalVol.dw c13EvalVol.ku c13EvalVol.kv c13EvalVol.kw
          c13EvalVol.su c13EvalVol.sv c13EvalVol.sw c13EvalVol.pts (1/3) 1 (1/4)) :=
  ⟨⟨fnOf_monotone_of_isSortedB _ (by decide +kernel), by decide, by decide +kernel⟩, by decide +kernel⟩

/-! ## construct, then extract; what `construct_surface` / `construct_volume` return, evaluated -/

/-- **`extract_curves` after `construct_surface`** (the converse of `extract_construct_surface`): for at least two
    curves of one degree and one size, the `'v'` family of the surface stacked along `u`, and the `'u'` family of
    the surface stacked along `v`, are the input curves net by net – with the degree and the knot vector of the
    FIRST curve (the code copies only `args[0].knotvector`).  Guards of the code (driver ops `consurf` / `consurfr`:
    ERR): the degree of the stacking direction is at least 1 (`hdeg1`: for `degree=0` the eagerly evaluated default
    `knotvector.generate(degree, len(args))` raises although a knot vector is passed) and there are at least
    `degO + 1` curves (`hdeg`: else `set_ctrlpts` raises "Number of control points should be at least degree + 1").
    The knot datum `kvO` is abstract here (type `κ`) and carried unchanged: for the code it is the vector the
    knot-vector setter STORES – validated and normalised, see `construct_surface_eval`. -/
theorem construct_extract_surface (args : List (Crv α κ)) (c0 : Crv α κ) (degO : ℕ) (kvO : κ)
    (h0 : args.head? = some c0) (h2 : 2 ≤ args.length) (hdeg : degO + 1 ≤ args.length) (hdeg1 : 1 ≤ degO)
    (hall : ∀ c ∈ args, c.deg = c0.deg ∧ c.pts.length = c0.pts.length) :
    (∃ S, constructSurface Dir.u degO kvO args = some S ∧
      extractCurvesV S = args.map fun c => { c0 with pts := c.pts }) ∧
    (∃ S, constructSurface Dir.v degO kvO args = some S ∧
      extractCurvesU S = args.map fun c => { c0 with pts := c.pts }) :=
  ⟨⟨_, constructSurface_u_eq degO kvO h0 h2 hall, extractCurvesV_conSrfU degO kvO hall⟩,
   ⟨_, constructSurface_v_eq degO kvO h0 h2 hall, extractCurvesU_conSrfV degO kvO hall⟩⟩

/-- **`extract_surfaces` after `construct_volume`** (repaired code), all three stacking directions: for at least two
    surfaces of equal degrees and sizes with nets of `size_u·size_v` points, the `'vw'` family of the volume stacked
    along `u`, the `'uw'` family of the one stacked along `v` and the `'uv'` family of the one stacked along `w` are
    the input surfaces net by net, with the degrees and knot vectors of the first surface.  Guards of the code (driver
    ops `convol` / `convolr`: ERR) as for `construct_extract_surface`: `1 ≤ degO`, `degO + 1 ≤` number of surfaces;
    `kvO` is the knot vector the setter stores. -/
theorem construct_extract_volume (args : List (Srf α κ)) (s0 : Srf α κ) (degO : ℕ) (kvO : κ)
    (h0 : args.head? = some s0) (h2 : 2 ≤ args.length) (hdeg : degO + 1 ≤ args.length) (hdeg1 : 1 ≤ degO) (hsu : 0 < s0.su)
    (hall : ∀ s ∈ args, s.du = s0.du ∧ s.dv = s0.dv ∧ s.su = s0.su ∧ s.sv = s0.sv ∧ s.pts.length = s0.su * s0.sv) :
    (∃ V, constructVolume Dir.u degO kvO args = some V ∧
      extractSurfacesVW V = args.map fun s => { s0 with pts := s.pts }) ∧
    (∃ V, constructVolume Dir.v degO kvO args = some V ∧
      extractSurfacesUW V = args.map fun s => { s0 with pts := s.pts }) ∧
    (∃ V, constructVolume Dir.w degO kvO args = some V ∧
      extractSurfacesUV V = args.map fun s => { s0 with pts := s.pts }) :=
  ⟨⟨_, constructVolume_u_eq degO kvO h0 h2 hall, extractSurfacesVW_conVolU degO kvO hsu hall⟩,
   ⟨_, constructVolume_v_eq degO kvO h0 h2 hall, extractSurfacesUW_conVolV degO kvO hsu hall⟩,
   ⟨_, constructVolume_w_eq degO kvO h0 h2 hall, extractSurfacesUV_conVolW degO kvO hsu hall⟩⟩

/-- **`construct_surface` output, evaluated.**  For curves `C_0 … C_m` of one degree and one size (points of one
    dimension, at least `degree+1 ≥ 2` of them) and `degO + 1 ≤ m + 1`: the surface stacked along `u` satisfies
    `S(t, v) = ` the degree-`degO` curve with knot function `kvO` through the points `C_i(v)`, at `t`; the surface
    stacked along `v` satisfies `S(u, t) = ` that curve through the points `C_i(u)` – every parameter, every
    coordinate, all spans by the library's search, each `C_i` evaluated with the knot vector of `C_0`.
    The knot vector of the stacking direction: `L` is the list passed as `knotvector=`; the knot-vector setter of the
    new surface VALIDATES it (`knotvector.check`: `degO + len(args) + 1` knots, non-decreasing – `hkv`; else
    `ValueError`) and NORMALISES it (`hrange`: first knot ≠ last knot, else `normalize` divides by zero), so what the
    surface stores – and what the driver ops `consurf` / `consurfr` pass to the model – is `knotNormalize L`, and the
    curve on the right-hand side is the curve over `kvO = knotNormalize L` (e.g. `[0,0,2,2]` is stored as
    `[0,0,1,1]`; an `L` that is already normalised is stored as it is, `knotNormalize_of_normalised`).  `hdeg1`:
    `degree=0` raises in the eagerly evaluated default `knotvector.generate(0, len(args))`. -/
theorem construct_surface_eval {K : Type} [Field K] [LinearOrder K] [IsStrictOrderedRing K]
    (args : List (Crv (List K) (ℕ → K))) (c0 : Crv (List K) (ℕ → K)) (degO : ℕ) (L : List K) (kvO : ℕ → K) (d : ℕ)
    (h0 : args.head? = some c0) (h2 : 2 ≤ args.length) (hdeg : degO + 1 ≤ args.length) (hdeg1 : 1 ≤ degO)
    (hkv : knotCheck degO L args.length = true) (hrange : L.headD 0 ≠ L.getLastD 0) (hkvO : kvO = fnOf (knotNormalize L))
    (hm : 2 ≤ c0.pts.length) (hd0 : c0.deg + 1 ≤ c0.pts.length)
    (hall : ∀ c ∈ args, c.deg = c0.deg ∧ c.pts.length = c0.pts.length) (hd : ∀ c ∈ args, ∀ p ∈ c.pts, p.length = d) :
    (∃ S, constructSurface Dir.u degO kvO args = some S ∧ ∀ (t v : K) (j : ℕ),
      (surfacePoint S.du S.dv S.ku S.kv S.su S.sv S.pts t v).getD j 0
        = (curvePoint degO kvO (args.map fun c => curvePoint c0.deg c0.kv c.pts v) t).getD j 0) ∧
    (∃ S, constructSurface Dir.v degO kvO args = some S ∧ ∀ (u t : K) (j : ℕ),
      (surfacePoint S.du S.dv S.ku S.kv S.su S.sv S.pts u t).getD j 0
        = (curvePoint degO kvO (args.map fun c => curvePoint c0.deg c0.kv c.pts u) t).getD j 0) :=
  ⟨constructSurface_u_eval degO kvO d h0 h2 hdeg hm hd0 hall hd, constructSurface_v_eval degO kvO d h0 h2 hdeg hm hd0 hall hd⟩

/-- the setter leaves a valid knot vector that already runs from 0 to 1 unchanged -/
theorem knotNormalize_of_normalised {K : Type} [Field K] (L : List K) (h0 : L.headD 0 = 0) (h1 : L.getLastD 0 = 1) :
    knotNormalize L = L := by
  unfold knotNormalize
  simp only [h0, h1, sub_zero, div_one]
  exact List.map_id' L

/-- **`construct_volume` output, evaluated** (repaired code, all three stacking directions).  For surfaces
    `S_0 … S_m` of equal degrees and sizes (nets of `size_u·size_v` points of one dimension, at least `degree+1 ≥ 2`
    per direction) and `degO + 1 ≤ m + 1`: with `Q_i = S_i(a, b)` (each `S_i` evaluated with the knot vectors of `S_0`)
    and `c(t)` the degree-`degO` curve with knot function `kvO` through `Q_0 … Q_m`,
    `V_u(t, a, b) = V_v(a, t, b) = V_w(a, b, t) = c(t)` – every parameter, every coordinate.
    Knot vector of the stacking direction as in `construct_surface_eval`: `L` = the list passed as `knotvector=`,
    validated (`hkv`) and normalised (`hrange`) by the setter, `kvO = knotNormalize L` = what the volume stores and the
    driver ops `convol` / `convolr` pass on; `hdeg1`: `degree=0` raises. -/
theorem construct_volume_eval {K : Type} [Field K] [LinearOrder K] [IsStrictOrderedRing K]
    (args : List (Srf (List K) (ℕ → K))) (s0 : Srf (List K) (ℕ → K)) (degO : ℕ) (L : List K) (kvO : ℕ → K) (d : ℕ)
    (h0 : args.head? = some s0) (h2 : 2 ≤ args.length) (hdeg : degO + 1 ≤ args.length) (hdeg1 : 1 ≤ degO)
    (hkv : knotCheck degO L args.length = true) (hrange : L.headD 0 ≠ L.getLastD 0) (hkvO : kvO = fnOf (knotNormalize L))
    (hsu : 2 ≤ s0.su) (hsv : 2 ≤ s0.sv) (hdu : s0.du + 1 ≤ s0.su) (hdv : s0.dv + 1 ≤ s0.sv)
    (hall : ∀ s ∈ args, s.du = s0.du ∧ s.dv = s0.dv ∧ s.su = s0.su ∧ s.sv = s0.sv ∧ s.pts.length = s0.su * s0.sv)
    (hd : ∀ s ∈ args, ∀ p ∈ s.pts, p.length = d) :
    (∃ V, constructVolume Dir.u degO kvO args = some V ∧ ∀ (t a b : K) (j : ℕ),
      (volumePoint V.du V.dv V.dw V.ku V.kv V.kw V.su V.sv V.sw V.pts t a b).getD j 0
        = (curvePoint degO kvO
            (args.map fun s => surfacePoint s0.du s0.dv s0.ku s0.kv s0.su s0.sv s.pts a b) t).getD j 0) ∧
    (∃ V, constructVolume Dir.v degO kvO args = some V ∧ ∀ (a t b : K) (j : ℕ),
      (volumePoint V.du V.dv V.dw V.ku V.kv V.kw V.su V.sv V.sw V.pts a t b).getD j 0
        = (curvePoint degO kvO
            (args.map fun s => surfacePoint s0.du s0.dv s0.ku s0.kv s0.su s0.sv s.pts a b) t).getD j 0) ∧
    (∃ V, constructVolume Dir.w degO kvO args = some V ∧ ∀ (a b t : K) (j : ℕ),
      (volumePoint V.du V.dv V.dw V.ku V.kv V.kw V.su V.sv V.sw V.pts a b t).getD j 0
        = (curvePoint degO kvO
            (args.map fun s => surfacePoint s0.du s0.dv s0.ku s0.kv s0.su s0.sv s.pts a b) t).getD j 0) :=
  ⟨constructVolume_u_eval degO kvO d h0 h2 hdeg hsu hsv hdu hdv hall hd,
   constructVolume_v_eval degO kvO d h0 h2 hdeg hsu hsv hdu hdv hall hd,
   constructVolume_w_eval degO kvO d h0 h2 hdeg hsu hsv hdu hdv hall hd⟩

/-- non-vacuity: the hypotheses of `construct_volume_eval` hold for the two rational bilinear surfaces `c13RatSrf`,
    `c13RatSrf2` (homogeneous 4-coordinate points, weights `1, 2, 1/2, 3` and `2, 1, 1, 1/3`), stacked along `u` with degree 1 … -/
example : ∃ V, constructVolume Dir.u 1 (fnOf ([0,0,1,1] : List ℚ)) [c13RatSrf, c13RatSrf2] = some V ∧ ∀ (t a b : ℚ) (j : ℕ),
    (volumePoint V.du V.dv V.dw V.ku V.kv V.kw V.su V.sv V.sw V.pts t a b).getD j 0
      = (curvePoint 1 (fnOf ([0,0,1,1] : List ℚ)) ([c13RatSrf, c13RatSrf2].map fun s =>
          surfacePoint c13RatSrf.du c13RatSrf.dv c13RatSrf.ku c13RatSrf.kv c13RatSrf.su c13RatSrf.sv s.pts a b) t).getD j 0 :=
  (construct_volume_eval [c13RatSrf, c13RatSrf2] c13RatSrf 1 [0,0,1,1] (fnOf ([0,0,1,1] : List ℚ)) 4 rfl (by decide) (by decide)
    (by decide) (by decide +kernel) (by decide +kernel) (by rw [knotNormalize_of_normalised _ (by decide +kernel) (by decide +kernel)])
    (by decide) (by decide) (by decide) (by decide) (by decide) (by decide)).1

/-- … an un-normalised knot vector `[0,0,2,2]` passes the guards, and the theorem then speaks about the curve over the
    STORED vector `[0,0,1,1]` -/
example : knotCheck 1 ([0,0,2,2] : List ℚ) 2 = true ∧ ([0,0,2,2] : List ℚ).headD 0 ≠ ([0,0,2,2] : List ℚ).getLastD 0 ∧
    knotNormalize ([0,0,2,2] : List ℚ) = [0,0,1,1] := by decide +kernel

/-- … an unsorted one does not (`ValueError` in the setter) -/
example : knotCheck 1 ([0,1,0,1] : List ℚ) 2 = false := by decide +kernel

/-- … and at `(t, a, b) = (1/4, 1/3, 1/2)` both sides are the same homogeneous point (computed in ℚ) -/
example : (constructVolume Dir.u 1 (fnOf ([0,0,1,1] : List ℚ)) [c13RatSrf, c13RatSrf2]).map (fun V =>
      volumePoint V.du V.dv V.dw V.ku V.kv V.kw V.su V.sv V.sw V.pts (1/4) (1/3) (1/2))
    = some (curvePoint 1 (fnOf ([0,0,1,1] : List ℚ)) ([c13RatSrf, c13RatSrf2].map fun s =>
        surfacePoint c13RatSrf.du c13RatSrf.dv c13RatSrf.ku c13RatSrf.kv c13RatSrf.su c13RatSrf.sv s.pts (1/3) (1/2)) (1/4)) := by
  decide +kernel

/-- two rational bilinear surfaces (`c13RatSrfL`, `c13RatSrfL2`: weights `1, 2, 1/2, 3` and `2, 1, 1, 1/3`,
    different `u` knot vectors) stacked along `v`; the `'uw'` family of the result is the two nets with the first
    surface's knot vectors -/
example : (constructVolume Dir.v 1 [0,0,1,1] [c13RatSrfL, c13RatSrfL2]).map extractSurfacesUW
    = some [c13RatSrfL, { c13RatSrfL with pts := c13RatSrfL2.pts }] := by decide +kernel

/-! ## rational shapes: the split into control points and weights, and the recombination, written out -/

/-- **Split, then recombine = identity** (C09 views).  For a stored homogeneous net with non-empty points and
    non-zero weights (`HomOk`): the `ctrlpts` / `weights` views an input object hands out are
    `separate_ctrlpts_weights` of the net; combining them gives the net back; and a fresh rational object filled by
    `ns.ctrlpts = P; ns.weights = w` with these two lists stores exactly the net again (the intermediate unit
    weights of the `ctrlpts` setter divide out). -/
theorem rational_split_recombine_identity {K : Type} [Field K] [LinearOrder K] [IsStrictOrderedRing K]
    (Pw : List (List K)) (h : HomOk Pw) (hne : Pw ≠ []) :
    ratViews Pw = separate Pw ∧ combine (separate Pw).1 (separate Pw).2 = Pw ∧
    ratAssign (ratViews Pw).1 (ratViews Pw).2 = some Pw :=
  ⟨ratViews_eq Pw, combine_separate' Pw h, by rw [ratViews_eq]; exact ratAssign_separate Pw h hne⟩

/-- **`construct_surface` on rational curves with the split-and-recombine inserted** (`constructSurfaceRat`: per-object
    `ctrlpts` / `weights` views, separate concatenation, for `'v'` combine – flip – separate, result through the two
    setters) returns what the layout model `constructSurface` (identity on homogeneous points) returns – also in the
    error cases – when every weight is non-zero and no curve is empty. -/
theorem construct_surface_rational_explicit {K : Type} [Field K] [LinearOrder K] [IsStrictOrderedRing K]
    (dir : Dir) (degO : ℕ) (kvO : κ) (args : List (Crv (List K) κ)) (hh : ∀ c ∈ args, HomOk c.pts ∧ c.pts ≠ []) :
    constructSurfaceRat dir degO kvO args = constructSurface dir degO kvO args :=
  constructSurfaceRat_eq dir degO kvO args hh

/-- **`construct_volume` (repaired) on rational surfaces with the split-and-recombine inserted** (`constructVolumeRat`:
    the re-ordering loops run over the point list and the weight list separately) returns what `constructVolume`
    returns, all three directions and the error cases – non-zero weights, nets of `size_u·size_v > 0` points. -/
theorem construct_volume_rational_explicit {K : Type} [Field K] [LinearOrder K] [IsStrictOrderedRing K]
    (dir : Dir) (degO : ℕ) (kvO : κ) (args : List (Srf (List K) κ))
    (hh : ∀ s ∈ args, HomOk s.pts ∧ s.pts.length = s.su * s.sv ∧ 0 < s.su * s.sv) :
    constructVolumeRat dir degO kvO args = constructVolume dir degO kvO args :=
  constructVolumeRat_eq dir degO kvO args hh

/-- **`sweep_vector` on rational shapes with the split-and-recombine inserted.**  The swept copy's net (read `ctrlpts`,
    `point_translate`, write through the `ctrlpts` setter of the deep copy) is the net mapped by `pointTranslateW vec`
    (no hypothesis: the same divisions on both sides); with non-zero weights `sweepCurveRat` / `sweepSurfaceRat` are
    `sweepCurve` / `sweepSurface` with that point map.  The second and third part are stated on the region where the
    two models describe the code (guard of the driver ops `sweepcr` / `sweepsr`): homogeneous points of `d + 1`
    coordinates and a vector of at least `d` entries, `3 ≤ d` for a surface (outside it `sweep_vector` raises; the two
    models still agree with each other there, `Geomdl.sweepCurveRat_eq`, but neither describes the code). -/
theorem sweep_vector_rational_explicit {K : Type} [Field K] [LinearOrder K] [IsStrictOrderedRing K]
    (vec : List K) (kvGen : κ) :
    (∀ Pw : List (List K), sweptNet vec Pw = Pw.map (pointTranslateW vec)) ∧
    (∀ (C : Crv (List K) κ) (d : ℕ), HomOk C.pts → C.pts ≠ [] → (∀ p ∈ C.pts, p.length = d + 1) → d ≤ vec.length →
      sweepCurveRat vec kvGen C = sweepCurve (pointTranslateW vec) kvGen C) ∧
    (∀ (S : Srf (List K) κ) (d : ℕ), HomOk S.pts → S.pts.length = S.su * S.sv → 0 < S.su * S.sv →
      (∀ p ∈ S.pts, p.length = d + 1) → 3 ≤ d → d ≤ vec.length →
      sweepSurfaceRat vec kvGen S = sweepSurface (pointTranslateW vec) kvGen S) :=
  ⟨sweptNet_eq vec, fun C _ h hne _ _ => sweepCurveRat_eq vec kvGen C h hne,
   fun S _ h hl hpos _ _ _ => sweepSurfaceRat_eq vec kvGen S h hl hpos⟩

/-- **Sections of a swept rational shape, net level, explicit model**: the two `u`-sections of the swept curve are the
    curve and the curve with the net mapped by `pointTranslateW vec`; the two `w`-sections of the swept surface are the
    surface and its mapped copy (3-D guard as in `sweep_surface_sections`: `4 ≤` number of homogeneous coordinates).
    Guard of the code / of the driver ops `sweepcr`, `sweepsr` (audit 4, H2): the vector has at least as many entries as
    the points have Cartesian coordinates (`d ≤ vec.length` for homogeneous points of `d + 1` coordinates; `d ≤
    vec.length + 1` where `d` counts the weight) – a shorter vector makes `set_ctrlpts` of the swept copy raise
    ("Rational curves expect weighted control points"), while the model would return a ragged net.  Under the guard
    every point of the mapped copy keeps its number of coordinates (last conjunct). -/
theorem sweep_sections_rational {K : Type} [Field K] [LinearOrder K] [IsStrictOrderedRing K] (vec : List K) (kvGen : κ) :
    (∀ (C : Crv (List K) κ) (d : ℕ), HomOk C.pts → C.pts ≠ [] → (∀ p ∈ C.pts, p.length = d + 1) → d ≤ vec.length →
      ∃ S, sweepCurveRat vec kvGen C = some S ∧ S.du = 1 ∧ S.dv = C.deg ∧ S.ku = kvGen ∧ S.kv = C.kv ∧
        S.su = 2 ∧ S.sv = C.pts.length ∧
        extractCurvesV S = [C, { C with pts := C.pts.map (pointTranslateW vec) }] ∧
        ∀ p ∈ C.pts.map (pointTranslateW vec), p.length = d + 1) ∧
    (∀ (S : Srf (List K) κ) (d : ℕ), S.WF → HomOk S.pts → (∀ p ∈ S.pts, p.length = d) → 4 ≤ d → d ≤ vec.length + 1 →
      ∃ V, sweepSurfaceRat vec kvGen S = some V ∧ V.du = S.du ∧ V.dv = S.dv ∧ V.dw = 1 ∧ V.kw = kvGen ∧
        V.su = S.su ∧ V.sv = S.sv ∧ V.sw = 2 ∧
        extractSurfacesUV V = [S, { S with pts := S.pts.map (pointTranslateW vec) }] ∧
        ∀ p ∈ S.pts.map (pointTranslateW vec), p.length = d) :=
  ⟨fun C d h hne hd hvec => by
    obtain ⟨S, h1, h2, h3, h4, h5, h6, h7, h8⟩ := sweepCurveRat_sections vec kvGen C h hne
    exact ⟨S, h1, h2, h3, h4, h5, h6, h7, h8, fun p hp => by
      obtain ⟨q, hq, rfl⟩ := List.mem_map.mp hp
      exact pointTranslateW_length_of_le vec q d (hd q hq) hvec⟩,
   fun S d hwf h hd h4 hvec => by
    obtain ⟨V, h1, h2, h3, h5, h6, h7, h8, h9, h10⟩ := sweepSurfaceRat_sections vec kvGen S hwf h
    exact ⟨V, h1, h2, h3, h5, h6, h7, h8, h9, h10, fun p hp => by
      obtain ⟨q, hq, rfl⟩ := List.mem_map.mp hp
      have e : d = (d - 1) + 1 := by omega
      rw [e]
      exact pointTranslateW_length_of_le vec q (d - 1) (by rw [hd q hq]; exact e) (by omega)⟩⟩

/-- non-vacuity: the witness nets have non-zero weights, not all 1 … -/
example : HomOk c13RatCrvL.pts ∧ HomOk c13RatSrfL.pts ∧ HomOk c13RatSrfL2.pts := by
  refine ⟨?_, ?_, ?_⟩ <;> (unfold HomOk; decide +kernel)

/-- … the guarded net-level theorem applies to the rational witness curve (2 Cartesian coordinates) and the vector
    `(1, 1/2)`; every point of the far section keeps its 3 homogeneous coordinates -/
example : ∃ S, sweepCurveRat [1, 1/2] [0,0,1,1] c13RatCrvL = some S ∧
    extractCurvesV S = [c13RatCrvL, { c13RatCrvL with pts := c13RatCrvL.pts.map (pointTranslateW [1, 1/2]) }] ∧
    ∀ p ∈ c13RatCrvL.pts.map (pointTranslateW [1, 1/2]), p.length = 2 + 1 := by
  obtain ⟨S, h1, _, _, _, _, _, _, h2, h3⟩ := (sweep_sections_rational ([1, 1/2] : List ℚ) ([0,0,1,1] : List ℚ)).1
    c13RatCrvL 2 (by unfold HomOk; decide +kernel) (by decide) (by decide) (by decide)
  exact ⟨S, h1, h2, h3⟩

/-- … and the non-rational one (`sweep_curve_sections`) with the dimension guard discharged through
    `sweep_point_maps_keep_dimension`: a 3-D polygon swept by a vector of 4 entries (the code cuts the vector) -/
example : ∃ S, sweepCurve (pointTranslate [5,7,1,9]) () ({ deg := 1, kv := (), pts := [[0,0,1],[0,1,2],[(1:ℚ),0,0]] } : Crv (List ℚ) Unit) = some S ∧
    ∀ p ∈ S.pts, p.length = 3 := by
  obtain ⟨S, h1, _, _, _, _, _, _, _, h2⟩ := sweep_curve_sections (pointTranslate [5,7,1,9]) ()
    ({ deg := 1, kv := (), pts := [[0,0,1],[0,1,2],[(1:ℚ),0,0]] } : Crv (List ℚ) Unit) 3 (by decide)
    (fun p hp => (sweep_point_maps_keep_dimension [5,7,1,9] p 3).2.1
      (by revert p; decide) (by decide))
  exact ⟨S, h1, h2⟩

/-- … `construct_extract_surface` with its degree guards: three copies of the witness curve, degree 2 along `u` -/
example : ∃ S, constructSurface Dir.u 2 [0,0,0,1,1,1] [c13RatCrvL, c13RatCrvL, c13RatCrvL] = some S ∧
    extractCurvesV S = [c13RatCrvL, c13RatCrvL, c13RatCrvL] :=
  (construct_extract_surface [c13RatCrvL, c13RatCrvL, c13RatCrvL] c13RatCrvL 2 [0,0,0,1,1,1] rfl (by decide) (by decide)
    (by decide) (by intro c hc; simp at hc; subst hc; exact ⟨rfl, rfl⟩)).1

/-- … on them the explicit models compute (in ℚ) the same as the layout models: the swept rational curve
    (weights `1, 2, 1/2`, vector `(1, 1/2)`) … -/
example : sweepCurveRat [1, 1/2] [0,0,1,1] c13RatCrvL
    = some { du := 1, dv := 2, ku := [0,0,1,1], kv := [0,0,0,1,1,1], su := 2, sv := 3,
             pts := [[0,0,1],[2,4,2],[3/2,1/2,1/2],[1,1/2,1],[4,5,2],[2,3/4,1/2]] } := by decide +kernel

/-- … and two rational surfaces stacked along `u` -/
example : constructVolumeRat Dir.u 1 [0,0,1,1] [c13RatSrfL, c13RatSrfL2]
    = constructVolume Dir.u 1 [0,0,1,1] [c13RatSrfL, c13RatSrfL2] := by decide +kernel

/-! ## rational shapes: boundary sections and sweeps as PROJECTED points (what the rational evaluators return) -/

/-- **Rational surface, boundary iso-curves in `u`.**  Homogeneous net of `d+1`-coordinate points with positive weights,
    `u` knots clamped, `v` in the closed `v` domain: at the start / end of the `u` domain the projected surface point
    (`evaluate_single` of `NURBS.Surface`) is the projected point at `v` of the first / last curve of
    `extract_curves(surf)['v']` (`evaluate_single` of that `NURBS.Curve`), and the weight divided by is positive. -/
theorem surface_boundary_u_is_extracted_curve_rational {K : Type} [Field K] [LinearOrder K] [IsStrictOrderedRing K]
    (S : Srf (List K) (ℕ → K)) (d : ℕ) (h : S.WF) (hd : ∀ p ∈ S.pts, p.length = d + 1)
    (hwt : ∀ i, i < S.pts.length → 0 < (ptsGet S.pts i).getD d 0)
    (hUu : KnotsOk S.du S.ku S.su) (hcu : ClampedOk S.du S.ku S.su) (hUv : KnotsOk S.dv S.kv S.sv)
    (e : Bool) (v : K) (hv1 : S.kv S.dv ≤ v) (hv2 : v ≤ S.kv S.sv) :
    ∃ C, (extractCurvesV S)[if e then S.su - 1 else 0]? = some C ∧
      0 < (curvePoint C.deg C.kv C.pts v).getD d 0 ∧
      project (surfacePoint S.du S.dv S.ku S.kv S.su S.sv S.pts (if e then S.ku S.su else S.ku S.du) v)
        = project (curvePoint C.deg C.kv C.pts v) :=
  surfacePoint_boundary_u_rat S d h hd hUu hcu hUv hwt e v hv1 hv2

/-- **Rational surface, boundary iso-curves in `v`**: the first / last curve of `extract_curves(surf)['u']`. -/
theorem surface_boundary_v_is_extracted_curve_rational {K : Type} [Field K] [LinearOrder K] [IsStrictOrderedRing K]
    (S : Srf (List K) (ℕ → K)) (d : ℕ) (h : S.WF) (hd : ∀ p ∈ S.pts, p.length = d + 1)
    (hwt : ∀ i, i < S.pts.length → 0 < (ptsGet S.pts i).getD d 0)
    (hUv : KnotsOk S.dv S.kv S.sv) (hcv : ClampedOk S.dv S.kv S.sv) (hUu : KnotsOk S.du S.ku S.su)
    (e : Bool) (u : K) (hu1 : S.ku S.du ≤ u) (hu2 : u ≤ S.ku S.su) :
    ∃ C, (extractCurvesU S)[if e then S.sv - 1 else 0]? = some C ∧
      0 < (curvePoint C.deg C.kv C.pts u).getD d 0 ∧
      project (surfacePoint S.du S.dv S.ku S.kv S.su S.sv S.pts u (if e then S.kv S.sv else S.kv S.dv))
        = project (curvePoint C.deg C.kv C.pts u) :=
  surfacePoint_boundary_v_rat S d h hd hUv hcv hUu hwt e u hu1 hu2

/-- **Rational volume, boundary iso-surfaces, all three directions.**  Homogeneous net with positive weights, all three
    knot functions non-decreasing with non-empty last span; for the direction that is clamped and the two free
    parameters `a`, `b` in their closed domains: the projected volume point at the start / end of that direction is the
    projected point at `(a, b)` of the first / last surface of the matching `extract_surfaces` family, weight positive. -/
theorem volume_boundary_is_extracted_surface_rational {K : Type} [Field K] [LinearOrder K] [IsStrictOrderedRing K]
    (V : Vol (List K) (ℕ → K)) (d : ℕ) (h : V.WF) (hd : ∀ p ∈ V.pts, p.length = d + 1)
    (hwt : ∀ i, i < V.pts.length → 0 < (ptsGet V.pts i).getD d 0)
    (hUu : KnotsOk V.du V.ku V.su) (hUv : KnotsOk V.dv V.kv V.sv) (hUw : KnotsOk V.dw V.kw V.sw) (e : Bool) (a b : K) :
    (ClampedOk V.dw V.kw V.sw → V.ku V.du ≤ a → a ≤ V.ku V.su → V.kv V.dv ≤ b → b ≤ V.kv V.sv →
      ∃ S, (extractSurfacesUV V)[if e then V.sw - 1 else 0]? = some S ∧
        0 < (surfacePoint S.du S.dv S.ku S.kv S.su S.sv S.pts a b).getD d 0 ∧
        project (volumePoint V.du V.dv V.dw V.ku V.kv V.kw V.su V.sv V.sw V.pts a b (if e then V.kw V.sw else V.kw V.dw))
          = project (surfacePoint S.du S.dv S.ku S.kv S.su S.sv S.pts a b)) ∧
    (ClampedOk V.dv V.kv V.sv → V.ku V.du ≤ a → a ≤ V.ku V.su → V.kw V.dw ≤ b → b ≤ V.kw V.sw →
      ∃ S, (extractSurfacesUW V)[if e then V.sv - 1 else 0]? = some S ∧
        0 < (surfacePoint S.du S.dv S.ku S.kv S.su S.sv S.pts a b).getD d 0 ∧
        project (volumePoint V.du V.dv V.dw V.ku V.kv V.kw V.su V.sv V.sw V.pts a (if e then V.kv V.sv else V.kv V.dv) b)
          = project (surfacePoint S.du S.dv S.ku S.kv S.su S.sv S.pts a b)) ∧
    (ClampedOk V.du V.ku V.su → V.kv V.dv ≤ a → a ≤ V.kv V.sv → V.kw V.dw ≤ b → b ≤ V.kw V.sw →
      ∃ S, (extractSurfacesVW V)[if e then V.su - 1 else 0]? = some S ∧
        0 < (surfacePoint S.du S.dv S.ku S.kv S.su S.sv S.pts a b).getD d 0 ∧
        project (volumePoint V.du V.dv V.dw V.ku V.kv V.kw V.su V.sv V.sw V.pts (if e then V.ku V.su else V.ku V.du) a b)
          = project (surfacePoint S.du S.dv S.ku S.kv S.su S.sv S.pts a b)) :=
  volumePoint_boundary_rat V d h hd hUu hUv hUw hwt e a b

/-- **Sweep of a rational curve, evaluated, end to end.**  Rational curve with `d` Cartesian coordinates (homogeneous
    points of `d+1`), positive weights, vector of `d` entries, clamped sweep knot function; `v` in the closed domain.
    The surface the repaired `sweep_vector` returns – modelled WITH the control-point / weight split-and-recombine
    (`sweepCurveRat`) – satisfies, as projected points: `S(u_min, v) = C(v)` and `S(u_max, v) = C(v) + vec` (translation
    in Cartesian coordinates); the weight the curve evaluator divides by is positive. -/
theorem sweep_curve_boundary_points_rational {K : Type} [Field K] [LinearOrder K] [IsStrictOrderedRing K]
    (vec : List K) (kvGen : ℕ → K) (C : Crv (List K) (ℕ → K)) (d : ℕ)
    (hn : 2 ≤ C.pts.length) (hU : KnotsOk C.deg C.kv C.pts.length) (hd : ∀ p ∈ C.pts, p.length = d + 1)
    (hvec : vec.length = d) (hwt : ∀ i, i < C.pts.length → 0 < (ptsGet C.pts i).getD d 0)
    (hk : KnotsOk 1 kvGen 2) (hc : ClampedOk 1 kvGen 2) (v : K) (hv1 : C.kv C.deg ≤ v) (hv2 : v ≤ C.kv C.pts.length) :
    ∃ S, sweepCurveRat vec kvGen C = some S ∧
      0 < (curvePoint C.deg C.kv C.pts v).getD d 0 ∧
      project (surfacePoint S.du S.dv S.ku S.kv S.su S.sv S.pts (kvGen 1) v) = project (curvePoint C.deg C.kv C.pts v) ∧
      project (surfacePoint S.du S.dv S.ku S.kv S.su S.sv S.pts (kvGen 2) v)
        = pointTranslate vec (project (curvePoint C.deg C.kv C.pts v)) :=
  sweepCurveRat_boundary vec kvGen C d hn hU hd hvec hwt hk hc v hv1 hv2

/-- **Sweep of a rational surface, evaluated, end to end**: as projected points `V(u, v, w_min) = S(u, v)` and
    `V(u, v, w_max) = S(u, v) + vec`, for the volume `sweepSurfaceRat` (split-and-recombine explicit) returns; `(u, v)` in the
    closed domain.  Guard of the code / driver op: at least 3 Cartesian coordinates (`h3`). -/
theorem sweep_surface_boundary_points_rational {K : Type} [Field K] [LinearOrder K] [IsStrictOrderedRing K]
    (vec : List K) (kvGen : ℕ → K) (S : Srf (List K) (ℕ → K)) (d : ℕ) (h : S.WF) (h3 : 3 ≤ d)
    (hUu : KnotsOk S.du S.ku S.su) (hUv : KnotsOk S.dv S.kv S.sv) (hd : ∀ p ∈ S.pts, p.length = d + 1)
    (hvec : vec.length = d) (hwt : ∀ i, i < S.pts.length → 0 < (ptsGet S.pts i).getD d 0)
    (hk : KnotsOk 1 kvGen 2) (hc : ClampedOk 1 kvGen 2) (u v : K)
    (hu1 : S.ku S.du ≤ u) (hu2 : u ≤ S.ku S.su) (hv1 : S.kv S.dv ≤ v) (hv2 : v ≤ S.kv S.sv) :
    ∃ V, sweepSurfaceRat vec kvGen S = some V ∧
      0 < (surfacePoint S.du S.dv S.ku S.kv S.su S.sv S.pts u v).getD d 0 ∧
      project (volumePoint V.du V.dv V.dw V.ku V.kv V.kw V.su V.sv V.sw V.pts u v (kvGen 1))
        = project (surfacePoint S.du S.dv S.ku S.kv S.su S.sv S.pts u v) ∧
      project (volumePoint V.du V.dv V.dw V.ku V.kv V.kw V.su V.sv V.sw V.pts u v (kvGen 2))
        = pointTranslate vec (project (surfacePoint S.du S.dv S.ku S.kv S.su S.sv S.pts u v)) :=
  sweepSurfaceRat_boundary vec kvGen S d h hUu hUv hd hvec hwt hk hc u v hu1 hu2 hv1 hv2

/-- … with the knot vector the code generates (`knotGenerate 1 2 true tol`, `tol < 1`): `S(0, v) = C(v)`,
    `S(1, v) = C(v) + vec` for the swept rational curve … -/
theorem sweep_curve_boundary_points_rational_generated {K : Type} [Field K] [LinearOrder K] [IsStrictOrderedRing K]
    (vec : List K) (tol : K) (htol : tol < 1) (C : Crv (List K) (ℕ → K)) (d : ℕ)
    (hn : 2 ≤ C.pts.length) (hU : KnotsOk C.deg C.kv C.pts.length) (hd : ∀ p ∈ C.pts, p.length = d + 1)
    (hvec : vec.length = d) (hwt : ∀ i, i < C.pts.length → 0 < (ptsGet C.pts i).getD d 0)
    (v : K) (hv1 : C.kv C.deg ≤ v) (hv2 : v ≤ C.kv C.pts.length) :
    ∃ S, sweepCurveRat vec (fnOf (knotGenerate 1 2 true tol : List K)) C = some S ∧
      0 < (curvePoint C.deg C.kv C.pts v).getD d 0 ∧
      project (surfacePoint S.du S.dv S.ku S.kv S.su S.sv S.pts 0 v) = project (curvePoint C.deg C.kv C.pts v) ∧
      project (surfacePoint S.du S.dv S.ku S.kv S.su S.sv S.pts 1 v)
        = pointTranslate vec (project (curvePoint C.deg C.kv C.pts v)) :=
  sweepCurveRat_boundary_generated vec tol htol C d hn hU hd hvec hwt v hv1 hv2

/-- … and `V(u, v, 0) = S(u, v)`, `V(u, v, 1) = S(u, v) + vec` for the swept rational surface (3-D guard as above). -/
theorem sweep_surface_boundary_points_rational_generated {K : Type} [Field K] [LinearOrder K] [IsStrictOrderedRing K]
    (vec : List K) (tol : K) (htol : tol < 1) (S : Srf (List K) (ℕ → K)) (d : ℕ) (h : S.WF) (h3 : 3 ≤ d)
    (hUu : KnotsOk S.du S.ku S.su) (hUv : KnotsOk S.dv S.kv S.sv) (hd : ∀ p ∈ S.pts, p.length = d + 1)
    (hvec : vec.length = d) (hwt : ∀ i, i < S.pts.length → 0 < (ptsGet S.pts i).getD d 0) (u v : K)
    (hu1 : S.ku S.du ≤ u) (hu2 : u ≤ S.ku S.su) (hv1 : S.kv S.dv ≤ v) (hv2 : v ≤ S.kv S.sv) :
    ∃ V, sweepSurfaceRat vec (fnOf (knotGenerate 1 2 true tol : List K)) S = some V ∧
      0 < (surfacePoint S.du S.dv S.ku S.kv S.su S.sv S.pts u v).getD d 0 ∧
      project (volumePoint V.du V.dv V.dw V.ku V.kv V.kw V.su V.sv V.sw V.pts u v 0)
        = project (surfacePoint S.du S.dv S.ku S.kv S.su S.sv S.pts u v) ∧
      project (volumePoint V.du V.dv V.dw V.ku V.kv V.kw V.su V.sv V.sw V.pts u v 1)
        = pointTranslate vec (project (surfacePoint S.du S.dv S.ku S.kv S.su S.sv S.pts u v)) :=
  sweepSurfaceRat_boundary_generated vec tol htol S d h hUu hUv hd hvec hwt u v hu1 hu2 hv1 hv2

/-- non-vacuity: the rational witness curve `c13RatCrv` (Cartesian `(0,0), (1,2), (3,1)`, weights `1, 2, 1/2`) meets the
    hypotheses … -/
example : KnotsOk c13RatCrv.deg c13RatCrv.kv c13RatCrv.pts.length ∧ (∀ p ∈ c13RatCrv.pts, p.length = 2 + 1) ∧
    (∀ i, i < c13RatCrv.pts.length → 0 < (ptsGet c13RatCrv.pts i).getD 2 0) :=
  ⟨c13_kv3_knotsOk, by decide, by decide +kernel⟩

/-- … so for every `v ∈ [0, 1]` the swept surface (vector `(1, 1/2)`, generated knots, `tol = 10e-8`) has
    `S(1, v) = C(v) + (1, 1/2)` as projected points … -/
example (v : ℚ) (hv1 : 0 ≤ v) (hv2 : v ≤ 1) :
    ∃ S, sweepCurveRat [1, 1/2] (fnOf (knotGenerate 1 2 true (1/10000000 : ℚ))) c13RatCrv = some S ∧
      project (surfacePoint S.du S.dv S.ku S.kv S.su S.sv S.pts 1 v)
        = pointTranslate [1, 1/2] (project (curvePoint c13RatCrv.deg c13RatCrv.kv c13RatCrv.pts v)) := by
  obtain ⟨S, h1, _, _, h2⟩ := sweep_curve_boundary_points_rational_generated [1, 1/2] (1/10000000 : ℚ) (by norm_num)
    c13RatCrv 2 (by decide) c13_kv3_knotsOk (by decide) rfl (by decide +kernel) v
    (by show (0 : ℚ) ≤ v; exact hv1) (by show v ≤ (1 : ℚ); exact hv2)
  exact ⟨S, h1, h2⟩

/-- … at `v = 1/2`: `C(1/2) = (1, 17/11)` with weight `11/8` (not 1), and the far section is `(2, 45/22)` -/
example : curvePoint c13RatCrv.deg c13RatCrv.kv c13RatCrv.pts (1/2) = [11/8, 17/8, 11/8] ∧
    project (curvePoint c13RatCrv.deg c13RatCrv.kv c13RatCrv.pts (1/2)) = [1, 17/11] ∧
    pointTranslate [1, 1/2] [1, 17/11] = ([2, 45/22] : List ℚ) := by decide +kernel

/-- … cross-check by evaluation in ℚ: the far section of the swept surface at `v = 1/2`, projected -/
example : (sweepCurveRat [1, 1/2] (fnOf ([0,0,1,1] : List ℚ)) c13RatCrv).map (fun S =>
    project (surfacePoint S.du S.dv S.ku S.kv S.su S.sv S.pts 1 (1/2))) = some [2, 45/22] := by decide +kernel

/-- the rational witness surface `c13RatSrf` (3-D, weights `1, 2, 1/2, 3`) meets the hypotheses of the surface-sweep
    and boundary theorems -/
example : c13RatSrf.WF ∧ KnotsOk c13RatSrf.du c13RatSrf.ku c13RatSrf.su ∧ KnotsOk c13RatSrf.dv c13RatSrf.kv c13RatSrf.sv ∧
    (∀ p ∈ c13RatSrf.pts, p.length = 3 + 1) ∧
    (∀ i, i < c13RatSrf.pts.length → 0 < (ptsGet c13RatSrf.pts i).getD 3 0) :=
  ⟨by unfold Srf.WF; decide, c13_kv2_knotsOk, c13_kv2_knotsOk, by decide, by decide +kernel⟩

end C13
