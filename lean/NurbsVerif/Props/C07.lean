import NurbsVerif.Model.Knots2
import NurbsVerif.Lemmas.Locality
import NurbsVerif.Lemmas.Pieces
import NurbsVerif.Lemmas.SplitSurfSep
import NurbsVerif.Lemmas.SplitExamples
import NurbsVerif.Lemmas.SplitSurfUVMain
import NurbsVerif.Lemmas.SplitUnclampedExamples
import NurbsVerif.Lemmas.DecompUnclampedExamples

/-!
# C07  Splitting and Bézier decomposition reproduce the original piecewise

Model: `Geomdl.splitDir`, `decomposeDir` (insertion to multiplicity `p`, knot and net slices,
normalisation of the pieces' knot vectors).

End-to-end theorems (through `splitDir` / `decomposeDir` themselves, spans found by the library's
search, closed right end included): `split_curve_pieces_coincide`, `split_curve_pieces_coincide_of_mult`,
`decompose_curve_pieces`, `decompose_curve_count`, `split_surface_u_pieces_coincide`,
`split_surface_v_pieces_coincide`, `decompose_surface_u_pieces`, `decompose_surface_v_pieces`,
`decompose_surface_uv_pieces`.  `curveShape rat p U P` / `surfShape rat pu pv Uu Uv su sv P` are the
`Shape` records the driver builds for a curve / surface.  Hypotheses: `ClampedWF` (sorted knots of the
right number, `p ≥ 1`, `p+1` equal knots at both ends, non-empty last span, points of one dimension),
inner knots repeated at most `p` times, and the tolerance of `find_multiplicity` separating the split
parameter from every knot different from it.

Unclamped knot vectors (domain `[U_p, U_n]`, arbitrary sorted outer knots): `split_unclamped_curve_pieces_coincide`,
`split_unclamped_curve_pieces_coincide_of_mult`, `split_unclamped_surface_u_pieces_coincide`,
`split_unclamped_surface_v_pieces_coincide` (hypotheses `CurveWF` / `SplitKvWF` instead of `ClampedWF` /
`ClampedKv`; each piece is evaluated at the affine image of `t ∈ [0,1]` in ITS OWN domain, which is a
sub-interval of `[0,1]` because the constructor normalises the piece's whole knot range), and the
rejection at both domain ends `split_curve_rejects_both_ends`, `split_surface_rejects_both_ends`.

The exceptions of the code: the driver runs `splitDirD` / `decomposeDirE` / `decomposeUVE` (Model/DecomposeE), which
answer `none` exactly where the implementation raises (a split parameter OUTSIDE the closed domain `[U_p, U_n]` of the
split direction – `splitDirD`, audit 4 H8 –; a split parameter / decomposition knot repeated more than
`p` times – `splitDirE` –; the first knot of `U[p+1 : -(p+1)]` on a domain end) and otherwise what `splitDir` /
`decomposeDir` / `decomposeUV` answer (`split_with_all_exceptions_agrees`, `split_rejects_outside_domain`,
`split_with_exceptions_agrees`, `decompose_with_exceptions_agrees`,
`decompose_rejects_domain_edge`, `decompose_rejects_overfull_multiplicity`, `decompose_curve_not_rejected`).
Decomposition of curves and of surfaces in u / in v / in both whose knot vector in the decomposed direction need not
be clamped: `decompose_unclamped_curve_pieces`, `decompose_unclamped_curve_count`,
`decompose_unclamped_surface_u_pieces`, `decompose_unclamped_surface_v_pieces`, `decompose_unclamped_surface_uv_pieces`
(hypothesis `DecompWFU`; the clamped
`DecompWF` is a special case).
-/
namespace C07
open Geomdl Blossom
variable {K : Type} [Field K] [LinearOrder K] [IsStrictOrderedRing K]

/-- splitting at either end of the domain is rejected
    (Unfolding lemma: the guard of the model (the `GeomdlException` of `split_curve` at a domain end) evaluated.) -/
theorem split_rejects_ends (S : Shape K) (dir : ℕ) (u tol : K)
    (h : u = (S.kv dir).getD (S.deg dir) 0 ∨ u = (S.kv dir).getD (S.size dir) 0) :
    splitDir S dir u tol = none := by
  unfold splitDir
  simp only []
  rw [if_pos h]

/-- decomposition terminates by construction (fuel) and returns at least one piece; with no
    interior knot the shape is returned unchanged
    (Unfolding lemma (one step of the recursion with an empty interior-knot list).) -/
theorem decompose_bezier_unchanged (dir : ℕ) (tol : K) (fuel : ℕ) (S : Shape K)
    (h : ((S.kv dir).drop (S.deg dir + 1)).take ((S.kv dir).length - 2 * (S.deg dir + 1)) = []) :
    decomposeDir dir tol (fuel + 1) S = [S] := by
  simp only [decomposeDir, h]

/-- **Left piece** (as built by `split_curve`, before its knot vector is normalised): with `m` the
    index of the last copy of the split parameter in the refined knot vector `U'` (C04 says the refined
    curve IS the original curve), `U'[0 : m+1] ++ [ub]` with the first `m-p+1` control points evaluates
    like the refined curve on every span left of the split parameter. -/
theorem left_piece_coincides (p : ℕ) (Ul : List K) (Q : List (List K)) (ub u : K) (m κ : ℕ)
    (hm : m < Ul.length) (hpκ : p ≤ κ) (hκm : κ + p ≤ m) :
    curvePointAt p (fnOf (Ul.take (m + 1) ++ [ub])) (Q.take (m - p + 1)) κ u = curvePointAt p (fnOf Ul) Q κ u :=
  Geomdl.left_piece_coincides p Ul Q ub u m κ hm hpκ hκm

/-- **Right piece**: `[ub]*(p+1) ++ U'[m+1:]` with the control points from index `m-p` on evaluates, on
    span `κ₂` of the piece, like the refined curve on span `κ₂ + (m-p)`. -/
theorem right_piece_coincides (p d : ℕ) (Ul : List K) (Q : List (List K)) (ub u : K) (m κ₂ : ℕ)
    (hpm : p ≤ m) (hm : m + 1 < Ul.length) (hpκ : p ≤ κ₂) (hQ : NetOk d Q) (hmQ : m - p < Q.length)
    (hmult : ∀ x, m - p < x → x ≤ m → fnOf Ul x = ub) :
    curvePointAt p (fnOf (List.replicate (p + 1) ub ++ Ul.drop (m + 1))) (Q.drop (m - p)) κ₂ u
      = curvePointAt p (fnOf Ul) Q (κ₂ + (m - p)) u :=
  Geomdl.right_piece_coincides p d Ul Q ub u m κ₂ hpm hm hpκ hQ hmQ hmult

/-- **The affine map of the piece's domain**: the piece's constructor normalises its knot vector; the
    normalised piece at `(u - first)/(last - first)` is the un-normalised piece at `u`. -/
theorem normalized_piece_coincides (p : ℕ) (V : List K) (P : List (List K)) (κ : ℕ) (u : K) (hne : V ≠ [])
    (hrange : V.getLastD 0 - V.headD 0 ≠ 0) :
    curvePointAt p (fnOf (knotNormalize V)) P κ ((u - V.headD 0) / (V.getLastD 0 - V.headD 0))
      = curvePointAt p (fnOf V) P κ u :=
  normalized_piece p V P κ u hne hrange

/-- ingredient of "each piece coincides with the original": A2.2 reads the knot vector only on the
    window `κ-p+1 … κ+p`, so a piece's basis functions equal the original's wherever the two knot
    vectors agree on that window … -/
theorem basis_window_locality (U V : ℕ → K) (κ : ℕ) (u : K) (p : ℕ) (hp : p ≤ κ)
    (h : ∀ i, κ + 1 ≤ i + p → i ≤ κ + p → U i = V i) :
    basisFuns p U κ u = basisFuns p V κ u :=
  basisFuns_congr U V κ u p hp h

/-- … and are invariant under the affine re-parametrisation performed by the normalisation of the
    piece's knot vector. -/
theorem basis_affine_invariance (U : ℕ → K) (κ : ℕ) (u a b : K) (ha : a ≠ 0) (p : ℕ) :
    basisFuns p (fun i => a * U i + b) κ (a * u + b) = basisFuns p U κ u :=
  basisFuns_affine U κ u a b ha p

/-! ## End to end through `splitDir` / `decomposeDir` -/

/-- **Splitting a curve, end to end.**  For a well-formed clamped curve of degree `p ≥ 1` whose inner
    knots are repeated at most `p` times, an interior parameter `ub` (`U_p < ub < U_n`) and a tolerance
    that separates `ub` from every knot different from it, `split_curve` (model `splitDir … 0`) is not
    rejected and returns two curves `A`, `B` such that: both are again well-formed clamped curves
    whose knot vectors start with `p+1` zeros and end with `p+1` ones; the sizes add up to
    `|P| + r + 1` (`r = p - s` inserted copies); and for EVERY `t ∈ [0,1]` (both ends included), every
    coordinate, `A(t) = C(U_p + t (ub - U_p))` and `B(t) = C(ub + t (U_n - ub))`, each side evaluated
    with the span its own `find_span_linear` finds. -/
theorem split_curve_pieces_coincide (rat : Bool) (p d : ℕ) (U : List K) (P : List (List K)) (ub tol : K)
    (h : ClampedWF p d U P) (hlo : fnOf U p < ub) (hhi : ub < fnOf U P.length)
    (htol : 0 ≤ tol) (hsep : ∀ x ∈ U, |ub - x| ≤ tol → x = ub)
    (hmul : ∀ i, 1 ≤ i → i < P.length → fnOf U i < fnOf U (i + p)) :
    ∃ UA PA UB PB,
      splitDir (curveShape rat p U P) 0 ub tol = some (curveShape rat p UA PA, curveShape rat p UB PB) ∧
      ClampedWF p d UA PA ∧ ClampedWF p d UB PB ∧
      (∀ i, i ≤ p → fnOf UA i = 0) ∧ (∀ i, PA.length ≤ i → fnOf UA i = 1) ∧
      (∀ i, i ≤ p → fnOf UB i = 0) ∧ (∀ i, PB.length ≤ i → fnOf UB i = 1) ∧
      PA.length + PB.length = P.length + (p - findMultiplicity ub U tol) + 1 ∧
      (∀ t, 0 ≤ t → t ≤ 1 → ∀ j, (curvePoint p (fnOf UA) PA t).getD j 0
          = (curvePoint p (fnOf U) P (fnOf U p + t * (ub - fnOf U p))).getD j 0) ∧
      (∀ t, 0 ≤ t → t ≤ 1 → ∀ j, (curvePoint p (fnOf UB) PB t).getD j 0
          = (curvePoint p (fnOf U) P (ub + t * (fnOf U P.length - ub))).getD j 0) :=
  split_curve_sep rat p d U P ub tol h hlo hhi htol hsep hmul

/-- The same with the hypotheses on `find_multiplicity` stated directly (`MultExact`: the reported
    number `s` is at most `p`, the `s` knots ending at the span of `ub` equal `ub`, the one before is
    smaller) instead of being derived from the tolerance separation. -/
theorem split_curve_pieces_coincide_of_mult (rat : Bool) (p d : ℕ) (U : List K) (P : List (List K)) (ub tol : K)
    (h : ClampedWF p d U P) (hlo : fnOf U p < ub) (hhi : ub < fnOf U P.length)
    (hmx : MultExact p (fnOf U) (findSpanLinear p (fnOf U) P.length ub) (findMultiplicity ub U tol) ub) :
    ∃ UA PA UB PB,
      splitDir (curveShape rat p U P) 0 ub tol = some (curveShape rat p UA PA, curveShape rat p UB PB) ∧
      ClampedWF p d UA PA ∧ ClampedWF p d UB PB ∧
      (∀ i, i ≤ p → fnOf UA i = 0) ∧ (∀ i, PA.length ≤ i → fnOf UA i = 1) ∧
      (∀ i, i ≤ p → fnOf UB i = 0) ∧ (∀ i, PB.length ≤ i → fnOf UB i = 1) ∧
      PA.length + PB.length = P.length + (p - findMultiplicity ub U tol) + 1 ∧
      (∀ t, 0 ≤ t → t ≤ 1 → ∀ j, (curvePoint p (fnOf UA) PA t).getD j 0
          = (curvePoint p (fnOf U) P (fnOf U p + t * (ub - fnOf U p))).getD j 0) ∧
      (∀ t, 0 ≤ t → t ≤ 1 → ∀ j, (curvePoint p (fnOf UB) PB t).getD j 0
          = (curvePoint p (fnOf U) P (ub + t * (fnOf U P.length - ub))).getD j 0) :=
  split_curve_main rat p d U P ub tol h hlo hhi hmx

/-- `find_multiplicity` is exact (in the sense the theorems need) whenever its tolerance separates the
    parameter from every knot different from it and no inner knot is repeated more than `p` times. -/
theorem find_multiplicity_exact (p d : ℕ) (U : List K) (P : List (List K)) (ub tol : K)
    (hwf : CurveWF p d U P) (hp : 1 ≤ p) (hlo : fnOf U p < ub) (hhi : ub < fnOf U P.length)
    (htol : 0 ≤ tol) (hsep : ∀ x ∈ U, |ub - x| ≤ tol → x = ub)
    (hmul : ∀ i, 1 ≤ i → i < P.length → fnOf U i < fnOf U (i + p)) :
    MultExact p (fnOf U) (findSpanLinear p (fnOf U) P.length ub) (findMultiplicity ub U tol) ub :=
  multExact_of_sep p d U P ub tol hwf hp hlo hhi htol hsep hmul

/-- **Bézier decomposition of a curve, end to end.**  For an admissible curve (`DecompWF`: well formed
    and clamped, inner knots repeated at most `p` times, domain not longer than 1, any two knots equal
    or further than `tol` apart) and enough fuel, `decompose_curve` (model `decomposeDir 0`) returns
    EXACTLY ONE piece per non-empty knot interval of the domain (`spanStarts` lists their start
    indices, `breaks` the distinct knot values), IN ORDER; every piece is a clamped segment with `p+1`
    control points that coincides with the original on its interval `[breaks i, breaks (i+1)]` under
    the affine map of its own domain (`BezPiece`), for every parameter, both ends included, every
    coordinate; and whenever at least one split happened (or the input was normalised) every piece
    has the knot vector `0^{p+1} 1^{p+1}`. -/
theorem decompose_curve_pieces (rat : Bool) (p d : ℕ) (tol : K) (fuel : ℕ) (U : List K) (P : List (List K))
    (h : DecompWF p d U P tol) (hfuel : (spanStarts p (fnOf U) P.length).length ≤ fuel + 1) :
    ∃ pieces : List (List K × List (List K)),
      decomposeDir 0 tol fuel (curveShape rat p U P) = pieces.map (fun q => curveShape rat p q.1 q.2) ∧
      pieces.length = (spanStarts p (fnOf U) P.length).length ∧
      ((p + 1 < P.length ∨ (fnOf U p = 0 ∧ fnOf U P.length = 1)) → ∀ q ∈ pieces, q.1 = bezKv p) ∧
      ∀ i, i < pieces.length →
        BezPiece p d (curveFn p U P) ((breaks p (fnOf U) P.length).getD i 0)
          ((breaks p (fnOf U) P.length).getD (i + 1) 0) (pieces.getD i ([], [])) :=
  decompose_curve_all rat p d tol fuel U P h hfuel

/-- **Number of pieces** = number of non-empty knot intervals of the domain (= number of distinct
    interior knots + 1); the length of the knot vector (what the driver passes) is always enough fuel. -/
theorem decompose_curve_count (rat : Bool) (p d : ℕ) (tol : K) (fuel : ℕ) (U : List K) (P : List (List K))
    (h : DecompWF p d U P tol) (hfuel : U.length ≤ fuel) :
    (decomposeDir 0 tol fuel (curveShape rat p U P)).length = (spanStarts p (fnOf U) P.length).length := by
  have hl := h.cl.wf.len
  have := spanStarts_length_le p (fnOf U) P.length
  obtain ⟨pieces, h1, h2, _, _⟩ := decompose_curve_all rat p d tol fuel U P h (by omega)
  rw [h1, List.length_map, h2]

/-- one decomposition step keeps the curve admissible: the remainder after cutting off the first
    Bézier segment satisfies `DecompWF` again (this is what makes the hypotheses of
    `decompose_curve_pieces` conditions on the INPUT only) -/
theorem decompose_remainder_admissible (p d : ℕ) (U : List K) (P : List (List K)) (tol : K)
    (h : DecompWF p d U P tol) (hn : p + 1 < P.length) :
    DecompWF p d
      (knotNormalize (rightKv p (splitRefined p U P (fnOf U (p + 1)) tol).1 (fnOf U (p + 1))
        (findSpanLinear p (fnOf U) P.length (fnOf U (p + 1)) + (p - findMultiplicity (fnOf U (p + 1)) U tol))))
      ((splitRefined p U P (fnOf U (p + 1)) tol).2.drop
        (findSpanLinear p (fnOf U) P.length (fnOf U (p + 1)) + (p - findMultiplicity (fnOf U (p + 1)) U tol) - p))
      tol :=
  remainder_wf p d U P tol h hn

/-- **Splitting a surface in u, end to end** (model `splitDir … 0` = `split_surface_u`).  The u knot
    vector is clamped (`ClampedKv`), inner u knots repeated at most `pu` times, `ub` interior and
    separated by `tol`; the v knot vector only needs to be sorted with a non-degenerate range.  The
    split is not rejected; both pieces have clamped u knot vectors `0^{pu+1} … 1^{pu+1}`, nets of the
    right size, u sizes adding up to `su + r + 1`; and for every `t ∈ [0,1]`, every `v ≥ V_pv` (stated without the upper bound
    `v ≤ V_sv`: both sides are the totalised model evaluation, whose span search clamps; for `v` of the domain
    `[V_pv, V_sv]` they are what `evaluate_single` returns, above `V_sv` `evaluate_single` raises on both objects):
    `A(t, v') = S(U_p + t (ub - U_p), v)`, `B(t, v') = S(ub + t (U_n - ub), v)`, where `v'` is `v` under the
    normalisation of the v knot vector that the pieces' constructor performs (the identity when the
    input's v knot vector is normalised). -/
theorem split_surface_u_pieces_coincide (rat : Bool) (pu pv d : ℕ) (Uu Uv : List K) (su sv : ℕ)
    (P : List (List K)) (ub tol : K)
    (hP : NetOk d P) (hlenP : P.length = su * sv)
    (hVm : Monotone (fnOf Uv)) (hVne : Uv ≠ []) (hVr : Uv.headD 0 < Uv.getLastD 0) (hsv : pv + 1 ≤ sv)
    (hU : ClampedKv pu su Uu) (hlo : fnOf Uu pu < ub) (hhi : ub < fnOf Uu su)
    (htol : 0 ≤ tol) (hsep : ∀ x ∈ Uu, |ub - x| ≤ tol → x = ub)
    (hmul : ∀ i, 1 ≤ i → i < su → fnOf Uu i < fnOf Uu (i + pu)) :
    ∃ UA nA PA UB nB PB,
      splitDir (surfShape rat pu pv Uu Uv su sv P) 0 ub tol
        = some (surfShape rat pu pv UA (knotNormalize Uv) nA sv PA, surfShape rat pu pv UB (knotNormalize Uv) nB sv PB) ∧
      ClampedKv pu nA UA ∧ ClampedKv pu nB UB ∧
      (∀ i, i ≤ pu → fnOf UA i = 0) ∧ (∀ i, nA ≤ i → fnOf UA i = 1) ∧
      (∀ i, i ≤ pu → fnOf UB i = 0) ∧ (∀ i, nB ≤ i → fnOf UB i = 1) ∧
      PA.length = nA * sv ∧ PB.length = nB * sv ∧ NetOk d PA ∧ NetOk d PB ∧
      nA + nB = su + (pu - findMultiplicity ub Uu tol) + 1 ∧
      (∀ v, fnOf Uv pv ≤ v → ∀ t, 0 ≤ t → t ≤ 1 → ∀ j,
        (surfacePoint pu pv (fnOf UA) (fnOf (knotNormalize Uv)) nA sv PA t
            ((v - Uv.headD 0) / (Uv.getLastD 0 - Uv.headD 0))).getD j 0
          = (surfacePoint pu pv (fnOf Uu) (fnOf Uv) su sv P (fnOf Uu pu + t * (ub - fnOf Uu pu)) v).getD j 0) ∧
      (∀ v, fnOf Uv pv ≤ v → ∀ t, 0 ≤ t → t ≤ 1 → ∀ j,
        (surfacePoint pu pv (fnOf UB) (fnOf (knotNormalize Uv)) nB sv PB t
            ((v - Uv.headD 0) / (Uv.getLastD 0 - Uv.headD 0))).getD j 0
          = (surfacePoint pu pv (fnOf Uu) (fnOf Uv) su sv P (ub + t * (fnOf Uu su - ub)) v).getD j 0) :=
  split_surface_u_main rat pu pv d Uu Uv su sv P ub tol hP hlenP hVm hVne hVr hsv hU hlo hhi
    (multExact_of_sep_kv pu su Uu ub tol hU hlo hhi htol hsep hmul)

/-- **Splitting a surface in v, end to end** (model `splitDir … 1` = `split_surface_v`): the mirror
    image of `split_surface_u_pieces_coincide` (rows instead of columns; the free parameter `u ≥ U_pu` without upper
    bound, as there: on the domain `[U_pu, U_su]` both sides are what `evaluate_single` returns). -/
theorem split_surface_v_pieces_coincide (rat : Bool) (pu pv d : ℕ) (Uu Uv : List K) (su sv : ℕ)
    (P : List (List K)) (vb tol : K)
    (hP : NetOk d P) (hlenP : P.length = su * sv)
    (hUm : Monotone (fnOf Uu)) (hUne : Uu ≠ []) (hUr : Uu.headD 0 < Uu.getLastD 0) (hsu : pu + 1 ≤ su)
    (hV : ClampedKv pv sv Uv) (hlo : fnOf Uv pv < vb) (hhi : vb < fnOf Uv sv)
    (htol : 0 ≤ tol) (hsep : ∀ x ∈ Uv, |vb - x| ≤ tol → x = vb)
    (hmul : ∀ i, 1 ≤ i → i < sv → fnOf Uv i < fnOf Uv (i + pv)) :
    ∃ UA nA PA UB nB PB,
      splitDir (surfShape rat pu pv Uu Uv su sv P) 1 vb tol
        = some (surfShape rat pu pv (knotNormalize Uu) UA su nA PA, surfShape rat pu pv (knotNormalize Uu) UB su nB PB) ∧
      ClampedKv pv nA UA ∧ ClampedKv pv nB UB ∧
      (∀ i, i ≤ pv → fnOf UA i = 0) ∧ (∀ i, nA ≤ i → fnOf UA i = 1) ∧
      (∀ i, i ≤ pv → fnOf UB i = 0) ∧ (∀ i, nB ≤ i → fnOf UB i = 1) ∧
      PA.length = su * nA ∧ PB.length = su * nB ∧ NetOk d PA ∧ NetOk d PB ∧
      nA + nB = sv + (pv - findMultiplicity vb Uv tol) + 1 ∧
      (∀ u, fnOf Uu pu ≤ u → ∀ t, 0 ≤ t → t ≤ 1 → ∀ j,
        (surfacePoint pu pv (fnOf (knotNormalize Uu)) (fnOf UA) su nA PA
            ((u - Uu.headD 0) / (Uu.getLastD 0 - Uu.headD 0)) t).getD j 0
          = (surfacePoint pu pv (fnOf Uu) (fnOf Uv) su sv P u (fnOf Uv pv + t * (vb - fnOf Uv pv))).getD j 0) ∧
      (∀ u, fnOf Uu pu ≤ u → ∀ t, 0 ≤ t → t ≤ 1 → ∀ j,
        (surfacePoint pu pv (fnOf (knotNormalize Uu)) (fnOf UB) su nB PB
            ((u - Uu.headD 0) / (Uu.getLastD 0 - Uu.headD 0)) t).getD j 0
          = (surfacePoint pu pv (fnOf Uu) (fnOf Uv) su sv P u (vb + t * (fnOf Uv sv - vb))).getD j 0) :=
  split_surface_v_main rat pu pv d Uu Uv su sv P vb tol hP hlenP hUm hUne hUr hsu hV hlo hhi
    (multExact_of_sep_kv pv sv Uv vb tol hV hlo hhi htol hsep hmul)

/-- **Bézier decomposition of a surface in u, end to end** (model `decomposeDir 0` on a surface =
    `decompose_surface(…, decompose_dir='u')`).  Hypotheses: net of the right size and dimension; the u
    data admissible (`DecompWF` of column 0: clamped, inner knots repeated at most `pu` times, domain
    not longer than 1, knots separated by `tol`); the v knot vector sorted and NORMALISED
    (`knotNormalize Uv = Uv`, the library's default, so that the pieces keep it).  Conclusion: exactly
    one strip per non-empty u interval, in order; strip `i` has `pu+1` control points in u, a clamped u
    knot vector (`0^{pu+1} 1^{pu+1}` whenever a split happened or the input was normalised), the same v
    data, and coincides with the original on `[breaks i, breaks (i+1)] × (v domain)` under the affine
    map of its own u domain and the identity in v; every parameter, both ends, every coordinate. -/
theorem decompose_surface_u_pieces (rat : Bool) (pu pv d : ℕ) (tol : K) (fuel : ℕ) (Uu Uv : List K) (su sv : ℕ)
    (P : List (List K)) (hP : NetOk d P) (hlenP : P.length = su * sv)
    (hVm : Monotone (fnOf Uv)) (hsv : pv + 1 ≤ sv) (hVn : knotNormalize Uv = Uv)
    (h0 : DecompWF pu d Uu (colOf su sv P 0) tol)
    (hfuel : (spanStarts pu (fnOf Uu) su).length ≤ fuel + 1) :
    ∃ pieces : List (List K × ℕ × List (List K)),
      decomposeDir 0 tol fuel (surfShape rat pu pv Uu Uv su sv P)
        = pieces.map (fun q => surfShape rat pu pv q.1 Uv q.2.1 sv q.2.2) ∧
      pieces.length = (spanStarts pu (fnOf Uu) su).length ∧
      ((pu + 1 < su ∨ (fnOf Uu pu = 0 ∧ fnOf Uu su = 1)) → ∀ q ∈ pieces, q.1 = bezKv pu) ∧
      ∀ i, i < pieces.length →
        (pieces.getD i ([], 0, [])).2.1 = pu + 1 ∧
        ClampedKv pu (pu + 1) (pieces.getD i ([], 0, [])).1 ∧
        (pieces.getD i ([], 0, [])).2.2.length = (pu + 1) * sv ∧ NetOk d (pieces.getD i ([], 0, [])).2.2 ∧
        ∀ v, fnOf Uv pv ≤ v → ∀ t, 0 ≤ t → t ≤ 1 → ∀ j,
          (surfacePoint pu pv (fnOf (pieces.getD i ([], 0, [])).1) (fnOf Uv) (pu + 1) sv
              (pieces.getD i ([], 0, [])).2.2
              (fnOf (pieces.getD i ([], 0, [])).1 pu
                + t * (fnOf (pieces.getD i ([], 0, [])).1 (pu + 1) - fnOf (pieces.getD i ([], 0, [])).1 pu)) v).getD j 0
            = (surfacePoint pu pv (fnOf Uu) (fnOf Uv) su sv P
                ((breaks pu (fnOf Uu) su).getD i 0
                  + t * ((breaks pu (fnOf Uu) su).getD (i + 1) 0 - (breaks pu (fnOf Uu) su).getD i 0)) v).getD j 0 :=
  decompose_surface_u_all rat pu pv d tol fuel Uu Uv su sv P hP hlenP hVm hsv hVn h0 hfuel

/-- **Bézier decomposition of a surface in v, end to end** (model `decomposeDir 1`): the mirror image
    of `decompose_surface_u_pieces`. -/
theorem decompose_surface_v_pieces (rat : Bool) (pu pv d : ℕ) (tol : K) (fuel : ℕ) (Uu Uv : List K) (su sv : ℕ)
    (P : List (List K)) (hP : NetOk d P) (hlenP : P.length = su * sv)
    (hUm : Monotone (fnOf Uu)) (hsu : pu + 1 ≤ su) (hUn : knotNormalize Uu = Uu)
    (h0 : DecompWF pv d Uv (rowOf sv P 0) tol)
    (hfuel : (spanStarts pv (fnOf Uv) sv).length ≤ fuel + 1) :
    ∃ pieces : List (List K × ℕ × List (List K)),
      decomposeDir 1 tol fuel (surfShape rat pu pv Uu Uv su sv P)
        = pieces.map (fun q => surfShape rat pu pv Uu q.1 su q.2.1 q.2.2) ∧
      pieces.length = (spanStarts pv (fnOf Uv) sv).length ∧
      ((pv + 1 < sv ∨ (fnOf Uv pv = 0 ∧ fnOf Uv sv = 1)) → ∀ q ∈ pieces, q.1 = bezKv pv) ∧
      ∀ i, i < pieces.length →
        (pieces.getD i ([], 0, [])).2.1 = pv + 1 ∧
        ClampedKv pv (pv + 1) (pieces.getD i ([], 0, [])).1 ∧
        (pieces.getD i ([], 0, [])).2.2.length = su * (pv + 1) ∧ NetOk d (pieces.getD i ([], 0, [])).2.2 ∧
        ∀ u, fnOf Uu pu ≤ u → ∀ t, 0 ≤ t → t ≤ 1 → ∀ j,
          (surfacePoint pu pv (fnOf Uu) (fnOf (pieces.getD i ([], 0, [])).1) su (pv + 1)
              (pieces.getD i ([], 0, [])).2.2 u
              (fnOf (pieces.getD i ([], 0, [])).1 pv
                + t * (fnOf (pieces.getD i ([], 0, [])).1 (pv + 1) - fnOf (pieces.getD i ([], 0, [])).1 pv))).getD j 0
            = (surfacePoint pu pv (fnOf Uu) (fnOf Uv) su sv P u
                ((breaks pv (fnOf Uv) sv).getD i 0
                  + t * ((breaks pv (fnOf Uv) sv).getD (i + 1) 0 - (breaks pv (fnOf Uv) sv).getD i 0))).getD j 0 :=
  decompose_surface_v_all rat pu pv d tol fuel Uu Uv su sv P hP hlenP hUm hsu hUn h0 hfuel

/-- **Bézier decomposition of a surface in both directions, end to end** (model `decomposeUV` =
    `decompose_surface(…, decompose_dir='uv')`: u first, then every strip in v).  Both knot vectors
    normalised and admissible.  The result has exactly one Bézier patch per PAIR of non-empty knot
    intervals, in u-major order (patch `(i, l)` at position `l + cV * i`); every patch has the knot
    vectors `0^{p+1} 1^{p+1}` in both directions, `(pu+1)(pv+1)` control points, and for all
    `s, t ∈ [0,1]` its point at `(s, t)` is the original surface's point at
    `(breaksU i + s (breaksU (i+1) - breaksU i), breaksV l + t (breaksV (l+1) - breaksV l))`. -/
theorem decompose_surface_uv_pieces (rat : Bool) (pu pv d : ℕ) (tol : K) (Uu Uv : List K) (su sv : ℕ)
    (P : List (List K)) (hP : NetOk d P) (hlenP : P.length = su * sv)
    (hUn : knotNormalize Uu = Uu) (hVn : knotNormalize Uv = Uv)
    (hU0 : DecompWF pu d Uu (colOf su sv P 0) tol) (hV0 : DecompWF pv d Uv (rowOf sv P 0) tol) :
    (decomposeUV tol (surfShape rat pu pv Uu Uv su sv P)).length
      = (spanStarts pu (fnOf Uu) su).length * (spanStarts pv (fnOf Uv) sv).length ∧
    ∀ i, i < (spanStarts pu (fnOf Uu) su).length → ∀ l, l < (spanStarts pv (fnOf Uv) sv).length →
      ∃ Pil : List (List K),
        (decomposeUV tol (surfShape rat pu pv Uu Uv su sv P)).getD
            (l + (spanStarts pv (fnOf Uv) sv).length * i) (surfShape rat pu pv [] [] 0 0 [])
          = surfShape rat pu pv (bezKv pu) (bezKv pv) (pu + 1) (pv + 1) Pil ∧
        Pil.length = (pu + 1) * (pv + 1) ∧ NetOk d Pil ∧
        ∀ s, 0 ≤ s → s ≤ 1 → ∀ t, 0 ≤ t → t ≤ 1 → ∀ j,
          (surfacePoint pu pv (fnOf (bezKv pu)) (fnOf (bezKv pv)) (pu + 1) (pv + 1) Pil s t).getD j 0
            = (surfacePoint pu pv (fnOf Uu) (fnOf Uv) su sv P
                ((breaks pu (fnOf Uu) su).getD i 0
                  + s * ((breaks pu (fnOf Uu) su).getD (i + 1) 0 - (breaks pu (fnOf Uu) su).getD i 0))
                ((breaks pv (fnOf Uv) sv).getD l 0
                  + t * ((breaks pv (fnOf Uv) sv).getD (l + 1) 0 - (breaks pv (fnOf Uv) sv).getD l 0))).getD j 0 :=
  decompose_surface_uv_all rat pu pv d tol Uu Uv su sv P hP hlenP hUn hVn hU0 hV0

/-! ## Non-vacuity: the hypotheses hold on concrete inputs

`SplitEx.U = [0,0,0,1/2,1,1,1]`, `SplitEx.P` four points in the plane (a quadratic with one interior
knot), `SplitEx.tol = 1e-7`; `SplitEx.V = [0,0,1,1]`, `SplitEx.PS` a 4 × 2 net in space. -/

/-- splitting the quadratic at 1/4 (not a knot, two copies inserted): every hypothesis of
    `split_curve_pieces_coincide` holds, so its conclusion holds for this input -/
example : ∃ UA PA UB PB,
    splitDir (curveShape false 2 SplitEx.U SplitEx.P) 0 (1/4) SplitEx.tol
      = some (curveShape false 2 UA PA, curveShape false 2 UB PB) ∧
    PA.length + PB.length = 4 + (2 - findMultiplicity (1/4) SplitEx.U SplitEx.tol) + 1 ∧
    (∀ t, 0 ≤ t → t ≤ 1 → ∀ j, (curvePoint 2 (fnOf UA) PA t).getD j 0
        = (curvePoint 2 (fnOf SplitEx.U) SplitEx.P (fnOf SplitEx.U 2 + t * (1/4 - fnOf SplitEx.U 2))).getD j 0) := by
  obtain ⟨UA, PA, UB, PB, h1, _, _, _, _, _, _, h8, h9, _⟩ :=
    split_curve_pieces_coincide false 2 2 SplitEx.U SplitEx.P (1/4) SplitEx.tol SplitEx.clamped
      (by simp [SplitEx.U, fnOf, List.getD]) (by simp [SplitEx.U, SplitEx.P, fnOf, List.getD]; norm_num)
      (by norm_num [SplitEx.tol]) SplitEx.sep_quarter
      (fun i h1 h2 => SplitEx.mul_U i h1 (by simpa [SplitEx.P] using h2))
  exact ⟨UA, PA, UB, PB, h1, h8, h9⟩

/-- splitting at the existing knot 1/2 (multiplicity 1, one copy inserted) is covered as well -/
example : MultExact 2 (fnOf SplitEx.U) (findSpanLinear 2 (fnOf SplitEx.U) SplitEx.P.length (1/2))
    (findMultiplicity (1/2) SplitEx.U SplitEx.tol) (1/2) :=
  find_multiplicity_exact 2 2 SplitEx.U SplitEx.P (1/2) SplitEx.tol SplitEx.clamped.wf (by omega)
    (by simp [SplitEx.U, fnOf, List.getD]) (by simp [SplitEx.U, SplitEx.P, fnOf, List.getD]; norm_num)
    (by norm_num [SplitEx.tol]) SplitEx.sep_half
    (fun i h1 h2 => SplitEx.mul_U i h1 (by simpa [SplitEx.P] using h2))

/-- the quadratic is admissible for the decomposition theorems; it has two non-empty intervals, so
    `decompose_curve` returns two pieces -/
example : DecompWF 2 2 SplitEx.U SplitEx.P SplitEx.tol := SplitEx.decompWF

example : (decomposeDir 0 SplitEx.tol 7 (curveShape false 2 SplitEx.U SplitEx.P)).length
    = (spanStarts 2 (fnOf SplitEx.U) SplitEx.P.length).length :=
  decompose_curve_count false 2 2 SplitEx.tol 7 SplitEx.U SplitEx.P SplitEx.decompWF (by simp [SplitEx.U])

/-- a 4 × 2 surface of degrees (2, 1): splitting in u at 1/4 and in v at 1/3 satisfies the hypotheses -/
example : ∃ UA nA PA UB nB PB,
    splitDir (surfShape false 2 1 SplitEx.U SplitEx.V 4 2 SplitEx.PS) 0 (1/4) SplitEx.tol
      = some (surfShape false 2 1 UA (knotNormalize SplitEx.V) nA 2 PA,
              surfShape false 2 1 UB (knotNormalize SplitEx.V) nB 2 PB) := by
  obtain ⟨UA, nA, PA, UB, nB, PB, h1, _⟩ :=
    split_surface_u_pieces_coincide false 2 1 3 SplitEx.U SplitEx.V 4 2 SplitEx.PS (1/4) SplitEx.tol
      SplitEx.netS (by simp [SplitEx.PS]) SplitEx.mono_V (by simp [SplitEx.V]) (by simp [SplitEx.V]) (by omega)
      SplitEx.clampedKv (by simp [SplitEx.U, fnOf, List.getD]) (by simp [SplitEx.U, fnOf, List.getD]; norm_num)
      (by norm_num [SplitEx.tol]) SplitEx.sep_quarter SplitEx.mul_U
  exact ⟨UA, nA, PA, UB, nB, PB, h1⟩

example : ∃ UA nA PA UB nB PB,
    splitDir (surfShape false 2 1 SplitEx.U SplitEx.V 4 2 SplitEx.PS) 1 (1/3) SplitEx.tol
      = some (surfShape false 2 1 (knotNormalize SplitEx.U) UA 4 nA PA,
              surfShape false 2 1 (knotNormalize SplitEx.U) UB 4 nB PB) := by
  obtain ⟨UA, nA, PA, UB, nB, PB, h1, _⟩ :=
    split_surface_v_pieces_coincide false 2 1 3 SplitEx.U SplitEx.V 4 2 SplitEx.PS (1/3) SplitEx.tol
      SplitEx.netS (by simp [SplitEx.PS]) SplitEx.mono_U (by simp [SplitEx.U]) (by simp [SplitEx.U]) (by omega)
      SplitEx.clampedKvV (by simp [SplitEx.V, fnOf, List.getD]) (by simp [SplitEx.V, fnOf, List.getD]; norm_num)
      (by norm_num [SplitEx.tol]) SplitEx.sep_V SplitEx.mul_V
  exact ⟨UA, nA, PA, UB, nB, PB, h1⟩

/-- the 4 × 2 surface satisfies the hypotheses of the three surface-decomposition theorems; `uv` gives
    (number of u intervals) × (number of v intervals) patches -/
example : (decomposeUV SplitEx.tol (surfShape false 2 1 SplitEx.U SplitEx.V 4 2 SplitEx.PS)).length
    = (spanStarts 2 (fnOf SplitEx.U) 4).length * (spanStarts 1 (fnOf SplitEx.V) 2).length :=
  (decompose_surface_uv_pieces false 2 1 3 SplitEx.tol SplitEx.U SplitEx.V 4 2 SplitEx.PS SplitEx.netS
    (by simp [SplitEx.PS]) SplitEx.norm_U SplitEx.norm_V SplitEx.decompWF_col SplitEx.decompWF_row).1

example : ∃ pieces : List (List ℚ × ℕ × List (List ℚ)),
    decomposeDir 0 SplitEx.tol 7 (surfShape false 2 1 SplitEx.U SplitEx.V 4 2 SplitEx.PS)
      = pieces.map (fun q => surfShape false 2 1 q.1 SplitEx.V q.2.1 2 q.2.2) ∧
    pieces.length = (spanStarts 2 (fnOf SplitEx.U) 4).length := by
  obtain ⟨pieces, h1, h2, _⟩ := decompose_surface_u_pieces false 2 1 3 SplitEx.tol 7 SplitEx.U SplitEx.V 4 2
    SplitEx.PS SplitEx.netS (by simp [SplitEx.PS]) SplitEx.mono_V (by omega) SplitEx.norm_V SplitEx.decompWF_col
    (by have := spanStarts_length_le 2 (fnOf SplitEx.U) 4; omega)
  exact ⟨pieces, h1, h2⟩

example : ∃ pieces : List (List ℚ × ℕ × List (List ℚ)),
    decomposeDir 1 SplitEx.tol 4 (surfShape false 2 1 SplitEx.U SplitEx.V 4 2 SplitEx.PS)
      = pieces.map (fun q => surfShape false 2 1 SplitEx.U q.1 4 q.2.1 q.2.2) ∧
    pieces.length = (spanStarts 1 (fnOf SplitEx.V) 2).length := by
  obtain ⟨pieces, h1, h2, _⟩ := decompose_surface_v_pieces false 2 1 3 SplitEx.tol 4 SplitEx.U SplitEx.V 4 2
    SplitEx.PS SplitEx.netS (by simp [SplitEx.PS]) SplitEx.mono_U (by omega) SplitEx.norm_U SplitEx.decompWF_row
    (by have := spanStarts_length_le 1 (fnOf SplitEx.V) 2; omega)
  exact ⟨pieces, h1, h2⟩

/-! ## Unclamped knot vectors

The library accepts knot vectors whose first / last `p+1` knots are not equal; the domain is then
`[U_p, U_n]`.  `split_curve` cuts the refined knot vector at the split parameter `ub` as in the clamped
case, so the left piece's knot vector runs over `[U_0, ub]` and the right piece's over `[ub, U_{n+p}]`;
the pieces' constructor normalises these RANGES to `[0,1]`.  Hence `A`'s domain is
`[(U_p - U_0)/(ub - U_0), 1]` and `B`'s is `[0, (U_n - ub)/(U_{n+p} - ub)]` (both `[0,1]` exactly when the
respective end of the input is clamped), and "the affine map of each piece's domain onto its
sub-interval" sends `A_p + t (A_nA - A_p)` to `U_p + t (ub - U_p)` and `B_p + t (B_nB - B_p)` to
`ub + t (U_n - ub)`. -/

/-- **Rejection at BOTH domain ends, curves, clamped or not**: `split_curve` (model `splitDir … 0`) at
    `U_p` and at `U_n` is rejected – for an unclamped knot vector these are not the first / last knot.
    (Only the lengths are needed to read the two knots.) -/
theorem split_curve_rejects_both_ends (rat : Bool) (p : ℕ) (U : List K) (P : List (List K)) (tol : K)
    (hp : p < U.length) (hn : P.length < U.length) :
    splitDir (curveShape rat p U P) 0 (fnOf U p) tol = none ∧
    splitDir (curveShape rat p U P) 0 (fnOf U P.length) tol = none := by
  constructor
  · apply split_rejects_ends; left
    simp only [curveShape, Shape.kv, Shape.deg, List.getD_cons_zero]
    exact (fnOf_getD U p hp).symm
  · apply split_rejects_ends; right
    simp only [curveShape, Shape.kv, Shape.size, List.getD_cons_zero]
    exact (fnOf_getD U P.length hn).symm

/-- **Rejection at BOTH domain ends, surfaces, either direction, clamped or not**: `split_surface_u` at
    `Uu_pu`, `Uu_su` and `split_surface_v` at `Uv_pv`, `Uv_sv` are rejected. -/
theorem split_surface_rejects_both_ends (rat : Bool) (pu pv : ℕ) (Uu Uv : List K) (su sv : ℕ)
    (P : List (List K)) (tol : K)
    (hpu : pu < Uu.length) (hsu : su < Uu.length) (hpv : pv < Uv.length) (hsv : sv < Uv.length) :
    splitDir (surfShape rat pu pv Uu Uv su sv P) 0 (fnOf Uu pu) tol = none ∧
    splitDir (surfShape rat pu pv Uu Uv su sv P) 0 (fnOf Uu su) tol = none ∧
    splitDir (surfShape rat pu pv Uu Uv su sv P) 1 (fnOf Uv pv) tol = none ∧
    splitDir (surfShape rat pu pv Uu Uv su sv P) 1 (fnOf Uv sv) tol = none := by
  refine ⟨?_, ?_, ?_, ?_⟩
  · apply split_rejects_ends; left
    simp only [surfShape, Shape.kv, Shape.deg, List.getD_cons_zero]
    exact (fnOf_getD Uu pu hpu).symm
  · apply split_rejects_ends; right
    simp only [surfShape, Shape.kv, Shape.size, List.getD_cons_zero]
    exact (fnOf_getD Uu su hsu).symm
  · apply split_rejects_ends; left
    simp only [surfShape, Shape.kv, Shape.deg, List.getD_cons_zero, List.getD_cons_succ]
    exact (fnOf_getD Uv pv hpv).symm
  · apply split_rejects_ends; right
    simp only [surfShape, Shape.kv, Shape.size, List.getD_cons_zero, List.getD_cons_succ]
    exact (fnOf_getD Uv sv hsv).symm

/-- **Splitting a curve whose knot vector need not be clamped, end to end.**  For a well-formed curve
    (`CurveWF`: sorted knots, `|U| = n + p + 1`, `n ≥ p + 1`, non-empty last span of the domain, points
    of one dimension) of degree `p ≥ 1` whose knots `U_1 … U_{n+p-1}` are repeated at most `p` times, an
    interior parameter `U_p < ub < U_n` and a tolerance separating `ub` from every knot different from it,
    `split_curve` (model `splitDir … 0`) is not rejected and returns two well-formed curves `A`, `B`
    with: `A`'s knot vector starts at `0`, its domain starts at `A_p = (U_p - U_0)/(ub - U_0)` and it ends
    with `p+1` ones; `B`'s starts with `p+1` zeros, its domain ends at
    `B_nB = (U_n - ub)/(U_{n+p} - ub)` and its last knot is `1`; the sizes add up to `n + r + 1`; and for
    EVERY `t ∈ [0,1]` (both ends), every coordinate,
    `A(A_p + t (A_nA - A_p)) = C(U_p + t (ub - U_p))` and `B(B_p + t (B_nB - B_p)) = C(ub + t (U_n - ub))`,
    each side evaluated with the span its own `find_span_linear` finds.  (For a clamped input
    `A_p = 0`, `B_nB = 1`: this is `split_curve_pieces_coincide`.) -/
theorem split_unclamped_curve_pieces_coincide (rat : Bool) (p d : ℕ) (U : List K) (P : List (List K)) (ub tol : K)
    (hwf : CurveWF p d U P) (hp : 1 ≤ p) (hlo : fnOf U p < ub) (hhi : ub < fnOf U P.length)
    (htol : 0 ≤ tol) (hsep : ∀ x ∈ U, |ub - x| ≤ tol → x = ub)
    (hmul : ∀ i, 1 ≤ i → i < P.length → fnOf U i < fnOf U (i + p)) :
    ∃ UA PA UB PB,
      splitDir (curveShape rat p U P) 0 ub tol = some (curveShape rat p UA PA, curveShape rat p UB PB) ∧
      CurveWF p d UA PA ∧ CurveWF p d UB PB ∧
      fnOf UA 0 = 0 ∧ fnOf UA p = (fnOf U p - fnOf U 0) / (ub - fnOf U 0) ∧
      (∀ i, PA.length ≤ i → fnOf UA i = 1) ∧
      (∀ i, i ≤ p → fnOf UB i = 0) ∧
      fnOf UB PB.length = (fnOf U P.length - ub) / (fnOf U (P.length + p) - ub) ∧
      fnOf UB (PB.length + p) = 1 ∧
      PA.length + PB.length = P.length + (p - findMultiplicity ub U tol) + 1 ∧
      (∀ t, 0 ≤ t → t ≤ 1 → ∀ j,
        (curvePoint p (fnOf UA) PA (fnOf UA p + t * (fnOf UA PA.length - fnOf UA p))).getD j 0
          = (curvePoint p (fnOf U) P (fnOf U p + t * (ub - fnOf U p))).getD j 0) ∧
      (∀ t, 0 ≤ t → t ≤ 1 → ∀ j,
        (curvePoint p (fnOf UB) PB (fnOf UB p + t * (fnOf UB PB.length - fnOf UB p))).getD j 0
          = (curvePoint p (fnOf U) P (ub + t * (fnOf U P.length - ub))).getD j 0) :=
  split_curve_unclamped_sep rat p d U P ub tol hwf hp hlo hhi htol hsep hmul

/-- The same with the hypotheses on `find_multiplicity` stated directly (`MultExact`) instead of being
    derived from the tolerance separation (`find_multiplicity_exact` derives them for any `CurveWF`). -/
theorem split_unclamped_curve_pieces_coincide_of_mult (rat : Bool) (p d : ℕ) (U : List K) (P : List (List K))
    (ub tol : K)
    (hwf : CurveWF p d U P) (hp : 1 ≤ p) (hlo : fnOf U p < ub) (hhi : ub < fnOf U P.length)
    (hmx : MultExact p (fnOf U) (findSpanLinear p (fnOf U) P.length ub) (findMultiplicity ub U tol) ub) :
    ∃ UA PA UB PB,
      splitDir (curveShape rat p U P) 0 ub tol = some (curveShape rat p UA PA, curveShape rat p UB PB) ∧
      CurveWF p d UA PA ∧ CurveWF p d UB PB ∧
      fnOf UA 0 = 0 ∧ fnOf UA p = (fnOf U p - fnOf U 0) / (ub - fnOf U 0) ∧
      (∀ i, PA.length ≤ i → fnOf UA i = 1) ∧
      (∀ i, i ≤ p → fnOf UB i = 0) ∧
      fnOf UB PB.length = (fnOf U P.length - ub) / (fnOf U (P.length + p) - ub) ∧
      fnOf UB (PB.length + p) = 1 ∧
      PA.length + PB.length = P.length + (p - findMultiplicity ub U tol) + 1 ∧
      (∀ t, 0 ≤ t → t ≤ 1 → ∀ j,
        (curvePoint p (fnOf UA) PA (fnOf UA p + t * (fnOf UA PA.length - fnOf UA p))).getD j 0
          = (curvePoint p (fnOf U) P (fnOf U p + t * (ub - fnOf U p))).getD j 0) ∧
      (∀ t, 0 ≤ t → t ≤ 1 → ∀ j,
        (curvePoint p (fnOf UB) PB (fnOf UB p + t * (fnOf UB PB.length - fnOf UB p))).getD j 0
          = (curvePoint p (fnOf U) P (ub + t * (fnOf U P.length - ub))).getD j 0) :=
  split_curve_unclamped_main rat p d U P ub tol hwf hp hlo hhi hmx

/-- **Splitting a surface in u, u knot vector clamped or not, end to end** (model `splitDir … 0` =
    `split_surface_u`).  `SplitKvWF pu su Uu`: sorted, `|Uu| = su + pu + 1`, `su ≥ pu + 1`, non-empty last span,
    `pu ≥ 1`; knots `Uu_1 … Uu_{su+pu-1}` repeated at most `pu` times, `ub` interior and separated by `tol`;
    the v knot vector only needs to be sorted with a non-degenerate range (clamped or not).  Both pieces
    have well-formed u knot vectors with the domain ends as in the curve theorem, nets of the right size,
    u sizes adding up to `su + r + 1`; and for every `t ∈ [0,1]`, every `v ≥ V_pv` (stated without the upper bound
    `v ≤ V_sv`: both sides are the totalised model evaluation, whose span search clamps; for `v` of the domain
    `[V_pv, V_sv]` they are what `evaluate_single` returns, above `V_sv` `evaluate_single` raises on both objects):
    `A(A_p + t (A_nA - A_p), v') = S(U_p + t (ub - U_p), v)`, `B(B_p + t (B_nB - B_p), v') = S(ub + t (U_n - ub), v)`,
    where `v'` is `v` under the normalisation of the v knot vector that the pieces' constructor performs. -/
theorem split_unclamped_surface_u_pieces_coincide (rat : Bool) (pu pv d : ℕ) (Uu Uv : List K) (su sv : ℕ)
    (P : List (List K)) (ub tol : K)
    (hP : NetOk d P) (hlenP : P.length = su * sv)
    (hVm : Monotone (fnOf Uv)) (hVne : Uv ≠ []) (hVr : Uv.headD 0 < Uv.getLastD 0) (hsv : pv + 1 ≤ sv)
    (hU : SplitKvWF pu su Uu) (hlo : fnOf Uu pu < ub) (hhi : ub < fnOf Uu su)
    (htol : 0 ≤ tol) (hsep : ∀ x ∈ Uu, |ub - x| ≤ tol → x = ub)
    (hmul : ∀ i, 1 ≤ i → i < su → fnOf Uu i < fnOf Uu (i + pu)) :
    ∃ UA nA PA UB nB PB,
      splitDir (surfShape rat pu pv Uu Uv su sv P) 0 ub tol
        = some (surfShape rat pu pv UA (knotNormalize Uv) nA sv PA, surfShape rat pu pv UB (knotNormalize Uv) nB sv PB) ∧
      SplitKvWF pu nA UA ∧ SplitKvWF pu nB UB ∧
      fnOf UA 0 = 0 ∧ fnOf UA pu = (fnOf Uu pu - fnOf Uu 0) / (ub - fnOf Uu 0) ∧
      (∀ i, nA ≤ i → fnOf UA i = 1) ∧
      (∀ i, i ≤ pu → fnOf UB i = 0) ∧
      fnOf UB nB = (fnOf Uu su - ub) / (fnOf Uu (su + pu) - ub) ∧ fnOf UB (nB + pu) = 1 ∧
      PA.length = nA * sv ∧ PB.length = nB * sv ∧ NetOk d PA ∧ NetOk d PB ∧
      nA + nB = su + (pu - findMultiplicity ub Uu tol) + 1 ∧
      (∀ v, fnOf Uv pv ≤ v → ∀ t, 0 ≤ t → t ≤ 1 → ∀ j,
        (surfacePoint pu pv (fnOf UA) (fnOf (knotNormalize Uv)) nA sv PA
            (fnOf UA pu + t * (fnOf UA nA - fnOf UA pu))
            ((v - Uv.headD 0) / (Uv.getLastD 0 - Uv.headD 0))).getD j 0
          = (surfacePoint pu pv (fnOf Uu) (fnOf Uv) su sv P (fnOf Uu pu + t * (ub - fnOf Uu pu)) v).getD j 0) ∧
      (∀ v, fnOf Uv pv ≤ v → ∀ t, 0 ≤ t → t ≤ 1 → ∀ j,
        (surfacePoint pu pv (fnOf UB) (fnOf (knotNormalize Uv)) nB sv PB
            (fnOf UB pu + t * (fnOf UB nB - fnOf UB pu))
            ((v - Uv.headD 0) / (Uv.getLastD 0 - Uv.headD 0))).getD j 0
          = (surfacePoint pu pv (fnOf Uu) (fnOf Uv) su sv P (ub + t * (fnOf Uu su - ub)) v).getD j 0) :=
  split_surface_u_unclamped_main rat pu pv d Uu Uv su sv P ub tol hP hlenP hVm hVne hVr hsv hU hlo hhi
    (multExact_of_sep_kvU pu su Uu ub tol hU hlo hhi htol hsep hmul)

/-- **Splitting a surface in v, v knot vector clamped or not, end to end** (model `splitDir … 1` =
    `split_surface_v`): the mirror image of `split_unclamped_surface_u_pieces_coincide` (free parameter `u ≥ U_pu`
    without upper bound, as there). -/
theorem split_unclamped_surface_v_pieces_coincide (rat : Bool) (pu pv d : ℕ) (Uu Uv : List K) (su sv : ℕ)
    (P : List (List K)) (vb tol : K)
    (hP : NetOk d P) (hlenP : P.length = su * sv)
    (hUm : Monotone (fnOf Uu)) (hUne : Uu ≠ []) (hUr : Uu.headD 0 < Uu.getLastD 0) (hsu : pu + 1 ≤ su)
    (hV : SplitKvWF pv sv Uv) (hlo : fnOf Uv pv < vb) (hhi : vb < fnOf Uv sv)
    (htol : 0 ≤ tol) (hsep : ∀ x ∈ Uv, |vb - x| ≤ tol → x = vb)
    (hmul : ∀ i, 1 ≤ i → i < sv → fnOf Uv i < fnOf Uv (i + pv)) :
    ∃ UA nA PA UB nB PB,
      splitDir (surfShape rat pu pv Uu Uv su sv P) 1 vb tol
        = some (surfShape rat pu pv (knotNormalize Uu) UA su nA PA, surfShape rat pu pv (knotNormalize Uu) UB su nB PB) ∧
      SplitKvWF pv nA UA ∧ SplitKvWF pv nB UB ∧
      fnOf UA 0 = 0 ∧ fnOf UA pv = (fnOf Uv pv - fnOf Uv 0) / (vb - fnOf Uv 0) ∧
      (∀ i, nA ≤ i → fnOf UA i = 1) ∧
      (∀ i, i ≤ pv → fnOf UB i = 0) ∧
      fnOf UB nB = (fnOf Uv sv - vb) / (fnOf Uv (sv + pv) - vb) ∧ fnOf UB (nB + pv) = 1 ∧
      PA.length = su * nA ∧ PB.length = su * nB ∧ NetOk d PA ∧ NetOk d PB ∧
      nA + nB = sv + (pv - findMultiplicity vb Uv tol) + 1 ∧
      (∀ u, fnOf Uu pu ≤ u → ∀ t, 0 ≤ t → t ≤ 1 → ∀ j,
        (surfacePoint pu pv (fnOf (knotNormalize Uu)) (fnOf UA) su nA PA
            ((u - Uu.headD 0) / (Uu.getLastD 0 - Uu.headD 0))
            (fnOf UA pv + t * (fnOf UA nA - fnOf UA pv))).getD j 0
          = (surfacePoint pu pv (fnOf Uu) (fnOf Uv) su sv P u (fnOf Uv pv + t * (vb - fnOf Uv pv))).getD j 0) ∧
      (∀ u, fnOf Uu pu ≤ u → ∀ t, 0 ≤ t → t ≤ 1 → ∀ j,
        (surfacePoint pu pv (fnOf (knotNormalize Uu)) (fnOf UB) su nB PB
            ((u - Uu.headD 0) / (Uu.getLastD 0 - Uu.headD 0))
            (fnOf UB pv + t * (fnOf UB nB - fnOf UB pv))).getD j 0
          = (surfacePoint pu pv (fnOf Uu) (fnOf Uv) su sv P u (vb + t * (fnOf Uv sv - vb))).getD j 0) :=
  split_surface_v_unclamped_main rat pu pv d Uu Uv su sv P vb tol hP hlenP hUm hUne hUr hsu hV hlo hhi
    (multExact_of_sep_kvU pv sv Uv vb tol hV hlo hhi htol hsep hmul)

/-! ### Non-vacuity, unclamped

`SplitUEx.U = [0,1,3,4,6,7,9,10]` (quadratic, five control points `SplitUEx.P`, domain `[3,7]`);
`SplitUEx.V = [-1,0,1,2]` (degree 1, two control points, domain `[0,1]`), `SplitUEx.PS` a 5 × 2 net. -/

/-- splitting the unclamped quadratic at 5 (inside the span `[4,6]`): every hypothesis holds; the left
    piece's domain starts at `(3 - 0)/(5 - 0) = 3/5`, the right piece's ends at `(7 - 5)/(10 - 5) = 2/5` -/
example : ∃ UA PA UB PB,
    splitDir (curveShape false 2 SplitUEx.U SplitUEx.P) 0 5 SplitUEx.tol
      = some (curveShape false 2 UA PA, curveShape false 2 UB PB) ∧
    fnOf UA 2 = 3/5 ∧ fnOf UB PB.length = 2/5 ∧
    (∀ t, 0 ≤ t → t ≤ 1 → ∀ j,
      (curvePoint 2 (fnOf UA) PA (fnOf UA 2 + t * (fnOf UA PA.length - fnOf UA 2))).getD j 0
        = (curvePoint 2 (fnOf SplitUEx.U) SplitUEx.P (3 + t * (5 - 3))).getD j 0) := by
  obtain ⟨UA, PA, UB, PB, h1, _, _, _, h5, _, _, h8, _, _, h11, _⟩ :=
    split_unclamped_curve_pieces_coincide false 2 2 SplitUEx.U SplitUEx.P 5 SplitUEx.tol SplitUEx.wf (by omega)
      (by simp [SplitUEx.U, fnOf, List.getD]; norm_num) (by simp [SplitUEx.U, SplitUEx.P, fnOf, List.getD]; norm_num)
      (by norm_num [SplitUEx.tol]) SplitUEx.sep_five
      (fun i h1 h2 => SplitUEx.mul_U i h1 (by simpa [SplitUEx.P] using h2))
  refine ⟨UA, PA, UB, PB, h1, ?_, ?_, ?_⟩
  · rw [h5]; simp [SplitUEx.U, fnOf, List.getD]
  · rw [h8]; simp [SplitUEx.U, SplitUEx.P, fnOf, List.getD]; norm_num
  · intro t ht0 ht1 j
    have := h11 t ht0 ht1 j
    simpa [SplitUEx.U, fnOf, List.getD] using this

/-- splitting the unclamped quadratic at its interior knot 4 (multiplicity 1) is covered as well -/
example : MultExact 2 (fnOf SplitUEx.U) (findSpanLinear 2 (fnOf SplitUEx.U) SplitUEx.P.length 4)
    (findMultiplicity 4 SplitUEx.U SplitUEx.tol) 4 :=
  find_multiplicity_exact 2 2 SplitUEx.U SplitUEx.P 4 SplitUEx.tol SplitUEx.wf (by omega)
    (by simp [SplitUEx.U, fnOf, List.getD]; norm_num) (by simp [SplitUEx.U, SplitUEx.P, fnOf, List.getD]; norm_num)
    (by norm_num [SplitUEx.tol]) SplitUEx.sep_four
    (fun i h1 h2 => SplitUEx.mul_U i h1 (by simpa [SplitUEx.P] using h2))

/-- both ends of the unclamped domain `[3,7]` are rejected (they are the knots `U_2`, `U_5`, not the first /
    last knot) -/
example : splitDir (curveShape false 2 SplitUEx.U SplitUEx.P) 0 3 SplitUEx.tol = none ∧
    splitDir (curveShape false 2 SplitUEx.U SplitUEx.P) 0 7 SplitUEx.tol = none := by
  have := split_curve_rejects_both_ends false 2 SplitUEx.U SplitUEx.P SplitUEx.tol
    (by simp [SplitUEx.U]) (by simp [SplitUEx.U, SplitUEx.P])
  simpa [SplitUEx.U, SplitUEx.P, fnOf, List.getD] using this

/-- the parameters `2` and `8` lie inside the knot range `[0, 10]` but outside the domain `[3, 7]`: `split_curve` raises
    `ValueError: Input is not a valid knot vector`; the driver's `splitDirD` answers `none`, the plain model would
    return two "pieces" (audit 4, H8); at `5` (inside) `splitDirD` answers what `splitDir` answers -/
example : (splitDirD (curveShape false 2 SplitUEx.U SplitUEx.P) 0 2 SplitUEx.tol).isNone = true ∧
    (splitDirD (curveShape false 2 SplitUEx.U SplitUEx.P) 0 8 SplitUEx.tol).isNone = true ∧
    (splitDir (curveShape false 2 SplitUEx.U SplitUEx.P) 0 2 SplitUEx.tol).isSome = true ∧
    (splitDirD (curveShape false 2 SplitUEx.U SplitUEx.P) 0 5 SplitUEx.tol).isSome = true := by decide +kernel

/-- a 5 × 2 surface of degrees (2, 1), both knot vectors unclamped: splitting in u at 5 and in v at 1/3
    satisfies the hypotheses -/
example : ∃ UA nA PA UB nB PB,
    splitDir (surfShape false 2 1 SplitUEx.U SplitUEx.V 5 2 SplitUEx.PS) 0 5 SplitUEx.tol
      = some (surfShape false 2 1 UA (knotNormalize SplitUEx.V) nA 2 PA,
              surfShape false 2 1 UB (knotNormalize SplitUEx.V) nB 2 PB) ∧
    fnOf UA 2 = 3/5 := by
  obtain ⟨UA, nA, PA, UB, nB, PB, h1, _, _, _, h5, _⟩ :=
    split_unclamped_surface_u_pieces_coincide false 2 1 3 SplitUEx.U SplitUEx.V 5 2 SplitUEx.PS 5 SplitUEx.tol
      SplitUEx.netS (by simp [SplitUEx.PS]) SplitUEx.mono_V (by simp [SplitUEx.V]) (by norm_num [SplitUEx.V]) (by omega)
      SplitUEx.kvU (by simp [SplitUEx.U, fnOf, List.getD]; norm_num) (by simp [SplitUEx.U, fnOf, List.getD]; norm_num)
      (by norm_num [SplitUEx.tol]) SplitUEx.sep_five SplitUEx.mul_U
  refine ⟨UA, nA, PA, UB, nB, PB, h1, ?_⟩
  rw [h5]; simp [SplitUEx.U, fnOf, List.getD]

example : ∃ UA nA PA UB nB PB,
    splitDir (surfShape false 2 1 SplitUEx.U SplitUEx.V 5 2 SplitUEx.PS) 1 (1/3) SplitUEx.tol
      = some (surfShape false 2 1 (knotNormalize SplitUEx.U) UA 5 nA PA,
              surfShape false 2 1 (knotNormalize SplitUEx.U) UB 5 nB PB) ∧
    fnOf UA 1 = 3/4 := by
  obtain ⟨UA, nA, PA, UB, nB, PB, h1, _, _, _, h5, _⟩ :=
    split_unclamped_surface_v_pieces_coincide false 2 1 3 SplitUEx.U SplitUEx.V 5 2 SplitUEx.PS (1/3) SplitUEx.tol
      SplitUEx.netS (by simp [SplitUEx.PS]) SplitUEx.mono_U (by simp [SplitUEx.U]) (by simp [SplitUEx.U]) (by omega)
      SplitUEx.kvV (by simp [SplitUEx.V, fnOf, List.getD]) (by simp [SplitUEx.V, fnOf, List.getD]; norm_num)
      (by norm_num [SplitUEx.tol]) SplitUEx.sep_V SplitUEx.mul_V
  refine ⟨UA, nA, PA, UB, nB, PB, h1, ?_⟩
  rw [h5]; simp [SplitUEx.V, fnOf, List.getD]; norm_num

/-! ## The exceptions of the code, and decomposition of curves with unclamped knot vectors

`decompose_curve` takes the knots `U[p+1 : -(p+1)]` of the current remainder and splits at the first of
them.  For an unclamped input the first piece is a single-span segment over a knot vector that is
unclamped at its left end (clamped at its right end), the last piece one that is unclamped at its right
end; the pieces in between are Bézier segments.  `SegPiece p d F a b (V, Q)`: `(V, Q)` is a well-formed curve
with `p+1` control points that, at the affine image of `t ∈ [0,1]` in its own domain `[V_p, V_{p+1}]`, is
`F` at `a + t (b - a)`. -/

/-- **The model with exceptions agrees with the plain model wherever it answers** (splits): if `splitDirE`
    (what the driver runs; `none` = the implementation raises) returns a pair, `splitDir` returns the
    same pair, so every theorem about `splitDir` is a theorem about the driver's answer. -/
theorem split_with_exceptions_agrees (S : Shape K) (dir : ℕ) (u tol : K) (r : Shape K × Shape K)
    (h : splitDirE S dir u tol = some r) : splitDir S dir u tol = some r :=
  splitDirE_some S dir u tol r h

/-- **The split the driver runs** (`splitDirD`: `splitDirE` plus the exception for a parameter outside the domain)
    **agrees with the plain model wherever it answers**: if it returns a pair, the parameter lies STRICTLY inside the
    domain of the split direction (`U_p < u < U_n` – the hypotheses `hlo`, `hhi` of the `…_pieces_coincide` theorems),
    `find_multiplicity` counts it at most `p` times, and `splitDirE` and `splitDir` return the same pair. -/
theorem split_with_all_exceptions_agrees (S : Shape K) (dir : ℕ) (u tol : K) (r : Shape K × Shape K)
    (h : splitDirD S dir u tol = some r) :
    splitDirE S dir u tol = some r ∧ splitDir S dir u tol = some r ∧
    (S.kv dir).getD (S.deg dir) 0 < u ∧ u < (S.kv dir).getD (S.size dir) 0 ∧
    findMultiplicity u (S.kv dir) tol ≤ S.deg dir :=
  splitDirD_some S dir u tol r h

/-- **`split_*` at a parameter outside the domain raises** (below `U_p` or above `U_n`, the knots the model reads with
    `getD`: for an unclamped knot vector these include the parameters between the outer knots and the domain, where the
    plain model `splitDir` returns two ill-formed "pieces"); on the closed domain `splitDirD` is `splitDirE`. -/
theorem split_rejects_outside_domain (S : Shape K) (dir : ℕ) (u tol : K) :
    (u < (S.kv dir).getD (S.deg dir) 0 ∨ (S.kv dir).getD (S.size dir) 0 < u → splitDirD S dir u tol = none) ∧
    ((S.kv dir).getD (S.deg dir) 0 ≤ u → u ≤ (S.kv dir).getD (S.size dir) 0 →
      splitDirD S dir u tol = splitDirE S dir u tol) :=
  ⟨splitDirD_none_of_outside S dir u tol, splitDirD_of_inside S dir u tol⟩

/-- `split_*` at a parameter that `find_multiplicity` counts more than `p` times raises (`ValueError`: the
    pieces' knot vectors do not fit their control points); at most `p` copies: `splitDirE` is `splitDir`. -/
theorem split_rejects_overfull_multiplicity (S : Shape K) (dir : ℕ) (u tol : K) :
    (S.deg dir < findMultiplicity u (S.kv dir) tol → splitDirE S dir u tol = none) ∧
    (findMultiplicity u (S.kv dir) tol ≤ S.deg dir → splitDirE S dir u tol = splitDir S dir u tol) :=
  ⟨splitDirE_none_of_gt S dir u tol, splitDirE_of_le S dir u tol⟩

/-- **The model with exceptions agrees with the plain model wherever it answers** (decomposition, one
    direction and `uv`). -/
theorem decompose_with_exceptions_agrees (tol : K) (S : Shape K) (l : List (Shape K)) :
    (∀ dir fuel, decomposeDirE dir tol fuel S = some l → decomposeDir dir tol fuel S = l) ∧
    (decomposeUVE tol S = some l → decomposeUV tol S = l) :=
  ⟨fun dir fuel h => decomposeDirE_some dir tol fuel S l h, decomposeUVE_some tol S l⟩

/-- **Rejection on a domain edge**: when the first knot of `U[p+1 : -(p+1)]` equals the domain start `U_p`
    (an unclamped knot vector with `U_{p+1} = U_p`, or a clamped one whose first knot is repeated `p+2`
    times) or the domain end `U_n`, `decompose_curve` / `decompose_surface` raises ("Cannot split from the
    domain edge"); the model with exceptions answers `none` (any shape, any direction). -/
theorem decompose_rejects_domain_edge (dir : ℕ) (tol : K) (fuel : ℕ) (S : Shape K)
    (hlen : (S.kv dir).length = S.size dir + S.deg dir + 1) (hn : S.deg dir + 1 < S.size dir)
    (h : fnOf (S.kv dir) (S.deg dir + 1) = fnOf (S.kv dir) (S.deg dir)
       ∨ fnOf (S.kv dir) (S.deg dir + 1) = fnOf (S.kv dir) (S.size dir)) :
    decomposeDirE dir tol (fuel + 1) S = none :=
  decomposeDirE_rejects dir tol fuel S hlen hn h

/-- **Rejection of an over-full knot**: when the first knot of `U[p+1 : -(p+1)]` is counted more than `p`
    times, the decomposition raises (`ValueError`); model: `none`. -/
theorem decompose_rejects_overfull_multiplicity (dir : ℕ) (tol : K) (fuel : ℕ) (S : Shape K)
    (hlen : (S.kv dir).length = S.size dir + S.deg dir + 1) (hn : S.deg dir + 1 < S.size dir)
    (h : S.deg dir < findMultiplicity (fnOf (S.kv dir) (S.deg dir + 1)) (S.kv dir) tol) :
    decomposeDirE dir tol (fuel + 1) S = none :=
  decomposeDirE_rejects_mult dir tol fuel S hlen hn h

/-- Under the hypotheses of `decompose_curve_pieces` (clamped, admissible) the model with exceptions does
    not raise and returns exactly the list `decomposeDir` returns. -/
theorem decompose_curve_not_rejected (rat : Bool) (p d : ℕ) (tol : K) (fuel : ℕ) (U : List K) (P : List (List K))
    (h : DecompWF p d U P tol) (hfuel : (spanStarts p (fnOf U) P.length).length ≤ fuel + 1) :
    decomposeDirE 0 tol fuel (curveShape rat p U P) = some (decomposeDir 0 tol fuel (curveShape rat p U P)) :=
  Geomdl.decompose_curve_not_rejected rat p d tol fuel U P h hfuel

/-- the admissibility of the unclamped theorems is weaker than that of the clamped ones -/
theorem decompose_admissible_of_clamped (p d : ℕ) (U : List K) (P : List (List K)) (tol : K)
    (h : DecompWF p d U P tol) : DecompWFU p d U P tol := h.toU

/-- **Decomposition of a curve whose knot vector need not be clamped, end to end.**  For an admissible
    curve (`DecompWFU`: sorted knots, `|U| = n + p + 1`, `n ≥ p + 1`, `p ≥ 1`, non-empty last span
    `U_{n-1} < U_n`, the non-raising guard `U_p < U_{p+1}`, inner knots `U_{p+1} … U_{n-1}` repeated at most
    `p` times, knot range `U_{n+p} - U_0 ≤ 1`, any two knots equal or further than `tol` apart) and enough
    fuel, `decompose_curve` does not raise (`decomposeDirE … = some …`, and `decomposeDir` returns the same
    list) and returns EXACTLY ONE piece per non-empty knot interval of the domain `[U_p, U_n]`, IN ORDER;
    every piece is a well-formed single-span segment with `p+1` control points that coincides with the
    original on its interval `[breaks i, breaks (i+1)]` under the affine map of ITS OWN domain
    `[V_p, V_{p+1}]` (`SegPiece`), every parameter, both ends, every coordinate; piece `i` is a Bézier segment
    (`BezPiece`: clamped at both ends; knot vector `0^{p+1} 1^{p+1}` once a split happened or the input's
    range is `[0,1]`) whenever (`i ≥ 1` or the input is clamped at its start) and (`i` is not the last
    piece or the input is clamped at its end) – in particular every INNER piece; and when at least one
    split happens the first piece's knot vector starts at `0`, its domain starts at
    `(U_p - U_0)/(U_{p+1} - U_0)`, it ends with `p+1` ones, while the last piece starts with `p+1` zeros, its
    domain ends at `(U_n - b)/(U_{n+p} - b)` (`b` the last interior break point) and its last knot is `1`; every piece's knot range is `[0,1]` (first knot `0`, last knot `1`) once a split
    happened or the input's range is `[0,1]`. -/
theorem decompose_unclamped_curve_pieces (rat : Bool) (p d : ℕ) (tol : K) (fuel : ℕ) (U : List K)
    (P : List (List K)) (h : DecompWFU p d U P tol)
    (hfuel : (spanStarts p (fnOf U) P.length).length ≤ fuel + 1) :
    ∃ pieces : List (List K × List (List K)),
      decomposeDirE 0 tol fuel (curveShape rat p U P) = some (pieces.map (fun q => curveShape rat p q.1 q.2)) ∧
      decomposeDir 0 tol fuel (curveShape rat p U P) = pieces.map (fun q => curveShape rat p q.1 q.2) ∧
      pieces.length = (spanStarts p (fnOf U) P.length).length ∧
      (∀ i, i < pieces.length →
        SegPiece p d (curveFn p U P) ((breaks p (fnOf U) P.length).getD i 0)
          ((breaks p (fnOf U) P.length).getD (i + 1) 0) (pieces.getD i ([], []))) ∧
      (∀ i, i < pieces.length → (1 ≤ i ∨ fnOf U 0 = fnOf U p) →
        (i + 1 < pieces.length ∨ fnOf U (P.length + p) = fnOf U P.length) →
        BezPiece p d (curveFn p U P) ((breaks p (fnOf U) P.length).getD i 0)
          ((breaks p (fnOf U) P.length).getD (i + 1) 0) (pieces.getD i ([], [])) ∧
        ((p + 1 < P.length ∨ (fnOf U 0 = 0 ∧ fnOf U (P.length + p) = 1)) → (pieces.getD i ([], [])).1 = bezKv p)) ∧
      (p + 1 < P.length →
        fnOf (pieces.getD 0 ([], [])).1 0 = 0 ∧
        fnOf (pieces.getD 0 ([], [])).1 p = (fnOf U p - fnOf U 0) / (fnOf U (p + 1) - fnOf U 0) ∧
        fnOf (pieces.getD 0 ([], [])).1 (p + 1) = 1 ∧ fnOf (pieces.getD 0 ([], [])).1 (p + 1 + p) = 1 ∧
        fnOf (pieces.getD (pieces.length - 1) ([], [])).1 0 = 0 ∧
        fnOf (pieces.getD (pieces.length - 1) ([], [])).1 p = 0 ∧
        fnOf (pieces.getD (pieces.length - 1) ([], [])).1 (p + 1)
          = (fnOf U P.length - (breaks p (fnOf U) P.length).getD (pieces.length - 1) 0)
            / (fnOf U (P.length + p) - (breaks p (fnOf U) P.length).getD (pieces.length - 1) 0) ∧
        fnOf (pieces.getD (pieces.length - 1) ([], [])).1 (p + 1 + p) = 1) ∧
      ((p + 1 < P.length ∨ (fnOf U 0 = 0 ∧ fnOf U (P.length + p) = 1)) → ∀ i, i < pieces.length →
        fnOf (pieces.getD i ([], [])).1 0 = 0 ∧ fnOf (pieces.getD i ([], [])).1 (p + 1 + p) = 1) :=
  decompose_curve_unclamped_final rat p d tol fuel U P h hfuel

/-- **Number of pieces, unclamped knot vectors allowed** = number of non-empty knot intervals of the domain;
    the length of the knot vector (what the driver passes) is always enough fuel; no exception. -/
theorem decompose_unclamped_curve_count (rat : Bool) (p d : ℕ) (tol : K) (fuel : ℕ) (U : List K)
    (P : List (List K)) (h : DecompWFU p d U P tol) (hfuel : U.length ≤ fuel) :
    (decomposeDirE 0 tol fuel (curveShape rat p U P)).map List.length
        = some (spanStarts p (fnOf U) P.length).length ∧
    (decomposeDir 0 tol fuel (curveShape rat p U P)).length = (spanStarts p (fnOf U) P.length).length :=
  decompose_curve_unclamped_count rat p d tol fuel U P h hfuel

/-- one decomposition step keeps the curve admissible (unclamped version): the remainder after cutting
    off the first segment – clamped at its start, its end as the input's – satisfies `DecompWFU` again -/
theorem decompose_unclamped_remainder_admissible (p d : ℕ) (U : List K) (P : List (List K)) (tol : K)
    (h : DecompWFU p d U P tol) (hn : p + 1 < P.length) :
    DecompWFU p d
      (knotNormalize (rightKv p (splitRefined p U P (fnOf U (p + 1)) tol).1 (fnOf U (p + 1))
        (findSpanLinear p (fnOf U) P.length (fnOf U (p + 1)) + (p - findMultiplicity (fnOf U (p + 1)) U tol))))
      ((splitRefined p U P (fnOf U (p + 1)) tol).2.drop
        (findSpanLinear p (fnOf U) P.length (fnOf U (p + 1)) + (p - findMultiplicity (fnOf U (p + 1)) U tol) - p))
      tol :=
  remainder_wfU p d U P tol h hn

/-- **Decomposition of a surface in u, u knot vector clamped or not, end to end** (model
    `decomposeDirE 0` / `decomposeDir 0` on a surface = `decompose_surface(…, decompose_dir='u')`).  Hypotheses:
    net of the right size and dimension; the u data admissible (`DecompWFU` of column 0); the v knot vector
    sorted and NORMALISED (`knotNormalize Uv = Uv`, so that the strips keep it; clamped or not).  Conclusion:
    no exception; exactly one strip per non-empty u interval, in order; strip `i` has `pu+1` control points in
    u over a well-formed u knot vector, the same v data, and coincides with the original on
    `[breaks i, breaks (i+1)] × (v domain)` under the affine map of its own u domain `[V_pu, V_{pu+1}]` and the
    identity in v, every parameter, both ends, every coordinate; strip `i` is a Bézier strip in u (u knot
    vector clamped at both ends; `0^{pu+1} 1^{pu+1}` once a split happened or the input's u range is `[0,1]`)
    whenever (`i ≥ 1` or the input is clamped at its u start) and (`i` is not the last strip or the input is
    clamped at its u end); every strip's u knot range is `[0,1]` once a split happened or the input's is. -/
theorem decompose_unclamped_surface_u_pieces (rat : Bool) (pu pv d : ℕ) (tol : K) (fuel : ℕ) (Uu Uv : List K)
    (su sv : ℕ) (P : List (List K)) (hP : NetOk d P) (hlenP : P.length = su * sv)
    (hVm : Monotone (fnOf Uv)) (hsv : pv + 1 ≤ sv) (hVn : knotNormalize Uv = Uv)
    (h0 : DecompWFU pu d Uu (colOf su sv P 0) tol)
    (hfuel : (spanStarts pu (fnOf Uu) su).length ≤ fuel + 1) :
    ∃ pieces : List (List K × ℕ × List (List K)),
      decomposeDirE 0 tol fuel (surfShape rat pu pv Uu Uv su sv P)
        = some (pieces.map (fun q => surfShape rat pu pv q.1 Uv q.2.1 sv q.2.2)) ∧
      decomposeDir 0 tol fuel (surfShape rat pu pv Uu Uv su sv P)
        = pieces.map (fun q => surfShape rat pu pv q.1 Uv q.2.1 sv q.2.2) ∧
      pieces.length = (spanStarts pu (fnOf Uu) su).length ∧
      (∀ i, i < pieces.length →
        (pieces.getD i ([], 0, [])).2.1 = pu + 1 ∧
        SplitKvWF pu (pu + 1) (pieces.getD i ([], 0, [])).1 ∧
        (pieces.getD i ([], 0, [])).2.2.length = (pu + 1) * sv ∧ NetOk d (pieces.getD i ([], 0, [])).2.2 ∧
        ∀ v, fnOf Uv pv ≤ v → ∀ t, 0 ≤ t → t ≤ 1 → ∀ j,
          (surfacePoint pu pv (fnOf (pieces.getD i ([], 0, [])).1) (fnOf Uv) (pu + 1) sv
              (pieces.getD i ([], 0, [])).2.2
              (fnOf (pieces.getD i ([], 0, [])).1 pu
                + t * (fnOf (pieces.getD i ([], 0, [])).1 (pu + 1) - fnOf (pieces.getD i ([], 0, [])).1 pu)) v).getD j 0
            = (surfacePoint pu pv (fnOf Uu) (fnOf Uv) su sv P
                ((breaks pu (fnOf Uu) su).getD i 0
                  + t * ((breaks pu (fnOf Uu) su).getD (i + 1) 0 - (breaks pu (fnOf Uu) su).getD i 0)) v).getD j 0) ∧
      (∀ i, i < pieces.length → (1 ≤ i ∨ fnOf Uu 0 = fnOf Uu pu) →
        (i + 1 < pieces.length ∨ fnOf Uu (su + pu) = fnOf Uu su) →
        ClampedKv pu (pu + 1) (pieces.getD i ([], 0, [])).1 ∧
        ((pu + 1 < su ∨ (fnOf Uu 0 = 0 ∧ fnOf Uu (su + pu) = 1)) → (pieces.getD i ([], 0, [])).1 = bezKv pu)) ∧
      ((pu + 1 < su ∨ (fnOf Uu 0 = 0 ∧ fnOf Uu (su + pu) = 1)) → ∀ i, i < pieces.length →
        fnOf (pieces.getD i ([], 0, [])).1 0 = 0 ∧ fnOf (pieces.getD i ([], 0, [])).1 (pu + 1 + pu) = 1) :=
  decompose_surface_u_allU rat pu pv d tol fuel Uu Uv su sv P hP hlenP hVm hsv hVn h0 hfuel

/-- **Decomposition of a surface in v, v knot vector clamped or not, end to end** (model `decomposeDirE 1` /
    `decomposeDir 1`): the mirror image of `decompose_unclamped_surface_u_pieces` (rows instead of columns;
    the u knot vector sorted and normalised, clamped or not). -/
theorem decompose_unclamped_surface_v_pieces (rat : Bool) (pu pv d : ℕ) (tol : K) (fuel : ℕ) (Uu Uv : List K)
    (su sv : ℕ) (P : List (List K)) (hP : NetOk d P) (hlenP : P.length = su * sv)
    (hUm : Monotone (fnOf Uu)) (hsu : pu + 1 ≤ su) (hUn : knotNormalize Uu = Uu)
    (h0 : DecompWFU pv d Uv (rowOf sv P 0) tol)
    (hfuel : (spanStarts pv (fnOf Uv) sv).length ≤ fuel + 1) :
    ∃ pieces : List (List K × ℕ × List (List K)),
      decomposeDirE 1 tol fuel (surfShape rat pu pv Uu Uv su sv P)
        = some (pieces.map (fun q => surfShape rat pu pv Uu q.1 su q.2.1 q.2.2)) ∧
      decomposeDir 1 tol fuel (surfShape rat pu pv Uu Uv su sv P)
        = pieces.map (fun q => surfShape rat pu pv Uu q.1 su q.2.1 q.2.2) ∧
      pieces.length = (spanStarts pv (fnOf Uv) sv).length ∧
      (∀ i, i < pieces.length →
        (pieces.getD i ([], 0, [])).2.1 = pv + 1 ∧
        SplitKvWF pv (pv + 1) (pieces.getD i ([], 0, [])).1 ∧
        (pieces.getD i ([], 0, [])).2.2.length = su * (pv + 1) ∧ NetOk d (pieces.getD i ([], 0, [])).2.2 ∧
        ∀ u, fnOf Uu pu ≤ u → ∀ t, 0 ≤ t → t ≤ 1 → ∀ j,
          (surfacePoint pu pv (fnOf Uu) (fnOf (pieces.getD i ([], 0, [])).1) su (pv + 1)
              (pieces.getD i ([], 0, [])).2.2 u
              (fnOf (pieces.getD i ([], 0, [])).1 pv
                + t * (fnOf (pieces.getD i ([], 0, [])).1 (pv + 1) - fnOf (pieces.getD i ([], 0, [])).1 pv))).getD j 0
            = (surfacePoint pu pv (fnOf Uu) (fnOf Uv) su sv P u
                ((breaks pv (fnOf Uv) sv).getD i 0
                  + t * ((breaks pv (fnOf Uv) sv).getD (i + 1) 0 - (breaks pv (fnOf Uv) sv).getD i 0))).getD j 0) ∧
      (∀ i, i < pieces.length → (1 ≤ i ∨ fnOf Uv 0 = fnOf Uv pv) →
        (i + 1 < pieces.length ∨ fnOf Uv (sv + pv) = fnOf Uv sv) →
        ClampedKv pv (pv + 1) (pieces.getD i ([], 0, [])).1 ∧
        ((pv + 1 < sv ∨ (fnOf Uv 0 = 0 ∧ fnOf Uv (sv + pv) = 1)) → (pieces.getD i ([], 0, [])).1 = bezKv pv)) ∧
      ((pv + 1 < sv ∨ (fnOf Uv 0 = 0 ∧ fnOf Uv (sv + pv) = 1)) → ∀ i, i < pieces.length →
        fnOf (pieces.getD i ([], 0, [])).1 0 = 0 ∧ fnOf (pieces.getD i ([], 0, [])).1 (pv + 1 + pv) = 1) :=
  decompose_surface_v_allU rat pu pv d tol fuel Uu Uv su sv P hP hlenP hUm hsu hUn h0 hfuel

/-- **Decomposition of a surface in both directions, knot vectors clamped or not, end to end** (model
    `decomposeUVE` / `decomposeUV` = `decompose_surface(…, decompose_dir='uv')`: u first, then every strip in v).
    Both knot vectors normalised and admissible (`DecompWFU` of column 0 / row 0).  No exception; exactly one
    patch per PAIR of non-empty knot intervals, in u-major order (patch `(i, l)` at position `l + cV * i`); every
    patch has `(pu+1)(pv+1)` control points over well-formed single-span knot vectors `VU`, `VV`, and for all
    `s, t ∈ [0,1]` its point at the affine images of `(s, t)` in ITS OWN domains `[VU_pu, VU_{pu+1}] × [VV_pv, VV_{pv+1}]`
    is the original surface's point at
    `(breaksU i + s (breaksU (i+1) - breaksU i), breaksV l + t (breaksV (l+1) - breaksV l))`; in u (in v) the patch's
    knot vector is `0^{p+1} 1^{p+1}` – a Bézier patch in that direction – whenever (`i ≥ 1` (`l ≥ 1`) or the input
    is clamped at its start) and (it is not in the last strip or the input is clamped at its end). -/
theorem decompose_unclamped_surface_uv_pieces (rat : Bool) (pu pv d : ℕ) (tol : K) (Uu Uv : List K) (su sv : ℕ)
    (P : List (List K)) (hP : NetOk d P) (hlenP : P.length = su * sv)
    (hUn : knotNormalize Uu = Uu) (hVn : knotNormalize Uv = Uv)
    (hU0 : DecompWFU pu d Uu (colOf su sv P 0) tol) (hV0 : DecompWFU pv d Uv (rowOf sv P 0) tol) :
    ∃ L : List (Shape K),
      decomposeUVE tol (surfShape rat pu pv Uu Uv su sv P) = some L ∧
      decomposeUV tol (surfShape rat pu pv Uu Uv su sv P) = L ∧
      L.length = (spanStarts pu (fnOf Uu) su).length * (spanStarts pv (fnOf Uv) sv).length ∧
      ∀ i, i < (spanStarts pu (fnOf Uu) su).length → ∀ l, l < (spanStarts pv (fnOf Uv) sv).length →
        ∃ (VU VV : List K) (Pil : List (List K)),
          L.getD (l + (spanStarts pv (fnOf Uv) sv).length * i) (surfShape rat pu pv [] [] 0 0 [])
            = surfShape rat pu pv VU VV (pu + 1) (pv + 1) Pil ∧
          SplitKvWF pu (pu + 1) VU ∧ SplitKvWF pv (pv + 1) VV ∧
          Pil.length = (pu + 1) * (pv + 1) ∧ NetOk d Pil ∧
          (∀ s, 0 ≤ s → s ≤ 1 → ∀ t, 0 ≤ t → t ≤ 1 → ∀ j,
            (surfacePoint pu pv (fnOf VU) (fnOf VV) (pu + 1) (pv + 1) Pil
                (fnOf VU pu + s * (fnOf VU (pu + 1) - fnOf VU pu))
                (fnOf VV pv + t * (fnOf VV (pv + 1) - fnOf VV pv))).getD j 0
              = (surfacePoint pu pv (fnOf Uu) (fnOf Uv) su sv P
                  ((breaks pu (fnOf Uu) su).getD i 0
                    + s * ((breaks pu (fnOf Uu) su).getD (i + 1) 0 - (breaks pu (fnOf Uu) su).getD i 0))
                  ((breaks pv (fnOf Uv) sv).getD l 0
                    + t * ((breaks pv (fnOf Uv) sv).getD (l + 1) 0 - (breaks pv (fnOf Uv) sv).getD l 0))).getD j 0) ∧
          ((1 ≤ i ∨ fnOf Uu 0 = fnOf Uu pu) →
            (i + 1 < (spanStarts pu (fnOf Uu) su).length ∨ fnOf Uu (su + pu) = fnOf Uu su) → VU = bezKv pu) ∧
          ((1 ≤ l ∨ fnOf Uv 0 = fnOf Uv pv) →
            (l + 1 < (spanStarts pv (fnOf Uv) sv).length ∨ fnOf Uv (sv + pv) = fnOf Uv sv) → VV = bezKv pv) :=
  decompose_surface_uv_allU rat pu pv d tol Uu Uv su sv P hP hlenP hUn hVn hU0 hV0

/-! ### Non-vacuity

`DecompUEx.U = [0, 1/10, 3/10, 2/5, 3/5, 7/10, 9/10, 1]` (quadratic, five control points, domain `[3/10, 7/10]`,
inner knots `2/5`, `3/5`); `DecompUEx.UR = [0,1,1,2,3,4]` (degree 1, `U_2 = U_1`: the raising pattern). -/

/-- the unclamped quadratic is admissible; it has three non-empty intervals, the model with exceptions
    answers three pieces -/
example : DecompWFU 2 2 DecompUEx.U DecompUEx.P DecompUEx.tol := DecompUEx.decompWFU

example : (decomposeDirE 0 DecompUEx.tol 8 (curveShape false 2 DecompUEx.U DecompUEx.P)).map List.length
    = some (spanStarts 2 (fnOf DecompUEx.U) DecompUEx.P.length).length :=
  (decompose_unclamped_curve_count false 2 2 DecompUEx.tol 8 DecompUEx.U DecompUEx.P DecompUEx.decompWFU
    (by simp [DecompUEx.U])).1

example : (spanStarts 2 (fnOf DecompUEx.U) DecompUEx.P.length).length = 3 := by rw [DecompUEx.starts]; rfl

/-- the middle piece (index 1 of 3) is a Bézier segment with the knot vector `0,0,0,1,1,1` -/
example : ∃ pieces : List (List ℚ × List (List ℚ)),
    decomposeDirE 0 DecompUEx.tol 8 (curveShape false 2 DecompUEx.U DecompUEx.P)
      = some (pieces.map (fun q => curveShape false 2 q.1 q.2)) ∧
    pieces.length = 3 ∧ (pieces.getD 1 ([], [])).1 = bezKv 2 := by
  obtain ⟨pieces, h1, _, h3, _, h5, _⟩ :=
    decompose_unclamped_curve_pieces false 2 2 DecompUEx.tol 8 DecompUEx.U DecompUEx.P DecompUEx.decompWFU
      (by have := spanStarts_length_le 2 (fnOf DecompUEx.U) DecompUEx.P.length
          simp [DecompUEx.P, SplitUEx.P] at this ⊢; omega)
  have h3' : pieces.length = 3 := by rw [h3, DecompUEx.starts]; rfl
  refine ⟨pieces, h1, h3', ?_⟩
  exact (h5 1 (by omega) (Or.inl (le_refl _)) (Or.inl (by omega))).2
    (Or.inl (by simp [DecompUEx.P, SplitUEx.P]))

/-- degree 1, `U = [0,1,1,2,3,4]`: `U_2 = U_1`, the implementation raises, the model with exceptions answers
    `none` (while the plain model returned the input unsplit) -/
example : decomposeDirE 0 DecompUEx.tol 6 (curveShape false 1 DecompUEx.UR DecompUEx.PR) = none :=
  decompose_rejects_domain_edge 0 DecompUEx.tol 5 (curveShape false 1 DecompUEx.UR DecompUEx.PR)
    (by simp [curveShape, Shape.kv, Shape.size, Shape.deg, DecompUEx.UR, DecompUEx.PR])
    (by simp [curveShape, Shape.size, Shape.deg, DecompUEx.PR])
    (Or.inl (by simp [curveShape, Shape.kv, Shape.deg, DecompUEx.UR, fnOf, List.getD]))

/-- a 5 × 3 surface of degrees (2, 1), BOTH knot vectors unclamped and normalised
    (`DecompUEx.U`, `DecompUEx.VN = [0, 1/4, 1/2, 3/4, 1]`): the hypotheses of the two surface theorems hold; three
    strips in u, two in v -/
example : ∃ pieces : List (List ℚ × ℕ × List (List ℚ)),
    decomposeDirE 0 DecompUEx.tol 8 (surfShape false 2 1 DecompUEx.U DecompUEx.VN 5 3 DecompUEx.PSN)
      = some (pieces.map (fun q => surfShape false 2 1 q.1 DecompUEx.VN q.2.1 3 q.2.2)) ∧
    pieces.length = (spanStarts 2 (fnOf DecompUEx.U) 5).length := by
  obtain ⟨pieces, h1, _, h3, _⟩ := decompose_unclamped_surface_u_pieces false 2 1 3 DecompUEx.tol 8 DecompUEx.U
    DecompUEx.VN 5 3 DecompUEx.PSN DecompUEx.netSN (by simp [DecompUEx.PSN]) DecompUEx.mono_VN (by omega)
    DecompUEx.norm_VN DecompUEx.decompWFU_col
    (by have := spanStarts_length_le 2 (fnOf DecompUEx.U) 5; omega)
  exact ⟨pieces, h1, h3⟩

example : ∃ pieces : List (List ℚ × ℕ × List (List ℚ)),
    decomposeDirE 1 DecompUEx.tol 5 (surfShape false 2 1 DecompUEx.U DecompUEx.VN 5 3 DecompUEx.PSN)
      = some (pieces.map (fun q => surfShape false 2 1 DecompUEx.U q.1 5 q.2.1 q.2.2)) ∧
    pieces.length = (spanStarts 1 (fnOf DecompUEx.VN) 3).length := by
  obtain ⟨pieces, h1, _, h3, _⟩ := decompose_unclamped_surface_v_pieces false 2 1 3 DecompUEx.tol 5 DecompUEx.U
    DecompUEx.VN 5 3 DecompUEx.PSN DecompUEx.netSN (by simp [DecompUEx.PSN]) DecompUEx.mono_U (by omega)
    DecompUEx.norm_U DecompUEx.decompWFU_row
    (by have := spanStarts_length_le 1 (fnOf DecompUEx.VN) 3; omega)
  exact ⟨pieces, h1, h3⟩

/-- `uv` on the same surface: (number of u intervals) × (number of v intervals) patches, no exception -/
example : ∃ L : List (Shape ℚ),
    decomposeUVE DecompUEx.tol (surfShape false 2 1 DecompUEx.U DecompUEx.VN 5 3 DecompUEx.PSN) = some L ∧
    L.length = (spanStarts 2 (fnOf DecompUEx.U) 5).length * (spanStarts 1 (fnOf DecompUEx.VN) 3).length := by
  obtain ⟨L, h1, _, h3, _⟩ := decompose_unclamped_surface_uv_pieces false 2 1 3 DecompUEx.tol DecompUEx.U DecompUEx.VN
    5 3 DecompUEx.PSN DecompUEx.netSN (by simp [DecompUEx.PSN]) DecompUEx.norm_U DecompUEx.norm_VN
    DecompUEx.decompWFU_col DecompUEx.decompWFU_row
  exact ⟨L, h1, h3⟩

end C07
