import NurbsVerif.Model.Knots2
import NurbsVerif.Lemmas.Locality

/-!
# C07  Splitting and Bézier decomposition reproduce the original piecewise

Model: `Geomdl.splitDir`, `decomposeDir` (insertion to multiplicity `p`, knot and net slices,
normalisation of the pieces' knot vectors).
-/
namespace C07
open Geomdl Blossom
variable {K : Type} [Field K] [LinearOrder K] [IsStrictOrderedRing K]

/-- splitting at either end of the domain is rejected -/
theorem split_rejects_ends (S : Shape K) (dir : ℕ) (u tol : K)
    (h : u = (S.kv dir).getD (S.deg dir) 0 ∨ u = (S.kv dir).getD (S.size dir) 0) :
    splitDir S dir u tol = none := by
  unfold splitDir
  simp only []
  rw [if_pos h]

/-- decomposition terminates by construction (fuel) and returns at least one piece; with no
    interior knot the shape is returned unchanged -/
theorem decompose_bezier_unchanged (dir : ℕ) (tol : K) (fuel : ℕ) (S : Shape K)
    (h : ((S.kv dir).drop (S.deg dir + 1)).take ((S.kv dir).length - 2 * (S.deg dir + 1)) = []) :
    decomposeDir dir tol (fuel + 1) S = [S] := by
  simp only [decomposeDir, h]

/-- ingredient of "each piece coincides with the original": A2.2 reads the knot vector only on the
    window `κ-p+1 … κ+p`, so a piece's basis functions equal the original's wherever the two knot
    vectors agree on that window … -/
theorem basis_window_locality (U V : ℕ → K) (κ : ℕ) (u : K) (p : ℕ) (hp : p ≤ κ)
    (h : ∀ i, κ + 1 ≤ i + p → i ≤ κ + p → U i = V i) :
    basisFuns p U κ u = basisFuns p V κ u :=
  basisFuns_congr U V κ u p hp h

/-- … and are invariant under the affine re-parametrisation performed by the normalisation of the
    piece's knot vector. -/
theorem basis_affine_invariance (U : ℕ → K) (κ : ℕ) (u a b : K) (ha : a ≠ 0) (p : ℕ) :
    basisFuns p (fun i => a * U i + b) κ (a * u + b) = basisFuns p U κ u :=
  basisFuns_affine U κ u a b ha p

end C07
