import NurbsVerif.Model.Knots2
import NurbsVerif.Lemmas.Locality
import NurbsVerif.Lemmas.Pieces

/-!
# C07  Splitting and Bézier decomposition reproduce the original piecewise

Model: `Geomdl.splitDir`, `decomposeDir` (insertion to multiplicity `p`, knot and net slices,
normalisation of the pieces' knot vectors).
-/
namespace C07
open Geomdl Blossom
variable {K : Type} [Field K] [LinearOrder K] [IsStrictOrderedRing K]

/-- splitting at either end of the domain is rejected -/
theorem split_rejects_ends (S : Shape K) (dir : ℕ) (u tol : K)
    (h : u = (S.kv dir).getD (S.deg dir) 0 ∨ u = (S.kv dir).getD (S.size dir) 0) :
    splitDir S dir u tol = none := by
  unfold splitDir
  simp only []
  rw [if_pos h]

/-- decomposition terminates by construction (fuel) and returns at least one piece; with no
    interior knot the shape is returned unchanged -/
theorem decompose_bezier_unchanged (dir : ℕ) (tol : K) (fuel : ℕ) (S : Shape K)
    (h : ((S.kv dir).drop (S.deg dir + 1)).take ((S.kv dir).length - 2 * (S.deg dir + 1)) = []) :
    decomposeDir dir tol (fuel + 1) S = [S] := by
  simp only [decomposeDir, h]

/-- **Left piece** (as built by `split_curve`, before its knot vector is normalised): with `m` the
    index of the last copy of the split parameter in the refined knot vector `U'` (C04 says the refined
    curve IS the original curve), `U'[0 : m+1] ++ [ub]` with the first `m-p+1` control points evaluates
    like the refined curve on every span left of the split parameter. -/
theorem left_piece_coincides (p : ℕ) (Ul : List K) (Q : List (List K)) (ub u : K) (m κ : ℕ)
    (hm : m < Ul.length) (hpκ : p ≤ κ) (hκm : κ + p ≤ m) :
    curvePointAt p (fnOf (Ul.take (m + 1) ++ [ub])) (Q.take (m - p + 1)) κ u = curvePointAt p (fnOf Ul) Q κ u :=
  Geomdl.left_piece_coincides p Ul Q ub u m κ hm hpκ hκm

/-- **Right piece**: `[ub]*(p+1) ++ U'[m+1:]` with the control points from index `m-p` on evaluates, on
    span `κ₂` of the piece, like the refined curve on span `κ₂ + (m-p)`. -/
theorem right_piece_coincides (p d : ℕ) (Ul : List K) (Q : List (List K)) (ub u : K) (m κ₂ : ℕ)
    (hpm : p ≤ m) (hm : m + 1 < Ul.length) (hpκ : p ≤ κ₂) (hQ : NetOk d Q) (hmQ : m - p < Q.length)
    (hmult : ∀ x, m - p < x → x ≤ m → fnOf Ul x = ub) :
    curvePointAt p (fnOf (List.replicate (p + 1) ub ++ Ul.drop (m + 1))) (Q.drop (m - p)) κ₂ u
      = curvePointAt p (fnOf Ul) Q (κ₂ + (m - p)) u :=
  Geomdl.right_piece_coincides p d Ul Q ub u m κ₂ hpm hm hpκ hQ hmQ hmult

/-- **The affine map of the piece's domain**: the piece's constructor normalises its knot vector; the
    normalised piece at `(u - first)/(last - first)` is the un-normalised piece at `u`. -/
theorem normalized_piece_coincides (p : ℕ) (V : List K) (P : List (List K)) (κ : ℕ) (u : K) (hne : V ≠ [])
    (hrange : V.getLastD 0 - V.headD 0 ≠ 0) :
    curvePointAt p (fnOf (knotNormalize V)) P κ ((u - V.headD 0) / (V.getLastD 0 - V.headD 0))
      = curvePointAt p (fnOf V) P κ u :=
  normalized_piece p V P κ u hne hrange

/-- ingredient of "each piece coincides with the original": A2.2 reads the knot vector only on the
    window `κ-p+1 … κ+p`, so a piece's basis functions equal the original's wherever the two knot
    vectors agree on that window … -/
theorem basis_window_locality (U V : ℕ → K) (κ : ℕ) (u : K) (p : ℕ) (hp : p ≤ κ)
    (h : ∀ i, κ + 1 ≤ i + p → i ≤ κ + p → U i = V i) :
    basisFuns p U κ u = basisFuns p V κ u :=
  basisFuns_congr U V κ u p hp h

/-- … and are invariant under the affine re-parametrisation performed by the normalisation of the
    piece's knot vector. -/
theorem basis_affine_invariance (U : ℕ → K) (κ : ℕ) (u a b : K) (ha : a ≠ 0) (p : ℕ) :
    basisFuns p (fun i => a * U i + b) κ (a * u + b) = basisFuns p U κ u :=
  basisFuns_affine U κ u a b ha p

end C07
