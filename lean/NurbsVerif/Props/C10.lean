import NurbsVerif.Lemmas.Affine
import NurbsVerif.Lemmas.SurfLift
import NurbsVerif.Model.Transform
import NurbsVerif.Lemmas.AffineMaps

/-!
# C10  Translation, rotation and scaling act on the shape as on its points
-/
namespace C10
open Geomdl Finset
variable {K : Type} [Field K] [LinearOrder K] [IsStrictOrderedRing K]

/-- Non-rational curves: an affine map applied to every control point moves every evaluated point
    by the same map (coordinate `j` of the image is `Σ_l A l · x_l + b`: translation `A = e_j`,
    scaling `A = m·e_j`, `b = 0`, rotation about a centre with any `c`, `s`). -/
theorem curve_affine_invariance (p : ℕ) (U : ℕ → K) (P Q : List (List K)) (k : ℕ) (u : K) (d : ℕ)
    (h : SpanOk U k u) (hp : p ≤ k) (hk : k < P.length) (hlen : Q.length = P.length)
    (hP : NetOk d P) (hQ : NetOk d Q) (j : ℕ) (A : ℕ → K) (b : K)
    (hmap : ∀ i, i < P.length → (ptsGet Q i).getD j 0 = ∑ l ∈ range d, A l * (ptsGet P i).getD l 0 + b) :
    (curvePointAt p U Q k u).getD j 0 = ∑ l ∈ range d, A l * (curvePointAt p U P k u).getD l 0 + b :=
  curvePointAt_affine p U P Q k u d h hp hk hlen hP hQ j A b hmap

/-- Non-rational surfaces: the same for the tensor-product surface point. -/
theorem surface_affine_invariance (pu pv : ℕ) (Uu Uv : ℕ → K) (su sv : ℕ) (P Q : List (List K)) (ku kv : ℕ) (u v : K) (d : ℕ)
    (hu : SpanOk Uu ku u) (hv : SpanOk Uv kv v)
    (hpu : pu ≤ ku) (hpv : pv ≤ kv) (hku : ku < su) (hkv : kv < sv)
    (hlenP : P.length = su * sv) (hlenQ : Q.length = su * sv) (hP : NetOk d P) (hQ : NetOk d Q)
    (j : ℕ) (A : ℕ → K) (b : K)
    (hmap : ∀ i, i < su * sv → (ptsGet Q i).getD j 0 = ∑ l ∈ range d, A l * (ptsGet P i).getD l 0 + b) :
    (surfacePointAt pu pv Uu Uv sv Q ku kv u v).getD j 0
      = ∑ l ∈ range d, A l * (surfacePointAt pu pv Uu Uv sv P ku kv u v).getD l 0 + b :=
  surfacePointAt_affine pu pv Uu Uv su sv P Q ku kv u v d hu hv hpu hpv hku hkv hlenP hlenQ hP hQ j A b hmap

/-- The general principle behind surfaces, volumes and rational shapes: any combination with
    coefficients summing to one commutes with an affine map … -/
theorem affine_combination (n m : ℕ) (N : ℕ → K) (hN : ∑ r ∈ range n, N r = 1)
    (P : ℕ → ℕ → K) (Qj : ℕ → K) (A : ℕ → K) (b : K)
    (hQ : ∀ r, r < n → Qj r = ∑ l ∈ range m, A l * P r l + b) :
    ∑ r ∈ range n, N r * Qj r = ∑ l ∈ range m, A l * (∑ r ∈ range n, N r * P r l) + b :=
  affine_comb_coord n m N hN P Qj A b hQ

/-- … and any combination at all commutes with a linear map (homogeneous coordinates). -/
theorem linear_combination_commutes (n m : ℕ) (N : ℕ → K)
    (P : ℕ → ℕ → K) (Qj : ℕ → K) (A : ℕ → K)
    (hQ : ∀ r, r < n → Qj r = ∑ l ∈ range m, A l * P r l) :
    ∑ r ∈ range n, N r * Qj r = ∑ l ∈ range m, A l * (∑ r ∈ range n, N r * P r l) :=
  linear_comb_coord n m N P Qj A hQ

/-- the translation of the model is coordinatewise addition (so it is an affine map with `A = e_j`) -/
theorem translatePt_getD (vec pt : List K) (j : ℕ) (h : pt.length = vec.length) :
    (translatePt vec pt).getD j 0 = pt.getD j 0 + vec.getD j 0 := by
  unfold translatePt
  exact vadd_getD pt vec j h

/-- the rotation of the model about the z axis is the linear map with matrix `[[c, -s], [s, c]]`
    on the first two coordinates, for ANY numbers `c`, `s`
    (Unfolding lemma (the definition of `rotatePt` on a 3-D point, by `simp`).) -/
theorem rotatePt_z (c s x y z : K) : rotatePt 2 c s [x, y, z] = [x * c - y * s, y * c + x * s, z] := by
  simp [rotatePt]

/-! ### assembled statements: any affine map of the coordinates (`AffOn d f A b`: on points with `d`
    coordinates `f` is `x ↦ A x + b`), applied to the control net the way `Shape.mapPts` does it –
    `net.map f` for non-rational shapes, `net.map (onCartesian true f)` (divide by the weight, apply `f`,
    multiply back, keep the weight) for rational ones -/

/-- Non-rational curves: the evaluated point of the mapped net is the map of the evaluated point
    (all coordinates at once). -/
theorem transformed_curve_point (p : ℕ) (U : ℕ → K) (P : List (List K)) (k : ℕ) (u : K) (d : ℕ)
    (h : SpanOk U k u) (hp : p ≤ k) (hk : k < P.length) (hP : NetOk d P)
    (f : List K → List K) (A : ℕ → ℕ → K) (b : ℕ → K) (hf : AffOn d f A b) :
    curvePointAt p U (P.map f) k u = f (curvePointAt p U P k u) :=
  curvePointAt_map_affine p U P k u d h hp hk hP f A b hf

/-- Non-rational surfaces. -/
theorem transformed_surface_point (pu pv : ℕ) (Uu Uv : ℕ → K) (su sv : ℕ) (P : List (List K)) (ku kv : ℕ) (u v : K) (d : ℕ)
    (hu : SpanOk Uu ku u) (hv : SpanOk Uv kv v)
    (hpu : pu ≤ ku) (hpv : pv ≤ kv) (hku : ku < su) (hkv : kv < sv) (hlen : P.length = su * sv) (hP : NetOk d P)
    (f : List K → List K) (A : ℕ → ℕ → K) (b : ℕ → K) (hf : AffOn d f A b) :
    surfacePointAt pu pv Uu Uv sv (P.map f) ku kv u v = f (surfacePointAt pu pv Uu Uv sv P ku kv u v) :=
  surfacePointAt_map_affine pu pv Uu Uv su sv P ku kv u v d hu hv hpu hpv hku hkv hlen hP f A b hf

/-- Non-rational volumes. -/
theorem transformed_volume_point (pu pv pw : ℕ) (Uu Uv Uw : ℕ → K) (su sv sw : ℕ) (P : List (List K))
    (ku kv kw : ℕ) (u v w : K) (d : ℕ)
    (hu : SpanOk Uu ku u) (hv : SpanOk Uv kv v) (hw : SpanOk Uw kw w)
    (hpu : pu ≤ ku) (hpv : pv ≤ kv) (hpw : pw ≤ kw) (hku : ku < su) (hkv : kv < sv) (hkw : kw < sw)
    (hlen : P.length = su * sv * sw) (hP : NetOk d P)
    (f : List K → List K) (A : ℕ → ℕ → K) (b : ℕ → K) (hf : AffOn d f A b) :
    volumePointAt pu pv pw Uu Uv Uw su sv (P.map f) ku kv kw u v w
      = f (volumePointAt pu pv pw Uu Uv Uw su sv P ku kv kw u v w) :=
  volumePointAt_map_affine pu pv pw Uu Uv Uw su sv sw P ku kv kw u v w d hu hv hw hpu hpv hpw hku hkv hkw hlen hP f A b hf

/-- Rational curves (homogeneous points `(x·w, w)`, positive weights): the evaluated weight is
    unchanged and positive, and the projected point of the transformed net is the map of the projected
    point of the original net. -/
theorem transformed_rational_curve_point (p : ℕ) (U : ℕ → K) (P : List (List K)) (k : ℕ) (u : K) (d : ℕ)
    (h : SpanOk U k u) (hp : p ≤ k) (hk : k < P.length) (hP : NetOk (d+1) P)
    (hwt : ∀ i, i < P.length → 0 < (ptsGet P i).getD d 0)
    (f : List K → List K) (A : ℕ → ℕ → K) (b : ℕ → K) (hf : AffOn d f A b) :
    (curvePointAt p U (P.map (onCartesian true f)) k u).getD d 0 = (curvePointAt p U P k u).getD d 0 ∧
    0 < (curvePointAt p U P k u).getD d 0 ∧
    project (curvePointAt p U (P.map (onCartesian true f)) k u) = f (project (curvePointAt p U P k u)) :=
  curvePointAt_map_affine_rat p U P k u d h hp hk hP hwt f A b hf

/-- Rational surfaces. -/
theorem transformed_rational_surface_point (pu pv : ℕ) (Uu Uv : ℕ → K) (su sv : ℕ) (P : List (List K)) (ku kv : ℕ) (u v : K) (d : ℕ)
    (hu : SpanOk Uu ku u) (hv : SpanOk Uv kv v)
    (hpu : pu ≤ ku) (hpv : pv ≤ kv) (hku : ku < su) (hkv : kv < sv) (hlen : P.length = su * sv) (hP : NetOk (d+1) P)
    (hwt : ∀ i, i < P.length → 0 < (ptsGet P i).getD d 0)
    (f : List K → List K) (A : ℕ → ℕ → K) (b : ℕ → K) (hf : AffOn d f A b) :
    (surfacePointAt pu pv Uu Uv sv (P.map (onCartesian true f)) ku kv u v).getD d 0
      = (surfacePointAt pu pv Uu Uv sv P ku kv u v).getD d 0 ∧
    0 < (surfacePointAt pu pv Uu Uv sv P ku kv u v).getD d 0 ∧
    project (surfacePointAt pu pv Uu Uv sv (P.map (onCartesian true f)) ku kv u v)
      = f (project (surfacePointAt pu pv Uu Uv sv P ku kv u v)) :=
  surfacePointAt_map_affine_rat pu pv Uu Uv su sv P ku kv u v d hu hv hpu hpv hku hkv hlen hP hwt f A b hf

/-- Rational volumes. -/
theorem transformed_rational_volume_point (pu pv pw : ℕ) (Uu Uv Uw : ℕ → K) (su sv sw : ℕ) (P : List (List K))
    (ku kv kw : ℕ) (u v w : K) (d : ℕ)
    (hu : SpanOk Uu ku u) (hv : SpanOk Uv kv v) (hw : SpanOk Uw kw w)
    (hpu : pu ≤ ku) (hpv : pv ≤ kv) (hpw : pw ≤ kw) (hku : ku < su) (hkv : kv < sv) (hkw : kw < sw)
    (hlen : P.length = su * sv * sw) (hP : NetOk (d+1) P)
    (hwt : ∀ i, i < P.length → 0 < (ptsGet P i).getD d 0)
    (f : List K → List K) (A : ℕ → ℕ → K) (b : ℕ → K) (hf : AffOn d f A b) :
    (volumePointAt pu pv pw Uu Uv Uw su sv (P.map (onCartesian true f)) ku kv kw u v w).getD d 0
      = (volumePointAt pu pv pw Uu Uv Uw su sv P ku kv kw u v w).getD d 0 ∧
    0 < (volumePointAt pu pv pw Uu Uv Uw su sv P ku kv kw u v w).getD d 0 ∧
    project (volumePointAt pu pv pw Uu Uv Uw su sv (P.map (onCartesian true f)) ku kv kw u v w)
      = f (project (volumePointAt pu pv pw Uu Uv Uw su sv P ku kv kw u v w)) :=
  volumePointAt_map_affine_rat pu pv pw Uu Uv Uw su sv sw P ku kv kw u v w d hu hv hw hpu hpv hpw hku hkv hkw hlen hP hwt f A b hf

/-- Weights are unchanged by the model's transformation of a rational net, point by point, and the
    transformed net is again a net of `d+1`-coordinate points. -/
theorem transformed_net_weights (d : ℕ) (f : List K → List K) (P : List (List K)) (hP : NetOk (d+1) P)
    (hf : ∀ pt : List K, pt.length = d → (f pt).length = d) :
    NetOk (d+1) (P.map (onCartesian true f)) ∧
    ∀ i, i < P.length → (ptsGet (P.map (onCartesian true f)) i).getD d 0 = (ptsGet P i).getD d 0 :=
  onCartesian_net d f P hP hf

/-- The model's translation is an affine map of the coordinates: identity matrix, offset `vec`. -/
theorem translate_is_affine (d : ℕ) (vec : List K) (hv : vec.length = d) :
    AffOn d (translatePt vec) (fun j l => if l = j then 1 else 0) (fun j => vec.getD j 0) :=
  translatePt_affOn d vec hv

/-- The model's uniform scaling is an affine (linear) map: matrix `m·I`. -/
theorem scale_is_affine (d : ℕ) (m : K) :
    AffOn d (scalePt m) (fun j l => if l = j then m else 0) (fun _ => 0) :=
  scalePt_affOn d m

/-- The model's rotation of 3-D points about coordinate axis `axis` is the linear map with the
    rotation matrix `rotMat axis c s`, for ANY numbers `c`, `s`. -/
theorem rotate_is_affine_3d (axis : ℕ) (c s : K) : AffOn 3 (rotatePt axis c s) (rotMat axis c s) (fun _ => 0) :=
  rotatePt_affOn3 axis c s

/-- 2-D points are always rotated about the z axis. -/
theorem rotate_is_affine_2d (axis : ℕ) (c s : K) : AffOn 2 (rotatePt axis c s) (rotMat 2 c s) (fun _ => 0) :=
  rotatePt_affOn2 axis c s

/-- Affine maps compose (so translate-to-origin, rotate, translate-back is one affine map). -/
theorem affine_maps_compose {d : ℕ} {f g : List K → List K} {A A' : ℕ → ℕ → K} {b b' : ℕ → K}
    (hf : AffOn d f A b) (hg : AffOn d g A' b') :
    AffOn d (g ∘ f) (fun j l => ∑ m ∈ range d, A' j m * A m l) (fun j => ∑ m ∈ range d, A' j m * b m + b' j) :=
  AffOn.comp hf hg

/-- `translate` / `scale` of the model act on the net exactly in the form the theorems above are about
    (and change nothing else).
    (Unfolding lemma (`rfl` components): it displays what the model functions are.) -/
theorem translate_scale_net (S : Shape K) (vec : List K) (m : K) :
    (translate S vec).net = S.net.map (onCartesian S.rat (translatePt vec)) ∧
    (scale S m).net = S.net.map (onCartesian S.rat (scalePt m)) ∧
    (translate S vec).kvs = S.kvs ∧ (scale S m).kvs = S.kvs ∧ (translate S vec).rat = S.rat ∧ (scale S m).rat = S.rat :=
  ⟨rfl, rfl, rfl, rfl, rfl, rfl⟩

/-- The three net transformations of the model's `rotate` on a rational shape with non-zero weights
    are one transformation by the composed map (translate back ∘ rotate ∘ translate to the origin). -/
theorem rotate_net_rational (S : Shape K) (axis : ℕ) (c s : K) (d : ℕ) (hrat : S.rat = true)
    (hP : NetOk (d+1) S.net) (hwt : ∀ pt ∈ S.net, pt.getD d 0 ≠ 0) (ho : (startPoint S).length = d)
    (hrot : ∀ pt : List K, pt.length = d → (rotatePt axis c s pt).length = d) :
    (rotate S axis c s).net = S.net.map (onCartesian true
      (translatePt ((startPoint S).map (fun x => 0 - (0 - x))) ∘ rotatePt axis c s ∘
        translatePt ((startPoint S).map (fun x => 0 - x)))) :=
  rotate_net_rat S axis c s d hrat hP hwt ho hrot

/-- The same for non-rational shapes (no hypothesis needed). -/
theorem rotate_net_nonrational (S : Shape K) (axis : ℕ) (c s : K) (hrat : S.rat = false) :
    (rotate S axis c s).net = S.net.map
      (translatePt ((startPoint S).map (fun x => 0 - (0 - x))) ∘ rotatePt axis c s ∘
        translatePt ((startPoint S).map (fun x => 0 - x))) :=
  rotate_net_nonrat S axis c s hrat

/-- **`rotate` on a rational volume**, fully assembled: every evaluated (projected) point of the
    rotated shape is the original point moved by: translate by minus the start point, rotate about the
    axis, translate back – weights positive, any `c`, `s`. -/
theorem rotate_rational_volume (S : Shape K) (axis : ℕ) (c s : K)
    (pu pv pw : ℕ) (Uu Uv Uw : ℕ → K) (su sv sw ku kv kw : ℕ) (u v w : K)
    (hrat : S.rat = true) (hP : NetOk 4 S.net) (hlen : S.net.length = su * sv * sw)
    (hwt : ∀ pt ∈ S.net, 0 < pt.getD 3 0) (ho : (startPoint S).length = 3)
    (hu : SpanOk Uu ku u) (hv : SpanOk Uv kv v) (hw : SpanOk Uw kw w)
    (hpu : pu ≤ ku) (hpv : pv ≤ kv) (hpw : pw ≤ kw) (hku : ku < su) (hkv : kv < sv) (hkw : kw < sw) :
    project (volumePointAt pu pv pw Uu Uv Uw su sv (rotate S axis c s).net ku kv kw u v w)
      = translatePt ((startPoint S).map (fun x => 0 - (0 - x))) (rotatePt axis c s
          (translatePt ((startPoint S).map (fun x => 0 - x))
            (project (volumePointAt pu pv pw Uu Uv Uw su sv S.net ku kv kw u v w)))) :=
  rotate_rational_volume_point S axis c s pu pv pw Uu Uv Uw su sv sw ku kv kw u v w hrat hP hlen hwt ho hu hv hw
    hpu hpv hpw hku hkv hkw

/-- **`rotate` on a non-rational volume**, fully assembled. -/
theorem rotate_volume (S : Shape K) (axis : ℕ) (c s : K)
    (pu pv pw : ℕ) (Uu Uv Uw : ℕ → K) (su sv sw ku kv kw : ℕ) (u v w : K)
    (hrat : S.rat = false) (hP : NetOk 3 S.net) (hlen : S.net.length = su * sv * sw)
    (ho : (startPoint S).length = 3)
    (hu : SpanOk Uu ku u) (hv : SpanOk Uv kv v) (hw : SpanOk Uw kw w)
    (hpu : pu ≤ ku) (hpv : pv ≤ kv) (hpw : pw ≤ kw) (hku : ku < su) (hkv : kv < sv) (hkw : kw < sw) :
    volumePointAt pu pv pw Uu Uv Uw su sv (rotate S axis c s).net ku kv kw u v w
      = translatePt ((startPoint S).map (fun x => 0 - (0 - x))) (rotatePt axis c s
          (translatePt ((startPoint S).map (fun x => 0 - x))
            (volumePointAt pu pv pw Uu Uv Uw su sv S.net ku kv kw u v w))) :=
  rotate_volume_point S axis c s pu pv pw Uu Uv Uw su sv sw ku kv kw u v w hrat hP hlen ho hu hv hw
    hpu hpv hpw hku hkv hkw

/-- a rational volume: degrees 1,1,1, sizes 2×2×2, homogeneous 3-D points with weights 1,2,1,3,1,2,1,1 -/
def exVol : Shape ℚ :=
  { rat := true, degs := [1,1,1], kvs := [[0,0,1,1],[0,0,1,1],[0,0,1,1]], sizes := [2,2,2],
    net := [[0,0,0,1],[2,0,2,2],[0,1,0,1],[3,3,6,3],[0,0,1,1],[4,0,2,2],[0,2,3,1],[1,1,1,1]] }

/-- non-vacuity of `rotate_rational_volume`: all hypotheses hold for `exVol`, axis 0, `c = 3/5`, `s = 4/5`,
    parameters `(1/3, 1/4, 1/5)` -/
example : project (volumePointAt 1 1 1 (fnOf ([0,0,1,1] : List ℚ)) (fnOf ([0,0,1,1] : List ℚ)) (fnOf ([0,0,1,1] : List ℚ)) 2 2
      (rotate exVol 0 (3/5) (4/5)).net 1 1 1 (1/3) (1/4) (1/5))
    = translatePt ((startPoint exVol).map (fun x => 0 - (0 - x))) (rotatePt 0 (3/5) (4/5)
        (translatePt ((startPoint exVol).map (fun x => 0 - x))
          (project (volumePointAt 1 1 1 (fnOf ([0,0,1,1] : List ℚ)) (fnOf ([0,0,1,1] : List ℚ)) (fnOf ([0,0,1,1] : List ℚ)) 2 2
            exVol.net 1 1 1 (1/3) (1/4) (1/5))))) := by
  have hm : Monotone (fnOf ([0,0,1,1] : List ℚ)) := by
    apply monotone_nat_of_le_succ
    intro n
    rcases n with _|_|_|_|n <;> simp [fnOf, List.getD]
  have hs : ∀ t : ℚ, 0 ≤ t → t ≤ 1 → SpanOk (fnOf ([0,0,1,1] : List ℚ)) 1 t := fun t h0 h1 =>
    ⟨hm, by simpa [fnOf, List.getD] using h0, by simpa [fnOf, List.getD] using h1, by simp [fnOf, List.getD]⟩
  refine rotate_rational_volume exVol 0 (3/5) (4/5) 1 1 1 _ _ _ 2 2 2 1 1 1 _ _ _ rfl ?_ rfl ?_ (by decide +kernel)
    (hs _ (by norm_num) (by norm_num)) (hs _ (by norm_num) (by norm_num)) (hs _ (by norm_num) (by norm_num))
    (by omega) (by omega) (by omega) (by omega) (by omega) (by omega)
  · intro pt hpt; simp [exVol] at hpt; rcases hpt with h|h|h|h|h|h|h|h <;> simp [h]
  · intro pt hpt; simp [exVol] at hpt; rcases hpt with h|h|h|h|h|h|h|h <;> simp [h]

end C10
