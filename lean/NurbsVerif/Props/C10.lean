import NurbsVerif.Lemmas.Affine
import NurbsVerif.Lemmas.SurfLift
import NurbsVerif.Model.Transform

/-!
# C10  Translation, rotation and scaling act on the shape as on its points
-/
namespace C10
open Geomdl Finset
variable {K : Type} [Field K] [LinearOrder K] [IsStrictOrderedRing K]

/-- Non-rational curves: an affine map applied to every control point moves every evaluated point
    by the same map (coordinate `j` of the image is `Σ_l A l · x_l + b`: translation `A = e_j`,
    scaling `A = m·e_j`, `b = 0`, rotation about a centre with any `c`, `s`). -/
theorem curve_affine_invariance (p : ℕ) (U : ℕ → K) (P Q : List (List K)) (k : ℕ) (u : K) (d : ℕ)
    (h : SpanOk U k u) (hp : p ≤ k) (hk : k < P.length) (hlen : Q.length = P.length)
    (hP : NetOk d P) (hQ : NetOk d Q) (j : ℕ) (A : ℕ → K) (b : K)
    (hmap : ∀ i, i < P.length → (ptsGet Q i).getD j 0 = ∑ l ∈ range d, A l * (ptsGet P i).getD l 0 + b) :
    (curvePointAt p U Q k u).getD j 0 = ∑ l ∈ range d, A l * (curvePointAt p U P k u).getD l 0 + b :=
  curvePointAt_affine p U P Q k u d h hp hk hlen hP hQ j A b hmap

/-- Non-rational surfaces: the same for the tensor-product surface point. -/
theorem surface_affine_invariance (pu pv : ℕ) (Uu Uv : ℕ → K) (su sv : ℕ) (P Q : List (List K)) (ku kv : ℕ) (u v : K) (d : ℕ)
    (hu : SpanOk Uu ku u) (hv : SpanOk Uv kv v)
    (hpu : pu ≤ ku) (hpv : pv ≤ kv) (hku : ku < su) (hkv : kv < sv)
    (hlenP : P.length = su * sv) (hlenQ : Q.length = su * sv) (hP : NetOk d P) (hQ : NetOk d Q)
    (j : ℕ) (A : ℕ → K) (b : K)
    (hmap : ∀ i, i < su * sv → (ptsGet Q i).getD j 0 = ∑ l ∈ range d, A l * (ptsGet P i).getD l 0 + b) :
    (surfacePointAt pu pv Uu Uv sv Q ku kv u v).getD j 0
      = ∑ l ∈ range d, A l * (surfacePointAt pu pv Uu Uv sv P ku kv u v).getD l 0 + b :=
  surfacePointAt_affine pu pv Uu Uv su sv P Q ku kv u v d hu hv hpu hpv hku hkv hlenP hlenQ hP hQ j A b hmap

/-- The general principle behind surfaces, volumes and rational shapes: any combination with
    coefficients summing to one commutes with an affine map … -/
theorem affine_combination (n m : ℕ) (N : ℕ → K) (hN : ∑ r ∈ range n, N r = 1)
    (P : ℕ → ℕ → K) (Qj : ℕ → K) (A : ℕ → K) (b : K)
    (hQ : ∀ r, r < n → Qj r = ∑ l ∈ range m, A l * P r l + b) :
    ∑ r ∈ range n, N r * Qj r = ∑ l ∈ range m, A l * (∑ r ∈ range n, N r * P r l) + b :=
  affine_comb_coord n m N hN P Qj A b hQ

/-- … and any combination at all commutes with a linear map (homogeneous coordinates). -/
theorem linear_combination_commutes (n m : ℕ) (N : ℕ → K)
    (P : ℕ → ℕ → K) (Qj : ℕ → K) (A : ℕ → K)
    (hQ : ∀ r, r < n → Qj r = ∑ l ∈ range m, A l * P r l) :
    ∑ r ∈ range n, N r * Qj r = ∑ l ∈ range m, A l * (∑ r ∈ range n, N r * P r l) :=
  linear_comb_coord n m N P Qj A hQ

/-- the translation of the model is coordinatewise addition (so it is an affine map with `A = e_j`) -/
theorem translatePt_getD (vec pt : List K) (j : ℕ) (h : pt.length = vec.length) :
    (translatePt vec pt).getD j 0 = pt.getD j 0 + vec.getD j 0 := by
  unfold translatePt
  exact vadd_getD pt vec j h

/-- the rotation of the model about the z axis is the linear map with matrix `[[c, -s], [s, c]]`
    on the first two coordinates, for ANY numbers `c`, `s` -/
theorem rotatePt_z (c s x y z : K) : rotatePt 2 c s [x, y, z] = [x * c - y * s, y * c + x * s, z] := by
  simp [rotatePt]

end C10
