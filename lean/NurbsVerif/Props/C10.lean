import NurbsVerif.Lemmas.Affine
import NurbsVerif.Lemmas.SurfLift
import NurbsVerif.Model.Transform
import NurbsVerif.Lemmas.AffineMaps
import NurbsVerif.Lemmas.AffineAssembleKinds
import NurbsVerif.Lemmas.AffineAssembleSeq
import NurbsVerif.Lemmas.AffineAssembleWitness
import NurbsVerif.Lemmas.AffineContainer

/-!
# C10  Translation, rotation and scaling act on the shape as on its points
-/
namespace C10
open Geomdl Finset
variable {K : Type} [Field K] [LinearOrder K] [IsStrictOrderedRing K]

/-- Non-rational curves: an affine map applied to every control point moves every evaluated point
    by the same map (coordinate `j` of the image is `Σ_l A l · x_l + b`: translation `A = e_j`,
    scaling `A = m·e_j`, `b = 0`, rotation about a centre with any `c`, `s`). -/
theorem curve_affine_invariance (p : ℕ) (U : ℕ → K) (P Q : List (List K)) (k : ℕ) (u : K) (d : ℕ)
    (h : SpanOk U k u) (hp : p ≤ k) (hk : k < P.length) (hlen : Q.length = P.length)
    (hP : NetOk d P) (hQ : NetOk d Q) (j : ℕ) (A : ℕ → K) (b : K)
    (hmap : ∀ i, i < P.length → (ptsGet Q i).getD j 0 = ∑ l ∈ range d, A l * (ptsGet P i).getD l 0 + b) :
    (curvePointAt p U Q k u).getD j 0 = ∑ l ∈ range d, A l * (curvePointAt p U P k u).getD l 0 + b :=
  curvePointAt_affine p U P Q k u d h hp hk hlen hP hQ j A b hmap

/-- Non-rational surfaces: the same for the tensor-product surface point. -/
theorem surface_affine_invariance (pu pv : ℕ) (Uu Uv : ℕ → K) (su sv : ℕ) (P Q : List (List K)) (ku kv : ℕ) (u v : K) (d : ℕ)
    (hu : SpanOk Uu ku u) (hv : SpanOk Uv kv v)
    (hpu : pu ≤ ku) (hpv : pv ≤ kv) (hku : ku < su) (hkv : kv < sv)
    (hlenP : P.length = su * sv) (hlenQ : Q.length = su * sv) (hP : NetOk d P) (hQ : NetOk d Q)
    (j : ℕ) (A : ℕ → K) (b : K)
    (hmap : ∀ i, i < su * sv → (ptsGet Q i).getD j 0 = ∑ l ∈ range d, A l * (ptsGet P i).getD l 0 + b) :
    (surfacePointAt pu pv Uu Uv sv Q ku kv u v).getD j 0
      = ∑ l ∈ range d, A l * (surfacePointAt pu pv Uu Uv sv P ku kv u v).getD l 0 + b :=
  surfacePointAt_affine pu pv Uu Uv su sv P Q ku kv u v d hu hv hpu hpv hku hkv hlenP hlenQ hP hQ j A b hmap

/-- The general principle behind surfaces, volumes and rational shapes: any combination with
    coefficients summing to one commutes with an affine map … -/
theorem affine_combination (n m : ℕ) (N : ℕ → K) (hN : ∑ r ∈ range n, N r = 1)
    (P : ℕ → ℕ → K) (Qj : ℕ → K) (A : ℕ → K) (b : K)
    (hQ : ∀ r, r < n → Qj r = ∑ l ∈ range m, A l * P r l + b) :
    ∑ r ∈ range n, N r * Qj r = ∑ l ∈ range m, A l * (∑ r ∈ range n, N r * P r l) + b :=
  affine_comb_coord n m N hN P Qj A b hQ

/-- … and any combination at all commutes with a linear map (homogeneous coordinates). -/
theorem linear_combination_commutes (n m : ℕ) (N : ℕ → K)
    (P : ℕ → ℕ → K) (Qj : ℕ → K) (A : ℕ → K)
    (hQ : ∀ r, r < n → Qj r = ∑ l ∈ range m, A l * P r l) :
    ∑ r ∈ range n, N r * Qj r = ∑ l ∈ range m, A l * (∑ r ∈ range n, N r * P r l) :=
  linear_comb_coord n m N P Qj A hQ

/-- the translation of the model is coordinatewise addition (so it is an affine map with `A = e_j`) -/
theorem translatePt_getD (vec pt : List K) (j : ℕ) (h : pt.length = vec.length) :
    (translatePt vec pt).getD j 0 = pt.getD j 0 + vec.getD j 0 := by
  unfold translatePt
  exact vadd_getD pt vec j h

/-- the rotation of the model about the z axis is the linear map with matrix `[[c, -s], [s, c]]`
    on the first two coordinates, for ANY numbers `c`, `s`
    (Unfolding lemma (the definition of `rotatePt` on a 3-D point, by `simp`).) -/
theorem rotatePt_z (c s x y z : K) : rotatePt 2 c s [x, y, z] = [x * c - y * s, y * c + x * s, z] := by
  simp [rotatePt]

/-! ### assembled statements: any affine map of the coordinates (`AffOn d f A b`: on points with `d`
    coordinates `f` is `x ↦ A x + b`), applied to the control net the way `Shape.mapPts` does it –
    `net.map f` for non-rational shapes, `net.map (onCartesian true f)` (divide by the weight, apply `f`,
    multiply back, keep the weight) for rational ones -/

/-- Non-rational curves: the evaluated point of the mapped net is the map of the evaluated point
    (all coordinates at once). -/
theorem transformed_curve_point (p : ℕ) (U : ℕ → K) (P : List (List K)) (k : ℕ) (u : K) (d : ℕ)
    (h : SpanOk U k u) (hp : p ≤ k) (hk : k < P.length) (hP : NetOk d P)
    (f : List K → List K) (A : ℕ → ℕ → K) (b : ℕ → K) (hf : AffOn d f A b) :
    curvePointAt p U (P.map f) k u = f (curvePointAt p U P k u) :=
  curvePointAt_map_affine p U P k u d h hp hk hP f A b hf

/-- Non-rational surfaces. -/
theorem transformed_surface_point (pu pv : ℕ) (Uu Uv : ℕ → K) (su sv : ℕ) (P : List (List K)) (ku kv : ℕ) (u v : K) (d : ℕ)
    (hu : SpanOk Uu ku u) (hv : SpanOk Uv kv v)
    (hpu : pu ≤ ku) (hpv : pv ≤ kv) (hku : ku < su) (hkv : kv < sv) (hlen : P.length = su * sv) (hP : NetOk d P)
    (f : List K → List K) (A : ℕ → ℕ → K) (b : ℕ → K) (hf : AffOn d f A b) :
    surfacePointAt pu pv Uu Uv sv (P.map f) ku kv u v = f (surfacePointAt pu pv Uu Uv sv P ku kv u v) :=
  surfacePointAt_map_affine pu pv Uu Uv su sv P ku kv u v d hu hv hpu hpv hku hkv hlen hP f A b hf

/-- Non-rational volumes. -/
theorem transformed_volume_point (pu pv pw : ℕ) (Uu Uv Uw : ℕ → K) (su sv sw : ℕ) (P : List (List K))
    (ku kv kw : ℕ) (u v w : K) (d : ℕ)
    (hu : SpanOk Uu ku u) (hv : SpanOk Uv kv v) (hw : SpanOk Uw kw w)
    (hpu : pu ≤ ku) (hpv : pv ≤ kv) (hpw : pw ≤ kw) (hku : ku < su) (hkv : kv < sv) (hkw : kw < sw)
    (hlen : P.length = su * sv * sw) (hP : NetOk d P)
    (f : List K → List K) (A : ℕ → ℕ → K) (b : ℕ → K) (hf : AffOn d f A b) :
    volumePointAt pu pv pw Uu Uv Uw su sv (P.map f) ku kv kw u v w
      = f (volumePointAt pu pv pw Uu Uv Uw su sv P ku kv kw u v w) :=
  volumePointAt_map_affine pu pv pw Uu Uv Uw su sv sw P ku kv kw u v w d hu hv hw hpu hpv hpw hku hkv hkw hlen hP f A b hf

/-- Rational curves (homogeneous points `(x·w, w)`, positive weights): the evaluated weight is
    unchanged and positive, and the projected point of the transformed net is the map of the projected
    point of the original net. -/
theorem transformed_rational_curve_point (p : ℕ) (U : ℕ → K) (P : List (List K)) (k : ℕ) (u : K) (d : ℕ)
    (h : SpanOk U k u) (hp : p ≤ k) (hk : k < P.length) (hP : NetOk (d+1) P)
    (hwt : ∀ i, i < P.length → 0 < (ptsGet P i).getD d 0)
    (f : List K → List K) (A : ℕ → ℕ → K) (b : ℕ → K) (hf : AffOn d f A b) :
    (curvePointAt p U (P.map (onCartesian true f)) k u).getD d 0 = (curvePointAt p U P k u).getD d 0 ∧
    0 < (curvePointAt p U P k u).getD d 0 ∧
    project (curvePointAt p U (P.map (onCartesian true f)) k u) = f (project (curvePointAt p U P k u)) :=
  curvePointAt_map_affine_rat p U P k u d h hp hk hP hwt f A b hf

/-- Rational surfaces. -/
theorem transformed_rational_surface_point (pu pv : ℕ) (Uu Uv : ℕ → K) (su sv : ℕ) (P : List (List K)) (ku kv : ℕ) (u v : K) (d : ℕ)
    (hu : SpanOk Uu ku u) (hv : SpanOk Uv kv v)
    (hpu : pu ≤ ku) (hpv : pv ≤ kv) (hku : ku < su) (hkv : kv < sv) (hlen : P.length = su * sv) (hP : NetOk (d+1) P)
    (hwt : ∀ i, i < P.length → 0 < (ptsGet P i).getD d 0)
    (f : List K → List K) (A : ℕ → ℕ → K) (b : ℕ → K) (hf : AffOn d f A b) :
    (surfacePointAt pu pv Uu Uv sv (P.map (onCartesian true f)) ku kv u v).getD d 0
      = (surfacePointAt pu pv Uu Uv sv P ku kv u v).getD d 0 ∧
    0 < (surfacePointAt pu pv Uu Uv sv P ku kv u v).getD d 0 ∧
    project (surfacePointAt pu pv Uu Uv sv (P.map (onCartesian true f)) ku kv u v)
      = f (project (surfacePointAt pu pv Uu Uv sv P ku kv u v)) :=
  surfacePointAt_map_affine_rat pu pv Uu Uv su sv P ku kv u v d hu hv hpu hpv hku hkv hlen hP hwt f A b hf

/-- Rational volumes. -/
theorem transformed_rational_volume_point (pu pv pw : ℕ) (Uu Uv Uw : ℕ → K) (su sv sw : ℕ) (P : List (List K))
    (ku kv kw : ℕ) (u v w : K) (d : ℕ)
    (hu : SpanOk Uu ku u) (hv : SpanOk Uv kv v) (hw : SpanOk Uw kw w)
    (hpu : pu ≤ ku) (hpv : pv ≤ kv) (hpw : pw ≤ kw) (hku : ku < su) (hkv : kv < sv) (hkw : kw < sw)
    (hlen : P.length = su * sv * sw) (hP : NetOk (d+1) P)
    (hwt : ∀ i, i < P.length → 0 < (ptsGet P i).getD d 0)
    (f : List K → List K) (A : ℕ → ℕ → K) (b : ℕ → K) (hf : AffOn d f A b) :
    (volumePointAt pu pv pw Uu Uv Uw su sv (P.map (onCartesian true f)) ku kv kw u v w).getD d 0
      = (volumePointAt pu pv pw Uu Uv Uw su sv P ku kv kw u v w).getD d 0 ∧
    0 < (volumePointAt pu pv pw Uu Uv Uw su sv P ku kv kw u v w).getD d 0 ∧
    project (volumePointAt pu pv pw Uu Uv Uw su sv (P.map (onCartesian true f)) ku kv kw u v w)
      = f (project (volumePointAt pu pv pw Uu Uv Uw su sv P ku kv kw u v w)) :=
  volumePointAt_map_affine_rat pu pv pw Uu Uv Uw su sv sw P ku kv kw u v w d hu hv hw hpu hpv hpw hku hkv hkw hlen hP hwt f A b hf

/-- Weights are unchanged by the model's transformation of a rational net, point by point, and the
    transformed net is again a net of `d+1`-coordinate points. -/
theorem transformed_net_weights (d : ℕ) (f : List K → List K) (P : List (List K)) (hP : NetOk (d+1) P)
    (hf : ∀ pt : List K, pt.length = d → (f pt).length = d) :
    NetOk (d+1) (P.map (onCartesian true f)) ∧
    ∀ i, i < P.length → (ptsGet (P.map (onCartesian true f)) i).getD d 0 = (ptsGet P i).getD d 0 :=
  onCartesian_net d f P hP hf

/-- The model's translation is an affine map of the coordinates: identity matrix, offset `vec`. -/
theorem translate_is_affine (d : ℕ) (vec : List K) (hv : vec.length = d) :
    AffOn d (translatePt vec) (fun j l => if l = j then 1 else 0) (fun j => vec.getD j 0) :=
  translatePt_affOn d vec hv

/-- The model's uniform scaling is an affine (linear) map: matrix `m·I`. -/
theorem scale_is_affine (d : ℕ) (m : K) :
    AffOn d (scalePt m) (fun j l => if l = j then m else 0) (fun _ => 0) :=
  scalePt_affOn d m

/-- The model's rotation of 3-D points about coordinate axis `axis` is the linear map with the
    rotation matrix `rotMat axis c s`, for ANY numbers `c`, `s`.  (A fact about the point map `rotatePt`; for 3-D shapes
    the library accepts `axis ∈ {0, 1, 2}` only – for other values `operations.rotate` raises, the driver answers `ERR`,
    and the model formulas fall into the y-axis case: the object-level theorems below carry `axis ≤ 2`.  For 2-D shapes
    and containers of 2-D shapes the code IGNORES `axis` (`axis = 2 if obj.dimension == 2 else int(axis)`), so does
    `rotatePt` (`rotate_is_affine_2d`), and the driver accepts any `axis` there – the hypothesis `axis ≤ 2` of the
    object-level theorems is then stricter than the code.  For points with MORE than 3 coordinates `rotate_x` / `rotate_y`
    of the code write zeros into the coordinates ≥ 3 while `rotatePt` keeps them: outside the model, the theorems have
    `d = 2 ∨ d = 3`, the driver answers `OUT`.) -/
theorem rotate_is_affine_3d (axis : ℕ) (c s : K) : AffOn 3 (rotatePt axis c s) (rotMat axis c s) (fun _ => 0) :=
  rotatePt_affOn3 axis c s

/-- 2-D points are always rotated about the z axis. -/
theorem rotate_is_affine_2d (axis : ℕ) (c s : K) : AffOn 2 (rotatePt axis c s) (rotMat 2 c s) (fun _ => 0) :=
  rotatePt_affOn2 axis c s

/-- Affine maps compose (so translate-to-origin, rotate, translate-back is one affine map). -/
theorem affine_maps_compose {d : ℕ} {f g : List K → List K} {A A' : ℕ → ℕ → K} {b b' : ℕ → K}
    (hf : AffOn d f A b) (hg : AffOn d g A' b') :
    AffOn d (g ∘ f) (fun j l => ∑ m ∈ range d, A' j m * A m l) (fun j => ∑ m ∈ range d, A' j m * b m + b' j) :=
  AffOn.comp hf hg

/-- `translate` / `scale` of the model act on the net exactly in the form the theorems above are about
    (and change nothing else).
    (Unfolding lemma (`rfl` components): it displays what the model functions are.) -/
theorem translate_scale_net (S : Shape K) (vec : List K) (m : K) :
    (translate S vec).net = S.net.map (onCartesian S.rat (translatePt vec)) ∧
    (scale S m).net = S.net.map (onCartesian S.rat (scalePt m)) ∧
    (translate S vec).kvs = S.kvs ∧ (scale S m).kvs = S.kvs ∧ (translate S vec).rat = S.rat ∧ (scale S m).rat = S.rat :=
  ⟨rfl, rfl, rfl, rfl, rfl, rfl⟩

/-- The three net transformations of the model's `rotate` on a rational shape with non-zero weights
    are one transformation by the composed map (translate back ∘ rotate ∘ translate to the origin). -/
theorem rotate_net_rational (S : Shape K) (axis : ℕ) (c s : K) (d : ℕ) (hrat : S.rat = true)
    (hP : NetOk (d+1) S.net) (hwt : ∀ pt ∈ S.net, pt.getD d 0 ≠ 0) (ho : (startPoint S).length = d)
    (hrot : ∀ pt : List K, pt.length = d → (rotatePt axis c s pt).length = d) :
    (rotate S axis c s).net = S.net.map (onCartesian true
      (translatePt ((startPoint S).map (fun x => 0 - (0 - x))) ∘ rotatePt axis c s ∘
        translatePt ((startPoint S).map (fun x => 0 - x)))) :=
  rotate_net_rat S axis c s d hrat hP hwt ho hrot

/-- The same for non-rational shapes (no hypothesis needed). -/
theorem rotate_net_nonrational (S : Shape K) (axis : ℕ) (c s : K) (hrat : S.rat = false) :
    (rotate S axis c s).net = S.net.map
      (translatePt ((startPoint S).map (fun x => 0 - (0 - x))) ∘ rotatePt axis c s ∘
        translatePt ((startPoint S).map (fun x => 0 - x))) :=
  rotate_net_nonrat S axis c s hrat

/-- **`rotate` on a rational volume**, fully assembled: every evaluated (projected) point of the
    rotated shape is the original point moved by: translate by minus the start point, rotate about the
    axis, translate back – weights positive, any `c`, `s`. -/
theorem rotate_rational_volume (S : Shape K) (axis : ℕ) (c s : K)
    (pu pv pw : ℕ) (Uu Uv Uw : ℕ → K) (su sv sw ku kv kw : ℕ) (u v w : K)
    (hrat : S.rat = true) (hP : NetOk 4 S.net) (hlen : S.net.length = su * sv * sw)
    (hwt : ∀ pt ∈ S.net, 0 < pt.getD 3 0) (ho : (startPoint S).length = 3)
    (hu : SpanOk Uu ku u) (hv : SpanOk Uv kv v) (hw : SpanOk Uw kw w)
    (hpu : pu ≤ ku) (hpv : pv ≤ kv) (hpw : pw ≤ kw) (hku : ku < su) (hkv : kv < sv) (hkw : kw < sw) :
    project (volumePointAt pu pv pw Uu Uv Uw su sv (rotate S axis c s).net ku kv kw u v w)
      = translatePt ((startPoint S).map (fun x => 0 - (0 - x))) (rotatePt axis c s
          (translatePt ((startPoint S).map (fun x => 0 - x))
            (project (volumePointAt pu pv pw Uu Uv Uw su sv S.net ku kv kw u v w)))) :=
  rotate_rational_volume_point S axis c s pu pv pw Uu Uv Uw su sv sw ku kv kw u v w hrat hP hlen hwt ho hu hv hw
    hpu hpv hpw hku hkv hkw

/-- **`rotate` on a non-rational volume**, fully assembled. -/
theorem rotate_volume (S : Shape K) (axis : ℕ) (c s : K)
    (pu pv pw : ℕ) (Uu Uv Uw : ℕ → K) (su sv sw ku kv kw : ℕ) (u v w : K)
    (hrat : S.rat = false) (hP : NetOk 3 S.net) (hlen : S.net.length = su * sv * sw)
    (ho : (startPoint S).length = 3)
    (hu : SpanOk Uu ku u) (hv : SpanOk Uv kv v) (hw : SpanOk Uw kw w)
    (hpu : pu ≤ ku) (hpv : pv ≤ kv) (hpw : pw ≤ kw) (hku : ku < su) (hkv : kv < sv) (hkw : kw < sw) :
    volumePointAt pu pv pw Uu Uv Uw su sv (rotate S axis c s).net ku kv kw u v w
      = translatePt ((startPoint S).map (fun x => 0 - (0 - x))) (rotatePt axis c s
          (translatePt ((startPoint S).map (fun x => 0 - x))
            (volumePointAt pu pv pw Uu Uv Uw su sv S.net ku kv kw u v w))) :=
  rotate_volume_point S axis c s pu pv pw Uu Uv Uw su sv sw ku kv kw u v w hrat hP hlen ho hu hv hw
    hpu hpv hpw hku hkv hkw

/-- a rational volume: degrees 1,1,1, sizes 2×2×2, homogeneous 3-D points with weights 1,2,1,3,1,2,1,1 -/
def exVol : Shape ℚ :=
  { rat := true, degs := [1,1,1], kvs := [[0,0,1,1],[0,0,1,1],[0,0,1,1]], sizes := [2,2,2],
    net := [[0,0,0,1],[2,0,2,2],[0,1,0,1],[3,3,6,3],[0,0,1,1],[4,0,2,2],[0,2,3,1],[1,1,1,1]] }

/-- non-vacuity of `rotate_rational_volume`: all hypotheses hold for `exVol`, axis 0, `c = 3/5`, `s = 4/5`,
    parameters `(1/3, 1/4, 1/5)` -/
example : project (volumePointAt 1 1 1 (fnOf ([0,0,1,1] : List ℚ)) (fnOf ([0,0,1,1] : List ℚ)) (fnOf ([0,0,1,1] : List ℚ)) 2 2
      (rotate exVol 0 (3/5) (4/5)).net 1 1 1 (1/3) (1/4) (1/5))
    = translatePt ((startPoint exVol).map (fun x => 0 - (0 - x))) (rotatePt 0 (3/5) (4/5)
        (translatePt ((startPoint exVol).map (fun x => 0 - x))
          (project (volumePointAt 1 1 1 (fnOf ([0,0,1,1] : List ℚ)) (fnOf ([0,0,1,1] : List ℚ)) (fnOf ([0,0,1,1] : List ℚ)) 2 2
            exVol.net 1 1 1 (1/3) (1/4) (1/5))))) := by
  have hm : Monotone (fnOf ([0,0,1,1] : List ℚ)) := by
    apply monotone_nat_of_le_succ
    intro n
    rcases n with _|_|_|_|n <;> simp [fnOf, List.getD]
  have hs : ∀ t : ℚ, 0 ≤ t → t ≤ 1 → SpanOk (fnOf ([0,0,1,1] : List ℚ)) 1 t := fun t h0 h1 =>
    ⟨hm, by simpa [fnOf, List.getD] using h0, by simpa [fnOf, List.getD] using h1, by simp [fnOf, List.getD]⟩
  refine rotate_rational_volume exVol 0 (3/5) (4/5) 1 1 1 _ _ _ 2 2 2 1 1 1 _ _ _ rfl ?_ rfl ?_ (by decide +kernel)
    (hs _ (by norm_num) (by norm_num)) (hs _ (by norm_num) (by norm_num)) (hs _ (by norm_num) (by norm_num))
    (by omega) (by omega) (by omega) (by omega) (by omega) (by omega)
  · intro pt hpt; simp [exVol] at hpt; rcases hpt with h|h|h|h|h|h|h|h <;> simp [h]
  · intro pt hpt; simp [exVol] at hpt; rcases hpt with h|h|h|h|h|h|h|h <;> simp [h]

/-! ## END-TO-END: the model functions `translate`, `scale`, `rotate` on a `Shape`, evaluated through the
    span search (`curvePoint` / `surfacePoint` / `volumePoint`), on the whole closed domain

    `Shape.pointAt S t` is the evaluated point of the curve / surface / volume `S` at the parameter tuple
    `(t 0, t 1, t 2)`, projected when `S` is rational – literally the expression the model's `startPoint`
    evaluates.  `ShapeWF d S`: 1–3 parametric directions, each with a well-formed knot function
    (non-decreasing, at least degree + 1 control points, non-empty last span) given by a knot list of exactly
    `size + degree + 1` knots, degree ≥ 1 (as the driver's `shapeOk` and the library's setters demand), the net has the
    right number of points with `d` (`d + 1` when rational) coordinates, weights of a rational shape positive.
    `S.InDom t`: every `t i` lies in the closed domain `[U_p, U_n]` of its direction. -/

/-- `Shape.pointAt` of a curve shape is `curvePoint` on the shape's data (projected when rational).
    (Unfolding lemma: it ties the auxiliary definition to the model's evaluation function.) -/
theorem pointAt_is_curve_point (S : Shape K) (t : ℕ → K) (h1 : S.pdim = 1) :
    S.pointAt t = if S.rat then project (curvePoint (S.deg 0) (fnOf (S.kv 0)) S.net (t 0))
      else curvePoint (S.deg 0) (fnOf (S.kv 0)) S.net (t 0) :=
  pointAt_curve S t h1

/-- `Shape.pointAt` of a surface shape is `surfacePoint` (projected when rational).  (Unfolding lemma.) -/
theorem pointAt_is_surface_point (S : Shape K) (t : ℕ → K) (h2 : S.pdim = 2) :
    S.pointAt t =
      if S.rat then project (surfacePoint (S.deg 0) (S.deg 1) (fnOf (S.kv 0)) (fnOf (S.kv 1)) (S.size 0) (S.size 1) S.net (t 0) (t 1))
      else surfacePoint (S.deg 0) (S.deg 1) (fnOf (S.kv 0)) (fnOf (S.kv 1)) (S.size 0) (S.size 1) S.net (t 0) (t 1) :=
  pointAt_surface S t h2

/-- `Shape.pointAt` of a volume shape is `volumePoint` (projected when rational).  (Unfolding lemma.) -/
theorem pointAt_is_volume_point (S : Shape K) (t : ℕ → K) (h3 : S.pdim = 3) :
    S.pointAt t =
      if S.rat then project (volumePoint (S.deg 0) (S.deg 1) (S.deg 2) (fnOf (S.kv 0)) (fnOf (S.kv 1)) (fnOf (S.kv 2))
        (S.size 0) (S.size 1) (S.size 2) S.net (t 0) (t 1) (t 2))
      else volumePoint (S.deg 0) (S.deg 1) (S.deg 2) (fnOf (S.kv 0)) (fnOf (S.kv 1)) (fnOf (S.kv 2))
        (S.size 0) (S.size 1) (S.size 2) S.net (t 0) (t 1) (t 2) :=
  pointAt_volume S t h3

/-- **The rotation centre** of the model (`startPoint`) is the evaluated point at the start `U_p` of the
    domain of every direction, and that parameter tuple lies in the domain of a well-formed shape.
    (First component: the definition itself, `rfl`.) -/
theorem startPoint_is_evaluated_domain_start (S : Shape K) :
    startPoint S = S.pointAt (fun i => fnOf (S.kv i) (S.deg i)) ∧
    ∀ d, ShapeWF d S → S.InDom (fun i => fnOf (S.kv i) (S.deg i)) :=
  ⟨startPoint_eq_pointAt S, fun _ h => h.domStart_inDom⟩

/-- For a shape whose knot functions are clamped in every direction the rotation centre is the first
    control point (projected when rational). -/
theorem startPoint_of_clamped_shape {d : ℕ} {S : Shape K} (h : ShapeWF d S)
    (hc : ∀ i, i < S.pdim → ClampedOk (S.deg i) (fnOf (S.kv i)) (S.size i)) :
    startPoint S = if S.rat then project (ptsGet S.net 0) else ptsGet S.net 0 :=
  startPoint_clamped h hc

/-- **Any affine map of the coordinates** applied to the control points the way the library does it
    (`Shape.mapPts`: Cartesian part of every control point, weight kept) moves every evaluated point of the
    closed domain by that map – curves, surfaces and volumes, rational or not, through the span search. -/
theorem transformed_shape_point {d : ℕ} {S : Shape K} (h : ShapeWF d S) (f : List K → List K) (A : ℕ → ℕ → K)
    (b : ℕ → K) (hf : AffOn d f A b) (t : ℕ → K) (ht : S.InDom t) : (S.mapPts f).pointAt t = f (S.pointAt t) :=
  mapPts_pointAt h f A b hf t ht

/-- Rational shapes in homogeneous terms: the weight coordinate of the evaluated homogeneous point
    (`Shape.homAt`, the point before projection) is unchanged and positive, and the projected point moves
    by the map. -/
theorem transformed_rational_shape_point {d : ℕ} {S : Shape K} (h : ShapeWF d S) (hr : S.rat = true)
    (f : List K → List K) (A : ℕ → ℕ → K) (b : ℕ → K) (hf : AffOn d f A b) (t : ℕ → K) (ht : S.InDom t) :
    ((S.mapPts f).homAt t).getD d 0 = (S.homAt t).getD d 0 ∧ 0 < (S.homAt t).getD d 0 ∧
    project ((S.mapPts f).homAt t) = f (project (S.homAt t)) :=
  mapPts_homAt_rat h hr f A b hf t ht

/-- **`translate`, end to end**: every evaluated point of `translate S v` is the point of `S` plus `v`
    (`translatePt v pt = zipWith (+) pt v`, coordinatewise by `translatePt_getD`). -/
theorem translate_moves_every_point {d : ℕ} {S : Shape K} (h : ShapeWF d S) (v : List K) (hv : v.length = d)
    (t : ℕ → K) (ht : S.InDom t) : (translate S v).pointAt t = translatePt v (S.pointAt t) :=
  translate_pointAt h v hv t ht

/-- **`scale`, end to end**: every evaluated point of `scale S m` is `m` times the point of `S`
    (`scalePt m pt = pt.map (· * m)`). -/
theorem scale_moves_every_point {d : ℕ} {S : Shape K} (h : ShapeWF d S) (m : K)
    (t : ℕ → K) (ht : S.InDom t) : (scale S m).pointAt t = scalePt m (S.pointAt t) :=
  scale_pointAt h m t ht

/-- **`rotate`, end to end** (2-D and 3-D shapes, axis 0, 1 or 2 – for another value `operations.rotate` raises and
    the driver answers `ERR` –, ANY numbers `c`, `s`): every evaluated point of
    `rotate S axis c s` is the point of `S` moved by the model's rotation about the evaluated start point
    (`rotateAbout`: subtract the centre, apply the rotation formulas of the axis, add the centre). -/
theorem rotate_moves_every_point {d : ℕ} {S : Shape K} (h : ShapeWF d S) (hd : d = 2 ∨ d = 3) (axis : ℕ)
    (hax : axis ≤ 2) (c s : K) (t : ℕ → K) (ht : S.InDom t) :
    (rotate S axis c s).pointAt t = rotateAbout axis c s (startPoint S) (S.pointAt t) :=
  rotate_pointAt h hd axis c s t ht

/-- The rotation map in coordinates: `o + R (x − o)` with the rotation matrix `rotMat` of the axis
    (2-D points: always the z axis). -/
theorem rotation_map_coordinates (d : ℕ) (hd : d = 2 ∨ d = 3) (axis : ℕ) (hax : axis ≤ 2) (c s : K) (o pt : List K)
    (ho : o.length = d) (hpt : pt.length = d) (j : ℕ) (hj : j < d) :
    (rotateAbout axis c s o pt).getD j 0
      = o.getD j 0 + ∑ l ∈ range d, rotMat (if d = 2 then 2 else axis) c s j l * (pt.getD l 0 - o.getD l 0) :=
  rotateAbout_getD d hd axis c s o pt ho hpt j hj

/-- The centre stays where it is: the start point of the rotated shape is the start point of the
    original one (for any `c`, `s`). -/
theorem rotate_fixes_start_point {d : ℕ} {S : Shape K} (h : ShapeWF d S) (hd : d = 2 ∨ d = 3) (axis : ℕ)
    (hax : axis ≤ 2) (c s : K) :
    startPoint (rotate S axis c s) = startPoint S :=
  rotate_startPoint h hd axis c s

/-- The transformed shapes are again well-formed shapes with the same degrees, knot vectors and sizes
    (so the same domain). -/
theorem transforms_keep_wellformedness {d : ℕ} {S : Shape K} (h : ShapeWF d S) :
    (∀ v : List K, v.length = d → ShapeWF d (translate S v) ∧ (translate S v).kvs = S.kvs ∧
      (translate S v).degs = S.degs ∧ (translate S v).sizes = S.sizes ∧ (translate S v).rat = S.rat) ∧
    (∀ m : K, ShapeWF d (scale S m) ∧ (scale S m).kvs = S.kvs ∧ (scale S m).degs = S.degs ∧
      (scale S m).sizes = S.sizes ∧ (scale S m).rat = S.rat) ∧
    (∀ (axis : ℕ) (c s : K), axis ≤ 2 → d = 2 ∨ d = 3 → ShapeWF d (rotate S axis c s) ∧ (rotate S axis c s).kvs = S.kvs ∧
      (rotate S axis c s).degs = S.degs ∧ (rotate S axis c s).sizes = S.sizes ∧ (rotate S axis c s).rat = S.rat) :=
  ⟨fun v hv => ⟨translate_wf h v hv, rfl, rfl, rfl, rfl⟩, fun m => ⟨scale_wf h m, rfl, rfl, rfl, rfl⟩,
    fun axis c s _ hd => ⟨rotate_wf h hd axis c s, rfl, rfl, rfl, rfl⟩⟩

/-- **Weights unchanged** (rational shapes): the three transformations keep the number of control points
    and the weight coordinate of every homogeneous control point. -/
theorem transforms_keep_weights {d : ℕ} {S : Shape K} (h : ShapeWF d S) (hr : S.rat = true) :
    (∀ v : List K, v.length = d → (translate S v).net.length = S.net.length ∧
      ∀ i, i < S.net.length → (ptsGet (translate S v).net i).getD d 0 = (ptsGet S.net i).getD d 0) ∧
    (∀ m : K, (scale S m).net.length = S.net.length ∧
      ∀ i, i < S.net.length → (ptsGet (scale S m).net i).getD d 0 = (ptsGet S.net i).getD d 0) ∧
    (∀ (axis : ℕ) (c s : K), axis ≤ 2 → d = 2 ∨ d = 3 → (rotate S axis c s).net.length = S.net.length ∧
      ∀ i, i < S.net.length → (ptsGet (rotate S axis c s).net i).getD d 0 = (ptsGet S.net i).getD d 0) :=
  ⟨fun v hv => translate_weights h hr v hv, fun m => scale_weights h hr m,
    fun axis c s _ hd => rotate_weights h hr hd axis c s⟩

/-! ### the same, spelled out per kind of shape in terms of `curvePoint` / `surfacePoint` / `volumePoint`
    (`crvEval S u`, `surfEval S u v`, `volEval S u v w` are these functions on the shape's degrees, knot
    functions, sizes and net) -/

/-- **Non-rational curves**, every parameter of the closed domain. -/
theorem curve_transforms_end_to_end {d : ℕ} {S : Shape K} (h : ShapeWF d S) (h1 : S.pdim = 1) (hr : S.rat = false) (u : K)
    (hu1 : fnOf (S.kv 0) (S.deg 0) ≤ u) (hu2 : u ≤ fnOf (S.kv 0) (S.size 0)) :
    (∀ v : List K, v.length = d → curvePoint (S.deg 0) (fnOf (S.kv 0)) (translate S v).net u
        = translatePt v (curvePoint (S.deg 0) (fnOf (S.kv 0)) S.net u)) ∧
    (∀ m : K, curvePoint (S.deg 0) (fnOf (S.kv 0)) (scale S m).net u
        = scalePt m (curvePoint (S.deg 0) (fnOf (S.kv 0)) S.net u)) ∧
    (∀ (axis : ℕ) (c s : K), axis ≤ 2 → d = 2 ∨ d = 3 → curvePoint (S.deg 0) (fnOf (S.kv 0)) (rotate S axis c s).net u
        = rotateAbout axis c s (startPoint S) (curvePoint (S.deg 0) (fnOf (S.kv 0)) S.net u)) :=
  ⟨(curve_transforms h h1 hr u hu1 hu2).1, (curve_transforms h h1 hr u hu1 hu2).2.1,
   fun axis c s _ hd => (curve_transforms h h1 hr u hu1 hu2).2.2 axis c s hd⟩

/-- **Rational curves** (positive weights): the projected points. -/
theorem rational_curve_transforms_end_to_end {d : ℕ} {S : Shape K} (h : ShapeWF d S) (h1 : S.pdim = 1) (hr : S.rat = true)
    (u : K) (hu1 : fnOf (S.kv 0) (S.deg 0) ≤ u) (hu2 : u ≤ fnOf (S.kv 0) (S.size 0)) :
    (∀ v : List K, v.length = d → project (curvePoint (S.deg 0) (fnOf (S.kv 0)) (translate S v).net u)
        = translatePt v (project (curvePoint (S.deg 0) (fnOf (S.kv 0)) S.net u))) ∧
    (∀ m : K, project (curvePoint (S.deg 0) (fnOf (S.kv 0)) (scale S m).net u)
        = scalePt m (project (curvePoint (S.deg 0) (fnOf (S.kv 0)) S.net u))) ∧
    (∀ (axis : ℕ) (c s : K), axis ≤ 2 → d = 2 ∨ d = 3 → project (curvePoint (S.deg 0) (fnOf (S.kv 0)) (rotate S axis c s).net u)
        = rotateAbout axis c s (startPoint S) (project (curvePoint (S.deg 0) (fnOf (S.kv 0)) S.net u))) :=
  ⟨(rational_curve_transforms h h1 hr u hu1 hu2).1, (rational_curve_transforms h h1 hr u hu1 hu2).2.1,
   fun axis c s _ hd => (rational_curve_transforms h h1 hr u hu1 hu2).2.2 axis c s hd⟩

/-- **Non-rational surfaces**, every parameter pair of the closed domain rectangle. -/
theorem surface_transforms_end_to_end {d : ℕ} {S : Shape K} (h : ShapeWF d S) (h2 : S.pdim = 2) (hr : S.rat = false) (u v : K)
    (hu1 : fnOf (S.kv 0) (S.deg 0) ≤ u) (hu2 : u ≤ fnOf (S.kv 0) (S.size 0))
    (hv1 : fnOf (S.kv 1) (S.deg 1) ≤ v) (hv2 : v ≤ fnOf (S.kv 1) (S.size 1)) :
    (∀ vec : List K, vec.length = d → surfEval (translate S vec) u v = translatePt vec (surfEval S u v)) ∧
    (∀ m : K, surfEval (scale S m) u v = scalePt m (surfEval S u v)) ∧
    (∀ (axis : ℕ) (c s : K), axis ≤ 2 → d = 2 ∨ d = 3 →
      surfEval (rotate S axis c s) u v = rotateAbout axis c s (startPoint S) (surfEval S u v)) :=
  ⟨(surface_transforms h h2 hr u v hu1 hu2 hv1 hv2).1, (surface_transforms h h2 hr u v hu1 hu2 hv1 hv2).2.1,
   fun axis c s _ hd => (surface_transforms h h2 hr u v hu1 hu2 hv1 hv2).2.2 axis c s hd⟩

/-- **Rational surfaces** (positive weights): the projected points. -/
theorem rational_surface_transforms_end_to_end {d : ℕ} {S : Shape K} (h : ShapeWF d S) (h2 : S.pdim = 2) (hr : S.rat = true)
    (u v : K) (hu1 : fnOf (S.kv 0) (S.deg 0) ≤ u) (hu2 : u ≤ fnOf (S.kv 0) (S.size 0))
    (hv1 : fnOf (S.kv 1) (S.deg 1) ≤ v) (hv2 : v ≤ fnOf (S.kv 1) (S.size 1)) :
    (∀ vec : List K, vec.length = d →
      project (surfEval (translate S vec) u v) = translatePt vec (project (surfEval S u v))) ∧
    (∀ m : K, project (surfEval (scale S m) u v) = scalePt m (project (surfEval S u v))) ∧
    (∀ (axis : ℕ) (c s : K), axis ≤ 2 → d = 2 ∨ d = 3 →
      project (surfEval (rotate S axis c s) u v) = rotateAbout axis c s (startPoint S) (project (surfEval S u v))) :=
  ⟨(rational_surface_transforms h h2 hr u v hu1 hu2 hv1 hv2).1, (rational_surface_transforms h h2 hr u v hu1 hu2 hv1 hv2).2.1,
   fun axis c s _ hd => (rational_surface_transforms h h2 hr u v hu1 hu2 hv1 hv2).2.2 axis c s hd⟩

/-- **Non-rational volumes**, every parameter triple of the closed domain box. -/
theorem volume_transforms_end_to_end {d : ℕ} {S : Shape K} (h : ShapeWF d S) (h3 : S.pdim = 3) (hr : S.rat = false) (u v w : K)
    (hu1 : fnOf (S.kv 0) (S.deg 0) ≤ u) (hu2 : u ≤ fnOf (S.kv 0) (S.size 0))
    (hv1 : fnOf (S.kv 1) (S.deg 1) ≤ v) (hv2 : v ≤ fnOf (S.kv 1) (S.size 1))
    (hw1 : fnOf (S.kv 2) (S.deg 2) ≤ w) (hw2 : w ≤ fnOf (S.kv 2) (S.size 2)) :
    (∀ vec : List K, vec.length = d → volEval (translate S vec) u v w = translatePt vec (volEval S u v w)) ∧
    (∀ m : K, volEval (scale S m) u v w = scalePt m (volEval S u v w)) ∧
    (∀ (axis : ℕ) (c s : K), axis ≤ 2 → d = 2 ∨ d = 3 →
      volEval (rotate S axis c s) u v w = rotateAbout axis c s (startPoint S) (volEval S u v w)) :=
  ⟨(volume_transforms h h3 hr u v w hu1 hu2 hv1 hv2 hw1 hw2).1, (volume_transforms h h3 hr u v w hu1 hu2 hv1 hv2 hw1 hw2).2.1,
   fun axis c s _ hd => (volume_transforms h h3 hr u v w hu1 hu2 hv1 hv2 hw1 hw2).2.2 axis c s hd⟩

/-- **Rational volumes** (positive weights): the projected points. -/
theorem rational_volume_transforms_end_to_end {d : ℕ} {S : Shape K} (h : ShapeWF d S) (h3 : S.pdim = 3) (hr : S.rat = true)
    (u v w : K) (hu1 : fnOf (S.kv 0) (S.deg 0) ≤ u) (hu2 : u ≤ fnOf (S.kv 0) (S.size 0))
    (hv1 : fnOf (S.kv 1) (S.deg 1) ≤ v) (hv2 : v ≤ fnOf (S.kv 1) (S.size 1))
    (hw1 : fnOf (S.kv 2) (S.deg 2) ≤ w) (hw2 : w ≤ fnOf (S.kv 2) (S.size 2)) :
    (∀ vec : List K, vec.length = d →
      project (volEval (translate S vec) u v w) = translatePt vec (project (volEval S u v w))) ∧
    (∀ m : K, project (volEval (scale S m) u v w) = scalePt m (project (volEval S u v w))) ∧
    (∀ (axis : ℕ) (c s : K), axis ≤ 2 → d = 2 ∨ d = 3 →
      project (volEval (rotate S axis c s) u v w)
        = rotateAbout axis c s (startPoint S) (project (volEval S u v w))) :=
  ⟨(rational_volume_transforms h h3 hr u v w hu1 hu2 hv1 hv2 hw1 hw2).1, (rational_volume_transforms h h3 hr u v w hu1 hu2 hv1 hv2 hw1 hw2).2.1,
   fun axis c s _ hd => (rational_volume_transforms h h3 hr u v w hu1 hu2 hv1 hv2 hw1 hw2).2.2 axis c s hd⟩

/-! ### any finite sequence of calls
    `Xform K`: one call (`translate v`, `scale m`, `rotate axis c s`); `x.apply S` is the model function applied
    to `S`; `applyAll S xs` applies the calls in order; `x.ptMap S` is what the call does to a point of `S`
    (`translatePt v`, `scalePt m`, `rotateAbout axis c s (startPoint S)`); `ptMapAll S xs` composes these,
    each taken at the shape it is applied to; `x.Ok d`: the vector has `d` entries / rotations need `d ∈ {2,3}` and
    `axis ≤ 2`. -/

/-- **Composition**: after any finite sequence of the three transformations every evaluated point of the
    closed domain is the original point moved by the composed point map. -/
theorem sequence_moves_every_point {d : ℕ} (xs : List (Xform K)) {S : Shape K} (h : ShapeWF d S)
    (hx : ∀ x ∈ xs, x.Ok d) (t : ℕ → K) (ht : S.InDom t) :
    (applyAll S xs).pointAt t = ptMapAll S xs (S.pointAt t) :=
  applyAll_pointAt xs h hx t ht

/-- The composed point map is one affine map `x ↦ A x + b` of the coordinates. -/
theorem sequence_map_is_affine {d : ℕ} (xs : List (Xform K)) {S : Shape K} (h : ShapeWF d S) (hx : ∀ x ∈ xs, x.Ok d) :
    ∃ A b, AffOn d (ptMapAll S xs) A b :=
  ptMapAll_affOn xs h hx

/-- The centre of a further rotation (the start point of the shape after the sequence) is the image of the
    original start point under the composed map; the result is a well-formed shape. -/
theorem sequence_start_point {d : ℕ} (xs : List (Xform K)) {S : Shape K} (h : ShapeWF d S) (hx : ∀ x ∈ xs, x.Ok d) :
    startPoint (applyAll S xs) = ptMapAll S xs (startPoint S) ∧ ShapeWF d (applyAll S xs) :=
  ⟨applyAll_startPoint xs h hx, applyAll_wf xs h hx⟩

/-- A sequence of calls changes neither the rational flag nor degrees, knot vectors, sizes, and – for a
    rational shape – keeps the weight of every control point. -/
theorem sequence_keeps_knots_and_weights {d : ℕ} (xs : List (Xform K)) {S : Shape K} (h : ShapeWF d S)
    (hx : ∀ x ∈ xs, x.Ok d) :
    ((applyAll S xs).rat = S.rat ∧ (applyAll S xs).degs = S.degs ∧ (applyAll S xs).kvs = S.kvs ∧
      (applyAll S xs).sizes = S.sizes) ∧
    (S.rat = true → (applyAll S xs).net.length = S.net.length ∧
      ∀ i, i < S.net.length → (ptsGet (applyAll S xs).net i).getD d 0 = (ptsGet S.net i).getD d 0) :=
  ⟨applyAll_same xs S, fun hr => applyAll_weights xs h hr hx⟩

/-! ### non-vacuity -/

-- the witness `exSurf` (rational surface, degrees 2×1, sizes 3×2, UNCLAMPED in u: domain `[2,3] × [0,1]`, the
-- start point is not a control point; weights 1,2,1,3,1,2), its well-formedness `exSurf_wf` and the parameter
-- pair `exT = (5/2, 1/3)` with `exT_inDom` are in `Lemmas/AffineAssembleWitness.lean`

/-- non-vacuity of `rotate_moves_every_point` (and of `ShapeWF`, `InDom`): axis 1, `c = 3/5`, `s = 4/5` -/
example : (rotate exSurf 1 (3/5) (4/5)).pointAt exT = rotateAbout 1 (3/5) (4/5) (startPoint exSurf) (exSurf.pointAt exT) :=
  rotate_moves_every_point exSurf_wf (Or.inr rfl) 1 (by omega) (3/5) (4/5) exT exT_inDom

/-- … and the two sides are the concrete point `(-48/95, 15/19, 111/95)`; the centre is `(0, 1/2, 0)` -/
example : (rotate exSurf 1 (3/5) (4/5)).pointAt exT = [-48/95, 15/19, 111/95] ∧ startPoint exSurf = [0, 1/2, 0] := by
  decide +kernel

/-- non-vacuity of the sequence theorems: rotate, translate, scale, rotate about another axis, translate -/
example : (applyAll exSurf [.rotate 1 (3/5) (4/5), .translate [1,-2,1/2], .scale (-2), .rotate 0 (1/3) 2, .translate [0,0,1]]).pointAt exT
    = ptMapAll exSurf [.rotate 1 (3/5) (4/5), .translate [1,-2,1/2], .scale (-2), .rotate 0 (1/3) 2, .translate [0,0,1]]
        (exSurf.pointAt exT) :=
  sequence_moves_every_point _ exSurf_wf
    (by intro x hx; simp at hx; rcases hx with rfl|rfl|rfl|rfl|rfl <;> simp [Xform.Ok]) exT exT_inDom

/-- non-vacuity of `startPoint_of_clamped_shape`: the rational volume `exVol` is clamped in all directions -/
example : startPoint exVol = project (ptsGet exVol.net 0) := by
  have hk : KnotsOk 1 (fnOf ([0,0,1,1] : List ℚ)) 2 :=
    knotsOk_of_sorted 1 _ 2 (by decide +kernel) (by omega) (by decide +kernel)
  have hcl : ClampedOk 1 (fnOf ([0,0,1,1] : List ℚ)) 2 := by
    refine ⟨fun i h1 h2 => ?_, fun i h1 h2 => ?_, by decide +kernel⟩
    · have : i = 1 := by omega
      subst this; rfl
    · have : i = 2 := by omega
      subst this; rfl
  have hwf : ShapeWF 3 exVol := by
    refine ⟨Or.inr (Or.inr rfl), ?_, rfl, ?_, ?_, ?_, ?_⟩
    · intro i hi
      have hi' : i < 3 := hi
      rcases i with _ | _ | _ | i
      · exact hk
      · exact hk
      · exact hk
      · omega
    · show NetOk 4 exVol.net
      intro pt hpt; simp [exVol] at hpt; rcases hpt with h|h|h|h|h|h|h|h <;> simp [h]
    · intro _ pt hpt; simp [exVol] at hpt; rcases hpt with h|h|h|h|h|h|h|h <;> simp [h]
    · intro i hi
      have hi' : i < 3 := hi
      rcases i with _ | _ | _ | i
      · rfl
      · rfl
      · rfl
      · omega
    · intro i hi
      have hi' : i < 3 := hi
      rcases i with _ | _ | _ | i
      · decide
      · decide
      · decide
      · omega
  have := startPoint_of_clamped_shape hwf (by
    intro i hi
    have hi' : i < 3 := hi
    rcases i with _ | _ | _ | i
    · exact hcl
    · exact hcl
    · exact hcl
    · omega)
  simpa [exVol] using this

/-! ## CONTAINERS (`multi.CurveContainer / SurfaceContainer / VolumeContainer`)

    `operations.translate / scale / rotate` run `for g in geom` over the elements; `rotate` takes ONE origin – the
    evaluated start point of the FIRST element, `geom[0].evaluate_single(domain starts)` – and rotates every element
    about it.  Model: a container is the list of its elements; `translateAll`, `scaleAll`, `rotateAll`
    (`Model/Transform.lean`; driver op `xformc`), `rotateAt S o axis c s` = one call of the inner
    `rotate_x / rotate_y / rotate_z (ncs, opt, alpha)` about the given point `o`. -/

/-- **Rotation of a shape about an arbitrary given point** `o` (with as many coordinates as the shape's points; 2-D and
    3-D, axis 0, 1 or 2, ANY numbers `c`, `s`), end to end: every evaluated point of the closed domain moves by
    `rotateAbout axis c s o` (subtract `o`, apply the rotation formulas, add `o`; coordinates: `rotation_map_coordinates`),
    rational shapes with positive weights included. -/
theorem rotate_about_point {d : ℕ} {S : Shape K} (h : ShapeWF d S) (hd : d = 2 ∨ d = 3) (o : List K) (ho : o.length = d)
    (axis : ℕ) (hax : axis ≤ 2) (c s : K) (t : ℕ → K) (ht : S.InDom t) :
    (rotateAt S o axis c s).pointAt t = rotateAbout axis c s o (S.pointAt t) :=
  rotateAt_pointAt h hd o ho axis c s t ht

/-- The per-shape `rotate` is the rotation about the shape's own start point.  (Definitional, `rfl`.) -/
theorem rotate_is_rotation_about_own_start_point (S : Shape K) (axis : ℕ) (c s : K) :
    rotate S axis c s = rotateAt S (startPoint S) axis c s :=
  rotate_eq_rotateAt S axis c s

/-- The rotation about a point is one affine map of the coordinates. -/
theorem rotation_about_point_is_affine (d : ℕ) (hd : d = 2 ∨ d = 3) (axis : ℕ) (hax : axis ≤ 2) (c s : K) (o : List K)
    (ho : o.length = d) : ∃ A b, AffOn d (rotateAbout axis c s o) A b :=
  rotateAbout_affOn d hd axis c s o ho

/-- What "the element `S` was moved to `R` by the point map `f`" (`ElemMoved d f S R`) says: `R` is a well-formed shape
    with the same rational flag, degrees, knot vectors and sizes (hence the same domain); if `S` is rational every
    control point keeps its weight; and EVERY evaluated point of the closed domain of `S` is mapped by `f`.
    (Unfolding lemma, `Iff.rfl`.) -/
theorem elemMoved_means (d : ℕ) (f : List K → List K) (S R : Shape K) :
    ElemMoved d f S R ↔
      (ShapeWF d R ∧ (R.rat = S.rat ∧ R.degs = S.degs ∧ R.kvs = S.kvs ∧ R.sizes = S.sizes) ∧
       (S.rat = true → R.net.length = S.net.length ∧
          ∀ i, i < S.net.length → (ptsGet R.net i).getD d 0 = (ptsGet S.net i).getD d 0) ∧
       ∀ t : ℕ → K, S.InDom t → R.pointAt t = f (S.pointAt t)) :=
  Iff.rfl

/-- **`translate` on a container**: when the call succeeds (`some Rs`: the container is not empty) the result has as
    many elements, and the `i`-th one is the `i`-th input element with every evaluated point moved by the SAME
    translation `translatePt v` – elements of any kind, degrees and sizes, rational (positive weights) and not, mixed. -/
theorem container_translate_moves_every_point {d : ℕ} {Ss Rs : List (Shape K)} (hw : ∀ S ∈ Ss, ShapeWF d S)
    (v : List K) (hv : v.length = d) (hR : translateAll Ss v = some Rs) :
    Rs.length = Ss.length ∧
    ∀ (i : ℕ) (S R : Shape K), Ss[i]? = some S → Rs[i]? = some R → ElemMoved d (translatePt v) S R :=
  translateAll_moved hw v hv hR

/-- **`scale` on a container**: every element, every evaluated point, the same scaling `scalePt m`. -/
theorem container_scale_moves_every_point {d : ℕ} {Ss : List (Shape K)} (hw : ∀ S ∈ Ss, ShapeWF d S) (m : K) :
    (scaleAll Ss m).length = Ss.length ∧
    ∀ (i : ℕ) (S R : Shape K), Ss[i]? = some S → (scaleAll Ss m)[i]? = some R → ElemMoved d (scalePt m) S R :=
  scaleAll_moved hw m

/-- **`rotate` on a container** (2-D / 3-D, axis 0, 1 or 2, any `c`, `s`): when the call succeeds there is a first
    element `S0`, and every evaluated point of EVERY element is moved by the ONE map `rotateAbout axis c s (startPoint S0)`
    – the rotation about the evaluated start point of the first element, not about each element's own start point. -/
theorem container_rotate_moves_every_point {d : ℕ} {Ss Rs : List (Shape K)} (hw : ∀ S ∈ Ss, ShapeWF d S)
    (hd : d = 2 ∨ d = 3) (axis : ℕ) (hax : axis ≤ 2) (c s : K) (hR : rotateAll Ss axis c s = some Rs) :
    ∃ S0, Ss.head? = some S0 ∧ Rs.length = Ss.length ∧
    ∀ (i : ℕ) (S R : Shape K), Ss[i]? = some S → Rs[i]? = some R →
      ElemMoved d (rotateAbout axis c s (startPoint S0)) S R :=
  rotateAll_moved hw hd axis c s hR

/-- The first element of a rotated container is the per-shape `rotate` of the first element, and the common centre
    stays where it is: it is again the start point of the first element of the result. -/
theorem container_rotate_first_element {d : ℕ} {Ss Rs : List (Shape K)} (hw : ∀ S ∈ Ss, ShapeWF d S)
    (hd : d = 2 ∨ d = 3) (axis : ℕ) (hax : axis ≤ 2) (c s : K) (hR : rotateAll Ss axis c s = some Rs) :
    ∃ S0 R0, Ss.head? = some S0 ∧ Rs.head? = some R0 ∧ R0 = rotate S0 axis c s ∧ startPoint R0 = startPoint S0 :=
  rotateAll_head hw hd axis c s hR

/-- **The empty container**: `translate` raises (the container's `dimension` is 0, every vector is refused) and `rotate`
    raises (`geom[0]`: IndexError) – the model answers `none`, the driver `ERR` –, `scale` returns an empty container;
    a non-empty container is never refused by the model functions (the vector-length / axis checks are the guards
    `v.length = d`, `axis ≤ 2` of the theorems above, `ERR` in the driver). -/
theorem empty_container (Ss : List (Shape K)) (v : List K) (m : K) (axis : ℕ) (c s : K) :
    translateAll ([] : List (Shape K)) v = none ∧ scaleAll ([] : List (Shape K)) m = [] ∧
    rotateAll ([] : List (Shape K)) axis c s = none ∧
    ((translateAll Ss v).isSome ↔ Ss ≠ []) ∧ ((rotateAll Ss axis c s).isSome ↔ Ss ≠ []) :=
  ⟨rfl, rfl, rfl, translateAll_isSome Ss v, rotateAll_isSome Ss axis c s⟩

/-- A container of one element behaves as the single shape.  (Definitional, `rfl`.) -/
theorem container_of_one_element (S : Shape K) (v : List K) (m : K) (axis : ℕ) (c s : K) :
    translateAll [S] v = some [translate S v] ∧ scaleAll [S] m = [scale S m] ∧
    rotateAll [S] axis c s = some [rotate S axis c s] :=
  all_singleton S v m axis c s

-- witness (in `Lemmas/AffineContainer.lean`): the two-element surface container `[exSurf, exSurfB]` – the rational,
-- u-unclamped `exSurf` (degrees 2×1, sizes 3×2) first, then the non-rational `exSurfB` (degrees 1×2, sizes 2×3, domain
-- `[0,1] × [0,2]`), `exPair_wf`; parameter pair `exTB = (1/4, 3/2)` of the second element, `exTB_inDom`

/-- non-vacuity of `container_rotate_moves_every_point`: axis 1, `c = 3/5`, `s = 4/5`; the SECOND element is rotated about
    the start point of the FIRST -/
example (Rs : List (Shape ℚ)) (R : Shape ℚ) (hR : rotateAll [exSurf, exSurfB] 1 (3/5) (4/5) = some Rs) (h1 : Rs[1]? = some R) :
    R.pointAt exTB = rotateAbout 1 (3/5) (4/5) (startPoint exSurf) (exSurfB.pointAt exTB) := by
  obtain ⟨S0, h0, _, hall⟩ := container_rotate_moves_every_point exPair_wf (Or.inr rfl) 1 (by omega) (3/5) (4/5) hR
  simp only [List.head?_cons, Option.some.injEq] at h0
  subst h0
  exact (hall 1 exSurfB R rfl h1).2.2.2 exTB exTB_inDom

/-- … concretely: the call succeeds with two elements, the common centre is `(0, 1/2, 0)` (not the start point
    `(1, 0, 0)` of the second element), and the point of the second element at `(1/4, 3/2)` goes where that
    rotation sends it, which is NOT where the per-shape `rotate` of the second element alone would send it -/
example : ∃ R0 R1, rotateAll [exSurf, exSurfB] 1 (3/5) (4/5) = some [R0, R1] ∧ startPoint exSurf = [0, 1/2, 0] ∧
    startPoint exSurfB = [1, 0, 0] ∧ R1.pointAt exTB = rotateAbout 1 (3/5) (4/5) [0, 1/2, 0] (exSurfB.pointAt exTB) ∧
    R1.pointAt exTB ≠ (rotate exSurfB 1 (3/5) (4/5)).pointAt exTB :=
  ⟨_, _, rfl, by decide +kernel, by decide +kernel, by decide +kernel, by decide +kernel⟩

/-- non-vacuity of `container_translate_moves_every_point` / `container_scale_moves_every_point` on the same container -/
example : (∀ Rs R, translateAll [exSurf, exSurfB] [1, -2, 1/2] = some Rs → Rs[1]? = some R →
      R.pointAt exTB = translatePt [1, -2, 1/2] (exSurfB.pointAt exTB)) ∧
    (∀ R, (scaleAll [exSurf, exSurfB] (-3/2))[0]? = some R → R.pointAt exT = scalePt (-3/2) (exSurf.pointAt exT)) :=
  ⟨fun Rs R hR h1 => ((container_translate_moves_every_point exPair_wf _ rfl hR).2 1 exSurfB R rfl h1).2.2.2 exTB exTB_inDom,
   fun R h0 => ((container_scale_moves_every_point exPair_wf _).2 0 exSurf R rfl h0).2.2.2 exT exT_inDom⟩

end C10
