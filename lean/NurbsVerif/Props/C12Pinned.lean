import NurbsVerif.Lemmas.Effects

/-!
# C12 – refutations of the pinned code (kept only while the defects are unrepaired in /repo)

The paths below are what harness/effects.py extracts from the *pinned* sources.  They do not depend on
`Gen/Effects.lean`, so they stay checkable after the repair (they then document what was wrong).

* F-12a  `abstract.Curve.reverse`: `self._control_points = …; self._knot_vector[0] = …; self.reset(evalpts=True)`
* F-12d  `multi.SurfaceContainer.delta_u` (and `delta_v`, `sample_size_u/v`, the same six of
  `VolumeContainer`): `self._delta[idx] = …` and nothing else.
-/
namespace C12Pinned
open Eff

def reversePinned : List Ev := [.write .net, .write .knots, .clear .evalpts]
def nurbsCurveCaches : List Cch := [.evalpts, .bbox, .cpCache, .wCache]

/-- F-12a: the pinned `reverse` of a NURBS curve fails the path check …
    (Closed witness check: a statement about this one concrete input, decided by evaluation.) -/
theorem reverse_pinned_stale : pathOkOn nurbsCurveCaches reversePinned = false := by decide

/-- … concretely: starting with the unweighted-points cache filled (a `ctrlpts` read), it is stale afterwards -/
theorem reverse_pinned_witness :
    absRun reversePinned (fun c => if c = .cpCache then .fresh else .empty) .cpCache = .stale := by decide

/-- the repaired `reverse` (`self.set_ctrlpts(list(reversed(…)))` first) passes
    (Closed witness check: a statement about this one concrete input, decided by evaluation.) -/
theorem reverse_repaired_ok : pathOkOn nurbsCurveCaches
    [.write .net, .clear .bbox, .clear .evalpts, .clear .cpCache, .clear .wCache, .write .net, .write .sizes,
     .write .knots, .clear .evalpts] = true := by decide

def containerDeltaUPinned : List Ev := [.write .delta]
def surfContainerCaches : List Cch := [.cEval, .cVerts, .cFaces]

/-- F-12d: the per-direction delta / sample-size setters of the containers fail the path check …
    (Closed witness check: a statement about this one concrete input, decided by evaluation.) -/
theorem container_delta_u_pinned_stale : pathOkOn surfContainerCaches containerDeltaUPinned = false := by decide

/-- … and pass with the `reset()` their sibling setters `delta` / `sample_size` perform
    (Closed witness check: a statement about this one concrete input, decided by evaluation.) -/
theorem container_delta_u_repaired_ok : pathOkOn surfContainerCaches
    [.write .delta, .clear .cEval, .clear .cVerts, .clear .cFaces] = true := by decide

end C12Pinned
