import NurbsVerif.Lemmas.Degree
import NurbsVerif.Lemmas.DegreeReduce
import NurbsVerif.Lemmas.DegreeCompose
import NurbsVerif.Lemmas.DegreeBasis

/-!
# C08  Degree elevation preserves a Bézier shape and reduction inverts it

Property theorems only (helper lemmas live in `Lemmas/Degree.lean`, `Lemmas/DegreeReduce.lean`,
`Lemmas/Elevate.lean`).  `K` is any field of characteristic 0 (ℚ – hence every finite double – ℝ, …).
The model functions (`Model/Degree.lean`) are the ones the correspondence check runs against
`helpers.degree_elevation`, `helpers.degree_reduction`, `linalg.binomial_coefficient`;
`degreeReduction` mirrors the REPAIRED second sweep (finding F-08), `degreeReductionPinned` the
pinned one.

A control polygon is a list of points, a point a list of coordinates (Cartesian or homogeneous –
the routines treat all coordinates alike); `Rect d P` says that every point has `d` coordinates.
"The same curve" is equality of the Bernstein form `bernsteinEval P u = Σ_i B_{i,n}(u)·P_i` for
every parameter `u`.  A row of `m` points of dimension `dim` is one point with `m·dim` coordinates
(`List.flatten`), which is the only way the helper accepts rows.
-/
namespace C08
open Geomdl
variable {K : Type} [Field K] [CharZero K]

/-- `linalg.binomial_coefficient(k, i)` is the binomial coefficient `C(k, i)` for all `k`, `i`
    (0 for `i > k`; the integer division `k! / ((k-i)!·i!)` is exact). -/
theorem binomialCoefficient_eq_choose (k i : ℕ) : binomialCoefficient k i = Nat.choose k i :=
  Geomdl.binomialCoefficient_eq_choose k i

/-- Elevating a Bézier polygon of any degree `p` by any amount `t` yields control points that define
    exactly the same curve: the Bernstein forms agree at every parameter, in every coordinate. -/
theorem degreeElevation_same_curve (p t : ℕ) (P : List (List K)) (d : ℕ) (hlen : P.length = p + 1)
    (hr : Rect d P) (u : K) :
    bernsteinEval (degreeElevation p t P) u = bernsteinEval P u :=
  bernsteinEval_degreeElevation p t P d hlen hr u

/-- Both end points are unchanged by elevation. -/
theorem degreeElevation_endpoints (p t : ℕ) (P : List (List K)) (d : ℕ) (hlen : P.length = p + 1)
    (hr : Rect d P) :
    (degreeElevation p t P).getD 0 [] = P.getD 0 [] ∧
    (degreeElevation p t P).getD (p + t) [] = P.getD p [] :=
  ⟨degreeElevation_first p t P d hlen hr, degreeElevation_last p t P d hlen hr⟩

/-- The elevated polygon has `p + 1 + t` points of the same dimension. -/
theorem degreeElevation_shape (p t : ℕ) (P : List (List K)) (d : ℕ) (hlen : P.length = p + 1)
    (hr : Rect d P) :
    (degreeElevation p t P).length = p + 1 + t ∧ Rect d (degreeElevation p t P) :=
  ⟨degreeElevation_length p t P, degreeElevation_rect p t P d hlen hr⟩

/-- Rows of points: a net given as `p+1` rows of `m` points of dimension `dim` each, passed with
    every row flattened to one point, is elevated to a net that defines the same curve in every
    coordinate of every column. -/
theorem degreeElevation_rows_same_curve (p t m dim : ℕ) (rows : List (List (List K)))
    (hlen : rows.length = p + 1) (hm : ∀ row ∈ rows, row.length = m)
    (hdim : ∀ row ∈ rows, ∀ pt ∈ row, pt.length = dim) (u : K) :
    bernsteinEval (degreeElevation p t (rows.map List.flatten)) u = bernsteinEval (rows.map List.flatten) u := by
  apply bernsteinEval_degreeElevation p t _ (m * dim) (by simpa using hlen)
  intro pt hpt
  rw [List.mem_map] at hpt
  obtain ⟨row, hrow, rfl⟩ := hpt
  rw [List.length_flatten, List.map_congr_left (g := fun _ => dim) (fun x hx => hdim row hrow x hx),
    List.map_const', List.sum_replicate_nat, hm row hrow]

/-- Elevation is rejected exactly for a non-Bézier number of control points or a non-positive
    count, otherwise the routine runs.
    (Unfolding lemma: the guards of the checked model evaluated (they mirror the `GeomdlException`s of `helpers.degree_elevation`).) -/
theorem degreeElevation_rejects (p : ℕ) (num : ℤ) (P : List (List K)) :
    (degreeElevationChecked p num P = none ↔ (P.length ≠ p + 1 ∨ num ≤ 0)) ∧
    (P.length = p + 1 → 0 < num → degreeElevationChecked p num P = some (degreeElevation p num.toNat P)) := by
  unfold degreeElevationChecked degreeElevationOk
  constructor
  · by_cases h1 : p + 1 = P.length <;> by_cases h2 : 0 < num <;> simp [h1, h2] <;> omega
  · intro h1 h2; simp [h1, h2]

/-- Reduction is rejected exactly for a non-Bézier number of control points or a degree below 2.
    (Unfolding lemma: the guards of the checked model evaluated.) -/
theorem degreeReduction_rejects (n : ℕ) (Q : List (List K)) :
    (degreeReductionChecked n Q = none ↔ (Q.length ≠ n + 1 ∨ n < 2)) ∧
    (Q.length = n + 1 → 2 ≤ n → degreeReductionChecked n Q = some (degreeReduction n Q)) := by
  unfold degreeReductionChecked degreeReductionOk
  constructor
  · by_cases h1 : n + 1 = Q.length <;> by_cases h2 : 2 ≤ n <;> simp [h1, h2] <;> omega
  · intro h1 h2; simp [h1, h2]

/-- Reduction returns `degree` control points. -/
theorem degreeReduction_length (n : ℕ) (Q : List (List K)) : (degreeReduction n Q).length = n :=
  Geomdl.degreeReduction_length n Q

/-- **Reduction inverts elevation** (repaired routine): for every degree `p ≥ 1`, every dimension and
    every control polygon, reducing the polygon elevated by one returns the original control
    points exactly – through the checked entry points, so neither call is rejected. -/
theorem degreeReduction_inverts_elevation (p : ℕ) (hp : 1 ≤ p) (P : List (List K)) (d : ℕ)
    (hlen : P.length = p + 1) (hr : Rect d P) :
    (degreeElevationChecked p 1 P).bind (degreeReductionChecked (p + 1)) = some P := by
  rw [(degreeElevation_rejects p 1 P).2 hlen (by omega)]
  simp only [Option.bind_some]
  rw [(degreeReduction_rejects (p + 1) _).2 (by rw [degreeElevation_length]; rfl) (by omega)]
  exact congrArg some (degreeReduction_degreeElevation p hp P d hlen hr)

/-- Elevation by `t + 1` is elevation by `t` followed by elevation by one (so "an exact elevation"
    by any count is an iterated elevation by one). -/
theorem degreeElevation_compose (p t : ℕ) (P : List (List K)) (d : ℕ) (hlen : P.length = p + 1)
    (hr : Rect d P) :
    degreeElevation (p + t) 1 (degreeElevation p t P) = degreeElevation p (t + 1) P :=
  Geomdl.degreeElevation_compose p t P d hlen hr

/-- **Reduction inverts elevation by any positive count**: for every degree `p ≥ 1` and every count
    `t = s + 1 ≥ 1`, `t` successive reductions of the polygon elevated by `t` return the original
    control points, and none of the calls is rejected (repaired routine). -/
theorem degreeReduction_inverts_elevation_any_count (p : ℕ) (hp : 1 ≤ p) (P : List (List K)) (d : ℕ)
    (hlen : P.length = p + 1) (hr : Rect d P) (s : ℕ) :
    degreeReduceTimes (s + 1) (p + (s + 1)) (degreeElevation p (s + 1) P) = some P :=
  degreeReduceTimes_degreeElevation p hp P d hlen hr s

/-- F-08: the PINNED `degree_reduction` does not invert elevation at degree 5 – elevating the
    quartic polygon (1),(2),(4),(8),(16) once and reducing it does not give the polygon back
    (the second sweep `range(degree - 2, r1 + 2)` is empty, point 3 stays zero and spoils the
    averaged middle point).  The repaired routine returns the input on the same witness. -/
theorem degreeReductionPinned_refutes_inverse :
    degreeReductionPinned 5 (degreeElevation 4 1 ([[1], [2], [4], [8], [16]] : List (List Rat)))
      ≠ [[1], [2], [4], [8], [16]] ∧
    degreeReduction 5 (degreeElevation 4 1 ([[1], [2], [4], [8], [16]] : List (List Rat)))
      = [[1], [2], [4], [8], [16]] := by
  decide +kernel

/-- F-08 for every input: at degree 5 (six control points in) the pinned routine returns the zero
    point at index 3, whatever the polygon. -/
theorem degreeReductionPinned_leaves_zero (Q : List (List K)) :
    (degreeReductionPinned 5 Q).getD 3 [] = List.replicate (Q.getD 0 []).length 0 := by
  simp [degreeReductionPinned, redR1, redInit, redMiddle, sweepLeftStep, List.range']

section ordered
variable {F : Type} [Field F] [LinearOrder F] [IsStrictOrderedRing F]

/-- The Bernstein polynomials of degree `n` are the B-spline basis functions (A2.2,
    `helpers.basis_function`) on the one-span clamped knot vector `0,…,0,1,…,1`, for every parameter. -/
theorem bernstein_eq_basisFuns (n : ℕ) (u : F) :
    basisFuns n (bezierKnots n) n u = (List.range (n + 1)).map (fun i => bernstein n i u) :=
  basisFuns_bezier n u

/-- "The same curve" is the notion of C01: the library's curve evaluation (`curvePoint` = span
    search + A2.2 + A3.1) of a Bézier polygon on its one-span clamped knot vector is the Bernstein
    form, for every parameter `u ≥ 0` … -/
theorem curvePoint_bezier (p : ℕ) (P : List (List F)) (d : ℕ) (hlen : P.length = p + 1) (hr : Rect d P)
    (u : F) (hu : 0 ≤ u) : curvePoint p (bezierKnots p) P u = bernsteinEval P u :=
  Geomdl.curvePoint_bezier p P d hlen hr u hu

/-- … hence the elevated polygon, evaluated as a B-spline curve of degree `p + t`, gives the point
    of the original curve of degree `p` at every parameter. -/
theorem degreeElevation_same_curvePoint (p t : ℕ) (P : List (List F)) (d : ℕ) (hlen : P.length = p + 1)
    (hr : Rect d P) (u : F) (hu : 0 ≤ u) :
    curvePoint (p + t) (bezierKnots (p + t)) (degreeElevation p t P) u = curvePoint p (bezierKnots p) P u := by
  rw [Geomdl.curvePoint_bezier (p + t) _ d (by rw [degreeElevation_length]; omega)
      (degreeElevation_rect p t P d hlen hr) u hu,
    Geomdl.curvePoint_bezier p P d hlen hr u hu, bernsteinEval_degreeElevation p t P d hlen hr u]

end ordered

/-- non-vacuity: a quadratic polygon in the plane satisfies the hypotheses -/
example : ([[0, 0], [1, 2], [3, 1]] : List (List ℚ)).length = 2 + 1 ∧ Rect 2 ([[0, 0], [1, 2], [3, 1]] : List (List ℚ)) := by
  refine ⟨rfl, ?_⟩
  intro pt h
  simp at h
  rcases h with rfl | rfl | rfl <;> rfl

/-- non-vacuity of the rows statement: two rows of two planar points -/
example : let rows : List (List (List ℚ)) := [[[0, 0], [1, 1]], [[2, 0], [3, 5]]]
    rows.length = 1 + 1 ∧ (∀ row ∈ rows, row.length = 2) ∧ (∀ row ∈ rows, ∀ pt ∈ row, pt.length = 2) := by
  simp

end C08
