import NurbsVerif.Lemmas.Effects
import NurbsVerif.Gen.Effects

/-!
# C12  No stale derived state after any sequence of edits

`Gen.effects` is regenerated from /repo's Python source on every run (harness/effects.py): for every
public setter / mutator / cache-filling reader of `BSpline/NURBS.{Curve,Surface,Volume}` and of the
`multi` containers, the possible event paths `clear cache | write field | fill cache` in program order,
together with the list of caches objects of the class have.

* `all_paths_ok` re-checks the regenerated table with the kernel (`decide`).
* `history_no_stale`, `history_inv` lift the per-path fact to every finite history (induction, proved
  once) – first for the three-valued abstract state, then for a concrete object whose caches hold
  values: if each cache's fresh value is a function of exactly the fields in `deps`, a cache is only
  ever filled from the current fields and a write changes only its field, then after any history of
  table operations every non-empty cache equals what a freshly built object reports (`Inv`).
* Readers: a lazily filled cache is filled by its getter when empty, so under `Inv` every getter
  returns the fresh value (`getter_fresh`); `ctrlpts2d` is not lazy – `eager_kept`.
Deep copies: a deep copy starts with all caches empty and shares no state (`copy_inv`; independence
itself is a statement about Python object identity and is checked by the history oracle).
-/
namespace C12
open Eff

/-- The regenerated table: every extracted path of every operation (normal or raising) leaves no
    cache of its class stale from any stale-free start, and every normally returning path leaves the
    eager 2-D grid filled if it found it filled.
    (Closed statement about the GENERATED table `Gen.effects` - the event paths extracted from the source tree the check was run
    for - decided by evaluation; it says nothing about a tree other than the one the table was generated from.) -/
theorem all_paths_ok : Gen.effects.all (fun s => s.ok) = true := by decide +kernel

/-- the form asked for in DESIGN 4.6: all paths of all operations pass `pathOk` (on the class's caches) -/
theorem all_paths_pathOk : ∀ s ∈ Gen.effects, ∀ p ∈ s.all, pathOkOn s.caches p = true := by
  intro s hs p hp
  have h := all_paths_ok
  rw [List.all_eq_true] at h
  exact ok_paths (h s hs) hp

/-- what `pathOkOn` means: preservation of stale-freeness from EVERY abstract start state -/
theorem path_preserves (s : OpSummary) (hs : s ∈ Gen.effects) (p : List Ev) (hp : p ∈ s.all)
    (σ : AState) (hσ : noStaleOn s.caches σ = true) : noStaleOn s.caches (absRun p σ) = true :=
  pathOkOn_preserves (all_paths_pathOk s hs p hp) σ hσ

/-- Lift to all histories (abstract): any finite sequence of paths of table operations of one class
    (caches `cs`) keeps every cache of the class stale-free. -/
theorem history_no_stale (cs : List Cch) (hist : List (List Ev))
    (h : ∀ p ∈ hist, ∃ s ∈ Gen.effects, s.caches = cs ∧ p ∈ s.all)
    (σ : AState) (hσ : noStaleOn cs σ = true) : noStaleOn cs (absRun hist.flatten σ) = true := by
  apply lift cs hist _ σ hσ
  intro p hp
  obtain ⟨s, hs, hcs, hps⟩ := h p hp
  rw [← hcs]
  exact all_paths_pathOk s hs p hps

/-- Soundness for one path: in the concrete model (cache contents are values, `fresh c` depends on
    `deps c` only) a table path preserves "every non-empty cache equals the fresh value". -/
theorem path_inv (fresh : Cch → (Fld → Nat) → Nat) (hd : DepsOnly fresh) (s : OpSummary) (hs : s ∈ Gen.effects)
    (evs : List (Ev × Nat)) (hp : evs.map Prod.fst ∈ s.all) (o : Obj) (h : InvOn s.caches fresh o) :
    InvOn s.caches fresh (crun fresh evs o) :=
  inv_preserved hd evs (all_paths_pathOk s hs _ hp) h

/-- Soundness for all histories: after any finite sequence of table operations of one class, with
    arbitrary written values, every non-empty cache equals what a fresh object reports. -/
theorem history_inv (fresh : Cch → (Fld → Nat) → Nat) (hd : DepsOnly fresh) (cs : List Cch)
    (hist : List (List (Ev × Nat)))
    (h : ∀ p ∈ hist, ∃ s ∈ Gen.effects, s.caches = cs ∧ p.map Prod.fst ∈ s.all)
    (o : Obj) (ho : InvOn cs fresh o) : InvOn cs fresh (crun fresh hist.flatten o) := by
  apply inv_history hd hist _ ho
  intro p hp
  obtain ⟨s, hs, hcs, hps⟩ := h p hp
  rw [← hcs]
  exact all_paths_pathOk s hs _ hps

/-- A lazily filled view read under `Inv`: the getter fills the cache when it is empty and returns
    its content, which is the fresh value either way. -/
theorem getter_fresh (fresh : Cch → (Fld → Nat) → Nat) (cs : List Cch) (o : Obj) (ho : InvOn cs fresh o)
    (c : Cch) (hc : c ∈ cs) :
    let o' := if (o.caches c).isSome then o else cstep fresh o (.fill c, 0)
    o'.caches c = some (fresh c o.fields) ∧ o'.fields = o.fields := by
  rcases ho c hc with h | h
  · simp [h, cstep]
  · simp [h]

/-- The eager 2-D grid: a normally returning table path that finds it holding the fresh value leaves
    it holding the fresh value (of the new fields). -/
theorem eager_kept (fresh : Cch → (Fld → Nat) → Nat) (hd : DepsOnly fresh) (s : OpSummary) (hs : s ∈ Gen.effects)
    (evs : List (Ev × Nat)) (hp : evs.map Prod.fst ∈ s.paths) (o : Obj) (h : InvOn s.caches fresh o)
    (c : Cch) (hc : c ∈ s.caches) (he : eager c = true) (hfull : o.caches c = some (fresh c o.fields)) :
    (crun fresh evs o).caches c = some (fresh c (crun fresh evs o).fields) := by
  have hall := all_paths_ok
  rw [List.all_eq_true] at hall
  exact eager_preserved hd evs (ok_eager (hall s hs) hp) h c hc he hfull

/-- a deep copy (same fields, all caches empty) satisfies the invariant -/
theorem copy_inv (fresh : Cch → (Fld → Nat) → Nat) (cs : List Cch) (o : Obj) :
    InvOn cs fresh { fields := o.fields, caches := fun _ => none } := by
  intro c _; exact Or.inl rfl

/-- The check is complete for the abstraction: a path that fails it does leave a stale cache from
    some stale-free state (so a red `all_paths_ok` names a real violation of the discipline). -/
theorem failing_path_has_witness (cs : List Cch) (p : List Ev) (h : pathOkOn cs p = false) :
    ∃ σ, noStaleOn cs σ = true ∧ noStaleOn cs (absRun p σ) = false :=
  not_pathOkOn_witness h

/-! non-vacuity -/

/-- the table is not empty and contains paths with events -/
example : Gen.effects.length > 100 ∧ (Gen.effects.any fun s => s.all.any fun p => p.length > 5) = true := by decide +kernel

/-- `DepsOnly` is satisfiable by a function that really looks at its fields: sum of the dependencies -/
example : DepsOnly (fun c φ => ((deps c).map φ).sum) := by
  intro c φ ψ h
  show ((deps c).map φ).sum = ((deps c).map ψ).sum
  congr 1
  exact List.map_congr_left h

/-- the check is not vacuous: it rejects a write that is not accompanied by a clear, and accepts the
    repaired discipline -/
example : pathOkOn [.evalpts, .bbox] [.write .net, .clear .evalpts] = false := by decide
example : pathOkOn [.evalpts, .bbox] [.write .net, .clear .bbox, .clear .evalpts, .write .net] = true := by decide
/-- order matters: filling before the write is rejected -/
example : pathOkOn [.cp2d] [.fill .cp2d, .write .net] = false := by decide
example : eagerOkOn [.cp2d] [.clear .cp2d, .write .net] = false := by decide

end C12
