import NurbsVerif.Lemmas.Config
import NurbsVerif.Lemmas.SpanBin

/-!
# C17  Results do not depend on configuration choices

* span search function: `findSpanBin = findSpanLinear` (also listed under C03);
* evaluator variant: both derivative evaluators are tied to one model function (C02 correspondence);
* knot range: evaluation with knots `a•U + b` at `a·u + b` equals evaluation with `U` at `u`;
* memoisation: an LRU cache of ANY capacity in front of a function is transparent for EVERY call
  history (what makes answers independent of `GEOMDL_CACHE_SIZE`);
* worker processes: an order-preserving map is `List.map` (runtime part checked by the harness).
-/
namespace C17
open Geomdl Blossom
variable {K : Type} [Field K] [LinearOrder K] [IsStrictOrderedRing K]

theorem span_search_choice (p : ℕ) (U : ℕ → K) (n : ℕ) (u tol : K) (hpn : p + 1 ≤ n)
    (hm : Monotone U) (hlo : U p ≤ u) (hhi : u ≤ U n) (htol : 0 ≤ tol)
    (hend : absK (U n - u) ≤ tol → U (n - 1) ≤ u) :
    findSpanBin p U n u tol = some (findSpanLinear p U n u) :=
  findSpanBin_eq_linear p U n u tol hpn hm hlo hhi htol hend

/-- knot range: span search … -/
theorem span_affine_knots (p : ℕ) (U : ℕ → K) (n : ℕ) (u a b : K) (ha : 0 < a) :
    findSpanLinear p (fun i => a * U i + b) n (a * u + b) = findSpanLinear p U n u :=
  findSpanLinear_affine p U n u a b ha

/-- … basis functions … -/
theorem basis_affine_knots (U : ℕ → K) (κ : ℕ) (u a b : K) (ha : a ≠ 0) (p : ℕ) :
    basisFuns p (fun i => a * U i + b) κ (a * u + b) = basisFuns p U κ u :=
  basisFuns_affine U κ u a b ha p

/-- … and therefore every evaluated curve point are unchanged when knots and parameter are mapped
    by the same increasing affine map (normalised vs original knot range). -/
theorem curve_point_affine_knots (p : ℕ) (U : ℕ → K) (P : List (List K)) (u a b : K) (ha : 0 < a) :
    curvePoint p (fun i => a * U i + b) P (a * u + b) = curvePoint p U P u :=
  curvePoint_affine_knots p U P u a b ha

/-- memoisation: starting from an empty cache of any capacity, the answers to any sequence of
    calls are exactly the function values -/
theorem lru_transparent {α β : Type} [DecidableEq α] (f : α → β) (cap : ℕ) (xs : List α) :
    LRU.run f (LRU.mk cap []) xs = xs.map f :=
  LRU.run_eq_map f xs _ (LRU.empty_inv f cap)

/-- non-vacuity: capacity 1, alternating keys (every call after the first evicts) -/
example : LRU.run (fun n : ℕ => n * n) (LRU.mk 1 []) [2, 3, 2, 3] = [4, 9, 4, 9] := by decide

end C17
