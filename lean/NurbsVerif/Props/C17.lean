import NurbsVerif.Lemmas.Config
import NurbsVerif.Lemmas.SpanBin
import NurbsVerif.Lemmas.AssembleAffine
import NurbsVerif.Lemmas.ConfigDersNorm
import NurbsVerif.Lemmas.ConfigEval
import NurbsVerif.Lemmas.ConfigSplit
import NurbsVerif.Lemmas.ConfigSpanBin
import NurbsVerif.Lemmas.ConfigWitness
import NurbsVerif.Lemmas.ConfigEvalCoded
import NurbsVerif.Lemmas.FitParams
import NurbsVerif.Lemmas.KnotRangeFoldOps
import NurbsVerif.Lemmas.KnotRangeFoldDecomp
import NurbsVerif.Lemmas.KnotRangeFoldDecompE
import NurbsVerif.Lemmas.DecompE
import NurbsVerif.Lemmas.KnotRangeFoldWitness
import NurbsVerif.Lemmas.SpanBinEval
import NurbsVerif.Lemmas.SpanREval
import NurbsVerif.Model.SpanRGrid

/-!
# C17  Results do not depend on configuration choices

* span search function: `findSpanBin = findSpanLinear` (also listed under C03);
* evaluator variant: the derivative evaluators AS CODED agree (`curveDersA32` = `CurveEvaluator` / `curveDersAt` =
  `CurveEvaluator2`; `surfaceDersA36` = `SurfaceEvaluator` / `surfaceDersA38` = `SurfaceEvaluator2`, where the latter
  computes an entry);
* knot range: evaluation with knots `a•U + b` at `a·u + b` equals evaluation with `U` at `u`;
* memoisation: an LRU cache of ANY capacity in front of a function is transparent for EVERY call
  history (what makes answers independent of `GEOMDL_CACHE_SIZE`);
* worker processes: no theorem (an order-preserving map is `List.map`; checked at run time by the harness);
* derivatives and the knot range: entry `k` of every derivative list picks up `a⁻ᵏ` (chain rule), basis tables,
  surfaces (`a₁⁻ᵏ·a₂⁻ˡ`), rational derivatives – for the DEFAULT evaluators as coded (`default_*_affine_knots`) and for
  the A3.3/A3.4 model `curveDers` / the tensor model `surfaceDersAt`; normalised knot vectors: factor `(last - first)ᵏ`;
* knot operations and the knot range: insertion, removal, refinement (helper level and one direction of the
  object-level operations) return the same control points and the mapped knot vectors; splitting returns
  identical pieces;
* … all directions at once: `insertKnot`, `removeKnot`, `refineKnotvector` (the folds over the directions, any subset
  requested) on the shape with EVERY knot vector mapped (`Shape.affineKvs S a b`: direction `d` by `x ↦ a d·x + b d`)
  return the mapped result; `decomposeDirE` / `decomposeUVE` (decomposition with the exceptions of the code, what the
  driver runs) answer the same: both raise or both return identical pieces (as soon as there is an interior knot);
* the binary span search returns (never runs out of fuel) on the whole domain, for tolerances `0 < tol < 1/2` (the
  range on which the model's start index is the code's `int(round((low+high)/2 + tol))`);
* evaluation with the binary search SELECTED (`find_span_func=find_span_binsearch`): point evaluation of curves,
  surfaces, volumes and the curve derivatives on the span it returns are the Cox–de Boor sums / true derivatives on the
  whole closed domain (`*_binsearch_selected`), under `BinTolOk` (tolerance in `(0, 1/2)`, F-17b hypothesis).

`scaleJet c L` is the list `L` with entry `k` multiplied coordinatewise by `cᵏ`; `scaleJet2 cu cv T` the table `T`
with entry `[k][l]` multiplied by `cuᵏ·cvˡ`; `Shape.affineKv S dir a b` the shape `S` with the knot vector of
direction `dir` mapped by `x ↦ a·x + b` (auxiliary descriptions, `Lemmas/ConfigDers.lean`, `ConfigObj.lean`);
`Shape.affineKvs S a b` the shape `S` with the knot vector of every direction `d` mapped by `x ↦ a d·x + b d`
(= the one-direction maps one after the other, `all_directions_map_*`), `affineParams a b params` the parameter list of
a call with entry `d` mapped the same way (`Lemmas/KnotRangeFold.lean`, `KnotRangeFoldOps.lean`).
-/
namespace C17
open Geomdl Blossom
variable {K : Type} [Field K] [LinearOrder K] [IsStrictOrderedRing K]

/-- span search function: on the domain of a sorted knot vector the binary search returns the span of the linear
    search, for every tolerance `0 < tol < 1/2` (`htol`, `htol2`: only there is the model's start index `(p+n+1)/2`
    the code's `int(round((low+high)/2 + tol))`; with `tol ≥ 1/2` the real code starts further right and may raise
    `IndexError`) outside the F-17b case (`hend`). -/
theorem span_search_choice (p : ℕ) (U : ℕ → K) (n : ℕ) (u tol : K) (hpn : p + 1 ≤ n)
    (hm : Monotone U) (hlo : U p ≤ u) (hhi : u ≤ U n) (htol : 0 < tol) (htol2 : 2 * tol < 1)
    (hend : absK (U n - u) ≤ tol → U (n - 1) ≤ u) :
    findSpanBin p U n u tol = some (findSpanLinear p U n u) :=
  findSpanBin_eq_linear p U n u tol hpn hm hlo hhi htol.le hend

/-- knot range: span search … -/
theorem span_affine_knots (p : ℕ) (U : ℕ → K) (n : ℕ) (u a b : K) (ha : 0 < a) :
    findSpanLinear p (fun i => a * U i + b) n (a * u + b) = findSpanLinear p U n u :=
  findSpanLinear_affine p U n u a b ha

/-- … basis functions … -/
theorem basis_affine_knots (U : ℕ → K) (κ : ℕ) (u a b : K) (ha : a ≠ 0) (p : ℕ) :
    basisFuns p (fun i => a * U i + b) κ (a * u + b) = basisFuns p U κ u :=
  basisFuns_affine U κ u a b ha p

/-- … and therefore every evaluated curve point are unchanged when knots and parameter are mapped
    by the same increasing affine map (normalised vs original knot range). -/
theorem curve_point_affine_knots (p : ℕ) (U : ℕ → K) (P : List (List K)) (u a b : K) (ha : 0 < a) :
    curvePoint p (fun i => a * U i + b) P (a * u + b) = curvePoint p U P u :=
  curvePoint_affine_knots p U P u a b ha

/-- knot range, surfaces: `evaluate_single` (span search + A3.5) with knots `a₁•Uu + b₁`, `a₂•Uv + b₂`
    at `(a₁·u + b₁, a₂·v + b₂)` equals evaluation with `Uu`, `Uv` at `(u, v)` – independently per
    direction, any increasing affine maps, every parameter. -/
theorem surface_point_affine_knots (pu pv : ℕ) (Uu Uv : ℕ → K) (su sv : ℕ) (P : List (List K)) (u v : K)
    (a1 b1 a2 b2 : K) (h1 : 0 < a1) (h2 : 0 < a2) :
    surfacePoint pu pv (fun i => a1 * Uu i + b1) (fun i => a2 * Uv i + b2) su sv P (a1 * u + b1) (a2 * v + b2)
      = surfacePoint pu pv Uu Uv su sv P u v :=
  surfacePoint_affine_knots pu pv Uu Uv su sv P u v a1 b1 a2 b2 h1 h2

/-- knot range, volumes: the same for the three directions of `volumePoint`. -/
theorem volume_point_affine_knots (pu pv pw : ℕ) (Uu Uv Uw : ℕ → K) (su sv sw : ℕ) (P : List (List K)) (u v w : K)
    (a1 b1 a2 b2 a3 b3 : K) (h1 : 0 < a1) (h2 : 0 < a2) (h3 : 0 < a3) :
    volumePoint pu pv pw (fun i => a1 * Uu i + b1) (fun i => a2 * Uv i + b2) (fun i => a3 * Uw i + b3) su sv sw P
        (a1 * u + b1) (a2 * v + b2) (a3 * w + b3)
      = volumePoint pu pv pw Uu Uv Uw su sv sw P u v w :=
  volumePoint_affine_knots pu pv pw Uu Uv Uw su sv sw P u v w a1 b1 a2 b2 a3 b3 h1 h2 h3

/-- normalised vs original knot vector, curves: evaluating with `knotvector.normalize(U)` (model
    `knotNormalize`) at the normalised parameter `(u - U_first)/(U_last - U_first)` equals evaluating
    with `U` at `u` (knot range of positive length; every parameter). -/
theorem curve_point_normalized_knots (p : ℕ) (Ul : List K) (P : List (List K)) (u : K)
    (hne : Ul ≠ []) (hr : Ul.headD 0 < Ul.getLastD 0) :
    curvePoint p (fnOf (knotNormalize Ul)) P ((u - Ul.headD 0) / (Ul.getLastD 0 - Ul.headD 0))
      = curvePoint p (fnOf Ul) P u :=
  curvePoint_normalized p Ul P u hne hr

/-- normalised vs original knot vectors, surfaces (each direction normalised on its own range). -/
theorem surface_point_normalized_knots (pu pv : ℕ) (Uul Uvl : List K) (su sv : ℕ) (P : List (List K)) (u v : K)
    (hneu : Uul ≠ []) (hru : Uul.headD 0 < Uul.getLastD 0) (hnev : Uvl ≠ []) (hrv : Uvl.headD 0 < Uvl.getLastD 0) :
    surfacePoint pu pv (fnOf (knotNormalize Uul)) (fnOf (knotNormalize Uvl)) su sv P
        ((u - Uul.headD 0) / (Uul.getLastD 0 - Uul.headD 0)) ((v - Uvl.headD 0) / (Uvl.getLastD 0 - Uvl.headD 0))
      = surfacePoint pu pv (fnOf Uul) (fnOf Uvl) su sv P u v :=
  surfacePoint_normalized pu pv Uul Uvl su sv P u v hneu hru hnev hrv

/-- normalised vs original knot vectors, volumes. -/
theorem volume_point_normalized_knots (pu pv pw : ℕ) (Uul Uvl Uwl : List K) (su sv sw : ℕ) (P : List (List K)) (u v w : K)
    (hneu : Uul ≠ []) (hru : Uul.headD 0 < Uul.getLastD 0) (hnev : Uvl ≠ []) (hrv : Uvl.headD 0 < Uvl.getLastD 0)
    (hnew : Uwl ≠ []) (hrw : Uwl.headD 0 < Uwl.getLastD 0) :
    volumePoint pu pv pw (fnOf (knotNormalize Uul)) (fnOf (knotNormalize Uvl)) (fnOf (knotNormalize Uwl)) su sv sw P
        ((u - Uul.headD 0) / (Uul.getLastD 0 - Uul.headD 0)) ((v - Uvl.headD 0) / (Uvl.getLastD 0 - Uvl.headD 0))
        ((w - Uwl.headD 0) / (Uwl.getLastD 0 - Uwl.headD 0))
      = volumePoint pu pv pw (fnOf Uul) (fnOf Uvl) (fnOf Uwl) su sv sw P u v w :=
  volumePoint_normalized pu pv pw Uul Uvl Uwl su sv sw P u v w hneu hru hnev hrv hnew hrw

/-- non-vacuity: knots on the range `[1, 5]`, parameter 4 ↦ 3/4 -/
example : curvePoint 2 (fnOf (knotNormalize ([1,1,1,3,5,5,5] : List ℚ))) [[0,0],[1,2],[3,1],[4,4]] ((4 - 1) / (5 - 1))
    = curvePoint 2 (fnOf ([1,1,1,3,5,5,5] : List ℚ)) [[0,0],[1,2],[3,1],[4,4]] 4 :=
  curve_point_normalized_knots 2 _ _ 4 (by simp) (by decide +kernel)

/-- memoisation: starting from an empty cache of any capacity, the answers to any sequence of
    calls are exactly the function values
    (Generic fact about the LRU model, for any function `f`; that the memoised routines of the library are such functions is a harness check.) -/
theorem lru_transparent {α β : Type} [DecidableEq α] (f : α → β) (cap : ℕ) (xs : List α) :
    LRU.run f (LRU.mk cap []) xs = xs.map f :=
  LRU.run_eq_map f xs _ (LRU.empty_inv f cap)

/-- non-vacuity: capacity 1, alternating keys (every call after the first evicts) -/
example : LRU.run (fun n : ℕ => n * n) (LRU.mk 1 []) [2, 3, 2, 3] = [4, 9, 4, 9] := by decide

/-! ### derivatives under an affine change of the knot range -/

/-- **Derivatives, chain rule (curves), A3.3/A3.4.**  `CurveEvaluator2.derivatives` (model `curveDers`: span search +
    A3.3/A3.4 – the ALTERNATIVE evaluator; the default of `BSpline.Curve` / `NURBS.Curve` is A3.2, see
    `default_curve_derivatives_affine_knots`) with knots `a•U + b` (`a > 0`) at the parameter `a·u + b`: the whole list `[C, C', C'', …]` is the list for `U` at `u` with
    entry `k` multiplied by `a⁻ᵏ` – every requested order, every degree, net and parameter (also orders
    above the degree: both sides zero). -/
theorem curve_derivatives_affine_knots (p : ℕ) (U : ℕ → K) (P : List (List K)) (u : K) (order : ℕ) (a b : K)
    (ha : 0 < a) :
    curveDers p (fun i => a * U i + b) P (a * u + b) order = scaleJet a⁻¹ (curveDers p U P u order) :=
  curveDers_affine p U P u order a b ha

/-- … read entry by entry: derivative `k`, coordinate `j`. -/
theorem curve_derivative_entries_affine_knots (p : ℕ) (U : ℕ → K) (P : List (List K)) (u : K) (order : ℕ) (a b : K)
    (ha : 0 < a) (k j : ℕ) :
    ((curveDers p (fun i => a * U i + b) P (a * u + b) order).getD k []).getD j 0
      = a⁻¹ ^ k * ((curveDers p U P u order).getD k []).getD j 0 := by
  rw [curveDers_affine p U P u order a b ha, scaleJet_entry]

/-- The same on any given span index and for any non-zero `a` (no span search involved). -/
theorem curve_derivatives_on_span_affine_knots (p : ℕ) (U : ℕ → K) (P : List (List K)) (span : ℕ) (u : K)
    (order : ℕ) (a b : K) (ha : a ≠ 0) :
    curveDersAt p (fun i => a * U i + b) P span (a * u + b) order = scaleJet a⁻¹ (curveDersAt p U P span u order) :=
  curveDersAt_affine p U P span u order a b ha

/-- The A3.3 derivative control points (`helpers.curve_deriv_cpts`) of level `k` pick up `a⁻ᵏ` (`a ≠ 0`: for `a = 0` all
    knots coincide and the code raises `ZeroDivisionError`; the identity would hold in the model only through
    `x / 0 = 0 = 0⁻¹`). -/
theorem derivative_control_points_affine_knots (p : ℕ) (U : ℕ → K) (P : List (List K)) (r1 r2 d : ℕ) (a b : K) (k : ℕ)
    (ha : a ≠ 0) :
    (curveDerivCpts p (fun i => a * U i + b) P r1 r2 d).getD k []
      = ((curveDerivCpts p U P r1 r2 d).getD k []).map (vsmul (a⁻¹ ^ k)) :=
  curveDerivCpts_affine p U P r1 r2 d a b k

/-- **Basis function derivatives** (the specification table of `basis_function_ders`): row `k` picks up `a⁻ᵏ`. -/
theorem basis_derivatives_affine_knots (p : ℕ) (U : ℕ → K) (span : ℕ) (u : K) (d : ℕ) (a b : K) (ha : a ≠ 0) :
    basisDers p (fun i => a * U i + b) span (a * u + b) d = scaleJet a⁻¹ (basisDers p U span u d) :=
  basisDers_affine p U span u d a b ha

/-- … and so does the table returned by A2.3 as coded (`basisFunsDersA23`, guard `d ≤ p ≤ span`). -/
theorem a23_as_coded_affine_knots (p : ℕ) (U : ℕ → K) (κ : ℕ) (u : K) (d : ℕ) (a b : K) (ha : a ≠ 0)
    (hd : d ≤ p) (hp : p ≤ κ) :
    basisFunsDersA23 p (fun i => a * U i + b) κ (a * u + b) d = scaleJet a⁻¹ (basisFunsDersA23 p U κ u d) :=
  basisFunsDersA23_affine p U κ u d a b ha hd hp

/-- **Derivatives, chain rule (surfaces), tensor model.**  The model `surfaceDersAt` of `Surface.derivatives` (span
    search in both directions; `tri = false` is the table A3.6 as coded returns, `tri = true` the one A3.7 + A3.8 return –
    C02 `a36_as_coded_is_the_tensor_formula`, `a38_as_coded_is_the_triangular_table`; for A3.6 as coded directly see
    `default_surface_derivatives_affine_knots`) with knots `a₁•Uu + b₁`, `a₂•Uv + b₂` at `(a₁·u + b₁, a₂·v + b₂)`: entry `[k][l]` is the entry
    for `Uu`, `Uv` at `(u, v)` multiplied by `a₁⁻ᵏ·a₂⁻ˡ`. -/
theorem surface_derivatives_affine_knots (pu pv : ℕ) (Uu Uv : ℕ → K) (su sv : ℕ) (P : List (List K)) (u v : K)
    (order : ℕ) (tri : Bool) (a1 b1 a2 b2 : K) (h1 : 0 < a1) (h2 : 0 < a2) :
    surfaceDersAt pu pv (fun i => a1 * Uu i + b1) (fun i => a2 * Uv i + b2) sv P
        (findSpanLinear pu (fun i => a1 * Uu i + b1) su (a1 * u + b1))
        (findSpanLinear pv (fun i => a2 * Uv i + b2) sv (a2 * v + b2)) (a1 * u + b1) (a2 * v + b2) order tri
      = scaleJet2 a1⁻¹ a2⁻¹ (surfaceDersAt pu pv Uu Uv sv P (findSpanLinear pu Uu su u) (findSpanLinear pv Uv sv v)
          u v order tri) :=
  surfaceDers_affine pu pv Uu Uv su sv P u v order tri a1 b1 a2 b2 h1 h2

/-- … read entry by entry: mixed derivative `[k][l]`, coordinate `j`. -/
theorem surface_derivative_entries_affine_knots (pu pv : ℕ) (Uu Uv : ℕ → K) (su sv : ℕ) (P : List (List K)) (u v : K)
    (order : ℕ) (tri : Bool) (a1 b1 a2 b2 : K) (h1 : 0 < a1) (h2 : 0 < a2) (k l j : ℕ) :
    (((surfaceDersAt pu pv (fun i => a1 * Uu i + b1) (fun i => a2 * Uv i + b2) sv P
        (findSpanLinear pu (fun i => a1 * Uu i + b1) su (a1 * u + b1))
        (findSpanLinear pv (fun i => a2 * Uv i + b2) sv (a2 * v + b2)) (a1 * u + b1) (a2 * v + b2) order tri).getD k []).getD
          l []).getD j 0
      = a1⁻¹ ^ k * a2⁻¹ ^ l * (((surfaceDersAt pu pv Uu Uv sv P (findSpanLinear pu Uu su u) (findSpanLinear pv Uv sv v)
          u v order tri).getD k []).getD l []).getD j 0 := by
  rw [surfaceDers_affine pu pv Uu Uv su sv P u v order tri a1 b1 a2 b2 h1 h2, scaleJet2_entry]

/-- The same on given span indices, any non-zero factors. -/
theorem surface_derivatives_on_span_affine_knots (pu pv : ℕ) (Uu Uv : ℕ → K) (sv : ℕ) (P : List (List K))
    (spanU spanV : ℕ) (u v : K) (order : ℕ) (tri : Bool) (a1 b1 a2 b2 : K) (h1 : a1 ≠ 0) (h2 : a2 ≠ 0) :
    surfaceDersAt pu pv (fun i => a1 * Uu i + b1) (fun i => a2 * Uv i + b2) sv P spanU spanV
        (a1 * u + b1) (a2 * v + b2) order tri
      = scaleJet2 a1⁻¹ a2⁻¹ (surfaceDersAt pu pv Uu Uv sv P spanU spanV u v order tri) :=
  surfaceDersAt_affine pu pv Uu Uv sv P spanU spanV u v order tri a1 b1 a2 b2 h1 h2

/-- **A4.2 commutes with the chain-rule scaling**: for ANY list of homogeneous derivative vectors, multiplying
    entry `k` of the input by `cᵏ` multiplies entry `k` of the output of `ratCurveDers` by `cᵏ`. -/
theorem a42_commutes_with_scaling (c : K) (CKw : List (List K)) :
    ratCurveDers (scaleJet c CKw) = scaleJet c (ratCurveDers CKw) :=
  ratCurveDers_scale c CKw

/-- **A4.4 commutes with the chain-rule scaling** (`ratSurfaceDers`, factors `cuᵏ·cvˡ`). -/
theorem a44_commutes_with_scaling (cu cv : K) (SKLw : List (List (List K))) (order : ℕ) :
    ratSurfaceDers (scaleJet2 cu cv SKLw) order = scaleJet2 cu cv (ratSurfaceDers SKLw order) :=
  ratSurfaceDers_scale cu cv SKLw order

/-- **Rational curve derivatives, A3.3/A3.4 + A4.2** (`CurveEvaluator2` table on the homogeneous net, then A4.2; the
    default NURBS evaluator runs A3.2 instead – same values on the domain, `curve_evaluators_as_coded_agree`) scale the
    same way: entry `k` picks up `a⁻ᵏ`. -/
theorem rational_curve_derivatives_affine_knots (p : ℕ) (U : ℕ → K) (Pw : List (List K)) (u : K) (order : ℕ)
    (a b : K) (ha : 0 < a) :
    ratCurveDers (curveDers p (fun i => a * U i + b) Pw (a * u + b) order)
      = scaleJet a⁻¹ (ratCurveDers (curveDers p U Pw u order)) :=
  ratCurveDers_affine p U Pw u order a b ha

/-- **Rational surface derivatives** (A4.4 over the table of the homogeneous surface): entry `[k][l]` picks up
    `a₁⁻ᵏ·a₂⁻ˡ`. -/
theorem rational_surface_derivatives_affine_knots (pu pv : ℕ) (Uu Uv : ℕ → K) (su sv : ℕ) (Pw : List (List K))
    (u v : K) (order : ℕ) (tri : Bool) (a1 b1 a2 b2 : K) (h1 : 0 < a1) (h2 : 0 < a2) :
    ratSurfaceDers (surfaceDersAt pu pv (fun i => a1 * Uu i + b1) (fun i => a2 * Uv i + b2) sv Pw
        (findSpanLinear pu (fun i => a1 * Uu i + b1) su (a1 * u + b1))
        (findSpanLinear pv (fun i => a2 * Uv i + b2) sv (a2 * v + b2)) (a1 * u + b1) (a2 * v + b2) order tri) order
      = scaleJet2 a1⁻¹ a2⁻¹ (ratSurfaceDers (surfaceDersAt pu pv Uu Uv sv Pw (findSpanLinear pu Uu su u)
          (findSpanLinear pv Uv sv v) u v order tri) order) :=
  ratSurfaceDers_affine pu pv Uu Uv su sv Pw u v order tri a1 b1 a2 b2 h1 h2

/-- **Normalised vs original knot vector, derivatives of curves**: with `knotvector.normalize(U)` at the normalised
    parameter, the derivative of order `k` is the derivative with `U` at `u` times `(U_last - U_first)ᵏ`. -/
theorem curve_derivatives_normalized_knots (p : ℕ) (Ul : List K) (P : List (List K)) (u : K) (order : ℕ)
    (hne : Ul ≠ []) (hr : Ul.headD 0 < Ul.getLastD 0) :
    curveDers p (fnOf (knotNormalize Ul)) P ((u - Ul.headD 0) / (Ul.getLastD 0 - Ul.headD 0)) order
      = scaleJet (Ul.getLastD 0 - Ul.headD 0) (curveDers p (fnOf Ul) P u order) :=
  curveDers_normalized p Ul P u order hne hr

/-- … rational curves … -/
theorem rational_curve_derivatives_normalized_knots (p : ℕ) (Ul : List K) (Pw : List (List K)) (u : K) (order : ℕ)
    (hne : Ul ≠ []) (hr : Ul.headD 0 < Ul.getLastD 0) :
    ratCurveDers (curveDers p (fnOf (knotNormalize Ul)) Pw ((u - Ul.headD 0) / (Ul.getLastD 0 - Ul.headD 0)) order)
      = scaleJet (Ul.getLastD 0 - Ul.headD 0) (ratCurveDers (curveDers p (fnOf Ul) Pw u order)) :=
  ratCurveDers_normalized p Ul Pw u order hne hr

/-- … and surfaces (each direction normalised on its own range; entry `[k][l]` times `Δuᵏ·Δvˡ`). -/
theorem surface_derivatives_normalized_knots (pu pv : ℕ) (Uul Uvl : List K) (su sv : ℕ) (P : List (List K)) (u v : K)
    (order : ℕ) (tri : Bool) (hneu : Uul ≠ []) (hru : Uul.headD 0 < Uul.getLastD 0) (hnev : Uvl ≠ [])
    (hrv : Uvl.headD 0 < Uvl.getLastD 0) :
    surfaceDersAt pu pv (fnOf (knotNormalize Uul)) (fnOf (knotNormalize Uvl)) sv P
        (findSpanLinear pu (fnOf (knotNormalize Uul)) su ((u - Uul.headD 0) / (Uul.getLastD 0 - Uul.headD 0)))
        (findSpanLinear pv (fnOf (knotNormalize Uvl)) sv ((v - Uvl.headD 0) / (Uvl.getLastD 0 - Uvl.headD 0)))
        ((u - Uul.headD 0) / (Uul.getLastD 0 - Uul.headD 0)) ((v - Uvl.headD 0) / (Uvl.getLastD 0 - Uvl.headD 0))
        order tri
      = scaleJet2 (Uul.getLastD 0 - Uul.headD 0) (Uvl.getLastD 0 - Uvl.headD 0)
          (surfaceDersAt pu pv (fnOf Uul) (fnOf Uvl) sv P (findSpanLinear pu (fnOf Uul) su u)
            (findSpanLinear pv (fnOf Uvl) sv v) u v order tri) :=
  surfaceDers_normalized pu pv Uul Uvl su sv P u v order tri hneu hru hnev hrv

/-! ### evaluator family -/

/-- **Both curve evaluators AS CODED return the same derivative vectors.**  `CurveEvaluator.derivatives` (A3.2 over
    A2.3, model `curveDersA32`, the default) and `CurveEvaluator2.derivatives` (A3.3/A3.4, model `curveDersAt`) agree
    in every coordinate for EVERY `k ≤ order` (also above the degree: both zero) – both are the true derivative of the
    span polynomial (C02 `a32_as_coded_is_true_derivative`, `curve_derivatives_are_true_derivatives`).  Sorted knots,
    non-empty span `κ ≥ p` inside the net. -/
theorem curve_evaluators_as_coded_agree (p : ℕ) (U : ℕ → K) (P : List (List K)) (κ : ℕ) (u : K) (d j order k : ℕ)
    (hp : p ≤ κ) (hκ : κ < P.length) (hP : NetOk d P)
    (hm : Monotone U) (hspan : U κ < U (κ+1)) (hk : k ≤ order) :
    ((curveDersA32 p U P κ u order).getD k []).getD j 0 = ((curveDersAt p U P κ u order).getD k []).getD j 0 :=
  Geomdl.curve_evaluators_as_coded_agree p U P κ u d j order k hp hκ hP hm hspan hk

/-- **Both surface evaluators AS CODED return the same entries** wherever `SurfaceEvaluator2` computes one:
    `SurfaceEvaluator2.derivatives` (A3.7 + A3.8, model `surfaceDersA38`) and `SurfaceEvaluator.derivatives` (A3.6,
    model `surfaceDersA36`, the default) agree in entry `[k][l]` for `k + l ≤ order`; the other entries of A3.8 stay
    zero (C02 `a38_as_coded_rest_zero`) while A3.6 fills them.  Sorted knots, non-empty span pair inside the net. -/
theorem surface_evaluators_as_coded_agree (pu pv : ℕ) (Uu Uv : ℕ → K) (su sv : ℕ) (P : List (List K))
    (κu κv : ℕ) (u v : K) (d order k l : ℕ)
    (hpu : pu ≤ κu) (hpv : pv ≤ κv) (hκu : κu < su) (hκv : κv < sv) (hlen : P.length = su * sv) (hP : NetOk d P)
    (hmu : Monotone Uu) (hmv : Monotone Uv) (hspu : Uu κu < Uu (κu+1)) (hspv : Uv κv < Uv (κv+1))
    (hkl : k + l ≤ order) :
    ((surfaceDersA38 pu pv Uu Uv su sv P κu κv u v order).getD k []).getD l []
      = ((surfaceDersA36 pu pv Uu Uv sv P κu κv u v order).getD k []).getD l [] :=
  Geomdl.surface_evaluators_as_coded_agree pu pv Uu Uv su sv P κu κv u v d order k l hpu hpv hκu hκv hlen hP hmu hmv
    hspu hspv hkl

/-- **Chain rule for the DEFAULT curve evaluator as coded** (`CurveEvaluator.derivatives` = `curveDersA32`, what
    `BSpline.Curve.derivatives` runs, on the span the search finds): with knots `a•U + b` (`a > 0`) at `a·u + b`, entry `k`,
    coordinate `j`, is `a⁻ᵏ` times the entry for `U` at `u` – every `u` of the closed domain of a well-formed curve,
    every `k ≤ order`. -/
theorem default_curve_derivatives_affine_knots (p : ℕ) (U : ℕ → K) (P : List (List K)) (u : K) (d order k j : ℕ)
    (a b : K) (ha : 0 < a) (hP : NetOk d P) (hU : KnotsOk p U P.length) (hlo : U p ≤ u) (hhi : u ≤ U P.length)
    (hk : k ≤ order) :
    ((curveDersA32 p (fun i => a * U i + b) P (findSpanLinear p (fun i => a * U i + b) P.length (a * u + b)) (a * u + b)
        order).getD k []).getD j 0
      = a⁻¹ ^ k * ((curveDersA32 p U P (findSpanLinear p U P.length u) u order).getD k []).getD j 0 :=
  curveDersA32_affine p U P u d order k j a b ha hP hU hlo hhi hk

/-- **Chain rule for the DEFAULT surface evaluator as coded** (`SurfaceEvaluator.derivatives` = `surfaceDersA36` on the
    spans the searches find): the whole table, entry `[k][l]` multiplied by `a₁⁻ᵏ·a₂⁻ˡ` – every `(u, v)` of the closed
    domain of a well-formed surface. -/
theorem default_surface_derivatives_affine_knots (pu pv : ℕ) (Uu Uv : ℕ → K) (su sv : ℕ) (P : List (List K)) (u v : K)
    (d order : ℕ) (a1 b1 a2 b2 : K) (h1 : 0 < a1) (h2 : 0 < a2) (hlen : P.length = su * sv) (hP : NetOk d P)
    (hUu : KnotsOk pu Uu su) (hUv : KnotsOk pv Uv sv)
    (hu1 : Uu pu ≤ u) (hu2 : u ≤ Uu su) (hv1 : Uv pv ≤ v) (hv2 : v ≤ Uv sv) :
    surfaceDersA36 pu pv (fun i => a1 * Uu i + b1) (fun i => a2 * Uv i + b2) sv P
        (findSpanLinear pu (fun i => a1 * Uu i + b1) su (a1 * u + b1))
        (findSpanLinear pv (fun i => a2 * Uv i + b2) sv (a2 * v + b2)) (a1 * u + b1) (a2 * v + b2) order
      = scaleJet2 a1⁻¹ a2⁻¹ (surfaceDersA36 pu pv Uu Uv sv P (findSpanLinear pu Uu su u) (findSpanLinear pv Uv sv v)
          u v order) :=
  surfaceDersA36_affine pu pv Uu Uv su sv P u v d order a1 b1 a2 b2 h1 h2 hlen hP hUu hUv hu1 hu2 hv1 hv2

/-! ### knot operations under an affine change of the knot range -/

/-- **Knot insertion (A5.1)**: with knots `a•U + b` and the parameter `a·ū + b` (`a ≠ 0`) `knot_insertion` returns the
    same control points as with `U` and `ū` – any count `r`, multiplicity `s`, span `k`. -/
theorem insertion_affine_knots (p : ℕ) (U : ℕ → K) (P : List (List K)) (u : K) (r s k : ℕ) (a b : K) (ha : a ≠ 0) :
    knotInsertion p (fun i => a * U i + b) P (a * u + b) r s k = knotInsertion p U P u r s k :=
  knotInsertion_affine p U P u r s k a b ha

/-- … and `knot_insertion_kv` returns the mapped knot vector (a `List.map` congruence: the function only splices the
    list, so the same holds for ANY map in place of `x ↦ a·x + b`). -/
theorem insertion_kv_affine_knots (U : List K) (u : K) (span r : ℕ) (a b : K) :
    knotInsertionKv (U.map (fun x => a * x + b)) (a * u + b) span r
      = (knotInsertionKv U u span r).map (fun x => a * x + b) :=
  knotInsertionKv_map (fun x => a * x + b) U u span r

/-- `find_multiplicity` counts the same knots when the tolerance is scaled with the knot range. -/
theorem multiplicity_affine_knots (u : K) (U : List K) (tol a b : K) (ha : 0 < a) :
    findMultiplicity (a * u + b) (U.map (fun x => a * x + b)) (a * tol) = findMultiplicity u U tol :=
  findMultiplicity_affine u U tol a b ha

/-- **Knot removal (A5.8 as coded)**: with knots `a•U + b` and the parameter `a·ū + b` `knot_removal` returns the same
    control points as with `U` and `ū` – the blending factors are invariant and the removability test
    compares distances between control points with the same tolerance. -/
theorem removal_affine_knots (p : ℕ) (U : ℕ → K) (P : List (List K)) (u : K) (num s r : ℕ) (tol2 a b : K) (ha : a ≠ 0) :
    knotRemoval p (fun i => a * U i + b) P (a * u + b) num s r tol2 = knotRemoval p U P u num s r tol2 :=
  knotRemoval_affine p U P u num s r tol2 a b ha

/-- … and `knot_removal_kv` returns the mapped knot vector (again a `List.map` congruence, true for any map). -/
theorem removal_kv_affine_knots (U : List K) (span r : ℕ) (a b : K) :
    knotRemovalKv (U.map (fun x => a * x + b)) span r = (knotRemovalKv U span r).map (fun x => a * x + b) :=
  knotRemovalKv_map (fun x => a * x + b) U span r

/-- **Knot refinement** (`helpers.knot_refinement`, density form, tolerance scaled with the range): the knots to
    insert are the images, every insertion finds the same span and multiplicity; the result is the mapped
    knot vector with the same control points, and "cannot refine" is answered in the same cases. -/
theorem refinement_affine_knots (p : ℕ) (U : List K) (P : List (List K)) (density : ℕ) (tol a b : K) (ha : 0 < a)
    (hne : U ≠ []) :
    knotRefinement p (U.map (fun y => a * y + b)) P density (a * tol)
      = (knotRefinement p U P density tol).map (fun r => (r.1.map (fun y => a * y + b), r.2)) :=
  knotRefinement_affine p U P density tol a b ha hne

/-- … also with an explicit `knot_list` and `add_knot_list` (mapped the same way). -/
theorem refinement_with_lists_affine_knots (p : ℕ) (U : List K) (P : List (List K)) (kl : Option (List K))
    (add : List K) (density : ℕ) (tol a b : K) (ha : 0 < a) (hne : U ≠ []) :
    knotRefinementOf p (U.map (fun y => a * y + b)) P (kl.map (List.map (fun y => a * y + b)))
        (add.map (fun y => a * y + b)) density (a * tol)
      = (knotRefinementOf p U P kl add density tol).map (fun r => (r.1.map (fun y => a * y + b), r.2)) :=
  knotRefinementOf_affine p U P kl add density tol a b ha hne

/-- **`operations.insert_knot`, one direction of a curve / surface / volume**: on the shape whose knot vector of
    that direction is mapped to `a•U + b`, inserting `a·ū + b` is accepted / rejected in the same cases and returns
    the shape with the mapped new knot vector and the same net and sizes. -/
theorem insert_knot_affine_knots (S : Shape K) (dir : ℕ) (u : K) (r : ℕ) (tol a b : K) (check : Bool) (ha : 0 < a)
    (hne : S.kv dir ≠ []) :
    insertKnotDir (S.affineKv dir a b) dir (a * u + b) r (a * tol) check
      = (insertKnotDir S dir u r tol check).map (fun T => T.affineKv dir a b) :=
  insertKnotDir_affine S dir u r tol a b check ha hne

/-- **`operations.remove_knot`, one direction**. -/
theorem remove_knot_affine_knots (S : Shape K) (dir : ℕ) (u : K) (num : ℕ) (tol tol2 a b : K) (check : Bool)
    (ha : 0 < a) (hne : S.kv dir ≠ []) :
    removeKnotDir (S.affineKv dir a b) dir (a * u + b) num (a * tol) tol2 check
      = (removeKnotDir S dir u num tol tol2 check).map (fun T => T.affineKv dir a b) :=
  removeKnotDir_affine S dir u num tol tol2 a b check ha hne

/-- **`operations.refine_knotvector`, one direction**. -/
theorem refine_knotvector_affine_knots (S : Shape K) (dir density : ℕ) (tol a b : K) (ha : 0 < a)
    (hne : S.kv dir ≠ []) :
    refineDir (S.affineKv dir a b) dir density (a * tol)
      = (refineDir S dir density tol).map (fun T => T.affineKv dir a b) :=
  refineDir_affine S dir density tol a b ha hne

/-- **Splitting** (`split_curve`, `split_surface_u`, `split_surface_v`): the pieces carry normalised knot
    vectors, so splitting the shape on the knot range `a•U + b` at `a·ū + b` returns exactly the two pieces obtained
    from `U` at `ū` (and is rejected in the same cases).  Hypotheses: the degree and the size index the knot
    vector (true for every valid shape: `len U = n + p + 1`). -/
theorem split_affine_knots (S : Shape K) (dir : ℕ) (u tol a b : K) (ha : 0 < a)
    (hp : S.deg dir < (S.kv dir).length) (hn : S.size dir < (S.kv dir).length) :
    splitDir (S.affineKv dir a b) dir (a * u + b) (a * tol) = splitDir S dir u tol :=
  splitDir_affine S dir u tol a b ha hp hn

/-- … with the SAME tolerance on both knot ranges (the code compares with the fixed `1e-7`): it suffices that, in
    both ranges, every knot is either equal to the split parameter or further than the tolerance away from it. -/
theorem split_affine_knots_fixed_tolerance (S : Shape K) (dir : ℕ) (u tol a b : K) (ha : 0 < a) (htol : 0 ≤ tol)
    (hp : S.deg dir < (S.kv dir).length) (hn : S.size dir < (S.kv dir).length)
    (hsep : ∀ y ∈ S.kv dir, u = y ∨ (tol < |u - y| ∧ tol < a * |u - y|)) :
    splitDir (S.affineKv dir a b) dir (a * u + b) tol = splitDir S dir u tol :=
  splitDir_affine_fixed_tol S dir u tol a b ha htol hp hn hsep

/-- `insert_knot`, one direction, same tolerance on both ranges (same separation hypothesis). -/
theorem insert_knot_affine_knots_fixed_tolerance (S : Shape K) (dir : ℕ) (u : K) (r : ℕ) (tol a b : K) (check : Bool)
    (ha : 0 < a) (htol : 0 ≤ tol) (hne : S.kv dir ≠ [])
    (hsep : ∀ y ∈ S.kv dir, u = y ∨ (tol < |u - y| ∧ tol < a * |u - y|)) :
    insertKnotDir (S.affineKv dir a b) dir (a * u + b) r tol check
      = (insertKnotDir S dir u r tol check).map (fun T => T.affineKv dir a b) :=
  insertKnotDir_affine_fixed_tol S dir u r tol a b check ha htol hne hsep

/-- `remove_knot`, one direction, same tolerance on both ranges (same separation hypothesis). -/
theorem remove_knot_affine_knots_fixed_tolerance (S : Shape K) (dir : ℕ) (u : K) (num : ℕ) (tol tol2 a b : K)
    (check : Bool) (ha : 0 < a) (htol : 0 ≤ tol) (hne : S.kv dir ≠ [])
    (hsep : ∀ y ∈ S.kv dir, u = y ∨ (tol < |u - y| ∧ tol < a * |u - y|)) :
    removeKnotDir (S.affineKv dir a b) dir (a * u + b) num tol tol2 check
      = (removeKnotDir S dir u num tol tol2 check).map (fun T => T.affineKv dir a b) :=
  removeKnotDir_affine_fixed_tol S dir u num tol tol2 a b check ha htol hne hsep

/-! ### knot operations on a shape whose knot vectors are ALL on other ranges (the folds over the directions) -/

/-- `Shape.affineKvs` on a surface is the one-direction map `Shape.affineKv` applied to direction 0, then 1 … -/
theorem all_directions_map_surface (S : Shape K) (a b : ℕ → K) (h : S.kvs.length = 2) :
    S.affineKvs a b = (S.affineKv 0 (a 0) (b 0)).affineKv 1 (a 1) (b 1) :=
  affineKvs_two S a b h

/-- … on a volume to directions 0, 1, 2; on a curve to direction 0. -/
theorem all_directions_map_volume (S : Shape K) (a b : ℕ → K) (h : S.kvs.length = 3) :
    S.affineKvs a b = ((S.affineKv 0 (a 0) (b 0)).affineKv 1 (a 1) (b 1)).affineKv 2 (a 2) (b 2) :=
  affineKvs_three S a b h

theorem all_directions_map_curve (S : Shape K) (a b : ℕ → K) (h : S.kvs.length = 1) :
    S.affineKvs a b = S.affineKv 0 (a 0) (b 0) :=
  affineKvs_one S a b h

/-- **`operations.insert_knot`, the whole call** (model `insertKnot`: the loop over the directions; a `none`
    parameter or a zero count skips a direction; the flag tells whether the call completed or the multiplicity check
    of some direction raised after the earlier ones had been applied).  On the shape with every knot vector mapped
    (`x ↦ a d·x + b d` in direction `d`), with the parameters mapped the same way and the tolerance `tol'`: the
    resulting object is the mapped result (same net, same sizes, mapped knot vectors) and the call completes / raises
    in the same cases.  Hypotheses, for every REQUESTED direction only: `a d > 0`, a non-empty knot vector, and
    `tol' = a d · tol` (the multiplicity tolerance scaled with the range: one common factor for the requested
    directions, or `tol = tol' = 0`).  Unrequested directions may carry any map. -/
theorem insert_knot_all_directions_affine_knots (S : Shape K) (a b : ℕ → K) (params : List (Option K)) (nums : List ℕ)
    (tol tol' : K) (check : Bool)
    (hreq : ∀ d, d < S.pdim → ∀ u, params.getD d none = some u → nums.getD d 0 ≠ 0 →
      0 < a d ∧ S.kv d ≠ [] ∧ tol' = a d * tol) :
    insertKnot (S.affineKvs a b) (affineParams a b params) nums tol' check
      = ((insertKnot S params nums tol check).1.affineKvs a b, (insertKnot S params nums tol check).2) :=
  insertKnot_affineKvs S a b params nums tol tol' check hreq

/-- … with the SAME tolerance on every range (the code's fixed `10e-8`) and a different map per direction: it
    suffices that, for every requested direction, every knot of that direction is either equal to the parameter or
    further than the tolerance away from it in both ranges. -/
theorem insert_knot_all_directions_affine_knots_fixed_tolerance (S : Shape K) (a b : ℕ → K)
    (params : List (Option K)) (nums : List ℕ) (tol : K) (check : Bool) (htol : 0 ≤ tol)
    (hreq : ∀ d, d < S.pdim → ∀ u, params.getD d none = some u → nums.getD d 0 ≠ 0 →
      0 < a d ∧ S.kv d ≠ [] ∧ ∀ y ∈ S.kv d, u = y ∨ (tol < |u - y| ∧ tol < a d * |u - y|)) :
    insertKnot (S.affineKvs a b) (affineParams a b params) nums tol check
      = ((insertKnot S params nums tol check).1.affineKvs a b, (insertKnot S params nums tol check).2) :=
  insertKnot_affineKvs_fixed_tol S a b params nums tol check htol hreq

/-- **`operations.remove_knot`, the whole call** (model `removeKnot`), tolerance of the multiplicity search scaled
    with the range of every requested direction; the removability tolerance `tol2` (distances between control points)
    is the same on both sides. -/
theorem remove_knot_all_directions_affine_knots (S : Shape K) (a b : ℕ → K) (params : List (Option K)) (nums : List ℕ)
    (tol tol' tol2 : K) (check : Bool)
    (hreq : ∀ d, d < S.pdim → ∀ u, params.getD d none = some u → nums.getD d 0 ≠ 0 →
      0 < a d ∧ S.kv d ≠ [] ∧ tol' = a d * tol) :
    removeKnot (S.affineKvs a b) (affineParams a b params) nums tol' tol2 check
      = ((removeKnot S params nums tol tol2 check).1.affineKvs a b, (removeKnot S params nums tol tol2 check).2) :=
  removeKnot_affineKvs S a b params nums tol tol' tol2 check hreq

/-- … with the same tolerance on every range, a different map per direction (separation hypothesis as above). -/
theorem remove_knot_all_directions_affine_knots_fixed_tolerance (S : Shape K) (a b : ℕ → K)
    (params : List (Option K)) (nums : List ℕ) (tol tol2 : K) (check : Bool) (htol : 0 ≤ tol)
    (hreq : ∀ d, d < S.pdim → ∀ u, params.getD d none = some u → nums.getD d 0 ≠ 0 →
      0 < a d ∧ S.kv d ≠ [] ∧ ∀ y ∈ S.kv d, u = y ∨ (tol < |u - y| ∧ tol < a d * |u - y|)) :
    removeKnot (S.affineKvs a b) (affineParams a b params) nums tol tol2 check
      = ((removeKnot S params nums tol tol2 check).1.affineKvs a b, (removeKnot S params nums tol tol2 check).2) :=
  removeKnot_affineKvs_fixed_tol S a b params nums tol tol2 check htol hreq

/-- **`operations.refine_knotvector`, the whole call** (model `refineKnotvector`; a zero density skips a
    direction): mapped result, "cannot refine" in the same cases.  Only the scaled-tolerance form (`tol' = a d · tol` for
    every requested direction), as for the one-direction theorem. -/
theorem refine_knotvector_all_directions_affine_knots (S : Shape K) (a b : ℕ → K) (dens : List ℕ) (tol tol' : K)
    (hreq : ∀ d, d < S.pdim → dens.getD d 0 ≠ 0 → 0 < a d ∧ S.kv d ≠ [] ∧ tol' = a d * tol) :
    refineKnotvector (S.affineKvs a b) dens tol'
      = ((refineKnotvector S dens tol).1.affineKvs a b, (refineKnotvector S dens tol).2) :=
  refineKnotvector_affineKvs S a b dens tol tol' hreq

/-- **Splitting a shape whose knot vectors are all on other ranges**: the pieces carry normalised knot vectors in
    EVERY direction, so they are identical whatever the ranges of the other directions are (all `a d > 0`; same tolerance,
    separation hypothesis for the split direction). -/
theorem split_all_directions_affine_knots_fixed_tolerance (S : Shape K) (a b : ℕ → K) (dir : ℕ) (u tol : K)
    (ha : ∀ d, 0 < a d) (htol : 0 ≤ tol)
    (hp : S.deg dir < (S.kv dir).length) (hn : S.size dir < (S.kv dir).length)
    (hsep : ∀ y ∈ S.kv dir, u = y ∨ (tol < |u - y| ∧ tol < a dir * |u - y|)) :
    splitDir (S.affineKvs a b) dir (a dir * u + b dir) tol = splitDir S dir u tol :=
  splitDir_affineKvs_fixed_tol S a b dir u tol ha htol hp hn hsep

/-- … with the tolerance scaled with the range of the split direction. -/
theorem split_all_directions_affine_knots (S : Shape K) (a b : ℕ → K) (dir : ℕ) (u tol : K) (ha : ∀ d, 0 < a d)
    (hp : S.deg dir < (S.kv dir).length) (hn : S.size dir < (S.kv dir).length) :
    splitDir (S.affineKvs a b) dir (a dir * u + b dir) (a dir * tol) = splitDir S dir u tol :=
  splitDir_affineKvs S a b dir u tol ha hp hn

/-- degree 2 over `[0,0,0,0,1,1,1]`, 4 points: valid for the setter, first "interior" knot on the domain start -/
def c17EdgeCrv : Shape ℚ :=
  { rat := false, degs := [2], kvs := [[0,0,0,0,1,1,1]], sizes := [4], net := [[0,0],[1,2],[3,1],[4,4]] }

/-- **Bézier decomposition along one direction** (`decompose_curve`, one direction of `decompose_surface`; model
    `decomposeDirE` – what the driver op `decomp` runs: split at the first interior knot `U[p+1 : -(p+1)][0]`, go on with
    the second piece, `none` = the implementation raises: the split is rejected because that knot lies on a domain end
    or is repeated more than `p` times), SAME tolerance on both sides (after the first split both sides work on the
    identical normalised remainder, so a scaled tolerance would be wrong there).  Hypothesis `hsep` is about the first
    interior knot only (if there is one): every knot of the direction is equal to it or further than `tol` away in
    both ranges.  Conclusion: both sides ANSWER THE SAME – both raise (`none`; a rejected first split is an exception on
    both sides, it is NOT "nothing to split") or both return the identical list of pieces – or nothing is split on
    either side because there is no fuel or no interior knot (third conjunct), and each side returns its own object
    untouched (not normalised, hence not equal). -/
theorem decompose_affine_knots (a b : ℕ → K) (ha : ∀ d, 0 < a d) (dir : ℕ) (tol : K) (htol : 0 ≤ tol)
    (fuel : ℕ) (S : Shape K)
    (hp : S.deg dir < (S.kv dir).length) (hn : S.size dir < (S.kv dir).length)
    (hsep : ∀ knot, (((S.kv dir).drop (S.deg dir + 1)).take ((S.kv dir).length - 2 * (S.deg dir + 1))).head? = some knot →
      ∀ y ∈ S.kv dir, knot = y ∨ (tol < |knot - y| ∧ tol < a dir * |knot - y|)) :
    decomposeDirE dir tol fuel (S.affineKvs a b) = decomposeDirE dir tol fuel S
      ∨ (decomposeDirE dir tol fuel (S.affineKvs a b) = some [S.affineKvs a b]
          ∧ decomposeDirE dir tol fuel S = some [S]
          ∧ (fuel = 0 ∨ ((S.kv dir).drop (S.deg dir + 1)).take ((S.kv dir).length - 2 * (S.deg dir + 1)) = [])) :=
  decomposeDirE_affineKvs_fixed_tol a b ha dir tol htol fuel S hp hn hsep

/-- … when there is fuel and an interior knot `knot`, both sides answer the same: both raise (the split at `knot` is
    rejected, or a later one is) or both return the identical pieces.  With `hsplit` (the first split is accepted by
    the code) and no exception later, the common answer is `some` list of at least two pieces
    (`decompose_affine_knots_when_split_pieces`). -/
theorem decompose_affine_knots_when_split (a b : ℕ → K) (ha : ∀ d, 0 < a d) (dir : ℕ) (tol : K) (htol : 0 ≤ tol)
    (fuel : ℕ) (S : Shape K)
    (hp : S.deg dir < (S.kv dir).length) (hn : S.size dir < (S.kv dir).length) (knot : K) (rest : List K)
    (hI : ((S.kv dir).drop (S.deg dir + 1)).take ((S.kv dir).length - 2 * (S.deg dir + 1)) = knot :: rest)
    (hsep : ∀ y ∈ S.kv dir, knot = y ∨ (tol < |knot - y| ∧ tol < a dir * |knot - y|)) :
    decomposeDirE dir tol (fuel + 1) (S.affineKvs a b) = decomposeDirE dir tol (fuel + 1) S :=
  decomposeDirE_affineKvs_of_interior a b ha dir tol fuel S hp hn knot rest hI
    (findMultiplicity_affine_sep knot (S.kv dir) tol (a dir) (b dir) (ha dir) htol hsep)

/-- … and whenever the code does not raise (`decomposeDirE … = some l`) the common answer is the list of pieces of the
    plain model `decomposeDir` that the C07 theorems describe. -/
theorem decompose_affine_knots_when_split_pieces (a b : ℕ → K) (ha : ∀ d, 0 < a d) (dir : ℕ) (tol : K) (htol : 0 ≤ tol)
    (fuel : ℕ) (S : Shape K)
    (hp : S.deg dir < (S.kv dir).length) (hn : S.size dir < (S.kv dir).length) (knot : K) (rest : List K)
    (hI : ((S.kv dir).drop (S.deg dir + 1)).take ((S.kv dir).length - 2 * (S.deg dir + 1)) = knot :: rest)
    (hsep : ∀ y ∈ S.kv dir, knot = y ∨ (tol < |knot - y| ∧ tol < a dir * |knot - y|))
    (l : List (Shape K)) (hl : decomposeDirE dir tol (fuel + 1) S = some l) :
    decomposeDirE dir tol (fuel + 1) (S.affineKvs a b) = some l
      ∧ decomposeDir dir tol (fuel + 1) (S.affineKvs a b) = l ∧ decomposeDir dir tol (fuel + 1) S = l := by
  have h := decomposeDirE_affineKvs_of_interior a b ha dir tol fuel S hp hn knot rest hI
    (findMultiplicity_affine_sep knot (S.kv dir) tol (a dir) (b dir) (ha dir) htol hsep)
  exact ⟨h.trans hl, decomposeDirE_some dir tol _ _ l (h.trans hl), decomposeDirE_some dir tol _ _ l hl⟩

/-- **`decompose_surface(…, decompose_dir='uv')`** (model `decomposeUVE` – what the driver op `decomp … uv` runs: u
    direction first, then every strip in v; `none` = the implementation raises) on the surface with both knot vectors
    on other ranges, same tolerance: both sides answer the same (both raise, or the identical list of patches), or
    neither direction has an interior knot and each side returns its own surface. -/
theorem decompose_uv_affine_knots (a b : ℕ → K) (ha : ∀ d, 0 < a d) (tol : K) (htol : 0 ≤ tol) (S : Shape K)
    (hp0 : S.deg 0 < (S.kv 0).length) (hn0 : S.size 0 < (S.kv 0).length)
    (hp1 : S.deg 1 < (S.kv 1).length) (hn1 : S.size 1 < (S.kv 1).length)
    (hsep0 : ∀ knot, (((S.kv 0).drop (S.deg 0 + 1)).take ((S.kv 0).length - 2 * (S.deg 0 + 1))).head? = some knot →
      ∀ y ∈ S.kv 0, knot = y ∨ (tol < |knot - y| ∧ tol < a 0 * |knot - y|))
    (hsep1 : ∀ knot, (((S.kv 1).drop (S.deg 1 + 1)).take ((S.kv 1).length - 2 * (S.deg 1 + 1))).head? = some knot →
      ∀ y ∈ S.kv 1, knot = y ∨ (tol < |knot - y| ∧ tol < a 1 * |knot - y|)) :
    decomposeUVE tol (S.affineKvs a b) = decomposeUVE tol S
      ∨ (decomposeUVE tol (S.affineKvs a b) = some [S.affineKvs a b] ∧ decomposeUVE tol S = some [S]
          ∧ ((S.kv 0).drop (S.deg 0 + 1)).take ((S.kv 0).length - 2 * (S.deg 0 + 1)) = []
          ∧ ((S.kv 1).drop (S.deg 1 + 1)).take ((S.kv 1).length - 2 * (S.deg 1 + 1)) = []) :=
  decomposeUVE_affineKvs_fixed_tol a b ha tol htol S hp0 hn0 hp1 hn1 hsep0 hsep1

/-- … when the u direction has an interior knot, both sides answer the same (both raise, or identical patches) and the
    range of the v direction plays no role (no hypothesis about it: the strips are normalised in both directions
    before they are split in v). -/
theorem decompose_uv_affine_knots_when_split (a b : ℕ → K) (ha : ∀ d, 0 < a d) (tol : K) (htol : 0 ≤ tol) (S : Shape K)
    (hp0 : S.deg 0 < (S.kv 0).length) (hn0 : S.size 0 < (S.kv 0).length) (knot : K) (rest : List K)
    (hI : ((S.kv 0).drop (S.deg 0 + 1)).take ((S.kv 0).length - 2 * (S.deg 0 + 1)) = knot :: rest)
    (hsep : ∀ y ∈ S.kv 0, knot = y ∨ (tol < |knot - y| ∧ tol < a 0 * |knot - y|)) :
    decomposeUVE tol (S.affineKvs a b) = decomposeUVE tol S :=
  decomposeUVE_affineKvs_of_interior a b ha tol S hp0 hn0 knot rest hI
    (findMultiplicity_affine_sep knot (S.kv 0) tol (a 0) (b 0) (ha 0) htol hsep)

/-- **the rejected first split is an exception on both knot ranges** (audit-4 H1): the curve of degree 2 over
    `[0,0,0,0,1,1,1]` (accepted by the knot-vector setter; the first knot of `U[p+1 : -(p+1)]` is `U_3 = 0 = U_p`), 4
    points – `decompose_curve` raises "Cannot split from the domain edge"; `decomposeDirE` answers `none`, on the
    range `[3, 5]` as well, while the plain `decomposeDir` would return the curve itself. -/
theorem decompose_rejected_first_split_raises_on_both_ranges :
    (decomposeDirE 0 (1/100 : ℚ) 7 c17EdgeCrv).isNone = true
      ∧ (decomposeDirE 0 (1/100 : ℚ) 7 (c17EdgeCrv.affineKvs (fun _ => 2) (fun _ => 3))).isNone = true
      ∧ (decomposeDir 0 (1/100 : ℚ) 7 c17EdgeCrv).map (·.kvs) = [[[0,0,0,0,1,1,1]]] := by decide +kernel

/-- the hypotheses of `decompose_affine_knots` hold on that curve (`u ↦ 2·u + 3`, tolerance `1/100`): the theorem
    applies, and what it says there is "both raise" -/
example : decomposeDirE 0 (1/100) 7 (c17EdgeCrv.affineKvs (fun _ => 2) (fun _ => 3)) = decomposeDirE 0 (1/100) 7 c17EdgeCrv := by
  rcases decompose_affine_knots (fun _ => 2) (fun _ => 3) (fun _ => by norm_num) 0 (1/100) (by norm_num) 7 c17EdgeCrv
    (by decide) (by decide)
    (by
      intro knot hk y hy
      have hk' : knot = 0 := by
        have : (((c17EdgeCrv.kv 0).drop (c17EdgeCrv.deg 0 + 1)).take
            ((c17EdgeCrv.kv 0).length - 2 * (c17EdgeCrv.deg 0 + 1))).head? = some (0:ℚ) := by decide +kernel
        rw [this] at hk; exact (Option.some.inj hk).symm
      subst hk'
      have : y = 0 ∨ y = 1 := by
        simp [c17EdgeCrv, Shape.kv] at hy; rcases hy with h | h <;> simp [h]
      rcases this with rfl | rfl
      · left; rfl
      · right; constructor <;> norm_num) with h | ⟨_, h, _⟩
  · exact h
  · exact absurd h (by
      have := decompose_rejected_first_split_raises_on_both_ranges.1
      intro h'; rw [h'] at this; cases this)

/-! #### the hypotheses are satisfiable: a degree 2 × 1 surface (4 × 3 points), `u ↦ 2·u + 3`, `v ↦ 3·v − 1`
    (`Lemmas/KnotRangeFoldWitness.lean`) -/
section witness_all_directions

/-- both directions requested (`u = 1/2 ↦ 4`, `v = 2 ↦ 5`, once each), different maps per direction, the same
    tolerance `1/100` on both sides -/
example : insertKnot (krSurf.affineKvs krA krB) (affineParams krA krB [some (1/2), some 2]) [1, 1] (1/100) true
    = ((insertKnot krSurf [some (1/2), some 2] [1, 1] (1/100) true).1.affineKvs krA krB,
       (insertKnot krSurf [some (1/2), some 2] [1, 1] (1/100) true).2) := by
  refine insert_knot_all_directions_affine_knots_fixed_tolerance krSurf krA krB _ _ (1/100) true (by norm_num) ?_
  intro d hd u hu hn
  have hd' : d = 0 ∨ d = 1 := by change d < 2 at hd; omega
  rcases hd' with rfl | rfl
  · obtain rfl : (1/2 : ℚ) = u := by simpa using hu
    exact ⟨by decide +kernel, by decide, by decide +kernel⟩
  · obtain rfl : (2 : ℚ) = u := by simpa using hu
    exact ⟨by decide +kernel, by decide, by decide +kernel⟩

/-- … the call completes, and what the two sides are: knot vectors `[3,3,3,4,5,7,7,7]`, `[-1,-1,2,5,8,8]`, a 5 × 4 net -/
example : (insertKnot krSurf [some (1/2), some 2] [1, 1] (1/100) true).2 = true
    ∧ ((insertKnot krSurf [some (1/2), some 2] [1, 1] (1/100) true).1.affineKvs krA krB).kvs
        = [[3,3,3,4,5,7,7,7], [-1,-1,2,5,8,8]]
    ∧ (insertKnot krSurf [some (1/2), some 2] [1, 1] (1/100) true).1.sizes = [5, 4]
    ∧ (affineParams krA krB [some (1/2), some 2]) = [some 4, some 5] := by decide +kernel

/-- one common factor `2` (shifts `3` and `-1`), tolerance scaled `1/100 ↦ 1/50` -/
example : insertKnot (krSurf.affineKvs (fun _ => 2) krB) (affineParams (fun _ => 2) krB [some (1/2), some 2]) [1, 1]
      (2 * (1/100)) true
    = ((insertKnot krSurf [some (1/2), some 2] [1, 1] (1/100) true).1.affineKvs (fun _ => 2) krB,
       (insertKnot krSurf [some (1/2), some 2] [1, 1] (1/100) true).2) := by
  refine insert_knot_all_directions_affine_knots krSurf (fun _ => 2) krB _ _ (1/100) _ true ?_
  intro d hd u _ _
  have hd' : d = 0 ∨ d = 1 := by change d < 2 at hd; omega
  rcases hd' with rfl | rfl <;> exact ⟨by norm_num, by decide, rfl⟩

/-- removal of the interior knot `1` of both directions (generous removability tolerance: both are removed) -/
example : removeKnot (krSurf.affineKvs krA krB) (affineParams krA krB [some 1, some 1]) [1, 1] (1/100) 1000 true
    = ((removeKnot krSurf [some 1, some 1] [1, 1] (1/100) 1000 true).1.affineKvs krA krB,
       (removeKnot krSurf [some 1, some 1] [1, 1] (1/100) 1000 true).2) := by
  refine remove_knot_all_directions_affine_knots_fixed_tolerance krSurf krA krB _ _ (1/100) 1000 true (by norm_num) ?_
  intro d hd u hu hn
  have hd' : d = 0 ∨ d = 1 := by change d < 2 at hd; omega
  rcases hd' with rfl | rfl
  · obtain rfl : (1 : ℚ) = u := by simpa using hu
    exact ⟨by decide +kernel, by decide, by decide +kernel⟩
  · obtain rfl : (1 : ℚ) = u := by simpa using hu
    exact ⟨by decide +kernel, by decide, by decide +kernel⟩

example : (removeKnot krSurf [some 1, some 1] [1, 1] (1/100) 1000 true).2 = true
    ∧ (removeKnot krSurf [some 1, some 1] [1, 1] (1/100) 1000 true).1.sizes = [3, 2] := by decide +kernel

/-- refinement of both directions, density 1, common factor `2` -/
example : refineKnotvector (krSurf.affineKvs (fun _ => 2) krB) [1, 1] (2 * (1/100))
    = ((refineKnotvector krSurf [1, 1] (1/100)).1.affineKvs (fun _ => 2) krB,
       (refineKnotvector krSurf [1, 1] (1/100)).2) := by
  refine refine_knotvector_all_directions_affine_knots krSurf (fun _ => 2) krB _ (1/100) _ ?_
  intro d hd _
  have hd' : d = 0 ∨ d = 1 := by change d < 2 at hd; omega
  rcases hd' with rfl | rfl <;> exact ⟨by norm_num, by decide, rfl⟩

example : (refineKnotvector krSurf [1, 1] (1/100)).2 = true
    ∧ (refineKnotvector krSurf [1, 1] (1/100)).1.sizes = [9, 5] := by decide +kernel

/-- `decompose_surface` in both directions: 2 × 2 Bézier patches, identical from both knot ranges -/
example : decomposeUVE (1/100) (krSurf.affineKvs krA krB) = decomposeUVE (1/100) krSurf :=
  decompose_uv_affine_knots_when_split krA krB (fun d => by unfold krA; split <;> norm_num) (1/100) (by norm_num) krSurf
    (by decide) (by decide) 1 [] (by decide +kernel) (by decide +kernel)

/-- … the code does not raise here: 4 patches -/
example : (decomposeUVE (1/100) krSurf).map List.length = some 4 ∧ krSurf.affineKvs krA krB ≠ krSurf := by
  refine ⟨by decide +kernel, fun h => ?_⟩
  have : (krSurf.affineKvs krA krB).kvs = krSurf.kvs := by rw [h]
  revert this
  decide +kernel

end witness_all_directions

/-! ### the binary span search never fails on the domain -/

/-- **Selecting the binary span search never makes a valid call fail**: for every parameter of the domain
    `U p ≤ u ≤ U n` (`n ≥ p + 1` control points) and every tolerance `0 < tol < 1/2` (`htol`, `htol2`: the range on which
    the model's start index `(p + n + 1) / 2` is the code's `int(round((low + high) / 2 + tol))`; the shipped value is
    `10e-6`.  With `tol = 9` the real code starts at `mid = 16` on a 15-knot vector and raises `IndexError`),
    `find_span_binsearch` returns – the model's fuel is never exhausted – for ANY knot function (neither sortedness
    nor the F-17b tolerance hypothesis of `span_search_choice` is needed for this part). -/
theorem binary_search_never_fails (p : ℕ) (U : ℕ → K) (n : ℕ) (u tol : K) (hpn : p + 1 ≤ n)
    (hlo : U p ≤ u) (hhi : u ≤ U n) (htol : 0 < tol) (htol2 : 2 * tol < 1) : (findSpanBin p U n u tol).isSome = true :=
  findSpanBin_isSome p U n u tol hpn hlo hhi htol.le

/-- What it returns: `n - 1` inside the tolerance shortcut at the domain end, otherwise an index whose
    half-open knot interval contains the parameter. -/
theorem binary_search_result (p : ℕ) (U : ℕ → K) (n : ℕ) (u tol : K) (hpn : p + 1 ≤ n)
    (hlo : U p ≤ u) (hhi : u ≤ U n) (htol : 0 < tol) (htol2 : 2 * tol < 1) :
    ∃ k, findSpanBin p U n u tol = some k ∧
      ((absK (U n - u) ≤ tol ∧ k = n - 1) ∨ (¬ absK (U n - u) ≤ tol ∧ U k ≤ u ∧ u < U (k+1))) :=
  findSpanBin_returns p U n u tol hpn hlo hhi htol.le

/-- On a sorted knot vector the returned index is a legal span index (`p ≤ k < n`), so every evaluator that
    uses it indexes inside the control net. -/
theorem binary_search_returns_legal_span (p : ℕ) (U : ℕ → K) (n : ℕ) (u tol : K) (hpn : p + 1 ≤ n) (hm : Monotone U)
    (hlo : U p ≤ u) (hhi : u ≤ U n) (htol : 0 < tol) (htol2 : 2 * tol < 1) :
    ∃ k, findSpanBin p U n u tol = some k ∧ p ≤ k ∧ k < n :=
  findSpanBin_in_range p U n u tol hpn hm hlo hhi htol.le

/-- The binary search is itself independent of the knot range (tolerance scaled with the range; an equality of two
    model evaluations – each side is the code's routine only when its tolerance lies in `(0, 1/2)`, see above). -/
theorem binary_search_affine_knots (p : ℕ) (U : ℕ → K) (n : ℕ) (u tol a b : K) (ha : 0 < a) :
    findSpanBin p (fun i => a * U i + b) n (a * u + b) (a * tol) = findSpanBin p U n u tol :=
  findSpanBin_affine p U n u tol a b ha

/-! ### the hypotheses are satisfiable: concrete instances over ℚ

degree 2, knot vector `[0,0,0,1,2,2,4,5,5,5]`, seven control points in dimension 3 (read as homogeneous points with
positive weights in the rational examples), the affine map `x ↦ 3·x + 7` (`Lemmas/ConfigWitness.lean`). -/
section witness

/-- chain rule, instantiated: third-order jet at `3/2 ↦ 23/2` … -/
example : curveDers 2 (fun i => 3 * fnOf cfgKv i + 7) cfgNet (3 * (3/2) + 7) 3
    = scaleJet (3 : ℚ)⁻¹ (curveDers 2 (fnOf cfgKv) cfgNet (3/2) 3) :=
  curve_derivatives_affine_knots 2 (fnOf cfgKv) cfgNet (3/2) 3 3 7 (by norm_num)

/-- … whose first derivative is the non-zero vector `[2, 5/2, 3/2]` scaled by `1/3` -/
example : (scaleJet (3 : ℚ)⁻¹ (curveDers 2 (fnOf cfgKv) cfgNet (3/2) 3)).getD 1 [] = [2/3, 5/6, 1/2] := by
  decide +kernel

/-- rational derivatives, instantiated (weights = third coordinate) -/
example : ratCurveDers (curveDers 2 (fun i => 3 * fnOf cfgKv i + 7) cfgNet (3 * (3/2) + 7) 3)
    = scaleJet (3 : ℚ)⁻¹ (ratCurveDers (curveDers 2 (fnOf cfgKv) cfgNet (3/2) 3)) :=
  rational_curve_derivatives_affine_knots 2 (fnOf cfgKv) cfgNet (3/2) 3 3 7 (by norm_num)

/-- normalised knot vector: range length `5`, so the second derivative is multiplied by `25` -/
example : curveDers 2 (fnOf (knotNormalize cfgKv)) cfgNet ((3/2 - 0) / (5 - 0)) 2
    = scaleJet 5 (curveDers 2 (fnOf cfgKv) cfgNet (3/2) 2) := by
  have h := curve_derivatives_normalized_knots 2 cfgKv cfgNet (3/2) 2 (by decide) (by decide +kernel)
  simpa [cfgKv] using h

/-- evaluators as coded, instantiated on the span `[1, 2)` (index 3): second derivative and the (zero) third one,
    coordinate 1 -/
example : ((curveDersA32 2 (fnOf cfgKv) cfgNet 3 (3/2) 3).getD 2 []).getD 1 0
    = ((curveDersAt 2 (fnOf cfgKv) cfgNet 3 (3/2) 3).getD 2 []).getD 1 0 :=
  curve_evaluators_as_coded_agree 2 (fnOf cfgKv) cfgNet 3 (3/2) 3 1 3 2 (by omega) (by decide)
    cfgNet_ok cfgKv_mono (by decide +kernel) (by omega)
example : (curveDersA32 2 (fnOf cfgKv) cfgNet 3 (3/2) 3).getD 2 [] = (curveDersAt 2 (fnOf cfgKv) cfgNet 3 (3/2) 3).getD 2 []
    ∧ (curveDersA32 2 (fnOf cfgKv) cfgNet 3 (3/2) 3).getD 2 [] ≠ [0, 0, 0] := by decide +kernel

/-- the default evaluator under `x ↦ 3·x + 7`, at the right end `u = 5` of the domain, first derivative -/
example (j : ℕ) :
    ((curveDersA32 2 (fun i => 3 * fnOf cfgKv i + 7) cfgNet
        (findSpanLinear 2 (fun i => 3 * fnOf cfgKv i + 7) cfgNet.length (3 * 5 + 7)) (3 * 5 + 7) 2).getD 1 []).getD j 0
      = (3 : ℚ)⁻¹ ^ 1 * ((curveDersA32 2 (fnOf cfgKv) cfgNet (findSpanLinear 2 (fnOf cfgKv) cfgNet.length 5) 5 2).getD 1 []).getD j 0 :=
  default_curve_derivatives_affine_knots 2 (fnOf cfgKv) cfgNet 5 3 2 1 j 3 7 (by norm_num) cfgNet_ok
    ⟨cfgKv_mono, by decide, by decide +kernel⟩ (by decide +kernel) (by decide +kernel) (by omega)

/-- insertion of `3/2 ↦ 23/2` twice: same control points -/
example : knotInsertion 2 (fun i => 3 * fnOf cfgKv i + 7) cfgNet (3 * (3/2) + 7) 2 0 3
    = knotInsertion 2 (fnOf cfgKv) cfgNet (3/2) 2 0 3 :=
  insertion_affine_knots 2 (fnOf cfgKv) cfgNet (3/2) 2 0 3 3 7 (by norm_num)

/-- refinement of the whole example curve, density 1, tolerance `1/100 ↦ 3/100`: not the "cannot refine" case -/
example : (knotRefinement 2 (cfgKv.map (fun y => 3 * y + 7)) cfgNet 1 (3 * (1/100))).isSome = true
    ∧ knotRefinement 2 (cfgKv.map (fun y => 3 * y + 7)) cfgNet 1 (3 * (1/100))
      = (knotRefinement 2 cfgKv cfgNet 1 (1/100)).map (fun r => (r.1.map (fun y => 3 * y + 7), r.2)) :=
  ⟨by decide +kernel, refinement_affine_knots 2 cfgKv cfgNet 1 (1/100) 3 7 (by norm_num) (by decide)⟩

/-- splitting the example curve at `3/2 ↦ 23/2`: accepted, identical pieces -/
example : (splitDir cfgShape 0 (3/2) (1/100)).isSome = true
    ∧ splitDir (cfgShape.affineKv 0 3 7) 0 (3 * (3/2) + 7) (3 * (1/100)) = splitDir cfgShape 0 (3/2) (1/100) :=
  ⟨by decide +kernel, split_affine_knots cfgShape 0 (3/2) (1/100) 3 7 (by norm_num) (by decide) (by decide)⟩

/-- the same split with the tolerance `1/100` on both ranges (knots at distance `≥ 1/2` from `3/2`) -/
example : splitDir (cfgShape.affineKv 0 3 7) 0 (3 * (3/2) + 7) (1/100) = splitDir cfgShape 0 (3/2) (1/100) :=
  split_affine_knots_fixed_tolerance cfgShape 0 (3/2) (1/100) 3 7 (by norm_num) (by norm_num) (by decide) (by decide)
    (by decide +kernel)

/-- removal of the interior knot `1` of the example curve (not removable within tolerance 0: the net is
    returned with one point less only if the test passes – both sides agree whatever the outcome) -/
example : knotRemoval 2 (fun i => 3 * fnOf cfgKv i + 7) cfgNet (3 * 1 + 7) 1 1 3 0
    = knotRemoval 2 (fnOf cfgKv) cfgNet 1 1 1 3 0 :=
  removal_affine_knots 2 (fnOf cfgKv) cfgNet 1 1 1 3 0 3 7 (by norm_num)

/-- the binary search on the example knot vector at the domain end `u = 5` (the tolerance shortcut) and
    at an interior parameter -/
example : findSpanBin 2 (fnOf cfgKv) 7 5 (1/100) = some 6 ∧ findSpanBin 2 (fnOf cfgKv) 7 (3/2) (1/100) = some 3 := by
  decide +kernel

example : (findSpanBin 2 (fnOf cfgKv) 7 (3/2) (1/100)).isSome = true :=
  binary_search_never_fails 2 (fnOf cfgKv) 7 (3/2) (1/100) (by omega) (by decide +kernel) (by decide +kernel)
    (by norm_num) (by norm_num)

end witness

/-! ### evaluation with `find_span_binsearch` selected (the C01 statements for the other search function)

The evaluators call `self._span_func(degree, knotvector, size, u)` and run the span-level routine on the index returned;
with `find_span_func=helpers.find_span_binsearch` that is `findSpanBin` with the shipped tolerance.  `BinTolOk U n u tol`
(`Lemmas/SpanBinEval.lean`) collects the tolerance hypotheses of `span_search_choice`: `0 < tol`, `2·tol < 1`, and
`|U_n − u| ≤ tol → U_{n-1} ≤ u` (the shortcut at the domain end only fires for parameters of the last span – what recorded
finding F-17b violates).  `KnotsOk p U n`: non-decreasing, `p + 1 ≤ n`, non-empty last span `U_{n-1} < U_n`. -/

/-- `BinTolOk` holds for EVERY parameter of the domain when the last span is longer than the tolerance
    (`tol < U_n − U_{n-1}`), and for every parameter that is the domain end itself or further than `tol` from it. -/
theorem binsearch_tolerance_admissible (U : ℕ → K) (hm : Monotone U) (n : ℕ) (u tol : K) (h0 : 0 < tol) (h1 : 2 * tol < 1) :
    (tol < U n - U (n - 1) → u ≤ U n → BinTolOk U n u tol) ∧
    (u = U n ∨ tol < U n - u → BinTolOk U n u tol) :=
  ⟨fun h hu => BinTolOk.of_last_span U n u tol h0 h1 h hu, fun h => BinTolOk.of_far U hm n u tol h0 h1 h⟩

/-- **What the selected binary search finds on the closed domain** (the analogue of C01 `domain_span_found`): it
    returns an index `k`, the one the linear search returns; `p ≤ k < n`, the span is non-empty and contains `u`
    (closed on the right); for `u < U_n` it is the half-open knot interval of `u`, for `u = U_n` the last span. -/
theorem binsearch_span_found (p : ℕ) (U : ℕ → K) (n : ℕ) (hU : KnotsOk p U n) (u tol : K)
    (hlo : U p ≤ u) (hhi : u ≤ U n) (ht : BinTolOk U n u tol) :
    ∃ k, findSpanBin p U n u tol = some k ∧ k = findSpanLinear p U n u ∧ p ≤ k ∧ k < n ∧
      U k ≤ u ∧ u ≤ U (k + 1) ∧ U k < U (k + 1) ∧ (u < U n → u < U (k + 1)) ∧ (u = U n → k = n - 1) :=
  findSpanBin_dom hU u tol hlo hhi ht

/-- … hence whatever an evaluator computes from the span (`F`: any of `curvePointAt`, `curveDersA32`, `surfaceDersA36`
    in one direction, …) is the value computed from the linear search's span. -/
theorem binsearch_selected_any_span_function {α : Type} (F : ℕ → α) (p : ℕ) (U : ℕ → K) (n : ℕ) (hU : KnotsOk p U n)
    (u tol : K) (hlo : U p ≤ u) (hhi : u ≤ U n) (ht : BinTolOk U n u tol) :
    (findSpanBin p U n u tol).map F = some (F (findSpanLinear p U n u)) :=
  findSpanBin_map F hU u tol hlo hhi ht

/-- **Curves, binary search selected, every parameter of the closed domain** `[U_p, U_n]`: the search returns a span
    `k`, and the point `evaluate_single` computes on it (`curvePointAt … k`) is the point computed with the default
    search, every coordinate of it is the sum over ALL control points of the Cox–de Boor recursion of span `k`
    (`cdbSpan`, the left-limit convention at `u = U_n`, cf. C01) times control point, and for `u < U_n` the sum with the
    Cox–de Boor functions `cdb` themselves. -/
theorem curve_eval_binsearch_selected (p : ℕ) (U : ℕ → K) (P : List (List K)) (u tol : K) (d : ℕ)
    (hU : KnotsOk p U P.length) (hP : NetOk d P) (hlo : U p ≤ u) (hhi : u ≤ U P.length)
    (ht : BinTolOk U P.length u tol) :
    ∃ k, findSpanBin p U P.length u tol = some k ∧
      curvePointAt p U P k u = curvePoint p U P u ∧
      (∀ j, (curvePointAt p U P k u).getD j 0
        = ∑ i ∈ Finset.range P.length, cdbSpan U k p i u * (ptsGet P i).getD j 0) ∧
      (u < U P.length → ∀ j, (curvePointAt p U P k u).getD j 0
        = ∑ i ∈ Finset.range P.length, cdb U p i u * (ptsGet P i).getD j 0) :=
  curvePoint_binsearch p U P u tol d hU hP hlo hhi ht

/-- **Rational curves, binary search selected, closed domain, positive weights**: the weight of the homogeneous point
    computed on the span found is positive and the projected point is (Σ N_i w_i P_i) / (Σ N_i w_i) coordinatewise. -/
theorem rational_curve_eval_binsearch_selected (p : ℕ) (U : ℕ → K) (Pw : List (List K)) (u tol : K) (d : ℕ)
    (hU : KnotsOk p U Pw.length) (hP : NetOk (d+1) Pw) (hlo : U p ≤ u) (hhi : u ≤ U Pw.length)
    (hwt : ∀ i, i < Pw.length → 0 < (ptsGet Pw i).getD d 0) (ht : BinTolOk U Pw.length u tol) :
    ∃ k, findSpanBin p U Pw.length u tol = some k ∧
      0 < (curvePointAt p U Pw k u).getD d 0 ∧
      ∀ j, j < d → (project (curvePointAt p U Pw k u)).getD j 0
        = (∑ i ∈ Finset.range Pw.length, cdbSpan U k p i u * (ptsGet Pw i).getD j 0)
          / (∑ i ∈ Finset.range Pw.length, cdbSpan U k p i u * (ptsGet Pw i).getD d 0) :=
  curvePoint_rational_binsearch p U Pw u tol d hU hP hlo hhi hwt ht

/-- **Surfaces, binary search selected in both directions, closed domain**: tensor-product sums, flat layout
    `v + size_v · u`. -/
theorem surface_eval_binsearch_selected (pu pv : ℕ) (Uu Uv : ℕ → K) (su sv : ℕ) (P : List (List K)) (u v tol : K) (d : ℕ)
    (hUu : KnotsOk pu Uu su) (hUv : KnotsOk pv Uv sv) (hlen : P.length = su * sv) (hP : NetOk d P)
    (hu1 : Uu pu ≤ u) (hu2 : u ≤ Uu su) (hv1 : Uv pv ≤ v) (hv2 : v ≤ Uv sv)
    (htu : BinTolOk Uu su u tol) (htv : BinTolOk Uv sv v tol) :
    ∃ ku kv, findSpanBin pu Uu su u tol = some ku ∧ findSpanBin pv Uv sv v tol = some kv ∧
      surfacePointAt pu pv Uu Uv sv P ku kv u v = surfacePoint pu pv Uu Uv su sv P u v ∧
      (∀ j, (surfacePointAt pu pv Uu Uv sv P ku kv u v).getD j 0
        = ∑ a ∈ Finset.range su, ∑ b ∈ Finset.range sv,
            cdbSpan Uu ku pu a u * cdbSpan Uv kv pv b v * (ptsGet P (b + sv * a)).getD j 0) ∧
      (u < Uu su → v < Uv sv → ∀ j, (surfacePointAt pu pv Uu Uv sv P ku kv u v).getD j 0
        = ∑ a ∈ Finset.range su, ∑ b ∈ Finset.range sv,
            cdb Uu pu a u * cdb Uv pv b v * (ptsGet P (b + sv * a)).getD j 0) :=
  surfacePoint_binsearch pu pv Uu Uv su sv P u v tol d hUu hUv hlen hP hu1 hu2 hv1 hv2 htu htv

/-- **Volumes, binary search selected in the three directions, closed domain**: triple sums, layout
    `v + size_v · (u + size_u · w)`. -/
theorem volume_eval_binsearch_selected (pu pv pw : ℕ) (Uu Uv Uw : ℕ → K) (su sv sw : ℕ) (P : List (List K))
    (u v w tol : K) (d : ℕ)
    (hUu : KnotsOk pu Uu su) (hUv : KnotsOk pv Uv sv) (hUw : KnotsOk pw Uw sw)
    (hlen : P.length = su * sv * sw) (hP : NetOk d P)
    (hu1 : Uu pu ≤ u) (hu2 : u ≤ Uu su) (hv1 : Uv pv ≤ v) (hv2 : v ≤ Uv sv) (hw1 : Uw pw ≤ w) (hw2 : w ≤ Uw sw)
    (htu : BinTolOk Uu su u tol) (htv : BinTolOk Uv sv v tol) (htw : BinTolOk Uw sw w tol) :
    ∃ ku kv kw, findSpanBin pu Uu su u tol = some ku ∧ findSpanBin pv Uv sv v tol = some kv ∧
      findSpanBin pw Uw sw w tol = some kw ∧
      volumePointAt pu pv pw Uu Uv Uw su sv P ku kv kw u v w = volumePoint pu pv pw Uu Uv Uw su sv sw P u v w ∧
      (∀ j, (volumePointAt pu pv pw Uu Uv Uw su sv P ku kv kw u v w).getD j 0
        = ∑ a ∈ Finset.range su, ∑ b ∈ Finset.range sv, ∑ c ∈ Finset.range sw,
            cdbSpan Uu ku pu a u * cdbSpan Uv kv pv b v * cdbSpan Uw kw pw c w *
              (ptsGet P (b + sv * (a + su * c))).getD j 0) ∧
      (u < Uu su → v < Uv sv → w < Uw sw → ∀ j, (volumePointAt pu pv pw Uu Uv Uw su sv P ku kv kw u v w).getD j 0
        = ∑ a ∈ Finset.range su, ∑ b ∈ Finset.range sv, ∑ c ∈ Finset.range sw,
            cdb Uu pu a u * cdb Uv pv b v * cdb Uw pw c w * (ptsGet P (b + sv * (a + su * c))).getD j 0) :=
  volumePoint_binsearch pu pv pw Uu Uv Uw su sv sw P u v w tol d hUu hUv hUw hlen hP hu1 hu2 hv1 hv2 hw1 hw2
    htu htv htw

/-- **Curve derivatives, binary search selected, closed domain**: on the span `k` the search returns, the alternative
    evaluator (`curveDersAt`, A3.3/A3.4) is the model `curveDers` of the default-search call and its entry 0 is the point;
    entry `r ≤ order` of BOTH evaluators as coded (`curveDersAt`; `curveDersA32` = `CurveEvaluator`, the default) is the
    `r`-th derivative (Mathlib's `Polynomial.derivative`, iterated) of the span polynomial of span `k` at `u` (at a knot:
    the derivative from the right; at the right end of the domain: from the left). -/
theorem curve_derivatives_binsearch_selected (p : ℕ) (U : ℕ → K) (P : List (List K)) (u tol : K) (d : ℕ)
    (hU : KnotsOk p U P.length) (hP : NetOk d P) (hlo : U p ≤ u) (hhi : u ≤ U P.length)
    (ht : BinTolOk U P.length u tol) :
    ∃ k, findSpanBin p U P.length u tol = some k ∧
      (∀ order, curveDersAt p U P k u order = curveDers p U P u order) ∧
      (∀ order, (curveDersAt p U P k u order).getD 0 [] = curvePointAt p U P k u) ∧
      (∀ order r j, r ≤ order → ((curveDersAt p U P k u order).getD r []).getD j 0
          = Polynomial.eval u (Polynomial.derivative^[r] (spanPoly p U P k j))) ∧
      (∀ order r j, r ≤ order → ((curveDersA32 p U P k u order).getD r []).getD j 0
          = Polynomial.eval u (Polynomial.derivative^[r] (spanPoly p U P k j))) :=
  curveDers_binsearch p U P u tol d hU hP hlo hhi ht

/-- **Without the tolerance hypothesis the evaluated POINT differs** (recorded finding F-17b at evaluation level): a
    quadratic curve with an interior knot `0.999995` within the tolerance `10⁻⁵` of the domain end, at `u = 0.999992`
    (span 3): the binary search returns span 4 and the point computed on it is `(4.7199…, 2.5599…)`, the curve point is
    `(3.9999…, 3.9999…)`.
    (Closed witness check: a statement about this one concrete input, decided by evaluation.) -/
theorem curve_eval_binsearch_refuted_F17b :
    (findSpanBin 2 (fnOf ([0,0,0,1/2,999995/1000000,1,1,1] : List ℚ)) 5 (999992/1000000) (1/100000)).map
        (fun k => curvePointAt 2 (fnOf ([0,0,0,1/2,999995/1000000,1,1,1] : List ℚ)) [[0,0],[1,2],[3,1],[4,4],[6,0]] k
          (999992/1000000))
      = some [368748/78125, 199994/78125] ∧
    curvePoint 2 (fnOf ([0,0,0,1/2,999995/1000000,1,1,1] : List ℚ)) [[0,0],[1,2],[3,1],[4,4],[6,0]] (999992/1000000)
      = [694430208425347/173608506953125, 694422569672916/173608506953125] := by
  decide +kernel

/-- non-vacuity: the example curve (knots `0,0,0,1,2,2,4,5,5,5`, degree 2, 7 control points), tolerance `1/100`; the last
    span `[4, 5]` is longer than the tolerance, so every parameter of the domain is admissible -/
example : KnotsOk 2 (fnOf cfgKv) cfgNet.length := ⟨cfgKv_mono, by decide, by decide +kernel⟩
example (u : ℚ) (hu : u ≤ fnOf cfgKv 7) : BinTolOk (fnOf cfgKv) 7 u (1/100) :=
  (binsearch_tolerance_admissible (fnOf cfgKv) cfgKv_mono 7 u (1/100) (by norm_num) (by norm_num)).1
    (by decide +kernel) hu
/-- … at `u = 4999/1000`, where the tolerance shortcut fires (`|5 − u| ≤ 1/100`), and at the domain end `u = 5` -/
example : ∃ k, findSpanBin 2 (fnOf cfgKv) cfgNet.length (4999/1000) (1/100) = some k ∧
    curvePointAt 2 (fnOf cfgKv) cfgNet k (4999/1000) = curvePoint 2 (fnOf cfgKv) cfgNet (4999/1000) := by
  obtain ⟨k, h1, h2, _⟩ := curve_eval_binsearch_selected 2 (fnOf cfgKv) cfgNet (4999/1000) (1/100) 3
    ⟨cfgKv_mono, by decide, by decide +kernel⟩ cfgNet_ok (by decide +kernel) (by decide +kernel)
    (BinTolOk.of_last_span _ _ _ _ (by norm_num) (by norm_num) (by decide +kernel) (by decide +kernel))
  exact ⟨k, h1, h2⟩
example : findSpanBin 2 (fnOf cfgKv) 7 (4999/1000) (1/100) = some 6 ∧
    absK (fnOf cfgKv 7 - 4999/1000) ≤ 1/100 ∧
    curvePointAt 2 (fnOf cfgKv) cfgNet 6 5 = [7, 7, 1] ∧ curvePoint 2 (fnOf cfgKv) cfgNet 5 = [7, 7, 1] := by
  decide +kernel

/-! ### binary search SELECTED, lifted to the REPAIRED searches (statement audit 5, S1)

The `*_binsearch_selected` theorems above are about `findSpanBin`, the search WITHOUT the step back of the F-01b repair,
and assume `KnotsOk` (non-empty last domain span): `BinTolOk` alone is not enough (`U = [0,0,1,2,4,4,5,5]`, `p = 2`,
`u = 4 = U_n`: `BinTolOk` holds, `findSpanBin` returns the EMPTY span 4, the real code the span 3).  For the code as it is
after the repair – `findSpanBinR`, the literal model of `find_span_binsearch` with its step back – the statements hold
on EVERY valid knot vector (`DomOk`: sorted, `n ≥ p + 1`, `U_p < U_n`; the last domain span may be empty): the span the
selected binary search returns is the span of the repaired linear search, so the point computed on it is the point of
C01's `*_eval_repaired_closed` theorems.  `hend`: the tolerance shortcut `|U_n − u| ≤ tol` only fires for parameters of
the last NON-EMPTY span (what F-17b violates); `0 < tol`, `2·tol < 1`: the start index of the bisection is the code's. -/

/-- **Curves, repaired binary search selected, closed domain of every valid knot vector**: the search returns the span
    of the repaired linear search, the point computed on it is `curvePointR` (the evaluation C01
    `curve_eval_repaired_closed` speaks about), and every coordinate is the sum over all control points of the
    Cox–de Boor recursion of that (legal, non-empty) span. -/
theorem curve_eval_binsearchR_selected (p d : ℕ) (U : ℕ → K) (P : List (List K)) (hU : DomOk p U P.length)
    (hP : NetOk d P) (u tol : K) (hlo : U p ≤ u) (hhi : u ≤ U P.length) (htol : 0 < tol) (htol2 : 2 * tol < 1)
    (hend : absK (U P.length - u) ≤ tol → U (findSpanLinearR p U P.length (U P.length)) ≤ u) :
    ∃ k, findSpanBinR p U P.length u tol = some k ∧ k = findSpanLinearR p U P.length u ∧
      p ≤ k ∧ k < P.length ∧ U k < U (k + 1) ∧ U k ≤ u ∧ u ≤ U (k + 1) ∧
      curvePointAt p U P k u = curvePointR p U P u ∧
      ∀ j, (curvePointAt p U P k u).getD j 0
        = ∑ i ∈ Finset.range P.length, cdbSpan U k p i u * (ptsGet P i).getD j 0 := by
  obtain ⟨a1, a2, a3, a4, a5, _⟩ := findSpanLinearR_dom p U P.length u hU.pn hU.mono hU.dom hlo hhi
  exact ⟨_, Geomdl.findSpanBinR_eq_linearR p U P.length u tol hU.pn hU.mono hlo hhi (le_of_lt htol) hend, rfl,
    a1, a2, a3, a4, a5, rfl, fun j => curvePointR_eq_cdbSpan p U P u d j hU.pn hP⟩

/-- **Surfaces, repaired binary search selected in both directions**: the two spans are the spans of the repaired
    linear search and the point computed on them is `surfacePointR` (C01 `surface_eval_repaired_closed`,
    `rational_surface_eval_repaired_closed`). -/
theorem surface_eval_binsearchR_selected (pu pv : ℕ) (Uu Uv : ℕ → K) (su sv : ℕ) (P : List (List K))
    (hUu : DomOk pu Uu su) (hUv : DomOk pv Uv sv) (u v tol : K)
    (hu1 : Uu pu ≤ u) (hu2 : u ≤ Uu su) (hv1 : Uv pv ≤ v) (hv2 : v ≤ Uv sv) (htol : 0 < tol) (htol2 : 2 * tol < 1)
    (hendu : absK (Uu su - u) ≤ tol → Uu (findSpanLinearR pu Uu su (Uu su)) ≤ u)
    (hendv : absK (Uv sv - v) ≤ tol → Uv (findSpanLinearR pv Uv sv (Uv sv)) ≤ v) :
    ∃ ku kv, findSpanBinR pu Uu su u tol = some ku ∧ findSpanBinR pv Uv sv v tol = some kv ∧
      ku = findSpanLinearR pu Uu su u ∧ kv = findSpanLinearR pv Uv sv v ∧
      surfacePointAt pu pv Uu Uv sv P ku kv u v = surfacePointR pu pv Uu Uv su sv P u v :=
  ⟨_, _, Geomdl.findSpanBinR_eq_linearR pu Uu su u tol hUu.pn hUu.mono hu1 hu2 (le_of_lt htol) hendu,
    Geomdl.findSpanBinR_eq_linearR pv Uv sv v tol hUv.pn hUv.mono hv1 hv2 (le_of_lt htol) hendv, rfl, rfl, rfl⟩

/-- **Volumes, repaired binary search selected in the three directions** (C01 `volume_eval_repaired_closed`). -/
theorem volume_eval_binsearchR_selected (pu pv pw : ℕ) (Uu Uv Uw : ℕ → K) (su sv sw : ℕ) (P : List (List K))
    (hUu : DomOk pu Uu su) (hUv : DomOk pv Uv sv) (hUw : DomOk pw Uw sw) (u v w tol : K)
    (hu1 : Uu pu ≤ u) (hu2 : u ≤ Uu su) (hv1 : Uv pv ≤ v) (hv2 : v ≤ Uv sv) (hw1 : Uw pw ≤ w) (hw2 : w ≤ Uw sw)
    (htol : 0 < tol) (htol2 : 2 * tol < 1)
    (hendu : absK (Uu su - u) ≤ tol → Uu (findSpanLinearR pu Uu su (Uu su)) ≤ u)
    (hendv : absK (Uv sv - v) ≤ tol → Uv (findSpanLinearR pv Uv sv (Uv sv)) ≤ v)
    (hendw : absK (Uw sw - w) ≤ tol → Uw (findSpanLinearR pw Uw sw (Uw sw)) ≤ w) :
    ∃ ku kv kw, findSpanBinR pu Uu su u tol = some ku ∧ findSpanBinR pv Uv sv v tol = some kv ∧
      findSpanBinR pw Uw sw w tol = some kw ∧
      volumePointAt pu pv pw Uu Uv Uw su sv P ku kv kw u v w = volumePointR pu pv pw Uu Uv Uw su sv sw P u v w :=
  ⟨_, _, _, Geomdl.findSpanBinR_eq_linearR pu Uu su u tol hUu.pn hUu.mono hu1 hu2 (le_of_lt htol) hendu,
    Geomdl.findSpanBinR_eq_linearR pv Uv sv v tol hUv.pn hUv.mono hv1 hv2 (le_of_lt htol) hendv,
    Geomdl.findSpanBinR_eq_linearR pw Uw sw w tol hUw.pn hUw.mono hw1 hw2 (le_of_lt htol) hendw, rfl⟩

/-- **Derivatives with the repaired binary search selected** (closed domain of every valid knot vector, `DomOk`): the
    derivative tables of every evaluator computed on the span(s) the selected binary search returns – A3.3/A3.4
    (`curveDersAt`), A3.2 as coded (`curveDersA32`), the tensor-formula tables (`surfaceDersAt`), A3.6 as coded
    (`surfaceDersA36`), A3.7 + A3.8 as coded (`surfaceDersA38`) – ARE the tables on the spans of the repaired linear
    search (`curveDersR`, `curveDersA32R`, `surfaceDersR`, `surfaceDersA36R`, `surfaceDersA38R`), i.e. the tables C02's
    `…_repaired_on_domain` theorems identify with the true (mixed) derivatives. -/
theorem derivatives_binsearchR_selected (pu pv : ℕ) (Uu Uv : ℕ → K) (su sv : ℕ) (P : List (List K))
    (hUu : DomOk pu Uu su) (hUv : DomOk pv Uv sv) (u v tol : K)
    (hu1 : Uu pu ≤ u) (hu2 : u ≤ Uu su) (hv1 : Uv pv ≤ v) (hv2 : v ≤ Uv sv) (htol : 0 < tol) (htol2 : 2 * tol < 1)
    (hendu : absK (Uu su - u) ≤ tol → Uu (findSpanLinearR pu Uu su (Uu su)) ≤ u)
    (hendv : absK (Uv sv - v) ≤ tol → Uv (findSpanLinearR pv Uv sv (Uv sv)) ≤ v) (order : ℕ) :
    ∃ ku kv, findSpanBinR pu Uu su u tol = some ku ∧ findSpanBinR pv Uv sv v tol = some kv ∧
      (su = P.length → curveDersAt pu Uu P ku u order = curveDersR pu Uu P u order ∧
        curveDersA32 pu Uu P ku u order = curveDersA32R pu Uu P u order) ∧
      (∀ tri, surfaceDersAt pu pv Uu Uv sv P ku kv u v order tri = surfaceDersR pu pv Uu Uv su sv P u v order tri) ∧
      surfaceDersA36 pu pv Uu Uv sv P ku kv u v order = surfaceDersA36R pu pv Uu Uv su sv P u v order ∧
      surfaceDersA38 pu pv Uu Uv su sv P ku kv u v order = surfaceDersA38R pu pv Uu Uv su sv P u v order :=
  ⟨_, _, Geomdl.findSpanBinR_eq_linearR pu Uu su u tol hUu.pn hUu.mono hu1 hu2 (le_of_lt htol) hendu,
    Geomdl.findSpanBinR_eq_linearR pv Uv sv v tol hUv.pn hUv.mono hv1 hv2 (le_of_lt htol) hendv,
    fun h => by subst h; exact ⟨rfl, rfl⟩, fun _ => rfl, rfl, rfl⟩

/-- non-vacuity, on the audit's witness: `U = [0,0,1,2,4,4,5,5]`, degree 2, five control points, `u = 4 = U_n` (EMPTY last
    span), `tol = 10⁻⁵`: the repaired binary search returns span 3 and the point is the repaired evaluation `(3, 1)` -/
example : ∃ k, findSpanBinR 2 (fnOf ([0,0,1,2,4,4,5,5] : List ℚ)) 5 4 (1/100000) = some k ∧ k = 3 ∧
    curvePointAt 2 (fnOf ([0,0,1,2,4,4,5,5] : List ℚ)) [[0,0],[1,1],[2,0],[3,1],[4,0]] k 4
      = curvePointR 2 (fnOf ([0,0,1,2,4,4,5,5] : List ℚ)) [[0,0],[1,1],[2,0],[3,1],[4,0]] 4 := by
  obtain ⟨k, h1, h2, _, _, _, _, _, h3, _⟩ := curve_eval_binsearchR_selected 2 2 (fnOf ([0,0,1,2,4,4,5,5] : List ℚ))
    [[0,0],[1,1],[2,0],[3,1],[4,0]] ⟨mono_of_pairwise _ (by decide +kernel), by decide, by decide +kernel⟩
    (by intro pt hpt; simp at hpt; rcases hpt with h | h | h | h | h <;> simp [h]) 4 (1/100000)
    (by decide +kernel) (by decide +kernel) (by norm_num) (by norm_num) (fun _ => by decide +kernel)
  refine ⟨k, h1, ?_, h3⟩
  rw [h2]; decide +kernel
example : curvePointR 2 (fnOf ([0,0,1,2,4,4,5,5] : List ℚ)) [[0,0],[1,1],[2,0],[3,1],[4,0]] 4 = [3, 1] := by
  decide +kernel

end C17
