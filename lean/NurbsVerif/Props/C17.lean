import NurbsVerif.Lemmas.Config
import NurbsVerif.Lemmas.SpanBin
import NurbsVerif.Lemmas.AssembleAffine

/-!
# C17  Results do not depend on configuration choices

* span search function: `findSpanBin = findSpanLinear` (also listed under C03);
* evaluator variant: both derivative evaluators are tied to one model function (C02 correspondence);
* knot range: evaluation with knots `a•U + b` at `a·u + b` equals evaluation with `U` at `u`;
* memoisation: an LRU cache of ANY capacity in front of a function is transparent for EVERY call
  history (what makes answers independent of `GEOMDL_CACHE_SIZE`);
* worker processes: an order-preserving map is `List.map` (runtime part checked by the harness).
-/
namespace C17
open Geomdl Blossom
variable {K : Type} [Field K] [LinearOrder K] [IsStrictOrderedRing K]

theorem span_search_choice (p : ℕ) (U : ℕ → K) (n : ℕ) (u tol : K) (hpn : p + 1 ≤ n)
    (hm : Monotone U) (hlo : U p ≤ u) (hhi : u ≤ U n) (htol : 0 ≤ tol)
    (hend : absK (U n - u) ≤ tol → U (n - 1) ≤ u) :
    findSpanBin p U n u tol = some (findSpanLinear p U n u) :=
  findSpanBin_eq_linear p U n u tol hpn hm hlo hhi htol hend

/-- knot range: span search … -/
theorem span_affine_knots (p : ℕ) (U : ℕ → K) (n : ℕ) (u a b : K) (ha : 0 < a) :
    findSpanLinear p (fun i => a * U i + b) n (a * u + b) = findSpanLinear p U n u :=
  findSpanLinear_affine p U n u a b ha

/-- … basis functions … -/
theorem basis_affine_knots (U : ℕ → K) (κ : ℕ) (u a b : K) (ha : a ≠ 0) (p : ℕ) :
    basisFuns p (fun i => a * U i + b) κ (a * u + b) = basisFuns p U κ u :=
  basisFuns_affine U κ u a b ha p

/-- … and therefore every evaluated curve point are unchanged when knots and parameter are mapped
    by the same increasing affine map (normalised vs original knot range). -/
theorem curve_point_affine_knots (p : ℕ) (U : ℕ → K) (P : List (List K)) (u a b : K) (ha : 0 < a) :
    curvePoint p (fun i => a * U i + b) P (a * u + b) = curvePoint p U P u :=
  curvePoint_affine_knots p U P u a b ha

/-- knot range, surfaces: `evaluate_single` (span search + A3.5) with knots `a₁•Uu + b₁`, `a₂•Uv + b₂`
    at `(a₁·u + b₁, a₂·v + b₂)` equals evaluation with `Uu`, `Uv` at `(u, v)` – independently per
    direction, any increasing affine maps, every parameter. -/
theorem surface_point_affine_knots (pu pv : ℕ) (Uu Uv : ℕ → K) (su sv : ℕ) (P : List (List K)) (u v : K)
    (a1 b1 a2 b2 : K) (h1 : 0 < a1) (h2 : 0 < a2) :
    surfacePoint pu pv (fun i => a1 * Uu i + b1) (fun i => a2 * Uv i + b2) su sv P (a1 * u + b1) (a2 * v + b2)
      = surfacePoint pu pv Uu Uv su sv P u v :=
  surfacePoint_affine_knots pu pv Uu Uv su sv P u v a1 b1 a2 b2 h1 h2

/-- knot range, volumes: the same for the three directions of `volumePoint`. -/
theorem volume_point_affine_knots (pu pv pw : ℕ) (Uu Uv Uw : ℕ → K) (su sv sw : ℕ) (P : List (List K)) (u v w : K)
    (a1 b1 a2 b2 a3 b3 : K) (h1 : 0 < a1) (h2 : 0 < a2) (h3 : 0 < a3) :
    volumePoint pu pv pw (fun i => a1 * Uu i + b1) (fun i => a2 * Uv i + b2) (fun i => a3 * Uw i + b3) su sv sw P
        (a1 * u + b1) (a2 * v + b2) (a3 * w + b3)
      = volumePoint pu pv pw Uu Uv Uw su sv sw P u v w :=
  volumePoint_affine_knots pu pv pw Uu Uv Uw su sv sw P u v w a1 b1 a2 b2 a3 b3 h1 h2 h3

/-- normalised vs original knot vector, curves: evaluating with `knotvector.normalize(U)` (model
    `knotNormalize`) at the normalised parameter `(u - U_first)/(U_last - U_first)` equals evaluating
    with `U` at `u` (knot range of positive length; every parameter). -/
theorem curve_point_normalized_knots (p : ℕ) (Ul : List K) (P : List (List K)) (u : K)
    (hne : Ul ≠ []) (hr : Ul.headD 0 < Ul.getLastD 0) :
    curvePoint p (fnOf (knotNormalize Ul)) P ((u - Ul.headD 0) / (Ul.getLastD 0 - Ul.headD 0))
      = curvePoint p (fnOf Ul) P u :=
  curvePoint_normalized p Ul P u hne hr

/-- normalised vs original knot vectors, surfaces (each direction normalised on its own range). -/
theorem surface_point_normalized_knots (pu pv : ℕ) (Uul Uvl : List K) (su sv : ℕ) (P : List (List K)) (u v : K)
    (hneu : Uul ≠ []) (hru : Uul.headD 0 < Uul.getLastD 0) (hnev : Uvl ≠ []) (hrv : Uvl.headD 0 < Uvl.getLastD 0) :
    surfacePoint pu pv (fnOf (knotNormalize Uul)) (fnOf (knotNormalize Uvl)) su sv P
        ((u - Uul.headD 0) / (Uul.getLastD 0 - Uul.headD 0)) ((v - Uvl.headD 0) / (Uvl.getLastD 0 - Uvl.headD 0))
      = surfacePoint pu pv (fnOf Uul) (fnOf Uvl) su sv P u v :=
  surfacePoint_normalized pu pv Uul Uvl su sv P u v hneu hru hnev hrv

/-- normalised vs original knot vectors, volumes. -/
theorem volume_point_normalized_knots (pu pv pw : ℕ) (Uul Uvl Uwl : List K) (su sv sw : ℕ) (P : List (List K)) (u v w : K)
    (hneu : Uul ≠ []) (hru : Uul.headD 0 < Uul.getLastD 0) (hnev : Uvl ≠ []) (hrv : Uvl.headD 0 < Uvl.getLastD 0)
    (hnew : Uwl ≠ []) (hrw : Uwl.headD 0 < Uwl.getLastD 0) :
    volumePoint pu pv pw (fnOf (knotNormalize Uul)) (fnOf (knotNormalize Uvl)) (fnOf (knotNormalize Uwl)) su sv sw P
        ((u - Uul.headD 0) / (Uul.getLastD 0 - Uul.headD 0)) ((v - Uvl.headD 0) / (Uvl.getLastD 0 - Uvl.headD 0))
        ((w - Uwl.headD 0) / (Uwl.getLastD 0 - Uwl.headD 0))
      = volumePoint pu pv pw (fnOf Uul) (fnOf Uvl) (fnOf Uwl) su sv sw P u v w :=
  volumePoint_normalized pu pv pw Uul Uvl Uwl su sv sw P u v w hneu hru hnev hrv hnew hrw

/-- non-vacuity: knots on the range `[1, 5]`, parameter 4 ↦ 3/4 -/
example : curvePoint 2 (fnOf (knotNormalize ([1,1,1,3,5,5,5] : List ℚ))) [[0,0],[1,2],[3,1],[4,4]] ((4 - 1) / (5 - 1))
    = curvePoint 2 (fnOf ([1,1,1,3,5,5,5] : List ℚ)) [[0,0],[1,2],[3,1],[4,4]] 4 :=
  curve_point_normalized_knots 2 _ _ 4 (by simp) (by decide +kernel)

/-- memoisation: starting from an empty cache of any capacity, the answers to any sequence of
    calls are exactly the function values -/
theorem lru_transparent {α β : Type} [DecidableEq α] (f : α → β) (cap : ℕ) (xs : List α) :
    LRU.run f (LRU.mk cap []) xs = xs.map f :=
  LRU.run_eq_map f xs _ (LRU.empty_inv f cap)

/-- non-vacuity: capacity 1, alternating keys (every call after the first evicts) -/
example : LRU.run (fun n : ℕ => n * n) (LRU.mk 1 []) [2, 3, 2, 3] = [4, 9, 4, 9] := by decide

end C17
