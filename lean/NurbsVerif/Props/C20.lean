import NurbsVerif.Lemmas.PredicatesPlanar
import NurbsVerif.Lemmas.PredicatesRay
import NurbsVerif.Lemmas.PredicatesVoxel
import NurbsVerif.Lemmas.PredicatesCtrlpts
import NurbsVerif.Lemmas.WindingOne
import NurbsVerif.Lemmas.FrangeGeneral
import NurbsVerif.Lemmas.BasisPositiveCtrlpts
import NurbsVerif.Lemmas.FitParams

/-!
# C20  Planar predicates and spatial queries agree with exact arithmetic

Property theorems only (helper lemmas live in `Lemmas/Predicates*.lean`).  `K` is any linearly
ordered field (ℚ – hence every finite double – and ℝ).  The model functions are the ones the
correspondence check runs against `linalg.is_left / wn_poly / convex_hull`, `ray.intersect`,
`voxelize.voxelize` (and its helpers) and `operations.find_ctrlpts`.

Convex hull and winding number (round 3): `convexHull_correct` (subset, containment of every input
point, strict convexity, distinct vertices – all cases including collinear and duplicate points),
`halfHull_invariant` (Andrew's invariant of one scan), `wnPoly_convex` (strictly convex polygon, point
off the boundary), `wnNum_convex_value`, `wnPoly_convex_offLines`, `wnNum_inside_ge_one`,
`wnNum_separated_zero`, `wnPoly_convexHull` / `wnNum_convexHull_interior` (composition of both routines).

Not proved (kept visible, see also `PARTIAL` in harness/props/c20.py):
* `wn_poly = inside` for arbitrary *simple* (non-convex) polygons (proved without convexity: counter
  `≥ 1` for a point strictly left of every edge, `= 0` for a point separated from the vertices by a
  line; for strictly convex polygons the counter is exactly 1 / 0, `wnNum_convex_value`);
* minimality of the hull in the sense "no proper sub-polygon contains the points" is not stated
  separately – it is the conjunction of `hull ⊆ input`, strict convexity and distinctness.

`find_ctrlpts` (round 7): the returned control points are EXACTLY the active ones.  Strict positivity of
A2.2 inside a span (`basisFuns_positive_inside`), the exact zero pattern of A2.2 on a closed non-empty
span (`basisFuns_zero_pattern`, left end `basisFuns_zero_pattern_left_end`), of the Cox–de Boor functions
on a half-open span (`coxDeBoor_zero_pattern`); `findCtrlpts_exact` / `findCtrlpts_surface_exact` (index
sets, both inclusions), `findCtrlpts_exact_list` / `findCtrlpts_surface_exact_list` (the returned list is
the net filtered by "basis function ≠ 0"), `findCtrlpts_active_at_any_parameter` (knots included),
`findCtrlpts_active_closed_domain`, and the right end `u = U_n`: `findCtrlpts_right_end_indices`,
`findCtrlpts_right_end_active`, `findCtrlpts_right_end_clamped`.
-/
namespace C20
open Geomdl Blossom
variable {K : Type} [Field K] [LinearOrder K] [IsStrictOrderedRing K]

/-! ## `linalg.is_left` -/

/-- `is_left(P0, P1, P2)` is the 2×2 determinant of the edge vector `P1 - P0` and `P2 - P0`. -/
theorem isLeft_is_determinant (p0 p1 p2 : K × K) :
    isLeft p0 p1 p2 = Matrix.det !![p1.1 - p0.1, p1.2 - p0.2; p2.1 - p0.1, p2.2 - p0.2] :=
  isLeft_eq_det p0 p1 p2

/-- Sign meaning: write `P2 = P0 + s·d + t·n` with `d = P1 - P0 ≠ 0` and `n` the left normal of
    `d` (`d` rotated by +90°).  Then `is_left = t·|d|²`, so it is positive / zero / negative exactly
    when `P2` is left of / on / right of the directed line `P0 → P1`. -/
theorem isLeft_sign_meaning (p0 p1 : K × K) (hne : p0 ≠ p1) (s t : K) :
    let p2 : K × K := (p0.1 + s * (p1.1 - p0.1) + t * (-(p1.2 - p0.2)), p0.2 + s * (p1.2 - p0.2) + t * (p1.1 - p0.1))
    (0 < isLeft p0 p1 p2 ↔ 0 < t) ∧ (isLeft p0 p1 p2 = 0 ↔ t = 0) ∧ (isLeft p0 p1 p2 < 0 ↔ t < 0) := by
  intro p2
  have hpos := normSq_pos_of_ne p0 p1 hne
  have h : isLeft p0 p1 p2 = t * ((p1.1 - p0.1) ^ 2 + (p1.2 - p0.2) ^ 2) := isLeft_normal_coord p0 p1 s t
  rw [h]
  refine ⟨?_, ?_, ?_⟩
  · exact ⟨fun h' => (pos_iff_pos_of_mul_pos h').mpr hpos, fun ht => mul_pos ht hpos⟩
  · constructor
    · intro h'; rcases mul_eq_zero.mp h' with h0 | h0
      · exact h0
      · exact absurd h0 (ne_of_gt hpos)
    · intro ht; rw [ht, zero_mul]
  · constructor
    · intro h'
      by_contra hn
      have : 0 ≤ t * ((p1.1 - p0.1) ^ 2 + (p1.2 - p0.2) ^ 2) := mul_nonneg (not_lt.mp hn) (le_of_lt hpos)
      exact absurd h' (not_lt.mpr this)
    · intro ht; exact mul_neg_of_neg_of_pos ht hpos

/-- An affine map `x ↦ A x + b` multiplies `is_left` by `det A`: the orientation test is invariant
    under translations and rotations and scales with positive factors. -/
theorem isLeft_affine (a11 a12 a21 a22 b1 b2 : K) (p0 p1 p2 : K × K) :
    let f : K × K → K × K := fun p => (a11 * p.1 + a12 * p.2 + b1, a21 * p.1 + a22 * p.2 + b2)
    isLeft (f p0) (f p1) (f p2) = (a11 * a22 - a12 * a21) * isLeft p0 p1 p2 :=
  Geomdl.isLeft_affine a11 a12 a21 a22 b1 b2 p0 p1 p2

/-! ## `linalg.wn_poly` -/

/-- The crossing rule coded in `wn_poly`: an edge counts +1 exactly when it crosses the horizontal
    line through the point upwards (start at or below, end strictly above) with the point strictly
    to its left, −1 exactly when it crosses downwards with the point strictly to its right, and 0
    otherwise. -/
theorem wnEdge_rule (pt a b : K × K) :
    (wnEdge pt a b = 1 ↔ a.2 ≤ pt.2 ∧ pt.2 < b.2 ∧ 0 < isLeft a b pt) ∧
    (wnEdge pt a b = -1 ↔ pt.2 < a.2 ∧ b.2 ≤ pt.2 ∧ isLeft a b pt < 0) ∧
    (wnEdge pt a b = 1 ∨ wnEdge pt a b = -1 ∨ wnEdge pt a b = 0) := by
  unfold wnEdge
  refine ⟨?_, ?_, ?_⟩
  · split_ifs <;> simp_all
  · split_ifs <;> simp_all
  · split_ifs <;> decide

/-- The winding counter is the sum of the edge contributions in order.
    (Unfolding lemma (one step of the recursion that defines `wnNum`).) -/
theorem wnNum_is_edge_sum (pt a b : K × K) (rest : List (K × K)) :
    wnNum pt (a :: b :: rest) = wnEdge pt a b + wnNum pt (b :: rest) :=
  wnNum_cons_cons pt a b rest

/-- Translating the point and the polygon by the same vector does not change the result. -/
theorem wnPoly_translation_invariant (v pt : K × K) (poly : List (K × K)) :
    wnPoly (pt.1 + v.1, pt.2 + v.2) (poly.map (fun p => (p.1 + v.1, p.2 + v.2))) = wnPoly pt poly := by
  unfold wnPoly; rw [wnNum_translate]

/-- Traversing the polygon in the opposite direction negates the winding counter, hence does not
    change the inside / outside answer (no off-boundary hypothesis is needed). -/
theorem wnPoly_reversal (pt : K × K) (poly : List (K × K)) :
    wnNum pt poly.reverse = - wnNum pt poly ∧ wnPoly pt poly.reverse = wnPoly pt poly := by
  refine ⟨wnNum_reverse pt poly, ?_⟩
  unfold wnPoly; rw [wnNum_reverse]
  by_cases h : wnNum pt poly = 0
  · simp [h]
  · have h' : -wnNum pt poly ≠ 0 := by omega
    rw [bne_iff_ne.mpr h, bne_iff_ne.mpr h']

/-- Starting the closed polygon `a, b, …, a` at its second vertex (`b, …, a, b`) does not change the
    winding counter; by iteration the start vertex is irrelevant. -/
theorem wnPoly_cyclic_shift (pt a b : K × K) (rest : List (K × K)) :
    wnNum pt ((b :: rest ++ [a]) ++ [b]) = wnNum pt (a :: (b :: rest ++ [a])) ∧
    wnPoly pt ((b :: rest ++ [a]) ++ [b]) = wnPoly pt (a :: (b :: rest ++ [a])) := by
  refine ⟨wnNum_cyclic pt a b rest, ?_⟩
  unfold wnPoly; rw [wnNum_cyclic]

/-! ## `linalg.convex_hull` -/

/-- Every vertex returned by the monotone-chain scan is one of the input points (part (1) of
    `convexHull_correct`, kept under its round-1 name).  The pop loop of `keep_left` is modelled by
    structural recursion on the stack, i.e. it terminates. -/
theorem convexHull_correct_partial (pts : List (K × K)) : ∀ x ∈ convexHull pts, x ∈ pts :=
  fun x hx => convexHull_subset pts x hx

/-- The lower chain `l` and the upper chain `u` computed by the two scans are chains of strict left
    turns, and the result is `l ++ u[1:-1]` (round-1 name; the junction turns and containment are in
    `convexHull_strictly_convex` / `convexHull_contains_all`). -/
theorem convexHull_chains_turn_left_partial (pts : List (K × K)) :
    LeftChainFwd (halfHull (sortLex pts)) ∧ LeftChainFwd (halfHull (sortLex pts).reverse) ∧
    convexHull pts = halfHull (sortLex pts) ++ ((halfHull (sortLex pts).reverse).drop 1).dropLast :=
  ⟨halfHull_left_turns _, halfHull_left_turns _, rfl⟩

/-- **Andrew's invariant** of one scan `reduce(keep_left, pts, [])` over a non-empty list that is
    sorted with respect to a half-plane cone `pos` (the lexicographic order for `sorted(points)`, its
    reverse for `reversed(sorted(points))`): the returned chain consists of input points, is strictly
    increasing in the order, turns strictly left at every inner vertex, starts at the first and ends at
    the last point of the list, and **no input point lies strictly to the right of any of its
    edges**.  (The invariant after every prefix is `Geomdl.ScanInv`, kept by `ScanInv.step`.) -/
theorem halfHull_invariant (pos : K → K → Prop) (hc : IsCone pos) (m : K × K) (pts : List (K × K))
    (hsorted : (m :: pts).Pairwise (cle pos)) :
    let h := halfHull (m :: pts)
    (∀ x ∈ h, x ∈ m :: pts) ∧ h.Pairwise (clt pos) ∧ LeftChainFwd h ∧
    (∀ q ∈ m :: pts, ∀ e ∈ pairs h, 0 ≤ isLeft e.1 e.2 q) ∧
    h.head? = some m ∧ (∃ M, h.getLast? = some M ∧ ∀ q ∈ m :: pts, cle pos q M) := by
  intro h
  have hh := halfHull_spec hc m pts hsorted
  obtain ⟨m', rest, e, _⟩ := hh.first
  have hm : h.head? = some m := by
    show (halfHull (m :: pts)).head? = some m
    unfold halfHull
    rw [List.head?_reverse]
    exact (scanInv_sorted hc m pts hsorted).bottom
  exact ⟨hh.sub, hh.sorted, hh.chain, hh.contain, hm, hh.last⟩

/-- `sorted(points)` is sorted lexicographically (`cle lexPos a b` is Python's `a <= b` on `[x, y]`),
    and `reversed(sorted(points))` is sorted for the reversed order: the hypothesis of
    `halfHull_invariant` holds for both scans of `convex_hull`. -/
theorem sortLex_is_sorted (pts : List (K × K)) :
    (sortLex pts).Pairwise (cle lexPos) ∧ (sortLex pts).reverse.Pairwise (cle negLex) ∧
    (sortLex pts).Perm pts ∧ (∀ a b : K × K, lexLe a b = true ↔ cle lexPos a b) :=
  ⟨sortLex_sorted pts, sortLex_reverse_sorted pts, sortLex_perm pts, lexLe_iff⟩

/-- **Shape of the result** (what the code does with degenerate input): no point – empty hull; all
    points equal – that single point; otherwise the lower chain `m … M` (lexicographic minimum to
    maximum) followed by the inner vertices of the upper chain `M … m`.  Collinear input therefore
    yields the two extreme points. -/
theorem convexHull_shape (pts : List (K × K)) :
    (pts = [] ∧ convexHull pts = []) ∨
    (∃ m, (∀ q ∈ pts, q = m) ∧ convexHull pts = [m]) ∨
    (∃ l u m M lT uT, HalfHull lexPos pts l ∧ HalfHull negLex pts u ∧ l = m :: lT ∧ lT ≠ [] ∧
      u = M :: uT ∧ uT ≠ [] ∧ l.getLast? = some M ∧ u.getLast? = some m ∧
      convexHull pts = l ++ uT.dropLast) :=
  convexHull_cases pts

/-- **Containment** (Tier 2): every input point is left of or on every edge of the closed polygon
    `H + [H[0]]` formed by the returned vertex list `H` – for every finite input, including
    duplicates and collinear points. -/
theorem convexHull_contains_all (pts : List (K × K)) :
    ∀ q ∈ pts, ∀ e ∈ pairs (convexHull pts ++ (convexHull pts).take 1), 0 ≤ isLeft e.1 e.2 q :=
  convexHull_contains pts

/-- **Strict convexity** (Tier 3): if the hull has at least three vertices, every three cyclically
    consecutive vertices (`H + H[:2]` lists them all, the two junctions of lower and upper chain
    included) make a strict left turn: the polygon is counter-clockwise and has no collinear
    vertices. -/
theorem convexHull_strictly_convex (pts : List (K × K)) (h3 : 3 ≤ (convexHull pts).length) :
    LeftChainFwd (convexHull pts ++ (convexHull pts).take 2) :=
  convexHull_strict pts h3

/-- The returned vertices are pairwise distinct. -/
theorem convexHull_vertices_distinct (pts : List (K × K)) : (convexHull pts).Nodup :=
  convexHull_nodup pts

/-- **`convex_hull` is correct**: for every finite point list the result `H`
    (1) consists of input points, (2) has pairwise distinct vertices, (3) every input point is left
    of or on every edge of the closed polygon `H + [H[0]]`, and (4) with three or more vertices the
    polygon is strictly convex and counter-clockwise. -/
theorem convexHull_correct (pts : List (K × K)) :
    (∀ x ∈ convexHull pts, x ∈ pts) ∧ (convexHull pts).Nodup ∧
    (∀ q ∈ pts, ∀ e ∈ pairs (convexHull pts ++ (convexHull pts).take 1), 0 ≤ isLeft e.1 e.2 q) ∧
    (3 ≤ (convexHull pts).length → LeftChainFwd (convexHull pts ++ (convexHull pts).take 2)) :=
  ⟨fun x hx => convexHull_subset pts x hx, convexHull_nodup pts, convexHull_contains pts,
   convexHull_strict pts⟩

/-! ## `linalg.wn_poly` on convex polygons -/

/-- **Inside**: a point strictly left of every edge of a closed polygon `V₀, …, Vₙ = V₀` (at least
    one edge; no convexity needed) has a winding counter of at least 1, so `wn_poly` answers True. -/
theorem wnNum_inside_ge_one (pt : K × K) (poly : List (K × K)) (hclosed : poly.head? = poly.getLast?)
    (hlen : 2 ≤ poly.length) (he : ∀ e ∈ pairs poly, 0 < isLeft e.1 e.2 pt) :
    1 ≤ wnNum pt poly ∧ wnPoly pt poly = true := by
  have h := wnNum_inside pt poly hclosed hlen he
  refine ⟨h, ?_⟩
  unfold wnPoly; rw [bne_iff_ne]; omega

/-- **Outside**: if a line `a b` separates the point strictly from the closed polygon (`pt` strictly
    right of it, every vertex left of or on it; no convexity needed) the winding counter is 0 and
    `wn_poly` answers False.  For a convex counter-clockwise polygon every edge line qualifies. -/
theorem wnNum_separated_zero (pt a b : K × K) (poly : List (K × K)) (hclosed : poly.head? = poly.getLast?)
    (hpt : isLeft a b pt < 0) (hv : ∀ v ∈ poly, 0 ≤ isLeft a b v) :
    wnNum pt poly = 0 ∧ wnPoly pt poly = false := by
  have h := wnNum_separated pt a b poly hclosed hpt hv
  refine ⟨h, ?_⟩
  unfold wnPoly; rw [h]; rfl

/-- Convex counter-clockwise closed polygon (every vertex left of or on every edge), point on none
    of the edge *lines*: `wn_poly` is True exactly when the point is strictly left of every edge. -/
theorem wnPoly_convex_offLines (pt : K × K) (poly : List (K × K)) (hclosed : poly.head? = poly.getLast?)
    (hlen : 2 ≤ poly.length) (hconv : ∀ e ∈ pairs poly, ∀ v ∈ poly, 0 ≤ isLeft e.1 e.2 v)
    (hoff : ∀ e ∈ pairs poly, isLeft e.1 e.2 pt ≠ 0) :
    wnPoly pt poly = true ↔ ∀ e ∈ pairs poly, 0 < isLeft e.1 e.2 pt :=
  wnPoly_convex_iff pt poly hclosed hlen hconv hoff

/-- **`wn_poly` for a strictly convex counter-clockwise polygon and a point off the boundary.**
    `H` is the vertex list, the polygon passed to `wn_poly` is `H + [H[0]]`; every vertex is left of
    or on every edge, every three cyclically consecutive vertices turn strictly left, and `pt` lies on
    no closed edge segment (`onSegment`, see `onSegment_param`).  Then `wn_poly(pt, H + [H[0]])` is
    True exactly when `pt` is strictly left of every edge, i.e. strictly inside. -/
theorem wnPoly_convex (H : List (K × K)) (pt : K × K)
    (hconv : ∀ e ∈ pairs (H ++ H.take 1), ∀ v ∈ H, 0 ≤ isLeft e.1 e.2 v)
    (hstrict : LeftChainFwd (H ++ H.take 2)) (h2 : 2 ≤ H.length)
    (hoff : ∀ e ∈ pairs (H ++ H.take 1), ¬ onSegment e.1 e.2 pt) :
    wnPoly pt (H ++ H.take 1) = true ↔ ∀ e ∈ pairs (H ++ H.take 1), 0 < isLeft e.1 e.2 pt :=
  wnPoly_strictConvex_iff H pt hconv hstrict h2 hoff

/-- **Value of the winding counter** for a strictly convex counter-clockwise polygon with pairwise
    distinct vertices and a point off the boundary: exactly 1 for a point strictly left of every edge
    (a convex polygon crosses the horizontal line through the point upwards only once), exactly 0
    otherwise. -/
theorem wnNum_convex_value (H : List (K × K)) (pt : K × K) (hnd : H.Nodup)
    (hconv : ∀ e ∈ pairs (H ++ H.take 1), ∀ v ∈ H, 0 ≤ isLeft e.1 e.2 v)
    (hstrict : LeftChainFwd (H ++ H.take 2)) (h2 : 2 ≤ H.length)
    (hoff : ∀ e ∈ pairs (H ++ H.take 1), ¬ onSegment e.1 e.2 pt) :
    ((∀ e ∈ pairs (H ++ H.take 1), 0 < isLeft e.1 e.2 pt) → wnNum pt (H ++ H.take 1) = 1) ∧
    (¬ (∀ e ∈ pairs (H ++ H.take 1), 0 < isLeft e.1 e.2 pt) → wnNum pt (H ++ H.take 1) = 0) := by
  refine ⟨wnNum_strictConvex_eq_one H pt h2 hnd hconv hstrict, ?_⟩
  intro hn
  have h := wnPoly_strictConvex_iff H pt hconv hstrict h2 hoff
  by_contra hne
  exact hn (h.mp (by unfold wnPoly; rw [bne_iff_ne]; exact hne))

/-- `onSegment a b p` means what it says: `a + t (b - a)` is on the segment iff `0 ≤ t ≤ 1`. -/
theorem onSegment_meaning (a b : K × K) (hne : a ≠ b) (t : K) :
    onSegment a b (a.1 + t * (b.1 - a.1), a.2 + t * (b.2 - a.2)) ↔ 0 ≤ t ∧ t ≤ 1 :=
  onSegment_param a b hne t

/-- **Both routines together**: for a point set whose hull `H = convex_hull(pts)` has at least three
    vertices and a point `pt` not on the hull boundary, `wn_poly(pt, H + [H[0]])` is True exactly when
    `pt` is strictly left of every hull edge. -/
theorem wnPoly_convexHull (pts : List (K × K)) (h3 : 3 ≤ (convexHull pts).length) (pt : K × K)
    (hoff : ∀ e ∈ pairs (convexHull pts ++ (convexHull pts).take 1), ¬ onSegment e.1 e.2 pt) :
    wnPoly pt (convexHull pts ++ (convexHull pts).take 1) = true ↔
      ∀ e ∈ pairs (convexHull pts ++ (convexHull pts).take 1), 0 < isLeft e.1 e.2 pt :=
  wnPoly_convexHull_offBoundary pts h3 pt hoff

/-- … and the winding counter of a point strictly inside the hull is exactly 1. -/
theorem wnNum_convexHull_interior (pts : List (K × K)) (h3 : 3 ≤ (convexHull pts).length) (pt : K × K)
    (hin : ∀ e ∈ pairs (convexHull pts ++ (convexHull pts).take 1), 0 < isLeft e.1 e.2 pt) :
    wnNum pt (convexHull pts ++ (convexHull pts).take 1) = 1 :=
  wnNum_convexHull_eq_one pts h3 pt hin

/-! ## `ray.intersect` -/

/-- Status COLINEAR is reported exactly when every component of `d₁ × d₂` is below `tol` in absolute
    value (as coded). -/
theorem ray_status_colinear_iff (a1 a2 b1 b2 : K × K × K) (tol m : K) :
    (intersect3d a1 a2 b1 b2 tol m).2.2 = stCOLINEAR ↔
      |(rayCross a1 a2 b1 b2).1| < tol ∧ |(rayCross a1 a2 b1 b2).2.1| < tol ∧ |(rayCross a1 a2 b1 b2).2.2| < tol := by
  rw [intersect3d_colinear_iff, isZero3_iff]

/-- Exactly parallel rays (coincident or not) are reported COLINEAR for every positive tolerance. -/
theorem ray_parallel_colinear (a1 a2 b1 b2 : K × K × K) (tol m : K) (ht : 0 < tol)
    (hpar : rayCross a1 a2 b1 b2 = (0, 0, 0)) : (intersect3d a1 a2 b1 b2 tol m).2.2 = stCOLINEAR :=
  intersect3d_parallel a1 a2 b1 b2 tol m ht hpar

/-- The vector identity behind the routine: with the exact magnitude `m² = |d₁ × d₂|² ≠ 0` the
    returned parameters are those of the closest points – the vector from `r₁(t₁)` to `r₂(t₂)` is
    the component of `p₂ - p₁` along the common normal `c = d₁ × d₂`. -/
theorem ray_closest_points (a1 a2 b1 b2 : K × K × K) (tol m : K)
    (hz : isZero3 (rayCross a1 a2 b1 b2) tol = false)
    (hm : m * m = normSq3 (rayCross a1 a2 b1 b2)) (hc : normSq3 (rayCross a1 a2 b1 b2) ≠ 0) :
    let r := intersect3d a1 a2 b1 b2 tol m
    let c := rayCross a1 a2 b1 b2
    let lam := rayTriple a1 a2 b1 b2 / normSq3 c
    vgen3 (rayEval a1 (vgen3 a1 a2) r.1) (rayEval b1 (vgen3 b1 b2) r.2.1) = (lam * c.1, lam * c.2.1, lam * c.2.2) := by
  intro r c lam
  obtain ⟨h1, h2⟩ := intersect3d_params a1 a2 b1 b2 tol m hz
  simp only [r]; rw [h1, h2]
  exact ray_gap a1 a2 b1 b2 m hm hc

/-- **Ray intersection identity.**  If the rays are not colinear (`d₁ × d₂` fails the zero test),
    coplanar (`(p₂ - p₁)·(d₁ × d₂) = 0`) and `m` is the exact magnitude of `d₁ × d₂`, then the two
    returned parameters give exactly the same point, `p₁ + t₁ d₁ = p₂ + t₂ d₂`, and the status is
    INTERSECT. -/
theorem ray_intersection_identity (a1 a2 b1 b2 : K × K × K) (tol m : K) (ht : 0 < tol)
    (hz : isZero3 (rayCross a1 a2 b1 b2) tol = false)
    (hm : m * m = normSq3 (rayCross a1 a2 b1 b2)) (hcop : rayTriple a1 a2 b1 b2 = 0) :
    let r := intersect3d a1 a2 b1 b2 tol m
    rayEval a1 (vgen3 a1 a2) r.1 = rayEval b1 (vgen3 b1 b2) r.2.1 ∧ r.2.2 = stINTERSECT :=
  intersect3d_coplanar a1 a2 b1 b2 tol m ht hz hm hcop

/-- Completeness: whenever the two lines really meet, `p₁ + s d₁ = p₂ + s' d₂`, and are not
    colinear, the routine returns exactly these parameters and status INTERSECT. -/
theorem ray_meet_returns_parameters (a1 a2 b1 b2 : K × K × K) (tol m : K) (ht : 0 < tol)
    (hz : isZero3 (rayCross a1 a2 b1 b2) tol = false)
    (hm : m * m = normSq3 (rayCross a1 a2 b1 b2)) (s s' : K)
    (hmeet : rayEval a1 (vgen3 a1 a2) s = rayEval b1 (vgen3 b1 b2) s') :
    intersect3d a1 a2 b1 b2 tol m = (s, s', stINTERSECT) :=
  intersect3d_meet a1 a2 b1 b2 tol m ht hz hm s s' hmeet

/-- Correct status for non-colinear rays (exact magnitude): INTERSECT iff the distance of the two
    lines, `|(p₂ - p₁)·c| / |c|`, is below `tol` – stated without square roots – and SKEW otherwise. -/
theorem ray_status_skew_iff (a1 a2 b1 b2 : K × K × K) (tol m : K) (ht : 0 < tol)
    (hz : isZero3 (rayCross a1 a2 b1 b2) tol = false)
    (hm : m * m = normSq3 (rayCross a1 a2 b1 b2)) :
    (intersect3d a1 a2 b1 b2 tol m).2.2
      = if rayTriple a1 a2 b1 b2 ^ 2 < tol * tol * normSq3 (rayCross a1 a2 b1 b2) then stINTERSECT else stSKEW :=
  intersect3d_status_exact a1 a2 b1 b2 tol m ht hz hm

/-- 2-D rays (lifted with homogeneous coordinate 1, as `_intersect2d` does) are always coplanar;
    hence, with the exact magnitude, non-colinear 2-D rays are never SKEW and the returned
    parameters give the same planar point on both rays. -/
theorem ray2d_always_coplanar (a1 a2 b1 b2 : K × K) (tol m : K) (ht : 0 < tol)
    (hz : isZero3 (rayCross (a1.1, a1.2, 1) (a2.1, a2.2, 1) (b1.1, b1.2, 1) (b2.1, b2.2, 1)) tol = false)
    (hm : m * m = normSq3 (rayCross (a1.1, a1.2, 1) (a2.1, a2.2, 1) (b1.1, b1.2, 1) (b2.1, b2.2, 1))) :
    rayTriple (a1.1, a1.2, 1) (a2.1, a2.2, 1) (b1.1, b1.2, 1) (b2.1, b2.2, 1) = 0 ∧
    (let r := intersect2d a1 a2 b1 b2 tol m
     a1.1 + (a2.1 - a1.1) * r.1 = b1.1 + (b2.1 - b1.1) * r.2.1 ∧
     a1.2 + (a2.2 - a1.2) * r.1 = b1.2 + (b2.2 - b1.2) * r.2.1 ∧ r.2.2 = stINTERSECT) :=
  ⟨rayTriple_2d a1 a2 b1 b2, intersect2d_point a1 a2 b1 b2 tol m ht hz hm⟩

/-! ## voxelisation -/

/-- `is_point_inside_voxel` (dot products with the edge vectors of the padded box) is the
    coordinate-wise test `min - tol ≤ pt < max + tol` for some point of the array. -/
theorem isPointInsideVoxel_characterisation (bb : (K × K × K) × (K × K × K)) (pts : List (K × K × K)) (tol : K)
    (h1 : bb.1.1 - tol < bb.2.1 + tol) (h2 : bb.1.2.1 - tol < bb.2.2.1 + tol)
    (h3 : bb.1.2.2 - tol < bb.2.2.2 + tol) :
    isPointInsideVoxel bb pts tol = true ↔ ∃ pt ∈ pts, inPadded bb tol pt :=
  isPointInsideVoxel_iff bb pts tol h1 h2 h3

/-- `frange` terminates: fuel `N + 1` suffices as soon as `stop - start ≤ N·step + step/2`. -/
theorem frange_terminates (start stop step : K) (N : ℕ) (hN : stop - start ≤ (N : K) * step + step / 2) :
    ∃ l, frange start stop step (N + 1) = some l :=
  Geomdl.frange_terminates start stop step N hN

/-- In an Archimedean field (ℚ, ℝ) `frange` terminates for every positive step. -/
theorem frange_terminates_archimedean [Archimedean K] (start stop step : K) (hs : 0 < step) :
    ∃ fuel l, frange start stop step fuel = some l :=
  frange_terminates_arch start stop step hs

/-- The values of `frange` cover `[start, stop]` by intervals of one step. -/
theorem frange_covers (start stop step : K) (hs : 0 ≤ step) (fuel : ℕ) (l : List K)
    (h : frange start stop step fuel = some l) (y : K) (hy1 : start ≤ y) (hy2 : y ≤ stop) :
    ∃ g ∈ l, g ≤ y ∧ y ≤ g + step :=
  Geomdl.frange_covers start stop step hs fuel l h y hy1 hy2

/-- When `stop = start + n·step` exactly (the voxel grid in exact arithmetic: `step = extent/(size-1)`)
    `frange` yields exactly the `n + 1` values `start, start + step, …, stop`. -/
theorem frange_exact (start step : K) (hs : 0 < step) (n fuel : ℕ) (hf : n + 1 ≤ fuel) :
    frange start (start + (n : K) * step) step fuel
      = some ((List.range (n + 1)).map (fun (j : ℕ) => start + (j : K) * step)) :=
  Geomdl.frange_exact start step hs n fuel hf

/-- **Values of `frange` for an arbitrary stop value**: with `n` the first index at which the loop
    test `x + step/2 < stop` fails, `frange` returns `start + j·step` for `j = 0..n`, followed by
    `stop` itself when `start + n·step < stop` (the "last value is the stop value" rule). -/
theorem frange_values (start stop step : K) (n fuel : ℕ)
    (hlt : ∀ j, j < n → start + (j : K) * step + step / 2 < stop)
    (hge : stop ≤ start + (n : K) * step + step / 2) (hf : n + 1 ≤ fuel) :
    frange start stop step fuel
      = some ((List.range (n + 1)).map (fun (j : ℕ) => start + (j : K) * step)
          ++ (if start + (n : K) * step < stop then [stop] else [])) :=
  frange_general start stop step n fuel hlt hge hf

/-- For a positive step in an Archimedean field (ℚ, ℝ) such an `n` exists: `frange` terminates and
    yields `start, start + step, …, start + n·step` (and then `stop` if not yet reached). -/
theorem frange_values_archimedean [Archimedean K] (start stop step : K) (hs : 0 < step) :
    ∃ n : ℕ, ∀ fuel, n + 1 ≤ fuel → frange start stop step fuel
      = some ((List.range (n + 1)).map (fun (j : ℕ) => start + (j : K) * step)
          ++ (if start + (n : K) * step < stop then [stop] else [])) :=
  frange_general_arch start stop step hs

/-- **The grid covers the bounding box**: whenever `generate_voxel_grid` returns, every point of
    the (non-inverted) bounding box lies in one of the voxels – cuboids or cubes. -/
theorem voxelGrid_covers_bbox (bmin bmax : K × K × K) (sz : ℕ × ℕ × ℕ) (useCubes : Bool) (fuel : ℕ)
    (g : List ((K × K × K) × (K × K × K))) (h : generateVoxelGrid bmin bmax sz useCubes fuel = some g)
    (h1 : bmin.1 ≤ bmax.1) (h2 : bmin.2.1 ≤ bmax.2.1) (h3 : bmin.2.2 ≤ bmax.2.2)
    (p : K × K × K) (hp : inBox bmin bmax p) : ∃ v ∈ g, inBox v.1 v.2 p :=
  generateVoxelGrid_covers bmin bmax sz useCubes fuel g h h1 h2 h3 p hp

/-- Cuboid voxels on a bounding box of positive extent: the grid is the full product of `size`
    values `min + j·step` per axis (x slowest, z fastest) and has `s₀·s₁·s₂` voxels; fuel `max size`
    suffices, i.e. `frange` stops after exactly `size` values. -/
theorem voxelGrid_cuboid_count (bmin bmax : K × K × K) (sz : ℕ × ℕ × ℕ) (fuel : ℕ)
    (hs1 : 2 ≤ sz.1) (hs2 : 2 ≤ sz.2.1) (hs3 : 2 ≤ sz.2.2)
    (h1 : bmin.1 < bmax.1) (h2 : bmin.2.1 < bmax.2.1) (h3 : bmin.2.2 < bmax.2.2)
    (hf1 : sz.1 ≤ fuel) (hf2 : sz.2.1 ≤ fuel) (hf3 : sz.2.2 ≤ fuel) :
    let s := voxelSteps bmin bmax sz false
    ∃ g, generateVoxelGrid bmin bmax sz false fuel = some g ∧
      g = (List.range sz.1).flatMap (fun (i : ℕ) => (List.range sz.2.1).flatMap (fun (j : ℕ) => (List.range sz.2.2).map (fun (k : ℕ) =>
        ((bmin.1 + (i : K) * s.1, bmin.2.1 + (j : K) * s.2.1, bmin.2.2 + (k : K) * s.2.2),
         (bmin.1 + (i : K) * s.1 + s.1, bmin.2.1 + (j : K) * s.2.1 + s.2.1, bmin.2.2 + (k : K) * s.2.2 + s.2.2))))) ∧
      g.length = sz.1 * (sz.2.1 * sz.2.2) :=
  generateVoxelGrid_cuboid bmin bmax sz fuel hs1 hs2 hs3 h1 h2 h3 hf1 hf2 hf3

/-- **Filled iff some sampled point inside**: `voxelize` returns one flag per voxel, and the flag
    of voxel `i` is 1 exactly when some sampled point lies in the voxel padded by `tol`. -/
theorem voxelize_filled_iff (bmin bmax : K × K × K) (pts : List (K × K × K)) (sz : ℕ × ℕ × ℕ) (useCubes : Bool)
    (tol : K) (fuel : ℕ) (g : List ((K × K × K) × (K × K × K))) (f : List ℕ)
    (h : voxelize bmin bmax pts sz useCubes tol fuel = some (g, f)) (ht : 0 < tol)
    (h1 : bmin.1 ≤ bmax.1) (h2 : bmin.2.1 ≤ bmax.2.1) (h3 : bmin.2.2 ≤ bmax.2.2) :
    f.length = g.length ∧
    ∀ (i : ℕ) bb, g[i]? = some bb → (f[i]? = some 1 ↔ ∃ pt ∈ pts, inPadded bb tol pt) :=
  Geomdl.voxelize_filled_iff bmin bmax pts sz useCubes tol fuel g f h ht h1 h2 h3

/-- Every sampled point inside the bounding box lies in a voxel that is marked filled. -/
theorem voxelize_point_filled (bmin bmax : K × K × K) (pts : List (K × K × K)) (sz : ℕ × ℕ × ℕ) (useCubes : Bool)
    (tol : K) (fuel : ℕ) (g : List ((K × K × K) × (K × K × K))) (f : List ℕ)
    (h : voxelize bmin bmax pts sz useCubes tol fuel = some (g, f)) (ht : 0 < tol)
    (h1 : bmin.1 ≤ bmax.1) (h2 : bmin.2.1 ≤ bmax.2.1) (h3 : bmin.2.2 ≤ bmax.2.2)
    (pt : K × K × K) (hpt : pt ∈ pts) (hin : inBox bmin bmax pt) :
    ∃ (i : ℕ) (bb : (K × K × K) × (K × K × K)), g[i]? = some bb ∧ f[i]? = some 1 ∧ inPadded bb tol pt :=
  Geomdl.voxelize_point_filled bmin bmax pts sz useCubes tol fuel g f h ht h1 h2 h3 pt hpt hin

/-- Finding F-20a (pinned code): with `use_cubes=True` and a bounding box that is flat in one
    direction the common step is 0 and `frange` never stops – the model returns `none` for every
    amount of fuel.  Witness: the box of a patch in the plane `z = 0`, grid size (2,2,2). -/
theorem voxelGrid_cubes_flat_refutes_termination (fuel : ℕ) :
    generateVoxelGrid ((0:ℚ), (0:ℚ), (0:ℚ)) (1, 1, 0) (2, 2, 2) true fuel = none := by
  have h := frange_zero_step_hangs (0:ℚ) 1 (by norm_num) fuel
  unfold generateVoxelGrid
  norm_num [minK, h]

/-! ## `operations.find_ctrlpts` -/

/-- For a curve the routine returns the `p + 1` control points with indices `k - p, …, k`, where
    `k = find_span_linear(p, U, n, u)`. -/
theorem findCtrlpts_curve_indices {α : Type} (d : α) (p : ℕ) (U : ℕ → K) (P : List α) (u : K) :
    (findCtrlptsCurve d p U P u).length = p + 1 ∧
    ∀ j, j ≤ p → (findCtrlptsCurve d p U P u).getD j d = P.getD (findSpanLinear p U P.length u - p + j) d :=
  ⟨findCtrlptsCurve_length d p U P u, fun j hj => findCtrlptsCurve_getD d p U P u j hj⟩

/-- For a surface entry `[a][b]` of the result is control point `(k_u - p_u + a, k_v - p_v + b)`. -/
theorem findCtrlpts_surface_indices {α : Type} (d : α) (pu pv : ℕ) (Uu Uv : ℕ → K) (su sv : ℕ)
    (P2 : List (List α)) (u v : K) (a b : ℕ) (ha : a ≤ pu) (hb : b ≤ pv) :
    ((findCtrlptsSurface d pu pv Uu Uv su sv P2 u v).getD a []).getD b d
      = (P2.getD (findSpanLinear pu Uu su u - pu + a) []).getD (findSpanLinear pv Uv sv v - pv + b) d :=
  findCtrlptsSurface_getD d pu pv Uu Uv su sv P2 u v a b ha hb

/-- Every control point whose basis function (Cox–de Boor, Eq. 2.5) does not vanish at `u` is among
    the returned ones: a non-zero `N_{i,p}(u)` forces `i ∈ {k - p, …, k}` (local support, via
    `Blossom.cdb_eq_basisFuns`).  `u` ranges over the half-open domain `[U_p, U_n)`. -/
theorem findCtrlpts_complete (p : ℕ) (U : ℕ → K) (n : ℕ) (u : K) (hpn : p + 1 ≤ n)
    (hm : Monotone U) (hlo : U p ≤ u) (hhi : u < U n) (i : ℕ) (hne : cdb U p i u ≠ 0) :
    i ∈ findCtrlptsIdx p U n u :=
  mem_findCtrlptsIdx_of_cdb_ne_zero p U n u hpn hm hlo hhi i hne

/-- Surface version: a non-zero tensor-product basis function `N_{i,pu}(u) N_{j,pv}(v)` forces
    `(i, j)` into the returned index rectangle. -/
theorem findCtrlpts_surface_complete (pu pv : ℕ) (Uu Uv : ℕ → K) (su sv : ℕ) (u v : K)
    (hu : pu + 1 ≤ su) (hv : pv + 1 ≤ sv) (hmu : Monotone Uu) (hmv : Monotone Uv)
    (hlu : Uu pu ≤ u) (hhu : u < Uu su) (hlv : Uv pv ≤ v) (hhv : v < Uv sv) (i j : ℕ)
    (hne : cdb Uu pu i u * cdb Uv pv j v ≠ 0) :
    i ∈ findCtrlptsIdx pu Uu su u ∧ j ∈ findCtrlptsIdx pv Uv sv v :=
  ⟨mem_findCtrlptsIdx_of_cdb_ne_zero pu Uu su u hu hmu hlu hhu i (left_ne_zero_of_mul hne),
   mem_findCtrlptsIdx_of_cdb_ne_zero pv Uv sv v hv hmv hlv hhv j (right_ne_zero_of_mul hne)⟩

/-! ## `find_ctrlpts` returns exactly the active control points

Strict positivity of A2.2 and the exact zero pattern of the basis functions; `U` is the knot vector as
a non-decreasing function `ℕ → K`, `k` a span index, entry `j` of `basisFuns p U k u` is the value of
`N_{k-p+j,p}` on span `k`. -/

/-- **Strict positivity of A2.2 inside a span.**  For sorted knots and `U_k < u < U_{k+1}` every one
    of the `p+1` numbers returned by `helpers.basis_function(p, U, k, u)` is positive. -/
theorem basisFuns_positive_inside (p : ℕ) (U : ℕ → K) (k : ℕ) (u : K) (hm : Monotone U)
    (h1 : U k < u) (h2 : u < U (k+1)) :
    (∀ x ∈ basisFuns p U k u, 0 < x) ∧ ∀ j, j ≤ p → 0 < (basisFuns p U k u).getD j 0 :=
  ⟨basisFuns_pos_inside p hm h1 h2, basisFuns_getD_pos_inside p hm h1 h2⟩

/-- **Exact zero pattern of A2.2 on a closed non-empty span** `U_k ≤ u ≤ U_{k+1}`, `U_k < U_{k+1}`,
    `p ≤ k`: every entry is `≥ 0`, and entry `j` (the function `N_{i,p}`, `i = k-p+j`) is positive iff
    (`j = 0` or `U_i < u`) and (`j = p` or `u < U_{i+p+1}`); otherwise it is zero.  Inside the span both
    conditions hold for every `j`; they can fail only at the two ends of the span. -/
theorem basisFuns_zero_pattern (p : ℕ) (U : ℕ → K) (k : ℕ) (u : K) (h : SpanOk U k u) (hp : p ≤ k)
    (j : ℕ) (hj : j ≤ p) :
    0 ≤ (basisFuns p U k u).getD j 0 ∧
    (0 < (basisFuns p U k u).getD j 0 ↔ (j = 0 ∨ U (k + j - p) < u) ∧ (j = p ∨ u < U (k + j + 1))) ∧
    ((basisFuns p U k u).getD j 0 = 0 ↔ ¬ ((j = 0 ∨ U (k + j - p) < u) ∧ (j = p ∨ u < U (k + j + 1)))) :=
  ⟨basisFuns_getD_nonneg_all p h j, basisFuns_pos_iff h p hp j hj, basisFuns_eq_zero_iff h p hp j hj⟩

/-- **Left end of a span** (`u = U_k`, the case a parameter on a knot produces): entry `j` is
    positive iff `j = 0` or `U_{k-p+j} < U_k`.  So with `U_k` repeated `m` times among
    `U_{k-p+1}, …, U_k` the last `m` entries vanish (all but the first when `m = p`), the first `p+1-m`
    are positive; in particular the last entry `N_{k,p}(U_k)` is `0` for `p ≥ 1`. -/
theorem basisFuns_zero_pattern_left_end (p : ℕ) (U : ℕ → K) (k : ℕ) (hm : Monotone U) (hne : U k < U (k+1))
    (hp : p ≤ k) :
    (∀ j, j ≤ p → (0 < (basisFuns p U k (U k)).getD j 0 ↔ (j = 0 ∨ U (k + j - p) < U k))) ∧
    (1 ≤ p → (basisFuns p U k (U k)).getD p 0 = 0) :=
  ⟨fun j hj => basisFuns_pos_iff_left hm hne p hp j hj, fun hp1 => basisFuns_last_zero_left hm hne p hp hp1⟩

/-- **Zero pattern of the Cox–de Boor functions** (Eq. 2.5) on a half-open span `U_k ≤ u < U_{k+1}`:
    `N_{i,p}(u) ≥ 0`, and `N_{i,p}(u) ≠ 0` iff `k-p ≤ i ≤ k` and (`i = k-p` or `U_i < u`). -/
theorem coxDeBoor_zero_pattern (p : ℕ) (U : ℕ → K) (k : ℕ) (u : K) (hm : Monotone U) (h1 : U k ≤ u)
    (h2 : u < U (k+1)) (hp : p ≤ k) (i : ℕ) :
    0 ≤ cdb U p i u ∧ (cdb U p i u ≠ 0 ↔ (k ≤ i + p ∧ i ≤ k) ∧ (i + p = k ∨ U i < u)) :=
  ⟨cdb_nonneg hm h1 h2 p hp i, cdb_ne_zero_iff hm h1 h2 p hp i⟩

/-- **`find_ctrlpts` is exact inside a span (curves).**  For `u` in the domain `[U_p, U_n)` and
    strictly inside the span found (`U_k < u`, `k = find_span_linear(…)`; e.g. `u` is not a knot):
    control point `i` is returned iff its basis function `N_{i,p}` does not vanish at `u`. -/
theorem findCtrlpts_exact (p : ℕ) (U : ℕ → K) (n : ℕ) (u : K) (hpn : p + 1 ≤ n)
    (hm : Monotone U) (hlo : U p ≤ u) (hhi : u < U n) (hin : U (findSpanLinear p U n u) < u) (i : ℕ) :
    i ∈ findCtrlptsIdx p U n u ↔ cdb U p i u ≠ 0 :=
  findCtrlptsIdx_exact p U n u hpn hm hlo hhi hin i

/-- the same with the hypothesis "`u` is not one of the knots `U_0 … U_{n-1}`" -/
theorem findCtrlpts_exact_of_not_knot (p : ℕ) (U : ℕ → K) (n : ℕ) (u : K) (hpn : p + 1 ≤ n)
    (hm : Monotone U) (hlo : U p ≤ u) (hhi : u < U n) (hk : ∀ i, i < n → U i ≠ u) (i : ℕ) :
    i ∈ findCtrlptsIdx p U n u ↔ cdb U p i u ≠ 0 :=
  findCtrlptsIdx_exact p U n u hpn hm hlo hhi (findSpanLinear_inside_of_not_knot p U n u hpn hm hlo hk) i

/-- **List form**: inside a span the list `find_ctrlpts` returns for a curve is the control polygon
    filtered by "`N_{i,p}(u) ≠ 0`" (same points, same order, nothing else). -/
theorem findCtrlpts_exact_list {α : Type} (d : α) (p : ℕ) (U : ℕ → K) (P : List α) (u : K)
    (hpn : p + 1 ≤ P.length) (hm : Monotone U) (hlo : U p ≤ u) (hhi : u < U P.length)
    (hin : U (findSpanLinear p U P.length u) < u) :
    findCtrlptsCurve d p U P u
      = ((List.range P.length).filter (fun i => decide (cdb U p i u ≠ 0))).map (fun i => P.getD i d) :=
  findCtrlptsCurve_eq_filter d p U P u hpn hm hlo hhi hin

/-- **`find_ctrlpts` is exact inside a span (surfaces).**  `(u, v)` strictly inside the pair of spans
    found: control point `(i, j)` is in the returned rectangle iff the tensor-product basis function
    `N_{i,pu}(u)·N_{j,pv}(v)` is non-zero. -/
theorem findCtrlpts_surface_exact (pu pv : ℕ) (Uu Uv : ℕ → K) (su sv : ℕ) (u v : K)
    (hu : pu + 1 ≤ su) (hv : pv + 1 ≤ sv) (hmu : Monotone Uu) (hmv : Monotone Uv)
    (hlu : Uu pu ≤ u) (hhu : u < Uu su) (hlv : Uv pv ≤ v) (hhv : v < Uv sv)
    (hiu : Uu (findSpanLinear pu Uu su u) < u) (hiv : Uv (findSpanLinear pv Uv sv v) < v) (i j : ℕ) :
    (i ∈ findCtrlptsIdx pu Uu su u ∧ j ∈ findCtrlptsIdx pv Uv sv v) ↔ cdb Uu pu i u * cdb Uv pv j v ≠ 0 := by
  rw [findCtrlptsIdx_exact pu Uu su u hu hmu hlu hhu hiu i, findCtrlptsIdx_exact pv Uv sv v hv hmv hlv hhv hiv j]
  exact mul_ne_zero_iff.symm

/-- **List form for surfaces**: the returned 2-D array is the net `ctrlpts2d` restricted to the rows
    `i` with `N_{i,pu}(u) ≠ 0` and the columns `j` with `N_{j,pv}(v) ≠ 0`. -/
theorem findCtrlpts_surface_exact_list {α : Type} (d : α) (pu pv : ℕ) (Uu Uv : ℕ → K) (su sv : ℕ)
    (P2 : List (List α)) (u v : K)
    (hu : pu + 1 ≤ su) (hv : pv + 1 ≤ sv) (hmu : Monotone Uu) (hmv : Monotone Uv)
    (hlu : Uu pu ≤ u) (hhu : u < Uu su) (hlv : Uv pv ≤ v) (hhv : v < Uv sv)
    (hiu : Uu (findSpanLinear pu Uu su u) < u) (hiv : Uv (findSpanLinear pv Uv sv v) < v) :
    findCtrlptsSurface d pu pv Uu Uv su sv P2 u v
      = ((List.range su).filter (fun i => decide (cdb Uu pu i u ≠ 0))).map (fun k =>
          ((List.range sv).filter (fun j => decide (cdb Uv pv j v ≠ 0))).map (fun l => (P2.getD k []).getD l d)) :=
  findCtrlptsSurface_eq_filter d pu pv Uu Uv su sv P2 u v hu hv hmu hmv hlu hhu hlv hhv hiu hiv

/-- **Every parameter of `[U_p, U_n)`, knots included**: `N_{i,p}(u) ≠ 0` iff `i` is a returned index
    and (`i` is the first returned index `k-p`, or `U_i < u`).  On a knot of multiplicity `m ≤ p` the last
    `m` returned control points therefore have a vanishing basis function – the returned set is a
    superset of the active set there, and equal to it otherwise. -/
theorem findCtrlpts_active_at_any_parameter (p : ℕ) (U : ℕ → K) (n : ℕ) (u : K) (hpn : p + 1 ≤ n)
    (hm : Monotone U) (hlo : U p ≤ u) (hhi : u < U n) (i : ℕ) :
    cdb U p i u ≠ 0 ↔ i ∈ findCtrlptsIdx p U n u ∧ (i + p = findSpanLinear p U n u ∨ U i < u) :=
  cdb_ne_zero_iff_findCtrlpts p U n u hpn hm hlo hhi i

/-- **Closed domain `[U_p, U_n]`** (last span non-empty): with the basis functions the evaluation
    uses – the recursion of the span found, `cdbSpan`, which at `u = U_n` is the left limit – function
    `i` is non-zero at `u` iff `i` is returned, and (`i = k-p` or `U_i < u`), and (`i = k` or
    `u < U_{i+p+1}`). -/
theorem findCtrlpts_active_closed_domain (p : ℕ) (U : ℕ → K) (n : ℕ) (h : KnotsOk p U n) (u : K)
    (hlo : U p ≤ u) (hhi : u ≤ U n) (i : ℕ) :
    cdbSpan U (findSpanLinear p U n u) p i u ≠ 0 ↔
      i ∈ findCtrlptsIdx p U n u ∧ (i + p = findSpanLinear p U n u ∨ U i < u)
        ∧ (i = findSpanLinear p U n u ∨ u < U (i + p + 1)) :=
  cdbSpan_ne_zero_iff_findCtrlpts h u hlo hhi i

/-- **Right end of the domain, indices**: at `u = U_n` the span search returns `n-1` and the routine
    returns the last `p+1` control points `n-1-p, …, n-1`. -/
theorem findCtrlpts_right_end_indices (p : ℕ) (U : ℕ → K) (n : ℕ) (hm : Monotone U) (hpn : p + 1 ≤ n) :
    findSpanLinear p U n (U n) = n - 1 ∧ findCtrlptsIdx p U n (U n) = List.range' (n - 1 - p) (p + 1) :=
  ⟨findSpanLinear_right_end hm hpn, findCtrlptsIdx_right_end p U n hm hpn⟩

/-- **Right end of the domain, activity** (last span non-empty): the left-limit basis function `i` is
    non-zero at `U_n` iff `i` is returned and (`i = n-1` or `U_n < U_{i+p+1}`). -/
theorem findCtrlpts_right_end_active (p : ℕ) (U : ℕ → K) (n : ℕ) (h : KnotsOk p U n) (i : ℕ) :
    cdbSpan U (n - 1) p i (U n) ≠ 0 ↔
      i ∈ findCtrlptsIdx p U n (U n) ∧ (i = n - 1 ∨ U n < U (i + p + 1)) :=
  cdbSpan_right_end_ne_zero_iff h i

/-- **Right end of an end-clamped knot vector** (`U_n = U_{n+1} = … = U_{n+p-1}`; the usual clamped
    vector has `U_n = … = U_{n+p}`): at `u = U_n` the basis functions of the span found are
    `N_{n-1,p} = 1` and `0` for every other index – of the `p+1` returned control points only the last
    one is active, with weight one. -/
theorem findCtrlpts_right_end_clamped (p : ℕ) (U : ℕ → K) (n : ℕ) (h : KnotsOk p U n)
    (hU : ∀ r, r + 1 ≤ p → U (n + r) = U n) (i : ℕ) :
    cdbSpan U (findSpanLinear p U n (U n)) p i (U n) = if i = n - 1 then 1 else 0 :=
  cdbSpan_right_end_clamped h hU i

/-! ### non-vacuity of the `find_ctrlpts` theorems: degree 2, knots `0,0,0,1,1,2,2,2` (inner knot `1`
    repeated), 5 control points -/

/-- the knot function is non-decreasing and well-formed (`KnotsOk`: last span `[U_4, U_5]` non-empty) -/
example : KnotsOk 2 (fnOf ([0,0,0,1,1,2,2,2] : List ℚ)) 5 :=
  ⟨fnOf_monotone_of_isSortedB _ (by decide +kernel), by omega, by decide +kernel⟩

/-- hypotheses of `findCtrlpts_exact` at `u = 3/2` (inside span 4) and `u = 1/2` (inside span 2);
    the returned indices and the strictly positive A2.2 values -/
example : let U := fnOf ([0,0,0,1,1,2,2,2] : List ℚ)
    (U 2 ≤ 3/2 ∧ (3/2 : ℚ) < U 5 ∧ U (findSpanLinear 2 U 5 (3/2)) < 3/2) ∧
    findCtrlptsIdx 2 U 5 (3/2) = [2, 3, 4] ∧ basisFuns 2 U 4 (3/2) = [1/4, 1/2, 1/4] ∧
    findCtrlptsIdx 2 U 5 (1/2) = [0, 1, 2] ∧ basisFuns 2 U 2 (1/2) = [1/4, 1/2, 1/4] := by decide +kernel

/-- on the repeated inner knot `u = 1` (left end of span 4, multiplicity 2 = p) the routine still
    returns `[2, 3, 4]` but only `N_2` is non-zero: the hypothesis "strictly inside" of
    `findCtrlpts_exact` cannot be dropped; the pattern is the one of `basisFuns_zero_pattern_left_end` -/
example : let U := fnOf ([0,0,0,1,1,2,2,2] : List ℚ)
    findCtrlptsIdx 2 U 5 1 = [2, 3, 4] ∧ basisFuns 2 U 4 1 = [1, 0, 0] ∧ U 4 < U 5 ∧ U 3 = U 4 := by decide +kernel

/-- a simple inner knot (`0,0,0,1,2,3,3,3`, `u = 1`, span 3): the last entry vanishes, the others are positive -/
example : basisFuns 2 (fnOf ([0,0,0,1,2,3,3,3] : List ℚ)) 3 1 = [1/2, 1/2, 0] := by decide +kernel

/-- right end `u = U_5 = 2`: span 4, indices `[2, 3, 4]`, left-limit values `0, 0, 1`; the clamp
    hypothesis of `findCtrlpts_right_end_clamped` holds -/
example : let U := fnOf ([0,0,0,1,1,2,2,2] : List ℚ)
    findSpanLinear 2 U 5 (U 5) = 4 ∧ findCtrlptsIdx 2 U 5 (U 5) = [2, 3, 4] ∧ basisFuns 2 U 4 (U 5) = [0, 0, 1] ∧
    (∀ r, r + 1 ≤ 2 → U (5 + r) = U 5) := by
  refine ⟨by decide +kernel, by decide +kernel, by decide +kernel, ?_⟩
  intro r hr
  have : r = 0 ∨ r = 1 := by omega
  rcases this with rfl | rfl <;> decide +kernel

/-- surface hypotheses (`findCtrlpts_surface_exact`): degrees 2 × 1, `(u, v) = (3/2, 1/3)` -/
example : let Uu := fnOf ([0,0,0,1,1,2,2,2] : List ℚ); let Uv := fnOf ([0,0,1/2,1,1] : List ℚ)
    (Uu 2 ≤ 3/2 ∧ (3/2 : ℚ) < Uu 5 ∧ Uu (findSpanLinear 2 Uu 5 (3/2)) < 3/2) ∧
    (Uv 1 ≤ 1/3 ∧ (1/3 : ℚ) < Uv 3 ∧ Uv (findSpanLinear 1 Uv 3 (1/3)) < 1/3) ∧
    findCtrlptsIdx 1 Uv 3 (1/3) = [0, 1] := by decide +kernel

/-! ## non-vacuity -/

/-- the unit square, traversed counter-clockwise, contains (1/2, 1/2) and not (2, 1/2) -/
example : wnPoly ((1/2 : ℚ), (1/2 : ℚ)) [(0,0), (1,0), (1,1), (0,1), (0,0)] = true ∧
    wnPoly ((2 : ℚ), (1/2 : ℚ)) [(0,0), (1,0), (1,1), (0,1), (0,0)] = false := by decide +kernel

/-- hull of a square with an interior and a boundary point -/
example : convexHull [((1:ℚ), (1:ℚ)), (0,0), (2,0), (2,2), (1,0), (0,2)] = [(0,0), (2,0), (2,2), (0,2)] := by decide +kernel

/-- hypotheses of `wnPoly_convex` hold for the unit square and the points (1/2,1/2) (inside) and
    (2,1/2) (outside, on no segment); the hull of a point set with duplicates and collinear points has
    four vertices, so `convexHull_strictly_convex` / `wnPoly_convexHull` apply -/
example : let H : List (ℚ × ℚ) := [(0,0), (1,0), (1,1), (0,1)]
    (∀ e ∈ pairs (H ++ H.take 1), ∀ v ∈ H, 0 ≤ isLeft e.1 e.2 v) ∧ 2 ≤ H.length ∧
    (∀ e ∈ pairs (H ++ H.take 1), 0 < isLeft e.1 e.2 ((1/2 : ℚ), (1/2 : ℚ))) ∧
    (∀ e ∈ pairs (H ++ H.take 1), isLeft e.1 e.2 ((2 : ℚ), (1/2 : ℚ)) ≠ 0) := by decide +kernel

example : let H : List (ℚ × ℚ) := [(0,0), (1,0), (1,1), (0,1)]
    H.Nodup ∧ (∀ e ∈ pairs (H ++ H.take 1), ¬ onSegment e.1 e.2 ((2 : ℚ), (1/2 : ℚ))) ∧
    (∀ e ∈ pairs (H ++ H.take 1), ¬ onSegment e.1 e.2 ((1/2 : ℚ), (1/2 : ℚ))) := by
  simp only [onSegment]
  decide +kernel

example : LeftChainFwd ([((0:ℚ),(0:ℚ)), (1,0), (1,1), (0,1)] ++ [((0:ℚ),(0:ℚ)), (1,0), (1,1), (0,1)].take 2) := by
  simp only [List.take, List.cons_append, List.nil_append, LeftChainFwd, and_true]
  decide +kernel

example : 3 ≤ (convexHull [((1:ℚ), (1:ℚ)), (0,0), (2,0), (2,2), (1,0), (0,2), (2,2), (1,1)]).length := by decide +kernel

/-- degenerate inputs: collinear points give the two extreme points, equal points a single vertex -/
example : convexHull [((1:ℚ), (1:ℚ)), (0,0), (2,2), (1,1)] = [(0,0), (2,2)] ∧
    convexHull [((1:ℚ), (1:ℚ)), (1,1)] = [(1,1)] := by decide +kernel

/-- `sorted` input for `halfHull_invariant` -/
example : ([((0:ℚ),(0:ℚ)), (1,0), (1,1), (2,0)].Pairwise (fun a b => lexLe a b = true)) := by decide +kernel

/-- `frange 0 1 (3/10)`: not an exact multiple, `n = 3`, the stop value is appended -/
example : frange (0:ℚ) 1 (3/10) 5 = some [0, 3/10, 3/5, 9/10, 1] := by decide +kernel

/-- two 3-D rays meeting in (1,1,0): hypotheses of `ray_meet_returns_parameters` hold with
    `tol = 1/1000`, `m = 1` (= |d₁ × d₂| exactly), `s = 1`, `s' = 1` -/
example : isZero3 (rayCross ((0:ℚ),(1:ℚ),(0:ℚ)) (1,1,0) (1,0,0) (1,1,0)) (1/1000) = false ∧
    (1:ℚ) * 1 = normSq3 (rayCross ((0:ℚ),(1:ℚ),(0:ℚ)) (1,1,0) (1,0,0) (1,1,0)) ∧
    rayEval ((0:ℚ),(1:ℚ),(0:ℚ)) (vgen3 ((0:ℚ),(1:ℚ),(0:ℚ)) (1,1,0)) 1 = rayEval (1,0,0) (vgen3 ((1:ℚ),(0:ℚ),(0:ℚ)) (1,1,0)) 1 ∧
    intersect3d ((0:ℚ),(1:ℚ),(0:ℚ)) (1,1,0) (1,0,0) (1,1,0) (1/1000) 1 = (1, 1, stINTERSECT) := by decide +kernel

/-- a skew pair (distance 1) and a parallel pair -/
example : (intersect3d ((0:ℚ),(0:ℚ),(0:ℚ)) (1,0,0) (0,0,1) (0,1,1) (1/1000) 1).2.2 = stSKEW ∧
    (intersect3d ((0:ℚ),(0:ℚ),(0:ℚ)) (1,0,0) (0,1,0) (2,1,0) (1/1000) 0).2.2 = stCOLINEAR := by decide +kernel

/-- a 2×3×2 voxel grid of the box [0,1]×[0,1]×[0,2] exists (fuel 4), has 12 voxels, and the sampled
    point (1/2,1/2,1) fills voxels -/
example : (voxelize ((0:ℚ),(0:ℚ),(0:ℚ)) (1,1,2) [(1/2,1/2,1)] (2,3,2) false (1/10) 4).map (fun r => (r.1.length, r.2))
    = some (12, [1,0,1,0,0,0,0,0,0,0,0,0]) := by decide +kernel

/-- `frange 0 1 (1/4)` -/
example : frange (0:ℚ) 1 (1/4) 6 = some [0, 1/4, 1/2, 3/4, 1] := by decide +kernel

end C20
